/-
  C16 — An octet string's content is the concatenation of its primitive segments.

  Model: Bcder.Model.Octet (src/string/octet.rs), encoders of Bcder.Model.Encode; reference:
  Bcder.Spec.Tlv (`parseAll`, `parseUntilEoc`, `osSegments`, `osContent`, `osAccept`).
  Everything below is for ALL inputs: no bound on sizes, on the number of segments or on the
  nesting depth.  Decoding statements are on `runG0` (SliceSource semantics, Lemmas/G0.lean).

  1. Primitive form (`prim_accept`, `prim_accept_iff`, `prim_reject`, `prim_accept_spec`, `prim_views`):
     `OctetString::from_content` on a primitive content `c` followed by the framework's exhaustion
     check (`fromContentChecked`), on the source `St (c ++ rest) (some c.length)`, returns `.prim c`
     with the content consumed iff the mode is not CER or `c.length ≤ 1000` (= `Spec.osAccept`),
     and is a content error otherwise; every view of `.prim c` is `c` (the segment iterator yields
     `[c]`, or nothing if `c` is empty).  `cons_der_reject`: constructed is a content error in DER.

  2. Views of a constructed value — main bundle `views_eq_concat`; also `octets_eq_osContent`,
     `views_items`, `len_eq_sum`.
     `wfTrees f c = some ts` (decidable; `WfOS c` is its existential closure) says that the captured
     content octets `c` parse by the BER grammar, with fuel `f`, into the values `ts` — either
     exactly (`parseAll`) or followed by one end-of-contents marker that ends `c`
     (`parseUntilEoc … = some (ts, [])`: the shape the BER capture of an indefinite-length value
     had before the repair of D12; accepted values now always have the first shape) — and that all of `ts` are OCTET STRING values, primitive or constructed of
     such to any depth (`Spec.osContent 4 f t` is defined).  For every such `c`:
       segments (.cons c) = ok (the primitive leaves `ts.flatMap (osSegments f)`, every one of
                               them, empty ones included, in encoding order)
       octets            = ok (their concatenation) = concatenation of the trees' `osContent`
       len               = ok (length of that) = sum of the segment lengths
       isEmpty           = ok (that is empty),   asSlice = none
     never a panic, never out of fuel.  The proof goes through the flat structure the iterator
     really walks (`Items`: constructed OCTET STRING headers and end-of-contents headers are
     skipped, primitive OCTET STRINGs are yielded; `iter_step`, `iterNext_items`,
     `segmentsCons_items`), which is compositional (`items_append`) and implied by the grammar
     (`parse_items`).  `views_items` is the same bundle for any item sequence.

  3. The value as a decoding source (`new_inv_prim`, `new_inv_cons`, `request_inv`, `advance_inv`,
     `request_all`, `srcInv_prefix`): with `SrcInv s pend` ("`s.current` followed by the leaves of
     `s.remainder` is `pend`"), `OctetStringSource::new` establishes it with `pend = octets`,
     `request len` never fails, keeps `pend`, only extends `current` (which stays a prefix of
     `pend`) and grants at least `len` octets whenever `pend` has that many (else all of `pend`);
     `advance n` within `current` drops exactly `n` octets from `pend`; beyond `current` it panics.

  4. Re-encoding (`write_der`, `write_der_ok`, `write_der_excessive`, `encodedLen_der_ok`,
     `write_ber_prim`, `write_ber_cons`, `encodedLen_ber_cons`, `write_cer`,
     `reencode_der_wellformed`, `reencode_ber_wellformed`, `reencode_ber_d12_shape`):
     DER writes identifier(primitive) ++ shortest definite length ++ octets, whatever the
     segmentation; BER keeps the form (constructed: identifier(constructed) ++ definite length of
     the captured octets ++ the captured octets); 2^32 octets or more make the length writer
     panic; CER is `unimplemented!()`.  With the OCTET STRING tag the DER output parses in every
     mode as one primitive universal-4 value with the same content; the BER output of a constructed
     value parses as one constructed value with the same kids provided the captured octets are a
     plain sequence of values.

  5. Acceptance of the constructed form.
     * CER, complete (`cons_cer_run`, `cons_cer_accept`, `cons_cer_accept_inv`, `cons_cer_accept_iff`,
       `cons_cer_accept_iff_spec`, `cons_cer_accept_content`, `cons_cer_views`, `cons_cer_reject`,
       `cerOK_iff_spec`): on the content octets `d` of an indefinite-length constructed value
       (`cI`; source `St d none`, as everywhere inside CER), `from_content` + exhaustion check is
       the closed function `cerAccept`; it succeeds exactly when `d` is primitive OCTET STRING
       segments with shortest-form lengths, each of at most 1000 octets and only the last shorter
       than 1000, followed by `00 00` — equivalently: the CER grammar reads `d` as values followed by
       end-of-contents, `Spec.osAccept .cer` holds and `Spec.osContent` is defined — the value holds
       exactly the segments' octets, the source is left behind the `00 00`, all views present
       `osContent`; every failure is a content error or the loop budget (`fuel ≤` number of
       segments), never a panic.  Uses the closed form of tag-selective reads (C09) and `capture_run0`.
     * `run_framed`, `capture_run0`: a capture-free program under an open capture frame runs as
       without it and the frame records exactly the octets advanced over; `Constructed::capture` in
       closed form on `runG0`.
     * BER and CER, on `runG`: `cons_accept_captures_consumed` — whenever the constructed form is
       accepted the value holds exactly the octets the source was advanced over (from C11).

  -- not covered:
  * WHICH constructed encodings `from_content (.cons c)` accepts in BER (nothing but OCTET STRING
    values, nested to any depth) and hence that every accepted BER value satisfies `wfTrees`: this
    is the `skip_opt` state machine (C10, not importable when this was written) run under
    `capture`; `capture_run0` here reduces it to C10's statement about `skip_opt` on a source
    without frames.  Covered meanwhile by the differential check.
  * the views on captured octets that are not well-formed (the iterator panics on them, see the
    example at the end); sources other than `SliceSource` for the decoding parts (C07).
-/
import Bcder.Model.Octet
import Bcder.Model.Encode
import Bcder.Spec.Tlv
import Bcder.Lemmas.Header
import Bcder.Props.C02
import Bcder.Props.C17
import Bcder.Props.C11
import Bcder.Props.C09
import Bcder.Props.C19
import Bcder.Lemmas.NoCap
namespace Bcder.Props.C16
open Bcder Bcder.Spec Prog
open Bcder.Props.C02 (St run_getLimit run_need run_takeAll run_limitedExhausted)

/-! ## C16, the primitive form -/

theorem run_remaining (d : Bytes) (l : Nat) :
    runG0 Prim.remaining (St d (some l)) = .ok (l, St d (some l)) := by
  unfold Prim.remaining
  simp only [runG0_bind, run_getLimit, runG0_pure]

theorem fromContent_prim_run (fuel : Nat) (m : Mode) (c rest : Bytes) :
    runG0 (OS.fromContent fuel (.prim m)) (St (c ++ rest) (some c.length)) =
      if m = .cer ∧ 1000 < c.length then .error .content
      else .ok ((.prim c, .prim m), St rest (some 0)) := by
  unfold OS.fromContent
  simp only [runG0_bind, run_remaining]
  by_cases h : m = .cer ∧ 1000 < c.length
  · obtain ⟨h1, h2⟩ := h
    subst h1
    simp [h2]
  · have hb : (m == Mode.cer && decide (c.length > 1000)) = false := by
      cases m <;> simp_all
    simp only [hb, h, Bool.false_eq_true, if_false, runG0_bind, run_takeAll]
    simp
/-- the closure as the framework runs it: followed by the exhaustion check of the content -/
def fromContentChecked (fuel : Nat) (content : Content) : Prog (OS × Content) := do
  let r ← OS.fromContent fuel content
  r.2.exhausted
  pure r

/-- **C16 (acceptance, primitive form).**  `OctetString::from_content` on the primitive content `c`
    (any length, any trailing octets `rest`, any mode), followed by the framework's exhaustion check:
    accepted exactly when the mode is not CER or `c` has at most 1000 octets; the value is then
    `.prim c` and all of the content is consumed; otherwise a content error (never a panic). -/
theorem prim_accept (fuel : Nat) (m : Mode) (c rest : Bytes) :
    runG0 (fromContentChecked fuel (.prim m)) (St (c ++ rest) (some c.length)) =
      if m ≠ .cer ∨ c.length ≤ 1000 then .ok ((.prim c, .prim m), St rest (some 0))
      else .error .content := by
  unfold fromContentChecked
  simp only [runG0_bind, fromContent_prim_run]
  by_cases h : m = .cer ∧ 1000 < c.length
  · have : ¬ (m ≠ .cer ∨ c.length ≤ 1000) := by
      rintro (h1 | h1)
      · exact h1 h.1
      · omega
    rw [if_neg this]
    simp only [h, and_self, if_true]
  · have : m ≠ .cer ∨ c.length ≤ 1000 := by
      by_cases hm : m = .cer
      · exact Or.inr (Nat.le_of_not_lt fun h2 => h ⟨hm, h2⟩)
      · exact Or.inl hm
    simp only [h, if_false, this, if_true, Content.exhausted, run_limitedExhausted, runG0_pure]

theorem prim_accept_iff (fuel : Nat) (m : Mode) (c rest : Bytes) :
    runG0 (fromContentChecked fuel (.prim m)) (St (c ++ rest) (some c.length)) =
        .ok ((.prim c, .prim m), St rest (some 0)) ↔ (m ≠ .cer ∨ c.length ≤ 1000) := by
  rw [prim_accept]
  by_cases h : m ≠ .cer ∨ c.length ≤ 1000 <;> simp [h]

theorem prim_reject (fuel : Nat) (m : Mode) (c rest : Bytes) (h : ¬ (m ≠ .cer ∨ c.length ≤ 1000)) :
    runG0 (fromContentChecked fuel (.prim m)) (St (c ++ rest) (some c.length)) = .error .content := by
  rw [prim_accept]; simp only [h, if_false]

/-- the acceptance condition is the reference one (`Spec.osAccept` on a primitive tree) -/
theorem prim_accept_spec (m : Mode) (id : Ident) (c : Bytes) :
    osAccept (toM m) (.prim id c) = true ↔ (m ≠ .cer ∨ c.length ≤ 1000) := by
  cases m <;> simp [osAccept, toM]

/-- a constructed OCTET STRING is never accepted in DER, on any source -/
theorem cons_der_reject (fuel : Nat) (st : CState) (g : G0) :
    runG0 (OS.fromContent fuel (.cons ⟨st, .der, 0⟩)) g = .error .content := rfl

/-- **C16 (views, primitive form).**  All views of `.prim c` present `c`; the segment iterator
    yields the one segment `c`, or nothing when `c` is empty. -/
theorem prim_views (c : Bytes) :
    OS.segments (.prim c) = .ok (if c = [] then [] else [c]) ∧
    (if c = [] then ([] : List Bytes) else [c]).flatten = c ∧
    OS.octets (.prim c) = .ok c ∧
    OS.len (.prim c) = .ok c.length ∧
    OS.isEmpty (.prim c) = .ok c.isEmpty ∧
    OS.asSlice (.prim c) = some c := by
  refine ⟨?_, ?_, rfl, rfl, rfl, rfl⟩
  · cases c <;> rfl
  · cases c <;> simp

theorem unwrapOn_tag (bs : Bytes) :
    OS.unwrapOn Tag.takeFrom bs =
      match readIdent bs with
      | none => .error (.panic "unwrap on Err")
      | some (id, k) => .ok ((C12.tagOf id.cls id.num, id.constructed), bs.drop k) := by
  unfold OS.unwrapOn
  have h := C12.takeFrom_eq_spec bs
  have e : ({ data := bs, limit := none } : G) = G.plain bs := rfl
  rw [e, h]
  cases readIdent bs with
  | none => rfl
  | some r => obtain ⟨id, k⟩ := r; rfl

theorem unwrapOn_len (bs : Bytes) :
    OS.unwrapOn (Length.takeFrom .ber) bs =
      match readLen true bs with
      | none => .error (.panic "unwrap on Err")
      | some (some n, k) => .ok (.definite n, bs.drop k)
      | some (none, k) => .ok (.indefinite, bs.drop k) := by
  unfold OS.unwrapOn
  have h := C13.read_eq_spec .ber bs
  have e : ({ data := bs, limit := none } : G) = G.plain bs := rfl
  have e2 : Mode.ber.isBer = true := rfl
  rw [e, h, e2]
  cases readLen true bs with
  | none => rfl
  | some r =>
    obtain ⟨x, k⟩ := r
    cases x <;> rfl

theorem tagOf_os : C12.tagOf 0 4 = Tag.OCTET_STRING := by rfl
theorem tagOf_eoc : C12.tagOf 0 0 = Tag.END_OF_VALUE := by rfl
theorem eoc_ne_os : ¬ Tag.END_OF_VALUE = Tag.OCTET_STRING := by decide

/-- the result of one round of `OctetStringIter::next` once the header at the front is known -/
def stepF (fuel : Nat) (bs : Bytes) (id : Ident) (k : Nat) (len? : Option Nat) (kl : Nat) :
    Res (Option (Bytes × Bytes)) :=
  if id.cls = 0 ∧ id.num = 4 then
    if id.constructed then OS.iterNextCons fuel (bs.drop (k + kl))
    else match len? with
      | some n =>
        if n > (bs.drop (k + kl)).length then .error (.panic "split_to out of range")
        else .ok (some ((bs.drop (k + kl)).take n, bs.drop (k + kl + n)))
      | none => .error (.panic "unreachable")
  else if id.cls = 0 ∧ id.num = 0 then OS.iterNextCons fuel (bs.drop (k + kl))
  else .error (.panic "unreachable")

theorem iter_step (fuel : Nat) (bs : Bytes) (id : Ident) (k : Nat) (len? : Option Nat) (kl : Nat)
    (hi : readIdent bs = some (id, k)) (hl : readLen true (bs.drop k) = some (len?, kl)) :
    OS.iterNextCons (fuel + 1) bs = stepF fuel bs id k len? kl := by
  obtain ⟨hc, hn, hk1, hk, _⟩ := C12.readIdent_bounds bs id k hi
  have hne : bs.isEmpty = false := by cases bs <;> simp_all
  have hos : C12.tagOf id.cls id.num = Tag.OCTET_STRING ↔ (id.cls = 0 ∧ id.num = 4) := by
    rw [← tagOf_os]
    constructor
    · exact C12.tagOf_inj _ _ _ _ hc (by omega) hn (by omega)
    · rintro ⟨h1, h2⟩; rw [h1, h2]
  have heoc : C12.tagOf id.cls id.num = Tag.END_OF_VALUE ↔ (id.cls = 0 ∧ id.num = 0) := by
    rw [← tagOf_eoc]
    constructor
    · exact C12.tagOf_inj _ _ _ _ hc (by omega) hn (by omega)
    · rintro ⟨h1, h2⟩; rw [h1, h2]
  unfold stepF
  cases len? with
  | none =>
    simp only [OS.iterNextCons, hne, Bool.false_eq_true, if_false, unwrapOn_tag, hi, Bind.bind, Except.bind,
      unwrapOn_len, hl, hos, heoc, List.drop_drop]
  | some n =>
    simp only [OS.iterNextCons, hne, Bool.false_eq_true, if_false, unwrapOn_tag, hi, Bind.bind, Except.bind,
      unwrapOn_len, hl, hos, heoc, List.drop_drop]

/-- the flat item structure the iterator walks over -/
inductive Items : Bytes → List Bytes → Prop
  | nil : Items [] []
  | hdr (bs : Bytes) (id : Ident) (k : Nat) (len? : Option Nat) (kl : Nat) (segs : List Bytes) :
      readIdent bs = some (id, k) → id.cls = 0 → id.num = 4 → id.constructed = true →
      readLen true (bs.drop k) = some (len?, kl) → Items (bs.drop (k + kl)) segs → Items bs segs
  | eoc (bs : Bytes) (id : Ident) (k : Nat) (len? : Option Nat) (kl : Nat) (segs : List Bytes) :
      readIdent bs = some (id, k) → id.cls = 0 → id.num = 0 →
      readLen true (bs.drop k) = some (len?, kl) → Items (bs.drop (k + kl)) segs → Items bs segs
  | seg (bs : Bytes) (id : Ident) (k : Nat) (n : Nat) (kl : Nat) (segs : List Bytes) :
      readIdent bs = some (id, k) → id.cls = 0 → id.num = 4 → id.constructed = false →
      readLen true (bs.drop k) = some (some n, kl) → n ≤ (bs.drop (k + kl)).length →
      Items (bs.drop (k + kl + n)) segs → Items bs ((bs.drop (k + kl)).take n :: segs)

theorem hdr_len (bs : Bytes) (id : Ident) (k : Nat) (len? : Option Nat) (kl : Nat)
    (hi : readIdent bs = some (id, k)) (hl : readLen true (bs.drop k) = some (len?, kl)) :
    1 ≤ k ∧ 1 ≤ kl ∧ k + kl ≤ bs.length := by
  obtain ⟨_, _, hk1, hk, _⟩ := C12.readIdent_bounds bs id k hi
  obtain ⟨h1, h2⟩ := readLen_bound _ _ _ _ hl
  simp only [List.length_drop] at h2
  omega

/-- what `next` returns on an item sequence -/
def NextOn (fuel : Nat) (bs : Bytes) : List Bytes → Prop
  | [] => OS.iterNextCons fuel bs = .ok none
  | s :: ss => ∃ rest, OS.iterNextCons fuel bs = .ok (some (s, rest)) ∧ Items rest ss ∧ rest.length + 2 ≤ bs.length

theorem iterNext_items (bs : Bytes) (segs : List Bytes) (h : Items bs segs) :
    ∀ fuel, bs.length < fuel → NextOn fuel bs segs := by
  induction h with
  | nil =>
    intro fuel hf
    cases fuel with
    | zero => omega
    | succ fuel => simp [NextOn, OS.iterNextCons]
  | hdr bs id k len? kl segs hi h0 h4 hc hl _ ih =>
    intro fuel hf
    obtain ⟨a1, a2, a3⟩ := hdr_len bs id k len? kl hi hl
    cases fuel with
    | zero => omega
    | succ fuel =>
      have hstep := iter_step fuel bs id k len? kl hi hl
      have e : stepF fuel bs id k len? kl = OS.iterNextCons fuel (bs.drop (k + kl)) := by
        simp [stepF, h0, h4, hc]
      have := ih fuel (by simp only [List.length_drop]; omega)
      cases segs with
      | nil => simp only [NextOn] at this ⊢; rw [hstep, e, this]
      | cons s ss =>
        simp only [NextOn] at this ⊢
        obtain ⟨rest, r1, r2, r3⟩ := this
        refine ⟨rest, by rw [hstep, e, r1], r2, ?_⟩
        simp only [List.length_drop] at r3; omega
  | eoc bs id k len? kl segs hi h0 h4 hl _ ih =>
    intro fuel hf
    obtain ⟨a1, a2, a3⟩ := hdr_len bs id k len? kl hi hl
    cases fuel with
    | zero => omega
    | succ fuel =>
      have hstep := iter_step fuel bs id k len? kl hi hl
      have e : stepF fuel bs id k len? kl = OS.iterNextCons fuel (bs.drop (k + kl)) := by
        simp [stepF, h0, h4]
      have := ih fuel (by simp only [List.length_drop]; omega)
      cases segs with
      | nil => simp only [NextOn] at this ⊢; rw [hstep, e, this]
      | cons s ss =>
        simp only [NextOn] at this ⊢
        obtain ⟨rest, r1, r2, r3⟩ := this
        refine ⟨rest, by rw [hstep, e, r1], r2, ?_⟩
        simp only [List.length_drop] at r3; omega
  | seg bs id k n kl segs hi h0 h4 hc hl hn hrest _ =>
    intro fuel hf
    obtain ⟨a1, a2, a3⟩ := hdr_len bs id k (some n) kl hi hl
    cases fuel with
    | zero => omega
    | succ fuel =>
      have hstep := iter_step fuel bs id k (some n) kl hi hl
      have hn' : ¬ n > (bs.drop (k + kl)).length := by omega
      have e : stepF fuel bs id k (some n) kl =
          .ok (some ((bs.drop (k + kl)).take n, bs.drop (k + kl + n))) := by
        simp only [stepF, h0, h4, hc, and_self, if_true, Bool.false_eq_true, if_false, hn']
      simp only [NextOn]
      refine ⟨_, by rw [hstep, e], hrest, ?_⟩
      simp only [List.length_drop]; omega


theorem segmentsCons_items : ∀ (fuel : Nat) (bs : Bytes) (segs : List Bytes), Items bs segs →
    bs.length < fuel → OS.segmentsCons fuel bs = .ok segs := by
  intro fuel
  induction fuel with
  | zero => intro bs segs _ hf; omega
  | succ fuel ih =>
    intro bs segs h hf
    have hn := iterNext_items bs segs h (bs.length + 2) (by omega)
    cases segs with
    | nil =>
      simp only [NextOn] at hn
      simp only [OS.segmentsCons, hn, Bind.bind, Except.bind, pure, Except.pure]
    | cons s ss =>
      simp only [NextOn] at hn
      obtain ⟨rest, r1, r2, r3⟩ := hn
      have := ih rest ss r2 (by omega)
      simp only [OS.segmentsCons, r1, Bind.bind, Except.bind, this, pure, Except.pure]

theorem any_nonempty (segs : List Bytes) :
    (!segs.any (fun x => !x.isEmpty)) = segs.flatten.isEmpty := by
  induction segs with
  | nil => rfl
  | cons s ss ih => cases s <;> simp_all

/-- every view of a constructed value whose captured content is an item sequence -/
theorem views_items (c : Bytes) (segs : List Bytes) (h : Items c segs) :
    OS.segments (.cons c) = .ok segs ∧
    OS.octets (.cons c) = .ok segs.flatten ∧
    OS.len (.cons c) = .ok segs.flatten.length ∧
    OS.isEmpty (.cons c) = .ok segs.flatten.isEmpty ∧
    OS.asSlice (.cons c) = none := by
  have hs : OS.segments (.cons c) = .ok segs := segmentsCons_items _ c segs h (by omega)
  have ho : OS.octets (.cons c) = .ok segs.flatten := by
    simp only [OS.octets, hs, Bind.bind, Except.bind, pure, Except.pure]
  refine ⟨hs, ho, C17.len_content _ _ ho, ?_, rfl⟩
  simp only [OS.isEmpty, hs, Bind.bind, Except.bind, pure, Except.pure]
  rw [any_nonempty]
theorem readIdent_append' (a b : Bytes) (h : readIdent a ≠ none) :
    readIdent (a ++ b) = readIdent a := by
  match a, h with
  | [], h => simp [readIdent] at h
  | [b0], h =>
    by_cases h0 : b0.toNat % 32 = 31
    · simp [readIdent, h0] at h
    · simp [readIdent, h0]
  | [b0, d1], h =>
    by_cases h0 : b0.toNat % 32 = 31
    · by_cases h1 : d1.toNat < 128
      · simp [readIdent, h0, h1]
      · by_cases h2 : d1.toNat = 128
        · simp [readIdent, h0, h2] at h
        · simp [readIdent, h0, h1, h2] at h
    · simp [readIdent, h0]
  | [b0, d1, d2], h =>
    by_cases h0 : b0.toNat % 32 = 31
    · by_cases h1 : d1.toNat < 128
      · simp [readIdent, h0, h1]
      · by_cases h2 : d1.toNat = 128
        · simp [readIdent, h0, h2] at h
        · by_cases h3 : d2.toNat < 128
          · simp [readIdent, h0, h1, h2, h3]
          · simp [readIdent, h0, h1, h2, h3] at h
    · simp [readIdent, h0]
  | b0 :: d1 :: d2 :: d3 :: r, h =>
    simp only [List.cons_append, readIdent]

theorem readIdent_append (a b : Bytes) (id : Ident) (k : Nat) (h : readIdent a = some (id, k)) :
    readIdent (a ++ b) = some (id, k) := by
  rw [← h]; exact readIdent_append' a b (by rw [h]; simp)

theorem readLen_append (ber : Bool) (a b : Bytes) (x : Option Nat) (k : Nat)
    (h : readLen ber a = some (x, k)) : readLen ber (a ++ b) = some (x, k) := by
  cases a with
  | nil => simp [readLen] at h
  | cons b0 rest =>
    simp only [readLen] at h
    simp only [List.cons_append, readLen]
    split at h
    · rename_i h0; simp only [h0, if_true]; exact h
    · rename_i h0
      simp only [h0, if_false]
      split at h
      · rename_i h1; simp only [h1, if_true]; exact h
      · rename_i h1
        simp only [h1, if_false]
        split at h
        · simp at h
        · rename_i h2
          simp only [h2, if_false]
          split at h
          · simp at h
          · rename_i h3
            have h3' : ¬ (rest ++ b).length < b0.toNat - 128 := by
              simp only [List.length_append]; omega
            have ht : (rest ++ b).take (b0.toNat - 128) = rest.take (b0.toNat - 128) :=
              List.take_append_of_le_length (by omega)
            simp only [h3', if_false, ht]
            exact h

theorem items_append (a b : Bytes) (sa sb : List Bytes) (ha : Items a sa) (hb : Items b sb) :
    Items (a ++ b) (sa ++ sb) := by
  induction ha with
  | nil => simpa using hb
  | hdr bs id k len? kl segs hi h0 h4 hc hl _ ih =>
    obtain ⟨a1, a2, a3⟩ := hdr_len bs id k len? kl hi hl
    have e1 : (bs ++ b).drop k = bs.drop k ++ b := List.drop_append_of_le_length (by omega)
    have e2 : (bs ++ b).drop (k + kl) = bs.drop (k + kl) ++ b := List.drop_append_of_le_length a3
    refine Items.hdr (bs ++ b) id k len? kl _ (readIdent_append _ _ _ _ hi) h0 h4 hc ?_ ?_
    · rw [e1]; exact readLen_append _ _ _ _ _ hl
    · rw [e2]; exact ih
  | eoc bs id k len? kl segs hi h0 h4 hl _ ih =>
    obtain ⟨a1, a2, a3⟩ := hdr_len bs id k len? kl hi hl
    have e1 : (bs ++ b).drop k = bs.drop k ++ b := List.drop_append_of_le_length (by omega)
    have e2 : (bs ++ b).drop (k + kl) = bs.drop (k + kl) ++ b := List.drop_append_of_le_length a3
    refine Items.eoc (bs ++ b) id k len? kl _ (readIdent_append _ _ _ _ hi) h0 h4 ?_ ?_
    · rw [e1]; exact readLen_append _ _ _ _ _ hl
    · rw [e2]; exact ih
  | seg bs id k n kl segs hi h0 h4 hc hl hn _ ih =>
    obtain ⟨a1, a2, a3⟩ := hdr_len bs id k (some n) kl hi hl
    simp only [List.length_drop] at hn
    have e1 : (bs ++ b).drop k = bs.drop k ++ b := List.drop_append_of_le_length (by omega)
    have e2 : (bs ++ b).drop (k + kl) = bs.drop (k + kl) ++ b := List.drop_append_of_le_length a3
    have e3 : (bs ++ b).drop (k + kl + n) = bs.drop (k + kl + n) ++ b :=
      List.drop_append_of_le_length (by omega)
    have e4 : ((bs ++ b).drop (k + kl)).take n = (bs.drop (k + kl)).take n := by
      rw [e2]; exact List.take_append_of_le_length (by simp only [List.length_drop]; omega)
    have := Items.seg (bs ++ b) id k n kl (segs ++ sb) (readIdent_append _ _ _ _ hi) h0 h4 hc
      (by rw [e1]; exact readLen_append _ _ _ _ _ hl)
      (by rw [e2]; simp only [List.length_append, List.length_drop]; omega)
      (by rw [e3]; exact ih)
    rw [e4] at this
    exact this

/-! ### trees of octet strings -/

/-- the accumulation step of `Spec.osContent` -/
def accStep (g : Tree → Option Bytes) (acc : Option Bytes) (k : Tree) : Option Bytes :=
  match acc, g k with
  | some a, some c => some (a ++ c)
  | _, _ => none

theorem osContent_cons (num fuel : Nat) (id : Ident) (b : Bool) (kids : List Tree) :
    osContent num (fuel + 1) (.cons id b kids) =
      if !(id.cls == 0 && id.num == num) then none
      else kids.foldl (accStep (osContent 4 fuel)) (some []) := rfl

theorem foldl_accStep_none (g : Tree → Option Bytes) (kids : List Tree) :
    kids.foldl (accStep g) none = none := by
  induction kids with
  | nil => rfl
  | cons k ks ih => simpa [List.foldl, accStep] using ih

/-- the fold succeeds exactly when every kid does, and then concatenates -/
theorem foldl_accStep_some (g : Tree → Option Bytes) : ∀ (kids : List Tree) (init r : Bytes),
    kids.foldl (accStep g) (some init) = some r →
      (∀ k ∈ kids, (g k).isSome) ∧ r = init ++ (kids.filterMap g).flatten := by
  intro kids
  induction kids with
  | nil => intro init r h; simp at h; simp [h]
  | cons k ks ih =>
    intro init r h
    simp only [List.foldl] at h
    cases hk : g k with
    | none => simp [accStep, hk, foldl_accStep_none] at h
    | some c =>
      simp only [accStep, hk] at h
      obtain ⟨h1, h2⟩ := ih _ _ h
      refine ⟨?_, ?_⟩
      · intro k' hk'
        simp only [List.mem_cons] at hk'
        rcases hk' with rfl | hk'
        · simp [hk]
        · exact h1 k' hk'
      · simp [h2, hk]

theorem foldl_accStep_all (g : Tree → Option Bytes) : ∀ (kids : List Tree) (init : Bytes),
    (∀ k ∈ kids, (g k).isSome) →
      kids.foldl (accStep g) (some init) = some (init ++ (kids.filterMap g).flatten) := by
  intro kids
  induction kids with
  | nil => intro init _; simp
  | cons k ks ih =>
    intro init h
    have hk := h k (by simp)
    cases hc : g k with
    | none => simp [hc] at hk
    | some c =>
      simp only [List.foldl, accStep, hc, List.filterMap_cons, List.flatten_cons]
      rw [ih _ (fun k' hk' => h k' (by simp [hk'])), List.append_assoc]

/-- all trees are OCTET STRING values (primitive, or constructed of such, to depth ≤ `g`) -/
def osTrees (g : Nat) (ts : List Tree) : Bool := ts.all fun t => (osContent 4 g t).isSome

theorem osTrees_cons (g : Nat) (t : Tree) (ts : List Tree) :
    osTrees g (t :: ts) = ((osContent 4 g t).isSome && osTrees g ts) := by simp [osTrees]

/-- an accepted constructed tree: universal 4, fuel left, and all kids accepted one level down -/
theorem osContent_cons_some (g : Nat) (id : Ident) (b : Bool) (kids : List Tree)
    (h : (osContent 4 g (.cons id b kids)).isSome) :
    ∃ g', g = g' + 1 ∧ id.cls = 0 ∧ id.num = 4 ∧ osTrees g' kids = true := by
  cases g with
  | zero => simp [osContent] at h
  | succ g' =>
    refine ⟨g', rfl, ?_⟩
    rw [osContent_cons] at h
    by_cases hid : (id.cls == 0 && id.num == 4) = true
    · simp only [hid, Bool.not_true, Bool.false_eq_true, if_false] at h
      cases hf : kids.foldl (accStep (osContent 4 g')) (some []) with
      | none => simp [hf] at h
      | some r =>
        obtain ⟨h1, _⟩ := foldl_accStep_some _ _ _ _ hf
        simp only [Bool.and_eq_true, beq_iff_eq] at hid
        refine ⟨hid.1, hid.2, ?_⟩
        simp only [osTrees, List.all_eq_true]
        exact h1
    · simp [hid] at h

theorem osContent_prim_some (g : Nat) (id : Ident) (c : Bytes)
    (h : (osContent 4 g (.prim id c)).isSome) : id.cls = 0 ∧ id.num = 4 := by
  cases g <;>
  · simp only [osContent] at h
    by_cases hid : (id.cls == 0 && id.num == 4) = true
    · simpa using hid
    · simp [hid] at h


theorem osSegments_prim (g : Nat) (id : Ident) (c : Bytes) : osSegments g (.prim id c) = [c] := by
  cases g <;> rfl

/-- parse results as item sequences, with what follows the parsed part as a continuation -/
def PV (f : Nat) : Prop := ∀ g, f ≤ g → ∀ bs t rest, parseValue .ber f bs = some (t, rest) →
  (osContent 4 g t).isSome → ∀ segs, Items rest segs → Items bs (osSegments g t ++ segs)
def PA (f : Nat) : Prop := ∀ g, f ≤ g → ∀ bs ts, parseAll .ber f bs = some ts →
  osTrees g ts = true → Items bs (ts.flatMap (osSegments g))
def PE (f : Nat) : Prop := ∀ g, f ≤ g → ∀ bs ts rest, parseUntilEoc .ber f bs = some (ts, rest) →
  osTrees g ts = true → ∀ segs, Items rest segs → Items bs (ts.flatMap (osSegments g) ++ segs)

theorem pv_step (f : Nat) (hA : PA f) (hE : PE f) : PV (f + 1) := by
  intro g hg bs t rest h hos segs hrest
  simp only [parseValue] at h
  cases hr : readIdent bs with
  | none => simp [hr] at h
  | some r =>
    obtain ⟨id, k⟩ := r
    simp only [hr] at h
    split at h
    · simp at h
    · have hb : M.ber.isBer = true := rfl
      rw [hb] at h
      cases hl : readLen true (bs.drop k) with
      | none => simp [hl] at h
      | some r2 =>
        obtain ⟨len?, kl⟩ := r2
        simp only [hl] at h
        cases len? with
        | some n =>
          simp only at h
          split at h
          · simp at h
          · rename_i hn
            split at h
            · rename_i hc
              simp only [Option.some.injEq, Prod.mk.injEq] at h
              obtain ⟨rfl, rfl⟩ := h
              obtain ⟨h0, h4⟩ := osContent_prim_some g id _ hos
              rw [osSegments_prim]
              rw [List.drop_drop] at hrest
              have hc' : id.constructed = false := by simpa using hc
              exact Items.seg bs id k n kl segs hr h0 h4 hc' hl (by omega) hrest
            · rename_i hc
              have hc' : id.constructed = true := by simpa using hc
              have hcer : (M.ber == M.cer) = false := rfl
              simp only [hcer, Bool.false_eq_true, if_false] at h
              cases hp : parseAll .ber f ((bs.drop (k + kl)).take n) with
              | none => simp [hp] at h
              | some kids =>
                simp only [hp, Option.some.injEq, Prod.mk.injEq] at h
                obtain ⟨rfl, rfl⟩ := h
                obtain ⟨g', rfl, h0, h4, hk⟩ := osContent_cons_some g id _ kids hos
                have e : osSegments (g' + 1) (.cons id false kids) = kids.flatMap (osSegments g') := rfl
                rw [e]
                have h1 := hA g' (by omega) _ kids hp hk
                have h2 := items_append _ _ _ _ h1 hrest
                rw [List.take_append_drop] at h2
                exact Items.hdr bs id k (some n) kl _ hr h0 h4 hc' hl h2
        | none =>
          simp only at h
          split at h
          · simp at h
          · rename_i hc
            have hc' : id.constructed = true := by
              cases hcc : id.constructed <;> simp [hcc] at hc ⊢
            cases hp : parseUntilEoc .ber f (bs.drop (k + kl)) with
            | none => simp [hp] at h
            | some r3 =>
              obtain ⟨kids, rest'⟩ := r3
              simp only [hp, Option.some.injEq, Prod.mk.injEq] at h
              obtain ⟨rfl, rfl⟩ := h
              obtain ⟨g', rfl, h0, h4, hk⟩ := osContent_cons_some g id _ kids hos
              have e : osSegments (g' + 1) (.cons id true kids) = kids.flatMap (osSegments g') := rfl
              rw [e]
              have h1 := hE g' (by omega) _ kids _ hp hk segs hrest
              exact Items.hdr bs id k none kl _ hr h0 h4 hc' hl h1

theorem pa_step (f : Nat) (hV : PV f) (hA : PA f) : PA (f + 1) := by
  intro g hg bs ts h hos
  simp only [parseAll] at h
  split at h
  · rename_i he
    simp only [Option.some.injEq] at h
    subst h
    have : bs = [] := by simpa using he
    subst this
    exact Items.nil
  · cases hp : parseValue .ber f bs with
    | none => simp [hp] at h
    | some r =>
      obtain ⟨t, rest⟩ := r
      simp only [hp] at h
      cases hq : parseAll .ber f rest with
      | none => simp [hq] at h
      | some ts' =>
        simp only [hq, Option.map, Option.some.injEq] at h
        subst h
        rw [osTrees_cons, Bool.and_eq_true] at hos
        have h1 := hA g (by omega) rest ts' hq hos.2
        have h2 := hV g (by omega) bs t rest hp hos.1 _ h1
        simpa [List.flatMap_cons] using h2

theorem pe_step (f : Nat) (hV : PV f) (hE : PE f) : PE (f + 1) := by
  intro g hg bs ts rest h hos segs hrest
  simp only [parseUntilEoc] at h
  cases hr : readIdent bs with
  | none => simp [hr] at h
  | some r =>
    obtain ⟨id, k⟩ := r
    simp only [hr] at h
    split at h
    · rename_i heoc
      split at h
      · simp at h
      · have hb : M.ber.isBer = true := rfl
        rw [hb] at h
        cases hl : readLen true (bs.drop k) with
        | none => simp [hl] at h
        | some r2 =>
          obtain ⟨len?, kl⟩ := r2
          simp only [hl] at h
          split at h
          · rename_i kl' heq
            simp only [Option.some.injEq, Prod.mk.injEq] at heq h
            obtain ⟨rfl, rfl⟩ := heq
            obtain ⟨rfl, rfl⟩ := h
            simp only [isEocIdent, Bool.and_eq_true, beq_iff_eq] at heoc
            simpa using Items.eoc bs id k (some 0) kl segs hr heoc.1 heoc.2 hl hrest
          · simp at h
    · cases hp : parseValue .ber f bs with
      | none => simp [hp] at h
      | some r2 =>
        obtain ⟨t, rest1⟩ := r2
        simp only [hp] at h
        cases hq : parseUntilEoc .ber f rest1 with
        | none => simp [hq] at h
        | some r3 =>
          obtain ⟨ts', rest2⟩ := r3
          simp only [hq, Option.some.injEq, Prod.mk.injEq] at h
          obtain ⟨rfl, rfl⟩ := h
          rw [osTrees_cons, Bool.and_eq_true] at hos
          have h1 := hE g (by omega) rest1 ts' _ hq hos.2 segs hrest
          have h2 := hV g (by omega) bs t rest1 hp hos.1 _ h1
          simpa [List.flatMap_cons, List.append_assoc] using h2

theorem parse_items : ∀ f, PV f ∧ PA f ∧ PE f := by
  intro f
  induction f with
  | zero =>
    refine ⟨?_, ?_, ?_⟩
    · intro g _ bs t rest h; simp [parseValue] at h
    · intro g _ bs ts h; simp [parseAll] at h
    · intro g _ bs ts rest h; simp [parseUntilEoc] at h
  | succ f ih =>
    obtain ⟨hV, hA, hE⟩ := ih
    exact ⟨pv_step f hA hE, pa_step f hV hA, pe_step f hV hE⟩


/-! ### the main statements for constructed values -/

theorem items_of_parseAll (f : Nat) (c : Bytes) (ts : List Tree) (h : parseAll .ber f c = some ts)
    (hos : osTrees f ts = true) : Items c (ts.flatMap (osSegments f)) :=
  (parse_items f).2.1 f (Nat.le_refl _) c ts h hos

theorem items_of_parseUntilEoc (f : Nat) (c : Bytes) (ts : List Tree)
    (h : parseUntilEoc .ber f c = some (ts, [])) (hos : osTrees f ts = true) :
    Items c (ts.flatMap (osSegments f)) := by
  simpa using (parse_items f).2.2 f (Nat.le_refl _) c ts [] h hos [] Items.nil

/-- Well-formed captured content of a constructed OCTET STRING, decidable for a given parse fuel `f`
    (any `f` larger than the nesting depth and the number of values will do):
    `captured` is, by the BER grammar, a sequence of values — or, for a value that was encoded with
    the indefinite length form, a sequence of values followed by the end-of-contents octets (what the
    capture held before the repair of D12; the views tolerate it) — all of which are OCTET STRING values (universal 4), primitive or
    constructed from such values to any depth.  Returns the trees. -/
def wfTrees (f : Nat) (captured : Bytes) : Option (List Tree) :=
  match parseAll .ber f captured with
  | some ts => if osTrees f ts then some ts else none
  | none =>
    match parseUntilEoc .ber f captured with
    | some (ts, []) => if osTrees f ts then some ts else none
    | _ => none

def WfOS (captured : Bytes) : Prop := ∃ f ts, wfTrees f captured = some ts

theorem wfTrees_cases (f : Nat) (c : Bytes) (ts : List Tree) (h : wfTrees f c = some ts) :
    (parseAll .ber f c = some ts ∨ parseUntilEoc .ber f c = some (ts, [])) ∧ osTrees f ts = true := by
  unfold wfTrees at h
  cases hp : parseAll .ber f c with
  | some ts' =>
    simp only [hp] at h
    split at h
    · rename_i ho; simp only [Option.some.injEq] at h; subst h; exact ⟨Or.inl rfl, ho⟩
    · simp at h
  | none =>
    simp only [hp] at h
    split at h
    · rename_i ts' hq
      split at h
      · rename_i ho; simp only [Option.some.injEq] at h; subst h; exact ⟨Or.inr hq, ho⟩
      · simp at h
    · simp at h

theorem items_of_wf (f : Nat) (c : Bytes) (ts : List Tree) (h : wfTrees f c = some ts) :
    Items c (ts.flatMap (osSegments f)) := by
  obtain ⟨h1, h2⟩ := wfTrees_cases f c ts h
  rcases h1 with h1 | h1
  · exact items_of_parseAll f c ts h1 h2
  · exact items_of_parseUntilEoc f c ts h1 h2


/-! ### the content of the trees is the concatenation of the primitive leaves -/

theorem content_list (g : Nat)
    (ih : ∀ t c, osContent 4 g t = some c → c = (osSegments g t).flatten) :
    ∀ ts : List Tree, (∀ t ∈ ts, (osContent 4 g t).isSome) →
      (ts.filterMap (osContent 4 g)).flatten = (ts.flatMap (osSegments g)).flatten := by
  intro ts
  induction ts with
  | nil => intro _; rfl
  | cons t ts iht =>
    intro h
    have h1 := h t (by simp)
    cases hc : osContent 4 g t with
    | none => simp [hc] at h1
    | some c =>
      have := ih t c hc
      have h2 := iht (fun t' ht' => h t' (by simp [ht']))
      simp only [List.filterMap_cons, hc, List.flatten_cons, List.flatMap_cons, List.flatten_append, h2, this]

theorem content_eq_segments : ∀ (g : Nat) (t : Tree) (c : Bytes), osContent 4 g t = some c →
    c = (osSegments g t).flatten := by
  intro g
  induction g with
  | zero =>
    intro t c h
    cases t with
    | prim id x =>
      simp only [osContent] at h
      split at h
      · simp only [Option.some.injEq] at h; subst h; simp [osSegments]
      · simp at h
    | cons id b kids => simp [osContent] at h
  | succ g ih =>
    intro t c h
    cases t with
    | prim id x =>
      simp only [osContent] at h
      split at h
      · simp only [Option.some.injEq] at h; subst h; simp [osSegments]
      · simp at h
    | cons id b kids =>
      rw [osContent_cons] at h
      split at h
      · simp at h
      · obtain ⟨h1, h2⟩ := foldl_accStep_some _ _ _ _ h
        rw [h2, List.nil_append, content_list g ih kids h1]
        rfl

/-- for a list of OCTET STRING trees: concatenating the contents of the trees is concatenating the
    primitive leaves -/
theorem contents_eq_segments (g : Nat) (ts : List Tree) (h : osTrees g ts = true) :
    (ts.filterMap (osContent 4 g)).flatten = (ts.flatMap (osSegments g)).flatten := by
  apply content_list g (content_eq_segments g)
  simpa [osTrees, List.all_eq_true] using h

/-! ## C16, views of a constructed value -/

/-- **C16 (views).**  For EVERY captured content `c` that is well-formed in the sense of `wfTrees`
    (any number of values, any nesting depth, any sizes), every view of the value `.cons c`
    succeeds — no panic, no fuel exhaustion — and presents exactly the contents of the primitive
    leaves of the parsed trees in encoding order:
    * the segment iterator yields every primitive leaf (including empty ones), in order;
    * the octet iterator / `to_bytes` / `into_bytes` yield their concatenation, which is the
      concatenation of the reference contents `Spec.osContent` of the trees;
    * `len` is the length of that concatenation, `is_empty` says whether it is empty;
    * `as_slice` is `None` for a constructed value. -/
theorem views_eq_concat (f : Nat) (c : Bytes) (ts : List Tree) (h : wfTrees f c = some ts) :
    OS.segments (.cons c) = .ok (ts.flatMap (osSegments f)) ∧
    OS.octets (.cons c) = .ok (ts.flatMap (osSegments f)).flatten ∧
    (ts.flatMap (osSegments f)).flatten = (ts.filterMap (osContent 4 f)).flatten ∧
    (ts.filterMap (osContent 4 f)).length = ts.length ∧
    OS.len (.cons c) = .ok (ts.flatMap (osSegments f)).flatten.length ∧
    OS.isEmpty (.cons c) = .ok (ts.flatMap (osSegments f)).flatten.isEmpty ∧
    OS.asSlice (.cons c) = none := by
  obtain ⟨v1, v2, v3, v4, v5⟩ := views_items c _ (items_of_wf f c ts h)
  have hos := (wfTrees_cases f c ts h).2
  refine ⟨v1, v2, (contents_eq_segments f ts hos).symm, ?_, v3, v4, v5⟩
  have hall : ∀ t ∈ ts, (osContent 4 f t).isSome := by simpa [osTrees, List.all_eq_true] using hos
  clear h v1 v2 v3 v4 v5 hos
  induction ts with
  | nil => rfl
  | cons t ts ih =>
    have h1 := hall t (by simp)
    cases hc : osContent 4 f t with
    | none => simp [hc] at h1
    | some x =>
      simp only [List.filterMap_cons, hc, List.length_cons]
      rw [ih (fun t' ht' => hall t' (by simp [ht']))]

/-- `len` as the sum of the segment lengths -/
theorem len_eq_sum (c : Bytes) (segs : List Bytes) (h : Items c segs) :
    OS.len (.cons c) = .ok (segs.map List.length).sum := by
  rw [(views_items c segs h).2.2.1, List.length_flatten]

/-- the same against the tree of the WHOLE value: if the content octets `c` of a constructed
    encoding parse to `kids` and the reference content of the value `.cons id indef kids`
    (outer tag universal 4) is `r`, then every view presents `r` -/
theorem octets_eq_osContent (f : Nat) (c : Bytes) (kids : List Tree) (id : Ident) (indef : Bool) (r : Bytes)
    (hp : parseAll .ber f c = some kids ∨ parseUntilEoc .ber f c = some (kids, []))
    (hc : osContent 4 (f + 1) (.cons id indef kids) = some r) :
    OS.octets (.cons c) = .ok r ∧ OS.len (.cons c) = .ok r.length ∧
    OS.isEmpty (.cons c) = .ok r.isEmpty ∧
    (∃ segs, OS.segments (.cons c) = .ok segs ∧ segs.flatten = r) := by
  obtain ⟨g', hg, _, _, hk⟩ := osContent_cons_some (f + 1) id indef kids (by rw [hc]; rfl)
  have hg' : g' = f := by omega
  subst hg'
  have hr : r = (kids.flatMap (osSegments g')).flatten := content_eq_segments (g' + 1) _ r hc
  have hi : Items c (kids.flatMap (osSegments g')) := by
    rcases hp with hp | hp
    · exact items_of_parseAll g' c kids hp hk
    · exact items_of_parseUntilEoc g' c kids hp hk
  obtain ⟨v1, v2, v3, v4, _⟩ := views_items c _ hi
  rw [hr]
  exact ⟨v2, v3, v4, _, v1, rfl⟩


/-! ## C16, the value as a decoding source (`OctetStringSource`) -/

theorem items_nil_inv (segs : List Bytes) (h : Items [] segs) : segs = [] := by
  cases h with
  | nil => rfl
  | hdr _ id k len? kl _ hi => simp [readIdent] at hi
  | eoc _ id k len? kl _ hi => simp [readIdent] at hi
  | seg _ id k n kl _ hi => simp [readIdent] at hi

/-- invariant of an `OctetStringSource`: the not yet delivered part of the value is `pend`;
    `current` holds a prefix of it, the rest is the leaves of the remaining captured octets -/
def SrcInv (s : OSS) (pend : Bytes) : Prop :=
  ∃ segs, Items s.remainder segs ∧ s.current ++ segs.flatten = pend

theorem srcInv_prefix (s : OSS) (pend : Bytes) (h : SrcInv s pend) : s.current <+: pend := by
  obtain ⟨segs, _, h2⟩ := h
  exact ⟨_, h2⟩

theorem new_inv_prim (b : Bytes) : SrcInv (OSS.new (.prim b)) b :=
  ⟨[], Items.nil, by simp [OSS.new]⟩

theorem new_inv_cons (c : Bytes) (segs : List Bytes) (h : Items c segs) :
    SrcInv (OSS.new (.cons c)) segs.flatten :=
  ⟨segs, h, by simp [OSS.new]⟩

/-- `next_current` on a remainder that is an item sequence -/
theorem nextCurrent_items (s : OSS) (segs : List Bytes) (h : Items s.remainder segs) :
    match segs with
    | [] => OSS.nextCurrent s = .ok none
    | x :: xs => ∃ rest, OSS.nextCurrent s = .ok (some (x, { s with remainder := rest })) ∧
        Items rest xs ∧ rest.length + 2 ≤ s.remainder.length := by
  have hn := iterNext_items s.remainder segs h (s.remainder.length + 2) (by omega)
  cases segs with
  | nil =>
    simp only [NextOn] at hn
    simp only [OSS.nextCurrent, hn, Bind.bind, Except.bind, pure, Except.pure]
  | cons x xs =>
    simp only [NextOn] at hn
    obtain ⟨rest, r1, r2, r3⟩ := hn
    exact ⟨rest, by simp only [OSS.nextCurrent, r1, Bind.bind, Except.bind, pure, Except.pure], r2, r3⟩

/-- the `while current.len() < len` loop -/
theorem fill_items (len : Nat) : ∀ (fuel : Nat) (s : OSS) (segs : List Bytes), Items s.remainder segs →
    s.remainder.length < fuel →
    ∃ s' segs', OSS.fill len fuel s = .ok s' ∧ Items s'.remainder segs' ∧
      s'.current ++ segs'.flatten = s.current ++ segs.flatten ∧
      s.current <+: s'.current ∧ (len ≤ s'.current.length ∨ segs' = []) := by
  intro fuel
  induction fuel with
  | zero => intro s segs _ hf; omega
  | succ fuel ih =>
    intro s segs h hf
    by_cases hlt : s.current.length < len
    · have hn := nextCurrent_items s segs h
      cases segs with
      | nil =>
        simp only at hn
        refine ⟨{ s with remainder := [] }, [], ?_, Items.nil, by simp, List.prefix_refl _, Or.inr rfl⟩
        simp only [OSS.fill, hlt, if_true, hn, Bind.bind, Except.bind, pure, Except.pure]
      | cons x xs =>
        simp only at hn
        obtain ⟨rest, r1, r2, r3⟩ := hn
        obtain ⟨s', segs', f1, f2, f3, f4, f5⟩ :=
          ih ⟨s.current ++ x, rest⟩ xs r2 (by simp only; omega)
        refine ⟨s', segs', ?_, f2, ?_, ?_, f5⟩
        · simp only [OSS.fill, hlt, if_true, r1, Bind.bind, Except.bind]
          exact f1
        · rw [f3]; simp [List.append_assoc]
        · exact List.IsPrefix.trans (List.prefix_append _ _) f4
    · refine ⟨s, segs, ?_, h, rfl, List.prefix_refl _, Or.inl (by omega)⟩
      simp only [OSS.fill, hlt, if_false, pure, Except.pure]

/-- **C16 (source, `request`).**  On a source whose pending content is `pend`, `request len`
    never fails; it returns the length of the (possibly extended) current slice, which is a prefix
    of `pend` extending the old one, nothing of `pend` is lost or reordered, and the slice holds at
    least `len` octets whenever `pend` has that many — otherwise it holds all of `pend`. -/
theorem request_inv (s : OSS) (pend : Bytes) (len : Nat) (h : SrcInv s pend) :
    ∃ s', OSS.request s len = .ok (s'.current.length, s') ∧ SrcInv s' pend ∧
      s.current <+: s'.current ∧ s'.current <+: pend ∧
      (len ≤ pend.length → len ≤ s'.current.length) ∧
      (pend.length < len → s'.current = pend) := by
  obtain ⟨segs, h1, h2⟩ := h
  by_cases hc : s.current.length < len ∧ s.remainder ≠ []
  · have hb : (decide (s.current.length < len) && !s.remainder.isEmpty) = true := by
      obtain ⟨c1, c2⟩ := hc
      cases hr : s.remainder with
      | nil => exact absurd hr c2
      | cons a b => simp [c1]
    obtain ⟨s', segs', f1, f2, f3, f4, f5⟩ := fill_items len (s.remainder.length + 2) s segs h1 (by omega)
    have hp : s'.current ++ segs'.flatten = pend := by rw [f3, h2]
    refine ⟨s', ?_, ⟨segs', f2, hp⟩, f4, ⟨_, hp⟩, ?_, ?_⟩
    · simp only [OSS.request, hb, if_true, f1, Bind.bind, Except.bind, pure, Except.pure]
    · intro hl
      rcases f5 with f5 | f5
      · exact f5
      · subst f5; simp at hp; rw [hp]; exact hl
    · intro hl
      rcases f5 with f5 | f5
      · have := congrArg List.length hp
        simp only [List.length_append] at this; omega
      · subst f5; simpa using hp
  · have hb : (decide (s.current.length < len) && !s.remainder.isEmpty) = false := by
      by_cases c1 : s.current.length < len
      · have c2 : s.remainder = [] := by
          cases hr : s.remainder with
          | nil => rfl
          | cons a b => exact absurd ⟨c1, by simp [hr]⟩ hc
        simp [c2]
      · simp [c1]
    refine ⟨s, ?_, ⟨segs, h1, h2⟩, List.prefix_refl _, ⟨_, h2⟩, ?_, ?_⟩
    · simp only [OSS.request, hb, Bool.false_eq_true, if_false, pure, Except.pure]
    · intro hl
      by_cases c1 : s.current.length < len
      · have c2 : s.remainder = [] := by
          cases hr : s.remainder with
          | nil => rfl
          | cons a b => exact absurd ⟨c1, by simp [hr]⟩ hc
        rw [c2] at h1
        have := items_nil_inv segs h1
        subst this
        simp at h2; rw [h2]; exact hl
      · omega
    · intro hl
      have c1 : s.current.length < len := by
        have := congrArg List.length h2
        simp only [List.length_append] at this; omega
      have c2 : s.remainder = [] := by
        cases hr : s.remainder with
        | nil => rfl
        | cons a b => exact absurd ⟨c1, by simp [hr]⟩ hc
      rw [c2] at h1
      have := items_nil_inv segs h1
      subst this
      simpa using h2

/-- **C16 (source, `advance`).**  Advancing within the current slice drops exactly that many
    octets from the front of the pending content; advancing past it is a panic (contract breach). -/
theorem advance_inv (s : OSS) (pend : Bytes) (n : Nat) (h : SrcInv s pend) :
    (n ≤ s.current.length → ∃ s', OSS.advance s n = .ok s' ∧ SrcInv s' (pend.drop n) ∧
        s'.current = s.current.drop n) ∧
    (s.current.length < n → OSS.advance s n = .error (.panic "advance past current")) := by
  obtain ⟨segs, h1, h2⟩ := h
  constructor
  · intro hn
    refine ⟨{ s with current := s.current.drop n }, by simp [OSS.advance, hn], ⟨segs, h1, ?_⟩, rfl⟩
    rw [← h2, List.drop_append_of_le_length hn]
  · intro hn
    have : ¬ n ≤ s.current.length := by omega
    simp [OSS.advance, this]

/-- reading a whole value through the source: a request for at least as many octets as the value
    holds makes the current slice the whole content -/
theorem request_all (s : OSS) (pend : Bytes) (len : Nat) (h : SrcInv s pend) (hl : pend.length ≤ len) :
    ∃ s', OSS.request s len = .ok (pend.length, s') ∧ s'.current = pend ∧ SrcInv s' pend := by
  obtain ⟨s', r1, r2, r3, r4, r5, r6⟩ := request_inv s pend len h
  have : s'.current = pend := by
    by_cases he : pend.length = len
    · have hge := r5 (by omega)
      obtain ⟨t, ht⟩ := r4
      have hlen := congrArg List.length ht
      simp only [List.length_append] at hlen
      have : t = [] := by
        cases t with
        | nil => rfl
        | cons a b => simp at hlen; omega
      subst this; simpa using ht
    · exact r6 (by omega)
  exact ⟨s', by rw [r1, this], this, r2⟩

/-! ## C16, re-encoding -/

theorem tag_write_len (t : Tag) (c : Bool) : (t.write c).length = t.encodedLen := by
  simp only [Tag.write, Tag.encodedLen]
  split <;> (try split) <;> (try split) <;> simp

/-- `segments` of any value flattens to its `octets` -/
theorem segments_of_octets (os : OS) (x : Bytes) (h : os.octets = .ok x) :
    ∃ segs, os.segments = .ok segs ∧ segs.flatten = x := by
  cases os with
  | prim b =>
    simp only [OS.octets, pure, Except.pure, Except.ok.injEq] at h
    subst h
    refine ⟨_, rfl, ?_⟩
    cases b <;> simp
  | cons c =>
    simp only [OS.octets, Bind.bind, Except.bind] at h
    cases hs : OS.segments (.cons c) with
    | error e => simp [hs] at h
    | ok segs =>
      simp only [hs, pure, Except.pure, Except.ok.injEq] at h
      exact ⟨segs, rfl, h⟩

theorem write_der (tag : Tag) (os : OS) (x : Bytes) (h : os.octets = .ok x) :
    Enc.write .der (.octetString tag os) =
      match (Length.definite x.length).write with
      | .ok l => .ok (tag.write false ++ l ++ x)
      | .error e => .error e := by
  obtain ⟨segs, hs, hf⟩ := segments_of_octets os x h
  have hl := C17.len_content os x h
  simp only [Enc.write, hl, hs, Bind.bind, Except.bind, pure, Except.pure, hf]
  cases (Length.definite x.length).write <;> rfl

/-- **C16 (DER re-encoding).**  In DER every value whose content is `x` (however segmented) is
    written as identifier (primitive) ++ shortest definite length of `x` ++ `x`. -/
theorem write_der_ok (tag : Tag) (os : OS) (x : Bytes) (h : os.octets = .ok x) (hsz : x.length < 2 ^ 32) :
    Enc.write .der (.octetString tag os) = .ok (tag.write false ++ lenOctets x.length ++ x) := by
  rw [write_der tag os x h, C13.write_eq_spec _ hsz]

/-- … and the announced size is the size written -/
theorem encodedLen_der_ok (tag : Tag) (os : OS) (x : Bytes) (h : os.octets = .ok x) (hsz : x.length < 2 ^ 32) :
    Enc.encodedLen .der (.octetString tag os) = .ok (tag.write false ++ lenOctets x.length ++ x).length := by
  have hl := C17.len_content os x h
  simp only [Enc.encodedLen, hl, Bind.bind, Except.bind, pure, Except.pure, lenOfLen, C13.write_len _ hsz,
    List.length_append, tag_write_len]

/-- a content of 2^32 octets or more cannot be written: the length encoder panics -/
theorem write_der_excessive (tag : Tag) (os : OS) (x : Bytes) (h : os.octets = .ok x) (hsz : 2 ^ 32 ≤ x.length) :
    Enc.write .der (.octetString tag os) = .error (.panic "excessive length") := by
  rw [write_der tag os x h]
  have : ¬ x.length < 4294967296 := by simpa using hsz
  have e : (Length.definite x.length).write = .error (.panic "excessive length") := by
    simp only [Length.write]
    repeat' split
    all_goals first | omega | rfl
  rw [e]

/-- **C16 (BER re-encoding).**  In BER the segmentation is kept: a primitive value is written as
    primitive, a constructed one as identifier (constructed) ++ definite length of the captured
    octets ++ the captured octets. -/
theorem write_ber_prim (tag : Tag) (b : Bytes) (hsz : b.length < 2 ^ 32) :
    Enc.write .ber (.octetString tag (.prim b)) = .ok (tag.write false ++ lenOctets b.length ++ b) := by
  simp only [Enc.write, C13.write_eq_spec _ hsz, Bind.bind, Except.bind, pure, Except.pure]

theorem write_ber_cons (tag : Tag) (c : Bytes) (hsz : c.length < 2 ^ 32) :
    Enc.write .ber (.octetString tag (.cons c)) = .ok (tag.write true ++ lenOctets c.length ++ c) := by
  simp only [Enc.write, C13.write_eq_spec _ hsz, Bind.bind, Except.bind, pure, Except.pure]

theorem encodedLen_ber_cons (tag : Tag) (c : Bytes) (hsz : c.length < 2 ^ 32) :
    Enc.encodedLen .ber (.octetString tag (.cons c)) = .ok (tag.write true ++ lenOctets c.length ++ c).length := by
  simp only [Enc.encodedLen, Bind.bind, Except.bind, pure, Except.pure, lenOfLen, C13.write_len _ hsz,
    List.length_append, tag_write_len]

/-- the CER encoder of octet strings is `unimplemented!()` -/
theorem write_cer (tag : Tag) (os : OS) :
    Enc.write .cer (.octetString tag os) = .error (.panic "unimplemented") := rfl


/-! ### the re-encoded octets are a well-formed encoding of the same content -/

/-- the reference length reader reads back the shortest form, in every mode, whatever follows -/
theorem readLen_lenOctets (ber : Bool) (n : Nat) (rest : Bytes) (h : n < 2 ^ 32) :
    readLen ber (lenOctets n ++ rest) = some (some n, (lenOctets n).length) := by
  have key : ∀ m : Mode, readLen m.isBer (lenOctets n ++ rest) = some (some n, (lenOctets n).length) := by
    intro m
    have h1 := C13.read_eq_spec m (lenOctets n ++ rest)
    rw [C13.read_write m n rest h] at h1
    cases hr : readLen m.isBer (lenOctets n ++ rest) with
    | none => rw [hr] at h1; simp [C13.specResult] at h1
    | some r =>
      obtain ⟨x, k⟩ := r
      obtain ⟨_, hk⟩ := readLen_bound _ _ _ _ hr
      rw [hr] at h1
      cases x with
      | none => simp [C13.specResult] at h1
      | some v =>
        simp only [C13.specResult, Except.ok.injEq, Prod.mk.injEq, Length.definite.injEq] at h1
        obtain ⟨hv, hg⟩ := h1
        have hd : rest = (lenOctets n ++ rest).drop k := congrArg G.data hg
        have hlen := congrArg List.length hd
        simp only [List.length_drop, List.length_append] at hlen hk
        have : k = (lenOctets n).length := by omega
        subst hv
        rw [this]
  cases ber with
  | true => exact key .ber
  | false => exact key .der

theorem os_write_false : Tag.OCTET_STRING.write false = [0x04] := by rfl
theorem os_write_true : Tag.OCTET_STRING.write true = [0x24] := by rfl

/-- **C16 (DER re-encoding is well-formed, same content).**  With the OCTET STRING tag, the DER
    output for a value with content `x` is, in every mode's grammar and whatever follows it, one
    primitive universal-4 value whose content is `x`. -/
theorem reencode_der_wellformed (os : OS) (x : Bytes) (h : os.octets = .ok x) (hsz : x.length < 2 ^ 32)
    (m : M) (f : Nat) (rest : Bytes) :
    ∃ out, Enc.write .der (.octetString Tag.OCTET_STRING os) = .ok out ∧
      parseValue m (f + 1) (out ++ rest) = some (.prim ⟨0, false, 4⟩ x, rest) ∧
      osContent 4 f (.prim ⟨0, false, 4⟩ x) = some x ∧
      osAccept .der (.prim ⟨0, false, 4⟩ x) = true := by
  refine ⟨_, write_der_ok _ os x h hsz, ?_, by cases f <;> rfl, rfl⟩
  rw [os_write_false]
  have hl := readLen_lenOctets m.isBer x.length (x ++ rest) hsz
  have hi : readIdent ([0x04] ++ lenOctets x.length ++ x ++ rest) = some (⟨0, false, 4⟩, 1) := by
    simp [readIdent]
  have hd : ([0x04] ++ lenOctets x.length ++ x ++ rest).drop 1 = lenOctets x.length ++ (x ++ rest) := by
    simp
  have hd2 : ([0x04] ++ lenOctets x.length ++ x ++ rest).drop (1 + (lenOctets x.length).length) = x ++ rest := by
    rw [Nat.add_comm, List.append_assoc, List.append_assoc]
    exact List.drop_left
  simp only [parseValue, hi, hd, hl, hd2]
  simp [isEocIdent]

/-- **C16 (BER re-encoding is well-formed, same content).**  With the OCTET STRING tag, the BER
    output for a constructed value whose captured octets `c` parse as a sequence of values `ts` is
    one constructed definite-length universal-4 value with exactly these kids, hence (if they are
    OCTET STRING values) with the same content.  Every constructed value the decoder accepts in BER
    satisfies the hypothesis (`C16b.ber_accept_reencode`; before the repair of D12 a value decoded
    from the indefinite form did not, see `reencode_ber_d12_shape`). -/
theorem reencode_ber_wellformed (c : Bytes) (hsz : c.length < 2 ^ 32) (f : Nat) (ts : List Tree)
    (hp : parseAll .ber f c = some ts) (rest : Bytes) :
    ∃ out, Enc.write .ber (.octetString Tag.OCTET_STRING (.cons c)) = .ok out ∧
      parseValue .ber (f + 1) (out ++ rest) = some (.cons ⟨0, true, 4⟩ false ts, rest) ∧
      (osTrees f ts = true →
        ∃ x, OS.octets (.cons c) = .ok x ∧ osContent 4 (f + 1) (.cons ⟨0, true, 4⟩ false ts) = some x) := by
  refine ⟨_, write_ber_cons _ c hsz, ?_, ?_⟩
  · rw [os_write_true]
    have hl := readLen_lenOctets true c.length (c ++ rest) hsz
    have hi : readIdent ([0x24] ++ lenOctets c.length ++ c ++ rest) = some (⟨0, true, 4⟩, 1) := by
      simp [readIdent]
    have hd : ([0x24] ++ lenOctets c.length ++ c ++ rest).drop 1 = lenOctets c.length ++ (c ++ rest) := by
      simp
    have hd2 : ([0x24] ++ lenOctets c.length ++ c ++ rest).drop (1 + (lenOctets c.length).length) = c ++ rest := by
      rw [Nat.add_comm, List.append_assoc, List.append_assoc]
      exact List.drop_left
    have hb : M.ber.isBer = true := rfl
    simp only [parseValue, hi, hd, hb, hl, hd2]
    simp [isEocIdent, hp]
  · intro hos
    have hi := items_of_parseAll f c ts hp hos
    obtain ⟨_, v2, _⟩ := views_items c _ hi
    refine ⟨_, v2, ?_⟩
    rw [osContent_cons]
    simp only [beq_self_eq_true, Bool.and_self, Bool.not_true, Bool.false_eq_true, if_false]
    have hall : ∀ t ∈ ts, (osContent 4 f t).isSome := by simpa [osTrees, List.all_eq_true] using hos
    rw [foldl_accStep_all _ ts [] hall, List.nil_append, contents_eq_segments f ts hos]


/-! ## what is known here about accepted constructed encodings

Acceptance of the constructed form runs the `skip_opt` state machine (BER) or a loop of
`take_opt_primitive_if` (CER) inside `Constructed::capture`.  Which inputs are accepted is NOT
proved in this file (C10 / C11 and the differential check cover it).  What follows from the capture
theorem C11 alone: whenever the constructed form is accepted, the value holds exactly the octets
the source was advanced over, and decoding continues right behind them. -/

theorem nocap_berLoop (inner : Nat) : ∀ (fuel : Nat) (c : Cons), NoCap (OS.berLoop c inner fuel) := by
  intro fuel
  induction fuel with
  | zero => intro c; exact NoCap.fail _
  | succ fuel ih =>
    intro c
    unfold OS.berLoop
    have := nocap_skipOpt c OS.berFilter () inner
    nocap
    all_goals first | exact ih _ | skip

theorem nocap_cerLoop : ∀ (fuel : Nat) (c : Cons) (short : Bool), NoCap (OS.cerLoop c fuel short) := by
  intro fuel
  induction fuel with
  | zero => intro c short; exact NoCap.fail _
  | succ fuel ih =>
    intro c short
    unfold OS.cerLoop takeOptPrimitiveIf
    apply NoCap.bind
    · apply nocap_processNextValue
      intro t k
      apply nocap_asPrimitive
      intro m
      have := nocap_prim_remaining
      have := nocap_prim_skipAll
      nocap
    · intro r
      nocap
      exact ih _ _

/-- whenever the constructed form is accepted (`runG`, the layer the test driver runs), the value
    is `.cons bytes` where `bytes` are the first `j` of the `k` octets of the source that were
    advanced over (all of them, unless the end-of-contents marker of the value was read: then
    without it), the source continues right behind the `k` octets, and the enclosing limit is
    reduced by `k` -/
theorem cons_accept_captures_consumed (fuel : Nat) (c : Cons) (g g' : G) (os : OS) (content' : Content)
    (h : runG (OS.fromContent fuel (.cons c)) g = .ok ((os, content'), g')) :
    ∃ k j, j ≤ k ∧ k ≤ g.data.length ∧ os = .cons (g.data.take j) ∧ g'.data = g.data.drop k ∧
      g'.limit = g.limit.map (· - k) := by
  cases hm : c.mode with
  | der => simp [OS.fromContent, hm] at h
  | ber =>
    simp only [OS.fromContent, hm, OS.takeConstructedBer, runG_bind] at h
    cases hc : runG (capture c fun c => OS.berLoop c fuel fuel) g with
    | error e => simp [hc] at h
    | ok r =>
      obtain ⟨⟨bytes, c'⟩, g1⟩ := r
      simp only [hc, runG_pure, Except.ok.injEq, Prod.mk.injEq] at h
      obtain ⟨⟨rfl, _⟩, rfl⟩ := h
      obtain ⟨k, h1, h2, h3, h4, _⟩ := C11.capture_exact c _
        (fun c => C11.uses_of_nocap (nocap_berLoop fuel fuel c)) g bytes c' g1 hc
      exact ⟨k, _, Nat.sub_le _ _, h1, by rw [h2], h3, h4⟩
  | cer =>
    simp only [OS.fromContent, hm, OS.takeConstructedCer, runG_bind] at h
    cases hc : runG (capture c fun c => OS.cerLoop c fuel false) g with
    | error e => simp [hc] at h
    | ok r =>
      obtain ⟨⟨bytes, c'⟩, g1⟩ := r
      simp only [hc, runG_pure, Except.ok.injEq, Prod.mk.injEq] at h
      obtain ⟨⟨rfl, _⟩, rfl⟩ := h
      obtain ⟨k, h1, h2, h3, h4, _⟩ := C11.capture_exact c _
        (fun c => C11.uses_of_nocap (nocap_cerLoop fuel c false)) g bytes c' g1 hc
      exact ⟨k, _, Nat.sub_le _ _, h1, by rw [h2], h3, h4⟩

/-! ## capture on `runG0` -/

/-- the state `g'` (reached from data `d` without frames) seen under an open capture frame `f` -/
def framed (f : Frame) (fs : List Frame) (d : Bytes) (g' : G0) : G0 :=
  ⟨g'.data, g'.limit, { f with buf := f.buf ++ d.take (d.length - g'.data.length) } :: fs⟩

theorem framed_same (f : Frame) (fs : List Frame) (d : Bytes) (l : Option Nat) :
    framed f fs d ⟨d, l, []⟩ = ⟨d, l, f :: fs⟩ := by
  simp [framed]

theorem advance_framed (d : Bytes) (l : Option Nat) (f : Frame) (fs : List Frame) (n : Nat) :
    G0.advance ⟨d, l, f :: fs⟩ n =
      match G0.advance ⟨d, l, []⟩ n with
      | .ok g' => .ok (framed f fs d g')
      | .error e => .error e := by
  unfold G0.advance
  by_cases h1 : d.length < n
  · simp [h1]
  · simp only [h1, if_false]
    have e : d.length - (d.length - n) = n := by omega
    cases l with
    | none => simp [framed, e]
    | some l =>
      by_cases h2 : l < n
      · simp [h2]
      · simp [h2, framed, e]

theorem advance_unframed (d : Bytes) (l : Option Nat) (n : Nat) (g' : G0)
    (h : G0.advance ⟨d, l, []⟩ n = .ok g') : g'.frames = [] ∧ ∃ k, k ≤ d.length ∧ g'.data = d.drop k := by
  unfold G0.advance at h
  by_cases h1 : d.length < n
  · simp [h1] at h
  · simp only [h1, if_false] at h
    cases l with
    | none => simp at h; subst h; exact ⟨rfl, n, by omega, rfl⟩
    | some l =>
      by_cases h2 : l < n
      · simp [h2] at h
      · simp [h2] at h; subst h; exact ⟨rfl, n, by omega, rfl⟩

theorem step_framed (d : Bytes) (l : Option Nat) (f : Frame) (fs : List Frame) (o : Op)
    (h1 : o ≠ .capBegin) (h2 : o ≠ .capEnd) :
    stepG0 ⟨d, l, f :: fs⟩ o =
      match stepG0 ⟨d, l, []⟩ o with
      | .ok (r, g') => .ok (r, framed f fs d g')
      | .error e => .error e := by
  have hv : (⟨d, l, f :: fs⟩ : G0).view = (⟨d, l, []⟩ : G0).view := rfl
  cases o with
  | capBegin => exact absurd rfl h1
  | capEnd => exact absurd rfl h2
  | takeOptU8 =>
    simp only [stepG0, hv, advance_framed]
    cases (⟨d, l, []⟩ : G0).view with
    | nil => simp [framed_same]
    | cons b t =>
      simp only
      cases G0.advance ⟨d, l, []⟩ 1 <;> rfl
  | peekAt i => simp [stepG0, hv, framed_same]
  | peek2 => simp [stepG0, hv, framed_same]
  | need n => simp [stepG0, hv, framed_same]
  | takeN n =>
    simp only [stepG0, hv, advance_framed]
    split
    · rfl
    · cases G0.advance ⟨d, l, []⟩ n <;> rfl
  | skipN n =>
    simp only [stepG0, hv, advance_framed]
    split
    · rfl
    · cases G0.advance ⟨d, l, []⟩ n <;> rfl
  | sliceN n =>
    simp only [stepG0, hv]
    split
    · rfl
    · simp [framed_same]
  | getLimit => simp [stepG0, framed_same]
  | setLimit l' => simp [stepG0, framed]
  | reqCapped n => simp [stepG0, hv, framed_same]
  | getPos => simp [stepG0, framed_same]

theorem step_unframed (d : Bytes) (l : Option Nat) (o : Op) (h1 : o ≠ .capBegin) (h2 : o ≠ .capEnd)
    (r : Resp) (g' : G0) (h : stepG0 ⟨d, l, []⟩ o = .ok (r, g')) :
    g'.frames = [] ∧ ∃ k, k ≤ d.length ∧ g'.data = d.drop k := by
  have same : ∀ r', (.ok (r', (⟨d, l, []⟩ : G0)) : Res (Resp × G0)) = .ok (r, g') →
      g'.frames = [] ∧ ∃ k, k ≤ d.length ∧ g'.data = d.drop k := by
    intro r' h; simp at h; obtain ⟨_, rfl⟩ := h; exact ⟨rfl, 0, by omega, rfl⟩
  cases o with
  | capBegin => exact absurd rfl h1
  | capEnd => exact absurd rfl h2
  | takeOptU8 =>
    simp only [stepG0] at h
    split at h
    · exact same _ h
    · split at h
      · rename_i g1 ha; simp at h; obtain ⟨_, rfl⟩ := h; exact advance_unframed d l 1 _ ha
      · simp at h
  | peekAt i => exact same _ h
  | peek2 => exact same _ h
  | need n => exact same _ h
  | takeN n =>
    simp only [stepG0] at h
    split at h
    · simp at h
    · split at h
      · rename_i g1 ha; simp at h; obtain ⟨_, rfl⟩ := h; exact advance_unframed d l n _ ha
      · simp at h
  | skipN n =>
    simp only [stepG0] at h
    split at h
    · simp at h
    · split at h
      · rename_i g1 ha; simp at h; obtain ⟨_, rfl⟩ := h; exact advance_unframed d l n _ ha
      · simp at h
  | sliceN n =>
    simp only [stepG0] at h
    split at h
    · simp at h
    · exact same _ h
  | getLimit => exact same _ h
  | setLimit l' => simp [stepG0] at h; obtain ⟨_, rfl⟩ := h; exact ⟨rfl, 0, by omega, rfl⟩
  | reqCapped n => exact same _ h
  | getPos => exact same _ h


theorem framed_framed (f : Frame) (fs : List Frame) (d : Bytes) (k : Nat) (hk : k ≤ d.length) (g' : G0)
    (k2 : Nat) (hk2 : k2 ≤ (d.drop k).length) (hd : g'.data = (d.drop k).drop k2) :
    framed { f with buf := f.buf ++ d.take k } fs (d.drop k) g' = framed f fs d g' := by
  simp only [List.length_drop] at hk2
  have e1 : (d.drop k).length - g'.data.length = k2 := by
    rw [hd]; simp only [List.length_drop]; omega
  have e2 : d.length - g'.data.length = k + k2 := by
    rw [hd]; simp only [List.length_drop]; omega
  simp only [framed, e1, e2, List.take_add, List.append_assoc]

/-- **a capture-free program under an open capture frame** does what it does without the frame; the
    frame records exactly the octets advanced over.  (`runG0`; also: without frames the data is
    only ever advanced.) -/
theorem run_framed (p : Prog α) (hp : NoCap p) : ∀ (d : Bytes) (l : Option Nat) (f : Frame) (fs : List Frame),
    (runG0 p ⟨d, l, f :: fs⟩ =
      match runG0 p ⟨d, l, []⟩ with
      | .ok (a, g') => .ok (a, framed f fs d g')
      | .error e => .error e) ∧
    (∀ a g', runG0 p ⟨d, l, []⟩ = .ok (a, g') → g'.frames = [] ∧ ∃ k, k ≤ d.length ∧ g'.data = d.drop k) := by
  induction hp with
  | ret a =>
    intro d l f fs
    refine ⟨by simp [runG0, framed_same], ?_⟩
    intro a' g' h; simp [runG0] at h; obtain ⟨_, rfl⟩ := h; exact ⟨rfl, 0, by omega, rfl⟩
  | fail e =>
    intro d l f fs
    exact ⟨rfl, fun a g' h => by simp [runG0] at h⟩
  | op o k h1 h2 _ ih =>
    intro d l f fs
    simp only [runG0, step_framed d l f fs o h1 h2]
    cases hs : stepG0 ⟨d, l, []⟩ o with
    | error e => exact ⟨rfl, fun a g' h => by simp at h⟩
    | ok rg =>
      obtain ⟨r, g1⟩ := rg
      obtain ⟨hf1, k1, hk1, hd1⟩ := step_unframed d l o h1 h2 r g1 hs
      have hg1 : g1 = ⟨d.drop k1, g1.limit, []⟩ := by
        cases g1 with
        | mk dd ll ff => simp at hf1 hd1; subst hf1; subst hd1; rfl
      have hfr : framed f fs d g1 = ⟨d.drop k1, g1.limit, { f with buf := f.buf ++ d.take k1 } :: fs⟩ := by
        rw [hg1]; simp only [framed, List.length_drop]
        have : d.length - (d.length - k1) = k1 := by omega
        rw [this]
      obtain ⟨ih1, ih2⟩ := ih r (d.drop k1) g1.limit { f with buf := f.buf ++ d.take k1 } fs
      simp only
      rw [hfr, ih1, ← hg1]
      constructor
      · cases hr : runG0 (k r) g1 with
        | error e => rfl
        | ok ag =>
          obtain ⟨a, g'⟩ := ag
          rw [hg1] at hr
          obtain ⟨_, k2, hk2, hd2⟩ := ih2 a g' hr
          simp only
          rw [framed_framed f fs d k1 hk1 g' k2 hk2 hd2]
      · intro a g' hr
        rw [hg1] at hr
        obtain ⟨hf2, k2, hk2, hd2⟩ := ih2 a g' hr
        simp only [List.length_drop] at hk2
        exact ⟨hf2, k1 + k2, by omega, by rw [hd2, List.drop_drop]⟩

/-- **`Constructed::capture` on a source without open capture**, for a capture-free closure:
    the closure runs as if there were no capture; the octets it advanced over are returned, the
    limit is the outer limit reduced by their number. -/
theorem capture_run0 (c : Cons) (op : Cons → Prog Cons) (hop : ∀ c, NoCap (op c)) (d : Bytes) (l : Option Nat) :
    runG0 (capture c op) (St d l) =
      match runG0 (op c) (St d l) with
      | .error e => .error e
      | .ok (c', g') =>
        let k := d.length - g'.data.length
        let e := if c'.state = c.state then 0 else c'.eoc
        match l with
        | some lim =>
          if lim < k then .error (.panic "advanced past end of limit")
          else .ok ((d.take (k - e), { c with state := c'.state, eoc := c'.eoc }), St g'.data (some (lim - k)))
        | none => .ok ((d.take (k - e), { c with state := c'.state, eoc := c'.eoc }), St g'.data none) := by
  unfold capture
  have hb : runG0 capBegin (St d l) = .ok ((), ⟨d, l, [{ buf := [], outer := l }]⟩) := by
    simp [capBegin, runG0, stepG0]
  simp only [runG0_bind, hb]
  obtain ⟨h1, h2⟩ := run_framed (op c) (hop c) d l { buf := [], outer := l } []
  rw [h1]
  cases hr : runG0 (op c) ⟨d, l, []⟩ with
  | error e => rfl
  | ok cg =>
    obtain ⟨c', g'⟩ := cg
    obtain ⟨hf, k, hk, hd⟩ := h2 c' g' hr
    have hlen : d.length - g'.data.length = k := by rw [hd]; simp only [List.length_drop]; omega
    have hlt : (d.take k).length = k := by simp [List.length_take]; omega
    simp only [framed, hlen, List.nil_append]
    have htk : ∀ x, List.take (k - x) (List.take k d) = List.take (k - x) d := by
      intro x; rw [List.take_take]; congr 1; omega
    cases l with
    | none =>
      by_cases hs : c'.state = c.state
      · simp [capEnd, runG0, stepG0, hs]
      · simp [capEnd, runG0, stepG0, hs, hlt, htk]
    | some lim =>
      by_cases hl : lim < k
      · simp [capEnd, runG0, stepG0, hlt, hl]
      · by_cases hs : c'.state = c.state
        · simp [capEnd, runG0, stepG0, hlt, hl, hs]
        · simp [capEnd, runG0, stepG0, hlt, hl, hs, htk]


/-! ## C16, acceptance of the constructed form in CER -/

/-- the closure of `take_constructed_cer` -/
def cerClosure (short : Bool) : Mode → Prog (Bool × Mode) := fun m => do
  let rem ← Prim.remaining
  if rem > 1000 then contentErr
  else if short then contentErr
  else
    Prim.skipAll
    pure (decide (rem < 1000), m)

theorem cerLoop_succ (c : Cons) (fuel : Nat) (short : Bool) :
    OS.cerLoop c (fuel + 1) short = (do
      let (r, c') ← takeOptPrimitiveIf c Tag.OCTET_STRING (cerClosure short)
      match r with
      | some short' => OS.cerLoop c' fuel short'
      | none => pure c') := rfl

theorem cerClosure_run (short : Bool) (m : Mode) (data : Bytes) (len : Nat) :
    runG0 (asPrimitive (cerClosure short) (.prim m)) (St data (some len)) =
      if len > 1000 ∨ short = true ∨ data.length < len then .error .content
      else .ok ((decide (len < 1000), .prim m), St (data.drop len) (some 0)) := by
  simp only [asPrimitive, cerClosure, runG0_bind, run_remaining]
  by_cases h1 : len > 1000
  · simp [h1]
  · by_cases h2 : short = true
    · simp [h1, h2]
    · simp only [h1, h2, if_false, false_or, Bool.false_eq_true, runG0_bind, C19.run_skipAll]
      by_cases h3 : len ≤ data.length
      · have : ¬ data.length < len := by omega
        simp [h3, this]
      · have : data.length < len := by omega
        simp [h3, this]

/-- the constructed value being read in CER: indefinite -/
abbrev cI : Cons := ⟨.indefinite, .cer, 0⟩

/-- the next segment at the front of `d`, by the reference header readers: `none` = no OCTET STRING
    identifier there (end of the segments); `some (segment, is short, what follows)` -/
def cerHead (short : Bool) (d : Bytes) : Res (Option (Bytes × Bool × Bytes)) :=
  if d = [] then .ok none
  else match readIdent d with
    | none => .error .content
    | some (id, k) =>
      if id.cls = 0 ∧ id.num = 4 then
        match readLen false (d.drop k) with
        | some (some n, kl) =>
          if id.constructed = true ∨ n > 1000 ∨ short = true ∨ (d.drop (k + kl)).length < n then .error .content
          else .ok (some ((d.drop (k + kl)).take n, decide (n < 1000), d.drop (k + kl + n)))
        | _ => .error .content
      else .ok none

theorem cer_round (short : Bool) (d : Bytes) :
    runG0 (takeOptPrimitiveIf cI Tag.OCTET_STRING (cerClosure short)) (St d none) =
      match cerHead short d with
      | .error e => .error e
      | .ok none => .ok ((none, cI), St d none)
      | .ok (some (_, sh, rest)) => .ok ((some sh, cI), St rest none) := by
  unfold takeOptPrimitiveIf
  rw [← tagOf_os, C09.pnvE_eq cI 0 4 (by omega) (by omega) _ _ rfl]
  unfold C09.pnvE cerHead
  have hv : (St d none).view = d := rfl
  simp only [hv, show (cI.state = CState.done) = False from by simp, show (cI.state = CState.definite) = False from by simp,
    false_and, if_false]
  by_cases hd : d = []
  · simp [hd]
  · simp only [hd, if_false]
    cases hr : readIdent d with
    | none => rfl
    | some r =>
      obtain ⟨id, k⟩ := r
      obtain ⟨hc, hn, hk1, hk, _⟩ := C12.readIdent_bounds _ _ _ hr
      simp only
      by_cases hid : id.cls = 0 ∧ id.num = 4
      · simp only [hid, and_self, if_true]
        have hv1 : ((St d none).adv k).view = d.drop k := rfl
        have hb : cI.mode.isBer = false := rfl
        rw [hv1, hb]
        cases hl : readLen false (d.drop k) with
        | none => rfl
        | some r2 =>
          obtain ⟨len?, kl⟩ := r2
          have hne : isEocIdent id = false := by simp [isEocIdent, hid.2]
          have hadv : ((St d none).adv k).adv kl = St (d.drop (k + kl)) none := by
            simp [G0.adv, List.drop_drop]
          simp only [hadv]
          cases len? with
          | none =>
            simp only [C02.bodyF, hne, Bool.false_eq_true, if_false]
            by_cases hcn : id.constructed = true
            · simp [hcn, asPrimitive]
            · simp [hcn]
          | some n =>
            simp only [C02.bodyF, hne, Bool.false_eq_true, if_false]
            by_cases hcn : id.constructed = true
            · simp [hcn]
            · have hcn' : id.constructed = false := by simpa using hcn
              simp only [hcn', Bool.false_and, Bool.false_eq_true, if_false, cerClosure_run, false_or]
              by_cases hbad : n > 1000 ∨ short = true ∨ (d.drop (k + kl)).length < n
              · rw [if_pos hbad, if_pos hbad]
              · rw [if_neg hbad, if_neg hbad]
                simp [Content.exhausted, run_limitedExhausted, List.drop_drop]
      · simp [hid]

/-- the segments at the front of `d`: reference scanner over the header readers -/
def cerScan : Nat → Bool → Bytes → Res (List Bytes × Bytes)
  | 0, _, _ => .error .fuel
  | fuel + 1, short, d =>
    match cerHead short d with
    | .error e => .error e
    | .ok none => .ok ([], d)
    | .ok (some (seg, sh, rest)) =>
      match cerScan fuel sh rest with
      | .ok (segs, r) => .ok (seg :: segs, r)
      | .error e => .error e

theorem cerLoop_run : ∀ (fuel : Nat) (short : Bool) (d : Bytes),
    runG0 (OS.cerLoop cI fuel short) (St d none) =
      match cerScan fuel short d with
      | .ok (_, rest) => .ok (cI, St rest none)
      | .error e => .error e := by
  intro fuel
  induction fuel with
  | zero => intro short d; rfl
  | succ fuel ih =>
    intro short d
    rw [cerLoop_succ]
    simp only [runG0_bind, cer_round, cerScan]
    cases hh : cerHead short d with
    | error e => rfl
    | ok r =>
      cases r with
      | none => rfl
      | some x =>
        obtain ⟨seg, sh, rest⟩ := x
        simp only [ih]
        cases cerScan fuel sh rest with
        | error e => rfl
        | ok y => rfl

theorem cerHead_suffix (short : Bool) (d seg : Bytes) (sh : Bool) (rest : Bytes)
    (h : cerHead short d = .ok (some (seg, sh, rest))) :
    ∃ k, 2 ≤ k ∧ k ≤ d.length ∧ rest = d.drop k := by
  unfold cerHead at h
  split at h
  · simp at h
  · cases hr : readIdent d with
    | none => simp [hr] at h
    | some r =>
      obtain ⟨id, k⟩ := r
      simp only [hr] at h
      split at h
      · cases hl : readLen false (d.drop k) with
        | none => simp [hl] at h
        | some r2 =>
          obtain ⟨len?, kl⟩ := r2
          obtain ⟨_, _, hk1, hk, _⟩ := C12.readIdent_bounds _ _ _ hr
          obtain ⟨hkl1, hkl⟩ := readLen_bound _ _ _ _ hl
          simp only [List.length_drop] at hkl
          cases len? with
          | none => simp [hl] at h
          | some n =>
            simp only [hl] at h
            split at h
            · simp at h
            · rename_i hbad
              simp only [Except.ok.injEq, Option.some.injEq, Prod.mk.injEq] at h
              simp only [List.length_drop] at hbad
              exact ⟨k + kl + n, by omega, by omega, h.2.2.symm⟩
      · simp at h

theorem cerScan_suffix : ∀ (fuel : Nat) (short : Bool) (d : Bytes) (segs : List Bytes) (rest : Bytes),
    cerScan fuel short d = .ok (segs, rest) → ∃ k, k ≤ d.length ∧ rest = d.drop k := by
  intro fuel
  induction fuel with
  | zero => intro short d segs rest h; simp [cerScan] at h
  | succ fuel ih =>
    intro short d segs rest h
    simp only [cerScan] at h
    cases hh : cerHead short d with
    | error e => simp [hh] at h
    | ok r =>
      cases r with
      | none => simp [hh] at h; exact ⟨0, by omega, by simp [h.2]⟩
      | some x =>
        obtain ⟨seg, sh, rest1⟩ := x
        simp only [hh] at h
        obtain ⟨k1, _, hk1, hr1⟩ := cerHead_suffix short d seg sh rest1 hh
        cases hs : cerScan fuel sh rest1 with
        | error e => simp [hs] at h
        | ok y =>
          obtain ⟨segs', r⟩ := y
          simp only [hs, Except.ok.injEq, Prod.mk.injEq] at h
          obtain ⟨k2, hk2, hr2⟩ := ih sh rest1 segs' r hs
          subst hr1
          simp only [List.length_drop] at hk2
          exact ⟨k1 + k2, by omega, by rw [← h.2, hr2, List.drop_drop]⟩

/-- the identifier reader: short form, or a number of at least 31 -/
theorem readIdent_shape (b : UInt8) (t : Bytes) (id : Ident) (k : Nat) (h : readIdent (b :: t) = some (id, k)) :
    (b.toNat % 32 ≠ 31 ∧ id = ⟨b.toNat / 64, b.toNat / 32 % 2 == 1, b.toNat % 32⟩ ∧ k = 1) ∨ 31 ≤ id.num := by
  simp only [readIdent] at h
  split at h
  · rename_i h0
    simp only [Option.some.injEq, Prod.mk.injEq] at h
    exact Or.inl ⟨by simpa using h0, h.1.symm, h.2.symm⟩
  · right
    match t, h with
    | [], h => simp at h
    | d1 :: r1, h =>
      simp only at h
      split at h
      · split at h
        · simp at h; obtain ⟨h1, _⟩ := h; subst h1; simp; omega
        · simp at h
      · split at h
        · simp at h
        · rename_i h1 h2
          have h2' : d1.toNat ≠ 128 := by simpa using h2
          have hd1 := byte_lt_256 d1
          match r1, h with
          | [], h => simp at h
          | d2 :: r2, h =>
            simp only at h
            split at h
            · simp at h; obtain ⟨h1, _⟩ := h; subst h1; simp; omega
            · match r2, h with
              | [], h => simp at h
              | d3 :: r3, h =>
                simp only at h
                split at h
                · simp at h; obtain ⟨h1, _⟩ := h; subst h1; simp; omega
                · simp at h

/-- an identifier of a primitive OCTET STRING is the octet `04` -/
theorem readIdent_os_inv (d : Bytes) (id : Ident) (k : Nat) (h : readIdent d = some (id, k))
    (h0 : id.cls = 0) (h4 : id.num = 4) (hc : id.constructed = false) : ∃ t, d = 0x04 :: t ∧ k = 1 := by
  cases d with
  | nil => simp [readIdent] at h
  | cons b t =>
    rcases readIdent_shape b t id k h with ⟨_, hid, hk⟩ | hge
    · subst hid
      simp only at h0 h4 hc
      have hb : b.toNat = 4 := by
        have : b.toNat / 32 % 2 ≠ 1 := by simpa using hc
        have := byte_lt_256 b
        omega
      have : b = 4 := UInt8.toNat_inj.mp hb
      exact ⟨t, by rw [this], hk⟩
    · omega

/-- non-BER length octets are the shortest form of their value -/
theorem readLen_false_inv (d : Bytes) (n kl : Nat) (h : readLen false d = some (some n, kl)) :
    ∃ t, d = lenOctets n ++ t ∧ kl = (lenOctets n).length := by
  cases d with
  | nil => simp [readLen] at h
  | cons b rest =>
    simp only [readLen] at h
    split at h
    · rename_i h0
      simp only [Option.some.injEq, Prod.mk.injEq] at h
      obtain ⟨hn, hk⟩ := h
      subst hn
      have : lenOctets b.toNat = [b] := by
        rw [C13.lenOctets_1 _ h0]
        congr 1
        exact UInt8.toNat_inj.mp (by simp)
      exact ⟨rest, by rw [this]; rfl, by rw [this]; exact hk.symm⟩
    · split at h
      · simp at h
      · split at h
        · simp at h
        · split at h
          · simp at h
          · simp only [Bool.false_eq_true, if_false] at h
            split at h
            · rename_i hmin
              simp only [Option.some.injEq, Prod.mk.injEq] at h
              obtain ⟨hn, hk⟩ := h
              subst hn
              refine ⟨rest.drop (b.toNat - 128), ?_, ?_⟩
              · rw [hmin]; simp [List.take_append_drop]
              · rw [hmin]; simp [List.length_take]; omega
            · simp at h

/-- `Constructed::exhausted` of an indefinite value in CER: exactly the octets `00 00` -/
theorem exhausted_indef_run (rest : Bytes) :
    runG0 cI.exhausted (St rest none) =
      if rest.take 2 = [0, 0] then .ok ((), St (rest.drop 2) none) else .error .content := by
  have ht : ∀ r : Bytes, runG0 Tag.takeFrom (St r none) = match readIdent r with
      | none => .error .content
      | some (id, k) => .ok ((C12.tagOf id.cls id.num, id.constructed), St (r.drop k) none) :=
    fun r => tag_takeFrom0 (St r none) rfl
  have hlen : ∀ r : Bytes, runG0 (Length.takeFrom .cer) (St r none) = match readLen false r with
      | none => .error .content
      | some (some n, k) => .ok (.definite n, St (r.drop k) none)
      | some (none, k) => .ok (.indefinite, St (r.drop k) none) :=
    fun r => length_takeFrom0 .cer (St r none) rfl
  unfold Cons.exhausted
  simp only [runG0_bind, ht]
  cases rest with
  | nil => simp [readIdent]
  | cons b t =>
    by_cases hb : b = 0
    · subst hb
      have hi : readIdent ((0 : UInt8) :: t) = some (⟨0, false, 0⟩, 1) := by simp [readIdent]
      simp only [hi, tagOf_eoc, bne_self_eq_false, Bool.or_false, Bool.false_eq_true, if_false, runG0_bind,
        List.drop_succ_cons, List.drop_zero, hlen]
      cases t with
      | nil => simp [readLen]
      | cons b2 t' =>
        by_cases hb2 : b2 = 0
        · subst hb2
          have hl : readLen false ((0 : UInt8) :: t') = some (some 0, 1) := by simp [readLen]
          simp [hl, Length.isZero]
        · have hne : ¬ List.take 2 ((0 : UInt8) :: b2 :: t') = [0, 0] := by simp [hb2]
          rw [if_neg hne]
          cases hl : readLen false (b2 :: t') with
          | none => rfl
          | some r =>
            obtain ⟨x, kl⟩ := r
            cases x with
            | none => simp [Length.isZero]
            | some n =>
              cases n with
              | zero =>
                obtain ⟨t2, ht2, _⟩ := readLen_false_inv _ _ _ hl
                have : lenOctets 0 = [0] := by rfl
                rw [this] at ht2
                simp at ht2
                exact absurd ht2.1 hb2
              | succ n => simp [Length.isZero]
    · have hne : ¬ List.take 2 (b :: t) = [0, 0] := by
        cases t <;> simp [hb]
      rw [if_neg hne]
      cases hr : readIdent (b :: t) with
      | none => rfl
      | some r =>
        obtain ⟨id, k⟩ := r
        obtain ⟨hc, hn, _⟩ := C12.readIdent_bounds _ _ _ hr
        have hbad : (C12.tagOf id.cls id.num != Tag.END_OF_VALUE || id.constructed) = true := by
          by_cases he : isEocIdent id = true
          · rcases readIdent_shape b t id k hr with ⟨_, hid, _⟩ | hge
            · subst hid
              simp only [isEocIdent, Bool.and_eq_true, beq_iff_eq] at he
              have hbb := byte_lt_256 b
              have hb32 : b.toNat = 32 := by
                have : b.toNat ≠ 0 := fun h => hb (UInt8.toNat_inj.mp h)
                omega
              simp [hb32]
            · simp only [isEocIdent, Bool.and_eq_true, beq_iff_eq] at he
              omega
          · have : ¬ C12.tagOf id.cls id.num = Tag.END_OF_VALUE := fun h => he ((C02.tagOf_eoc id hc hn).mp h)
            simp [this]
        simp only [hbad, if_true, runG0_contentErr]
/-- what `from_content` + exhaustion check must give on the content octets `d` of an
    indefinite-length constructed OCTET STRING in CER -/
def cerAccept (fuel : Nat) (d : Bytes) : Res ((OS × Content) × G0) :=
  match cerScan fuel false d with
  | .error e => .error e
  | .ok (_, rest) =>
    if rest.take 2 = [0, 0] then
      .ok ((.cons (d.take (d.length - rest.length)), .cons cI), St (rest.drop 2) none)
    else .error .content

/-- **closed form, CER constructed**: on every input -/
theorem cons_cer_run (fuel : Nat) (d : Bytes) :
    runG0 (fromContentChecked fuel (.cons cI)) (St d none) = cerAccept fuel d := by
  unfold fromContentChecked cerAccept
  have hfc : OS.fromContent fuel (.cons cI) =
      (do let (os, c') ← OS.takeConstructedCer cI fuel; pure (os, Content.cons c')) := rfl
  rw [hfc]
  unfold OS.takeConstructedCer
  simp only [runG0_bind, capture_run0 cI _ (fun c => nocap_cerLoop fuel c false), cerLoop_run]
  cases hs : cerScan fuel false d with
  | error e => rfl
  | ok r =>
    obtain ⟨segs, rest⟩ := r
    simp only [runG0_pure, Content.exhausted]
    have : ({ cI with state := cI.state } : Cons) = cI := rfl
    rw [this, exhausted_indef_run]
    by_cases h2 : rest.take 2 = [0, 0] <;> simp [h2]

/-- the CER encoding of one primitive segment -/
def cerSegEnc (s : Bytes) : Bytes := 0x04 :: (lenOctets s.length ++ s)
/-- … of a sequence of segments -/
def cerEnc (segs : List Bytes) : Bytes := (segs.map cerSegEnc).flatten

/-- X.690 9.2 on the segments (given whether a short one came before): each at most 1000 octets,
    and nothing may follow a segment shorter than 1000 -/
def cerOK : Bool → List Bytes → Bool
  | _, [] => true
  | short, s :: ss => !short && decide (s.length ≤ 1000) && cerOK (decide (s.length < 1000)) ss

theorem cerHead_enc (s tail : Bytes) (hs : s.length ≤ 1000) :
    cerHead false (cerSegEnc s ++ tail) = .ok (some (s, decide (s.length < 1000), tail)) := by
  have hsz : s.length < 2 ^ 32 := by omega
  have hl := readLen_lenOctets false s.length (s ++ tail) hsz
  have hi : readIdent (cerSegEnc s ++ tail) = some (⟨0, false, 4⟩, 1) := by simp [cerSegEnc, readIdent]
  have hd : (cerSegEnc s ++ tail).drop 1 = lenOctets s.length ++ (s ++ tail) := by simp [cerSegEnc]
  have hd2 : (cerSegEnc s ++ tail).drop (1 + (lenOctets s.length).length) = s ++ tail := by
    rw [Nat.add_comm]
    simp only [cerSegEnc, List.cons_append, List.drop_succ_cons, List.append_assoc]
    exact List.drop_left
  have hd3 : (cerSegEnc s ++ tail).drop (1 + (lenOctets s.length).length + s.length) = tail := by
    rw [← List.drop_drop, hd2]; exact List.drop_left
  have hne : ¬ cerSegEnc s ++ tail = [] := by simp [cerSegEnc]
  have hbad : ¬ ((⟨0, false, 4⟩ : Ident).constructed = true ∨ s.length > 1000 ∨ false = true ∨ (s ++ tail).length < s.length) := by
    simp only [List.length_append]
    rintro (h | h | h | h)
    · cases h
    · omega
    · cases h
    · omega
  simp only [cerHead, hne, if_false, hi, and_self, if_true, hd, hl, hd2, hd3, hbad, List.take_left']

theorem cerHead_inv (short : Bool) (d seg : Bytes) (sh : Bool) (rest : Bytes)
    (h : cerHead short d = .ok (some (seg, sh, rest))) :
    short = false ∧ seg.length ≤ 1000 ∧ sh = decide (seg.length < 1000) ∧ d = cerSegEnc seg ++ rest := by
  unfold cerHead at h
  split at h
  · simp at h
  · cases hr : readIdent d with
    | none => simp [hr] at h
    | some r =>
      obtain ⟨id, k⟩ := r
      simp only [hr] at h
      split at h
      · rename_i hid
        cases hl : readLen false (d.drop k) with
        | none => simp [hl] at h
        | some r2 =>
          obtain ⟨len?, kl⟩ := r2
          cases len? with
          | none => simp [hl] at h
          | some n =>
            simp only [hl] at h
            split at h
            · simp at h
            · rename_i hbad
              simp only [Except.ok.injEq, Option.some.injEq, Prod.mk.injEq] at h
              obtain ⟨h1, h2, h3⟩ := h
              have hcn : id.constructed = false := by
                cases hc : id.constructed with
                | false => rfl
                | true => exact absurd (Or.inl hc) hbad
              have hn1 : ¬ n > 1000 := fun hh => hbad (Or.inr (Or.inl hh))
              have hsh : short = false := by
                cases hc : short with
                | false => rfl
                | true => exact absurd (Or.inr (Or.inr (Or.inl hc))) hbad
              have hn2 : ¬ (d.drop (k + kl)).length < n := fun hh => hbad (Or.inr (Or.inr (Or.inr hh)))
              obtain ⟨t, ht, hk⟩ := readIdent_os_inv d id k hr hid.1 hid.2 hcn
              subst hk
              obtain ⟨t2, ht2, hkl⟩ := readLen_false_inv _ _ _ hl
              rw [ht] at ht2
              simp only [List.drop_succ_cons, List.drop_zero] at ht2
              have hd2 : d.drop (1 + kl) = t2 := by
                rw [ht, ht2, Nat.add_comm, hkl]
                simp only [List.drop_succ_cons]
                exact List.drop_left
              rw [hd2] at h1 hn2
              have hd3 : d.drop (1 + kl + n) = t2.drop n := by rw [← List.drop_drop, hd2]
              rw [hd3] at h3
              have hlen : seg.length = n := by rw [← h1]; simp [List.length_take]; omega
              refine ⟨hsh, by omega, by rw [← h2, hlen], ?_⟩
              rw [ht, ht2, cerSegEnc, hlen, ← h1, ← h3]
              simp [List.take_append_drop]
      · simp at h


theorem cerEnc_cons (s : Bytes) (ss : List Bytes) : cerEnc (s :: ss) = cerSegEnc s ++ cerEnc ss := by
  simp [cerEnc]

/-- nothing but an OCTET STRING identifier continues the segments; in particular not `00 00` -/
theorem cerHead_eoc (sh : Bool) (tail : Bytes) (h : tail.take 2 = [0, 0]) : cerHead sh tail = .ok none := by
  match tail, h with
  | b :: b2 :: t, h =>
    simp only [List.take_succ_cons, List.take_zero, List.cons.injEq, and_true] at h
    obtain ⟨rfl, rfl⟩ := h
    simp [cerHead, readIdent]

theorem cerScan_enc : ∀ (segs : List Bytes) (short : Bool) (fuel : Nat) (tail : Bytes),
    cerOK short segs = true → segs.length < fuel → (∀ sh, cerHead sh tail = .ok none) →
    cerScan fuel short (cerEnc segs ++ tail) = .ok (segs, tail) := by
  intro segs
  induction segs with
  | nil =>
    intro short fuel tail _ hf ht
    cases fuel with
    | zero => simp at hf
    | succ fuel => simp [cerScan, cerEnc, ht]
  | cons s ss ih =>
    intro short fuel tail hok hf ht
    cases fuel with
    | zero => simp at hf
    | succ fuel =>
      simp only [cerOK, Bool.and_eq_true, Bool.not_eq_true', decide_eq_true_eq] at hok
      obtain ⟨⟨hsh, hs⟩, hrest⟩ := hok
      subst hsh
      simp only [List.length_cons] at hf
      rw [cerEnc_cons, List.append_assoc]
      simp only [cerScan, cerHead_enc s _ hs, ih _ fuel tail hrest (by omega) ht]

theorem cerScan_inv : ∀ (fuel : Nat) (short : Bool) (d : Bytes) (segs : List Bytes) (rest : Bytes),
    cerScan fuel short d = .ok (segs, rest) →
      cerOK short segs = true ∧ segs.length < fuel ∧ d = cerEnc segs ++ rest := by
  intro fuel
  induction fuel with
  | zero => intro short d segs rest h; simp [cerScan] at h
  | succ fuel ih =>
    intro short d segs rest h
    simp only [cerScan] at h
    cases hh : cerHead short d with
    | error e => simp [hh] at h
    | ok r =>
      cases r with
      | none =>
        simp only [hh, Except.ok.injEq, Prod.mk.injEq] at h
        obtain ⟨rfl, rfl⟩ := h
        exact ⟨rfl, by simp, by simp [cerEnc]⟩
      | some x =>
        obtain ⟨seg, sh, rest1⟩ := x
        simp only [hh] at h
        obtain ⟨i1, i2, i3, i4⟩ := cerHead_inv short d seg sh rest1 hh
        cases hs : cerScan fuel sh rest1 with
        | error e => simp [hs] at h
        | ok y =>
          obtain ⟨segs', r⟩ := y
          simp only [hs, Except.ok.injEq, Prod.mk.injEq] at h
          obtain ⟨rfl, rfl⟩ := h
          obtain ⟨j1, j2, j3⟩ := ih sh rest1 segs' r hs
          refine ⟨?_, by simp only [List.length_cons]; omega, ?_⟩
          · rw [i3] at j1
            simp [cerOK, i1, i2, j1]
          · rw [i4, j3, cerEnc_cons, List.append_assoc]

/-- **C16 (acceptance, constructed form in CER — accepted).**  Content octets that are primitive
    OCTET STRING segments in shortest-length form, each of at most 1000 octets and only the last
    shorter than 1000, followed by the end-of-contents octets, are accepted (with fuel for the loop:
    more than the number of segments); the value holds exactly the segments' encodings and the
    source is left behind the end-of-contents octets. -/
theorem cons_cer_accept (fuel : Nat) (segs : List Bytes) (rest : Bytes)
    (hok : cerOK false segs = true) (hf : segs.length < fuel) :
    runG0 (fromContentChecked fuel (.cons cI)) (St (cerEnc segs ++ ([0, 0] ++ rest)) none) =
      .ok ((.cons (cerEnc segs), .cons cI), St rest none) := by
  rw [cons_cer_run]
  unfold cerAccept
  rw [cerScan_enc segs false fuel ([0, 0] ++ rest) hok hf (fun sh => cerHead_eoc sh _ rfl)]
  have e : (cerEnc segs ++ ([0, 0] ++ rest)).length - ([0, 0] ++ rest : Bytes).length = (cerEnc segs).length := by
    simp only [List.length_append]; omega
  simp only [e, List.take_left']
  simp

/-- **C16 (acceptance, constructed form in CER — only those).**  Whatever is accepted has that
    shape; everything else is an error. -/
theorem cons_cer_accept_inv (fuel : Nat) (d : Bytes) (os : OS) (ct : Content) (g' : G0)
    (h : runG0 (fromContentChecked fuel (.cons cI)) (St d none) = .ok ((os, ct), g')) :
    ∃ segs rest, cerOK false segs = true ∧ segs.length < fuel ∧ d = cerEnc segs ++ ([0, 0] ++ rest) ∧
      os = .cons (cerEnc segs) ∧ ct = .cons cI ∧ g' = St rest none := by
  rw [cons_cer_run] at h
  unfold cerAccept at h
  cases hs : cerScan fuel false d with
  | error e => simp [hs] at h
  | ok r =>
    obtain ⟨segs, rest1⟩ := r
    simp only [hs] at h
    obtain ⟨j1, j2, j3⟩ := cerScan_inv fuel false d segs rest1 hs
    split at h
    · rename_i h2
      simp only [Except.ok.injEq, Prod.mk.injEq] at h
      obtain ⟨⟨rfl, rfl⟩, rfl⟩ := h
      have hr : rest1 = [0, 0] ++ rest1.drop 2 := by rw [← h2, List.take_append_drop]
      refine ⟨segs, rest1.drop 2, j1, j2, by rw [← hr]; exact j3, ?_, rfl, rfl⟩
      have e : d.length - rest1.length = (cerEnc segs).length := by
        rw [j3]; simp only [List.length_append]; omega
      rw [e, j3, List.take_left' rfl]
    · simp at h

/-- acceptance in CER as an equivalence on the content octets -/
theorem cons_cer_accept_iff (fuel : Nat) (d : Bytes) :
    (∃ r, runG0 (fromContentChecked fuel (.cons cI)) (St d none) = .ok r) ↔
      ∃ segs rest, cerOK false segs = true ∧ segs.length < fuel ∧ d = cerEnc segs ++ ([0, 0] ++ rest) := by
  constructor
  · rintro ⟨⟨⟨os, ct⟩, g'⟩, h⟩
    obtain ⟨segs, rest, h1, h2, h3, _⟩ := cons_cer_accept_inv fuel d os ct g' h
    exact ⟨segs, rest, h1, h2, h3⟩
  · rintro ⟨segs, rest, h1, h2, rfl⟩
    exact ⟨_, cons_cer_accept fuel segs rest h1 h2⟩

/-- rejection is never a panic: a content error, or the loop budget ran out -/
theorem cons_cer_reject (fuel : Nat) (d : Bytes) (e : Err)
    (h : runG0 (fromContentChecked fuel (.cons cI)) (St d none) = .error e) : e = .content ∨ e = .fuel := by
  rw [cons_cer_run] at h
  unfold cerAccept at h
  have key : ∀ (fuel : Nat) (short : Bool) (d : Bytes) (e : Err), cerScan fuel short d = .error e →
      e = .content ∨ e = .fuel := by
    intro fuel
    induction fuel with
    | zero => intro short d e h; simp [cerScan] at h; exact Or.inr h.symm
    | succ fuel ih =>
      intro short d e h
      simp only [cerScan] at h
      cases hh : cerHead short d with
      | error e' =>
        simp only [hh, Except.error.injEq] at h
        subst h
        left
        unfold cerHead at hh
        repeat' split at hh
        all_goals first | (simp at hh; done) | (simp only [Except.error.injEq] at hh; exact hh.symm)
      | ok r =>
        cases r with
        | none => simp [hh] at h
        | some x =>
          obtain ⟨seg, sh, rest1⟩ := x
          simp only [hh] at h
          cases hs : cerScan fuel sh rest1 with
          | error e' => simp only [hs, Except.error.injEq] at h; subst h; exact ih _ _ _ hs
          | ok y => simp [hs] at h
  cases hs : cerScan fuel false d with
  | error e' => simp only [hs, Except.error.injEq] at h; subst h; exact key _ _ _ _ hs
  | ok r =>
    obtain ⟨segs, rest1⟩ := r
    simp only [hs] at h
    split at h
    · simp at h
    · simp only [Except.error.injEq] at h; exact Or.inl h.symm

/-- the encodings of primitive segments are an item sequence with exactly these segments -/
theorem items_cerEnc : ∀ (segs : List Bytes), (∀ s ∈ segs, s.length < 2 ^ 32) → Items (cerEnc segs) segs := by
  intro segs
  induction segs with
  | nil => intro _; exact Items.nil
  | cons s ss ih =>
    intro h
    have hsz := h s (by simp)
    have hss := ih (fun x hx => h x (by simp [hx]))
    rw [cerEnc_cons]
    have hl := readLen_lenOctets true s.length (s ++ cerEnc ss) hsz
    have hi : readIdent (cerSegEnc s ++ cerEnc ss) = some (⟨0, false, 4⟩, 1) := by simp [cerSegEnc, readIdent]
    have hd : (cerSegEnc s ++ cerEnc ss).drop 1 = lenOctets s.length ++ (s ++ cerEnc ss) := by simp [cerSegEnc]
    have hd2 : (cerSegEnc s ++ cerEnc ss).drop (1 + (lenOctets s.length).length) = s ++ cerEnc ss := by
      rw [Nat.add_comm]
      simp only [cerSegEnc, List.cons_append, List.drop_succ_cons, List.append_assoc]
      exact List.drop_left
    have hd3 : (cerSegEnc s ++ cerEnc ss).drop (1 + (lenOctets s.length).length + s.length) = cerEnc ss := by
      rw [← List.drop_drop, hd2]; exact List.drop_left
    have := Items.seg (cerSegEnc s ++ cerEnc ss) ⟨0, false, 4⟩ 1 s.length (lenOctets s.length).length ss
      hi rfl rfl rfl (by rw [hd]; exact hl) (by rw [hd2]; simp) (by rw [hd3]; exact hss)
    rw [hd2, List.take_left' rfl] at this
    exact this

theorem cerOK_le : ∀ (segs : List Bytes) (short : Bool), cerOK short segs = true → ∀ s ∈ segs, s.length ≤ 1000 := by
  intro segs
  induction segs with
  | nil => intro _ _ s hs; simp at hs
  | cons x xs ih =>
    intro short h s hs
    simp only [cerOK, Bool.and_eq_true, Bool.not_eq_true', decide_eq_true_eq] at h
    simp only [List.mem_cons] at hs
    rcases hs with rfl | hs
    · exact h.1.2
    · exact ih _ h.2 s hs

/-- **C16 (CER, accepted values and their views).**  The value accepted from CER content octets
    presents exactly the encoded segments: segment iterator, octets, length, emptiness. -/
theorem cons_cer_views (segs : List Bytes) (hok : cerOK false segs = true) :
    OS.segments (.cons (cerEnc segs)) = .ok segs ∧
    OS.octets (.cons (cerEnc segs)) = .ok segs.flatten ∧
    OS.len (.cons (cerEnc segs)) = .ok segs.flatten.length ∧
    OS.isEmpty (.cons (cerEnc segs)) = .ok segs.flatten.isEmpty := by
  have hi := items_cerEnc segs (fun s hs => by have := cerOK_le segs false hok s hs; omega)
  obtain ⟨v1, v2, v3, v4, _⟩ := views_items _ _ hi
  exact ⟨v1, v2, v3, v4⟩

/-- the segment condition is the reference one: `Spec.osAccept .cer` on the tree of the value -/
theorem cerOK_iff_spec (segs : List Bytes) (id pid : Ident) :
    cerOK false segs = osAccept .cer (.cons id true (segs.map (Tree.prim pid))) := by
  have key : ∀ (segs : List Bytes) (short : Bool), cerOK short segs =
      ((!short || segs.isEmpty) &&
        (segs.map (Tree.prim pid)).all (fun k => match k with | .prim _ c => decide (c.length ≤ 1000) | _ => false) &&
        ((segs.map (Tree.prim pid)).dropLast.all fun k => match k with | .prim _ c => c.length == 1000 | _ => false)) := by
    intro segs
    induction segs with
    | nil => intro short; cases short <;> rfl
    | cons s ss ih =>
      intro short
      rw [cerOK, ih]
      cases ss with
      | nil => cases short <;> simp
      | cons s2 ss2 =>
        cases short
        · by_cases h1 : s.length < 1000
          · have : ¬ s.length = 1000 := by omega
            simp [h1, this]
          · by_cases h2 : s.length = 1000
            · simp [h2]
            · have : ¬ s.length ≤ 1000 := by omega
              simp [this]
        · simp
  rw [key]
  simp [osAccept]
  rfl

/-! ### the same against the reference grammar and `Spec.osAccept` -/

abbrev pOS : Ident := ⟨0, false, 4⟩
abbrev cOS : Ident := ⟨0, true, 4⟩

theorem parseValue_cer_seg (f : Nat) (s tail : Bytes) (hsz : s.length < 2 ^ 32) :
    parseValue .cer (f + 1) (cerSegEnc s ++ tail) = some (.prim pOS s, tail) := by
  have hl := readLen_lenOctets false s.length (s ++ tail) hsz
  have hi : readIdent (cerSegEnc s ++ tail) = some (pOS, 1) := by simp [cerSegEnc, readIdent]
  have hd : (cerSegEnc s ++ tail).drop 1 = lenOctets s.length ++ (s ++ tail) := by simp [cerSegEnc]
  have hd2 : (cerSegEnc s ++ tail).drop (1 + (lenOctets s.length).length) = s ++ tail := by
    rw [Nat.add_comm]
    simp only [cerSegEnc, List.cons_append, List.drop_succ_cons, List.append_assoc]
    exact List.drop_left
  have hb : M.cer.isBer = false := rfl
  simp only [parseValue, hi, hd, hb, hl, hd2]
  simp [isEocIdent]

theorem parseUntilEoc_cerEnc : ∀ (segs : List Bytes) (f : Nat) (rest : Bytes),
    (∀ s ∈ segs, s.length < 2 ^ 32) → segs.length < f →
    parseUntilEoc .cer f (cerEnc segs ++ ([0, 0] ++ rest)) = some (segs.map (Tree.prim pOS), rest) := by
  intro segs
  induction segs with
  | nil =>
    intro f rest _ hf
    cases f with
    | zero => simp at hf
    | succ f =>
      have hi : readIdent (cerEnc [] ++ ([0, 0] ++ rest)) = some (⟨0, false, 0⟩, 1) := by simp [cerEnc, readIdent]
      have hb : M.cer.isBer = false := rfl
      simp only [parseUntilEoc, hi, hb]
      simp [isEocIdent, cerEnc, readLen]
  | cons s ss ih =>
    intro f rest hsz hf
    cases f with
    | zero => simp at hf
    | succ f =>
      simp only [List.length_cons] at hf
      cases f with
      | zero => omega
      | succ f' =>
        have h1 := parseValue_cer_seg f' s (cerEnc ss ++ ([0, 0] ++ rest)) (hsz s (by simp))
        have h2 := ih (f' + 1) rest (fun x hx => hsz x (by simp [hx])) (by omega)
        have hi : readIdent (cerSegEnc s ++ (cerEnc ss ++ ([0, 0] ++ rest))) = some (pOS, 1) := by
          simp [cerSegEnc, readIdent]
        rw [cerEnc_cons, List.append_assoc]
        rw [parseUntilEoc]
        simp only [hi, h1, h2]
        simp [isEocIdent]

theorem eoc_inv (d : Bytes) (id : Ident) (k kl : Nat) (hr : readIdent d = some (id, k))
    (he : isEocIdent id = true) (hc : id.constructed = false)
    (hl : readLen false (d.drop k) = some (some 0, kl)) : d = [0, 0] ++ d.drop (k + kl) := by
  cases d with
  | nil => simp [readIdent] at hr
  | cons b t =>
    simp only [isEocIdent, Bool.and_eq_true, beq_iff_eq] at he
    rcases readIdent_shape b t id k hr with ⟨_, hid, hk⟩ | hge
    · subst hid; subst hk
      simp only at he hc
      have hbb := byte_lt_256 b
      have hb0 : b.toNat = 0 := by
        have : b.toNat / 32 % 2 ≠ 1 := by simpa using hc
        omega
      have hb : b = 0 := UInt8.toNat_inj.mp hb0
      subst hb
      simp only [List.drop_succ_cons, List.drop_zero] at hl
      obtain ⟨t2, ht2, hkl⟩ := readLen_false_inv _ _ _ hl
      have e : lenOctets 0 = [0] := by rfl
      rw [e] at ht2 hkl
      simp only [List.length_cons, List.length_nil] at hkl
      subst hkl
      rw [ht2]
      simp
    · omega

theorem parse_cer_inv : ∀ (f : Nat) (d : Bytes) (ts : List Tree) (rest : Bytes),
    parseUntilEoc .cer f d = some (ts, rest) →
    (∀ t ∈ ts, ∃ id c, t = .prim id c ∧ id.cls = 0 ∧ id.num = 4 ∧ c.length ≤ 1000) →
    ∃ segs, ts = segs.map (Tree.prim pOS) ∧ segs.length < f ∧ d = cerEnc segs ++ ([0, 0] ++ rest) := by
  intro f
  induction f with
  | zero => intro d ts rest h; simp [parseUntilEoc] at h
  | succ f ih =>
    intro d ts rest h hk
    simp only [parseUntilEoc] at h
    have hb : M.cer.isBer = false := rfl
    cases hr : readIdent d with
    | none => simp [hr] at h
    | some r =>
      obtain ⟨id, k⟩ := r
      simp only [hr, hb] at h
      split at h
      · rename_i he
        split at h
        · simp at h
        · rename_i hc
          cases hl : readLen false (d.drop k) with
          | none => simp [hl] at h
          | some r2 =>
            obtain ⟨len?, kl⟩ := r2
            simp only [hl] at h
            split at h
            · rename_i kl' heq
              simp only [Option.some.injEq, Prod.mk.injEq] at heq h
              obtain ⟨rfl, rfl⟩ := heq
              obtain ⟨rfl, rfl⟩ := h
              refine ⟨[], rfl, by simp, ?_⟩
              simpa [cerEnc] using eoc_inv d id k kl hr he (by simpa using hc) hl
            · simp at h
      · cases hp : parseValue .cer f d with
        | none => simp [hp] at h
        | some r2 =>
          obtain ⟨t, rest1⟩ := r2
          simp only [hp] at h
          cases hq : parseUntilEoc .cer f rest1 with
          | none => simp [hq] at h
          | some r3 =>
            obtain ⟨ts', rest2⟩ := r3
            simp only [hq, Option.some.injEq, Prod.mk.injEq] at h
            obtain ⟨rfl, rfl⟩ := h
            obtain ⟨segs', e1, e2, e3⟩ := ih rest1 ts' rest2 hq (fun x hx => hk x (by simp [hx]))
            obtain ⟨tid, c, rfl, t0, t4, tlen⟩ := hk t (by simp)
            -- the value read is the primitive segment `c`
            have hseg : tid = pOS ∧ d = cerSegEnc c ++ rest1 := by
              cases f with
              | zero => simp [parseValue] at hp
              | succ f' =>
                simp only [parseValue, hr, hb] at hp
                split at hp
                · simp at hp
                · cases hl : readLen false (d.drop k) with
                  | none => simp [hl] at hp
                  | some r4 =>
                    obtain ⟨len?, kl⟩ := r4
                    simp only [hl] at hp
                    cases len? with
                    | none =>
                      simp only at hp
                      split at hp
                      · simp at hp
                      · cases hx : parseUntilEoc M.cer f' (d.drop (k + kl)) <;> simp [hx] at hp
                    | some n =>
                      simp only at hp
                      split at hp
                      · simp at hp
                      · rename_i hn
                        split at hp
                        · rename_i hcn
                          simp only [Option.some.injEq, Prod.mk.injEq, Tree.prim.injEq] at hp
                          obtain ⟨⟨rfl, rfl⟩, rfl⟩ := hp
                          have hcn' : id.constructed = false := by simpa using hcn
                          have hlen : ((d.drop (k + kl)).take n).length = n := by
                            simp only [List.length_take, List.length_drop] at hn ⊢; omega
                          rw [hlen] at tlen
                          have hh : cerHead false d =
                              .ok (some ((d.drop (k + kl)).take n, decide (n < 1000), d.drop (k + kl + n))) := by
                            have hne : ¬ d = [] := by intro h0; rw [h0] at hr; simp [readIdent] at hr
                            have hbad : ¬ (id.constructed = true ∨ n > 1000 ∨ false = true ∨ (d.drop (k + kl)).length < n) := by
                              rintro (h | h | h | h)
                              · rw [hcn'] at h; cases h
                              · omega
                              · cases h
                              · exact hn h
                            simp only [cerHead, hne, if_false, hr, t0, t4, and_self, if_true, hl, hbad]
                          obtain ⟨_, _, _, i4⟩ := cerHead_inv _ _ _ _ _ hh
                          rw [List.drop_drop]
                          refine ⟨?_, i4⟩
                          cases id with
                          | mk a b c' =>
                            simp only at t0 t4 hcn'
                            subst t0; subst t4; subst hcn'; rfl
                        · simp at hp
            obtain ⟨rfl, hd⟩ := hseg
            refine ⟨c :: segs', by simp [e1], by simp only [List.length_cons]; omega, ?_⟩
            rw [hd, e3, cerEnc_cons, List.append_assoc]

theorem osContent_prim_os (g : Nat) (c : Bytes) : osContent 4 g (.prim pOS c) = some c := by
  cases g <;> rfl

theorem flatMap_prim (g : Nat) (segs : List Bytes) :
    (segs.map (Tree.prim pOS)).flatMap (osSegments g) = segs := by
  induction segs with
  | nil => rfl
  | cons s ss ih => simp only [List.map_cons, List.flatMap_cons, osSegments_prim, ih]; rfl

theorem filterMap_prim (g : Nat) (segs : List Bytes) :
    (segs.map (Tree.prim pOS)).filterMap (osContent 4 g) = segs := by
  induction segs with
  | nil => rfl
  | cons s ss ih => simp only [List.map_cons, List.filterMap_cons, osContent_prim_os, ih]

theorem osAccept_cer_kids (id : Ident) (indef : Bool) (ts : List Tree)
    (h : osAccept .cer (.cons id indef ts) = true) :
    ∀ t ∈ ts, ∃ tid c, t = .prim tid c ∧ c.length ≤ 1000 := by
  simp only [osAccept, Bool.and_eq_true, List.all_eq_true] at h
  intro t ht
  have := h.1.2 t ht
  cases t with
  | prim tid c => exact ⟨tid, c, rfl, by simpa using this⟩
  | cons _ _ _ => simp at this

/-- **C16 (acceptance, constructed form in CER) against the reference definitions.**  For the
    content octets `d` of an indefinite-length constructed OCTET STRING in CER (the definite form is
    rejected by the framework before the closure runs, C02), `from_content` followed by the
    framework's exhaustion check succeeds exactly when the CER grammar reads `d` as values `ts`
    followed by end-of-contents, `Spec.osAccept .cer` holds of the tree (primitive kids of at
    most 1000 octets, all but the last of exactly 1000) and the tree is an OCTET STRING tree
    (`Spec.osContent` is defined: every kid is universal 4).  The loop fuel and the grammar fuel
    coincide (number of segments + 1).  Every view of the value then presents `osContent`. -/
theorem cons_cer_accept_iff_spec (fuel : Nat) (d : Bytes) :
    (∃ r, runG0 (fromContentChecked fuel (.cons cI)) (St d none) = .ok r) ↔
      ∃ ts rest, parseUntilEoc .cer fuel d = some (ts, rest) ∧
        osAccept .cer (.cons cOS true ts) = true ∧ (osContent 4 (fuel + 1) (.cons cOS true ts)).isSome := by
  rw [cons_cer_accept_iff]
  constructor
  · rintro ⟨segs, rest, hok, hf, rfl⟩
    have hsz : ∀ s ∈ segs, s.length < 2 ^ 32 := fun s hs => by
      have := cerOK_le segs false hok s hs; omega
    refine ⟨segs.map (Tree.prim pOS), rest, parseUntilEoc_cerEnc segs fuel rest hsz hf, ?_, ?_⟩
    · rw [← cerOK_iff_spec]; exact hok
    · rw [osContent_cons]
      simp only [beq_self_eq_true, Bool.and_self, Bool.not_true, Bool.false_eq_true, if_false]
      rw [foldl_accStep_all]
      · rfl
      · intro k hk
        simp only [List.mem_map] at hk
        obtain ⟨c, _, rfl⟩ := hk
        rw [osContent_prim_os]; rfl
  · rintro ⟨ts, rest, hp, hacc, hcont⟩
    obtain ⟨g', hg, _, _, hk⟩ := osContent_cons_some (fuel + 1) cOS true ts hcont
    have hg' : g' = fuel := by omega
    subst hg'
    have hall : ∀ t ∈ ts, (osContent 4 g' t).isSome := by simpa [osTrees, List.all_eq_true] using hk
    have hkids : ∀ t ∈ ts, ∃ id c, t = .prim id c ∧ id.cls = 0 ∧ id.num = 4 ∧ c.length ≤ 1000 := by
      intro t ht
      obtain ⟨tid, c, rfl, hlen⟩ := osAccept_cer_kids _ _ _ hacc t ht
      obtain ⟨h0, h4⟩ := osContent_prim_some g' tid c (hall _ ht)
      exact ⟨tid, c, rfl, h0, h4, hlen⟩
    obtain ⟨segs, e1, e2, e3⟩ := parse_cer_inv g' d ts rest hp hkids
    refine ⟨segs, rest, ?_, e2, e3⟩
    rw [cerOK_iff_spec segs cOS pOS, ← e1]; exact hacc

/-- … and what the accepted value presents is the reference content of that tree -/
theorem cons_cer_accept_content (fuel : Nat) (d : Bytes) (os : OS) (ct : Content) (g' : G0)
    (h : runG0 (fromContentChecked fuel (.cons cI)) (St d none) = .ok ((os, ct), g')) :
    ∃ ts rest x, parseUntilEoc .cer fuel d = some (ts, rest) ∧ g' = St rest none ∧
      osContent 4 (fuel + 1) (.cons cOS true ts) = some x ∧
      os.octets = .ok x ∧ os.len = .ok x.length ∧ os.segments = .ok (osSegments (fuel + 1) (.cons cOS true ts)) := by
  obtain ⟨segs, rest, hok, hf, rfl, rfl, _, rfl⟩ := cons_cer_accept_inv fuel d os ct g' h
  have hsz : ∀ s ∈ segs, s.length < 2 ^ 32 := fun s hs => by
    have := cerOK_le segs false hok s hs; omega
  obtain ⟨v1, v2, v3, _⟩ := cons_cer_views segs hok
  have hseg : osSegments (fuel + 1) (.cons cOS true (segs.map (Tree.prim pOS))) = segs := by
    exact flatMap_prim fuel segs
  refine ⟨_, rest, segs.flatten, parseUntilEoc_cerEnc segs fuel rest hsz hf, rfl, ?_, v2, v3, by rw [hseg]; exact v1⟩
  rw [osContent_cons]
  simp only [beq_self_eq_true, Bool.and_self, Bool.not_true, Bool.false_eq_true, if_false]
  rw [foldl_accStep_all]
  · simp only [List.nil_append]
    rw [filterMap_prim]
  · intro k hk
    simp only [List.mem_map] at hk
    obtain ⟨c, _, rfl⟩ := hk
    rw [osContent_prim_os]; rfl

/-! ## non-vacuity -/

/-- the content octets of `24 80 04 02 61 62 00 00` as the BER capture records them (with the trailing
    end-of-contents octets of the enclosing indefinite value, the pre-repair shape of D12) -/
def ex1 : Bytes := [0x04, 0x02, 0x61, 0x62, 0x00, 0x00]
theorem ex1_wf : wfTrees 5 ex1 = some [.prim ⟨0, false, 4⟩ [0x61, 0x62]] := by rfl
example : OS.octets (.cons ex1) = .ok [0x61, 0x62] := (views_eq_concat 5 ex1 _ ex1_wf).2.1

/-- constructed in constructed (indefinite and definite inside), an empty segment, outer definite -/
def ex2 : Bytes := [0x24, 0x80, 0x04, 0x02, 0x61, 0x62, 0x00, 0x00, 0x24, 0x02, 0x04, 0x00]
theorem ex2_wf : wfTrees 5 ex2 =
    some [.cons ⟨0, true, 4⟩ true [.prim ⟨0, false, 4⟩ [0x61, 0x62]],
          .cons ⟨0, true, 4⟩ false [.prim ⟨0, false, 4⟩ []]] := by rfl
example : OS.segments (.cons ex2) = .ok [[0x61, 0x62], []] := (views_eq_concat 5 ex2 _ ex2_wf).1

/-- two levels of indefinite nesting inside an enclosing indefinite value (three end-of-contents) -/
def ex3 : Bytes := [0x24, 0x80, 0x24, 0x80, 0x04, 0x01, 0x61, 0x00, 0x00, 0x04, 0x01, 0x62, 0x00, 0x00, 0x00, 0x00]
theorem ex3_wf : wfTrees 10 ex3 =
    some [.cons ⟨0, true, 4⟩ true [.cons ⟨0, true, 4⟩ true [.prim ⟨0, false, 4⟩ [0x61]], .prim ⟨0, false, 4⟩ [0x62]]] := by rfl
example : OS.octets (.cons ex3) = .ok [0x61, 0x62] ∧ OS.len (.cons ex3) = .ok 2 :=
  ⟨(views_eq_concat 10 ex3 _ ex3_wf).2.1, (views_eq_concat 10 ex3 _ ex3_wf).2.2.2.2.1⟩

/-- only empty segments: the iterator yields them all, the value is empty -/
def ex4 : Bytes := [0x04, 0x00, 0x04, 0x00]
theorem ex4_wf : wfTrees 5 ex4 = some [.prim ⟨0, false, 4⟩ [], .prim ⟨0, false, 4⟩ []] := by rfl
example : OS.segments (.cons ex4) = .ok [[], []] ∧ OS.isEmpty (.cons ex4) = .ok true :=
  ⟨(views_eq_concat 5 ex4 _ ex4_wf).1, (views_eq_concat 5 ex4 _ ex4_wf).2.2.2.2.2.1⟩

/-- the hypothesis fails where it should: other tags inside are not well-formed contents, and the
    iterator panics on them (such contents are never produced by `from_content`) -/
example : wfTrees 5 [0x02, 0x01, 0x05] = none := by rfl
example : OS.segments (.cons [0x02, 0x01, 0x05]) = .error (.panic "unreachable") := by rfl

/-- primitive form: accepted in DER, rejected in CER beyond 1000 octets -/
example : runG0 (fromContentChecked 0 (.prim .der)) (St ([1, 2, 3] ++ [9]) (some 3)) =
    .ok ((.prim [1, 2, 3], .prim .der), St [9] (some 0)) :=
  (prim_accept_iff 0 .der [1, 2, 3] [9]).mpr (Or.inl (by decide))
example : runG0 (fromContentChecked 0 (.prim .cer))
    (St (List.replicate 1001 0 ++ []) (some (List.replicate 1001 (0 : UInt8)).length)) = .error .content :=
  prim_reject 0 .cer (List.replicate 1001 0) [] (by rw [List.length_replicate]; decide)

/-- the source: asking for one octet of `ex2` loads the first segment; asking for more than the
    value holds delivers all of it -/
example : ∃ s', OSS.request (OSS.new (.cons ex2)) 100 = .ok (2, s') ∧ s'.current = [0x61, 0x62] :=
  let ⟨s', h1, h2, _⟩ :=
    request_all _ [0x61, 0x62] 100 (new_inv_cons ex2 _ (items_of_wf 5 ex2 _ ex2_wf)) (by decide)
  ⟨s', h1, h2⟩

/-- **The witness of the repaired defect D12.**  Had the BER capture of a value encoded with the
    indefinite form included the end-of-contents octets (`ex1`, as it did before the repair), the BER
    re-encoding would have written them inside a definite-length value and the result would not be a
    well-formed encoding.  The capture now holds the values only (`C11b.capture_all_indef_values`,
    `C16b.ber_indef_run`) and re-encodes as a well-formed value of the same content
    (`C16b.ber_accept_reencode`). -/
theorem reencode_ber_d12_shape :
    Enc.write .ber (.octetString Tag.OCTET_STRING (.cons ex1)) =
      .ok [0x24, 0x06, 0x04, 0x02, 0x61, 0x62, 0x00, 0x00] ∧
    parseValue .ber 8 [0x24, 0x06, 0x04, 0x02, 0x61, 0x62, 0x00, 0x00] = none ∧
    Enc.write .ber (.octetString Tag.OCTET_STRING (.cons [0x04, 0x02, 0x61, 0x62])) =
      .ok [0x24, 0x04, 0x04, 0x02, 0x61, 0x62] ∧
    parseValue .ber 8 [0x24, 0x04, 0x04, 0x02, 0x61, 0x62] =
      some (.cons ⟨0, true, 4⟩ false [.prim ⟨0, false, 4⟩ [0x61, 0x62]], []) := ⟨by rfl, by rfl, by rfl, by rfl⟩

/-- CER, constructed: one segment, then the end-of-contents octets, then other data -/
example : runG0 (fromContentChecked 5 (.cons cI)) (St [0x04, 0x02, 0x61, 0x62, 0x00, 0x00, 0xff] none) =
    .ok ((.cons [0x04, 0x02, 0x61, 0x62], .cons cI), St [0xff] none) :=
  cons_cer_accept 5 [[0x61, 0x62]] [0xff] (by decide) (by decide)
/-- CER, constructed: a short segment followed by another one is rejected (the D11 witness shape),
    and so is a constructed segment -/
example : runG0 (fromContentChecked 5 (.cons cI)) (St [0x04, 0x01, 0x61, 0x04, 0x01, 0x62, 0x00, 0x00] none) =
    .error .content := by rw [cons_cer_run]; rfl
example : runG0 (fromContentChecked 5 (.cons cI)) (St [0x24, 0x80, 0x04, 0x01, 0x61, 0x00, 0x00, 0x00, 0x00] none) =
    .error .content := by rw [cons_cer_run]; rfl
example (a : Bytes) (h : a.length = 1000) : cerOK false [a, [1, 2]] = true := by simp [cerOK, h]
example (a : Bytes) : cerOK false [[1, 2], a] = false := by simp [cerOK]

end Bcder.Props.C16
