/-
  C11 (continued) — what was captured, decoded later.

  * `capture_one_value`: `capture_one` on a source without open capture returns exactly the octets of
    ONE complete value the grammar accepts at the current position (`bytes = view.take n`,
    `parseValue … view = some (t, view.drop n)`), leaves the `Constructed` unchanged and the source
    immediately behind that value.
  * `parse_prefix`: the grammar is local — a value (or a run of values up to end-of-contents) parsed
    at the front of `v` parses identically at the front of any prefix of `v` that contains it.
  * `captured_value_decodes`: the captured octets, parsed on their own, are exactly that value with
    nothing left — decoding the captured data later yields the same value as decoding it in place.
  * `decode_later_same`: reading captured content later (`Captured::decode`, a top-level read of the
    octets) and reading the same octets in place as the content of a definite value deliver the same
    trees.
  * `reencode_unchanged`: writing captured data back out reproduces it unchanged (in its own mode
    and in BER).
-/
import Bcder.Props.C10
import Bcder.Props.C16
import Bcder.Props.C06
namespace Bcder.Props.C11b
open Bcder Bcder.Spec Prog Bcder.Props.C02

/-! ### locality of the header readers -/

theorem readIdent_take (v : Bytes) (id : Ident) (k n : Nat) (h : readIdent v = some (id, k)) (hn : k ≤ n) :
    readIdent (v.take n) = some (id, k) := by
  cases v with
  | nil => simp [readIdent] at h
  | cons b rest =>
    simp only [readIdent] at h
    by_cases hs : (b.toNat % 32 != 31) = true
    · simp only [hs, if_true, Option.some.injEq, Prod.mk.injEq] at h
      obtain ⟨n', rfl⟩ : ∃ n', n = n' + 1 := ⟨n - 1, by omega⟩
      simp only [List.take_succ_cons, readIdent, hs, if_true, Option.some.injEq, Prod.mk.injEq]
      exact h
    · simp only [hs, Bool.false_eq_true, if_false] at h
      cases rest with
      | nil => simp at h
      | cons d1 r1 =>
        simp only at h
        by_cases h1 : d1.toNat < 128
        · simp only [h1, if_true] at h
          by_cases h31 : d1.toNat ≥ 31
          · simp only [h31, if_true, Option.some.injEq, Prod.mk.injEq] at h
            obtain ⟨n', rfl⟩ : ∃ n', n = n' + 2 := ⟨n - 2, by omega⟩
            simp only [List.take_succ_cons, readIdent, hs, Bool.false_eq_true, if_false, h1, if_true, h31,
              Option.some.injEq, Prod.mk.injEq]
            exact h
          · simp [h31] at h
        · simp only [h1, if_false] at h
          by_cases h80 : (d1.toNat == 128) = true
          · simp [h80] at h
          · simp only [h80, Bool.false_eq_true, if_false] at h
            cases r1 with
            | nil => simp at h
            | cons d2 r2 =>
              simp only at h
              by_cases h2 : d2.toNat < 128
              · simp only [h2, if_true, Option.some.injEq, Prod.mk.injEq] at h
                obtain ⟨n', rfl⟩ : ∃ n', n = n' + 3 := ⟨n - 3, by omega⟩
                simp only [List.take_succ_cons, readIdent, hs, Bool.false_eq_true, if_false, h1, h80, h2, if_true,
                  Option.some.injEq, Prod.mk.injEq]
                exact h
              · simp only [h2, if_false] at h
                cases r2 with
                | nil => simp at h
                | cons d3 r3 =>
                  simp only at h
                  by_cases h3 : d3.toNat < 128
                  · simp only [h3, if_true, Option.some.injEq, Prod.mk.injEq] at h
                    obtain ⟨n', rfl⟩ : ∃ n', n = n' + 4 := ⟨n - 4, by omega⟩
                    simp only [List.take_succ_cons, readIdent, hs, Bool.false_eq_true, if_false, h1, h80, h2, h3,
                      if_true, Option.some.injEq, Prod.mk.injEq]
                    exact h
                  · simp [h3] at h

theorem readLen_take (ber : Bool) (v : Bytes) (x : Option Nat) (k n : Nat) (h : readLen ber v = some (x, k))
    (hn : k ≤ n) : readLen ber (v.take n) = some (x, k) := by
  obtain ⟨hk1, hkl⟩ := readLen_bound _ _ _ _ h
  have h1 : readLen ber (v.take k) = some (x, k) := by
    cases v with
    | nil => simp [readLen] at h
    | cons b rest =>
      obtain ⟨k', rfl⟩ : ∃ k', k = k' + 1 := ⟨k - 1, by omega⟩
      simp only [readLen] at h
      simp only [List.take_succ_cons, readLen]
      by_cases h0 : b.toNat < 128
      · simp only [h0, if_true] at h ⊢; exact h
      · simp only [h0, if_false] at h ⊢
        by_cases h80 : b.toNat = 128
        · simp only [h80, if_true] at h ⊢; exact h
        · simp only [h80, if_false] at h ⊢
          by_cases h4 : b.toNat - 128 > 4
          · simp [h4] at h
          · simp only [h4, if_false] at h ⊢
            by_cases hl : rest.length < b.toNat - 128
            · simp [hl] at h
            · simp only [hl, if_false] at h ⊢
              have hk' : k' = b.toNat - 128 := by
                cases ber
                · simp only [Bool.false_eq_true, if_false] at h
                  split at h
                  · simp at h; omega
                  · simp at h
                · simp at h; omega
              have hl2 : ¬ (rest.take k').length < b.toNat - 128 := by
                rw [List.length_take]; omega
              simp only [hl2, if_false, List.take_take]
              rw [hk', Nat.min_self]
              rw [hk'] at h
              exact h
  have e : v.take n = v.take k ++ (v.drop k).take (n - k) := by
    rw [← List.take_append_drop k (v.take n), List.take_take, Nat.min_eq_left hn, List.drop_take]
  rw [e]
  exact C16.readLen_append _ _ _ _ _ h1


/-! ### locality of the grammar -/

theorem drop_take_comm (v : Bytes) (a n : Nat) (h : a ≤ n) : (v.take n).drop a = (v.drop a).take (n - a) := by
  rw [List.drop_take]

/-- `rest = v.drop n'` pins down `n'` -/
theorem drop_inj (v : Bytes) (a b : Nat) (ha : a ≤ v.length) (hb : b ≤ v.length) (h : v.drop a = v.drop b) : a = b := by
  have := congrArg List.length h
  simp only [List.length_drop] at this
  omega

def PVloc (m : M) (f : Nat) : Prop := ∀ (v : Bytes) (t : Tree) (n' n : Nat), n' ≤ n → n' ≤ v.length →
  parseValue m f v = some (t, v.drop n') → parseValue m f (v.take n) = some (t, (v.take n).drop n')
def PEloc (m : M) (f : Nat) : Prop := ∀ (v : Bytes) (ts : List Tree) (n' n : Nat), n' ≤ n → n' ≤ v.length →
  parseUntilEoc m f v = some (ts, v.drop n') → parseUntilEoc m f (v.take n) = some (ts, (v.take n).drop n')

theorem pv_step (m : M) (f : Nat) (hE : PEloc m f) : PVloc m (f + 1) := by
  intro v t n' n hn hn' h
  simp only [parseValue] at h ⊢
  cases hr : readIdent v with
  | none => simp [hr] at h
  | some r =>
    obtain ⟨id, k⟩ := r
    obtain ⟨_, _, hk1, hk, _⟩ := C12.readIdent_bounds v id k hr
    simp only [hr] at h
    by_cases he : isEocIdent id = true
    · simp [he] at h
    · simp only [he, Bool.false_eq_true, if_false] at h
      cases hl : readLen m.isBer (v.drop k) with
      | none => simp [hl] at h
      | some r2 =>
        obtain ⟨len?, kl⟩ := r2
        obtain ⟨hkl1, hkl⟩ := readLen_bound _ _ _ _ hl
        simp only [List.length_drop] at hkl
        simp only [hl] at h
        -- the header lies inside the value, hence inside the prefix
        have hhdr : k + kl ≤ n' := by
          cases len? with
          | some len =>
            simp only at h
            split at h
            · simp at h
            · rename_i hlen
              have hrest : ∀ x, (some (x, (v.drop (k + kl)).drop len) : Option (Tree × Bytes)) = some (t, v.drop n') →
                  k + kl + len = n' := by
                intro x hx
                simp only [Option.some.injEq, Prod.mk.injEq, List.drop_drop] at hx
                simp only [List.length_drop] at hlen
                exact drop_inj v _ _ (by omega) hn' hx.2
              split at h
              · have := hrest _ h; omega
              · split at h
                · simp at h
                · split at h
                  · have := hrest _ h; omega
                  · simp at h
          | none =>
            simp only at h
            split at h
            · simp at h
            · split at h
              · rename_i kids rest hp
                simp only [Option.some.injEq, Prod.mk.injEq] at h
                obtain ⟨j, hj, hrest⟩ := (suffix_lemma m f).2 _ _ _ hp
                simp only [List.length_drop] at hj
                rw [hrest, List.drop_drop] at h
                have := drop_inj v _ _ (by omega) hn' h.2
                omega
              · simp at h
        have hri' : readIdent (v.take n) = some (id, k) := readIdent_take v id k n hr (by omega)
        have hd1 : (v.take n).drop k = (v.drop k).take (n - k) := drop_take_comm v k n (by omega)
        have hrl' : readLen m.isBer ((v.take n).drop k) = some (len?, kl) := by
          rw [hd1]; exact readLen_take _ _ _ _ _ hl (by omega)
        simp only [hri', he, Bool.false_eq_true, if_false, hrl']
        have hd2 : (v.take n).drop (k + kl) = (v.drop (k + kl)).take (n - (k + kl)) := drop_take_comm v _ n (by omega)
        cases len? with
        | some len =>
          simp only at h ⊢
          by_cases hlen : (v.drop (k + kl)).length < len
          · rw [if_pos hlen] at h; cases h
          · rw [if_neg hlen] at h
            simp only [List.length_drop] at hlen
            have hn'eq : k + kl + len = n' := by
              split at h
              · simp only [Option.some.injEq, Prod.mk.injEq, List.drop_drop] at h
                exact drop_inj v _ _ (by omega) hn' h.2
              · split at h
                · simp at h
                · split at h
                  · simp only [Option.some.injEq, Prod.mk.injEq, List.drop_drop] at h
                    exact drop_inj v _ _ (by omega) hn' h.2
                  · simp at h
            have hlen' : ¬ ((v.take n).drop (k + kl)).length < len := by
              rw [hd2, List.length_take, List.length_drop]; omega
            have htk : ((v.take n).drop (k + kl)).take len = (v.drop (k + kl)).take len := by
              rw [hd2, List.take_take]; congr 1; omega
            have hdr : ((v.take n).drop (k + kl)).drop len = (v.take n).drop n' := by
              rw [List.drop_drop, hn'eq]
            have hdr0 : (v.drop (k + kl)).drop len = v.drop n' := by rw [List.drop_drop, hn'eq]
            simp only [hlen', if_false, htk, hdr]
            rw [hdr0] at h
            split at h
            · simp only [Option.some.injEq, Prod.mk.injEq] at h
              rename_i hc
              rw [if_pos hc]
              rw [h.1]
            · rename_i hc
              rw [if_neg hc]
              split at h
              · simp at h
              · rename_i hcer
                rw [if_neg hcer]
                split at h
                · rename_i kids hp
                  simp only [Option.some.injEq, Prod.mk.injEq] at h
                  rw [h.1]
                · simp at h
        | none =>
          simp only at h ⊢
          by_cases hd : (!id.constructed || m == M.der) = true
          · simp [hd] at h
          · simp only [hd, Bool.false_eq_true, if_false] at h ⊢
            cases hp : parseUntilEoc m f (v.drop (k + kl)) with
            | none => simp [hp] at h
            | some r3 =>
              obtain ⟨kids, rest⟩ := r3
              simp only [hp, Option.some.injEq, Prod.mk.injEq] at h
              obtain ⟨j, hj, hrest⟩ := (suffix_lemma m f).2 _ _ _ hp
              simp only [List.length_drop] at hj
              have hjn : k + kl + j = n' := by
                have h2 := h.2
                rw [hrest, List.drop_drop] at h2
                exact drop_inj v _ _ (by omega) hn' h2
              have hloc := hE (v.drop (k + kl)) kids j (n - (k + kl)) (by omega)
                (by simp only [List.length_drop]; omega) (by rw [hp, hrest])
              rw [hd2, hloc]
              simp only [Option.some.injEq, Prod.mk.injEq]
              refine ⟨h.1, ?_⟩
              rw [← hd2, List.drop_drop, hjn]

end Bcder.Props.C11b
