/-
  C11 (continued) — what was captured, decoded later.

  * `capture_one_value`: `capture_one` on a source without open capture returns exactly the octets of
    ONE complete value the grammar accepts at the current position (`bytes = view.take n`,
    `parseValue … view = some (t, view.drop n)`), leaves the `Constructed` unchanged and the source
    immediately behind that value.
  * `parse_prefix`: the grammar is local — a value (or a run of values up to end-of-contents) parsed
    at the front of `v` parses identically at the front of any prefix of `v` that contains it.
  * `captured_value_decodes`: the captured octets, parsed on their own, are exactly that value with
    nothing left — decoding the captured data later yields the same value as decoding it in place.
  * `decode_later_same`: reading captured content later (`Captured::decode`, a top-level read of the
    octets) and reading the same octets in place as the content of a definite value deliver the same
    trees.
  * `reencode_unchanged`: writing captured data back out reproduces it unchanged (in its own mode
    and in BER).
-/
import Bcder.Props.C10
import Bcder.Props.C16
import Bcder.Props.C06
import Bcder.Props.C01
namespace Bcder.Props.C11b
open Bcder Bcder.Spec Prog Bcder.Props.C02

/-! ### locality of the header readers -/

theorem readIdent_take (v : Bytes) (id : Ident) (k n : Nat) (h : readIdent v = some (id, k)) (hn : k ≤ n) :
    readIdent (v.take n) = some (id, k) := by
  cases v with
  | nil => simp [readIdent] at h
  | cons b rest =>
    simp only [readIdent] at h
    by_cases hs : (b.toNat % 32 != 31) = true
    · simp only [hs, if_true, Option.some.injEq, Prod.mk.injEq] at h
      obtain ⟨n', rfl⟩ : ∃ n', n = n' + 1 := ⟨n - 1, by omega⟩
      simp only [List.take_succ_cons, readIdent, hs, if_true, Option.some.injEq, Prod.mk.injEq]
      exact h
    · simp only [hs, Bool.false_eq_true, if_false] at h
      cases rest with
      | nil => simp at h
      | cons d1 r1 =>
        simp only at h
        by_cases h1 : d1.toNat < 128
        · simp only [h1, if_true] at h
          by_cases h31 : d1.toNat ≥ 31
          · simp only [h31, if_true, Option.some.injEq, Prod.mk.injEq] at h
            obtain ⟨n', rfl⟩ : ∃ n', n = n' + 2 := ⟨n - 2, by omega⟩
            simp only [List.take_succ_cons, readIdent, hs, Bool.false_eq_true, if_false, h1, if_true, h31,
              Option.some.injEq, Prod.mk.injEq]
            exact h
          · simp [h31] at h
        · simp only [h1, if_false] at h
          by_cases h80 : (d1.toNat == 128) = true
          · simp [h80] at h
          · simp only [h80, Bool.false_eq_true, if_false] at h
            cases r1 with
            | nil => simp at h
            | cons d2 r2 =>
              simp only at h
              by_cases h2 : d2.toNat < 128
              · simp only [h2, if_true, Option.some.injEq, Prod.mk.injEq] at h
                obtain ⟨n', rfl⟩ : ∃ n', n = n' + 3 := ⟨n - 3, by omega⟩
                simp only [List.take_succ_cons, readIdent, hs, Bool.false_eq_true, if_false, h1, h80, h2, if_true,
                  Option.some.injEq, Prod.mk.injEq]
                exact h
              · simp only [h2, if_false] at h
                cases r2 with
                | nil => simp at h
                | cons d3 r3 =>
                  simp only at h
                  by_cases h3 : d3.toNat < 128
                  · simp only [h3, if_true, Option.some.injEq, Prod.mk.injEq] at h
                    obtain ⟨n', rfl⟩ : ∃ n', n = n' + 4 := ⟨n - 4, by omega⟩
                    simp only [List.take_succ_cons, readIdent, hs, Bool.false_eq_true, if_false, h1, h80, h2, h3,
                      if_true, Option.some.injEq, Prod.mk.injEq]
                    exact h
                  · simp [h3] at h

theorem readLen_take (ber : Bool) (v : Bytes) (x : Option Nat) (k n : Nat) (h : readLen ber v = some (x, k))
    (hn : k ≤ n) : readLen ber (v.take n) = some (x, k) := by
  obtain ⟨hk1, hkl⟩ := readLen_bound _ _ _ _ h
  have h1 : readLen ber (v.take k) = some (x, k) := by
    cases v with
    | nil => simp [readLen] at h
    | cons b rest =>
      obtain ⟨k', rfl⟩ : ∃ k', k = k' + 1 := ⟨k - 1, by omega⟩
      simp only [readLen] at h
      simp only [List.take_succ_cons, readLen]
      by_cases h0 : b.toNat < 128
      · simp only [h0, if_true] at h ⊢; exact h
      · simp only [h0, if_false] at h ⊢
        by_cases h80 : b.toNat = 128
        · simp only [h80, if_true] at h ⊢; exact h
        · simp only [h80, if_false] at h ⊢
          by_cases h4 : b.toNat - 128 > 4
          · simp [h4] at h
          · simp only [h4, if_false] at h ⊢
            by_cases hl : rest.length < b.toNat - 128
            · simp [hl] at h
            · simp only [hl, if_false] at h ⊢
              have hk' : k' = b.toNat - 128 := by
                cases ber
                · simp only [Bool.false_eq_true, if_false] at h
                  split at h
                  · simp at h; omega
                  · simp at h
                · simp at h; omega
              have hl2 : ¬ (rest.take k').length < b.toNat - 128 := by
                rw [List.length_take]; omega
              simp only [hl2, if_false, List.take_take]
              rw [hk', Nat.min_self]
              rw [hk'] at h
              exact h
  have e : v.take n = v.take k ++ (v.drop k).take (n - k) := by
    rw [← List.take_append_drop k (v.take n), List.take_take, Nat.min_eq_left hn, List.drop_take]
  rw [e]
  exact C16.readLen_append _ _ _ _ _ h1


/-! ### locality of the grammar -/

theorem drop_take_comm (v : Bytes) (a n : Nat) (h : a ≤ n) : (v.take n).drop a = (v.drop a).take (n - a) := by
  rw [List.drop_take]

/-- `rest = v.drop n'` pins down `n'` -/
theorem drop_inj (v : Bytes) (a b : Nat) (ha : a ≤ v.length) (hb : b ≤ v.length) (h : v.drop a = v.drop b) : a = b := by
  have := congrArg List.length h
  simp only [List.length_drop] at this
  omega

def PVloc (m : M) (f : Nat) : Prop := ∀ (v : Bytes) (t : Tree) (n' n : Nat), n' ≤ n → n' ≤ v.length →
  parseValue m f v = some (t, v.drop n') → parseValue m f (v.take n) = some (t, (v.take n).drop n')
def PEloc (m : M) (f : Nat) : Prop := ∀ (v : Bytes) (ts : List Tree) (n' n : Nat), n' ≤ n → n' ≤ v.length →
  parseUntilEoc m f v = some (ts, v.drop n') → parseUntilEoc m f (v.take n) = some (ts, (v.take n).drop n')

/-- the header of a value lies inside the octets of the value -/
theorem header_le (m : M) (f : Nat) (v : Bytes) (t : Tree) (n' : Nat) (hn' : n' ≤ v.length)
    (h : parseValue m (f + 1) v = some (t, v.drop n')) (id : Ident) (k : Nat) (hr : readIdent v = some (id, k)) :
    ∃ len? kl, readLen m.isBer (v.drop k) = some (len?, kl) ∧ k + kl ≤ n' := by
  simp only [parseValue] at h
  obtain ⟨_, _, hk1, hk, _⟩ := C12.readIdent_bounds v id k hr
  simp only [hr] at h
  by_cases he : isEocIdent id = true
  · simp [he] at h
  · simp only [he, Bool.false_eq_true, if_false] at h
    cases hl : readLen m.isBer (v.drop k) with
    | none => simp [hl] at h
    | some r2 =>
      obtain ⟨len?, kl⟩ := r2
      obtain ⟨hkl1, hkl⟩ := readLen_bound _ _ _ _ hl
      simp only [List.length_drop] at hkl
      simp only [hl] at h
      refine ⟨len?, kl, rfl, ?_⟩
      cases len? with
      | some len =>
        simp only at h
        split at h
        · simp at h
        · rename_i hlen
          have hrest : ∀ x, (some (x, (v.drop (k + kl)).drop len) : Option (Tree × Bytes)) = some (t, v.drop n') →
              k + kl + len = n' := by
            intro x hx
            simp only [Option.some.injEq, Prod.mk.injEq, List.drop_drop] at hx
            simp only [List.length_drop] at hlen
            exact drop_inj v _ _ (by omega) hn' hx.2
          split at h
          · have := hrest _ h; omega
          · split at h
            · simp at h
            · split at h
              · have := hrest _ h; omega
              · simp at h
      | none =>
        simp only at h
        split at h
        · simp at h
        · split at h
          · rename_i kids rest hp
            simp only [Option.some.injEq, Prod.mk.injEq] at h
            obtain ⟨j, hj, hrest⟩ := (suffix_lemma m f).2 _ _ _ hp
            simp only [List.length_drop] at hj
            rw [hrest, List.drop_drop] at h
            have := drop_inj v _ _ (by omega) hn' h.2
            omega
          · simp at h

theorem pv_step (m : M) (f : Nat) (hE : PEloc m f) : PVloc m (f + 1) := by
  intro v t n' n hn hn' h
  simp only [parseValue] at h ⊢
  cases hr : readIdent v with
  | none => simp [hr] at h
  | some r =>
    obtain ⟨id, k⟩ := r
    obtain ⟨_, _, hk1, hk, _⟩ := C12.readIdent_bounds v id k hr
    simp only [hr] at h
    by_cases he : isEocIdent id = true
    · simp [he] at h
    · simp only [he, Bool.false_eq_true, if_false] at h
      cases hl : readLen m.isBer (v.drop k) with
      | none => simp [hl] at h
      | some r2 =>
        obtain ⟨len?, kl⟩ := r2
        obtain ⟨hkl1, hkl⟩ := readLen_bound _ _ _ _ hl
        simp only [List.length_drop] at hkl
        simp only [hl] at h
        -- the header lies inside the value, hence inside the prefix
        have hhdr : k + kl ≤ n' := by
          cases len? with
          | some len =>
            simp only at h
            split at h
            · simp at h
            · rename_i hlen
              have hrest : ∀ x, (some (x, (v.drop (k + kl)).drop len) : Option (Tree × Bytes)) = some (t, v.drop n') →
                  k + kl + len = n' := by
                intro x hx
                simp only [Option.some.injEq, Prod.mk.injEq, List.drop_drop] at hx
                simp only [List.length_drop] at hlen
                exact drop_inj v _ _ (by omega) hn' hx.2
              split at h
              · have := hrest _ h; omega
              · split at h
                · simp at h
                · split at h
                  · have := hrest _ h; omega
                  · simp at h
          | none =>
            simp only at h
            split at h
            · simp at h
            · split at h
              · rename_i kids rest hp
                simp only [Option.some.injEq, Prod.mk.injEq] at h
                obtain ⟨j, hj, hrest⟩ := (suffix_lemma m f).2 _ _ _ hp
                simp only [List.length_drop] at hj
                rw [hrest, List.drop_drop] at h
                have := drop_inj v _ _ (by omega) hn' h.2
                omega
              · simp at h
        have hri' : readIdent (v.take n) = some (id, k) := readIdent_take v id k n hr (by omega)
        have hd1 : (v.take n).drop k = (v.drop k).take (n - k) := drop_take_comm v k n (by omega)
        have hrl' : readLen m.isBer ((v.take n).drop k) = some (len?, kl) := by
          rw [hd1]; exact readLen_take _ _ _ _ _ hl (by omega)
        simp only [hri', he, Bool.false_eq_true, if_false, hrl']
        have hd2 : (v.take n).drop (k + kl) = (v.drop (k + kl)).take (n - (k + kl)) := drop_take_comm v _ n (by omega)
        cases len? with
        | some len =>
          simp only at h ⊢
          by_cases hlen : (v.drop (k + kl)).length < len
          · rw [if_pos hlen] at h; cases h
          · rw [if_neg hlen] at h
            simp only [List.length_drop] at hlen
            have hn'eq : k + kl + len = n' := by
              split at h
              · simp only [Option.some.injEq, Prod.mk.injEq, List.drop_drop] at h
                exact drop_inj v _ _ (by omega) hn' h.2
              · split at h
                · simp at h
                · split at h
                  · simp only [Option.some.injEq, Prod.mk.injEq, List.drop_drop] at h
                    exact drop_inj v _ _ (by omega) hn' h.2
                  · simp at h
            have hlen' : ¬ ((v.take n).drop (k + kl)).length < len := by
              rw [hd2, List.length_take, List.length_drop]; omega
            have htk : ((v.take n).drop (k + kl)).take len = (v.drop (k + kl)).take len := by
              rw [hd2, List.take_take]; congr 1; omega
            have hdr : ((v.take n).drop (k + kl)).drop len = (v.take n).drop n' := by
              rw [List.drop_drop, hn'eq]
            have hdr0 : (v.drop (k + kl)).drop len = v.drop n' := by rw [List.drop_drop, hn'eq]
            simp only [hlen', if_false, htk, hdr]
            rw [hdr0] at h
            split at h
            · simp only [Option.some.injEq, Prod.mk.injEq] at h
              rename_i hc
              rw [if_pos hc]
              rw [h.1]
            · rename_i hc
              rw [if_neg hc]
              split at h
              · simp at h
              · rename_i hcer
                rw [if_neg hcer]
                split at h
                · rename_i kids hp
                  simp only [Option.some.injEq, Prod.mk.injEq] at h
                  rw [h.1]
                · simp at h
        | none =>
          simp only at h ⊢
          by_cases hd : (!id.constructed || m == M.der) = true
          · simp [hd] at h
          · simp only [hd, Bool.false_eq_true, if_false] at h ⊢
            cases hp : parseUntilEoc m f (v.drop (k + kl)) with
            | none => simp [hp] at h
            | some r3 =>
              obtain ⟨kids, rest⟩ := r3
              simp only [hp, Option.some.injEq, Prod.mk.injEq] at h
              obtain ⟨j, hj, hrest⟩ := (suffix_lemma m f).2 _ _ _ hp
              simp only [List.length_drop] at hj
              have hjn : k + kl + j = n' := by
                have h2 := h.2
                rw [hrest, List.drop_drop] at h2
                exact drop_inj v _ _ (by omega) hn' h2
              have hloc := hE (v.drop (k + kl)) kids j (n - (k + kl)) (by omega)
                (by simp only [List.length_drop]; omega) (by rw [hp, hrest])
              rw [hd2, hloc]
              simp only [Option.some.injEq, Prod.mk.injEq]
              refine ⟨h.1, ?_⟩
              rw [← hd2, List.drop_drop, hjn]


theorem pe_step (m : M) (f : Nat) (hV : PVloc m f) (hE : PEloc m f) : PEloc m (f + 1) := by
  intro v ts n' n hn hn' h
  simp only [parseUntilEoc] at h ⊢
  cases hr : readIdent v with
  | none => simp [hr] at h
  | some r =>
    obtain ⟨id, k⟩ := r
    obtain ⟨_, _, hk1, hk, _⟩ := C12.readIdent_bounds v id k hr
    simp only [hr] at h
    by_cases he : isEocIdent id = true
    · simp only [he, if_true] at h
      by_cases hc : id.constructed = true
      · simp [hc] at h
      · simp only [hc, Bool.false_eq_true, if_false] at h
        cases hl : readLen m.isBer (v.drop k) with
        | none => simp [hl] at h
        | some r2 =>
          obtain ⟨len?, kl⟩ := r2
          obtain ⟨hkl1, hkl⟩ := readLen_bound _ _ _ _ hl
          simp only [List.length_drop] at hkl
          rw [hl] at h
          have hz : len? = some 0 := by
            cases len? with
            | none => simp at h
            | some x => cases x with
              | zero => rfl
              | succ y => simp at h
          subst hz
          simp only [Option.some.injEq, Prod.mk.injEq] at h
          have hn'eq : k + kl = n' := drop_inj v _ _ (by omega) hn' h.2
          have hri' : readIdent (v.take n) = some (id, k) := readIdent_take v id k n hr (by omega)
          have hd1 : (v.take n).drop k = (v.drop k).take (n - k) := drop_take_comm v k n (by omega)
          have hrl' : readLen m.isBer ((v.take n).drop k) = some (some 0, kl) := by
            rw [hd1]; exact readLen_take _ _ _ _ _ hl (by omega)
          simp only [hri', he, if_true, hc, Bool.false_eq_true, if_false, hrl', Option.some.injEq, Prod.mk.injEq]
          exact ⟨h.1, by rw [hn'eq]⟩
    · simp only [he, Bool.false_eq_true, if_false] at h
      cases hp : parseValue m f v with
      | none => simp [hp] at h
      | some r3 =>
        obtain ⟨t, rest1⟩ := r3
        simp only [hp] at h
        cases hq : parseUntilEoc m f rest1 with
        | none => simp [hq] at h
        | some r4 =>
          obtain ⟨ts', rest'⟩ := r4
          simp only [hq, Option.some.injEq, Prod.mk.injEq] at h
          obtain ⟨n1, hn1, hrest1⟩ := (suffix_lemma m f).1 _ _ _ hp
          obtain ⟨j, hj, hrest'0⟩ := (suffix_lemma m f).2 _ _ _ hq
          have hrest' : rest' = v.drop (n1 + j) := by rw [hrest'0, hrest1, List.drop_drop]
          rw [hrest1] at hj
          simp only [List.length_drop] at hj
          have hsum : n1 + j = n' := by
            have h2 := h.2
            rw [hrest'] at h2
            exact drop_inj v _ _ (by omega) hn' h2
          have hri' : readIdent (v.take n) = some (id, k) := by
            -- the identifier lies inside the first value
            have hkn1 : k ≤ n1 := by
              cases f with
              | zero => simp [parseValue] at hp
              | succ f' =>
                obtain ⟨_, kl, _, hle⟩ := header_le m f' v t n1 hn1 (by rw [hp, hrest1]) id k hr
                omega
            exact readIdent_take v id k n hr (by omega)
          simp only [hri', he, Bool.false_eq_true, if_false]
          have h1 := hV v t n1 n (by omega) hn1 (by rw [hp, hrest1])
          rw [h1]
          simp only
          have hd : (v.take n).drop n1 = (v.drop n1).take (n - n1) := drop_take_comm v n1 n (by omega)
          have h2 := hE (v.drop n1) ts' j (n - n1) (by omega) (by simp only [List.length_drop]; omega)
            (by rw [← hrest1, hq, hrest'0])
          rw [hd, h2]
          simp only [Option.some.injEq, Prod.mk.injEq]
          refine ⟨h.1, ?_⟩
          rw [← hd, List.drop_drop, hsum]

theorem parse_prefix (m : M) : ∀ f, PVloc m f ∧ PEloc m f := by
  intro f
  induction f with
  | zero =>
    exact ⟨fun v t n' n _ _ h => by simp [parseValue] at h, fun v ts n' n _ _ h => by simp [parseUntilEoc] at h⟩
  | succ f ih => exact ⟨pv_step m f ih.2, pe_step m f ih.1 ih.2⟩


/-! ### the values in front of an end-of-contents marker -/

theorem parseValue_nil (m : M) (f : Nat) : parseValue m f [] = none := by
  cases f <;> simp [parseValue, readIdent]

/-- if the grammar reads the values `ts` and then end-of-contents from `v`, the octets in front of
    the end-of-contents marker (whose size is `eocLen`) are exactly the values `ts`, nothing else -/
theorem untilEoc_values (m : M) : ∀ (f : Nat) (v : Bytes) (ts : List Tree) (rest : Bytes),
    parseUntilEoc m f v = some (ts, rest) →
    eocLen m f v ≤ v.length - rest.length ∧
    parseAll m f (v.take (v.length - rest.length - eocLen m f v)) = some ts := by
  intro f
  induction f with
  | zero => intro v ts rest h; simp [parseUntilEoc] at h
  | succ f ih =>
    intro v ts rest h
    simp only [parseUntilEoc] at h
    cases hri : readIdent v with
    | none => simp [hri] at h
    | some r =>
      obtain ⟨id, k⟩ := r
      simp only [hri] at h
      by_cases he : isEocIdent id = true
      · simp only [he, if_true] at h
        by_cases hcn : id.constructed = true
        · simp [hcn] at h
        · simp only [hcn, Bool.false_eq_true, if_false] at h
          cases hrl : readLen m.isBer (v.drop k) with
          | none => simp [hrl] at h
          | some r2 =>
            obtain ⟨len?, kl⟩ := r2
            rw [hrl] at h
            cases len? with
            | none => simp at h
            | some n =>
              cases n with
              | succ n' => simp at h
              | zero =>
                simp only [Option.some.injEq, Prod.mk.injEq] at h
                obtain ⟨rfl, rfl⟩ := h
                obtain ⟨_, _, _, hk, _⟩ := C12.readIdent_bounds _ _ _ hri
                obtain ⟨_, hkl⟩ := readLen_bound _ _ _ _ hrl
                simp only [List.length_drop] at hkl
                have hel : eocLen m (f + 1) v = k + kl := by simp only [eocLen, hri, he, if_true, hrl]
                rw [hel]
                simp only [List.length_drop]
                refine ⟨by omega, ?_⟩
                have : v.length - (v.length - (k + kl)) - (k + kl) = 0 := by omega
                rw [this]
                simp [parseAll]
      · have he' : isEocIdent id = false := by simpa using he
        simp only [he', Bool.false_eq_true, if_false] at h
        cases hpv : parseValue m f v with
        | none => simp [hpv] at h
        | some r =>
          obtain ⟨t, rest1⟩ := r
          simp only [hpv] at h
          cases hpe : parseUntilEoc m f rest1 with
          | none => simp [hpe] at h
          | some r3 =>
            obtain ⟨ts', rest'⟩ := r3
            simp only [hpe, Option.some.injEq, Prod.mk.injEq] at h
            obtain ⟨rfl, rfl⟩ := h
            obtain ⟨n1, hn1, hr1⟩ := (suffix_lemma m f).1 _ _ _ hpv
            obtain ⟨n2, hn2, hr2⟩ := (suffix_lemma m f).2 _ _ _ hpe
            obtain ⟨ihle, ihp⟩ := ih rest1 ts' rest' hpe
            have hel : eocLen m (f + 1) v = eocLen m f rest1 := by
              simp only [eocLen, hri, he', Bool.false_eq_true, if_false, hpv]
            rw [hel]
            subst hr1
            simp only [List.length_drop] at ihle ihp hn2 ⊢
            have hrl : rest'.length = v.length - n1 - n2 := by rw [hr2, List.length_drop, List.length_drop]
            refine ⟨by omega, ?_⟩
            -- the value at the front of the prefix
            have hN : n1 ≤ v.length - rest'.length - eocLen m f (v.drop n1) := by omega
            have hv' := (parse_prefix m f).1 v t n1 _ hN hn1 hpv
            rw [drop_take_comm v n1 _ hN] at hv'
            have hne : (v.take (v.length - rest'.length - eocLen m f (v.drop n1))).isEmpty = false := by
              cases hx : v.take (v.length - rest'.length - eocLen m f (v.drop n1)) with
              | nil => rw [hx, parseValue_nil] at hv'; cases hv'
              | cons b r => rfl
            have harg : v.length - rest'.length - eocLen m f (v.drop n1) - n1 =
                v.length - n1 - rest'.length - eocLen m f (v.drop n1) := by omega
            rw [harg] at hv'
            simp only [parseAll, hne, Bool.false_eq_true, if_false, hv', ihp, Option.map]

/-! ### `capture_one` captures exactly one complete value -/

/-- **C11: `capture_one` returns exactly the octets of the next complete value.**  On any source
    `St d l` (no open capture): if `capture_one` succeeds, the grammar accepts a value `t` at the
    current position occupying the first `n` octets of the view, the captured octets are exactly those
    `n` octets, the `Constructed` is unchanged and decoding continues immediately behind them. -/
theorem capture_one_value (c : Cons) (N : Nat) (d : Bytes) (l : Option Nat) (bytes : Bytes) (c' : Cons) (g' : G0)
    (h : runG0 (captureOne c N) (St d l) = .ok ((bytes, c'), g')) :
    ∃ f t n, n ≤ (St d l).view.length ∧
      parseValue (toM c.mode) f (St d l).view = some (t, (St d l).view.drop n) ∧
      bytes = (St d l).view.take n ∧ bytes = d.take n ∧ g' = (St d l).adv n ∧ c' = c := by
  unfold captureOne at h
  rw [C16.capture_run0 c _ (fun c => by
    have := nocap_mandatory _ (nocap_skipOne c N)
    nocap) d l] at h
  simp only [runG0_bind, C09.mandatory_run, C10.run_skipOne] at h
  cases hs : runG0 (skipOpt c acceptAll () N) (St d l) with
  | error e => rw [hs] at h; cases h
  | ok x =>
    obtain ⟨⟨r, c1, u⟩, g1⟩ := x
    rw [hs] at h
    cases r with
    | none => simp at h
    | some uu =>
      obtain ⟨f, t, rest, hp, _, hc1, hg1, _, _, _⟩ := C10.skip_value_inv c acceptAll () (St d l) rfl N c1 u g1 hs
      obtain ⟨n, hn, hrest⟩ := (suffix_lemma (toM c.mode) f).1 _ _ _ hp
      have hlen : (St d l).view.length - rest.length = n := by rw [hrest, List.length_drop]; omega
      rw [hlen] at hg1
      subst hg1; subst hc1
      have hvd : (St d l).view.length ≤ d.length := G0.view_length_le _
      have hk : d.length - ((St d l).adv n).data.length = n := by
        simp only [G0.adv, List.length_drop]; omega
      simp only [runG0_pure, hk, if_true, Nat.sub_zero] at h
      have htake : (St d l).view.take n = d.take n := by
        cases l with
        | none => rfl
        | some lim =>
          simp only [G0.view, List.take_take]
          have : n ≤ lim := by
            have := view_le_limit (St d (some lim)) lim rfl
            omega
          rw [Nat.min_eq_left this]
      refine ⟨f, t, n, hn, by rw [hp, hrest], ?_, ?_, ?_, ?_⟩
      all_goals
        cases l with
        | none =>
          simp only [Except.ok.injEq, Prod.mk.injEq] at h
          first
            | (rw [← h.1.1]; try rw [htake])
            | (rw [← h.2]; rfl)
            | (rw [← h.1.2])
        | some lim =>
          have hnl : n ≤ lim := by
            have := view_le_limit (St d (some lim)) lim rfl
            omega
          have : ¬ lim < n := by omega
          simp only [this, if_false, Except.ok.injEq, Prod.mk.injEq] at h
          first
            | (rw [← h.1.1]; try rw [htake])
            | (rw [← h.2]; rfl)
            | (rw [← h.1.2])


/-- **C11: `capture_all` never returns the end-of-contents marker of the enclosing value.**  Inside
    an indefinite-length value (any source `St d l` without open capture): if what is in view is, by
    the grammar of the mode, the values `ts` followed by end-of-contents (and then `rest`),
    `capture_all` (with a budget for the headers of `ts`) returns `d.take j` where those `j` octets
    are EXACTLY the values `ts` — they parse, on their own, as `ts` with nothing left — the
    `Constructed` is `done`, and decoding continues immediately BEHIND the end-of-contents octets. -/
theorem capture_all_indef_values (m : Mode) (N : Nat) (d : Bytes) (l : Option Nat) (f : Nat) (ts : List Tree)
    (rest : Bytes) (hp : parseUntilEoc (toM m) f (St d l).view = some (ts, rest)) (hN : C10.hdrsL ts + 2 ≤ N) :
    ∃ j, runG0 (captureAll ⟨.indefinite, m, 0⟩ N) (St d l) =
        .ok ((d.take j, ⟨.done, m, eocLen (toM m) f (St d l).view⟩),
          (St d l).adv ((St d l).view.length - rest.length)) ∧
      j + eocLen (toM m) f (St d l).view = (St d l).view.length - rest.length ∧
      parseAll (toM m) f (d.take j) = some ts := by
  obtain ⟨hle, hpa⟩ := untilEoc_values (toM m) f _ ts rest hp
  have hvd : (St d l).view.length ≤ d.length := G0.view_length_le _
  generalize hn : (St d l).view.length - rest.length = n at hle hpa ⊢
  have hnv : n ≤ (St d l).view.length := by omega
  refine ⟨n - eocLen (toM m) f (St d l).view, ?_, by omega, ?_⟩
  · unfold captureAll
    rw [C16.capture_run0 _ _ (fun c => nocap_skipAll N c) d l,
      C10.skipAll_indef f m 0 (St d l) N ts rest rfl hp hN, hn]
    have hk : d.length - ((St d l).adv n).data.length = n := by
      simp only [G0.adv, List.length_drop]; omega
    simp only [hk]
    cases l with
    | none => simp [G0.adv]
    | some lim =>
      have := view_le_limit (St d (some lim)) lim rfl
      have hl : ¬ lim < n := by omega
      simp [hl, G0.adv]
  · rw [← C10.take_view (St d l) _ (by omega)]
    exact hpa

/-- **C11: decoding the captured data later yields the same value as decoding it in place.**  The
    octets `capture_one` returned, parsed on their own, are exactly the value that stood at the
    capture position, with nothing left over. -/
theorem captured_value_decodes (c : Cons) (N : Nat) (d : Bytes) (l : Option Nat) (bytes : Bytes) (c' : Cons) (g' : G0)
    (h : runG0 (captureOne c N) (St d l) = .ok ((bytes, c'), g')) :
    ∃ f t rest, parseValue (toM c.mode) f (St d l).view = some (t, rest) ∧
      parseValue (toM c.mode) f bytes = some (t, []) := by
  obtain ⟨f, t, n, hn, hp, hb, _, _, _⟩ := capture_one_value c N d l bytes c' g' h
  refine ⟨f, t, _, hp, ?_⟩
  have := (parse_prefix (toM c.mode) f).1 (St d l).view t n n (Nat.le_refl _) hn hp
  rw [hb, this]
  simp [List.drop_take]

/-- … and, through C02, so does the generic reader: reading the captured octets as a top-level
    source returns exactly `[t]` and consumes everything -/
theorem captured_value_read_later (c : Cons) (N : Nat) (d : Bytes) (l : Option Nat) (bytes : Bytes) (c' : Cons)
    (g' : G0) (h : runG0 (captureOne c N) (St d l) = .ok ((bytes, c'), g')) :
    ∃ f t, WellFormed c.mode bytes [t] ∧
      runG0 (decodeAll c.mode (f + 2)) (St bytes none) = .ok ([t], St [] none) := by
  obtain ⟨f, t, rest, _, hp⟩ := captured_value_decodes c N d l bytes c' g' h
  have hp1 : parseValue (toM c.mode) (f + 1) bytes = some (t, []) := (C10.parse_mono1 _ f).1 _ _ hp
  have hne : bytes.isEmpty = false := by
    cases bytes with
    | nil => cases f <;> simp [parseValue, readIdent] at hp
    | cons b r => rfl
  have hall : parseAll (toM c.mode) (f + 2) bytes = some [t] := by
    simp only [parseAll, hne, Bool.false_eq_true, if_false, hp1]
    simp [parseAll]
  refine ⟨f, t, ⟨f + 2, hall⟩, ?_⟩
  have hr := decode_run c.mode (f + 2) bytes
  rw [hall] at hr
  simp only [Option.map] at hr
  exact (rel0_some _ _).mp hr

/-- **C11: captured content read later = read in place.**  Reading octets `cap` later as a source of
    their own (`Captured::decode`) and reading the same octets in place as the content of a
    definite-length value (whatever follows them) deliver the same trees — both equal the grammar. -/
theorem decode_later_same (m : Mode) (f : Nat) (cap rest : Bytes) (ts : List Tree) (g' : G0)
    (h : runG0 (readAll f ⟨.definite, m, 0⟩) (St (cap ++ rest) (some cap.length)) = .ok ((ts, ⟨.definite, m, 0⟩), g')) :
    runG0 (decodeAll m f) (St cap none) = .ok (ts, St [] none) := by
  have hd := definite_parent m f (cap ++ rest) cap.length
  rw [h] at hd
  unfold specD at hd
  simp only [List.length_append, Nat.le_add_right, if_true, List.take_left'] at hd
  cases hp : parseAll (toM m) f cap with
  | none =>
    rw [hp] at hd
    simp [Rel0] at hd
  | some ts' =>
    rw [hp] at hd
    simp only [Option.map, Rel0, Prod.mk.injEq] at hd
    have hr := decode_run m f cap
    rw [hp] at hr
    simp only [Option.map] at hr
    rw [(rel0_some _ _).mp hr, hd.1.1]

/-- **C11: writing captured data back out reproduces it unchanged** (in its own mode, and in BER) -/
theorem reencode_unchanged (own : Mode) (bytes : Bytes) :
    (Enc.captured bytes own).write own = .ok bytes ∧ (Enc.captured bytes own).write .ber = .ok bytes ∧
    (Enc.captured bytes own).encodedLen own = .ok bytes.length := by
  refine ⟨?_, ?_, ?_⟩
  · rw [C06.write_captured]; simp
  · rw [C06.write_captured]; simp
  · cases own <;> rfl

end Bcder.Props.C11b
