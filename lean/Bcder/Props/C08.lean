/-
  C08 — Source failures surface as that source error, never as success or content error.

  The stream layer (`Bcder.Model.Stream`) fails the request with index `k` (`failAt = some k`) with
  `Err.source`.  For EVERY routine (capturing or not), every input, every conforming grant policy and
  EVERY position `k`: the outcome is the injected source error, or - when the routine issues fewer
  than `k+1` requests - exactly the outcome of the fault-free run.  In particular it is never a
  different value, never a content error in place of the source error, never a panic.
-/
import Bcder.Props.C07
namespace Bcder.Props.C08
open Bcder Bcder.Props.C07

/-- a fresh stream source whose `k`-th request fails -/
def S.failing (data : Bytes) (limit : Option Nat) (k : Nat) : S :=
  { data := data, granted := 0, reqs := 0, failAt := some k, limit := limit }

theorem rel_failing (data : Bytes) (limit : Option Nat) (k : Nat) :
    Rel (S.failing data limit k) (G.fresh data limit) :=
  ⟨rfl, rfl, rfl, Nat.le_refl 0, Nat.le_refl 0, Nat.zero_le _⟩

/-- C08 (main) -/
theorem fault_surfaces (pol : Policy) (hp : Conforming pol) (p : Prog α)
    (data : Bytes) (limit : Option Nat) (k : Nat) :
    (∀ a g', runG p (G.fresh data limit) = .ok (a, g') →
      runS pol p (S.failing data limit k) = .error .source ∨
      ∃ s', runS pol p (S.failing data limit k) = .ok (a, s') ∧ s'.data.drop s'.off = g'.data) ∧
    (∀ e, runG p (G.fresh data limit) = .error e → e.isPanic = false →
      runS pol p (S.failing data limit k) = .error .source ∨
      runS pol p (S.failing data limit k) = .error e) := by
  have h := run_sim pol hp p (S.failing data limit k) (G.fresh data limit) (rel_failing data limit k)
  constructor
  · intro a g' hg
    rcases h.1 a g' hg with ⟨_, hs⟩ | ⟨s', hs', R', _⟩
    · exact Or.inl hs
    · exact Or.inr ⟨s', hs', R'.data.symm⟩
  · intro e hg hp'
    rcases h.2 e hg hp' with ⟨_, hs⟩ | he
    · exact Or.inl hs
    · exact Or.inr he

/-- the fault really fires: the very first request of a routine that starts with one -/
theorem first_request_fails (pol : Policy) (data : Bytes) (limit : Option Nat) :
    runS pol Tag.takeFrom (S.failing data limit 0) = .error .source := by
  simp [Tag.takeFrom, Tag.takeOptFrom, runS, stepS, Prog.takeOptU8, S.failing, S.request, S.baseRequest,
    Bind.bind, Prog.bind]

/-- C08 instantiated for value-by-value reading of a whole source -/
theorem generic_read_fault (pol : Policy) (hp : Conforming pol) (m : Mode) (data : Bytes) (fuel k : Nat) :
    let p : Prog Trace := decodeTop m (fun c => do let (c', x) ← genericAll fuel c {}; pure (x.trace, c'))
    (∀ a g', runG p (G.fresh data none) = .ok (a, g') →
      runS pol p (S.failing data none k) = .error .source ∨
      ∃ s', runS pol p (S.failing data none k) = .ok (a, s') ∧ s'.data.drop s'.off = g'.data) ∧
    (∀ e, runG p (G.fresh data none) = .error e → e.isPanic = false →
      runS pol p (S.failing data none k) = .error .source ∨
      runS pol p (S.failing data none k) = .error e) := by
  intro p
  exact fault_surfaces pol hp p data none k

/-- C08 instantiated for a routine that captures: decoding an OCTET STRING (any form) -/
theorem octet_string_fault (pol : Policy) (hp : Conforming pol) (m : Mode) (data : Bytes) (fuel k : Nat) :
    let p : Prog OS := decodeTop m (fun c => takeValueIf c Tag.OCTET_STRING (OS.fromContent fuel))
    (∀ a g', runG p (G.fresh data none) = .ok (a, g') →
      runS pol p (S.failing data none k) = .error .source ∨
      ∃ s', runS pol p (S.failing data none k) = .ok (a, s') ∧ s'.data.drop s'.off = g'.data) ∧
    (∀ e, runG p (G.fresh data none) = .error e → e.isPanic = false →
      runS pol p (S.failing data none k) = .error .source ∨
      runS pol p (S.failing data none k) = .error e) :=
  fault_surfaces pol hp _ data none k

/-- the fault fires inside a capture too: the request for the second segment header of a
    constructed OCTET STRING (request 6 over the stingy source) -/
example : runS stingy (decodeTop .ber (fun c => takeValueIf c Tag.OCTET_STRING (OS.fromContent 5)))
      (S.failing [0x24, 0x80, 0x04, 0x01, 0x61, 0x04, 0x01, 0x62, 0x00, 0x00] none 6) = .error .source := by rfl

end Bcder.Props.C08
