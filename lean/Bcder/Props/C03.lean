/-
  C03 — Code given a value's content can neither see nor consume octets outside it.

  A closure on a `Primitive` runs on the source with the limit set to the content length.  The
  theorems quantify over EVERY program built from the window operations (`Uses Op.isWindow`:
  request, take_u8, take_opt_u8, slice, bytes, advance, skip, take_all, skip_all, slice_all,
  with_slice_all, remaining, and all typed `to_*` helpers — shown for the whole primitive-level
  script language in Lemmas/Window.lean), every content, everything that follows it, and any
  enclosing capture frames.
-/
import Bcder.Lemmas.Frame
import Bcder.Lemmas.Window
namespace Bcder.Props.C03
open Bcder Prog

/-- the state a closure on a primitive value with content `c` starts in, when `rest` follows -/
def window (c rest : Bytes) (frames : List Frame) (seen : Nat) : G :=
  { data := c ++ rest, limit := some c.length, frames := frames, seen := seen }

/-- C03.1 — the closure observes exactly the octets of the content: its result and everything it
    leaves behind are those of the same closure run on the content ALONE (where reads past the end
    find no data), with `rest` untouched behind it. -/
theorem content_isolation (p : Prog α) (hp : Uses Op.isWindow p) (c rest : Bytes)
    (frames : List Frame) (seen : Nat) :
    runG p (window c rest frames seen) = liftExt rest (runG p (window c [] frames seen)) := by
  have := run_ext rest p hp (window c [] frames seen) ⟨c.length, rfl, by simp [window]⟩
  simpa [window, G.ext] using this

/-- C03.1 (corollary) — what follows the value has no influence on what the closure returns -/
theorem result_independent_of_rest (p : Prog α) (hp : Uses Op.isWindow p) (c r1 r2 : Bytes)
    (frames : List Frame) (seen : Nat) :
    (runG p (window c r1 frames seen)).map Prod.fst = (runG p (window c r2 frames seen)).map Prod.fst := by
  rw [content_isolation p hp c r1, content_isolation p hp c r2]
  cases runG p (window c [] frames seen) with
  | error e => rfl
  | ok r => obtain ⟨a, g⟩ := r; rfl

/-- C03.2/3 — the closure consumes `k ≤ |content|` octets, all of them content, and leaves the limit
    at `|content| - k`. -/
theorem consumes_only_content (p : Prog α) (hp : Uses Op.isWindow p) (c rest : Bytes)
    (frames : List Frame) (seen : Nat) (a : α) (g' : G)
    (h : runG p (window c rest frames seen) = .ok (a, g')) :
    ∃ k, k ≤ c.length ∧ g'.data = c.drop k ++ rest ∧ g'.limit = some (c.length - k) := by
  obtain ⟨k, ⟨_, hd, _⟩, hk, hl⟩ := run_window_limit p hp (window c rest frames seen) c.length rfl a g' h
  refine ⟨k, hk, ?_, hl⟩
  rw [hd]
  simp [window, List.drop_append_of_le_length hk]

/-- `LimitedSource::exhausted` under a limit: succeeds exactly when the limit is 0 -/
theorem exhausted_iff (g : G) (l : Nat) (hl : g.limit = some l) :
    runG limitedExhausted g = if l = 0 then .ok ((), g) else .error .content := by
  unfold limitedExhausted
  simp only [runG_bind, getLimit, runG, stepG, hl]
  cases l <;> simp [runG]

/-- C03.2 — if the closure returns success without having consumed the whole content, the
    enclosing read fails (content error) -/
theorem short_read_fails (p : Prog α) (hp : Uses Op.isWindow p) (c rest : Bytes)
    (frames : List Frame) (seen : Nat) (a : α) (g' : G)
    (h : runG p (window c rest frames seen) = .ok (a, g')) (hne : g'.data ≠ rest) :
    runG limitedExhausted g' = .error .content := by
  obtain ⟨k, hk, hd, hl⟩ := consumes_only_content p hp c rest frames seen a g' h
  rw [exhausted_iff g' _ hl]
  have : c.length - k ≠ 0 := by
    intro h0
    apply hne
    rw [hd, List.drop_eq_nil_of_le (by omega)]; rfl
  simp [this]

/-- C03.3 — if the enclosing exhaustion check passes, the source stands exactly at the end of the
    value, with limit 0: the state a conventional `skip_all`/`take_all` leaves.  Hence whatever
    follows is decoded identically. -/
theorem full_read_state (p : Prog α) (hp : Uses Op.isWindow p) (c rest : Bytes)
    (frames : List Frame) (seen : Nat) (a : α) (g' : G)
    (h : runG p (window c rest frames seen) = .ok (a, g'))
    (hex : runG limitedExhausted g' = .ok ((), g')) :
    g'.data = rest ∧ g'.limit = some 0 := by
  obtain ⟨k, hk, hd, hl⟩ := consumes_only_content p hp c rest frames seen a g' h
  rw [exhausted_iff g' _ hl] at hex
  have h0 : c.length - k = 0 := by
    by_cases h0 : c.length - k = 0
    · exact h0
    · simp [h0] at hex
  refine ⟨?_, by rw [hl, h0]⟩
  rw [hd, List.drop_eq_nil_of_le (by omega)]; rfl

/-- the whole primitive-level script language consists of window operations -/
theorem scripts_are_window (ops : List PrimOp) (x : Ctx) (m : Mode) : Uses Op.isWindow (primBody ops x m) :=
  w_primBody ops x m

/-- non-vacuity: a closure that asks for far more than the content, reads two octets and stops
    sees only the content, whatever follows -/
example : (runG (do let n ← reqCapped 1000; let a ← takeU8; let b ← takeOptU8; pure (n, a, b))
      (window [0x61] [0x62, 0x63] [] 0)).map Prod.fst = .ok (1, 0x61, none) := by rfl

end Bcder.Props.C03
