/-
  C10 — Skipping accepts exactly what reading accepts and advances identically.

  Subject: the model of `Constructed::skip_opt` (`skipOpt` / `skipLoop` / `popLoop`, an ITERATIVE loop
  with an explicit stack of saved limits), `skip`, `skip_one` (`skipOne`), `skip_all` (`skipAll`) of
  Model/Content.lean, run by `runG0` (SliceSource semantics; `runG` refines it) on ANY source without an
  open capture (`g.frames = []`), for ANY `Constructed` state and mode, ANY filter closure (as a
  state-passing function, `none` = `Err`) and ANY stack of open values where a lemma is about the loop.
  Reference: the X.690 grammar `Spec.parseValue / parseAll / parseUntilEoc`, which C02 shows to be
  what the recursive generic reader (`readValue` / `readAll`) accepts.

  How it is proved
  * `skip_step`: one iteration of the loop in closed form (`stepF`, `sbodyF`) as a function of
    `readIdent` / `readLen` on the limited view, like `pnv_eq` of C02.
  * `success_all` (induction on grammar fuel, for all stacks): a value / the rest of a definite value /
    the rest of an indefinite value that the grammar accepts is walked over by the loop with one
    iteration per header, calling the filter along `preorder`, ending in the `after` continuation
    (`afterK`) at exactly the grammar's position with the limit restored.
  * `converse_all` (strong induction on loop fuel, for all stacks): every successful run of the loop
    factors through the end of a value / definite content / indefinite content the grammar accepts.

  Main statements
  * `skip_value`, `skip_value_inv`, `skip_some_iff`: `skip_opt` returns `Some(())` iff the grammar of the
    mode accepts a value at the current position and the filter accepts its trace; then the state is
    unchanged, the source advanced over exactly the octets of that value, and the filter has been
    given tag, constructed flag and depth of the value and of every nested value once, in encoding
    order (`preorder`), a rejection ending the skip with a content error before anything later is
    looked at; fuel needed = number of headers (`hdrs`, end-of-contents included).
  * `skipOne_iff_read`: `skip_one` returns `Some(())` with state `c'` and source `g'` iff the optional
    generic read `take_opt_value` (tree-building closure) returns a value with the same `c'`, `g'`.
  * `skip_absent_iff`, `skip_absent_iff_read`, `pnv_absent_iff`: `skip_opt` reports absence exactly
    where `take_opt_value` (any closure) does — value ended, or end-of-contents of an indefinite
    parent, which is consumed and marks it done (`absentF`) — with the same state and source, the
    filter untouched.  `skip_ok_iff`, `skip_absent`: the mandatory `skip`.
  * `skipAll_spec`, `skipAll_inv`, `skipAll_iff`: `skip_all` returns iff the grammar accepts the
    remaining content of the definite / indefinite / top-level value (`specAll`), and ends exactly
    at its end (limit 0 / behind the end-of-contents octets, state done / end of view);
    `skipAll_iff_readAll`, `skipAll_where_readAll`: the same against `readAll` through C02.
  * `skip_deep`: for every `k`, `k` nested indefinite values are skipped with `2k+1` iterations.
  * `skipOne_runG_sound`: a successful `skip_one` on the contract-checking layer `runG` is one here.

  Call-stack space: in Rust `skip_opt` is a loop over a `SmallVec`; the model mirrors this by being
  a tail loop on a fuel counter with the stack as an explicit argument — `skipLoop` never calls
  itself except in tail position with the counter decreased, and the fuel it needs is the number
  of headers, independent of depth (`skip_value`, `skip_deep`).  Nothing about machine stack
  usage can be stated inside the model; that part of the property is discharged by this structure.

  NOT covered: sources with an open capture frame (`capture_one` / `capture_all` are C11's); sources
  other than SliceSource (C07/C08 carry capture-free programs over); errors are characterised as
  "not ok" — the converse shows the loop fails whenever the grammar rejects, not which error value
  it fails with when the fuel runs out first.
-/
import Bcder.Props.C02
namespace Bcder.Props.C10
open Bcder Bcder.Spec Prog Bcder.Props.C02

/-! ### vocabulary: header count and filter trace of a tree -/

mutual
/-- number of loop iterations `skip_opt` spends on a value: one per header, end-of-contents included -/
def hdrs : Tree → Nat
  | .prim _ _ => 1
  | .cons _ indef kids => (hdrsL kids + (if indef then 1 else 0)) + 1
def hdrsL : List Tree → Nat
  | [] => 0
  | t :: ts => hdrs t + hdrsL ts
end

mutual
/-- identifier and nesting depth of a value and of everything nested in it, in encoding order -/
def preorder : Tree → Nat → List (Ident × Nat)
  | .prim id _, d => [(id, d)]
  | .cons id _ kids, d => (id, d) :: preorderL kids (d + 1)
def preorderL : List Tree → Nat → List (Ident × Nat)
  | [], _ => []
  | t :: ts, d => preorder t d ++ preorderL ts d
end

/-- the caller's closure applied along a trace; `none` as soon as it returns `Err` -/
def runFilter (filter : σ → Tag → Bool → Nat → Option σ) (st : σ) : List (Ident × Nat) → Option σ
  | [] => some st
  | (id, d) :: rest =>
    match filter st (C12.tagOf id.cls id.num) id.constructed d with
    | none => none
    | some st' => runFilter filter st' rest

/-- continue with `k` if the filter accepted, content error otherwise -/
def thenK {X : Type} (o : Option σ) (k : σ → Res X) : Res X :=
  match o with
  | none => .error .content
  | some s => k s

theorem runFilter_append (filter : σ → Tag → Bool → Nat → Option σ) (a b : List (Ident × Nat)) :
    ∀ st, runFilter filter st (a ++ b) =
      match runFilter filter st a with
      | none => none
      | some st' => runFilter filter st' b := by
  induction a with
  | nil => intro st; rfl
  | cons x a ih =>
    intro st
    obtain ⟨id, d⟩ := x
    simp only [List.cons_append, runFilter]
    cases filter st (C12.tagOf id.cls id.num) id.constructed d with
    | none => rfl
    | some st' => exact ih st'

theorem thenK_append {X : Type} (filter : σ → Tag → Bool → Nat → Option σ) (a b : List (Ident × Nat)) (st : σ)
    (k : σ → Res X) :
    thenK (runFilter filter st (a ++ b)) k =
      thenK (runFilter filter st a) (fun st' => thenK (runFilter filter st' b) k) := by
  rw [runFilter_append]
  cases runFilter filter st a <;> rfl

theorem hdrs_pos (t : Tree) : 1 ≤ hdrs t := by
  cases t <;> simp [hdrs]

mutual
/-- number of values in a tree -/
def nodes : Tree → Nat
  | .prim _ _ => 1
  | .cons _ _ kids => nodesL kids + 1
def nodesL : List Tree → Nat
  | [] => 0
  | t :: ts => nodes t + nodesL ts
end

mutual
/-- the trace has exactly one entry per value: the filter is called once for each -/
theorem preorder_length : ∀ (t : Tree) (d : Nat), (preorder t d).length = nodes t
  | .prim _ _, _ => rfl
  | .cons _ _ kids, d => by simp [preorder, nodes, preorderL_length kids (d + 1)]
theorem preorderL_length : ∀ (ts : List Tree) (d : Nat), (preorderL ts d).length = nodesL ts
  | [], _ => rfl
  | t :: ts, d => by simp [preorderL, nodesL, preorder_length t d, preorderL_length ts d]
end

/-! ### the loop of `skip_opt`, one iteration in closed form -/

abbrev Stack := List (Option (Option Nat))

/-- the local `after` continuation of `skipLoop`: pop finished definite values, then return or loop -/
def afterK (c : Cons) (filter : σ → Tag → Bool → Nat → Option σ) (fuel : Nat)
    (stack : Stack) (st : σ) : Prog (Option Unit × Cons × σ) := do
  match ← popLoop stack with
  | none => return (some (), c, st)
  | some stack'' => skipLoop c filter fuel stack'' st

theorem run_skipN (g : G0) (hf : g.frames = []) (n : Nat) (hn : n ≤ g.view.length) :
    runG0 (skipN n) g = .ok ((), g.adv n) := by
  have hlt : ¬ g.view.length < n := by omega
  simp [skipN, runG0, stepG0, hlt, G0.advance_eq g hf n hn]

theorem run_popLoop_nil (g : G0) : runG0 (popLoop []) g = .ok (none, g) := rfl

theorem run_popLoop_cons (top : Option (Option Nat)) (rest : Stack) (g : G0) :
    runG0 (popLoop (top :: rest)) g =
      if g.limit = some 0 then
        match top with
        | some lim => runG0 (popLoop rest) { g with limit := lim }
        | none => .error .content
      else .ok (some (top :: rest), g) := by
  simp only [popLoop, runG0_bind, run_getLimit]
  by_cases h : g.limit = some 0
  · simp only [h, beq_self_eq_true, if_true]
    cases top with
    | none => rfl
    | some lim => simp only [runG0_bind, run_setLimit]
  · have : (g.limit == some 0) = false := by simpa using h
    simp [this, h]

theorem run_afterK_nil (c : Cons) (filter : σ → Tag → Bool → Nat → Option σ) (fuel : Nat) (st : σ) (g : G0) :
    runG0 (afterK c filter fuel [] st) g = .ok ((some (), c, st), g) := rfl

/-- `after` on a stack whose top is a definite value -/
theorem run_afterK_def (c : Cons) (filter : σ → Tag → Bool → Nat → Option σ) (fuel : Nat) (st : σ)
    (lim : Option Nat) (rest : Stack) (g : G0) :
    runG0 (afterK c filter fuel (some lim :: rest) st) g =
      if g.limit = some 0 then runG0 (afterK c filter fuel rest st) { g with limit := lim }
      else runG0 (skipLoop c filter fuel (some lim :: rest) st) g := by
  unfold afterK
  simp only [runG0_bind, run_popLoop_cons]
  by_cases h : g.limit = some 0 <;> simp [h]

/-- `after` on a stack whose top is an indefinite value -/
theorem run_afterK_indef (c : Cons) (filter : σ → Tag → Bool → Nat → Option σ) (fuel : Nat) (st : σ)
    (rest : Stack) (g : G0) :
    runG0 (afterK c filter fuel (none :: rest) st) g =
      if g.limit = some 0 then .error .content
      else runG0 (skipLoop c filter fuel (none :: rest) st) g := by
  unfold afterK
  simp only [runG0_bind, run_popLoop_cons]
  by_cases h : g.limit = some 0 <;> simp [h]

/-- what one iteration does once identifier and length octets have been read -/
def bodyK (c : Cons) (filter : σ → Tag → Bool → Nat → Option σ) (fuel : Nat) (stack : Stack) (st : σ)
    (tag : Tag) (constructed : Bool) (length : Length) : Prog (Option Unit × Cons × σ) :=
  if !constructed then
    if tag = Tag.END_OF_VALUE then
      if length != .definite 0 then contentErr
      else match stack with
        | none :: rest => afterK c filter fuel rest st
        | [] =>
          if c.state = .indefinite then return (none, { c with state := .done }, st)
          else contentErr
        | some _ :: _ => contentErr
    else
      match length with
      | .definite len =>
        match filter st tag constructed stack.length with
        | none => contentErr
        | some st' =>
          (do if ← need len then do skipN len; afterK c filter fuel stack st'
              else contentErr)
      | .indefinite => contentErr
  else if tag = Tag.END_OF_VALUE then contentErr
  else
    match length with
    | .definite len =>
      if c.mode == .cer then contentErr
      else match filter st tag constructed stack.length with
        | none => contentErr
        | some st' =>
          (do match ← getLimit with
              | some limit =>
                if limit < len then contentErr
                else do setLimit (some len); afterK c filter fuel (some (some (limit - len)) :: stack) st'
              | none => do setLimit (some len); afterK c filter fuel (some none :: stack) st')
    | .indefinite =>
      if c.mode == .der then contentErr
      else match filter st tag constructed stack.length with
        | none => contentErr
        | some st' => skipLoop c filter fuel (none :: stack) st'

theorem skipLoop_succ (c : Cons) (filter : σ → Tag → Bool → Nat → Option σ) (fuel : Nat) (stack : Stack) (st : σ) :
    skipLoop c filter (fuel + 1) stack st = (do
      let hdr ← (if stack.isEmpty then c.takeOptTag
                 else do let r ← Tag.takeFrom; pure (some r) : Prog (Option (Tag × Bool)))
      match hdr with
      | none => return (none, c, st)
      | some (tag, constructed) =>
        let length ← Length.takeFrom c.mode
        bodyK c filter fuel stack st tag constructed length) := by
  rw [skipLoop]
  rfl


/-- the outcome of the part of an iteration after the header, as a function of the header -/
def sbodyF (c : Cons) (filter : σ → Tag → Bool → Nat → Option σ) (fuel : Nat) (stack : Stack) (st : σ)
    (g2 : G0) (id : Ident) (len? : Option Nat) : Res ((Option Unit × Cons × σ) × G0) :=
  if isEocIdent id then
    if id.constructed then .error .content
    else if len? ≠ some 0 then .error .content
    else match stack with
      | none :: rest => runG0 (afterK c filter fuel rest st) g2
      | [] =>
        if c.state = .indefinite then .ok ((none, { c with state := .done }, st), g2)
        else .error .content
      | some _ :: _ => .error .content
  else match len? with
    | some len =>
      if id.constructed then
        if c.mode == .cer then .error .content
        else match filter st (C12.tagOf id.cls id.num) id.constructed stack.length with
          | none => .error .content
          | some st' =>
            if (match g2.limit with | some l => decide (l < len) | none => false) then .error .content
            else runG0 (afterK c filter fuel (some (g2.limit.map (· - len)) :: stack) st')
                  { g2 with limit := some len }
      else match filter st (C12.tagOf id.cls id.num) id.constructed stack.length with
        | none => .error .content
        | some st' =>
          if len ≤ g2.view.length then runG0 (afterK c filter fuel stack st') (g2.adv len)
          else .error .content
    | none =>
      if !id.constructed || c.mode == .der then .error .content
      else match filter st (C12.tagOf id.cls id.num) id.constructed stack.length with
        | none => .error .content
        | some st' => runG0 (skipLoop c filter fuel (none :: stack) st') g2

theorem lenOf_ne0 (len? : Option Nat) : (lenOf len? != Length.definite 0) = decide (len? ≠ some 0) := by
  cases len? with
  | none => simp [lenOf]
  | some n => cases n <;> simp [lenOf]

theorem bodyK_run (c : Cons) (filter : σ → Tag → Bool → Nat → Option σ) (fuel : Nat) (stack : Stack) (st : σ)
    (g2 : G0) (hf2 : g2.frames = []) (id : Ident) (hb : id.cls ≤ 3 ∧ id.num ≤ 0x1fffff) (len? : Option Nat) :
    runG0 (bodyK c filter fuel stack st (C12.tagOf id.cls id.num) id.constructed (lenOf len?)) g2 =
      sbodyF c filter fuel stack st g2 id len? := by
  have heoc := tagOf_eoc id hb.1 hb.2
  unfold bodyK sbodyF
  by_cases he : isEocIdent id = true
  · have ht : C12.tagOf id.cls id.num = Tag.END_OF_VALUE := heoc.mpr he
    simp only [ht, he, if_true]
    by_cases hc : id.constructed = true
    · simp [hc]
    · simp only [hc, Bool.not_false, Bool.false_eq_true, if_true, if_false, lenOf_ne0]
      by_cases hz : len? = some 0
      · simp only [hz, ne_eq, not_true_eq_false, decide_false, Bool.false_eq_true, if_false]
        cases stack with
        | nil =>
          by_cases hi : c.state = .indefinite <;> simp [hi]
        | cons top rest => cases top <;> rfl
      · simp [hz]
  · have ht : ¬ C12.tagOf id.cls id.num = Tag.END_OF_VALUE := fun h => he (heoc.mp h)
    simp only [ht, he, if_false, Bool.false_eq_true]
    cases len? with
    | none =>
      simp only [lenOf]
      by_cases hc : id.constructed = true
      · simp only [hc, Bool.not_true, Bool.false_eq_true, if_false, Bool.false_or]
        by_cases hd : (c.mode == .der) = true
        · simp [hd]
        · simp only [hd, Bool.false_eq_true, if_false]
          cases filter st (C12.tagOf id.cls id.num) true stack.length <;> rfl
      · simp [hc]
    | some len =>
      simp only [lenOf]
      by_cases hc : id.constructed = true
      · simp only [hc, Bool.not_true, Bool.false_eq_true, if_false, if_true]
        by_cases hcer : (c.mode == .cer) = true
        · simp [hcer]
        · simp only [hcer, Bool.false_eq_true, if_false]
          cases filter st (C12.tagOf id.cls id.num) true stack.length with
          | none => rfl
          | some st' =>
            simp only [runG0_bind, run_getLimit]
            cases hl : g2.limit with
            | none => simp [runG0_bind, run_setLimit]
            | some l =>
              by_cases hlt : l < len
              · simp [hlt]
              · simp [hlt, runG0_bind, run_setLimit]
      · simp only [hc, Bool.not_false, if_true, Bool.false_eq_true, if_false]
        cases filter st (C12.tagOf id.cls id.num) false stack.length with
        | none => rfl
        | some st' =>
          simp only [runG0_bind, run_need]
          by_cases hn : len ≤ g2.view.length
          · simp [hn, runG0_bind, run_skipN g2 hf2 len hn]
          · simp [hn]

/-- what one iteration of the loop of `skip_opt` does on a source `g` -/
def stepF (c : Cons) (filter : σ → Tag → Bool → Nat → Option σ) (fuel : Nat) (stack : Stack) (st : σ)
    (g : G0) : Res ((Option Unit × Cons × σ) × G0) :=
  if stack = [] ∧ c.state = .unbounded ∧ g.view = [] then .ok ((none, c, st), g)
  else match headerF c.mode g with
    | none => .error .content
    | some ((id, len?), g2) => sbodyF c filter fuel stack st g2 id len?

/-- **one iteration in closed form**, on any source without an open capture -/
theorem skip_step (c : Cons) (filter : σ → Tag → Bool → Nat → Option σ) (fuel : Nat) (stack : Stack) (st : σ)
    (g : G0) (hf : g.frames = []) :
    runG0 (skipLoop c filter (fuel + 1) stack st) g = stepF c filter fuel stack st g := by
  rw [skipLoop_succ]
  unfold stepF
  simp only [runG0_bind]
  by_cases hne : stack = [] ∧ c.state = .unbounded ∧ g.view = []
  · obtain ⟨h1, h2, h3⟩ := hne
    subst h1
    have : runG0 c.takeOptTag g = .ok (none, g) := by
      unfold Cons.takeOptTag
      simp only [h2, if_true, tag_takeOptFrom0 g hf, h3]
    simp [this, h2, h3]
  · simp only [hne, if_false]
    have htag : runG0 (if stack.isEmpty then c.takeOptTag
                 else do let r ← Tag.takeFrom; pure (some r) : Prog (Option (Tag × Bool))) g =
        match readIdent g.view with
        | none => .error .content
        | some (id, k) => .ok (some (C12.tagOf id.cls id.num, id.constructed), g.adv k) := by
      have hplain : runG0 (do let r ← Tag.takeFrom; pure (some r) : Prog (Option (Tag × Bool))) g =
          match readIdent g.view with
          | none => .error .content
          | some (id, k) => .ok (some (C12.tagOf id.cls id.num, id.constructed), g.adv k) := by
        simp only [runG0_bind, tag_takeFrom0 g hf]
        cases readIdent g.view with
        | none => rfl
        | some r => obtain ⟨id, k⟩ := r; rfl
      by_cases hs : stack = []
      · subst hs
        simp only [List.isEmpty_nil, if_true]
        unfold Cons.takeOptTag
        by_cases hu : c.state = .unbounded
        · have hv : ¬ g.view = [] := fun h => hne ⟨rfl, hu, h⟩
          simp only [hu, if_true, tag_takeOptFrom0 g hf, hv, if_false]
          cases readIdent g.view with
          | none => rfl
          | some r => obtain ⟨id, k⟩ := r; rfl
        · simp only [hu, if_false]
          exact hplain
      · have : stack.isEmpty = false := by cases stack <;> simp_all
        simp only [this, Bool.false_eq_true, if_false]
        exact hplain
    rw [htag]
    unfold headerF
    cases hr : readIdent g.view with
    | none => rfl
    | some r =>
      obtain ⟨id, k⟩ := r
      obtain ⟨hc, hn, _, _, _⟩ := C12.readIdent_bounds g.view id k hr
      simp only [runG0_bind, length_takeFrom0 c.mode (g.adv k) rfl]
      cases hl : readLen c.mode.isBer (g.adv k).view with
      | none => rfl
      | some r2 =>
        obtain ⟨len?, kl⟩ := r2
        cases len? with
        | none => simp only; exact bodyK_run c filter fuel stack st _ rfl id ⟨hc, hn⟩ none
        | some n => simp only; exact bodyK_run c filter fuel stack st _ rfl id ⟨hc, hn⟩ (some n)


/-! ### the header, from the grammar's point of view -/

theorem headerF_of (m : Mode) (g : G0) (id : Ident) (k : Nat) (len? : Option Nat) (kl : Nat)
    (hri : readIdent g.view = some (id, k)) (hrl : readLen (toM m).isBer (g.view.drop k) = some (len?, kl)) :
    headerF m g = some ((id, len?), g.adv (k + kl)) ∧ (g.adv (k + kl)).view = g.view.drop (k + kl) ∧
      k + kl ≤ g.view.length ∧ 1 ≤ k := by
  obtain ⟨_, _, hk1, hk, _⟩ := C12.readIdent_bounds _ _ _ hri
  obtain ⟨hkl1, hkl⟩ := readLen_bound _ _ _ _ hrl
  simp only [List.length_drop] at hkl
  have hv1 : (g.adv k).view = g.view.drop k := G0.adv_view g k hk
  have hsum : k + kl ≤ g.view.length := by omega
  refine ⟨?_, G0.adv_view g _ hsum, hsum, hk1⟩
  unfold headerF
  rw [toM_isBer] at hrl
  simp only [hri, hv1, hrl, G0.adv_adv]

theorem headerF_none_ident (m : Mode) (g : G0) (hri : readIdent g.view = none) : headerF m g = none := by
  unfold headerF; simp [hri]

theorem headerF_none_len (m : Mode) (g : G0) (id : Ident) (k : Nat)
    (hri : readIdent g.view = some (id, k)) (hrl : readLen (toM m).isBer (g.view.drop k) = none) :
    headerF m g = none := by
  obtain ⟨_, _, hk1, hk, _⟩ := C12.readIdent_bounds _ _ _ hri
  have hv1 : (g.adv k).view = g.view.drop k := G0.adv_view g k hk
  unfold headerF
  rw [toM_isBer] at hrl
  simp only [hri, hv1, hrl]

theorem view_nonempty_of_ident (v : Bytes) (id : Ident) (k : Nat) (h : readIdent v = some (id, k)) : v ≠ [] := by
  intro hv; subst hv; simp [readIdent] at h

theorem limit_ne_zero_of_view (g : G0) (h : g.view ≠ []) : g.limit ≠ some 0 := by
  intro hl; apply h; simp [G0.view, hl]


theorem take_view (g : G0) (n : Nat) (hn : n ≤ g.view.length) : g.view.take n = g.data.take n := by
  unfold G0.view at hn ⊢
  cases hl : g.limit with
  | none => rfl
  | some l => simp [hl, List.length_take] at hn ⊢; rw [List.take_take]; congr 1; omega

theorem limit_ok (g : G0) (n : Nat) (hn : n ≤ g.view.length) :
    (match g.limit with | some l => decide (l < n) | none => false) = false := by
  cases hl : g.limit with
  | none => rfl
  | some l => have := view_le_limit g l hl; simp; omega

/-! ### success direction: what the grammar accepts, the loop walks over -/

section success
variable {σ : Type} (c : Cons) (filter : σ → Tag → Bool → Nat → Option σ)

/-- a value at the current position, below any stack of open values -/
def SV (f : Nat) : Prop := ∀ (stack : Stack) (st : σ) (g : G0) (N : Nat) (t : Tree) (rest : Bytes),
  g.frames = [] → parseValue (toM c.mode) f g.view = some (t, rest) →
  runG0 (skipLoop c filter (N + hdrs t) stack st) g =
    thenK (runFilter filter st (preorder t stack.length))
      (fun st' => runG0 (afterK c filter N stack st') (g.adv (g.view.length - rest.length)))

/-- the remaining content of the definite value on top of the stack -/
def SD (f : Nat) : Prop := ∀ (stack : Stack) (st : σ) (g : G0) (N : Nat) (lim : Option Nat) (l : Nat)
    (kids : List Tree),
  g.frames = [] → g.limit = some l → l ≤ g.data.length → parseAll (toM c.mode) f g.view = some kids →
  runG0 (afterK c filter (N + hdrsL kids) (some lim :: stack) st) g =
    thenK (runFilter filter st (preorderL kids (stack.length + 1)))
      (fun st' => runG0 (afterK c filter N stack st') ⟨g.data.drop l, lim, []⟩)

/-- the remaining content of the indefinite value on top of the stack, end-of-contents included -/
def SI (f : Nat) : Prop := ∀ (stack : Stack) (st : σ) (g : G0) (N : Nat) (kids : List Tree) (rest : Bytes),
  g.frames = [] → parseUntilEoc (toM c.mode) f g.view = some (kids, rest) →
  runG0 (skipLoop c filter (N + hdrsL kids + 1) (none :: stack) st) g =
    thenK (runFilter filter st (preorderL kids (stack.length + 1)))
      (fun st' => runG0 (afterK c filter N stack st') (g.adv (g.view.length - rest.length)))

theorem sv_step (f : Nat) (hD : SD c filter f) (hI : SI c filter f) : SV c filter (f + 1) := by
  intro stack st g N t rest hf hp
  simp only [parseValue] at hp
  cases hri : readIdent g.view with
  | none => simp [hri] at hp
  | some r =>
    obtain ⟨id, k⟩ := r
    simp only [hri] at hp
    by_cases he : isEocIdent id = true
    · simp [he] at hp
    · have he' : isEocIdent id = false := by simpa using he
      simp only [he', Bool.false_eq_true, if_false] at hp
      cases hrl : readLen (toM c.mode).isBer (g.view.drop k) with
      | none => simp [hrl] at hp
      | some r2 =>
        obtain ⟨len?, kl⟩ := r2
        simp only [hrl] at hp
        obtain ⟨hH, hv2, hsum, hk1⟩ := headerF_of c.mode g id k len? kl hri hrl
        have hvne : ¬ (stack = [] ∧ c.state = .unbounded ∧ g.view = []) :=
          fun h => view_nonempty_of_ident _ _ _ hri h.2.2
        have hstep : ∀ M, runG0 (skipLoop c filter (M + 1) stack st) g =
            sbodyF c filter M stack st (g.adv (k + kl)) id len? := by
          intro M; rw [skip_step _ _ _ _ _ _ hf]; unfold stepF; simp only [hvne, if_false, hH]
        have hvl2 : (g.adv (k + kl)).view.length = g.view.length - (k + kl) := by
          rw [hv2, List.length_drop]
        cases len? with
        | some n =>
          simp only at hp
          by_cases hshort : (g.view.drop (k + kl)).length < n
          · simp only [hshort, if_true] at hp; cases hp
          · simp only [hshort, if_false] at hp
            have hn2 : n ≤ (g.adv (k + kl)).view.length := by
              rw [hv2]; omega
            have hadv : g.adv (g.view.length - ((g.view.drop (k + kl)).drop n).length) = (g.adv (k + kl)).adv n := by
              rw [G0.adv_adv]; congr 1
              simp only [List.length_drop] at hshort ⊢; omega
            by_cases hcons : id.constructed = true
            · simp only [hcons, Bool.not_true, Bool.false_eq_true, if_false] at hp
              by_cases hcer : (toM c.mode == .cer) = true
              · simp [hcer] at hp
              · simp only [hcer, Bool.false_eq_true, if_false] at hp
                cases hpa : parseAll (toM c.mode) f ((g.view.drop (k + kl)).take n) with
                | none => simp [hpa] at hp
                | some kids =>
                  simp only [hpa, Option.some.injEq, Prod.mk.injEq] at hp
                  obtain ⟨ht, hrest⟩ := hp
                  subst ht; subst hrest
                  have hfuel : N + hdrs (.cons id false kids) = (N + hdrsL kids) + 1 := by
                    simp [hdrs] <;> omega
                  rw [hfuel, hstep, hadv]
                  rw [toM_cer] at hcer
                  unfold sbodyF
                  simp only [he', Bool.false_eq_true, if_false, preorder, runFilter]
                  simp only [hcons, if_true, hcer, Bool.false_eq_true, if_false]
                  cases filter st (C12.tagOf id.cls id.num) true stack.length with
                  | none => rfl
                  | some st' =>
                    simp only [thenK, limit_ok _ n hn2, Bool.false_eq_true, if_false]
                    have hle := (g.adv (k + kl)).view_length_le
                    have := hD stack st' { g.adv (k + kl) with limit := some n } N
                      ((g.adv (k + kl)).limit.map (· - n)) n kids rfl rfl (by show n ≤ (g.adv (k + kl)).data.length; omega)
                      (by
                        show parseAll (toM c.mode) f ((g.adv (k + kl)).data.take n) = some kids
                        rw [← take_view _ n hn2, hv2]; exact hpa)
                    rw [this]
                    rfl
            · simp only [hcons, Bool.not_false, if_true, Option.some.injEq, Prod.mk.injEq] at hp
              obtain ⟨ht, hrest⟩ := hp
              subst ht; subst hrest
              have hfuel : N + hdrs (.prim id ((g.view.drop (k + kl)).take n)) = N + 1 := by simp [hdrs]
              rw [hfuel, hstep, hadv]
              unfold sbodyF
              simp only [he', Bool.false_eq_true, if_false, preorder, runFilter]
              simp only [hcons, Bool.false_eq_true, if_false]
              cases filter st (C12.tagOf id.cls id.num) false stack.length with
              | none => rfl
              | some st' => simp only [thenK, hn2, if_true]
        | none =>
          simp only at hp
          by_cases h1 : (!id.constructed || toM c.mode == .der) = true
          · simp [h1] at hp
          · simp only [h1, Bool.false_eq_true, if_false] at hp
            cases hpe : parseUntilEoc (toM c.mode) f (g.view.drop (k + kl)) with
            | none => simp [hpe] at hp
            | some r3 =>
              obtain ⟨kids, rest'⟩ := r3
              simp only [hpe, Option.some.injEq, Prod.mk.injEq] at hp
              obtain ⟨ht, hrest⟩ := hp
              subst ht; subst hrest
              obtain ⟨j, hj, hrj⟩ := (suffix_lemma (toM c.mode) f).2 _ _ _ hpe
              simp only [List.length_drop] at hj
              have hfuel : N + hdrs (.cons id true kids) = (N + hdrsL kids + 1) + 1 := by
                simp [hdrs] <;> omega
              rw [hfuel, hstep]
              rw [toM_der] at h1
              unfold sbodyF
              simp only [he', Bool.false_eq_true, if_false, preorder, runFilter, h1]
              have hcons : id.constructed = true := by
                cases hc' : id.constructed <;> simp [hc'] at h1 ⊢
              simp only [hcons]
              cases filter st (C12.tagOf id.cls id.num) true stack.length with
              | none => rfl
              | some st' =>
                simp only [thenK]
                have := hI stack st' (g.adv (k + kl)) N kids rest' rfl (by rw [hv2]; exact hpe)
                rw [this, G0.adv_adv]
                have e : k + kl + ((g.adv (k + kl)).view.length - rest'.length) = g.view.length - rest'.length := by
                  rw [hvl2, hrj]; simp only [List.length_drop]; omega
                rw [e]
                rfl


theorem with_limit_eq (g : G0) (hf : g.frames = []) (lim : Option Nat) :
    ({ g with limit := lim } : G0) = ⟨g.data.drop 0, lim, []⟩ := by
  cases g with
  | mk d l fr => simp at hf; subst hf; rfl

theorem untilEoc_nonempty (m : M) (f : Nat) (v : Bytes) (x : List Tree × Bytes)
    (h : parseUntilEoc m f v = some x) : v ≠ [] := by
  intro hv; subst hv
  cases f <;> simp [parseUntilEoc, readIdent] at h

theorem sd_step (f : Nat) (hV : SV c filter f) (hD : SD c filter f) : SD c filter (f + 1) := by
  intro stack st g N lim l kids hf hl hle hp
  simp only [parseAll] at hp
  rw [run_afterK_def]
  by_cases hemp : g.view.isEmpty = true
  · simp only [hemp, if_true, Option.some.injEq] at hp
    subst hp
    have hl0 : l = 0 := by
      have h1 := view_len g
      rw [hl] at h1
      have h2 : g.view.length = 0 := by
        cases hv : g.view with
        | nil => rfl
        | cons b r => rw [hv] at hemp; simp at hemp
      simp only at h1
      omega
    subst hl0
    simp only [hl, if_true, hdrsL, Nat.add_zero, preorderL, runFilter, thenK]
    rw [with_limit_eq g hf]
  · simp only [hemp, Bool.false_eq_true, if_false] at hp
    have hvne : g.view ≠ [] := by
      intro hv; rw [hv] at hemp; simp at hemp
    simp only [limit_ne_zero_of_view g hvne, if_false]
    cases hpv : parseValue (toM c.mode) f g.view with
    | none => simp [hpv] at hp
    | some r =>
      obtain ⟨t, rest1⟩ := r
      simp only [hpv] at hp
      cases hpa : parseAll (toM c.mode) f rest1 with
      | none => simp [hpa] at hp
      | some ts =>
        simp only [hpa, Option.map, Option.some.injEq] at hp
        subst hp
        obtain ⟨n1, hn1, hr1⟩ := (suffix_lemma (toM c.mode) f).1 _ _ _ hpv
        have hfuel : N + hdrsL (t :: ts) = (N + hdrsL ts) + hdrs t := by
          simp only [hdrsL]; omega
        rw [hfuel, hV (some lim :: stack) st g (N + hdrsL ts) t rest1 hf hpv]
        simp only [preorderL, thenK_append, List.length_cons]
        congr 1
        funext st'
        have hlen : g.view.length - rest1.length = n1 := by
          rw [hr1, List.length_drop]; omega
        rw [hlen]
        have hvl := view_le_limit g l hl
        have hvn : (g.adv n1).view = rest1 := by rw [G0.adv_view g n1 hn1, hr1]
        have := hD stack st' (g.adv n1) N lim (l - n1) ts rfl
          (by show g.limit.map (· - n1) = some (l - n1); rw [hl]; rfl)
          (by show l - n1 ≤ (g.data.drop n1).length; rw [List.length_drop]; omega)
          (by rw [hvn]; exact hpa)
        rw [this]
        have hd : (g.adv n1).data.drop (l - n1) = g.data.drop l := by
          show (g.data.drop n1).drop (l - n1) = g.data.drop l
          rw [List.drop_drop]; congr 1; omega
        rw [hd]

theorem si_step (f : Nat) (hV : SV c filter f) (hI : SI c filter f) : SI c filter (f + 1) := by
  intro stack st g N kids rest hf hp
  simp only [parseUntilEoc] at hp
  cases hri : readIdent g.view with
  | none => simp [hri] at hp
  | some r =>
    obtain ⟨id, k⟩ := r
    simp only [hri] at hp
    by_cases he : isEocIdent id = true
    · simp only [he, if_true] at hp
      by_cases hcn : id.constructed = true
      · simp [hcn] at hp
      · simp only [hcn, Bool.false_eq_true, if_false] at hp
        cases hrl : readLen (toM c.mode).isBer (g.view.drop k) with
        | none => simp [hrl] at hp
        | some r2 =>
          obtain ⟨len?, kl⟩ := r2
          rw [hrl] at hp
          obtain ⟨hH, hv2, hsum, hk1⟩ := headerF_of c.mode g id k len? kl hri hrl
          cases len? with
          | none => simp at hp
          | some n =>
            cases n with
            | succ n' => simp at hp
            | zero =>
              simp only [Option.some.injEq, Prod.mk.injEq] at hp
              obtain ⟨hk, hrest⟩ := hp
              subst hk; subst hrest
              have hfuel : N + hdrsL [] + 1 = N + 1 := by simp [hdrsL]
              rw [hfuel, skip_step _ _ _ _ _ _ hf]
              unfold stepF
              simp only [reduceCtorEq, false_and, if_false, hH]
              unfold sbodyF
              simp only [he, if_true, hcn, Bool.false_eq_true, if_false, ne_eq, not_true_eq_false,
                preorderL, runFilter, thenK]
              congr 2
              simp only [List.length_drop]; omega
    · have he' : isEocIdent id = false := by simpa using he
      simp only [he', Bool.false_eq_true, if_false] at hp
      cases hpv : parseValue (toM c.mode) f g.view with
      | none => simp [hpv] at hp
      | some r =>
        obtain ⟨t, rest1⟩ := r
        simp only [hpv] at hp
        cases hpe : parseUntilEoc (toM c.mode) f rest1 with
        | none => simp [hpe] at hp
        | some r3 =>
          obtain ⟨ts, rest'⟩ := r3
          simp only [hpe, Option.some.injEq, Prod.mk.injEq] at hp
          obtain ⟨hk, hrest⟩ := hp
          subst hk; subst hrest
          obtain ⟨n1, hn1, hr1⟩ := (suffix_lemma (toM c.mode) f).1 _ _ _ hpv
          obtain ⟨n2, hn2, hr2⟩ := (suffix_lemma (toM c.mode) f).2 _ _ _ hpe
          have hfuel : N + hdrsL (t :: ts) + 1 = (N + hdrsL ts + 1) + hdrs t := by
            simp only [hdrsL]; omega
          rw [hfuel, hV (none :: stack) st g (N + hdrsL ts + 1) t rest1 hf hpv]
          simp only [preorderL, thenK_append, List.length_cons]
          congr 1
          funext st'
          have hlen : g.view.length - rest1.length = n1 := by
            rw [hr1, List.length_drop]; omega
          rw [hlen]
          have hvn : (g.adv n1).view = rest1 := by rw [G0.adv_view g n1 hn1, hr1]
          have hne : (g.adv n1).view ≠ [] := by
            rw [hvn]; exact untilEoc_nonempty _ _ _ _ hpe
          rw [run_afterK_indef]
          simp only [limit_ne_zero_of_view _ hne, if_false]
          have := hI stack st' (g.adv n1) N ts rest' rfl (by rw [hvn]; exact hpe)
          rw [this, G0.adv_adv, hvn]
          have e : n1 + (rest1.length - rest'.length) = g.view.length - rest'.length := by
            rw [hr2, hr1] at *
            simp only [List.length_drop] at *
            omega
          rw [e]

theorem success_all : ∀ f, SV c filter f ∧ SD c filter f ∧ SI c filter f := by
  intro f
  induction f with
  | zero =>
    refine ⟨?_, ?_, ?_⟩
    · intro stack st g N t rest _ hp; simp [parseValue] at hp
    · intro stack st g N lim l kids _ _ _ hp; simp [parseAll] at hp
    · intro stack st g N kids rest _ hp; simp [parseUntilEoc] at hp
  | succ f ih =>
    obtain ⟨hV, hD, hI⟩ := ih
    exact ⟨sv_step c filter f hD hI, sd_step c filter f hV hD, si_step c filter f hV hI⟩

end success

/-! ### more fuel never hurts the grammar -/

theorem parse_mono1 (m : M) : ∀ f,
    (∀ v x, parseValue m f v = some x → parseValue m (f + 1) v = some x) ∧
    (∀ v x, parseAll m f v = some x → parseAll m (f + 1) v = some x) ∧
    (∀ v x, parseUntilEoc m f v = some x → parseUntilEoc m (f + 1) v = some x) := by
  intro f
  induction f with
  | zero =>
    exact ⟨fun v x h => by simp [parseValue] at h, fun v x h => by simp [parseAll] at h,
      fun v x h => by simp [parseUntilEoc] at h⟩
  | succ f ih =>
    obtain ⟨ihV, ihA, ihE⟩ := ih
    refine ⟨?_, ?_, ?_⟩
    · intro v x h
      rw [parseValue] at h ⊢
      cases hr : readIdent v with
      | none => simp [hr] at h
      | some r =>
        obtain ⟨id, k⟩ := r
        simp only [hr] at h ⊢
        by_cases he : isEocIdent id = true
        · simp [he] at h
        · simp only [he] at h ⊢
          cases hl : readLen m.isBer (v.drop k) with
          | none => simp [hl] at h
          | some r2 =>
            obtain ⟨len?, kl⟩ := r2
            simp only [hl] at h ⊢
            cases len? with
            | some n =>
              simp only at h ⊢
              by_cases h1 : (v.drop (k + kl)).length < n
              · simp only [h1, if_true] at h; cases h
              · simp only [h1, if_false] at h ⊢
                by_cases h2 : id.constructed = true
                · simp only [h2, Bool.not_true, Bool.false_eq_true, if_false] at h ⊢
                  by_cases h3 : (m == .cer) = true
                  · simp [h3] at h
                  · simp only [h3, Bool.false_eq_true, if_false] at h ⊢
                    cases hpa : parseAll m f ((v.drop (k + kl)).take n) with
                    | none => simp [hpa] at h
                    | some kids => rw [ihA _ _ hpa]; simpa [hpa] using h
                · simpa [h2] using h
            | none =>
              simp only at h ⊢
              by_cases h1 : (!id.constructed || m == .der) = true
              · simp [h1] at h
              · simp only [h1, Bool.false_eq_true, if_false] at h ⊢
                cases hpe : parseUntilEoc m f (v.drop (k + kl)) with
                | none => simp [hpe] at h
                | some r3 => rw [ihE _ _ hpe]; simpa [hpe] using h
    · intro v x h
      rw [parseAll] at h ⊢
      by_cases hemp : v.isEmpty = true
      · simpa [hemp] using h
      · simp only [hemp, Bool.false_eq_true, if_false] at h ⊢
        cases hpv : parseValue m f v with
        | none => simp [hpv] at h
        | some r =>
          obtain ⟨t, rest⟩ := r
          rw [ihV _ _ hpv]
          simp only [hpv] at h ⊢
          cases hpa : parseAll m f rest with
          | none => simp [hpa] at h
          | some ts => rw [ihA _ _ hpa]; simpa [hpa] using h
    · intro v x h
      rw [parseUntilEoc] at h ⊢
      cases hr : readIdent v with
      | none => simp [hr] at h
      | some r =>
        obtain ⟨id, k⟩ := r
        simp only [hr] at h ⊢
        by_cases he : isEocIdent id = true
        · simpa [he] using h
        · simp only [he] at h ⊢
          cases hpv : parseValue m f v with
          | none => simp [hpv] at h
          | some r =>
            obtain ⟨t, rest⟩ := r
            rw [ihV _ _ hpv]
            simp only [hpv] at h ⊢
            cases hpe : parseUntilEoc m f rest with
            | none => simp [hpe] at h
            | some r3 => rw [ihE _ _ hpe]; simpa [hpe] using h

theorem parseValue_mono (m : M) (f f' : Nat) (h : f ≤ f') (v : Bytes) (x) (hp : parseValue m f v = some x) :
    parseValue m f' v = some x := by
  induction h with
  | refl => exact hp
  | step _ ih => exact (parse_mono1 m _).1 _ _ ih
theorem parseAll_mono (m : M) (f f' : Nat) (h : f ≤ f') (v : Bytes) (x) (hp : parseAll m f v = some x) :
    parseAll m f' v = some x := by
  induction h with
  | refl => exact hp
  | step _ ih => exact (parse_mono1 m _).2.1 _ _ ih
theorem parseUntilEoc_mono (m : M) (f f' : Nat) (h : f ≤ f') (v : Bytes) (x) (hp : parseUntilEoc m f v = some x) :
    parseUntilEoc m f' v = some x := by
  induction h with
  | refl => exact hp
  | step _ ih => exact (parse_mono1 m _).2.2 _ _ ih

/-- more fuel does not change the size of the end-of-contents marker the grammar stops at -/
theorem eocLen_mono (m : M) : ∀ (f f' : Nat) (v : Bytes) (x), f ≤ f' → parseUntilEoc m f v = some x →
    eocLen m f' v = eocLen m f v := by
  intro f
  induction f with
  | zero => intro f' v x _ hp; simp [parseUntilEoc] at hp
  | succ f ih =>
    intro f' v x hle hp
    obtain ⟨f'', rfl⟩ : ∃ f'', f' = f'' + 1 := ⟨f' - 1, by omega⟩
    simp only [parseUntilEoc] at hp
    simp only [eocLen]
    cases hri : readIdent v with
    | none => rfl
    | some r =>
      obtain ⟨id, k⟩ := r
      simp only [hri] at hp ⊢
      by_cases he : isEocIdent id = true
      · simp only [he, if_true]
      · simp only [he, Bool.false_eq_true, if_false] at hp ⊢
        cases hpv : parseValue m f v with
        | none => simp [hpv] at hp
        | some r2 =>
          obtain ⟨t, rest1⟩ := r2
          simp only [hpv] at hp
          rw [parseValue_mono m f f'' (by omega) v _ hpv]
          simp only
          cases hpe : parseUntilEoc m f rest1 with
          | none => simp [hpe] at hp
          | some r3 => exact ih f'' rest1 r3 (by omega) hpe

theorem adv_data_len (g : G0) (n : Nat) (h : n ≤ g.view.length) :
    g.data.length - (g.adv n).data.length = n := by
  have := G0.view_length_le g
  simp only [G0.adv, List.length_drop]; omega

theorem parseValue_ident (m : M) (f : Nat) (v : Bytes) (x : Tree × Bytes) (h : parseValue m f v = some x) :
    ∃ id k, readIdent v = some (id, k) ∧ isEocIdent id = false := by
  cases f with
  | zero => simp [parseValue] at h
  | succ f =>
    rw [parseValue] at h
    cases hr : readIdent v with
    | none => simp [hr] at h
    | some r =>
      obtain ⟨id, k⟩ := r
      simp only [hr] at h
      by_cases he : isEocIdent id = true
      · simp [he] at h
      · exact ⟨id, k, rfl, by simpa using he⟩

/-! ### converse direction: what the loop walks over, the grammar accepts -/

section converse
variable {σ : Type} (c : Cons) (filter : σ → Tag → Bool → Nat → Option σ)

/-- a successful run from the start of an iteration either reports absence (empty stack), or reads
    the end-of-contents of the indefinite value on top of the stack, or factors through the end of
    a value the grammar accepts -/
def CV (N : Nat) : Prop := ∀ (stack : Stack) (st : σ) (g : G0) (r : Option Unit × Cons × σ) (g' : G0),
  g.frames = [] → runG0 (skipLoop c filter N stack st) g = .ok (r, g') →
  (stack = [] ∧ r.1 = none ∧ ∀ id k, readIdent g.view = some (id, k) → isEocIdent id = true) ∨
  (∃ rest0 id k, stack = none :: rest0 ∧ readIdent g.view = some (id, k) ∧ isEocIdent id = true) ∨
  (∃ f t rest st' N', parseValue (toM c.mode) f g.view = some (t, rest) ∧ N = N' + hdrs t ∧
     runFilter filter st (preorder t stack.length) = some st' ∧
     runG0 (afterK c filter N' stack st') (g.adv (g.view.length - rest.length)) = .ok (r, g'))

def CD (N : Nat) : Prop := ∀ (stack : Stack) (st : σ) (g : G0) (r : Option Unit × Cons × σ) (g' : G0)
    (lim : Option Nat) (l : Nat),
  g.frames = [] → g.limit = some l →
  runG0 (afterK c filter N (some lim :: stack) st) g = .ok (r, g') →
  ∃ f kids st' N', l ≤ g.data.length ∧ parseAll (toM c.mode) f g.view = some kids ∧ N = N' + hdrsL kids ∧
    runFilter filter st (preorderL kids (stack.length + 1)) = some st' ∧
    runG0 (afterK c filter N' stack st') ⟨g.data.drop l, lim, []⟩ = .ok (r, g')

def CI (N : Nat) : Prop := ∀ (stack : Stack) (st : σ) (g : G0) (r : Option Unit × Cons × σ) (g' : G0),
  g.frames = [] → runG0 (skipLoop c filter N (none :: stack) st) g = .ok (r, g') →
  ∃ f kids rest st' N', parseUntilEoc (toM c.mode) f g.view = some (kids, rest) ∧ N = N' + hdrsL kids + 1 ∧
    runFilter filter st (preorderL kids (stack.length + 1)) = some st' ∧
    runG0 (afterK c filter N' stack st') (g.adv (g.view.length - rest.length)) = .ok (r, g')

theorem cv_step (N : Nat) (hD : CD c filter N) (hI : CI c filter N) : CV c filter (N + 1) := by
  intro stack st g r g' hf h
  rw [skip_step _ _ _ _ _ _ hf] at h
  unfold stepF at h
  by_cases hne : stack = [] ∧ c.state = .unbounded ∧ g.view = []
  · simp only [hne, and_self, if_true, Except.ok.injEq, Prod.mk.injEq] at h
    left
    exact ⟨hne.1, by rw [← h.1], fun id k hr => by rw [hne.2.2] at hr; simp [readIdent] at hr⟩
  · simp only [hne, if_false] at h
    cases hri : readIdent g.view with
    | none => rw [headerF_none_ident _ _ hri] at h; cases h
    | some r1 =>
      obtain ⟨id, k⟩ := r1
      cases hrl : readLen (toM c.mode).isBer (g.view.drop k) with
      | none => rw [headerF_none_len _ _ _ _ hri hrl] at h; cases h
      | some r2 =>
        obtain ⟨len?, kl⟩ := r2
        obtain ⟨hH, hv2, hsum, hk1⟩ := headerF_of c.mode g id k len? kl hri hrl
        simp only [hH] at h
        have hvl2 : (g.adv (k + kl)).view.length = g.view.length - (k + kl) := by
          rw [hv2, List.length_drop]
        unfold sbodyF at h
        by_cases he : isEocIdent id = true
        · simp only [he, if_true] at h
          cases stack with
          | nil =>
            left
            refine ⟨rfl, ?_, fun id' k' hr => by cases hr; exact he⟩
            by_cases hcn : id.constructed = true
            · simp [hcn] at h
            · by_cases hz : len? = some 0
              · by_cases hi : c.state = .indefinite
                · simp [hcn, hz, hi] at h; rw [← h.1]
                · simp [hcn, hz, hi] at h
              · simp [hcn, hz] at h
          | cons top rest0 =>
            cases top with
            | none => right; left; exact ⟨rest0, id, k, rfl, rfl, he⟩
            | some lim =>
              by_cases hcn : id.constructed = true
              · simp [hcn] at h
              · by_cases hz : len? = some 0
                · simp [hcn, hz] at h
                · simp [hcn, hz] at h
        · have he' : isEocIdent id = false := by simpa using he
          simp only [he', Bool.false_eq_true, if_false] at h
          right; right
          cases len? with
          | some n =>
            simp only at h
            by_cases hcons : id.constructed = true
            · simp only [hcons, if_true] at h
              by_cases hcer : (c.mode == .cer) = true
              · simp [hcer] at h
              · simp only [hcer, Bool.false_eq_true, if_false] at h
                cases hfil : filter st (C12.tagOf id.cls id.num) true stack.length with
                | none => simp [hfil] at h
                | some st1 =>
                  simp only [hfil] at h
                  by_cases hlim : (match (g.adv (k + kl)).limit with | some l => decide (l < n) | none => false) = true
                  · simp [hlim] at h
                  · simp only [hlim, Bool.false_eq_true, if_false] at h
                    obtain ⟨f, kids, st2, N2, hle, hpa, hN, hfil2, hrun⟩ :=
                      hD stack st1 { g.adv (k + kl) with limit := some n } r g' _ n rfl rfl h
                    have hle' : n ≤ (g.adv (k + kl)).data.length := hle
                    have hn2 : n ≤ (g.adv (k + kl)).view.length := by
                      have h1 := view_len (g.adv (k + kl))
                      cases hl : (g.adv (k + kl)).limit with
                      | none => rw [hl] at h1; simp only at h1; omega
                      | some l =>
                        rw [hl] at h1 hlim
                        simp only [decide_eq_true_eq] at hlim h1
                        omega
                    have hpa' : parseAll (toM c.mode) f ((g.view.drop (k + kl)).take n) = some kids := by
                      rw [← hv2, take_view _ n hn2]; exact hpa
                    have hns : ¬ (g.view.drop (k + kl)).length < n := by
                      rw [← hv2]; omega
                    have hcer' : (toM c.mode == M.cer) = false := by rw [toM_cer]; simpa using hcer
                    refine ⟨f + 1, .cons id false kids, (g.view.drop (k + kl)).drop n, st2, N2, ?_, ?_, ?_, ?_⟩
                    · simp only [parseValue, hri, he', hrl, hns, hcons, hcer', hpa', Bool.false_eq_true, if_false,
                        Bool.not_true]
                    · simp [hdrs]; omega
                    · simp only [preorder, runFilter, hcons, hfil, hfil2]
                    · have hadv : g.adv (g.view.length - ((g.view.drop (k + kl)).drop n).length) = (g.adv (k + kl)).adv n := by
                        rw [G0.adv_adv]; congr 1
                        simp only [List.length_drop] at hns ⊢; omega
                      rw [hadv]
                      exact hrun
            · simp only [hcons, Bool.false_eq_true, if_false] at h
              cases hfil : filter st (C12.tagOf id.cls id.num) false stack.length with
              | none => simp [hfil] at h
              | some st1 =>
                simp only [hfil] at h
                by_cases hn2 : n ≤ (g.adv (k + kl)).view.length
                · simp only [hn2, if_true] at h
                  have hns : ¬ (g.view.drop (k + kl)).length < n := by
                    rw [← hv2]; omega
                  refine ⟨1, .prim id ((g.view.drop (k + kl)).take n), (g.view.drop (k + kl)).drop n, st1, N, ?_, ?_, ?_, ?_⟩
                  · simp only [parseValue, hri, he', hrl, hns, hcons, Bool.false_eq_true, if_false,
                      Bool.not_false, if_true]
                  · simp [hdrs]
                  · simp only [preorder, runFilter, hcons, hfil]
                  · have hadv : g.adv (g.view.length - ((g.view.drop (k + kl)).drop n).length) = (g.adv (k + kl)).adv n := by
                      rw [G0.adv_adv]; congr 1
                      simp only [List.length_drop] at hns ⊢; omega
                    rw [hadv]
                    exact h
                · simp [hn2] at h
          | none =>
            simp only at h
            by_cases h1 : (!id.constructed || c.mode == .der) = true
            · simp [h1] at h
            · simp only [h1, Bool.false_eq_true, if_false] at h
              have hcons : id.constructed = true := by
                cases hc' : id.constructed <;> simp [hc'] at h1 ⊢
              cases hfil : filter st (C12.tagOf id.cls id.num) id.constructed stack.length with
              | none => simp [hfil] at h
              | some st1 =>
                simp only [hfil] at h
                obtain ⟨f, kids, rest', st2, N2, hpe, hN, hfil2, hrun⟩ := hI stack st1 (g.adv (k + kl)) r g' rfl h
                rw [hv2] at hpe
                obtain ⟨j, hj, hrj⟩ := (suffix_lemma (toM c.mode) f).2 _ _ _ hpe
                simp only [List.length_drop] at hj
                have h1' : (!id.constructed || toM c.mode == M.der) = false := by
                  rw [toM_der]; simpa using h1
                refine ⟨f + 1, .cons id true kids, rest', st2, N2, ?_, ?_, ?_, ?_⟩
                · simp only [parseValue, hri, he', hrl, h1', hpe, Bool.false_eq_true, if_false]
                · simp [hdrs]; omega
                · simp only [preorder, runFilter, hfil, hfil2]
                · rw [G0.adv_adv] at hrun
                  have e : k + kl + ((g.adv (k + kl)).view.length - rest'.length) = g.view.length - rest'.length := by
                    rw [hvl2, hrj]; simp only [List.length_drop]; omega
                  rw [e] at hrun
                  exact hrun


theorem cd_step (N : Nat) (hV : CV c filter N) (ih : ∀ N', N' < N → CD c filter N') : CD c filter N := by
  intro stack st g r g' lim l hf hl h
  rw [run_afterK_def] at h
  by_cases hl0 : l = 0
  · subst hl0
    simp only [hl, if_true] at h
    refine ⟨1, [], st, N, Nat.zero_le _, ?_, by simp [hdrsL], by simp [preorderL, runFilter], ?_⟩
    · have : g.view = [] := by simp [G0.view, hl]
      simp [parseAll, this]
    · rw [← with_limit_eq g hf]; exact h
  · have hne0 : ¬ g.limit = some 0 := by rw [hl]; simpa using hl0
    simp only [hne0, if_false] at h
    rcases hV _ st g r g' hf h with ⟨h1, _⟩ | ⟨rest0, id, k, h1, _⟩ | ⟨f, t, rest, st1, N1, hpv, hN, hfil, hrun⟩
    · cases h1
    · cases h1
    · obtain ⟨n1, hn1, hr1⟩ := (suffix_lemma (toM c.mode) f).1 _ _ _ hpv
      have hlen : g.view.length - rest.length = n1 := by
        rw [hr1, List.length_drop]; omega
      rw [hlen] at hrun
      have hpos := hdrs_pos t
      have hvl := view_le_limit g l hl
      have hvd := g.view_length_le
      obtain ⟨f2, kids2, st2, N2, hle2, hpa2, hN2, hfil2, hrun2⟩ :=
        ih N1 (by omega) stack st1 (g.adv n1) r g' lim (l - n1) rfl
          (by show g.limit.map (· - n1) = some (l - n1); rw [hl]; rfl) hrun
      have hle2' : l - n1 ≤ (g.data.drop n1).length := hle2
      rw [List.length_drop] at hle2'
      have hvn : (g.adv n1).view = rest := by rw [G0.adv_view g n1 hn1, hr1]
      rw [hvn] at hpa2
      obtain ⟨id, k, hri, _⟩ := parseValue_ident _ _ _ _ hpv
      have hvne : g.view.isEmpty = false := by
        cases hv : g.view with
        | nil => rw [hv] at hri; simp [readIdent] at hri
        | cons b r => rfl
      refine ⟨max f f2 + 1, t :: kids2, st2, N2, by omega, ?_, ?_, ?_, ?_⟩
      · rw [parseAll]
        simp only [hvne, Bool.false_eq_true, if_false,
          parseValue_mono _ f (max f f2) (Nat.le_max_left _ _) _ _ hpv,
          parseAll_mono _ f2 (max f f2) (Nat.le_max_right _ _) _ _ hpa2, Option.map]
      · simp only [hdrsL]; omega
      · simp only [preorderL, runFilter_append]
        rw [show (some lim :: stack).length = stack.length + 1 from rfl] at hfil
        simp only [hfil, hfil2]
      · have hd : (g.adv n1).data.drop (l - n1) = g.data.drop l := by
          show (g.data.drop n1).drop (l - n1) = g.data.drop l
          rw [List.drop_drop]; congr 1; omega
        rw [hd] at hrun2
        exact hrun2

theorem ci_step (N : Nat) (hV : CV c filter N) (ih : ∀ N', N' < N → CI c filter N') : CI c filter N := by
  intro stack st g r g' hf h
  rcases hV _ st g r g' hf h with ⟨h1, _⟩ | ⟨rest0, id, k, _, hri, he⟩ | ⟨f, t, rest, st1, N1, hpv, hN, hfil, hrun⟩
  · cases h1
  · -- the end-of-contents octets of the value on top of the stack
    cases N with
    | zero => cases h
    | succ N0 =>
      rw [skip_step _ _ _ _ _ _ hf] at h
      unfold stepF at h
      simp only [reduceCtorEq, false_and, if_false] at h
      cases hrl : readLen (toM c.mode).isBer (g.view.drop k) with
      | none => rw [headerF_none_len _ _ _ _ hri hrl] at h; cases h
      | some r2 =>
        obtain ⟨len?, kl⟩ := r2
        obtain ⟨hH, hv2, hsum, hk1⟩ := headerF_of c.mode g id k len? kl hri hrl
        simp only [hH] at h
        unfold sbodyF at h
        simp only [he, if_true] at h
        by_cases hcn : id.constructed = true
        · simp [hcn] at h
        · by_cases hz : len? = some 0
          · subst hz
            simp only [hcn, Bool.false_eq_true, if_false, ne_eq, not_true_eq_false] at h
            refine ⟨1, [], g.view.drop (k + kl), st, N0, ?_, by simp [hdrsL], by simp [preorderL, runFilter], ?_⟩
            · simp only [parseUntilEoc, hri, he, if_true, hcn, Bool.false_eq_true, if_false, hrl]
            · have e : g.view.length - (g.view.drop (k + kl)).length = k + kl := by
                simp only [List.length_drop]; omega
              rw [e]; exact h
          · simp [hcn, hz] at h
  · obtain ⟨n1, hn1, hr1⟩ := (suffix_lemma (toM c.mode) f).1 _ _ _ hpv
    have hlen : g.view.length - rest.length = n1 := by
      rw [hr1, List.length_drop]; omega
    rw [hlen, run_afterK_indef] at hrun
    by_cases hl0 : (g.adv n1).limit = some 0
    · simp [hl0] at hrun
    · simp only [hl0, if_false] at hrun
      have hpos := hdrs_pos t
      obtain ⟨f2, kids2, rest2, st2, N2, hpe2, hN2, hfil2, hrun2⟩ :=
        ih N1 (by omega) stack st1 (g.adv n1) r g' rfl hrun
      have hvn : (g.adv n1).view = rest := by rw [G0.adv_view g n1 hn1, hr1]
      rw [hvn] at hpe2 hrun2
      obtain ⟨n2, hn2, hr2⟩ := (suffix_lemma (toM c.mode) f2).2 _ _ _ hpe2
      obtain ⟨id, k, hri, he⟩ := parseValue_ident _ _ _ _ hpv
      refine ⟨max f f2 + 1, t :: kids2, rest2, st2, N2, ?_, ?_, ?_, ?_⟩
      · rw [parseUntilEoc]
        simp only [hri, he, Bool.false_eq_true, if_false,
          parseValue_mono _ f (max f f2) (Nat.le_max_left _ _) _ _ hpv,
          parseUntilEoc_mono _ f2 (max f f2) (Nat.le_max_right _ _) _ _ hpe2]
      · simp only [hdrsL]; omega
      · simp only [preorderL, runFilter_append]
        rw [show (none :: stack : Stack).length = stack.length + 1 from rfl] at hfil
        simp only [hfil, hfil2]
      · rw [G0.adv_adv] at hrun2
        have e : n1 + (rest.length - rest2.length) = g.view.length - rest2.length := by
          rw [hr2, hr1] at *
          simp only [List.length_drop] at *
          omega
        rw [e] at hrun2
        exact hrun2

theorem converse_all : ∀ N, CV c filter N ∧ CD c filter N ∧ CI c filter N := by
  intro N
  induction N using Nat.strongRecOn with
  | ind N ih =>
    have hCV : CV c filter N := by
      cases N with
      | zero => intro stack st g r g' _ h; cases h
      | succ N0 => exact cv_step c filter N0 (ih N0 (Nat.lt_succ_self _)).2.1 (ih N0 (Nat.lt_succ_self _)).2.2
    exact ⟨hCV, cd_step c filter N hCV (fun N' h => (ih N' h).2.1),
      ci_step c filter N hCV (fun N' h => (ih N' h).2.2)⟩

end converse


/-! ## The property: `skip_opt` on a `Constructed` -/

theorem runFilter_acceptAll (l : List (Ident × Nat)) : runFilter acceptAll () l = some () := by
  induction l with
  | nil => rfl
  | cons x l ih => obtain ⟨id, d⟩ := x; simp only [runFilter, acceptAll]; exact ih

/-- `skip_opt` without the `eoc_len` bookkeeping (a proof device): the exhaustion test and the loop.
    `skip_opt` is this plus the two position reads (`run_skipOpt_note`). -/
def skipOpt0 (c : Cons) (filter : σ → Tag → Bool → Nat → Option σ) (st : σ) (fuel : Nat) :
    Prog (Option Unit × Cons × σ) := do
  if ← c.isExhausted then return (none, c, st)
  skipLoop c filter fuel [] st

/-- `skip_opt` before it enters its loop -/
theorem run_skipOpt0 (c : Cons) (filter : σ → Tag → Bool → Nat → Option σ) (st : σ) (N : Nat) (g : G0) :
    runG0 (skipOpt0 c filter st N) g =
      if c.state = .done then .ok ((none, c, st), g)
      else if c.state = .definite ∧ g.limit = none then .error (.panic "is_exhausted: no limit")
      else if c.state = .definite ∧ g.limit = some 0 then .ok ((none, c, st), g)
      else runG0 (skipLoop c filter N [] st) g := by
  unfold skipOpt0
  simp only [runG0_bind, run_isExhausted]
  cases hs : c.state with
  | done => simp
  | indefinite => simp
  | unbounded => simp
  | definite =>
    cases hl : g.limit with
    | none => simp
    | some l => cases l <;> simp

/-- **Skipping walks over exactly the value the grammar sees.**  On any source without open capture
    and any `Constructed` that has not ended: if the X.690 grammar of the mode finds a value `t` at
    the current position, then `skip_opt` (with at least one unit of fuel per header of `t`) hands
    the identifier (as tag and constructed flag) and depth of `t` and of every value nested in it
    to the filter, in encoding order, threading the filter's state; it fails with a content error
    if the filter rejects one of them, and otherwise returns `Some(())` with the `Constructed`
    unchanged, the final filter state, and the source advanced exactly to the end of `t`. -/
theorem skip_value0 (c : Cons) (filter : σ → Tag → Bool → Nat → Option σ) (st : σ) (g : G0)
    (hf : g.frames = []) (h1 : c.state ≠ .done) (h2 : ¬ (c.state = .definite ∧ g.limit = none))
    (f : Nat) (t : Tree) (rest : Bytes) (hp : parseValue (toM c.mode) f g.view = some (t, rest))
    (N : Nat) (hN : hdrs t ≤ N) :
    runG0 (skipOpt0 c filter st N) g =
      thenK (runFilter filter st (preorder t 0))
        (fun st' => .ok ((some (), c, st'), g.adv (g.view.length - rest.length))) := by
  obtain ⟨id, k, hri, _⟩ := parseValue_ident _ _ _ _ hp
  have hvne := view_nonempty_of_ident _ _ _ hri
  have h3 : ¬ (c.state = .definite ∧ g.limit = some 0) := fun h => limit_ne_zero_of_view g hvne h.2
  rw [run_skipOpt0]
  simp only [h1, h2, h3, if_false]
  have hfuel : N = (N - hdrs t) + hdrs t := by omega
  rw [hfuel, (success_all c filter f).1 [] st g (N - hdrs t) t rest hf hp]
  rfl

/-- **Converse.**  Whenever `skip_opt` returns `Some(())`, the grammar of the mode accepts a value at
    the current position (with some fuel, i.e. nesting depth), the fuel sufficed for its headers,
    the `Constructed` is unchanged, the source is exactly behind that value, and the filter state
    is the fold of the filter over the value's trace. -/
theorem skip_value_inv0 (c : Cons) (filter : σ → Tag → Bool → Nat → Option σ) (st : σ) (g : G0)
    (hf : g.frames = []) (N : Nat) (c' : Cons) (st' : σ) (g' : G0)
    (h : runG0 (skipOpt0 c filter st N) g = .ok ((some (), c', st'), g')) :
    ∃ f t rest, parseValue (toM c.mode) f g.view = some (t, rest) ∧ hdrs t ≤ N ∧ c' = c ∧
      g' = g.adv (g.view.length - rest.length) ∧ runFilter filter st (preorder t 0) = some st' ∧
      c.state ≠ .done ∧ ¬ (c.state = .definite ∧ g.limit = none) := by
  rw [run_skipOpt0] at h
  by_cases h1 : c.state = .done
  · simp [h1] at h
  · by_cases h2 : c.state = .definite ∧ g.limit = none
    · simp [h2] at h
    · by_cases h3 : c.state = .definite ∧ g.limit = some 0
      · simp [h3] at h
      · simp only [h1, h2, h3, if_false] at h
        rcases (converse_all c filter N).1 [] st g _ g' hf h with ⟨_, hr, _⟩ | ⟨rest0, id, k, hs, _⟩ |
          ⟨f, t, rest, st1, N1, hpv, hN, hfil, hrun⟩
        · cases hr
        · cases hs
        · rw [run_afterK_nil] at hrun
          simp only [Except.ok.injEq, Prod.mk.injEq] at hrun
          obtain ⟨⟨_, hc, hst⟩, hg⟩ := hrun
          exact ⟨f, t, rest, hpv, by omega, hc.symm, hg.symm, by rw [← hst]; exact hfil, h1, h2⟩

/-- the two directions together: `skip_opt` returns `Some(())` exactly when the grammar accepts a
    value here and the filter accepts its trace -/
theorem skip_some_iff0 (c : Cons) (filter : σ → Tag → Bool → Nat → Option σ) (st : σ) (g : G0)
    (hf : g.frames = []) (c' : Cons) (st' : σ) (g' : G0) :
    (∃ N, runG0 (skipOpt0 c filter st N) g = .ok ((some (), c', st'), g')) ↔
    (c.state ≠ .done ∧ ¬ (c.state = .definite ∧ g.limit = none) ∧
      ∃ f t rest, parseValue (toM c.mode) f g.view = some (t, rest) ∧ c' = c ∧
        g' = g.adv (g.view.length - rest.length) ∧ runFilter filter st (preorder t 0) = some st') := by
  constructor
  · rintro ⟨N, h⟩
    obtain ⟨f, t, rest, hp, _, hc, hg, hfil, h1, h2⟩ := skip_value_inv0 c filter st g hf N c' st' g' h
    exact ⟨h1, h2, f, t, rest, hp, hc, hg, hfil⟩
  · rintro ⟨h1, h2, f, t, rest, hp, hc, hg, hfil⟩
    refine ⟨hdrs t, ?_⟩
    rw [skip_value0 c filter st g hf h1 h2 f t rest hp _ (Nat.le_refl _), hfil, hc, hg]
    rfl


/-! ### absence -/

/-- `absentF` without the `eoc_len` bookkeeping -/
def absentF0 (c : Cons) (g : G0) : Option (Cons × G0) :=
  if c.state = .done then some (c, g)
  else if c.state = .definite ∧ g.limit = none then none
  else if c.state = .definite ∧ g.limit = some 0 then some (c, g)
  else if c.state = .unbounded ∧ g.view = [] then some (c, g)
  else match headerF c.mode g with
    | none => none
    | some ((id, len?), g2) =>
      if isEocIdent id = true ∧ c.state = .indefinite ∧ id.constructed = false ∧ len? = some 0 then
        some ({ c with state := .done }, g2)
      else none

/-- where an optional read of the next value reports absence, and what it leaves behind: the
    `Constructed` has ended (done / definite with limit 0 / top level with nothing in view), or it is
    indefinite and the end-of-contents octets come next (they are consumed, the state becomes done) -/
def absentF (c : Cons) (g : G0) : Option (Cons × G0) :=
  if c.state = .done then some (c, g)
  else if c.state = .definite ∧ g.limit = none then none
  else if c.state = .definite ∧ g.limit = some 0 then some (c, g)
  else if c.state = .unbounded ∧ g.view = [] then some (c, g)
  else match headerF c.mode g with
    | none => none
    | some ((id, len?), g2) =>
      if isEocIdent id = true ∧ c.state = .indefinite ∧ id.constructed = false ∧ len? = some 0 then
        some ({ c with state := .done, eoc := g.data.length - g2.data.length }, g2)
      else none

theorem bodyF_not_absent {α : Type} (c : Cons) (op : Tag → Content → Prog (α × Content)) (hd : Nat) (g2 : G0) (id : Ident)
    (len? : Option Nat) (he : isEocIdent id = false) (c' : Cons) (g' : G0) :
    bodyF c op hd g2 id len? ≠ .ok ((none, c'), g') := by
  unfold bodyF
  simp only [he, Bool.false_eq_true, if_false]
  cases len? with
  | some n =>
    simp only
    repeat' split
    all_goals simp
  | none =>
    simp only
    repeat' split
    all_goals simp

theorem ok_none_iff (c c' : Cons) (st st' : σ) (g g' : G0) :
    (Except.ok ((none, c, st), g) : Res ((Option Unit × Cons × σ) × G0)) = .ok ((none, c', st'), g') ↔
      (some (c, g) = some (c', g') ∧ st' = st) := by
  constructor
  · intro h; cases h; exact ⟨rfl, rfl⟩
  · rintro ⟨h, rfl⟩; cases h; rfl

theorem ok_none_iff' {α : Type} (c c' : Cons) (g g' : G0) :
    (Except.ok ((none, c), g) : Res ((Option α × Cons) × G0)) = .ok ((none, c'), g') ↔
      some (c, g) = some (c', g') := by
  constructor
  · intro h; cases h; rfl
  · intro h; cases h; rfl

/-- the optional generic read (`process_next_value(None, op)`, any closure) reports absence exactly
    as `absentF` says -/
theorem pnv_absent_iff {α : Type} (c : Cons) (op : Tag → Content → Prog (α × Content)) (g : G0)
    (c' : Cons) (g' : G0) :
    pnvF c op g = .ok ((none, c'), g') ↔ absentF c g = some (c', g') := by
  unfold pnvF absentF
  by_cases h1 : c.state = .done
  · simp only [if_pos h1]; exact ok_none_iff' _ _ _ _
  · by_cases h2 : c.state = .definite ∧ g.limit = none
    · simp [if_neg h1, if_pos h2]
    · by_cases h3 : c.state = .definite ∧ g.limit = some 0
      · simp only [if_neg h1, if_neg h2, if_pos h3]; exact ok_none_iff' _ _ _ _
      · by_cases h4 : c.state = .unbounded ∧ g.view = []
        · simp only [if_neg h1, if_neg h2, if_neg h3, if_pos h4]; exact ok_none_iff' _ _ _ _
        · simp only [if_neg h1, if_neg h2, if_neg h3, if_neg h4]
          cases hH : headerF c.mode g with
          | none => simp
          | some r =>
            obtain ⟨⟨id, len?⟩, g2⟩ := r
            simp only
            by_cases he : isEocIdent id = true
            · unfold bodyF
              simp only [he, if_true, true_and]
              by_cases hi : c.state = .indefinite
              · by_cases hcn : id.constructed = true
                · simp [hi, hcn]
                · by_cases hz : len? = some 0
                  · simp [hi, hcn, hz]
                  · simp [hi, hcn, hz]
              · simp [hi]
            · have he' : isEocIdent id = false := by simpa using he
              have := bodyF_not_absent c op g.data.length g2 id len? he' c' g'
              simp [this, he']

theorem headerF_ident (m : Mode) (g : G0) (id : Ident) (len? : Option Nat) (g2 : G0)
    (h : headerF m g = some ((id, len?), g2)) : ∃ k, readIdent g.view = some (id, k) := by
  unfold headerF at h
  cases hr : readIdent g.view with
  | none => simp [hr] at h
  | some r =>
    obtain ⟨id', k⟩ := r
    simp only [hr] at h
    cases hl : readLen m.isBer (g.adv k).view with
    | none => simp [hl] at h
    | some r2 =>
      obtain ⟨l2, kl⟩ := r2
      simp only [hl, Option.some.injEq, Prod.mk.injEq] at h
      exact ⟨k, by rw [h.1.1]⟩

theorem stepF_nil (c : Cons) (filter : σ → Tag → Bool → Nat → Option σ) (fuel : Nat) (st : σ) (g : G0) :
    stepF c filter fuel [] st g =
      if c.state = .unbounded ∧ g.view = [] then .ok ((none, c, st), g)
      else match headerF c.mode g with
        | none => .error .content
        | some ((id, len?), g2) => sbodyF c filter fuel [] st g2 id len? := by
  unfold stepF
  simp only [true_and]

/-- **`skip_opt` reports absence exactly where an optional read would**, leaving the same
    `Constructed` state and source, and without having called the filter -/
theorem skip_absent_iff0 (c : Cons) (filter : σ → Tag → Bool → Nat → Option σ) (st : σ) (g : G0)
    (hf : g.frames = []) (N : Nat) (hN : 1 ≤ N) (c' : Cons) (st' : σ) (g' : G0) :
    runG0 (skipOpt0 c filter st N) g = .ok ((none, c', st'), g') ↔ (absentF0 c g = some (c', g') ∧ st' = st) := by
  rw [run_skipOpt0]
  unfold absentF0
  by_cases h1 : c.state = .done
  · simp only [if_pos h1]; exact ok_none_iff _ _ _ _ _ _
  · by_cases h2 : c.state = .definite ∧ g.limit = none
    · simp [if_neg h1, if_pos h2]
    · by_cases h3 : c.state = .definite ∧ g.limit = some 0
      · simp only [if_neg h1, if_neg h2, if_pos h3]; exact ok_none_iff _ _ _ _ _ _
      · simp only [if_neg h1, if_neg h2, if_neg h3]
        obtain ⟨N0, rfl⟩ : ∃ N0, N = N0 + 1 := ⟨N - 1, by omega⟩
        constructor
        · intro h
          rcases (converse_all c filter (N0 + 1)).1 [] st g _ g' hf h with ⟨_, _, hall⟩ | ⟨rest0, id, k, hs, _⟩ |
            ⟨f, t, rest, st1, N1, hpv, hN, hfil, hrun⟩
          · rw [skip_step _ _ _ _ _ _ hf, stepF_nil] at h
            by_cases h4 : c.state = .unbounded ∧ g.view = []
            · simp only [if_pos h4] at h ⊢
              exact (ok_none_iff _ _ _ _ _ _).mp h
            · simp only [if_neg h4] at h ⊢
              cases hH : headerF c.mode g with
              | none => simp [hH] at h
              | some r =>
                obtain ⟨⟨id, len?⟩, g2⟩ := r
                obtain ⟨k, hri⟩ := headerF_ident _ _ _ _ _ hH
                have he := hall id k hri
                simp only [hH] at h ⊢
                unfold sbodyF at h
                simp only [he, if_true, true_and] at h ⊢
                by_cases hcn : id.constructed = true
                · simp [hcn] at h
                · by_cases hz : len? = some 0
                  · by_cases hi : c.state = .indefinite
                    · have hcn' : id.constructed = false := by simpa using hcn
                      have hcond : c.state = .indefinite ∧ id.constructed = false ∧ len? = some 0 := ⟨hi, hcn', hz⟩
                      simp only [if_pos hcond]
                      simp only [hcn, hz, if_pos hi, Bool.false_eq_true, if_false, ne_eq, not_true_eq_false] at h
                      exact (ok_none_iff _ _ _ _ _ _).mp h
                    · simp [hcn, hz, hi] at h
                  · simp [hcn, hz] at h
          · cases hs
          · rw [run_afterK_nil] at hrun
            simp at hrun
        · rintro ⟨h, hst⟩
          subst hst
          rw [skip_step _ _ _ _ _ _ hf, stepF_nil]
          by_cases h4 : c.state = .unbounded ∧ g.view = []
          · simp only [if_pos h4] at h ⊢
            exact (ok_none_iff _ _ _ _ _ _).mpr ⟨h, rfl⟩
          · simp only [if_neg h4] at h ⊢
            cases hH : headerF c.mode g with
            | none => simp [hH] at h
            | some r =>
              obtain ⟨⟨id, len?⟩, g2⟩ := r
              simp only [hH] at h ⊢
              by_cases hcond : isEocIdent id = true ∧ c.state = .indefinite ∧ id.constructed = false ∧ len? = some 0
              · simp only [if_pos hcond] at h
                obtain ⟨he, hi, hcn, hz⟩ := hcond
                unfold sbodyF
                simp only [he, if_true, hcn, hz, if_pos hi, Bool.false_eq_true, if_false, ne_eq, not_true_eq_false]
                exact (ok_none_iff _ _ _ _ _ _).mpr ⟨h, rfl⟩
              · simp [if_neg hcond] at h

/-- the forward direction needs no fuel assumption -/
theorem skip_absent_inv0 (c : Cons) (filter : σ → Tag → Bool → Nat → Option σ) (st : σ) (g : G0)
    (hf : g.frames = []) (N : Nat) (c' : Cons) (st' : σ) (g' : G0)
    (h : runG0 (skipOpt0 c filter st N) g = .ok ((none, c', st'), g')) : absentF0 c g = some (c', g') ∧ st' = st := by
  cases N with
  | succ N0 => exact (skip_absent_iff0 c filter st g hf (N0 + 1) (by omega) c' st' g').mp h
  | zero =>
    rw [run_skipOpt0] at h
    unfold absentF0
    by_cases h1 : c.state = .done
    · simp only [if_pos h1] at h ⊢; exact (ok_none_iff _ _ _ _ _ _).mp h
    · by_cases h2 : c.state = .definite ∧ g.limit = none
      · rw [if_neg h1, if_pos h2] at h; cases h
      · by_cases h3 : c.state = .definite ∧ g.limit = some 0
        · simp only [if_neg h1, if_neg h2, if_pos h3] at h ⊢; exact (ok_none_iff _ _ _ _ _ _).mp h
        · rw [if_neg h1, if_neg h2, if_neg h3] at h; cases h

/-! ### `skip_opt` = `skipOpt0` + the `eoc_len` bookkeeping -/

/-- what the two position reads of `skip_opt` add: if the call ended the value (the state changed,
    which only happens when the first header is the end-of-contents marker), `eoc_len` is the number
    of octets read -/
def noteC (c : Cons) (g g' : G0) (c0 : Cons) : Cons :=
  if c0.state = c.state then c0 else { c0 with eoc := g.data.length - g'.data.length }

def noteF (c : Cons) (g : G0) :
    Res ((Option Unit × Cons × σ) × G0) → Res ((Option Unit × Cons × σ) × G0)
  | .ok ((x, c0, st'), g') => .ok ((x, noteC c g g' c0, st'), g')
  | .error e => .error e

theorem noteC_same (c : Cons) (g g' : G0) : noteC c g g' c = c := by simp [noteC]

theorem run_skipOpt_note (c : Cons) (filter : σ → Tag → Bool → Nat → Option σ) (st : σ) (N : Nat) (g : G0) :
    runG0 (skipOpt c filter st N) g = noteF c g (runG0 (skipOpt0 c filter st N) g) := by
  unfold skipOpt skipOpt0
  simp only [runG0_bind, run_isExhausted]
  cases hs : c.state with
  | done => simp [noteF, noteC]
  | indefinite =>
    simp only [Bool.false_eq_true, if_false, run_getPos, runG0_bind]
    cases runG0 (skipLoop c filter N [] st) g with
    | error e => rfl
    | ok x =>
      obtain ⟨⟨r, c0, st'⟩, g'⟩ := x
      by_cases h0 : c0.state = CState.indefinite
      · simp [noteF, noteC, hs, h0]
      · simp [noteF, noteC, hs, h0, runG0_bind, run_getPos]
  | unbounded =>
    simp only [Bool.false_eq_true, if_false, run_getPos, runG0_bind]
    cases runG0 (skipLoop c filter N [] st) g with
    | error e => rfl
    | ok x =>
      obtain ⟨⟨r, c0, st'⟩, g'⟩ := x
      by_cases h0 : c0.state = CState.unbounded
      · simp [noteF, noteC, hs, h0]
      · simp [noteF, noteC, hs, h0, runG0_bind, run_getPos]
  | definite =>
    cases hl : g.limit with
    | none => simp [noteF]
    | some l =>
      cases l with
      | zero => simp [noteF, noteC, hs]
      | succ l =>
        simp only [Nat.succ_ne_zero, beq_iff_eq, Bool.false_eq_true, if_false, run_getPos, runG0_bind]
        cases runG0 (skipLoop c filter N [] st) g with
        | error e => rfl
        | ok x =>
          obtain ⟨⟨r, c0, st'⟩, g'⟩ := x
          by_cases h0 : c0.state = CState.definite
          · simp [noteF, noteC, hs, h0]
          · simp [noteF, noteC, hs, h0, runG0_bind, run_getPos]

theorem noteF_err_iff (c : Cons) (g : G0) (r : Res ((Option Unit × Cons × σ) × G0)) (e : Err) :
    noteF c g r = .error e ↔ r = .error e := by
  cases r with
  | error e' => simp [noteF]
  | ok y => obtain ⟨⟨x1, c1, st1⟩, g1⟩ := y; simp [noteF]

theorem noteF_ok_iff (c : Cons) (g : G0) (r : Res ((Option Unit × Cons × σ) × G0))
    (x : Option Unit) (c' : Cons) (st' : σ) (g' : G0) :
    noteF c g r = .ok ((x, c', st'), g') ↔ ∃ c0, r = .ok ((x, c0, st'), g') ∧ c' = noteC c g g' c0 := by
  cases r with
  | error e => simp [noteF]
  | ok y =>
    obtain ⟨⟨x1, c1, st1⟩, g1⟩ := y
    simp only [noteF, Except.ok.injEq, Prod.mk.injEq]
    constructor
    · rintro ⟨⟨rfl, rfl, rfl⟩, rfl⟩; exact ⟨c1, ⟨⟨rfl, rfl, rfl⟩, rfl⟩, rfl⟩
    · rintro ⟨c0, ⟨⟨rfl, rfl, rfl⟩, rfl⟩, rfl⟩; exact ⟨⟨rfl, rfl, rfl⟩, rfl⟩

/-- **Skipping walks over exactly the value the grammar sees** (see `skip_value0`; the `eoc_len`
    bookkeeping changes nothing when a value is skipped) -/
theorem skip_value (c : Cons) (filter : σ → Tag → Bool → Nat → Option σ) (st : σ) (g : G0)
    (hf : g.frames = []) (h1 : c.state ≠ .done) (h2 : ¬ (c.state = .definite ∧ g.limit = none))
    (f : Nat) (t : Tree) (rest : Bytes) (hp : parseValue (toM c.mode) f g.view = some (t, rest))
    (N : Nat) (hN : hdrs t ≤ N) :
    runG0 (skipOpt c filter st N) g =
      thenK (runFilter filter st (preorder t 0))
        (fun st' => .ok ((some (), c, st'), g.adv (g.view.length - rest.length))) := by
  rw [run_skipOpt_note, skip_value0 c filter st g hf h1 h2 f t rest hp N hN]
  cases runFilter filter st (preorder t 0) with
  | none => rfl
  | some s => simp [thenK, noteF, noteC_same]

theorem skip_value_inv (c : Cons) (filter : σ → Tag → Bool → Nat → Option σ) (st : σ) (g : G0)
    (hf : g.frames = []) (N : Nat) (c' : Cons) (st' : σ) (g' : G0)
    (h : runG0 (skipOpt c filter st N) g = .ok ((some (), c', st'), g')) :
    ∃ f t rest, parseValue (toM c.mode) f g.view = some (t, rest) ∧ hdrs t ≤ N ∧ c' = c ∧
      g' = g.adv (g.view.length - rest.length) ∧ runFilter filter st (preorder t 0) = some st' ∧
      c.state ≠ .done ∧ ¬ (c.state = .definite ∧ g.limit = none) := by
  rw [run_skipOpt_note, noteF_ok_iff] at h
  obtain ⟨c0, h0, hc'⟩ := h
  obtain ⟨f, t, rest, hp, hN, hc0, hg, hfil, h1, h2⟩ := skip_value_inv0 c filter st g hf N c0 st' g' h0
  subst hc0
  exact ⟨f, t, rest, hp, hN, by rw [hc', noteC_same], hg, hfil, h1, h2⟩

theorem skip_some_iff (c : Cons) (filter : σ → Tag → Bool → Nat → Option σ) (st : σ) (g : G0)
    (hf : g.frames = []) (c' : Cons) (st' : σ) (g' : G0) :
    (∃ N, runG0 (skipOpt c filter st N) g = .ok ((some (), c', st'), g')) ↔
    (c.state ≠ .done ∧ ¬ (c.state = .definite ∧ g.limit = none) ∧
      ∃ f t rest, parseValue (toM c.mode) f g.view = some (t, rest) ∧ c' = c ∧
        g' = g.adv (g.view.length - rest.length) ∧ runFilter filter st (preorder t 0) = some st') := by
  constructor
  · rintro ⟨N, h⟩
    obtain ⟨f, t, rest, hp, _, hc, hg, hfil, h1, h2⟩ := skip_value_inv c filter st g hf N c' st' g' h
    exact ⟨h1, h2, f, t, rest, hp, hc, hg, hfil⟩
  · rintro ⟨h1, h2, f, t, rest, hp, hc, hg, hfil⟩
    refine ⟨hdrs t, ?_⟩
    rw [skip_value c filter st g hf h1 h2 f t rest hp _ (Nat.le_refl _), hfil, hc, hg]
    rfl

/-- `absentF` is `absentF0` with the size of the end-of-contents marker noted -/
theorem absentF_eq (c : Cons) (g : G0) :
    absentF c g = (absentF0 c g).map fun p => (noteC c g p.2 p.1, p.2) := by
  unfold absentF absentF0
  by_cases h1 : c.state = .done
  · simp [h1, noteC]
  · by_cases h2 : c.state = .definite ∧ g.limit = none
    · simp [h1, h2]
    · by_cases h3 : c.state = .definite ∧ g.limit = some 0
      · simp [h1, h2, h3, noteC]
      · by_cases h4 : c.state = .unbounded ∧ g.view = []
        · simp [h1, h2, h3, h4, noteC]
        · simp only [h1, h2, h3, h4, if_false]
          cases hH : headerF c.mode g with
          | none => rfl
          | some r =>
            obtain ⟨⟨id, len?⟩, g2⟩ := r
            simp only
            by_cases hcond : isEocIdent id = true ∧ c.state = .indefinite ∧ id.constructed = false ∧ len? = some 0
            · simp only [if_pos hcond, Option.map, noteC]
              have : ¬ CState.done = c.state := by rw [hcond.2.1]; simp
              simp [this]
            · simp [if_neg hcond]

theorem skip_absent_iff (c : Cons) (filter : σ → Tag → Bool → Nat → Option σ) (st : σ) (g : G0)
    (hf : g.frames = []) (N : Nat) (hN : 1 ≤ N) (c' : Cons) (st' : σ) (g' : G0) :
    runG0 (skipOpt c filter st N) g = .ok ((none, c', st'), g') ↔ (absentF c g = some (c', g') ∧ st' = st) := by
  rw [run_skipOpt_note, noteF_ok_iff, absentF_eq]
  constructor
  · rintro ⟨c0, h0, hc'⟩
    obtain ⟨ha, hst⟩ := (skip_absent_iff0 c filter st g hf N hN c0 st' g').mp h0
    exact ⟨by simp [ha, hc'], hst⟩
  · rintro ⟨ha, hst⟩
    cases h0 : absentF0 c g with
    | none => simp [h0] at ha
    | some p =>
      obtain ⟨c0, g0⟩ := p
      simp only [h0, Option.map, Option.some.injEq, Prod.mk.injEq] at ha
      obtain ⟨hc', hg⟩ := ha
      subst hg
      exact ⟨c0, (skip_absent_iff0 c filter st g hf N hN c0 st' g0).mpr ⟨h0, hst⟩, hc'.symm⟩

theorem skip_absent_inv (c : Cons) (filter : σ → Tag → Bool → Nat → Option σ) (st : σ) (g : G0)
    (hf : g.frames = []) (N : Nat) (c' : Cons) (st' : σ) (g' : G0)
    (h : runG0 (skipOpt c filter st N) g = .ok ((none, c', st'), g')) : absentF c g = some (c', g') ∧ st' = st := by
  rw [run_skipOpt_note, noteF_ok_iff] at h
  obtain ⟨c0, h0, hc'⟩ := h
  obtain ⟨ha, hst⟩ := skip_absent_inv0 c filter st g hf N c0 st' g' h0
  rw [absentF_eq]
  exact ⟨by simp [ha, hc'], hst⟩


/-- corollary in terms of the model's reader: absence from `skip_opt` ⇔ absence from the optional
    generic read `take_opt_value`, whatever its closure; same resulting state and source -/
theorem skip_absent_iff_read {α : Type} (c : Cons) (filter : σ → Tag → Bool → Nat → Option σ) (st : σ) (g : G0)
    (hf : g.frames = []) (N : Nat) (hN : 1 ≤ N) (op : Tag → Content → Prog (α × Content))
    (c' : Cons) (g' : G0) :
    runG0 (skipOpt c filter st N) g = .ok ((none, c', st), g') ↔
      runG0 (takeOptValue c op) g = .ok ((none, c'), g') := by
  unfold takeOptValue
  rw [pnv_eq c op g hf, pnv_absent_iff, skip_absent_iff c filter st g hf N hN]
  simp


/-! ### `skip_one` against the generic reader of the model -/

theorem run_skipOne (c : Cons) (N : Nat) (g : G0) :
    runG0 (skipOne c N) g =
      match runG0 (skipOpt c acceptAll () N) g with
      | .ok ((r, c', _), g') => .ok ((r, c'), g')
      | .error e => .error e := by
  unfold skipOne
  simp only [runG0_bind]
  cases runG0 (skipOpt c acceptAll () N) g with
  | error e => rfl
  | ok x => obtain ⟨⟨r, c', u⟩, g'⟩ := x; rfl

theorem bodyF_eoc_not_some {α : Type} (c : Cons) (op : Tag → Content → Prog (α × Content)) (hd : Nat) (g2 : G0) (id : Ident)
    (len? : Option Nat) (he : isEocIdent id = true) (a : α) (c' : Cons) (g' : G0) :
    bodyF c op hd g2 id len? ≠ .ok ((some a, c'), g') := by
  unfold bodyF
  simp only [he, if_true]
  repeat' split
  all_goals simp

/-- `skip_one` on a value the grammar accepts -/
theorem skipOne_value (c : Cons) (g : G0) (hf : g.frames = []) (h1 : c.state ≠ .done)
    (h2 : ¬ (c.state = .definite ∧ g.limit = none))
    (f : Nat) (t : Tree) (rest : Bytes) (hp : parseValue (toM c.mode) f g.view = some (t, rest))
    (N : Nat) (hN : hdrs t ≤ N) :
    runG0 (skipOne c N) g = .ok ((some (), c), g.adv (g.view.length - rest.length)) := by
  rw [run_skipOne, skip_value c acceptAll () g hf h1 h2 f t rest hp N hN, runFilter_acceptAll]
  rfl

/-- **Skipping the next value succeeds iff reading it generically succeeds, and advances
    identically.**  For every `Constructed` (any state and mode) on every source without open
    capture: `skip_one` returns `Some(())` with state `c'` and source `g'` (for some fuel) exactly when
    the generic optional read `take_opt_value` with the tree-building closure returns some tree with
    the same state `c'` and the same source `g'` (for some fuel). -/
theorem skipOne_iff_read (c : Cons) (g : G0) (hf : g.frames = []) (c' : Cons) (g' : G0) :
    (∃ N, runG0 (skipOne c N) g = .ok ((some (), c'), g')) ↔
    (∃ f t, runG0 (takeOptValue c (readValue f)) g = .ok ((some t, c'), g')) := by
  constructor
  · rintro ⟨N, h⟩
    rw [run_skipOne] at h
    cases hs : runG0 (skipOpt c acceptAll () N) g with
    | error e => rw [hs] at h; cases h
    | ok x =>
      obtain ⟨⟨r, c1, u⟩, g1⟩ := x
      rw [hs] at h
      simp only [Except.ok.injEq, Prod.mk.injEq] at h
      obtain ⟨⟨hr, hc⟩, hg⟩ := h
      subst hr; subst hc; subst hg
      obtain ⟨f, t, rest, hp, _, hc, hg, _, h1, h2⟩ := skip_value_inv c acceptAll () g hf N c1 u g1 hs
      obtain ⟨id0, k0, hri, he0⟩ := parseValue_ident _ _ _ _ hp
      have hvne := view_nonempty_of_ident _ _ _ hri
      refine ⟨f, t, ?_⟩
      unfold takeOptValue
      rw [pnv_eq c _ g hf, pnvF_value c f g h1 h2 (fun h => limit_ne_zero_of_view g hvne h.2) (fun h => hvne h.2)]
      have hv := (refines f).2.2.2 c g hf (by
        intro _ id k hr; rw [hri] at hr; cases hr; exact he0)
      unfold specV at hv
      rw [hp] at hv
      simp only [Option.map] at hv
      rw [rel0_some] at hv
      rw [hv, hc, hg]
  · rintro ⟨f, t, h⟩
    unfold takeOptValue at h
    rw [pnv_eq c _ g hf] at h
    have h1 : c.state ≠ .done := by
      intro hd; unfold pnvF at h; simp [hd] at h
    have h2 : ¬ (c.state = .definite ∧ g.limit = none) := by
      intro hd; unfold pnvF at h; rw [if_neg h1, if_pos hd] at h; cases h
    have h3 : ¬ (c.state = .definite ∧ g.limit = some 0) := by
      intro hd; unfold pnvF at h; rw [if_neg h1, if_neg h2, if_pos hd] at h; cases h
    have h4 : ¬ (c.state = .unbounded ∧ g.view = []) := by
      intro hd; unfold pnvF at h; rw [if_neg h1, if_neg h2, if_neg h3, if_pos hd] at h; cases h
    rw [pnvF_value c f g h1 h2 h3 h4] at h
    have hEoc : c.state = .indefinite → ∀ id k, readIdent g.view = some (id, k) → isEocIdent id = false := by
      intro _ id k hri
      cases he : isEocIdent id with
      | false => rfl
      | true =>
        exfalso
        unfold valuePart at h
        cases hH : headerF c.mode g with
        | none => rw [hH] at h; cases h
        | some r =>
          obtain ⟨⟨id', len?⟩, g2⟩ := r
          obtain ⟨k', hri'⟩ := headerF_ident _ _ _ _ _ hH
          rw [hri] at hri'
          cases hri'
          rw [hH] at h
          exact bodyF_eoc_not_some c _ _ g2 id len? he t c' g' h
    have hv := (refines f).2.2.2 c g hf hEoc
    rw [h] at hv
    unfold specV at hv
    cases hp : parseValue (toM c.mode) f g.view with
    | none => rw [hp] at hv; simp [Rel0] at hv
    | some r =>
      obtain ⟨t', rest⟩ := r
      rw [hp] at hv
      simp only [Option.map, Rel0, Prod.mk.injEq, Option.some.injEq] at hv
      obtain ⟨⟨_, hc⟩, hg⟩ := hv
      refine ⟨hdrs t', ?_⟩
      rw [skipOne_value c g hf h1 h2 f t' rest hp _ (Nat.le_refl _), hc, hg]


/-! ### `skip_all` -/

theorem run_skipAll_succ (c : Cons) (N : Nat) (g : G0) :
    runG0 (skipAll c (N + 1)) g =
      match runG0 (skipOne c N) g with
      | .ok ((some (), c'), g') => runG0 (skipAll c' N) g'
      | .ok ((none, c'), g') => .ok (c', g')
      | .error e => .error e := by
  rw [skipAll]
  simp only [runG0_bind]
  cases runG0 (skipOne c N) g with
  | error e => rfl
  | ok x =>
    obtain ⟨⟨r, c'⟩, g'⟩ := x
    cases r with
    | none => rfl
    | some u => rfl

theorem skipOne_absent (c : Cons) (g : G0) (hf : g.frames = []) (N : Nat) (hN : 1 ≤ N) (c' : Cons) (g' : G0)
    (h : absentF c g = some (c', g')) : runG0 (skipOne c N) g = .ok ((none, c'), g') := by
  rw [run_skipOne, (skip_absent_iff c acceptAll () g hf N hN c' () g').mpr ⟨h, rfl⟩]

/-- what the grammar says about the remaining content of a `Constructed`, and where reading or
    skipping all of it leaves state and source:
    definite — the `l` octets up to the limit are a sequence of values (and are all there);
    indefinite — values followed by end-of-contents, state becomes done;
    top level — everything in view is a sequence of values;  done — nothing to do. -/
def specAll (c : Cons) (f : Nat) (g : G0) : Option ((List Tree × Cons) × G0) :=
  match c.state with
  | .definite =>
    match g.limit with
    | some l =>
      if l ≤ g.data.length then
        (parseAll (toM c.mode) f g.view).map fun ts => ((ts, c), ⟨g.data.drop l, some 0, []⟩)
      else none
    | none => none
  | .indefinite =>
    (parseUntilEoc (toM c.mode) f g.view).map fun p =>
      ((p.1, { c with state := .done, eoc := eocLen (toM c.mode) f g.view }), g.adv (g.view.length - p.2.length))
  | .unbounded => (parseAll (toM c.mode) f g.view).map fun ts => ((ts, c), g.adv g.view.length)
  | .done => some (([], c), g)

theorem view_empty_limit (g : G0) (l : Nat) (hl : g.limit = some l) (hle : l ≤ g.data.length)
    (hemp : g.view.isEmpty = true) : l = 0 := by
  have h1 := view_len g
  rw [hl] at h1
  have h2 : g.view.length = 0 := by
    cases hv : g.view with
    | nil => rfl
    | cons b r => rw [hv] at hemp; simp at hemp
  simp only at h1
  omega

theorem skipAll_def : ∀ (f : Nat) (m : Mode) (e : Nat) (g : G0) (l N : Nat) (ts : List Tree), g.frames = [] →
    g.limit = some l → l ≤ g.data.length → parseAll (toM m) f g.view = some ts → hdrsL ts + 2 ≤ N →
    runG0 (skipAll ⟨.definite, m, e⟩ N) g = .ok (⟨.definite, m, e⟩, ⟨g.data.drop l, some 0, []⟩) := by
  intro f
  induction f with
  | zero => intro m e g l N ts _ _ _ hp; simp [parseAll] at hp
  | succ f ih =>
    intro m e g l N ts hf hl hle hp hN
    obtain ⟨N0, rfl⟩ : ∃ N0, N = N0 + 1 := ⟨N - 1, by omega⟩
    rw [run_skipAll_succ]
    simp only [parseAll] at hp
    by_cases hemp : g.view.isEmpty = true
    · have hl0 := view_empty_limit g l hl hle hemp
      subst hl0
      have hab : absentF ⟨.definite, m, e⟩ g = some (⟨.definite, m, e⟩, g) := by
        unfold absentF; simp [hl]
      rw [skipOne_absent _ g hf N0 (by omega) _ _ hab]
      simp only
      have : g = ⟨g.data.drop 0, some 0, []⟩ := by
        cases g with
        | mk d l fr => simp at hf hl; subst hf; subst hl; rfl
      rw [← this]
    · simp only [hemp, Bool.false_eq_true, if_false] at hp
      cases hpv : parseValue (toM m) f g.view with
      | none => simp [hpv] at hp
      | some r =>
        obtain ⟨t, rest1⟩ := r
        simp only [hpv] at hp
        cases hpa : parseAll (toM m) f rest1 with
        | none => simp [hpa] at hp
        | some ts' =>
          simp only [hpa, Option.map, Option.some.injEq] at hp
          subst hp
          simp only [hdrsL] at hN
          have hpos := hdrs_pos t
          obtain ⟨n1, hn1, hr1⟩ := (suffix_lemma (toM m) f).1 _ _ _ hpv
          have hlen : g.view.length - rest1.length = n1 := by
            rw [hr1, List.length_drop]; omega
          rw [skipOne_value ⟨.definite, m, e⟩ g hf (by simp) (by simp [hl]) f t rest1 hpv N0 (by omega), hlen]
          simp only
          have hvl := view_le_limit g l hl
          have hvn : (g.adv n1).view = rest1 := by rw [G0.adv_view g n1 hn1, hr1]
          rw [ih m e (g.adv n1) (l - n1) N0 ts' rfl (by show g.limit.map (· - n1) = some (l - n1); rw [hl]; rfl)
            (by show l - n1 ≤ (g.data.drop n1).length; rw [List.length_drop]; omega)
            (by rw [hvn]; exact hpa) (by omega)]
          have hd : (g.adv n1).data.drop (l - n1) = g.data.drop l := by
            show (g.data.drop n1).drop (l - n1) = g.data.drop l
            rw [List.drop_drop]; congr 1; omega
          rw [hd]

theorem skipAll_top : ∀ (f : Nat) (m : Mode) (e : Nat) (g : G0) (N : Nat) (ts : List Tree), g.frames = [] →
    parseAll (toM m) f g.view = some ts → hdrsL ts + 2 ≤ N →
    runG0 (skipAll ⟨.unbounded, m, e⟩ N) g = .ok (⟨.unbounded, m, e⟩, g.adv g.view.length) := by
  intro f
  induction f with
  | zero => intro m e g N ts _ hp; simp [parseAll] at hp
  | succ f ih =>
    intro m e g N ts hf hp hN
    obtain ⟨N0, rfl⟩ : ∃ N0, N = N0 + 1 := ⟨N - 1, by omega⟩
    rw [run_skipAll_succ]
    simp only [parseAll] at hp
    by_cases hemp : g.view.isEmpty = true
    · have hv : g.view = [] := by
        cases hv : g.view with
        | nil => rfl
        | cons b r => rw [hv] at hemp; simp at hemp
      have hab : absentF ⟨.unbounded, m, e⟩ g = some (⟨.unbounded, m, e⟩, g) := by
        unfold absentF; simp [hv]
      rw [skipOne_absent _ g hf N0 (by omega) _ _ hab]
      simp only [hv, List.length_nil, g.adv_zero hf]
    · simp only [hemp, Bool.false_eq_true, if_false] at hp
      cases hpv : parseValue (toM m) f g.view with
      | none => simp [hpv] at hp
      | some r =>
        obtain ⟨t, rest1⟩ := r
        simp only [hpv] at hp
        cases hpa : parseAll (toM m) f rest1 with
        | none => simp [hpa] at hp
        | some ts' =>
          simp only [hpa, Option.map, Option.some.injEq] at hp
          subst hp
          simp only [hdrsL] at hN
          have hpos := hdrs_pos t
          obtain ⟨n1, hn1, hr1⟩ := (suffix_lemma (toM m) f).1 _ _ _ hpv
          have hlen : g.view.length - rest1.length = n1 := by
            rw [hr1, List.length_drop]; omega
          rw [skipOne_value ⟨.unbounded, m, e⟩ g hf (by simp) (by simp) f t rest1 hpv N0 (by omega), hlen]
          simp only
          have hvn : (g.adv n1).view = rest1 := by rw [G0.adv_view g n1 hn1, hr1]
          rw [ih m e (g.adv n1) N0 ts' rfl (by rw [hvn]; exact hpa) (by omega), G0.adv_adv, hvn, hr1,
            List.length_drop]
          have : n1 + (g.view.length - n1) = g.view.length := by omega
          rw [this]

theorem skipAll_indef : ∀ (f : Nat) (m : Mode) (e : Nat) (g : G0) (N : Nat) (ts : List Tree) (rest : Bytes), g.frames = [] →
    parseUntilEoc (toM m) f g.view = some (ts, rest) → hdrsL ts + 2 ≤ N →
    runG0 (skipAll ⟨.indefinite, m, e⟩ N) g =
      .ok (⟨.done, m, eocLen (toM m) f g.view⟩, g.adv (g.view.length - rest.length)) := by
  intro f
  induction f with
  | zero => intro m e g N ts rest _ hp; simp [parseUntilEoc] at hp
  | succ f ih =>
    intro m e g N ts rest hf hp hN
    obtain ⟨N0, rfl⟩ : ∃ N0, N = N0 + 1 := ⟨N - 1, by omega⟩
    rw [run_skipAll_succ]
    simp only [parseUntilEoc] at hp
    cases hri : readIdent g.view with
    | none => simp [hri] at hp
    | some r =>
      obtain ⟨id, k⟩ := r
      simp only [hri] at hp
      by_cases he : isEocIdent id = true
      · simp only [he, if_true] at hp
        by_cases hcn : id.constructed = true
        · simp [hcn] at hp
        · simp only [hcn, Bool.false_eq_true, if_false] at hp
          cases hrl : readLen (toM m).isBer (g.view.drop k) with
          | none => simp [hrl] at hp
          | some r2 =>
            obtain ⟨len?, kl⟩ := r2
            rw [hrl] at hp
            obtain ⟨hH, hv2, hsum, hk1⟩ := headerF_of m g id k len? kl hri hrl
            cases len? with
            | none => simp at hp
            | some n =>
              cases n with
              | succ n' => simp at hp
              | zero =>
                simp only [Option.some.injEq, Prod.mk.injEq] at hp
                obtain ⟨hk, hrest⟩ := hp
                subst hk; subst hrest
                have hvne := view_nonempty_of_ident _ _ _ hri
                have hdl := G0.view_length_le g
                have he2 : g.data.length - (g.adv (k + kl)).data.length = k + kl := by
                  simp only [G0.adv, List.length_drop]; omega
                have hel : eocLen (toM m) (f + 1) g.view = k + kl := by
                  simp only [eocLen, hri, he, if_true, hrl]
                have hab : absentF ⟨.indefinite, m, e⟩ g = some (⟨.done, m, eocLen (toM m) (f + 1) g.view⟩, g.adv (k + kl)) := by
                  unfold absentF
                  simp [hH, he, hcn, he2, hel]
                rw [skipOne_absent _ g hf N0 (by omega) _ _ hab]
                simp only [List.length_drop]
                have : g.view.length - (g.view.length - (k + kl)) = k + kl := by omega
                rw [this]
      · have he' : isEocIdent id = false := by simpa using he
        simp only [he', Bool.false_eq_true, if_false] at hp
        cases hpv : parseValue (toM m) f g.view with
        | none => simp [hpv] at hp
        | some r =>
          obtain ⟨t, rest1⟩ := r
          simp only [hpv] at hp
          cases hpe : parseUntilEoc (toM m) f rest1 with
          | none => simp [hpe] at hp
          | some r3 =>
            obtain ⟨ts', rest'⟩ := r3
            simp only [hpe, Option.some.injEq, Prod.mk.injEq] at hp
            obtain ⟨hk, hrest⟩ := hp
            subst hk; subst hrest
            simp only [hdrsL] at hN
            have hpos := hdrs_pos t
            obtain ⟨n1, hn1, hr1⟩ := (suffix_lemma (toM m) f).1 _ _ _ hpv
            obtain ⟨n2, hn2, hr2⟩ := (suffix_lemma (toM m) f).2 _ _ _ hpe
            have hlen : g.view.length - rest1.length = n1 := by
              rw [hr1, List.length_drop]; omega
            rw [skipOne_value ⟨.indefinite, m, e⟩ g hf (by simp) (by simp) f t rest1 hpv N0 (by omega), hlen]
            simp only
            have hvn : (g.adv n1).view = rest1 := by rw [G0.adv_view g n1 hn1, hr1]
            have hel : eocLen (toM m) (f + 1) g.view = eocLen (toM m) f rest1 := by
              simp only [eocLen, hri, he', Bool.false_eq_true, if_false, hpv]
            rw [ih m e (g.adv n1) N0 ts' rest' rfl (by rw [hvn]; exact hpe) (by omega), G0.adv_adv, hvn, hel]
            have e : n1 + (rest1.length - rest'.length) = g.view.length - rest'.length := by
              rw [hr2, hr1] at *
              simp only [List.length_drop] at *
              omega
            rw [e]

/-- **`skip_all` ends cleanly at the end of definite, indefinite and top-level content alike**:
    whenever the grammar accepts the remaining content of the `Constructed` as the trees `ts`
    (`specAll`), `skip_all` (with fuel for the headers of `ts` plus the final look) returns the state
    and leaves the source exactly where the grammar ends — the end of the definite content (limit 0),
    behind the end-of-contents octets (state done), or the end of the view. -/
theorem skipAll_spec (c : Cons) (f : Nat) (g : G0) (hf : g.frames = []) (ts : List Tree) (c' : Cons) (g' : G0)
    (h : specAll c f g = some ((ts, c'), g')) (N : Nat) (hN : hdrsL ts + 2 ≤ N) :
    runG0 (skipAll c N) g = .ok (c', g') := by
  obtain ⟨s, m, e⟩ := c
  unfold specAll at h
  cases s with
  | definite =>
    simp only at h
    cases hl : g.limit with
    | none => simp [hl] at h
    | some l =>
      simp only [hl] at h
      by_cases hle : l ≤ g.data.length
      · simp only [hle, if_true] at h
        cases hp : parseAll (toM m) f g.view with
        | none => simp [hp] at h
        | some ts' =>
          simp only [hp, Option.map, Option.some.injEq, Prod.mk.injEq] at h
          obtain ⟨⟨h1, h2⟩, h3⟩ := h
          subst h1; subst h2; subst h3
          exact skipAll_def f m e g l N ts' hf hl hle hp hN
      · simp [hle] at h
  | indefinite =>
    simp only at h
    cases hp : parseUntilEoc (toM m) f g.view with
    | none => simp [hp] at h
    | some r =>
      obtain ⟨ts', rest⟩ := r
      simp only [hp, Option.map, Option.some.injEq, Prod.mk.injEq] at h
      obtain ⟨⟨h1, h2⟩, h3⟩ := h
      subst h1; subst h2; subst h3
      exact skipAll_indef f m e g N ts' rest hf hp hN
  | unbounded =>
    simp only at h
    cases hp : parseAll (toM m) f g.view with
    | none => simp [hp] at h
    | some ts' =>
      simp only [hp, Option.map, Option.some.injEq, Prod.mk.injEq] at h
      obtain ⟨⟨h1, h2⟩, h3⟩ := h
      subst h1; subst h2; subst h3
      exact skipAll_top f m e g N ts' hf hp hN
  | done =>
    simp only [Option.some.injEq, Prod.mk.injEq] at h
    obtain ⟨⟨h1, h2⟩, h3⟩ := h
    subst h1; subst h2; subst h3
    obtain ⟨N0, rfl⟩ : ∃ N0, N = N0 + 1 := ⟨N - 1, by omega⟩
    rw [run_skipAll_succ, skipOne_absent ⟨.done, m, e⟩ g hf N0 (by omega) ⟨.done, m, e⟩ g (by simp [absentF])]


/-! ### `skip_all`, converse -/

theorem headerF_inv (m : Mode) (g : G0) (id : Ident) (len? : Option Nat) (g2 : G0)
    (h : headerF m g = some ((id, len?), g2)) :
    ∃ k kl, readIdent g.view = some (id, k) ∧ readLen (toM m).isBer (g.view.drop k) = some (len?, kl) ∧
      g2 = g.adv (k + kl) ∧ k + kl ≤ g.view.length := by
  unfold headerF at h
  cases hr : readIdent g.view with
  | none => simp [hr] at h
  | some r =>
    obtain ⟨id', k⟩ := r
    obtain ⟨_, _, hk1, hk, _⟩ := C12.readIdent_bounds _ _ _ hr
    have hv1 : (g.adv k).view = g.view.drop k := G0.adv_view g k hk
    simp only [hr, hv1] at h
    cases hl : readLen m.isBer (g.view.drop k) with
    | none => simp [hl] at h
    | some r2 =>
      obtain ⟨l2, kl⟩ := r2
      obtain ⟨_, hkl⟩ := readLen_bound _ _ _ _ hl
      simp only [List.length_drop] at hkl
      simp only [hl, Option.some.injEq, Prod.mk.injEq] at h
      obtain ⟨⟨h1, h2⟩, h3⟩ := h
      subst h1; subst h2
      refine ⟨k, kl, rfl, by rw [toM_isBer]; exact hl, ?_, by omega⟩
      rw [← h3, G0.adv_adv]

theorem absent_specAll (c : Cons) (g : G0) (hf : g.frames = []) (c' : Cons) (g' : G0)
    (h : absentF c g = some (c', g')) : specAll c 1 g = some (([], c'), g') := by
  unfold absentF at h
  by_cases h1 : c.state = .done
  · simp only [if_pos h1, Option.some.injEq, Prod.mk.injEq] at h
    obtain ⟨rfl, rfl⟩ := h
    simp [specAll, h1]
  · by_cases h2 : c.state = .definite ∧ g.limit = none
    · rw [if_neg h1, if_pos h2] at h; cases h
    · by_cases h3 : c.state = .definite ∧ g.limit = some 0
      · simp only [if_neg h1, if_neg h2, if_pos h3, Option.some.injEq, Prod.mk.injEq] at h
        obtain ⟨rfl, rfl⟩ := h
        have hv : g.view = [] := by simp [G0.view, h3.2]
        have hg : g = ⟨g.data.drop 0, some 0, []⟩ := by
          cases g with
          | mk d l fr => simp at hf; subst hf; have := h3.2; simp at this; subst this; rfl
        simp only [specAll, h3.1, h3.2, Nat.zero_le, if_true, hv, parseAll, List.isEmpty_nil, Option.map]
        rw [← hg]
      · by_cases h4 : c.state = .unbounded ∧ g.view = []
        · simp only [if_neg h1, if_neg h2, if_neg h3, if_pos h4, Option.some.injEq, Prod.mk.injEq] at h
          obtain ⟨rfl, rfl⟩ := h
          simp only [specAll, h4.1, h4.2, parseAll, List.isEmpty_nil, if_true, Option.map, List.length_nil,
            g.adv_zero hf]
        · simp only [if_neg h1, if_neg h2, if_neg h3, if_neg h4] at h
          cases hH : headerF c.mode g with
          | none => simp [hH] at h
          | some r =>
            obtain ⟨⟨id, len?⟩, g2⟩ := r
            simp only [hH] at h
            by_cases hcond : isEocIdent id = true ∧ c.state = .indefinite ∧ id.constructed = false ∧ len? = some 0
            · simp only [if_pos hcond, Option.some.injEq, Prod.mk.injEq] at h
              obtain ⟨rfl, rfl⟩ := h
              obtain ⟨he, hi, hcn, hz⟩ := hcond
              subst hz
              obtain ⟨k, kl, hri, hrl, hg2, hsum⟩ := headerF_inv _ _ _ _ _ hH
              simp only [specAll, hi, parseUntilEoc, hri, he, if_true, hcn, Bool.false_eq_true, if_false, hrl,
                Option.map, List.length_drop, hg2, eocLen, adv_data_len g (k + kl) hsum]
              have : g.view.length - (g.view.length - (k + kl)) = k + kl := by omega
              rw [this]
            · simp [if_neg hcond] at h

theorem specAll_cons (c : Cons) (g : G0) (f f2 : Nat) (t : Tree) (rest : Bytes) (ts2 : List Tree)
    (c' : Cons) (g' : G0) (h1 : c.state ≠ .done)
    (hp : parseValue (toM c.mode) f g.view = some (t, rest))
    (h : specAll c f2 (g.adv (g.view.length - rest.length)) = some ((ts2, c'), g')) :
    specAll c (max f f2 + 1) g = some ((t :: ts2, c'), g') := by
  obtain ⟨n1, hn1, hr1⟩ := (suffix_lemma (toM c.mode) f).1 _ _ _ hp
  have hlen : g.view.length - rest.length = n1 := by
    rw [hr1, List.length_drop]; omega
  rw [hlen] at h
  have hvn : (g.adv n1).view = rest := by rw [G0.adv_view g n1 hn1, hr1]
  obtain ⟨id, k, hri, he⟩ := parseValue_ident _ _ _ _ hp
  have hvne : g.view.isEmpty = false := by
    cases hv : g.view with
    | nil => rw [hv] at hri; simp [readIdent] at hri
    | cons b r => rfl
  have hpv' := parseValue_mono _ f (max f f2) (Nat.le_max_left _ _) _ _ hp
  obtain ⟨s, m, e0⟩ := c
  unfold specAll at h ⊢
  cases s with
  | done => exact absurd rfl h1
  | definite =>
    simp only at h ⊢ hp hpv'
    cases hl : g.limit with
    | none =>
      have : (g.adv n1).limit = none := by show g.limit.map (· - n1) = none; rw [hl]; rfl
      simp [this] at h
    | some l =>
      have hl1 : (g.adv n1).limit = some (l - n1) := by show g.limit.map (· - n1) = some (l - n1); rw [hl]; rfl
      have hvl := view_le_limit g l hl
      have hvd := g.view_length_le
      simp only [hl1, hvn] at h
      have hdl : (g.adv n1).data.length = g.data.length - n1 := by
        show (g.data.drop n1).length = _; rw [List.length_drop]
      by_cases hle : l - n1 ≤ (g.adv n1).data.length
      · simp only [hle, if_true] at h
        cases hpa : parseAll (toM m) f2 rest with
        | none => simp [hpa] at h
        | some ts2' =>
          simp only [hpa, Option.map, Option.some.injEq, Prod.mk.injEq] at h
          obtain ⟨⟨h1', h2'⟩, h3'⟩ := h
          subst h1'; subst h2'; subst h3'
          have hle' : l ≤ g.data.length := by omega
          have hd : (g.adv n1).data.drop (l - n1) = g.data.drop l := by
            show (g.data.drop n1).drop (l - n1) = g.data.drop l
            rw [List.drop_drop]; congr 1; omega
          rw [parseAll]
          simp only [hle', if_true, hvne, Bool.false_eq_true, if_false, hpv',
            parseAll_mono _ f2 (max f f2) (Nat.le_max_right _ _) _ _ hpa, Option.map, hd]
      · simp [hle] at h
  | indefinite =>
    simp only [hvn] at h ⊢ hp hpv'
    cases hpe : parseUntilEoc (toM m) f2 rest with
    | none => simp [hpe] at h
    | some r =>
      obtain ⟨ts2', rest2⟩ := r
      obtain ⟨n2, hn2, hr2⟩ := (suffix_lemma (toM m) f2).2 _ _ _ hpe
      simp only [hpe, Option.map, Option.some.injEq, Prod.mk.injEq] at h
      obtain ⟨⟨h1', h2'⟩, h3'⟩ := h
      subst h1'; subst h2'; subst h3'
      rw [parseUntilEoc]
      have hel : eocLen (toM m) (max f f2 + 1) g.view = eocLen (toM m) f2 rest := by
        simp only [eocLen, hri, he, Bool.false_eq_true, if_false, hpv']
        exact eocLen_mono _ f2 (max f f2) rest _ (Nat.le_max_right _ _) hpe
      simp only [hri, he, Bool.false_eq_true, if_false, hpv',
        parseUntilEoc_mono _ f2 (max f f2) (Nat.le_max_right _ _) _ _ hpe, Option.map, G0.adv_adv, hel]
      have e : n1 + (rest.length - rest2.length) = g.view.length - rest2.length := by
        rw [hr2, hr1] at *
        simp only [List.length_drop] at *
        omega
      rw [e]
  | unbounded =>
    simp only [hvn] at h ⊢ hp hpv'
    cases hpa : parseAll (toM m) f2 rest with
    | none => simp [hpa] at h
    | some ts2' =>
      simp only [hpa, Option.map, Option.some.injEq, Prod.mk.injEq] at h
      obtain ⟨⟨h1', h2'⟩, h3'⟩ := h
      subst h1'; subst h2'; subst h3'
      rw [parseAll]
      simp only [hvne, Bool.false_eq_true, if_false, hpv',
        parseAll_mono _ f2 (max f f2) (Nat.le_max_right _ _) _ _ hpa, Option.map, G0.adv_adv]
      have e : n1 + rest.length = g.view.length := by
        rw [hr1, List.length_drop]; omega
      rw [e]

/-- **Converse for `skip_all`**: whenever it returns, the grammar accepts the remaining content and
    state and source are where the grammar ends. -/
theorem skipAll_inv : ∀ (N : Nat) (c : Cons) (g : G0) (c' : Cons) (g' : G0), g.frames = [] →
    runG0 (skipAll c N) g = .ok (c', g') → ∃ f ts, specAll c f g = some ((ts, c'), g') := by
  intro N
  induction N with
  | zero => intro c g c' g' _ h; cases h
  | succ N ih =>
    intro c g c' g' hf h
    rw [run_skipAll_succ, run_skipOne] at h
    cases hs : runG0 (skipOpt c acceptAll () N) g with
    | error e => rw [hs] at h; cases h
    | ok x =>
      obtain ⟨⟨r, c1, u⟩, g1⟩ := x
      rw [hs] at h
      simp only at h
      cases r with
      | none =>
        simp only [Except.ok.injEq, Prod.mk.injEq] at h
        obtain ⟨rfl, rfl⟩ := h
        obtain ⟨hab, _⟩ := skip_absent_inv c acceptAll () g hf N c1 u g1 hs
        exact ⟨1, [], absent_specAll c g hf c1 g1 hab⟩
      | some u' =>
        simp only at h
        obtain ⟨f, t, rest, hp, _, hc, hg, _, h1, h2⟩ := skip_value_inv c acceptAll () g hf N c1 u g1 hs
        subst hc; subst hg
        obtain ⟨f2, ts2, hsp⟩ := ih c1 _ c' g' rfl h
        exact ⟨max f f2 + 1, t :: ts2, specAll_cons c1 g f f2 t rest ts2 c' g' h1 hp hsp⟩

/-- `skip_all` returns exactly when the grammar accepts the remaining content, and then with the
    grammar's final state and position -/
theorem skipAll_iff (c : Cons) (g : G0) (hf : g.frames = []) (c' : Cons) (g' : G0) :
    (∃ N, runG0 (skipAll c N) g = .ok (c', g')) ↔ (∃ f ts, specAll c f g = some ((ts, c'), g')) := by
  constructor
  · rintro ⟨N, h⟩; exact skipAll_inv N c g c' g' hf h
  · rintro ⟨f, ts, h⟩; exact ⟨hdrsL ts + 2, skipAll_spec c f g hf ts c' g' h _ (Nat.le_refl _)⟩


/-! ### `skip_all` against the generic reader of the model (via C02) -/

/-- C02's refinement theorem in the vocabulary of `specAll` (same coverage as C02: a definite
    `Constructed` sits on a limited source, the top level on an unlimited one) -/
theorem readAll_specAll (c : Cons) (g : G0) (hf : g.frames = []) (hd : c.state = .definite → g.limit ≠ none)
    (hu : c.state = .unbounded → g.limit = none) (hdone : c.state ≠ .done) (f : Nat) :
    Rel0 (runG0 (readAll f c) g) (specAll c f g) := by
  obtain ⟨s, m, e0⟩ := c
  cases g with
  | mk d l fr =>
    simp only at hf; subst hf
    cases s with
    | done => exact absurd rfl hdone
    | definite =>
      cases l with
      | none => exact absurd rfl (hd rfl)
      | some l => exact (refines f).1 m e0 d l
    | indefinite => exact (refines f).2.1 m e0 ⟨d, l, []⟩ rfl
    | unbounded =>
      have hl : l = none := hu rfl
      subst hl
      have hu' := (refines f).2.2.1 m e0 d
      have e : (St d none).adv (St d none).view.length = St [] none := by
        simp [G0.adv, G0.view]
      unfold specU at hu'
      unfold specAll
      simp only [e]
      exact hu'

/-- **`skip_all` returns exactly when the generic read of all remaining values returns, with the same
    `Constructed` state and the same source** — in a definite value, an indefinite value and at top
    level. -/
theorem skipAll_iff_readAll (c : Cons) (g : G0) (hf : g.frames = []) (hd : c.state = .definite → g.limit ≠ none)
    (hu : c.state = .unbounded → g.limit = none) (hdone : c.state ≠ .done) (c' : Cons) (g' : G0) :
    (∃ N, runG0 (skipAll c N) g = .ok (c', g')) ↔ (∃ f ts, runG0 (readAll f c) g = .ok ((ts, c'), g')) := by
  rw [skipAll_iff c g hf]
  constructor
  · rintro ⟨f, ts, h⟩
    have hr := readAll_specAll c g hf hd hu hdone f
    rw [h, rel0_some] at hr
    exact ⟨f, ts, hr⟩
  · rintro ⟨f, ts, h⟩
    have hr := readAll_specAll c g hf hd hu hdone f
    rw [h] at hr
    cases hsp : specAll c f g with
    | none => rw [hsp] at hr; simp [Rel0] at hr
    | some y =>
      rw [hsp] at hr
      simp only [Rel0] at hr
      exact ⟨f, ts, by rw [hsp, hr]⟩

/-- … and the fuel `skip_all` needs is one unit per header read plus two -/
theorem skipAll_where_readAll (c : Cons) (g : G0) (hf : g.frames = []) (hd : c.state = .definite → g.limit ≠ none)
    (hu : c.state = .unbounded → g.limit = none) (hdone : c.state ≠ .done) (f : Nat) (ts : List Tree)
    (c' : Cons) (g' : G0) (h : runG0 (readAll f c) g = .ok ((ts, c'), g')) (N : Nat) (hN : hdrsL ts + 2 ≤ N) :
    runG0 (skipAll c N) g = .ok (c', g') := by
  have hr := readAll_specAll c g hf hd hu hdone f
  rw [h] at hr
  cases hsp : specAll c f g with
  | none => rw [hsp] at hr; simp [Rel0] at hr
  | some y =>
    rw [hsp] at hr
    simp only [Rel0] at hr
    exact skipAll_spec c f g hf ts c' g' (by rw [hsp, hr]) N hN

/-! ### the mandatory variant -/

theorem run_skip (c : Cons) (filter : σ → Tag → Bool → Nat → Option σ) (st : σ) (N : Nat) (g : G0) :
    runG0 (skip c filter st N) g =
      match runG0 (skipOpt c filter st N) g with
      | .ok ((some (), c', st'), g') => .ok ((c', st'), g')
      | .ok ((none, _, _), _) => .error .content
      | .error e => .error e := by
  unfold skip
  simp only [runG0_bind]
  cases runG0 (skipOpt c filter st N) g with
  | error e => rfl
  | ok x =>
    obtain ⟨⟨r, c', st'⟩, g'⟩ := x
    cases r with
    | none => rfl
    | some u => rfl

/-- `skip` (mandatory): as `skip_opt`, with absence turned into a content error -/
theorem skip_ok_iff (c : Cons) (filter : σ → Tag → Bool → Nat → Option σ) (st : σ) (N : Nat) (g : G0)
    (c' : Cons) (st' : σ) (g' : G0) :
    runG0 (skip c filter st N) g = .ok ((c', st'), g') ↔
      runG0 (skipOpt c filter st N) g = .ok ((some (), c', st'), g') := by
  rw [run_skip]
  cases runG0 (skipOpt c filter st N) g with
  | error e => simp
  | ok x =>
    obtain ⟨⟨r, c1, st1⟩, g1⟩ := x
    cases r with
    | none => simp
    | some u => simp

theorem skip_absent (c : Cons) (filter : σ → Tag → Bool → Nat → Option σ) (st : σ) (N : Nat) (hN : 1 ≤ N) (g : G0)
    (hf : g.frames = []) (c' : Cons) (g' : G0) (h : absentF c g = some (c', g')) :
    runG0 (skip c filter st N) g = .error .content := by
  rw [run_skip, (skip_absent_iff c filter st g hf N hN c' st g').mpr ⟨h, rfl⟩]


/-! ### on the contract-checking layer -/

/-- the same on `runG` (the layer the test driver executes, which additionally checks the `Source`
    contract): a successful `skip_one` there is a successful `skip_one` here, so everything above
    applies to it -/
theorem skipOne_runG_sound (c : Cons) (N : Nat) (s : G) (hf : s.frames = []) (c' : Cons) (s' : G)
    (h : runG (skipOne c N) s = .ok ((some (), c'), s')) :
    ∃ f t rest, parseValue (toM c.mode) f s.view = some (t, rest) ∧ hdrs t ≤ N ∧ c' = c ∧
      s'.erase = s.erase.adv (s.view.length - rest.length) := by
  have h0 := sim0_ok _ _ _ _ h
  rw [run_skipOne] at h0
  cases hs : runG0 (skipOpt c acceptAll () N) s.erase with
  | error e => rw [hs] at h0; cases h0
  | ok x =>
    obtain ⟨⟨r, c1, u⟩, g1⟩ := x
    rw [hs] at h0
    simp only [Except.ok.injEq, Prod.mk.injEq] at h0
    obtain ⟨⟨hr, hc⟩, hg⟩ := h0
    subst hr; subst hc; subst hg
    obtain ⟨f, t, rest, hp, hN, hc, hg, _, _, _⟩ := skip_value_inv c acceptAll () s.erase hf N c1 u _ hs
    rw [erase_view] at hp hg
    exact ⟨f, t, rest, hp, hN, hc, hg⟩

/-! ### non-vacuity: concrete inputs -/

/-- `SEQUENCE(13) { SEQUENCE(indefinite) { OCTET STRING aa, INTEGER 5 } eoc, BOOLEAN ff }` followed
    by `NULL`: an indefinite value nested in a definite one -/
def exBytes : Bytes :=
  [0x30, 0x0d, 0x30, 0x80, 0x04, 0x01, 0xaa, 0x02, 0x01, 0x05, 0x00, 0x00, 0x01, 0x01, 0xff, 0x05, 0x00]

def exTree : Tree :=
  .cons ⟨0, true, 16⟩ false
    [.cons ⟨0, true, 16⟩ true [.prim ⟨0, false, 4⟩ [0xaa], .prim ⟨0, false, 2⟩ [0x05]],
     .prim ⟨0, false, 1⟩ [0xff]]

example : parseValue .ber 9 exBytes = some (exTree, [0x05, 0x00]) := by rfl
example : parseValue .der 9 exBytes = none := by rfl
example : hdrs exTree = 6 := by rfl
example : preorder exTree 0 =
    [(⟨0, true, 16⟩, 0), (⟨0, true, 16⟩, 1), (⟨0, false, 4⟩, 2), (⟨0, false, 2⟩, 2), (⟨0, false, 1⟩, 1)] := by rfl

/-- the hypotheses of `skip_value` are satisfiable, and the model agrees by evaluation -/
example : runG0 (skipOpt ⟨.unbounded, .ber, 0⟩ acceptAll () 6) (St exBytes none) =
    .ok ((some (), ⟨.unbounded, .ber, 0⟩, ()), St [0x05, 0x00] none) := by
  rw [skip_value ⟨.unbounded, .ber, 0⟩ acceptAll () (St exBytes none) rfl (by simp) (by simp) 9 exTree [0x05, 0x00]
    (by rfl) 6 (by decide)]
  rfl
example : runG0 (skipOne ⟨.unbounded, .ber, 0⟩ 6) (St exBytes none) =
    .ok ((some (), ⟨.unbounded, .ber, 0⟩), St [0x05, 0x00] none) := by rfl
/-- one unit of fuel less than there are headers is not enough -/
example : runG0 (skipOne ⟨.unbounded, .ber, 0⟩ 5) (St exBytes none) = .error .fuel := by rfl
/-- the filter sees number, constructed flag and depth of every value, in encoding order -/
example : runG0 (skipOpt ⟨.unbounded, .ber, 0⟩
      (fun (st : List (Nat × Bool × Nat)) t c d => some (st ++ [(t.number, c, d)])) [] 6) (St exBytes none) =
    .ok ((some (), ⟨.unbounded, .ber, 0⟩, [(16, true, 0), (16, true, 1), (4, false, 2), (2, false, 2), (1, false, 1)]),
      St [0x05, 0x00] none) := by rfl
/-- a filter that rejects depth 2 stops the skip with a content error -/
example : runG0 (skipOpt ⟨.unbounded, .ber, 0⟩ (fun (n : Nat) _ _ d => if d < 2 then some (n + 1) else none) 0 6)
    (St exBytes none) = .error .content := by rfl
/-- DER rejects the nested indefinite value, for reading and for skipping alike -/
example : runG0 (skipOne ⟨.unbounded, .der, 0⟩ 6) (St exBytes none) = .error .content := by rfl
/-- `skip_all` at top level, inside a definite value (limit 15, one octet beyond it) and inside an
    indefinite value -/
example : runG0 (skipAll ⟨.unbounded, .ber, 0⟩ 9) (St exBytes none) = .ok (⟨.unbounded, .ber, 0⟩, St [] none) := by rfl
example : specAll ⟨.definite, .ber, 0⟩ 9 (St (exBytes.take 15 ++ [0x77]) (some 15)) =
    some (([exTree], ⟨.definite, .ber, 0⟩), St [0x77] (some 0)) := by rfl
example : runG0 (skipAll ⟨.definite, .ber, 0⟩ 8) (St (exBytes.take 15 ++ [0x77]) (some 15)) =
    .ok (⟨.definite, .ber, 0⟩, St [0x77] (some 0)) := by rfl
example : specAll ⟨.indefinite, .ber, 0⟩ 9 (St (exBytes ++ [0x00, 0x00, 0x77]) none) =
    some (([exTree, .prim ⟨0, false, 5⟩ []], ⟨.done, .ber, 2⟩), St [0x77] none) := by rfl
example : runG0 (skipAll ⟨.indefinite, .ber, 0⟩ 9) (St (exBytes ++ [0x00, 0x00, 0x77]) none) =
    .ok (⟨.done, .ber, 2⟩, St [0x77] none) := by rfl
/-- absence: end-of-contents of an indefinite parent, exhausted definite parent, empty top level -/
example : absentF ⟨.indefinite, .ber, 0⟩ (St [0x00, 0x00, 0x77] none) = some (⟨.done, .ber, 2⟩, St [0x77] none) := by rfl
example : absentF ⟨.definite, .ber, 0⟩ (St [0x77] (some 0)) = some (⟨.definite, .ber, 0⟩, St [0x77] (some 0)) := by rfl
example : absentF ⟨.unbounded, .ber, 0⟩ (St [] none) = some (⟨.unbounded, .ber, 0⟩, St [] none) := by rfl
example : absentF ⟨.unbounded, .ber, 0⟩ (St exBytes none) = none := by rfl

/-! ### any nesting depth -/

/-- `k` indefinite SEQUENCEs nested in each other around a NULL -/
def deep : Nat → Bytes
  | 0 => [0x05, 0x00]
  | k + 1 => 0x30 :: 0x80 :: (deep k ++ [0x00, 0x00])

def deepT : Nat → Tree
  | 0 => .prim ⟨0, false, 5⟩ []
  | k + 1 => .cons ⟨0, true, 16⟩ true [deepT k]

theorem deep_head (k : Nat) (rest : Bytes) : ∃ b tl, deep k ++ rest = b :: tl ∧ (b = 0x05 ∨ b = 0x30) := by
  cases k with
  | zero => exact ⟨0x05, 0x00 :: rest, rfl, Or.inl rfl⟩
  | succ k => exact ⟨0x30, _, rfl, Or.inr rfl⟩

theorem deep_parse : ∀ (k : Nat) (rest : Bytes), parseValue .ber (2 * k + 1) (deep k ++ rest) = some (deepT k, rest) := by
  intro k
  induction k with
  | zero => intro rest; rfl
  | succ k ih =>
    intro rest
    have h1 : 2 * (k + 1) + 1 = (2 * k + 1 + 1) + 1 := by omega
    rw [h1, parseValue]
    have hri : readIdent (deep (k + 1) ++ rest) = some (⟨0, true, 16⟩, 1) := rfl
    have hrl : readLen M.ber.isBer ((deep (k + 1) ++ rest).drop 1) = some (none, 1) := rfl
    simp only [hri, hrl]
    have hbody : (deep (k + 1) ++ rest).drop (1 + 1) = deep k ++ ([0x00, 0x00] ++ rest) := by
      simp [deep]
    rw [hbody]
    have hu : parseUntilEoc .ber (2 * k + 1 + 1) (deep k ++ ([0x00, 0x00] ++ rest)) = some ([deepT k], rest) := by
      rw [parseUntilEoc]
      obtain ⟨b, tl, hb, hor⟩ := deep_head k ([0x00, 0x00] ++ rest)
      have hne : ∃ id kk, readIdent (deep k ++ ([0x00, 0x00] ++ rest)) = some (id, kk) ∧ isEocIdent id = false := by
        rw [hb]
        rcases hor with rfl | rfl
        · exact ⟨⟨0, false, 5⟩, 1, rfl, rfl⟩
        · exact ⟨⟨0, true, 16⟩, 1, rfl, rfl⟩
      obtain ⟨id, kk, hr, he⟩ := hne
      simp only [hr, he, Bool.false_eq_true, if_false]
      rw [ih ([0x00, 0x00] ++ rest)]
      have he2 : parseUntilEoc .ber (2 * k + 1) ([0x00, 0x00] ++ rest) = some ([], rest) := rfl
      simp only [he2]
    rw [hu]
    rfl


theorem deep_hdrs (k : Nat) : hdrs (deepT k) = 2 * k + 1 := by
  induction k with
  | zero => rfl
  | succ k ih => simp [deepT, hdrs, hdrsL, ih]; omega

/-- any nesting depth: the loop skips `k` nested indefinite values with `2k+1` iterations -/
theorem skip_deep (k : Nat) (rest : Bytes) :
    runG0 (skipOne ⟨.unbounded, .ber, 0⟩ (2 * k + 1)) (St (deep k ++ rest) none) =
      .ok ((some (), ⟨.unbounded, .ber, 0⟩), St rest none) := by
  have hp := deep_parse k rest
  rw [skipOne_value ⟨.unbounded, .ber, 0⟩ (St (deep k ++ rest) none) rfl (by simp) (by simp) (2 * k + 1) (deepT k) rest
    hp (2 * k + 1) (by rw [deep_hdrs]; exact Nat.le_refl _)]
  simp [G0.adv, G0.view]

end Bcder.Props.C10
