/-
  C14 — BOOLEAN, NULL and fixed-width INTEGER codecs are exact.
  (header completed at the end of the file's development; see the final comment block below)
-/
import Bcder.Props.C02
import Bcder.Model.Int
import Bcder.Spec.Values
namespace Bcder.Props.C14
open Bcder Bcder.Spec Prog Bcder.Props.C02

/-! ## 1. arithmetic of big-endian octet strings -/

theorem beValue_eq (s : Bytes) : beValue s = s.foldl (fun acc b => acc * 256 + b.toNat) 0 := by
  cases s <;> rfl

theorem foldl_be (s : Bytes) : ∀ acc : Nat,
    s.foldl (fun acc b => acc * 256 + b.toNat) acc =
      acc * 256 ^ s.length + s.foldl (fun acc b => acc * 256 + b.toNat) 0 := by
  induction s with
  | nil => intro acc; simp
  | cons a t ih =>
    intro acc
    simp only [List.foldl_cons, List.length_cons]
    rw [ih (acc * 256 + a.toNat), ih (0 * 256 + a.toNat), Nat.pow_succ]
    grind

theorem beValue_nil : beValue [] = 0 := rfl

theorem beValue_cons (a : UInt8) (s : Bytes) :
    beValue (a :: s) = a.toNat * 256 ^ s.length + beValue s := by
  rw [beValue_eq, beValue_eq, List.foldl_cons, foldl_be]
  simp

theorem beValue_lt (s : Bytes) : beValue s < 256 ^ s.length := by
  induction s with
  | nil => simp [beValue_nil]
  | cons a t ih =>
    rw [beValue_cons, List.length_cons, Nat.pow_succ]
    have h1 : a.toNat * 256 ^ t.length ≤ 255 * 256 ^ t.length :=
      Nat.mul_le_mul_right _ (by have := UInt8.toNat_lt a; omega)
    omega

theorem beValue_append (s t : Bytes) : beValue (s ++ t) = beValue s * 256 ^ t.length + beValue t := by
  rw [beValue_eq, beValue_eq, beValue_eq, List.foldl_append, foldl_be]

theorem pow256_pos (n : Nat) : 0 < 256 ^ n := Nat.pow_pos (by decide)

theorem beValue_replicate_zero (k : Nat) (s : Bytes) : beValue (List.replicate k 0 ++ s) = beValue s := by
  induction k with
  | zero => simp
  | succ k ih => rw [List.replicate_succ, List.cons_append, beValue_cons, ih]; simp

theorem beValue_replicate_ff (k : Nat) (s : Bytes) :
    beValue (List.replicate k 0xFF ++ s) + 256 ^ s.length = 256 ^ (k + s.length) + beValue s := by
  induction k with
  | zero => simp; omega
  | succ k ih =>
    rw [List.replicate_succ, List.cons_append, beValue_cons]
    have e : (List.replicate k (0xFF : UInt8) ++ s).length = k + s.length := by simp
    have e2 : k + 1 + s.length = (k + s.length) + 1 := by omega
    rw [e, e2, Nat.pow_succ]
    have : (0xFF : UInt8).toNat = 255 := rfl
    rw [this]
    omega

/-- `beValue` is injective on octet strings of one length -/
theorem beValue_inj : ∀ (a b : Bytes), a.length = b.length → beValue a = beValue b → a = b := by
  intro a
  induction a with
  | nil => intro b hl _; cases b with | nil => rfl | cons _ _ => simp at hl
  | cons x s ih =>
    intro b hl hv
    cases b with
    | nil => simp at hl
    | cons y t =>
      simp only [List.length_cons, Nat.add_right_cancel_iff] at hl
      rw [beValue_cons, beValue_cons, hl] at hv
      have h1 := beValue_lt s
      have h2 := beValue_lt t
      rw [hl] at h1
      have hP := pow256_pos t.length
      have hxy : x.toNat = y.toNat := by
        rcases Nat.lt_trichotomy x.toNat y.toNat with h | h | h
        · have : (x.toNat + 1) * 256 ^ t.length ≤ y.toNat * 256 ^ t.length := Nat.mul_le_mul_right _ h
          rw [Nat.add_mul] at this; omega
        · exact h
        · have : (y.toNat + 1) * 256 ^ t.length ≤ x.toNat * 256 ^ t.length := Nat.mul_le_mul_right _ h
          rw [Nat.add_mul] at this; omega
      rw [hxy] at hv
      have : beValue s = beValue t := by omega
      rw [UInt8.toNat_inj.mp hxy, ih t hl this]

end Bcder.Props.C14
