/-
  C14 — BOOLEAN, NULL and fixed-width INTEGER codecs are exact.
  (header completed at the end of the file's development; see the final comment block below)
-/
import Bcder.Props.C02
import Bcder.Model.Int
import Bcder.Spec.Values
namespace Bcder.Props.C14
open Bcder Bcder.Spec Prog Bcder.Props.C02

/-! ## 1. arithmetic of big-endian octet strings -/

theorem beValue_eq (s : Bytes) : beValue s = s.foldl (fun acc b => acc * 256 + b.toNat) 0 := by
  cases s <;> rfl

theorem foldl_be (s : Bytes) : ∀ acc : Nat,
    s.foldl (fun acc b => acc * 256 + b.toNat) acc =
      acc * 256 ^ s.length + s.foldl (fun acc b => acc * 256 + b.toNat) 0 := by
  induction s with
  | nil => intro acc; simp
  | cons a t ih =>
    intro acc
    simp only [List.foldl_cons, List.length_cons]
    rw [ih (acc * 256 + a.toNat), ih (0 * 256 + a.toNat), Nat.pow_succ]
    grind

theorem beValue_nil : beValue [] = 0 := rfl

theorem beValue_cons (a : UInt8) (s : Bytes) :
    beValue (a :: s) = a.toNat * 256 ^ s.length + beValue s := by
  rw [beValue_eq, beValue_eq, List.foldl_cons, foldl_be]
  simp

theorem beValue_lt (s : Bytes) : beValue s < 256 ^ s.length := by
  induction s with
  | nil => simp [beValue_nil]
  | cons a t ih =>
    rw [beValue_cons, List.length_cons, Nat.pow_succ]
    have h1 : a.toNat * 256 ^ t.length ≤ 255 * 256 ^ t.length :=
      Nat.mul_le_mul_right _ (by have := UInt8.toNat_lt a; omega)
    omega

theorem beValue_append (s t : Bytes) : beValue (s ++ t) = beValue s * 256 ^ t.length + beValue t := by
  rw [beValue_eq, beValue_eq, beValue_eq, List.foldl_append, foldl_be]

theorem pow256_pos (n : Nat) : 0 < 256 ^ n := Nat.pow_pos (by decide)

theorem beValue_replicate_zero (k : Nat) (s : Bytes) : beValue (List.replicate k 0 ++ s) = beValue s := by
  induction k with
  | zero => simp
  | succ k ih => rw [List.replicate_succ, List.cons_append, beValue_cons, ih]; simp

theorem beValue_replicate_ff (k : Nat) (s : Bytes) :
    beValue (List.replicate k 0xFF ++ s) + 256 ^ s.length = 256 ^ (k + s.length) + beValue s := by
  induction k with
  | zero => simp; omega
  | succ k ih =>
    rw [List.replicate_succ, List.cons_append, beValue_cons]
    have e : (List.replicate k (0xFF : UInt8) ++ s).length = k + s.length := by simp
    have e2 : k + 1 + s.length = (k + s.length) + 1 := by omega
    rw [e, e2, Nat.pow_succ]
    have : (0xFF : UInt8).toNat = 255 := rfl
    rw [this]
    omega

/-- `beValue` is injective on octet strings of one length -/
theorem beValue_inj : ∀ (a b : Bytes), a.length = b.length → beValue a = beValue b → a = b := by
  intro a
  induction a with
  | nil => intro b hl _; cases b with | nil => rfl | cons _ _ => simp at hl
  | cons x s ih =>
    intro b hl hv
    cases b with
    | nil => simp at hl
    | cons y t =>
      simp only [List.length_cons, Nat.add_right_cancel_iff] at hl
      rw [beValue_cons, beValue_cons, hl] at hv
      have h1 := beValue_lt s
      have h2 := beValue_lt t
      rw [hl] at h1
      have hP := pow256_pos t.length
      have hxy : x.toNat = y.toNat := by
        rcases Nat.lt_trichotomy x.toNat y.toNat with h | h | h
        · have : (x.toNat + 1) * 256 ^ t.length ≤ y.toNat * 256 ^ t.length := Nat.mul_le_mul_right _ h
          rw [Nat.add_mul] at this; omega
        · exact h
        · have : (y.toNat + 1) * 256 ^ t.length ≤ x.toNat * 256 ^ t.length := Nat.mul_le_mul_right _ h
          rw [Nat.add_mul] at this; omega
      rw [hxy] at hv
      have : beValue s = beValue t := by omega
      rw [UInt8.toNat_inj.mp hxy, ih t hl this]

/-! ## 2. two's complement values -/

/-- signed value of one octet -/
def sb (a : UInt8) : Int := if a.toNat ≥ 128 then (a.toNat : Int) - 256 else a.toNat

theorem sb_bounds (a : UInt8) : -128 ≤ sb a ∧ sb a ≤ 127 := by
  have := UInt8.toNat_lt a
  unfold sb; split <;> omega

theorem beValue_ltI (s : Bytes) : (beValue s : Int) < (256 : Int) ^ s.length := by
  have := Int.ofNat_lt.mpr (beValue_lt s)
  rw [Int.natCast_pow] at this
  exact this

theorem beValue_consI (a : UInt8) (s : Bytes) :
    (beValue (a :: s) : Int) = (a.toNat : Int) * (256 : Int) ^ s.length + (beValue s : Int) := by
  rw [beValue_cons, Int.natCast_add, Int.natCast_mul, Int.natCast_pow]; rfl

theorem tcValue_cons (a : UInt8) (s : Bytes) :
    tcValue (a :: s) = sb a * (256 : Int) ^ s.length + (beValue s : Int) := by
  unfold tcValue sb
  rw [beValue_consI]
  simp only [List.length_cons]
  split <;> grind

theorem mul_bounds (x lo hi P : Int) (hP : 0 ≤ P) (h1 : lo ≤ x) (h2 : x ≤ hi) :
    lo * P ≤ x * P ∧ x * P ≤ hi * P :=
  ⟨Int.mul_le_mul_of_nonneg_right h1 hP, Int.mul_le_mul_of_nonneg_right h2 hP⟩

theorem powI_pos (n : Nat) : (0 : Int) < (256 : Int) ^ n := Int.pow_pos (by decide)

theorem powI_succ (n : Nat) : (256 : Int) ^ (n + 1) = 256 * (256 : Int) ^ n := by
  rw [Int.pow_succ, Int.mul_comm]

theorem powI_mono {i j : Nat} (h : i ≤ j) : (256 : Int) ^ i ≤ (256 : Int) ^ j := by
  have := Int.ofNat_le.mpr (Nat.pow_le_pow_right (n := 256) (by decide) h)
  rw [Int.natCast_pow, Int.natCast_pow] at this
  exact this

/-- `2^(8(n+1)-1) = 128·256^n` -/
theorem half_succ (n : Nat) : (2 : Int) ^ (8 * (n + 1) - 1) = 128 * (256 : Int) ^ n := by
  have e : 8 * (n + 1) - 1 = 8 * n + 7 := by omega
  rw [e, Int.pow_add, Int.pow_mul, Int.mul_comm]; rfl
theorem full (n : Nat) : (2 : Int) ^ (8 * n) = (256 : Int) ^ n := by
  rw [Int.pow_mul]; rfl

theorem beValue_nonnegI (s : Bytes) : (0 : Int) ≤ (beValue s : Int) := Int.natCast_nonneg _

/-- an `n+1`-octet two's complement string denotes a number of the `n+1`-octet range -/
theorem tcValue_range_cons (a : UInt8) (t : Bytes) :
    -(128 * (256 : Int) ^ t.length) ≤ tcValue (a :: t) ∧ tcValue (a :: t) < 128 * (256 : Int) ^ t.length := by
  rw [tcValue_cons]
  have hP := powI_pos t.length
  have hB := beValue_ltI t
  have hB0 := beValue_nonnegI t
  obtain ⟨h1, h2⟩ := sb_bounds a
  obtain ⟨h3, h4⟩ := mul_bounds (sb a) (-128) 127 _ (Int.le_of_lt hP) h1 h2
  omega

theorem isMinimalTC_cons2 (a b : UInt8) (t : Bytes) :
    isMinimalTC (a :: b :: t) = true ↔
      ¬ (a.toNat = 0 ∧ b.toNat < 128) ∧ ¬ (a.toNat = 255 ∧ 128 ≤ b.toNat) := by
  simp [isMinimalTC, byte_beq_iff]
  omega

/-- a minimal form of `n+2` octets denotes a number outside the `n+1`-octet range -/
theorem tcValue_minimal_big (a b : UInt8) (t : Bytes) (hm : isMinimalTC (a :: b :: t) = true) :
    128 * (256 : Int) ^ t.length ≤ tcValue (a :: b :: t) ∨
      tcValue (a :: b :: t) < -(128 * (256 : Int) ^ t.length) := by
  rw [isMinimalTC_cons2] at hm
  obtain ⟨hm1, hm2⟩ := hm
  rw [tcValue_cons, beValue_consI, List.length_cons, powI_succ]
  have hP := powI_pos t.length
  have hB := beValue_ltI t
  have hB0 := beValue_nonnegI t
  have ha := UInt8.toNat_lt a
  have hb := UInt8.toNat_lt b
  have hbn : (0 : Int) ≤ (b.toNat : Int) := Int.natCast_nonneg _
  have hP0 := Int.le_of_lt hP
  have h256 : (0 : Int) ≤ 256 * (256 : Int) ^ t.length := by omega
  unfold sb
  by_cases h128 : a.toNat ≥ 128
  · simp only [h128, if_true]
    right
    by_cases h255 : a.toNat = 255
    · have hb' : b.toNat < 128 := by omega
      obtain ⟨_, h4⟩ := mul_bounds (b.toNat : Int) 0 127 _ hP0 hbn (by omega)
      have e : ((a.toNat : Int) - 256) * (256 * (256 : Int) ^ t.length) = -(256 * (256 : Int) ^ t.length) := by
        rw [h255]; grind
      rw [e]; omega
    · obtain ⟨_, h4⟩ := mul_bounds ((a.toNat : Int) - 256) (-128) (-2) _ h256 (by omega) (by omega)
      obtain ⟨_, h6⟩ := mul_bounds (b.toNat : Int) 0 255 _ hP0 hbn (by omega)
      omega
  · simp only [h128, if_false]
    left
    by_cases h0 : a.toNat = 0
    · have hb' : 128 ≤ b.toNat := by omega
      obtain ⟨h3, _⟩ := mul_bounds (b.toNat : Int) 128 255 _ hP0 (by omega) (by omega)
      rw [h0]; simp only [Int.natCast_zero, Int.zero_mul, Int.zero_add]; omega
    · obtain ⟨h3, _⟩ := mul_bounds (a.toNat : Int) 1 127 _ h256 (by omega) (by omega)
      obtain ⟨h5, _⟩ := mul_bounds (b.toNat : Int) 0 255 _ hP0 hbn (by omega)
      omega

theorem tcValue_of_lt (a : UInt8) (t : Bytes) (h : a.toNat < 128) :
    tcValue (a :: t) = (beValue (a :: t) : Int) := by
  unfold tcValue; simp [Nat.not_le.mpr h]

theorem tcValue_of_ge (a : UInt8) (t : Bytes) (h : 128 ≤ a.toNat) :
    tcValue (a :: t) = (beValue (a :: t) : Int) - (256 : Int) ^ (t.length + 1) := by
  unfold tcValue; simp [h]

/-- `iN::from_be_bytes` computes the two's complement value -/
theorem signedOfBE_eq (s : Bytes) : signedOfBE s = tcValue s := by
  cases s with
  | nil => simp [signedOfBE, tcValue, beValue_nil]
  | cons a t =>
    unfold signedOfBE
    have e : 8 * (a :: t).length - 1 = 8 * t.length + 7 := by simp; omega
    have hP : (2 : Nat) ^ (8 * t.length + 7) = 128 * 256 ^ t.length := by
      rw [Nat.pow_add, Nat.pow_mul, Nat.mul_comm]
    have hc : (beValue (a :: t) ≥ 2 ^ (8 * (a :: t).length - 1) ∧ (a :: t).length > 0) ↔ 128 ≤ a.toNat := by
      rw [e, hP, beValue_cons]
      have hB := beValue_lt t
      have hpos := pow256_pos t.length
      constructor
      · intro ⟨h, _⟩
        apply Decidable.byContradiction; intro hn
        have : a.toNat * 256 ^ t.length ≤ 127 * 256 ^ t.length := Nat.mul_le_mul_right _ (by omega)
        omega
      · intro h
        have : 128 * 256 ^ t.length ≤ a.toNat * 256 ^ t.length := Nat.mul_le_mul_right _ h
        exact ⟨by omega, by simp⟩
    by_cases h : 128 ≤ a.toNat
    · rw [if_pos (hc.mpr h), tcValue_of_ge a t h, List.length_cons, full]
    · rw [if_neg (fun x => h (hc.mp x)), tcValue_of_lt a t (by omega)]

/-- sign extension keeps the two's complement value -/
theorem tcValue_signext (k : Nat) (a : UInt8) (t : Bytes) :
    tcValue (List.replicate k (if (a &&& 0x80) == 0 then (0 : UInt8) else 0xFF) ++ a :: t) = tcValue (a :: t) := by
  cases k with
  | zero => simp
  | succ k =>
    rw [byte_and80_eq0]
    by_cases h : a.toNat < 128
    · simp only [h, decide_true, if_true]
      rw [List.replicate_succ, List.cons_append, tcValue_of_lt 0 _ (by decide), tcValue_of_lt a t h,
        ← List.cons_append, ← List.replicate_succ, beValue_replicate_zero]
    · simp only [h, decide_false, Bool.false_eq_true, if_false]
      rw [List.replicate_succ, List.cons_append, tcValue_of_ge 0xFF _ (by decide), tcValue_of_ge a t (by omega),
        ← List.cons_append, ← List.replicate_succ]
      have h1 := beValue_replicate_ff (k + 1) (a :: t)
      have h2 := congrArg (fun n : Nat => (n : Int)) h1
      simp only [Int.natCast_add, Int.natCast_pow] at h2
      have e : (List.replicate k (255 : UInt8) ++ a :: t).length + 1 = k + 1 + (a :: t).length := by
        simp; omega
      rw [e]
      have c : ((256 : Nat) : Int) = 256 := rfl
      rw [c] at h2
      simp only [List.length_cons] at h2 ⊢
      omega

theorem inRange_signed (w : Nat) (v : Int) :
    inRange true (w + 1) v = true ↔ -(128 * (256 : Int) ^ w) ≤ v ∧ v < 128 * (256 : Int) ^ w := by
  simp [inRange, half_succ]

theorem inRange_unsigned (w : Nat) (v : Int) :
    inRange false w v = true ↔ 0 ≤ v ∧ v < (256 : Int) ^ w := by
  simp [inRange, full]

/-- **Pure core, signed.**  On a minimal two's complement string `slice_to_builtin!(signed, …)` returns the
    value exactly when it lies in the range of the `w`-octet type, and `none` (the caller's error)
    otherwise; it never panics and never wraps. -/
theorem sliceToSigned_eq (w : Nat) (hw : 1 ≤ w) (s : Bytes) (hm : isMinimalTC s = true) :
    sliceToSigned w s = .ok (if inRange true w (tcValue s) then some (tcValue s) else none) := by
  obtain ⟨w, rfl⟩ : ∃ w', w = w' + 1 := ⟨w - 1, by omega⟩
  unfold sliceToSigned
  by_cases hl : s.length > w + 1
  · rw [if_pos hl]
    -- at least two octets
    match s, hm, hl with
    | a :: b :: t, hm, hl =>
      have hbig := tcValue_minimal_big a b t hm
      have hmono : (256 : Int) ^ w ≤ (256 : Int) ^ t.length := powI_mono (by simp at hl; omega)
      have : ¬ inRange true (w + 1) (tcValue (a :: b :: t)) = true := by
        rw [inRange_signed]; omega
      simp [this]
  · rw [if_neg hl]
    match s, hm, hl with
    | a :: t, hm, hl =>
      simp only
      rw [signedOfBE_eq, tcValue_signext]
      obtain ⟨h1, h2⟩ := tcValue_range_cons a t
      have hmono : (256 : Int) ^ t.length ≤ (256 : Int) ^ w := powI_mono (by simp at hl; omega)
      have : inRange true (w + 1) (tcValue (a :: t)) = true := by
        rw [inRange_signed]; omega
      simp [this]
end Bcder.Props.C14
