/-
  C14 — BOOLEAN, NULL and fixed-width INTEGER codecs are exact.

  What is proved (all statements are for EVERY content `c`, every trailing data `rest`, all ten
  integer types `i8 … i128, u8 … u128`, all three modes; no length bounds):

  * pure core (`sliceToSigned_eq`, `sliceToUnsigned_eq`): on a minimal two's complement string the two
    `slice_to_builtin!` routines return `Spec.tcValue` exactly when it is in the `w`-octet range and the
    caller's error otherwise — never a panic, never a wrapped value (`signedOfBE_eq`, `tcValue_signext`:
    `from_be_bytes` after sign extension is the mathematical value);
  * `decode_eq_spec`: a primitive value's content `c` followed by `rest` is presented as the source
    `St (c ++ rest) (some c.length)`; the accessor followed by the framework's `LimitedSource::exhausted`
    (`primRun`) equals the reference `Spec.decodeInt`: value and source left exactly behind the content
    iff `c` is minimal and in range, `Err.content` otherwise.  This covers the hand-written
    `i8_from_primitive`, `u8_from_primitive`, `u16_from_primitive` paths and the `decode_builtin!` macro
    paths.  `decode_ok_iff`, `decode_err` (no panic on any input) are the two directions spelt out;
  * `bool_eq_spec`, `null_eq_spec`: `to_bool` = `Spec.decodeBool` (one octet; BER any non-zero, CER/DER
    only 0xFF), `to_null` succeeds iff the content is empty; `skipU8If_eq_spec`: the expected-value
    helper `skip_u8_if` succeeds iff the content decodes as a `u8` equal to the expected number;
  * encoders: `encInt_spec` (output is minimal and denotes `v`), `minimalTC_unique` (that determines the
    octets), `encInt_eq_minimalTC` (output = `Spec.minimalTC v` octet for octet), `encIntLen_eq`
    (`encoded_len` incl. the `leading_zeros` arithmetic = number of octets written), `roundtrip`,
    `decode_ok_enc` (accepted contents are exactly encoder outputs), `encBool_spec`, `encNull_spec`,
    `bool_roundtrip`, `null_roundtrip`;
  * `decodeSlice_int`, `decodeSlice_bool`: the same on `runG` (`Primitive::decode_slice`), up to the
    contract-breach panics of that layer, which are the subject of C07/C08.

  NOT covered here: the identifier/length octets around the content and the tag check of
  `take_primitive_if` (C02/C12/C13), sources other than `SliceSource` semantics (`runG0`; C07 lifts to
  conforming sources), the arbitrary-size `Integer`/`Unsigned` types (other properties), the
  faithfulness of the model to the Rust code (differential harness).  Encoder theorems assume the value
  is in the type's range (`Spec.inRange`), which is what the Rust type guarantees.
-/
import Bcder.Props.C02
import Bcder.Model.Int
import Bcder.Spec.Values
namespace Bcder.Props.C14
open Bcder Bcder.Spec Prog Bcder.Props.C02

/-! ## 1. arithmetic of big-endian octet strings -/

theorem beValue_eq (s : Bytes) : beValue s = s.foldl (fun acc b => acc * 256 + b.toNat) 0 := by
  cases s <;> rfl

theorem foldl_be (s : Bytes) : ∀ acc : Nat,
    s.foldl (fun acc b => acc * 256 + b.toNat) acc =
      acc * 256 ^ s.length + s.foldl (fun acc b => acc * 256 + b.toNat) 0 := by
  induction s with
  | nil => intro acc; simp
  | cons a t ih =>
    intro acc
    simp only [List.foldl_cons, List.length_cons]
    rw [ih (acc * 256 + a.toNat), ih (0 * 256 + a.toNat), Nat.pow_succ]
    grind

theorem beValue_nil : beValue [] = 0 := rfl

theorem beValue_cons (a : UInt8) (s : Bytes) :
    beValue (a :: s) = a.toNat * 256 ^ s.length + beValue s := by
  rw [beValue_eq, beValue_eq, List.foldl_cons, foldl_be]
  simp

theorem beValue_lt (s : Bytes) : beValue s < 256 ^ s.length := by
  induction s with
  | nil => simp [beValue_nil]
  | cons a t ih =>
    rw [beValue_cons, List.length_cons, Nat.pow_succ]
    have h1 : a.toNat * 256 ^ t.length ≤ 255 * 256 ^ t.length :=
      Nat.mul_le_mul_right _ (by have := UInt8.toNat_lt a; omega)
    omega

theorem beValue_append (s t : Bytes) : beValue (s ++ t) = beValue s * 256 ^ t.length + beValue t := by
  rw [beValue_eq, beValue_eq, beValue_eq, List.foldl_append, foldl_be]

theorem pow256_pos (n : Nat) : 0 < 256 ^ n := Nat.pow_pos (by decide)

theorem beValue_replicate_zero (k : Nat) (s : Bytes) : beValue (List.replicate k 0 ++ s) = beValue s := by
  induction k with
  | zero => simp
  | succ k ih => rw [List.replicate_succ, List.cons_append, beValue_cons, ih]; simp

theorem beValue_replicate_ff (k : Nat) (s : Bytes) :
    beValue (List.replicate k 0xFF ++ s) + 256 ^ s.length = 256 ^ (k + s.length) + beValue s := by
  induction k with
  | zero => simp; omega
  | succ k ih =>
    rw [List.replicate_succ, List.cons_append, beValue_cons]
    have e : (List.replicate k (0xFF : UInt8) ++ s).length = k + s.length := by simp
    have e2 : k + 1 + s.length = (k + s.length) + 1 := by omega
    rw [e, e2, Nat.pow_succ]
    have : (0xFF : UInt8).toNat = 255 := rfl
    rw [this]
    omega

/-- `beValue` is injective on octet strings of one length -/
theorem beValue_inj : ∀ (a b : Bytes), a.length = b.length → beValue a = beValue b → a = b := by
  intro a
  induction a with
  | nil => intro b hl _; cases b with | nil => rfl | cons _ _ => simp at hl
  | cons x s ih =>
    intro b hl hv
    cases b with
    | nil => simp at hl
    | cons y t =>
      simp only [List.length_cons, Nat.add_right_cancel_iff] at hl
      rw [beValue_cons, beValue_cons, hl] at hv
      have h1 := beValue_lt s
      have h2 := beValue_lt t
      rw [hl] at h1
      have hP := pow256_pos t.length
      have hxy : x.toNat = y.toNat := by
        rcases Nat.lt_trichotomy x.toNat y.toNat with h | h | h
        · have : (x.toNat + 1) * 256 ^ t.length ≤ y.toNat * 256 ^ t.length := Nat.mul_le_mul_right _ h
          rw [Nat.add_mul] at this; omega
        · exact h
        · have : (y.toNat + 1) * 256 ^ t.length ≤ x.toNat * 256 ^ t.length := Nat.mul_le_mul_right _ h
          rw [Nat.add_mul] at this; omega
      rw [hxy] at hv
      have : beValue s = beValue t := by omega
      rw [UInt8.toNat_inj.mp hxy, ih t hl this]

/-! ## 2. two's complement values -/

/-- signed value of one octet -/
def sb (a : UInt8) : Int := if a.toNat ≥ 128 then (a.toNat : Int) - 256 else a.toNat

theorem sb_bounds (a : UInt8) : -128 ≤ sb a ∧ sb a ≤ 127 := by
  have := UInt8.toNat_lt a
  unfold sb; split <;> omega

theorem beValue_ltI (s : Bytes) : (beValue s : Int) < (256 : Int) ^ s.length := by
  have := Int.ofNat_lt.mpr (beValue_lt s)
  rw [Int.natCast_pow] at this
  exact this

theorem beValue_consI (a : UInt8) (s : Bytes) :
    (beValue (a :: s) : Int) = (a.toNat : Int) * (256 : Int) ^ s.length + (beValue s : Int) := by
  rw [beValue_cons, Int.natCast_add, Int.natCast_mul, Int.natCast_pow]; rfl

theorem tcValue_cons (a : UInt8) (s : Bytes) :
    tcValue (a :: s) = sb a * (256 : Int) ^ s.length + (beValue s : Int) := by
  unfold tcValue sb
  rw [beValue_consI]
  simp only [List.length_cons]
  split <;> grind

theorem mul_bounds (x lo hi P : Int) (hP : 0 ≤ P) (h1 : lo ≤ x) (h2 : x ≤ hi) :
    lo * P ≤ x * P ∧ x * P ≤ hi * P :=
  ⟨Int.mul_le_mul_of_nonneg_right h1 hP, Int.mul_le_mul_of_nonneg_right h2 hP⟩

theorem powI_pos (n : Nat) : (0 : Int) < (256 : Int) ^ n := Int.pow_pos (by decide)

theorem powI_succ (n : Nat) : (256 : Int) ^ (n + 1) = 256 * (256 : Int) ^ n := by
  rw [Int.pow_succ, Int.mul_comm]

theorem powI_mono {i j : Nat} (h : i ≤ j) : (256 : Int) ^ i ≤ (256 : Int) ^ j := by
  have := Int.ofNat_le.mpr (Nat.pow_le_pow_right (n := 256) (by decide) h)
  rw [Int.natCast_pow, Int.natCast_pow] at this
  exact this

/-- `2^(8(n+1)-1) = 128·256^n` -/
theorem half_succ (n : Nat) : (2 : Int) ^ (8 * (n + 1) - 1) = 128 * (256 : Int) ^ n := by
  have e : 8 * (n + 1) - 1 = 8 * n + 7 := by omega
  rw [e, Int.pow_add, Int.pow_mul, Int.mul_comm]; rfl
theorem full (n : Nat) : (2 : Int) ^ (8 * n) = (256 : Int) ^ n := by
  rw [Int.pow_mul]; rfl

theorem beValue_nonnegI (s : Bytes) : (0 : Int) ≤ (beValue s : Int) := Int.natCast_nonneg _

/-- an `n+1`-octet two's complement string denotes a number of the `n+1`-octet range -/
theorem tcValue_range_cons (a : UInt8) (t : Bytes) :
    -(128 * (256 : Int) ^ t.length) ≤ tcValue (a :: t) ∧ tcValue (a :: t) < 128 * (256 : Int) ^ t.length := by
  rw [tcValue_cons]
  have hP := powI_pos t.length
  have hB := beValue_ltI t
  have hB0 := beValue_nonnegI t
  obtain ⟨h1, h2⟩ := sb_bounds a
  obtain ⟨h3, h4⟩ := mul_bounds (sb a) (-128) 127 _ (Int.le_of_lt hP) h1 h2
  omega

theorem isMinimalTC_cons2 (a b : UInt8) (t : Bytes) :
    isMinimalTC (a :: b :: t) = true ↔
      ¬ (a.toNat = 0 ∧ b.toNat < 128) ∧ ¬ (a.toNat = 255 ∧ 128 ≤ b.toNat) := by
  simp [isMinimalTC, byte_beq_iff]
  omega

/-- a minimal form of `n+2` octets denotes a number outside the `n+1`-octet range -/
theorem tcValue_minimal_big (a b : UInt8) (t : Bytes) (hm : isMinimalTC (a :: b :: t) = true) :
    128 * (256 : Int) ^ t.length ≤ tcValue (a :: b :: t) ∨
      tcValue (a :: b :: t) < -(128 * (256 : Int) ^ t.length) := by
  rw [isMinimalTC_cons2] at hm
  obtain ⟨hm1, hm2⟩ := hm
  rw [tcValue_cons, beValue_consI, List.length_cons, powI_succ]
  have hP := powI_pos t.length
  have hB := beValue_ltI t
  have hB0 := beValue_nonnegI t
  have ha := UInt8.toNat_lt a
  have hb := UInt8.toNat_lt b
  have hbn : (0 : Int) ≤ (b.toNat : Int) := Int.natCast_nonneg _
  have hP0 := Int.le_of_lt hP
  have h256 : (0 : Int) ≤ 256 * (256 : Int) ^ t.length := by omega
  unfold sb
  by_cases h128 : a.toNat ≥ 128
  · simp only [h128, if_true]
    right
    by_cases h255 : a.toNat = 255
    · have hb' : b.toNat < 128 := by omega
      obtain ⟨_, h4⟩ := mul_bounds (b.toNat : Int) 0 127 _ hP0 hbn (by omega)
      have e : ((a.toNat : Int) - 256) * (256 * (256 : Int) ^ t.length) = -(256 * (256 : Int) ^ t.length) := by
        rw [h255]; grind
      rw [e]; omega
    · obtain ⟨_, h4⟩ := mul_bounds ((a.toNat : Int) - 256) (-128) (-2) _ h256 (by omega) (by omega)
      obtain ⟨_, h6⟩ := mul_bounds (b.toNat : Int) 0 255 _ hP0 hbn (by omega)
      omega
  · simp only [h128, if_false]
    left
    by_cases h0 : a.toNat = 0
    · have hb' : 128 ≤ b.toNat := by omega
      obtain ⟨h3, _⟩ := mul_bounds (b.toNat : Int) 128 255 _ hP0 (by omega) (by omega)
      rw [h0]; simp only [Int.natCast_zero, Int.zero_mul, Int.zero_add]; omega
    · obtain ⟨h3, _⟩ := mul_bounds (a.toNat : Int) 1 127 _ h256 (by omega) (by omega)
      obtain ⟨h5, _⟩ := mul_bounds (b.toNat : Int) 0 255 _ hP0 hbn (by omega)
      omega

theorem tcValue_of_lt (a : UInt8) (t : Bytes) (h : a.toNat < 128) :
    tcValue (a :: t) = (beValue (a :: t) : Int) := by
  unfold tcValue; simp [Nat.not_le.mpr h]

theorem tcValue_of_ge (a : UInt8) (t : Bytes) (h : 128 ≤ a.toNat) :
    tcValue (a :: t) = (beValue (a :: t) : Int) - (256 : Int) ^ (t.length + 1) := by
  unfold tcValue; simp [h]

/-- `iN::from_be_bytes` computes the two's complement value -/
theorem signedOfBE_eq (s : Bytes) : signedOfBE s = tcValue s := by
  cases s with
  | nil => simp [signedOfBE, tcValue, beValue_nil]
  | cons a t =>
    unfold signedOfBE
    have e : 8 * (a :: t).length - 1 = 8 * t.length + 7 := by simp; omega
    have hP : (2 : Nat) ^ (8 * t.length + 7) = 128 * 256 ^ t.length := by
      rw [Nat.pow_add, Nat.pow_mul, Nat.mul_comm]
    have hc : (beValue (a :: t) ≥ 2 ^ (8 * (a :: t).length - 1) ∧ (a :: t).length > 0) ↔ 128 ≤ a.toNat := by
      rw [e, hP, beValue_cons]
      have hB := beValue_lt t
      have hpos := pow256_pos t.length
      constructor
      · intro ⟨h, _⟩
        apply Decidable.byContradiction; intro hn
        have : a.toNat * 256 ^ t.length ≤ 127 * 256 ^ t.length := Nat.mul_le_mul_right _ (by omega)
        omega
      · intro h
        have : 128 * 256 ^ t.length ≤ a.toNat * 256 ^ t.length := Nat.mul_le_mul_right _ h
        exact ⟨by omega, by simp⟩
    by_cases h : 128 ≤ a.toNat
    · rw [if_pos (hc.mpr h), tcValue_of_ge a t h, List.length_cons, full]
    · rw [if_neg (fun x => h (hc.mp x)), tcValue_of_lt a t (by omega)]

/-- sign extension keeps the two's complement value -/
theorem tcValue_signext (k : Nat) (a : UInt8) (t : Bytes) :
    tcValue (List.replicate k (if (a &&& 0x80) == 0 then (0 : UInt8) else 0xFF) ++ a :: t) = tcValue (a :: t) := by
  cases k with
  | zero => simp
  | succ k =>
    rw [byte_and80_eq0]
    by_cases h : a.toNat < 128
    · simp only [h, decide_true, if_true]
      rw [List.replicate_succ, List.cons_append, tcValue_of_lt 0 _ (by decide), tcValue_of_lt a t h,
        ← List.cons_append, ← List.replicate_succ, beValue_replicate_zero]
    · simp only [h, decide_false, Bool.false_eq_true, if_false]
      rw [List.replicate_succ, List.cons_append, tcValue_of_ge 0xFF _ (by decide), tcValue_of_ge a t (by omega),
        ← List.cons_append, ← List.replicate_succ]
      have h1 := beValue_replicate_ff (k + 1) (a :: t)
      have h2 := congrArg (fun n : Nat => (n : Int)) h1
      simp only [Int.natCast_add, Int.natCast_pow] at h2
      have e : (List.replicate k (255 : UInt8) ++ a :: t).length + 1 = k + 1 + (a :: t).length := by
        simp; omega
      rw [e]
      have c : ((256 : Nat) : Int) = 256 := rfl
      rw [c] at h2
      simp only [List.length_cons] at h2 ⊢
      omega

theorem inRange_signed (w : Nat) (v : Int) :
    inRange true (w + 1) v = true ↔ -(128 * (256 : Int) ^ w) ≤ v ∧ v < 128 * (256 : Int) ^ w := by
  simp [inRange, half_succ]

theorem inRange_unsigned (w : Nat) (v : Int) :
    inRange false w v = true ↔ 0 ≤ v ∧ v < (256 : Int) ^ w := by
  simp [inRange, full]

/-- **Pure core, signed.**  On a minimal two's complement string `slice_to_builtin!(signed, …)` returns the
    value exactly when it lies in the range of the `w`-octet type, and `none` (the caller's error)
    otherwise; it never panics and never wraps. -/
theorem sliceToSigned_eq (w : Nat) (hw : 1 ≤ w) (s : Bytes) (hm : isMinimalTC s = true) :
    sliceToSigned w s = .ok (if inRange true w (tcValue s) then some (tcValue s) else none) := by
  obtain ⟨w, rfl⟩ : ∃ w', w = w' + 1 := ⟨w - 1, by omega⟩
  unfold sliceToSigned
  by_cases hl : s.length > w + 1
  · rw [if_pos hl]
    -- at least two octets
    match s, hm, hl with
    | a :: b :: t, hm, hl =>
      have hbig := tcValue_minimal_big a b t hm
      have hmono : (256 : Int) ^ w ≤ (256 : Int) ^ t.length := powI_mono (by simp at hl; omega)
      have : ¬ inRange true (w + 1) (tcValue (a :: b :: t)) = true := by
        rw [inRange_signed]; omega
      simp [this]
  · rw [if_neg hl]
    match s, hm, hl with
    | a :: t, hm, hl =>
      simp only
      rw [signedOfBE_eq, tcValue_signext]
      obtain ⟨h1, h2⟩ := tcValue_range_cons a t
      have hmono : (256 : Int) ^ t.length ≤ (256 : Int) ^ w := powI_mono (by simp at hl; omega)
      have : inRange true (w + 1) (tcValue (a :: t)) = true := by
        rw [inRange_signed]; omega
      simp [this]

/-- **Pure core, unsigned.**  Same for `slice_to_builtin!(unsigned, …)`. -/
theorem sliceToUnsigned_eq (w : Nat) (s : Bytes) (hm : isMinimalTC s = true) :
    sliceToUnsigned w s =
      .ok (if inRange false w (tcValue s) then some (tcValue s).toNat else none) := by
  match s, hm with
  | a :: t, hm =>
  unfold sliceToUnsigned
  simp only [byte_and80_ne0]
  by_cases h128 : 128 ≤ a.toNat
  · have hv := tcValue_of_ge a t h128
    have hlt := beValue_ltI (a :: t)
    have : ¬ inRange false w (tcValue (a :: t)) = true := by
      rw [inRange_unsigned]; simp only [List.length_cons] at hlt; omega
    simp [h128, this]
  · simp only [h128, decide_false, Bool.false_eq_true, if_false]
    have hv := tcValue_of_lt a t (by omega)
    by_cases h0 : a = 0
    · subst h0
      simp only [beq_self_eq_true, if_true]
      have hv' : tcValue (0 :: t) = (beValue t : Int) := by
        rw [hv, beValue_cons]; simp
      cases t with
      | nil =>
        have : inRange false w (tcValue [0]) = true := by
          rw [inRange_unsigned, hv']; simp [beValue_nil, powI_pos]
        rw [if_pos this, hv']; simp [beValue_nil]
      | cons b t' =>
        rw [isMinimalTC_cons2] at hm
        have hb : 128 ≤ b.toNat := by
          have : (0 : UInt8).toNat = 0 := rfl
          omega
        have hne : ¬ ((b :: t').length == 0) = true := by simp
        simp only [hne, Bool.false_eq_true, if_false]
        by_cases hl : (b :: t').length > w
        · rw [if_pos hl]
          have hmono : (256 : Int) ^ w ≤ (256 : Int) ^ t'.length := powI_mono (by simp at hl; omega)
          have hP := powI_pos t'.length
          obtain ⟨h3, _⟩ := mul_bounds (b.toNat : Int) 128 255 _ (Int.le_of_lt hP) (by omega)
            (by have := UInt8.toNat_lt b; omega)
          have hB0 := beValue_nonnegI t'
          have : ¬ inRange false w (tcValue (0 :: b :: t')) = true := by
            rw [inRange_unsigned, hv', beValue_consI]; omega
          simp [this]
        · rw [if_neg hl]
          have hmono : (256 : Int) ^ (b :: t').length ≤ (256 : Int) ^ w := powI_mono (by omega)
          have hlt := beValue_ltI (b :: t')
          have : inRange false w (tcValue (0 :: b :: t')) = true := by
            rw [inRange_unsigned, hv']; omega
          rw [beValue_replicate_zero, if_pos this, hv']; simp
    · have hne0 : ¬ (a == 0) = true := by simp [h0]
      simp only [hne0, Bool.false_eq_true, if_false]
      have hne : ¬ ((a :: t).length == 0) = true := by simp
      simp only [hne, Bool.false_eq_true, if_false]
      have ha1 : 1 ≤ a.toNat := by
        apply Decidable.byContradiction; intro hn
        exact h0 (UInt8.toNat_inj.mp (by simp; omega))
      by_cases hl : (a :: t).length > w
      · rw [if_pos hl]
        have hmono : (256 : Int) ^ w ≤ (256 : Int) ^ t.length := powI_mono (by simp at hl; omega)
        have hP := powI_pos t.length
        obtain ⟨h3, _⟩ := mul_bounds (a.toNat : Int) 1 255 _ (Int.le_of_lt hP) (by omega)
          (by have := UInt8.toNat_lt a; omega)
        have hB0 := beValue_nonnegI t
        have : ¬ inRange false w (tcValue (a :: t)) = true := by
          rw [inRange_unsigned, hv, beValue_consI]; omega
        simp [this]
      · rw [if_neg hl]
        have hmono : (256 : Int) ^ (a :: t).length ≤ (256 : Int) ^ w := powI_mono (by omega)
        have hlt := beValue_ltI (a :: t)
        have : inRange false w (tcValue (a :: t)) = true := by
          rw [inRange_unsigned, hv]; omega
        rw [beValue_replicate_zero, if_pos this, hv]; simp

/-! ## 3. the source primitives on a primitive value's content window -/

/-- how a primitive value with content `c`, followed by `rest`, is presented to an accessor -/
abbrev Win (c rest : Bytes) : G0 := St (c ++ rest) (some c.length)

theorem view_St (d : Bytes) (l : Nat) : (St d (some l)).view = d.take l := rfl

theorem view_Win (c rest : Bytes) : (Win c rest).view = c := by
  simp [G0.view]

theorem run_peek2 (g : G0) :
    runG0 peek2 g = .ok ((min 2 g.view.length, g.view[0]?, g.view[1]?), g) := by
  simp [peek2, runG0, stepG0]

theorem run_remaining (d : Bytes) (l : Nat) :
    runG0 Prim.remaining (St d (some l)) = .ok (l, St d (some l)) := by
  unfold Prim.remaining
  simp only [runG0_bind, run_getLimit, runG0_pure]

theorem run_takeOptU8_nil (rest : Bytes) : runG0 takeOptU8 (Win [] rest) = .ok (none, Win [] rest) := by
  simp [takeOptU8, runG0, stepG0, G0.view]

theorem run_takeOptU8_cons (x : UInt8) (c rest : Bytes) :
    runG0 takeOptU8 (Win (x :: c) rest) = .ok (some x, Win c rest) := by
  simp [takeOptU8, runG0, stepG0, G0.view, G0.advance]

theorem run_takeU8_nil (rest : Bytes) : runG0 takeU8 (Win [] rest) = .error .content := by
  unfold takeU8
  rw [runG0_bind, run_takeOptU8_nil]; rfl

theorem run_takeU8_cons (x : UInt8) (c rest : Bytes) :
    runG0 takeU8 (Win (x :: c) rest) = .ok (x, Win c rest) := by
  unfold takeU8
  rw [runG0_bind, run_takeOptU8_cons]; rfl

theorem run_sliceN (c rest : Bytes) :
    runG0 (sliceN c.length) (Win c rest) = .ok (c, Win c rest) := by
  simp [sliceN, runG0, stepG0, G0.view]

theorem run_skipN (c rest : Bytes) :
    runG0 (skipN c.length) (Win c rest) = .ok ((), Win [] rest) := by
  have : ¬ (c.length + rest.length < c.length) := by omega
  simp [skipN, runG0, stepG0, G0.view, G0.advance, this]

theorem run_need_Win (c rest : Bytes) :
    runG0 (need c.length) (Win c rest) = .ok (true, Win c rest) := by
  rw [run_need, view_Win]; simp

theorem run_exhausted_Win (c rest : Bytes) :
    runG0 limitedExhausted (Win c rest) = if c = [] then .ok ((), Win [] rest) else .error .content := by
  rw [run_limitedExhausted]
  cases c <;> simp

/-- an accessor `p` applied to content `c` (followed by `rest`), then the framework's
    `LimitedSource::exhausted` check -/
def primRun (p : Prog α) (c rest : Bytes) : Res (α × G0) :=
  runG0 (do let a ← p; limitedExhausted; pure a) (St (c ++ rest) (some c.length))

theorem primRun_eq (p : Prog α) (c rest : Bytes) :
    primRun p c rest = match runG0 p (Win c rest) with
      | .ok (a, g) => (match runG0 limitedExhausted g with
        | .ok (_, g') => .ok (a, g')
        | .error e => .error e)
      | .error e => .error e := by
  unfold primRun
  rw [runG0_bind]
  cases runG0 p (Win c rest) with
  | error e => rfl
  | ok r =>
    obtain ⟨a, g⟩ := r
    simp only [runG0_bind]
    cases runG0 limitedExhausted g with
    | error e => rfl
    | ok r => rfl

/-! ## 4. `check_head` -/

theorem run_checkHeadSigned (c rest : Bytes) :
    runG0 checkHeadSigned (Win c rest) =
      if isMinimalTC c then .ok ((), Win c rest) else .error .content := by
  unfold checkHeadSigned
  rw [runG0_bind, run_peek2, view_Win]
  match c with
  | [] => simp [isMinimalTC]
  | [a] => simp [isMinimalTC]
  | a :: b :: t =>
    simp only [List.length_cons, List.getElem?_cons_zero, List.getElem?_cons_succ, Option.map_some]
    have hn : ¬ ((min 2 (t.length + 1 + 1) == 0) = true) := by simp
    simp only [hn, Bool.false_eq_true, if_false]
    split
    · rename_i h1 h2
      simp only [Option.some.injEq, byte_and80_ne0, decide_eq_false_iff_not] at h1 h2
      have : ¬ isMinimalTC (a :: b :: t) = true := by
        rw [isMinimalTC_cons2, h1]; simp; omega
      rw [if_neg this]; rfl
    · rename_i h1 h2
      simp only [Option.some.injEq, byte_and80_ne0, decide_eq_true_eq] at h1 h2
      have : ¬ isMinimalTC (a :: b :: t) = true := by
        rw [isMinimalTC_cons2, h1]; simp; omega
      rw [if_neg this]; rfl
    · rename_i h1 h2
      simp only [Option.some.injEq, byte_and80_ne0, decide_eq_false_iff_not, decide_eq_true_eq] at h1 h2
      have : isMinimalTC (a :: b :: t) = true := by
        rw [isMinimalTC_cons2]
        constructor
        · intro ⟨ha, hb⟩; exact h1 (UInt8.toNat_inj.mp ha) (by omega)
        · intro ⟨ha, hb⟩; exact h2 (UInt8.toNat_inj.mp ha) hb
      rw [if_pos this]; rfl

theorem run_checkHeadUnsigned_nil (rest : Bytes) :
    runG0 checkHeadUnsigned (Win [] rest) = .error .content := by
  unfold checkHeadUnsigned
  rw [runG0_bind, run_peek2, view_Win]
  simp

theorem run_checkHeadUnsigned_cons (a : UInt8) (t rest : Bytes) :
    runG0 checkHeadUnsigned (Win (a :: t) rest) =
      if isMinimalTC (a :: t) && decide (a.toNat < 128) then .ok ((), Win (a :: t) rest)
      else .error .content := by
  unfold checkHeadUnsigned
  rw [runG0_bind, run_peek2, view_Win]
  match t with
  | [] =>
    simp only [List.length_cons, List.length_nil, List.getElem?_cons_zero, List.getElem?_cons_succ,
      List.getElem?_nil, Option.map_none]
    have hn : ¬ ((min 2 (0 + 1) == 0) = true) := by simp
    simp only [hn, Bool.false_eq_true, if_false, byte_and80_ne0, isMinimalTC, Bool.true_and]
    by_cases h : a.toNat < 128
    · have : ¬ 128 ≤ a.toNat := by omega
      simp [h, this]
    · have : 128 ≤ a.toNat := by omega
      simp [h, this]
  | b :: t =>
    simp only [List.length_cons, List.getElem?_cons_zero, List.getElem?_cons_succ, Option.map_some]
    have hn : ¬ ((min 2 (t.length + 1 + 1) == 0) = true) := by simp
    simp only [hn, Bool.false_eq_true, if_false]
    split
    · rename_i h1 h2
      simp only [Option.some.injEq, byte_and80_ne0, decide_eq_false_iff_not] at h1 h2
      have : ¬ isMinimalTC (a :: b :: t) = true := by
        rw [isMinimalTC_cons2, h1]; simp; omega
      simp [this]
    · rename_i h1 h2
      simp only [Option.some.injEq, byte_and80_ne0, decide_eq_true_eq] at h1 h2
      have : ¬ isMinimalTC (a :: b :: t) = true := by
        rw [isMinimalTC_cons2, h1]; simp; omega
      simp [this]
    · rename_i h1 h2
      simp only [Option.some.injEq, byte_and80_ne0, decide_eq_false_iff_not, decide_eq_true_eq] at h1 h2
      have : isMinimalTC (a :: b :: t) = true := by
        rw [isMinimalTC_cons2]
        constructor
        · intro ⟨ha, hb⟩; exact h1 (UInt8.toNat_inj.mp ha) (by omega)
        · intro ⟨ha, hb⟩; exact h2 (UInt8.toNat_inj.mp ha) hb
      simp only [this, Bool.true_and, byte_and80_ne0]
      by_cases h : a.toNat < 128
      · have : ¬ 128 ≤ a.toNat := by omega
        simp [h, this]
      · have : 128 ≤ a.toNat := by omega
        simp [h, this]

/-! ## 5. the accessors -/

theorem run_liftSlice (f : Bytes → Res (Option α)) (c rest : Bytes) :
    runG0 (liftSlice f) (Win c rest) = match f c with
      | .error e => .error e
      | .ok none => .error .content
      | .ok (some a) => .ok (a, Win [] rest) := by
  unfold liftSlice
  rw [runG0_bind, run_remaining]
  simp only
  rw [runG0_bind, run_need_Win]
  simp only [if_true]
  rw [runG0_bind, run_sliceN]
  simp only
  match f c with
  | .error e => rfl
  | .ok none => rfl
  | .ok (some a) =>
    simp only
    rw [runG0_bind, run_skipN]; rfl

/-- the result an accessor must produce for content `c`, given the reference decoder's verdict -/
def expect (r : Option α) (rest : Bytes) : Res (α × G0) :=
  match r with
  | some v => .ok (v, St rest (some 0))
  | none => .error .content

theorem decodeInt_of_not_minimal (sg : Bool) (w : Nat) (c : Bytes) (h : ¬ isMinimalTC c = true) :
    decodeInt sg w c = none := by
  simp [decodeInt, h]

theorem decodeInt_of_minimal (sg : Bool) (w : Nat) (c : Bytes) (h : isMinimalTC c = true) :
    decodeInt sg w c = if inRange sg w (tcValue c) then some (tcValue c) else none := by
  simp [decodeInt, h]

theorem primRun_decodeSigned (w : Nat) (hw : 1 ≤ w) (c rest : Bytes) :
    primRun (decodeSigned w) c rest = expect (decodeInt true w c) rest := by
  rw [primRun_eq]
  unfold decodeSigned
  rw [runG0_bind, run_checkHeadSigned]
  by_cases hm : isMinimalTC c = true
  · rw [if_pos hm]
    simp only
    rw [run_liftSlice, sliceToSigned_eq w hw c hm, decodeInt_of_minimal _ _ _ hm]
    by_cases hr : inRange true w (tcValue c) = true
    · simp only [hr, if_true]
      rw [run_exhausted_Win]; rfl
    · simp only [hr, Bool.false_eq_true, if_false]; rfl
  · rw [if_neg hm, decodeInt_of_not_minimal _ _ _ hm]; rfl

theorem tcValue_neg_of_ge (a : UInt8) (t : Bytes) (h : 128 ≤ a.toNat) : tcValue (a :: t) < 0 := by
  rw [tcValue_of_ge a t h]
  have := beValue_ltI (a :: t)
  simp only [List.length_cons] at this
  omega

theorem not_inRange_unsigned_of_ge (w : Nat) (a : UInt8) (t : Bytes) (h : 128 ≤ a.toNat) :
    ¬ inRange false w (tcValue (a :: t)) = true := by
  rw [inRange_unsigned]
  have := tcValue_neg_of_ge a t h
  omega

theorem primRun_decodeUnsigned (w : Nat) (c rest : Bytes) :
    primRun (do let n ← decodeUnsigned w; pure (n : Int)) c rest = expect (decodeInt false w c) rest := by
  rw [primRun_eq, runG0_bind]
  unfold decodeUnsigned
  rw [runG0_bind]
  match c with
  | [] => rw [run_checkHeadUnsigned_nil]; rfl
  | a :: t =>
    rw [run_checkHeadUnsigned_cons]
    by_cases hm : isMinimalTC (a :: t) = true
    · by_cases ha : a.toNat < 128
      · simp only [hm, ha, decide_true, Bool.and_self, if_true]
        rw [run_liftSlice, sliceToUnsigned_eq w _ hm, decodeInt_of_minimal _ _ _ hm]
        by_cases hr : inRange false w (tcValue (a :: t)) = true
        · simp only [hr, if_true, runG0_pure]
          rw [run_exhausted_Win]
          have h0 : 0 ≤ tcValue (a :: t) := ((inRange_unsigned _ _).mp hr).1
          simp only [if_true, expect, Int.toNat_of_nonneg h0]
          rfl
        · simp only [hr, Bool.false_eq_true, if_false]; rfl
      · have hr := not_inRange_unsigned_of_ge w a t (by omega)
        simp only [ha, decide_false, Bool.and_false, Bool.false_eq_true, if_false]
        rw [decodeInt_of_minimal _ _ _ hm, if_neg hr]; rfl
    · simp only [hm, Bool.false_and, Bool.false_eq_true, if_false]
      rw [decodeInt_of_not_minimal _ _ _ hm]; rfl

theorem tcValue_single (a : UInt8) :
    tcValue [a] = if a.toNat ≥ 128 then (a.toNat : Int) - 256 else (a.toNat : Int) := by
  rw [tcValue_cons]; simp [sb, beValue_nil]

theorem primRun_i8 (c rest : Bytes) :
    primRun i8FromPrimitive c rest = expect (decodeInt true 1 c) rest := by
  rw [primRun_eq]
  unfold i8FromPrimitive
  rw [runG0_bind, run_checkHeadSigned]
  by_cases hm : isMinimalTC c = true
  · rw [if_pos hm, decodeInt_of_minimal _ _ _ hm]
    simp only
    match c, hm with
    | [a], _ =>
      rw [runG0_bind, run_takeU8_cons]
      simp only [runG0_pure]
      rw [run_exhausted_Win]
      have hr : inRange true 1 (tcValue [a]) = true := by
        have := tcValue_range_cons a []
        rw [(inRange_signed 0 _)]
        exact this
      rw [if_pos hr, tcValue_single]
      rfl
    | a :: b :: t, hm =>
      rw [runG0_bind, run_takeU8_cons]
      simp only [runG0_pure]
      rw [run_exhausted_Win]
      have hr : ¬ inRange true 1 (tcValue (a :: b :: t)) = true := by
        have hbig := tcValue_minimal_big a b t hm
        have hP := powI_pos t.length
        rw [(inRange_signed 0 _)]
        simp only [Int.pow_zero]
        omega
      rw [if_neg hr]
      rfl
  · rw [if_neg hm, decodeInt_of_not_minimal _ _ _ hm]; rfl

theorem primRun_u8 (c rest : Bytes) :
    primRun (do let n ← u8FromPrimitive; pure (n : Int)) c rest = expect (decodeInt false 1 c) rest := by
  rw [primRun_eq, runG0_bind]
  unfold u8FromPrimitive
  rw [runG0_bind]
  match c with
  | [] => rw [run_checkHeadUnsigned_nil]; rfl
  | a :: t =>
    rw [run_checkHeadUnsigned_cons]
    by_cases hm : isMinimalTC (a :: t) = true
    · by_cases ha : a.toNat < 128
      · simp only [hm, ha, decide_true, Bool.and_self, if_true]
        rw [runG0_bind, run_remaining, decodeInt_of_minimal _ _ _ hm]
        have hv := tcValue_of_lt a t ha
        cases t with
        | nil =>
          generalize hg : St ([a] ++ rest) (some [a].length) = g
          simp only [List.length_cons, List.length_nil, Nat.zero_add]
          subst hg
          rw [runG0_bind, run_takeU8_cons]
          simp only [runG0_pure]
          rw [run_exhausted_Win]
          have hr : inRange false 1 (tcValue [a]) = true := by
            rw [inRange_unsigned, hv, beValue_cons]
            simp [beValue_nil]; omega
          rw [if_pos hr, hv, beValue_cons]
          simp [beValue_nil, expect]
        | cons b t2 =>
          cases t2 with
          | nil =>
            generalize hg : St ([a, b] ++ rest) (some [a, b].length) = g
            simp only [List.length_cons, List.length_nil, Nat.zero_add]
            subst hg
            rw [runG0_bind, run_takeU8_cons]
            simp only
            have hb := UInt8.toNat_lt b
            by_cases h0 : a = 0
            · subst h0
              simp only [bne_self_eq_false, Bool.false_eq_true, if_false]
              rw [runG0_bind, run_takeU8_cons]
              simp only [runG0_pure]
              rw [run_exhausted_Win]
              have hv' : tcValue [0, b] = (b.toNat : Int) := by
                rw [hv, beValue_cons, beValue_cons]; simp [beValue_nil]
              have hr : inRange false 1 (tcValue [0, b]) = true := by
                rw [inRange_unsigned, hv']; simp; omega
              rw [if_pos hr, hv']
              simp [expect]
            · have hne : (a != 0) = true := by simp [h0]
              simp only [hne, if_true, runG0_contentErr]
              have ha1 : 1 ≤ a.toNat := by
                apply Decidable.byContradiction; intro hn
                exact h0 (UInt8.toNat_inj.mp (by simp; omega))
              have hr : ¬ inRange false 1 (tcValue [a, b]) = true := by
                rw [inRange_unsigned, hv, beValue_cons, beValue_cons]
                simp [beValue_nil]; omega
              rw [if_neg hr]; rfl
          | cons b2 t' =>
            generalize hg : St ((a :: b :: b2 :: t') ++ rest) (some (a :: b :: b2 :: t').length) = g
            simp only [List.length_cons, runG0_contentErr]
            have hr : ¬ inRange false 1 (tcValue (a :: b :: b2 :: t')) = true := by
              have hbig := tcValue_minimal_big a b (b2 :: t') hm
              have hneg : 0 ≤ tcValue (a :: b :: b2 :: t') := by rw [hv]; exact beValue_nonnegI _
              have hP := powI_pos t'.length
              rw [inRange_unsigned]
              simp only [List.length_cons, powI_succ, Int.pow_zero] at hbig ⊢
              omega
            rw [if_neg hr]; rfl
      · have hr := not_inRange_unsigned_of_ge 1 a t (by omega)
        simp only [ha, decide_false, Bool.and_false, Bool.false_eq_true, if_false]
        rw [decodeInt_of_minimal _ _ _ hm, if_neg hr]; rfl
    · simp only [hm, Bool.false_and, Bool.false_eq_true, if_false]
      rw [decodeInt_of_not_minimal _ _ _ hm]; rfl

theorem shl8_or (a b : UInt8) : (a.toNat <<< 8) ||| b.toNat = a.toNat * 256 + b.toNat := by
  have := shl_or a.toNat b.toNat 8 (UInt8.toNat_lt b)
  simpa using this

theorem beValue_two (a b : UInt8) : beValue [a, b] = a.toNat * 256 + b.toNat := by
  rw [beValue_cons, beValue_cons]; simp [beValue_nil]

theorem beValue_three (a b c : UInt8) : beValue [a, b, c] = a.toNat * 65536 + b.toNat * 256 + c.toNat := by
  rw [beValue_cons, beValue_two]; simp; omega

theorem primRun_u16 (c rest : Bytes) :
    primRun (do let n ← u16FromPrimitive; pure (n : Int)) c rest = expect (decodeInt false 2 c) rest := by
  rw [primRun_eq, runG0_bind]
  unfold u16FromPrimitive
  rw [runG0_bind]
  match c with
  | [] => rw [run_checkHeadUnsigned_nil]; rfl
  | a :: t =>
    rw [run_checkHeadUnsigned_cons]
    by_cases hm : isMinimalTC (a :: t) = true
    · by_cases ha : a.toNat < 128
      · simp only [hm, ha, decide_true, Bool.and_self, if_true]
        rw [runG0_bind, run_remaining, decodeInt_of_minimal _ _ _ hm]
        have hv := tcValue_of_lt a t ha
        cases t with
        | nil =>
          generalize hg : St ([a] ++ rest) (some [a].length) = g
          simp only [List.length_cons, List.length_nil, Nat.zero_add]
          subst hg
          rw [runG0_bind, run_takeU8_cons]
          simp only [runG0_pure]
          rw [run_exhausted_Win]
          have hr : inRange false 2 (tcValue [a]) = true := by
            rw [inRange_unsigned, hv, beValue_cons]
            simp [beValue_nil]; omega
          rw [if_pos hr, hv, beValue_cons]
          simp [beValue_nil, expect]
        | cons b t2 =>
          have hb := UInt8.toNat_lt b
          cases t2 with
          | nil =>
            generalize hg : St ([a, b] ++ rest) (some [a, b].length) = g
            simp only [List.length_cons, List.length_nil, Nat.zero_add]
            subst hg
            rw [runG0_bind, run_takeU8_cons]
            simp only
            rw [runG0_bind, run_takeU8_cons]
            simp only [runG0_pure]
            rw [run_exhausted_Win]
            have hr : inRange false 2 (tcValue [a, b]) = true := by
              rw [inRange_unsigned, hv, beValue_two]; simp; omega
            rw [if_pos hr, hv, beValue_two, shl8_or]
            simp [expect]
          | cons b2 t3 =>
            have hb2 := UInt8.toNat_lt b2
            cases t3 with
            | nil =>
              generalize hg : St ([a, b, b2] ++ rest) (some [a, b, b2].length) = g
              simp only [List.length_cons, List.length_nil, Nat.zero_add]
              subst hg
              rw [runG0_bind, run_takeU8_cons]
              simp only
              by_cases h0 : a = 0
              · subst h0
                simp only [bne_self_eq_false, Bool.false_eq_true, if_false]
                rw [runG0_bind, run_takeU8_cons]
                simp only
                rw [runG0_bind, run_takeU8_cons]
                simp only
                rw [isMinimalTC_cons2] at hm
                have hb128 : 128 ≤ b.toNat := by
                  have : (0 : UInt8).toNat = 0 := rfl
                  omega
                rw [shl8_or]
                have hnlt : ¬ (b.toNat * 256 + b2.toNat < 0x8000) := by omega
                simp only [hnlt, if_false, runG0_pure]
                rw [run_exhausted_Win]
                have hv' : tcValue [0, b, b2] = ((b.toNat * 256 + b2.toNat : Nat) : Int) := by
                  rw [hv, beValue_three]; simp
                have hr : inRange false 2 (tcValue [0, b, b2]) = true := by
                  rw [inRange_unsigned, hv']; simp; omega
                rw [if_pos hr, hv']
                simp [expect]
              · have hne : (a != 0) = true := by simp [h0]
                simp only [hne, if_true, runG0_contentErr]
                have ha1 : 1 ≤ a.toNat := by
                  apply Decidable.byContradiction; intro hn
                  exact h0 (UInt8.toNat_inj.mp (by simp; omega))
                have hr : ¬ inRange false 2 (tcValue [a, b, b2]) = true := by
                  rw [inRange_unsigned, hv, beValue_three]
                  simp; omega
                rw [if_neg hr]; rfl
            | cons b3 t' =>
              generalize hg : St ((a :: b :: b2 :: b3 :: t') ++ rest) (some (a :: b :: b2 :: b3 :: t').length) = g
              simp only [List.length_cons, runG0_contentErr]
              have hr : ¬ inRange false 2 (tcValue (a :: b :: b2 :: b3 :: t')) = true := by
                have hbig := tcValue_minimal_big a b (b2 :: b3 :: t') hm
                have hneg : 0 ≤ tcValue (a :: b :: b2 :: b3 :: t') := by rw [hv]; exact beValue_nonnegI _
                have hP := powI_pos t'.length
                rw [inRange_unsigned]
                simp only [List.length_cons, powI_succ, Int.pow_zero] at hbig ⊢
                omega
              rw [if_neg hr]; rfl
      · have hr := not_inRange_unsigned_of_ge 2 a t (by omega)
        simp only [ha, decide_false, Bool.and_false, Bool.false_eq_true, if_false]
        rw [decodeInt_of_minimal _ _ _ hm, if_neg hr]; rfl
    · simp only [hm, Bool.false_and, Bool.false_eq_true, if_false]
      rw [decodeInt_of_not_minimal _ _ _ hm]; rfl

/-- **C14, decoding.**  For every one of the ten fixed-width accessors (`Primitive::to_i8 … to_u128`),
    every content `c` and every following data `rest`: the accessor (followed by the framework's
    exhaustion check) returns the mathematical value of `c` and leaves the source exactly behind the
    content iff `c` is the minimal two's complement form of a number in the type's range
    (`Spec.decodeInt`); in every other case it fails with a content error.  There is no input on which
    it panics, wraps or truncates.  The accessors do not look at the mode, so this holds in every mode. -/
theorem decode_eq_spec (ty : IntTy) (c rest : Bytes) :
    primRun (toInt ty) c rest =
      match decodeInt ty.signed ty.width c with
      | some v => .ok (v, St rest (some 0))
      | none => .error .content := by
  have key : primRun (toInt ty) c rest = expect (decodeInt ty.signed ty.width c) rest := by
    cases ty with
    | i8 => exact primRun_i8 c rest
    | i16 => exact primRun_decodeSigned 2 (by decide) c rest
    | i32 => exact primRun_decodeSigned 4 (by decide) c rest
    | i64 => exact primRun_decodeSigned 8 (by decide) c rest
    | i128 => exact primRun_decodeSigned 16 (by decide) c rest
    | u8 => exact primRun_u8 c rest
    | u16 => exact primRun_u16 c rest
    | u32 => exact primRun_decodeUnsigned 4 c rest
    | u64 => exact primRun_decodeUnsigned 8 c rest
    | u128 => exact primRun_decodeUnsigned 16 c rest
  rw [key]
  cases decodeInt ty.signed ty.width c <;> rfl

/-- the accessor succeeds exactly on the minimal forms of in-range numbers … -/
theorem decode_ok_iff (ty : IntTy) (c rest : Bytes) (v : Int) (g : G0) :
    primRun (toInt ty) c rest = .ok (v, g) ↔
      (isMinimalTC c = true ∧ inRange ty.signed ty.width (tcValue c) = true ∧ v = tcValue c ∧
        g = St rest (some 0)) := by
  rw [decode_eq_spec]
  unfold decodeInt
  by_cases h1 : isMinimalTC c = true
  · by_cases h2 : inRange ty.signed ty.width (tcValue c) = true
    · simp only [h1, h2, Bool.and_self, if_true, Except.ok.injEq, Prod.mk.injEq, true_and]
      constructor
      · intro ⟨a, b⟩; exact ⟨a.symm, b.symm⟩
      · intro ⟨a, b⟩; exact ⟨a.symm, b.symm⟩
    · simp [h1, h2]
  · simp [h1]

/-- … and every failure is a content error (never a panic). -/
theorem decode_err (ty : IntTy) (c rest : Bytes) (e : Err) (h : primRun (toInt ty) c rest = .error e) :
    e = .content := by
  rw [decode_eq_spec] at h
  cases hd : decodeInt ty.signed ty.width c with
  | some v => rw [hd] at h; simp at h
  | none => rw [hd] at h; simp at h; exact h.symm

/-! ## 6. BOOLEAN, NULL, and matching an expected value -/

/-- **C14, BOOLEAN.**  `Primitive::to_bool` accepts exactly one content octet; in BER any non-zero
    octet is `true`, in CER and DER only `0xFF` is; everything else (empty, longer, other octets in
    CER/DER) is a content error. -/
theorem bool_eq_spec (m : Mode) (c rest : Bytes) :
    primRun (toBool m) c rest =
      match decodeBool m.isBer c with
      | some b => .ok (b, St rest (some 0))
      | none => .error .content := by
  rw [primRun_eq]
  unfold toBool
  rw [runG0_bind]
  match c with
  | [] => rw [run_takeU8_nil]; rfl
  | b :: t =>
    rw [run_takeU8_cons]
    simp only
    cases hm : m.isBer with
    | true =>
      simp only [Bool.not_true, Bool.false_eq_true, if_false, runG0_pure]
      rw [run_exhausted_Win]
      cases t with
      | nil => simp [decodeBool]
      | cons x t' => simp [decodeBool]
    | false =>
      simp only [Bool.not_false, if_true]
      by_cases h0 : (b == 0) = true
      · simp only [h0, if_true, runG0_pure]
        rw [run_exhausted_Win]
        cases t with
        | nil => simp [decodeBool, h0]
        | cons x t' => simp [decodeBool]
      · by_cases hff : (b == 0xFF) = true
        · simp only [h0, hff, Bool.false_eq_true, if_false, if_true, runG0_pure]
          rw [run_exhausted_Win]
          cases t with
          | nil => simp [decodeBool, h0, hff]
          | cons x t' => simp [decodeBool]
        · simp only [h0, hff, Bool.false_eq_true, if_false, runG0_contentErr]
          cases t with
          | nil => simp [decodeBool, h0, hff]
          | cons x t' => simp [decodeBool]

/-- **C14, NULL.**  `Primitive::to_null` succeeds exactly on empty content. -/
theorem null_eq_spec (c rest : Bytes) :
    primRun toNull c rest = if c = [] then .ok ((), St rest (some 0)) else .error .content := by
  rw [primRun_eq]
  unfold toNull
  rw [runG0_bind, run_remaining]
  simp only
  cases c with
  | nil => simp; rfl
  | cons x t => simp

/-- `Content::skip_u8_if(expected)` as the model's scripts run it: `to_u8` then compare -/
def skipU8If (expected : Nat) : Prog Unit := do
  let v ← toInt .u8
  if v == (expected : Int) then pure () else contentErr

/-- **C14, expected-value helper.**  `skip_u8_if(expected)` succeeds exactly when the content is a valid
    `u8` INTEGER whose value equals `expected` (compared as numbers, not as raw octets). -/
theorem skipU8If_eq_spec (expected : Nat) (c rest : Bytes) :
    primRun (skipU8If expected) c rest =
      if decodeInt false 1 c = some (expected : Int) then .ok ((), St rest (some 0))
      else .error .content := by
  have h := decode_eq_spec .u8 c rest
  rw [primRun_eq] at h ⊢
  unfold skipU8If
  rw [runG0_bind]
  have e1 : IntTy.u8.signed = false := rfl
  have e2 : IntTy.u8.width = 1 := rfl
  rw [e1, e2] at h
  cases hr : runG0 (toInt .u8) (Win c rest) with
  | error e =>
    rw [hr] at h
    simp only at h ⊢
    cases hd : decodeInt false 1 c with
    | none => rw [hd] at h; simp at h ⊢; exact h
    | some v => rw [hd] at h; simp at h
  | ok r =>
    obtain ⟨v, g⟩ := r
    rw [hr] at h
    simp only at h ⊢
    cases hd : decodeInt false 1 c with
    | none =>
      rw [hd] at h
      cases hx : runG0 limitedExhausted g with
      | error e => rw [hx] at h; simp at h ⊢; subst h; by_cases hv : v = (expected : Int) <;> simp [hv, hx]
      | ok r2 => rw [hx] at h; simp at h
    | some v' =>
      rw [hd] at h
      cases hx : runG0 limitedExhausted g with
      | error e => rw [hx] at h; simp at h
      | ok r2 =>
        obtain ⟨u, g'⟩ := r2
        rw [hx] at h; simp at h
        obtain ⟨h1, h2⟩ := h
        subst h1; subst h2
        by_cases hv : v = (expected : Int)
        · simp [hv, hx]
        · simp [hv]

/-! ## 7. encoders -/

theorem toBE_length (w : Nat) : ∀ v, (toBE w v).length = w := by
  induction w with
  | zero => intro v; rfl
  | succ w ih => intro v; simp [toBE, ih]

theorem beValue_toBE (w : Nat) : ∀ v, beValue (toBE w v) = v % 256 ^ w := by
  induction w with
  | zero => intro v; simp [toBE, beValue_nil, Nat.mod_one]
  | succ w ih =>
    intro v
    simp only [toBE]
    rw [beValue_append, ih, beValue_cons, beValue_nil, toNat_ofNat, Nat.pow_succ,
      Nat.mul_comm (256 ^ w) 256, Nat.mod_mul]
    simp
    omega

theorem beValue_toBE_of_lt (w v : Nat) (h : v < 256 ^ w) : beValue (toBE w v) = v := by
  rw [beValue_toBE, Nat.mod_eq_of_lt h]

theorem dropWhile_replicate (x : UInt8) (l : Bytes) :
    ∃ k, l = List.replicate k x ++ l.dropWhile (· == x) := by
  induction l with
  | nil => exact ⟨0, rfl⟩
  | cons a t ih =>
    rw [List.dropWhile_cons]
    by_cases h : (a == x) = true
    · obtain ⟨k, hk⟩ := ih
      refine ⟨k + 1, ?_⟩
      have : a = x := by simpa using h
      rw [if_pos h, List.replicate_succ, List.cons_append, ← hk, this]
    · exact ⟨0, by rw [if_neg h]; rfl⟩

theorem dropWhile_head (x : UInt8) (l : Bytes) (b : UInt8) (r : Bytes)
    (h : l.dropWhile (· == x) = b :: r) : b ≠ x := by
  induction l with
  | nil => simp at h
  | cons a t ih =>
    rw [List.dropWhile_cons] at h
    by_cases hx : (a == x) = true
    · rw [if_pos hx] at h; exact ih h
    · rw [if_neg hx] at h
      simp only [List.cons.injEq] at h
      rw [← h.1]; simpa using hx

/-- the non-negative arm of `write_encoded`: strip leading zero octets, put one back if the sign bit
    of the first remaining octet is set -/
theorem pos_enc (l : Bytes) (b : UInt8) (r : Bytes) (h : l.dropWhile (· == 0) = b :: r) :
    isMinimalTC ((if 128 ≤ b.toNat then [(0 : UInt8)] else []) ++ b :: r) = true ∧
    tcValue ((if 128 ≤ b.toNat then [(0 : UInt8)] else []) ++ b :: r) = (beValue l : Int) := by
  obtain ⟨k, hk⟩ := dropWhile_replicate 0 l
  have hb0 := dropWhile_head 0 l b r h
  have hl : beValue l = beValue (b :: r) := by
    rw [hk, h, beValue_replicate_zero]
  have hbn : b.toNat ≠ 0 := fun e => hb0 (UInt8.toNat_inj.mp e)
  by_cases hb : 128 ≤ b.toNat
  · simp only [hb, if_true, List.singleton_append]
    constructor
    · rw [isMinimalTC_cons2]; exact ⟨by omega, by simp⟩
    · rw [tcValue_of_lt 0 _ (by decide), hl, beValue_cons 0]; simp
  · simp only [hb, if_false, List.nil_append]
    constructor
    · cases r with
      | nil => rfl
      | cons b' r' => rw [isMinimalTC_cons2]; exact ⟨by omega, by omega⟩
    · rw [tcValue_of_lt b r (by omega), hl]

/-- the negative arm: strip leading `0xFF` octets, put one back if the sign bit of the first remaining
    octet is clear -/
theorem neg_enc (l : Bytes) (b : UInt8) (r : Bytes) (h : l.dropWhile (· == 0xFF) = b :: r) :
    isMinimalTC ((if b.toNat < 128 then [(0xFF : UInt8)] else []) ++ b :: r) = true ∧
    tcValue ((if b.toNat < 128 then [(0xFF : UInt8)] else []) ++ b :: r) =
      (beValue l : Int) - (256 : Int) ^ l.length := by
  obtain ⟨k, hk⟩ := dropWhile_replicate 0xFF l
  have hbf := dropWhile_head 0xFF l b r h
  have hbn : b.toNat ≠ 255 := fun e => hbf (UInt8.toNat_inj.mp e)
  rw [h] at hk
  have h1 := beValue_replicate_ff k (b :: r)
  have h2 := congrArg (fun n : Nat => (n : Int)) h1
  simp only [Int.natCast_add, Int.natCast_pow] at h2
  have c : ((256 : Nat) : Int) = 256 := rfl
  rw [c, ← hk] at h2
  have hlen : l.length = k + (b :: r).length := by rw [hk]; simp
  rw [hlen]
  by_cases hb : b.toNat < 128
  · simp only [hb, if_true, List.singleton_append]
    constructor
    · rw [isMinimalTC_cons2]; exact ⟨by simp, by omega⟩
    · rw [tcValue_of_ge 0xFF _ (by decide), beValue_consI, powI_succ]
      have : ((0xFF : UInt8).toNat : Int) = 255 := rfl
      rw [this]
      omega
  · simp only [hb, if_false, List.nil_append]
    constructor
    · cases r with
      | nil => rfl
      | cons b' r' => rw [isMinimalTC_cons2]; exact ⟨by omega, by omega⟩
    · rw [tcValue_of_ge b r (by omega)]
      simp only [List.length_cons] at h2 ⊢
      omega

theorem dropWhile_zero_nil (l : Bytes) (h : l.dropWhile (· == 0) = []) : beValue l = 0 := by
  obtain ⟨k, hk⟩ := dropWhile_replicate 0 l
  rw [h] at hk
  rw [hk, beValue_replicate_zero, beValue_nil]

theorem dropWhile_ff_nil (l : Bytes) (h : l.dropWhile (· == 0xFF) = []) : beValue l + 1 = 256 ^ l.length := by
  obtain ⟨k, hk⟩ := dropWhile_replicate 0xFF l
  rw [h] at hk
  have := beValue_replicate_ff k []
  rw [← hk] at this
  have hl : l.length = k := by rw [hk]; simp
  simp [beValue_nil] at this
  rw [hl]; exact this

theorem encUnsigned_spec (w v : Nat) (hv : v < 256 ^ w) :
    isMinimalTC (encUnsigned w v) = true ∧ tcValue (encUnsigned w v) = (v : Int) := by
  unfold encUnsigned
  by_cases h0 : v = 0
  · subst h0; simp [isMinimalTC, tcValue_single]
  · have hne : ¬ (v == 0) = true := by simp [h0]
    simp only [hne, Bool.false_eq_true, if_false]
    have hl := beValue_toBE_of_lt w v hv
    cases hd : (toBE w v).dropWhile (· == 0) with
    | nil => exact absurd (by rw [← hl]; exact dropWhile_zero_nil _ hd) h0
    | cons b r =>
      simp only [byte_and80_ne0, decide_eq_true_eq]
      have := pos_enc _ b r hd
      rw [hl] at this
      exact this

theorem encSigned_spec (w : Nat) (v : Int)
    (hlo : -(128 * (256 : Int) ^ w) ≤ v) (hhi : v < 128 * (256 : Int) ^ w) :
    isMinimalTC (encSigned (w + 1) v) = true ∧ tcValue (encSigned (w + 1) v) = v := by
  unfold encSigned
  by_cases h0 : v = 0
  · subst h0; simp [isMinimalTC, tcValue_single]
  · have hne : ¬ (v == 0) = true := by simp [h0]
    simp only [hne, Bool.false_eq_true, if_false]
    by_cases h1 : v = -1
    · subst h1; simp [isMinimalTC, tcValue_single]
    · have hne1 : ¬ (v == -1) = true := by simp [h1]
      simp only [hne1, Bool.false_eq_true, if_false]
      rw [full, powI_succ]
      have hP := powI_pos w
      by_cases hneg : v < 0
      · simp only [hneg, if_true]
        have hmod : v % (256 * (256 : Int) ^ w) = v + 256 * (256 : Int) ^ w := by
          rw [← Int.add_emod_right v, Int.emod_eq_of_lt (by omega) (by omega)]
        rw [hmod]
        have hnn : 0 ≤ v + 256 * (256 : Int) ^ w := by omega
        have hlt : (v + 256 * (256 : Int) ^ w).toNat < 256 ^ (w + 1) := by
          have c : ((256 : Nat) : Int) = 256 := rfl
          rw [Int.toNat_lt hnn, Int.natCast_pow, c, powI_succ]
          omega
        have hl := beValue_toBE_of_lt (w + 1) _ hlt
        have hlen := toBE_length (w + 1) (v + 256 * (256 : Int) ^ w).toNat
        cases hd : (toBE (w + 1) (v + 256 * (256 : Int) ^ w).toNat).dropWhile (· == 0xFF) with
        | nil =>
          exfalso
          have := dropWhile_ff_nil _ hd
          rw [hl, hlen] at this
          have h2 := congrArg (fun n : Nat => (n : Int)) this
          simp only [Int.natCast_add, Int.natCast_pow, Int.toNat_of_nonneg hnn] at h2
          have c : ((256 : Nat) : Int) = 256 := rfl
          rw [c, powI_succ] at h2
          simp at h2
          omega
        | cons b r =>
          simp only [byte_and80_ne80, decide_eq_true_eq]
          have := neg_enc _ b r hd
          rw [hl, hlen, Int.toNat_of_nonneg hnn, powI_succ] at this
          refine ⟨this.1, ?_⟩
          rw [this.2]; omega
      · simp only [hneg, if_false]
        have hmod : v % (256 * (256 : Int) ^ w) = v := Int.emod_eq_of_lt (by omega) (by omega)
        rw [hmod]
        have hnn : 0 ≤ v := by omega
        have hlt : v.toNat < 256 ^ (w + 1) := by
          have c : ((256 : Nat) : Int) = 256 := rfl
          rw [Int.toNat_lt hnn, Int.natCast_pow, c, powI_succ]
          omega
        have hl := beValue_toBE_of_lt (w + 1) _ hlt
        cases hd : (toBE (w + 1) v.toNat).dropWhile (· == 0) with
        | nil =>
          exfalso
          have := dropWhile_zero_nil _ hd
          rw [hl] at this
          omega
        | cons b r =>
          simp only [byte_and80_eq80, decide_eq_true_eq]
          have := pos_enc _ b r hd
          rw [hl, Int.toNat_of_nonneg hnn] at this
          exact this

theorem encU8_spec (v : Int) (h : inRange false 1 v = true) :
    isMinimalTC (encU8 v.toNat) = true ∧ tcValue (encU8 v.toNat) = v := by
  rw [inRange_unsigned] at h
  obtain ⟨h0, h1⟩ := h
  have h1' : v < 256 := by simpa using h1
  unfold encU8
  have hm : (UInt8.ofNat v.toNat).toNat = v.toNat := by rw [toNat_ofNat]; omega
  by_cases hb : v.toNat > 0x7F
  · simp only [hb, if_true, List.singleton_append]
    constructor
    · rw [isMinimalTC_cons2, hm]; exact ⟨by omega, by simp⟩
    · rw [tcValue_of_lt 0 _ (by decide), beValue_two, hm]; simp; omega
  · simp only [hb, if_false, List.nil_append]
    refine ⟨rfl, ?_⟩
    rw [tcValue_single, hm]
    have : ¬ v.toNat ≥ 128 := by omega
    simp only [this, if_false]; omega

theorem encI8_spec (v : Int) (h : inRange true 1 v = true) :
    isMinimalTC (encI8 v) = true ∧ tcValue (encI8 v) = v := by
  have h' := (inRange_signed 0 v).mp h
  simp only [Int.pow_zero] at h'
  unfold encI8
  refine ⟨rfl, ?_⟩
  rw [tcValue_single, toNat_ofNat]
  split <;> omega

theorem encInt_signed_eq (ty : IntTy) (hs : ty.signed = true) (hne : ty ≠ .i8) (v : Int) :
    encInt ty v = encSigned ty.width v := by
  cases ty <;> first | rfl | exact absurd rfl hne | exact absurd hs (by decide)

theorem encInt_unsigned_eq (ty : IntTy) (hs : ty.signed = false) (hne : ty ≠ .u8) (v : Int) :
    encInt ty v = encUnsigned ty.width v.toNat := by
  cases ty <;> first | rfl | exact absurd rfl hne | exact absurd hs (by decide)

theorem width_pos (ty : IntTy) : ∃ w, ty.width = w + 1 := by
  cases ty <;> exact ⟨_, rfl⟩

/-- **C14, encoding.**  Every fixed-width integer type encodes every value of its range to a minimal two's
    complement octet string denoting exactly that value. -/
theorem encInt_spec (ty : IntTy) (v : Int) (h : inRange ty.signed ty.width v = true) :
    isMinimalTC (encInt ty v) = true ∧ tcValue (encInt ty v) = v := by
  by_cases hu8 : ty = .u8
  · subst hu8; exact encU8_spec v h
  by_cases hi8 : ty = .i8
  · subst hi8; exact encI8_spec v h
  cases hs : ty.signed with
  | true =>
    rw [encInt_signed_eq ty hs hi8]
    obtain ⟨w, hw⟩ := width_pos ty
    rw [hs, hw] at h
    rw [hw]
    have h' := (inRange_signed w v).mp h
    exact encSigned_spec w v h'.1 h'.2
  | false =>
    rw [encInt_unsigned_eq ty hs hu8]
    rw [hs] at h
    have h' := (inRange_unsigned _ v).mp h
    have := encUnsigned_spec ty.width v.toNat (by rw [Int.toNat_lt h'.1, Int.natCast_pow]; exact h'.2)
    rw [Int.toNat_of_nonneg h'.1] at this; exact this

/-! ### the minimal form is unique -/

theorem minimal_length_le (a b : Bytes) (ha : isMinimalTC a = true) (hb : isMinimalTC b = true)
    (hv : tcValue a = tcValue b) : b.length ≤ a.length := by
  apply Decidable.byContradiction; intro hlt
  match a, ha, b, hb with
  | x :: s, _, [y], _ => simp at hlt
  | x :: s, _, y :: z :: t, hb =>
    have hbig := tcValue_minimal_big y z t hb
    have hr := tcValue_range_cons x s
    have hmono : (256 : Int) ^ s.length ≤ (256 : Int) ^ t.length := powI_mono (by simp at hlt; omega)
    omega

theorem tcValue_inj_of_length (a b : Bytes) (hl : a.length = b.length) (hv : tcValue a = tcValue b) :
    a = b := by
  match a, b, hl with
  | [], [], _ => rfl
  | x :: s, y :: t, hl =>
    have h1 := beValue_ltI (x :: s)
    have h2 := beValue_ltI (y :: t)
    have h3 := beValue_nonnegI (x :: s)
    have h4 := beValue_nonnegI (y :: t)
    have hl' : s.length = t.length := by simpa using hl
    rw [hl] at h1
    simp only [List.length_cons] at h1 h2
    have hbe : (beValue (x :: s) : Int) = (beValue (y :: t) : Int) := by
      by_cases hx : x.toNat < 128
      · by_cases hy : y.toNat < 128
        · rw [tcValue_of_lt x s hx, tcValue_of_lt y t hy] at hv; exact hv
        · rw [tcValue_of_lt x s hx, tcValue_of_ge y t (by omega)] at hv; omega
      · by_cases hy : y.toNat < 128
        · rw [tcValue_of_ge x s (by omega), tcValue_of_lt y t hy, hl'] at hv; omega
        · rw [tcValue_of_ge x s (by omega), tcValue_of_ge y t (by omega), hl'] at hv; omega
    exact beValue_inj _ _ hl (Int.ofNat_inj.mp hbe)

/-- **Uniqueness.**  Two minimal two's complement strings with the same value are equal: "minimal and
    denotes `v`" determines the octets. -/
theorem minimalTC_unique (a b : Bytes) (ha : isMinimalTC a = true) (hb : isMinimalTC b = true)
    (hv : tcValue a = tcValue b) : a = b :=
  tcValue_inj_of_length a b
    (Nat.le_antisymm (minimal_length_le b a hb ha hv.symm) (minimal_length_le a b ha hb hv)) hv

/-- **Round trip.**  Decoding what the encoder wrote gives the value back, for every type and every
    value of its range. -/
theorem roundtrip (ty : IntTy) (v : Int) (h : inRange ty.signed ty.width v = true) (rest : Bytes) :
    primRun (toInt ty) (encInt ty v) rest = .ok (v, St rest (some 0)) := by
  obtain ⟨hm, hv⟩ := encInt_spec ty v h
  rw [decode_eq_spec, decodeInt_of_minimal _ _ _ hm, hv, if_pos h]

/-- conversely, whatever a fixed-width accessor accepts is what the encoder writes for the result:
    the accepted contents are exactly the encoder's outputs -/
theorem decode_ok_enc (ty : IntTy) (c rest : Bytes) (v : Int) (g : G0)
    (h : primRun (toInt ty) c rest = .ok (v, g)) : c = encInt ty v := by
  obtain ⟨hm, hr, hv, _⟩ := (decode_ok_iff ty c rest v g).mp h
  rw [← hv] at hr
  obtain ⟨hm', hv'⟩ := encInt_spec ty v hr
  exact minimalTC_unique c _ hm hm' (by rw [hv', hv])

/-! ### BOOLEAN and NULL encoders -/

theorem encBool_spec (b : Bool) : encBool b = [if b then 0xFF else 0x00] := by
  cases b <;> rfl

theorem encNull_spec : encNull = [] := rfl

theorem bool_roundtrip (m : Mode) (b : Bool) (rest : Bytes) :
    primRun (toBool m) (encBool b) rest = .ok (b, St rest (some 0)) := by
  rw [bool_eq_spec]
  cases b <;> cases m <;> rfl

theorem null_roundtrip (rest : Bytes) : primRun toNull encNull rest = .ok ((), St rest (some 0)) := by
  rw [null_eq_spec]; rfl

/-! ### `encoded_len` agrees with `write_encoded` -/

theorem natI (n : Nat) : ((128 * 256 ^ n : Nat) : Int) = 128 * (256 : Int) ^ n := by
  rw [Int.natCast_mul, Int.natCast_pow]; rfl

theorem pow2_half (k : Nat) : 128 * 256 ^ k = 2 ^ (8 * k + 7) := by
  rw [Nat.pow_add, Nat.pow_mul, Nat.mul_comm]

/-- position of the top bit of a number between two consecutive half-octet-range bounds -/
theorem log2_bounds (x n : Nat) (hx : x ≠ 0) (hhi : x < 128 * 256 ^ n)
    (hlo : ∀ k, n = k + 1 → 128 * 256 ^ k ≤ x) :
    8 * n ≤ x.log2 + 1 ∧ x.log2 + 1 ≤ 8 * n + 7 := by
  rw [pow2_half] at hhi
  have h1 := (Nat.log2_lt hx).mpr hhi
  refine ⟨?_, by omega⟩
  cases n with
  | zero => omega
  | succ k =>
    have h2 := hlo k rfl
    rw [pow2_half] at h2
    have : ¬ x.log2 < 8 * k + 7 := fun h => by
      have := (Nat.log2_lt hx).mp h; omega
    omega

/-- what minimality says about the length `n+1` of a two's complement string and its value -/
theorem minimal_bounds (e : Bytes) (hm : isMinimalTC e = true) (n : Nat) (hlen : e.length = n + 1) :
    (-(128 * (256 : Int) ^ n) ≤ tcValue e ∧ tcValue e < 128 * (256 : Int) ^ n) ∧
    (∀ k, n = k + 1 → 128 * (256 : Int) ^ k ≤ tcValue e ∨ tcValue e < -(128 * (256 : Int) ^ k)) := by
  match e, hm, hlen with
  | [a], _, hlen =>
    have : n = 0 := by simpa using hlen.symm
    subst this
    exact ⟨tcValue_range_cons a [], fun k hk => by omega⟩
  | a :: b :: t, hm, hlen =>
    have hn : n = t.length + 1 := by simp at hlen; omega
    subst hn
    refine ⟨tcValue_range_cons a (b :: t), fun k hk => ?_⟩
    have : k = t.length := by omega
    subst this
    exact tcValue_minimal_big a b t hm

theorem len_formula (W L n : Nat) (h1 : L + 1 ≤ 8 * W) (h2 : 8 * n ≤ L + 1) (h3 : L + 1 ≤ 8 * n + 7) :
    (if (8 * W - (L + 1)) % 8 = 0 then W - (8 * W - (L + 1)) / 8 + 1 else W - (8 * W - (L + 1)) / 8) = n + 1 := by
  split <;> omega

theorem len_formula' (W L n : Nat) (h1 : L + 1 ≤ 8 * W) (h2 : 8 * n ≤ L + 1) (h3 : L + 1 ≤ 8 * n + 7) :
    (if (8 * W - (L + 1)) % 8 = 0 then W + 1 - (8 * W - (L + 1)) / 8 else W - (8 * W - (L + 1)) / 8) = n + 1 := by
  split <;> omega

/-- length of a minimal string denoting a positive number, from the position of its top bit -/
theorem log2_of_minimal_pos (e : Bytes) (hm : isMinimalTC e = true) (x : Nat) (hx : x ≠ 0)
    (hv : tcValue e = (x : Int)) (n : Nat) (hlen : e.length = n + 1) :
    8 * n ≤ x.log2 + 1 ∧ x.log2 + 1 ≤ 8 * n + 7 := by
  obtain ⟨⟨_, hhi⟩, hbig⟩ := minimal_bounds e hm n hlen
  rw [hv] at hhi
  apply log2_bounds x n hx
  · apply Int.ofNat_lt.mp; rw [natI]; exact hhi
  · intro k hk
    have := hbig k hk
    rw [hv] at this
    have hP := powI_pos k
    apply Int.ofNat_le.mp; rw [natI]
    have : (0 : Int) ≤ (x : Int) := Int.natCast_nonneg _
    omega

/-- … and a negative number `-(x+1)` -/
theorem log2_of_minimal_neg (e : Bytes) (hm : isMinimalTC e = true) (x : Nat) (hx : x ≠ 0)
    (hv : tcValue e = -((x : Int) + 1)) (n : Nat) (hlen : e.length = n + 1) :
    8 * n ≤ x.log2 + 1 ∧ x.log2 + 1 ≤ 8 * n + 7 := by
  obtain ⟨⟨hlo, _⟩, hbig⟩ := minimal_bounds e hm n hlen
  rw [hv] at hlo
  apply log2_bounds x n hx
  · apply Int.ofNat_lt.mp; rw [natI]; omega
  · intro k hk
    have := hbig k hk
    rw [hv] at this
    have hP := powI_pos k
    apply Int.ofNat_le.mp; rw [natI]
    have : (0 : Int) ≤ (x : Int) := Int.natCast_nonneg _
    omega

theorem length_of_minimal (e : Bytes) (hm : isMinimalTC e = true) : ∃ n, e.length = n + 1 := by
  cases e with
  | nil => simp [isMinimalTC] at hm
  | cons a t => exact ⟨t.length, rfl⟩

theorem shr3 (x : Nat) : x >>> 3 = x / 8 := Nat.shiftRight_eq_div_pow x 3
theorem and7 (x : Nat) : x &&& 7 = x % 8 := Nat.and_two_pow_sub_one_eq_mod x 3

theorem encUnsignedLen_eq (w v : Nat) (hv : v < 256 ^ w) :
    encUnsignedLen w v = (encUnsigned w v).length := by
  by_cases h0 : v = 0
  · subst h0; rfl
  · obtain ⟨hm, hval⟩ := encUnsigned_spec w v hv
    obtain ⟨n, hn⟩ := length_of_minimal _ hm
    obtain ⟨h2, h3⟩ := log2_of_minimal_pos _ hm v h0 hval n hn
    have h1 : v.log2 + 1 ≤ 8 * w := by
      have : v.log2 < 8 * w := (Nat.log2_lt h0).mpr (by rw [Nat.pow_mul]; exact hv)
      omega
    rw [hn]
    unfold encUnsignedLen leadingZeros
    have hne : ¬ (v == 0) = true := by simp [h0]
    simp only [hne, Bool.false_eq_true, if_false, shr3, beq_iff_eq]
    exact len_formula w v.log2 n h1 h2 h3

theorem encSignedLen_eq (w : Nat) (v : Int)
    (hlo : -(128 * (256 : Int) ^ w) ≤ v) (hhi : v < 128 * (256 : Int) ^ w) :
    encSignedLen (w + 1) v = (encSigned (w + 1) v).length := by
  by_cases h0 : v = 0
  · subst h0; rfl
  by_cases hm1 : v = -1
  · subst hm1; rfl
  obtain ⟨hm, hval⟩ := encSigned_spec w v hlo hhi
  obtain ⟨n, hn⟩ := length_of_minimal _ hm
  rw [hn]
  unfold encSignedLen leadingZeros
  have hne : ¬ ((v == 0 || v == -1) = true) := by simp [h0, hm1]
  simp only [hne, Bool.false_eq_true, if_false, shr3, and7, beq_iff_eq]
  by_cases hneg : v < 0
  · simp only [hneg, if_true]
    have hx : (-v - 1).toNat ≠ 0 := by omega
    have hxv : ((-v - 1).toNat : Int) = -v - 1 := Int.toNat_of_nonneg (by omega)
    obtain ⟨h2, h3⟩ := log2_of_minimal_neg _ hm (-v - 1).toNat hx (by rw [hval, hxv]; omega) n hn
    have h1 : (-v - 1).toNat.log2 + 1 ≤ 8 * (w + 1) := by
      have hlt : (-v - 1).toNat < 128 * 256 ^ w := by
        apply Int.ofNat_lt.mp; rw [natI, hxv]; omega
      rw [pow2_half] at hlt
      have := (Nat.log2_lt hx).mpr hlt
      omega
    simp only [hx, if_false]
    exact len_formula' (w + 1) _ n h1 h2 h3
  · simp only [hneg, if_false]
    have hx : v.toNat ≠ 0 := by omega
    have hxv : (v.toNat : Int) = v := Int.toNat_of_nonneg (by omega)
    obtain ⟨h2, h3⟩ := log2_of_minimal_pos _ hm v.toNat hx (by rw [hval, hxv]) n hn
    have h1 : v.toNat.log2 + 1 ≤ 8 * (w + 1) := by
      have hlt : v.toNat < 128 * 256 ^ w := by
        apply Int.ofNat_lt.mp; rw [natI, hxv]; exact hhi
      rw [pow2_half] at hlt
      have := (Nat.log2_lt hx).mpr hlt
      omega
    simp only [hx, if_false]
    exact len_formula' (w + 1) _ n h1 h2 h3

theorem encIntLen_signed_eq (ty : IntTy) (hs : ty.signed = true) (hne : ty ≠ .i8) (v : Int) :
    encIntLen ty v = encSignedLen ty.width v := by
  cases ty <;> first | rfl | exact absurd rfl hne | exact absurd hs (by decide)

theorem encIntLen_unsigned_eq (ty : IntTy) (hs : ty.signed = false) (hne : ty ≠ .u8) (v : Int) :
    encIntLen ty v = encUnsignedLen ty.width v.toNat := by
  cases ty <;> first | rfl | exact absurd rfl hne | exact absurd hs (by decide)

/-- **C14, `encoded_len`.**  The length every integer type announces is the number of octets it writes
    (including the `leading_zeros` arithmetic of the wide types). -/
theorem encIntLen_eq (ty : IntTy) (v : Int) (h : inRange ty.signed ty.width v = true) :
    encIntLen ty v = (encInt ty v).length := by
  by_cases hu8 : ty = .u8
  · subst hu8
    show encU8Len v.toNat = (encU8 v.toNat).length
    unfold encU8Len encU8
    split <;> rfl
  by_cases hi8 : ty = .i8
  · subst hi8; rfl
  cases hs : ty.signed with
  | true =>
    rw [encInt_signed_eq ty hs hi8, encIntLen_signed_eq ty hs hi8]
    obtain ⟨w, hw⟩ := width_pos ty
    rw [hs, hw] at h
    rw [hw]
    have h' := (inRange_signed w v).mp h
    exact encSignedLen_eq w v h'.1 h'.2
  | false =>
    rw [encInt_unsigned_eq ty hs hu8, encIntLen_unsigned_eq ty hs hu8]
    rw [hs] at h
    have h' := (inRange_unsigned _ v).mp h
    exact encUnsignedLen_eq ty.width v.toNat (by rw [Int.toNat_lt h'.1, Int.natCast_pow]; exact h'.2)

/-! ### the encoders write `Spec.minimalTC` -/

theorem tcValue_snoc (a : UInt8) (t : Bytes) (b : UInt8) :
    tcValue (a :: t ++ [b]) = 256 * tcValue (a :: t) + (b.toNat : Int) := by
  have hbe : (beValue (a :: t ++ [b]) : Int) = (beValue (a :: t) : Int) * 256 + (b.toNat : Int) := by
    rw [beValue_append, beValue_cons b, beValue_nil]
    simp
  by_cases h : a.toNat < 128
  · rw [List.cons_append, tcValue_of_lt a _ h, tcValue_of_lt a t h, ← List.cons_append, hbe]; omega
  · rw [List.cons_append, tcValue_of_ge a _ (by omega), tcValue_of_ge a t (by omega), ← List.cons_append, hbe]
    simp only [List.length_append, List.length_cons, List.length_nil, powI_succ]
    omega

theorem tcOctets_succ (w : Nat) (v : Int) :
    tcOctets (w + 1) v = tcOctets w (v / 256) ++ [UInt8.ofNat (v % 256).toNat] := rfl

theorem tcOctets_small (v : Int) (h1 : -128 ≤ v) (h2 : v ≤ 127) :
    isMinimalTC (tcOctets 1 v) = true ∧ tcValue (tcOctets 1 v) = v := by
  refine ⟨rfl, ?_⟩
  show tcValue [UInt8.ofNat (v % 256).toNat] = v
  rw [tcValue_single, toNat_ofNat]
  split <;> omega

theorem tcLen_spec (fuel : Nat) : ∀ v : Int, v.natAbs + 1 ≤ fuel →
    isMinimalTC (tcOctets (tcLen fuel v) v) = true ∧ tcValue (tcOctets (tcLen fuel v) v) = v := by
  induction fuel with
  | zero => intro v h; omega
  | succ f ih =>
    intro v hf
    unfold tcLen
    by_cases hs : -128 ≤ v ∧ v ≤ 127
    · rw [if_pos hs]; exact tcOctets_small v hs.1 hs.2
    · rw [if_neg hs, Nat.add_comm, tcOctets_succ]
      obtain ⟨hm, hv⟩ := ih (v / 256) (by omega)
      have hb : (UInt8.ofNat (v % 256).toNat).toNat = (v % 256).toNat := by rw [toNat_ofNat]; omega
      generalize hs' : tcOctets (tcLen f (v / 256)) (v / 256) = s at hm hv
      match s, hm with
      | [a], _ =>
        have hval : tcValue ([a] ++ [UInt8.ofNat (v % 256).toNat]) = v := by
          rw [tcValue_snoc, hv, hb]; omega
        refine ⟨?_, hval⟩
        show isMinimalTC [a, UInt8.ofNat (v % 256).toNat] = true
        rw [isMinimalTC_cons2, hb]
        rw [tcValue_single] at hv
        have := UInt8.toNat_lt a
        constructor
        · intro ⟨h1, h2⟩; rw [h1] at hv; simp at hv; omega
        · intro ⟨h1, h2⟩; rw [h1] at hv; simp at hv; omega
      | a :: a' :: t, hm =>
        have hval : tcValue (a :: a' :: t ++ [UInt8.ofNat (v % 256).toNat]) = v := by
          rw [tcValue_snoc, hv, hb]; omega
        refine ⟨?_, hval⟩
        rw [isMinimalTC_cons2] at hm
        show isMinimalTC (a :: a' :: (t ++ [UInt8.ofNat (v % 256).toNat])) = true
        rw [isMinimalTC_cons2]; exact hm

/-- `Spec.minimalTC v` is minimal and denotes `v` -/
theorem minimalTC_spec (v : Int) : isMinimalTC (minimalTC v) = true ∧ tcValue (minimalTC v) = v :=
  tcLen_spec _ v (Nat.le_refl _)

/-- **C14, encoding, octet-exact form.**  Every integer type writes exactly the reference minimal two's
    complement octets of the value. -/
theorem encInt_eq_minimalTC (ty : IntTy) (v : Int) (h : inRange ty.signed ty.width v = true) :
    encInt ty v = minimalTC v := by
  obtain ⟨h1, h2⟩ := encInt_spec ty v h
  obtain ⟨h3, h4⟩ := minimalTC_spec v
  exact minimalTC_unique _ _ h1 h3 (by rw [h2, h4])

/-! ## 8. non-vacuity: concrete inputs on both sides of every case distinction -/

example : decodeInt false 1 [0x00, 0x80] = some 128 := by decide
example : decodeInt true 2 [0xFF, 0x7F] = some (-129) := by decide
example : decodeInt true 2 [0x00, 0x7F] = none := by decide
example : decodeInt false 1 [0x80] = none := by decide
example : decodeInt false 1 [0x01, 0x00] = none := by decide
example : decodeInt true 1 [] = none := by decide
example : primRun (toInt .u8) [0x00, 0x80] [0x05] = .ok (128, St [0x05] (some 0)) := by rfl
example : primRun (toInt .i16) [0xFF, 0x7F] [0x05] = .ok (-129, St [0x05] (some 0)) := by
  have h : decodeInt IntTy.i16.signed IntTy.i16.width [0xFF, 0x7F] = some (-129) := by decide
  rw [decode_eq_spec, h]
example : primRun (toInt .i16) [0x00, 0x7F] [] = .error .content := by rfl
example : primRun (toInt .u8) [0x80] [] = .error .content := by rfl
example : primRun (toInt .u16) [0x00, 0x80, 0x00] [] = .ok (32768, St [] (some 0)) := by rfl
example : primRun (toInt .i8) [0x00, 0x80] [] = .error .content := by rfl
example : isMinimalTC [0x00, 0x80] = true ∧ inRange false 1 (tcValue [0x00, 0x80]) = true := by decide
example : isMinimalTC [0xFF, 0x7F] = true ∧ inRange true 2 (tcValue [0xFF, 0x7F]) = true := by decide
example : isMinimalTC [0x01, 0x00] = true ∧ inRange false 1 (tcValue [0x01, 0x00]) = false := by decide
example : sliceToSigned 2 [0x01, 0x00, 0x00] = .ok none := by rfl
example : sliceToUnsigned 4 [0x00, 0xFF, 0xFF, 0xFF, 0xFF] = .ok (some 4294967295) := by rfl
example : inRange true 8 (-9223372036854775808) = true ∧ inRange true 8 9223372036854775808 = false := by decide
example : encInt .i64 (-9223372036854775808) = [0x80, 0, 0, 0, 0, 0, 0, 0] := by rfl
example : encInt .u16 128 = [0x00, 0x80] ∧ encIntLen .u16 128 = 2 := by decide
example : encInt .i32 (-129) = [0xFF, 0x7F] ∧ encIntLen .i32 (-129) = 2 := by decide
example : decodeBool true [0x01] = some true ∧ decodeBool false [0x01] = none ∧
    decodeBool false [0xFF] = some true := by decide
example : primRun (toBool .der) [0x01] [] = .error .content := by rfl
example : primRun (toBool .ber) [0x01] [0x07] = .ok (true, St [0x07] (some 0)) := by rfl
example : primRun (skipU8If 128) [0x00, 0x80] [] = .ok ((), St [] (some 0)) := by rfl
example : primRun (skipU8If 127) [0x00, 0x80] [] = .error .content := by rfl

/-! ## 9. the same on the contract-checking layer (`Primitive::decode_slice`)

`decodeSlice` runs an accessor with `runG`, which additionally panics when the library breaches the
`Source` contract (C07/C08 are about that).  Whenever it does not report such a breach its result is
the one proved above. -/

theorem decodeSlice_primRun (p : Prog α) (c : Bytes) :
    (∃ s, decodeSlice c p = .error (.panic s)) ∨
    decodeSlice c p = match primRun p c [] with
      | .ok (a, _) => .ok a
      | .error e => .error e := by
  unfold decodeSlice primRun
  have hg : (⟨c, some c.length, [], 0⟩ : G).erase = St (c ++ []) (some c.length) := by
    simp [G.erase]
  simp only
  cases h : runG (do let a ← p; limitedExhausted; pure a) { data := c, limit := some c.length } with
  | ok r =>
    obtain ⟨a, g'⟩ := r
    right
    have := sim0_ok _ _ _ _ h
    rw [hg] at this
    rw [this]
  | error e =>
    cases e with
    | panic s => left; exact ⟨s, rfl⟩
    | content =>
      right
      have := sim0_err _ _ _ h rfl
      rw [hg] at this
      rw [this]
    | source =>
      right
      have := sim0_err _ _ _ h rfl
      rw [hg] at this
      rw [this]
    | fuel =>
      right
      have := sim0_err _ _ _ h rfl
      rw [hg] at this
      rw [this]

theorem decodeSlice_int (ty : IntTy) (c : Bytes) :
    (∃ s, decodeSlice c (toInt ty) = .error (.panic s)) ∨
    decodeSlice c (toInt ty) = match decodeInt ty.signed ty.width c with
      | some v => .ok v
      | none => .error .content := by
  rcases decodeSlice_primRun (toInt ty) c with h | h
  · exact .inl h
  · right
    rw [h, decode_eq_spec]
    cases decodeInt ty.signed ty.width c <;> rfl

theorem decodeSlice_bool (m : Mode) (c : Bytes) :
    (∃ s, decodeSlice c (toBool m) = .error (.panic s)) ∨
    decodeSlice c (toBool m) = match decodeBool m.isBer c with
      | some v => .ok v
      | none => .error .content := by
  rcases decodeSlice_primRun (toBool m) c with h | h
  · exact .inl h
  · right
    rw [h, bool_eq_spec]
    cases decodeBool m.isBer c <;> rfl

example : decodeSlice [0x00, 0x80] (toInt .u8) = .ok 128 := by rfl
end Bcder.Props.C14
