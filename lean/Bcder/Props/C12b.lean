/-
  C12b (session 5) — writing a tag and reading it back are mutually inverse, stated on the MODEL's
  writer and reader composed (C12 relates each of them to the reference separately; C04 proves that
  the reference reader reads the reference identifier octets back).  Consequence: identifier octets
  are self-delimiting.
-/
import Bcder.Props.C12
import Bcder.Props.C04
namespace Bcder.Props.C12b
open Bcder Bcder.Spec Bcder.Props.C12

/-- C12 — for every class, every number up to 0x1FFFFF and both forms: the tag built from them,
written and followed by anything, is read back as the same tag and the same form, consuming exactly
the written octets. -/
theorem read_write (cls num : Nat) (c : Bool) (hc : cls ≤ 3) (hn : num ≤ 0x1fffff) (rest : Bytes) :
    ∃ t, Tag.new (clsMask cls) num = .ok t ∧
      runG Tag.takeFrom (G.plain (t.write c ++ rest)) = .ok ((t, c), G.plain rest) := by
  obtain ⟨t, ht, hw, _⟩ := write_eq_spec cls num c hc hn
  refine ⟨t, ht, ?_⟩
  rw [hw, takeFrom_eq_spec, C04.readIdent_identOctets cls num c hc hn rest]
  have e : tagOf cls num = t := by simp [tagOf, ht]
  simp [specResult, e]

/-- identifier octets are self-delimiting: two written tags, each followed by anything, give the
same octets only if class, number, form and what follows are the same. -/
theorem write_prefix_free (c1 n1 c2 n2 : Nat) (p1 p2 : Bool) (r s : Bytes)
    (h1 : c1 ≤ 3) (h2 : c2 ≤ 3) (hn1 : n1 ≤ 0x1fffff) (hn2 : n2 ≤ 0x1fffff)
    (h : identOctets c1 p1 n1 ++ r = identOctets c2 p2 n2 ++ s) :
    c1 = c2 ∧ n1 = n2 ∧ p1 = p2 ∧ r = s := by
  have a := C04.readIdent_identOctets c1 n1 p1 h1 hn1 r
  have b := C04.readIdent_identOctets c2 n2 p2 h2 hn2 s
  rw [h, b] at a
  simp only [Option.some.injEq, Prod.mk.injEq, Ident.mk.injEq] at a
  obtain ⟨⟨e1, e2, e3⟩, e4⟩ := a
  refine ⟨e1.symm, e3.symm, e2.symm, ?_⟩
  have := congrArg (List.drop (identOctets c1 p1 n1).length) h
  rw [List.drop_left, ← e4, List.drop_left] at this
  exact this

example : ∃ t, Tag.new (clsMask 2) 31 = .ok t ∧
    runG Tag.takeFrom (G.plain (t.write true ++ [0x05])) = .ok ((t, true), G.plain [0x05]) :=
  read_write 2 31 true (by decide) (by decide) [0x05]

end Bcder.Props.C12b
