/-
  C11c — the end-of-contents marker is never part of captured data, for closures that capture again.

  `C11.capture_exact(_tracks)` says what `capture` returns in terms of the bookkeeping field `eoc` of
  the `Constructed` the closure leaves behind: the octets advanced over minus `eoc` if the closure has
  closed the value.  That the field IS the size of the marker, and stays it, is a property of every
  reader a closure can be made of — and of `capture` itself, which the repaired defect D12b shows is
  not automatic: in the crate, a capture opened on a value that an earlier nested capture had closed
  reset the field to zero, and the enclosing capture then returned the marker.

  Here, for the family `Body` of closures built from the readers (`take_*` with framable value
  closures, `skip*`, sequencing, mapping, and `capture` / `capture_one` / `capture_all` of such closures, to
  any depth):

   * `Framable`: a program behaves under an open capture frame as without it (the frame recording what
     it moved over) — `framable_of_nocap`, `framable_bind`, `framable_capture`; `capture_run1` is
     `C16.capture_run0` for framable closures;
   * `body_post`: every `Body` closure leaves the `Constructed` as it was, or has closed it: then it
     was indefinite, is done, and `eoc` is exactly the size of an end-of-contents header that lies at the
     end of the octets moved over (`Closed`); on a `Constructed` that is done already it does nothing
     (`body_done`);
   * **`capture_no_marker`**: `capture` around any `Body` closure returns exactly the octets moved over
     in front of that header — never the marker.
-/
import Bcder.Props.C16
import Bcder.Props.C10
import Bcder.Props.C09
import Bcder.Lemmas.LeafSafe
namespace Bcder.Props.C11c
open Bcder Bcder.Spec Prog Bcder.Props.C02 Bcder.Props.C09 Bcder.Props.C16

/-! ### programs under an open capture frame -/

/-- under an open capture frame the program does what it does without it, the frame recording exactly
    the octets moved over; without frames it ends without frames and has only moved forward -/
structure Framable (p : Prog α) : Prop where
  run : ∀ (d : Bytes) (l : Option Nat) (f : Frame) (fs : List Frame),
    (runG0 p ⟨d, l, f :: fs⟩ =
      match runG0 p ⟨d, l, []⟩ with
      | .ok (a, g') => .ok (a, framed f fs d g')
      | .error e => .error e) ∧
    (∀ a g', runG0 p ⟨d, l, []⟩ = .ok (a, g') → g'.frames = [] ∧ ∃ k, k ≤ d.length ∧ g'.data = d.drop k)

theorem framable_of_nocap (p : Prog α) (hp : NoCap p) : Framable p := ⟨run_framed p hp⟩

theorem framable_pure (a : α) : Framable (pure a : Prog α) := framable_of_nocap _ (NoCap.pure' a)

theorem g0_eta (g : G0) (d : Bytes) (hf : g.frames = []) (hd : g.data = d) : g = ⟨d, g.limit, []⟩ := by
  cases g with
  | mk dd ll ff => simp at hf hd; subst hf; subst hd; rfl

theorem framable_bind (p : Prog α) (f : α → Prog β) (hp : Framable p) (hf : ∀ a, Framable (f a)) :
    Framable (p >>= f) := by
  refine ⟨fun d l fr fs => ?_⟩
  obtain ⟨h1, h2⟩ := hp.run d l fr fs
  simp only [runG0_bind, h1]
  cases hr : runG0 p ⟨d, l, []⟩ with
  | error e => exact ⟨rfl, fun a g' h => by cases h⟩
  | ok x =>
    obtain ⟨a, g1⟩ := x
    obtain ⟨hf1, k1, hk1, hd1⟩ := h2 a g1 hr
    have hg1 := g0_eta g1 (d.drop k1) hf1 hd1
    have hfr : framed fr fs d g1 = ⟨d.drop k1, g1.limit, { fr with buf := fr.buf ++ d.take k1 } :: fs⟩ := by
      rw [hg1]; simp only [framed, List.length_drop]
      have : d.length - (d.length - k1) = k1 := by omega
      rw [this]
    obtain ⟨i1, i2⟩ := (hf a).run (d.drop k1) g1.limit { fr with buf := fr.buf ++ d.take k1 } fs
    simp only
    rw [hfr, i1, hg1]
    constructor
    · cases hr2 : runG0 (f a) ⟨d.drop k1, g1.limit, []⟩ with
      | error e => rfl
      | ok y =>
        obtain ⟨b, g'⟩ := y
        obtain ⟨_, k2, hk2, hd2⟩ := i2 b g' hr2
        simp only
        rw [framed_framed fr fs d k1 hk1 g' k2 hk2 hd2]
    · intro b g' hr2
      obtain ⟨hf2, k2, hk2, hd2⟩ := i2 b g' hr2
      simp only [List.length_drop] at hk2
      exact ⟨hf2, k1 + k2, by omega, by rw [hd2, List.drop_drop]⟩

/-- `C16.capture_run0` for closures that may capture again -/
theorem capture_run1 (c : Cons) (op : Cons → Prog Cons) (hop : ∀ c, Framable (op c)) (d : Bytes) (l : Option Nat) :
    runG0 (capture c op) (St d l) =
      match runG0 (op c) (St d l) with
      | .error e => .error e
      | .ok (c', g') =>
        let k := d.length - g'.data.length
        let e := if c'.state = c.state then 0 else c'.eoc
        match l with
        | some lim =>
          if lim < k then .error (.panic "advanced past end of limit")
          else .ok ((d.take (k - e), { c with state := c'.state, eoc := c'.eoc }), St g'.data (some (lim - k)))
        | none => .ok ((d.take (k - e), { c with state := c'.state, eoc := c'.eoc }), St g'.data none) := by
  unfold capture
  have hb : runG0 capBegin (St d l) = .ok ((), ⟨d, l, [{ buf := [], outer := l }]⟩) := by
    simp [capBegin, runG0, stepG0]
  simp only [runG0_bind, hb]
  obtain ⟨h1, h2⟩ := (hop c).run d l { buf := [], outer := l } []
  rw [h1]
  cases hr : runG0 (op c) ⟨d, l, []⟩ with
  | error e => rfl
  | ok cg =>
    obtain ⟨c', g'⟩ := cg
    obtain ⟨hf, k, hk, hd⟩ := h2 c' g' hr
    have hlen : d.length - g'.data.length = k := by rw [hd]; simp only [List.length_drop]; omega
    have hlt : (d.take k).length = k := by simp [List.length_take]; omega
    simp only [framed, hlen, List.nil_append]
    have htk : ∀ x, List.take (k - x) (List.take k d) = List.take (k - x) d := by
      intro x; rw [List.take_take]; congr 1; omega
    cases l with
    | none =>
      by_cases hs : c'.state = c.state
      · simp [capEnd, runG0, stepG0, hs]
      · simp [capEnd, runG0, stepG0, hs, hlt, htk]
    | some lim =>
      by_cases hl : lim < k
      · simp [capEnd, runG0, stepG0, hlt, hl]
      · by_cases hs : c'.state = c.state
        · simp [capEnd, runG0, stepG0, hlt, hl, hs]
        · simp [capEnd, runG0, stepG0, hlt, hl, hs, htk]

/-- a capture is framable if its closure is: captures nest -/
theorem framable_capture (c : Cons) (op : Cons → Prog Cons) (hop : ∀ c, Framable (op c)) :
    Framable (capture c op) := by
  refine ⟨fun d l fr fs => ?_⟩
  constructor
  · -- under the frame `fr`
    have h0 := capture_run1 c op hop d l
    rw [show (St d l) = (⟨d, l, []⟩ : G0) from rfl] at h0
    rw [h0]
    unfold capture
    have hb : runG0 capBegin ⟨d, l, fr :: fs⟩ = .ok ((), ⟨d, l, { buf := [], outer := l } :: fr :: fs⟩) := by
      simp [capBegin, runG0, stepG0]
    simp only [runG0_bind, hb]
    obtain ⟨h1, h2⟩ := (hop c).run d l { buf := [], outer := l } (fr :: fs)
    rw [h1]
    cases hr : runG0 (op c) ⟨d, l, []⟩ with
    | error e => rfl
    | ok cg =>
      obtain ⟨c', g'⟩ := cg
      obtain ⟨hf, k, hk, hd⟩ := h2 c' g' hr
      have hlen : d.length - g'.data.length = k := by rw [hd]; simp only [List.length_drop]; omega
      have hlt : (d.take k).length = k := by simp [List.length_take]; omega
      simp only [framed, hlen, List.nil_append]
      have htk : ∀ x, List.take (k - x) (List.take k d) = List.take (k - x) d := by
        intro x; rw [List.take_take]; congr 1; omega
      cases l with
      | none =>
        by_cases hs : c'.state = c.state
        · simp [capEnd, runG0, stepG0, hs, hlen]
        · simp [capEnd, runG0, stepG0, hs, hlt, htk, hlen]
      | some lim =>
        by_cases hl : lim < k
        · simp [capEnd, runG0, stepG0, hlt, hl]
        · by_cases hs : c'.state = c.state
          · simp [capEnd, runG0, stepG0, hlt, hl, hs, hlen]
          · simp [capEnd, runG0, stepG0, hlt, hl, hs, htk, hlen]
  · intro a g' h
    have h0 := capture_run1 c op hop d l
    rw [show (St d l) = (⟨d, l, []⟩ : G0) from rfl] at h0
    rw [h0] at h
    cases hr : runG0 (op c) ⟨d, l, []⟩ with
    | error e => rw [hr] at h; cases h
    | ok cg =>
      obtain ⟨c', g1⟩ := cg
      rw [hr] at h
      obtain ⟨hf, k, hk, hd⟩ := ((hop c).run d l { buf := [], outer := l } []).2 c' g1 hr
      simp only at h
      cases l with
      | none =>
        simp only [Except.ok.injEq, Prod.mk.injEq] at h
        rw [← h.2]; exact ⟨rfl, k, hk, hd⟩
      | some lim =>
        simp only at h
        split at h
        · cases h
        · simp only [Except.ok.injEq, Prod.mk.injEq] at h
          rw [← h.2]; exact ⟨rfl, k, hk, hd⟩

/-- closes `Framable` goals about `do` blocks built from framable pieces -/
macro "framable" : tactic => `(tactic|
  repeat' (first
    | exact framable_pure _
    | exact framable_of_nocap _ (NoCap.ret _) | exact framable_of_nocap _ (NoCap.fail _)
    | exact framable_of_nocap _ NoCap.contentErr'
    | exact framable_of_nocap _ nocap_getPos | exact framable_of_nocap _ nocap_getLimit
    | exact framable_of_nocap _ (nocap_setLimit _)
    | assumption
    | apply framable_bind
    | intro _
    | (dsimp only)
    | split))

/-- `process_next_value` is framable if its value closure is (which may capture on the nested value) -/
theorem framable_pnv {α : Type} (c : Cons) (expected : Option Tag)
    (op : Tag → Content → Prog (α × Content)) (hop : ∀ t k, Framable (op t k)) :
    Framable (processNextValue c expected op) := by
  unfold processNextValue processValueBody
  have h1 := framable_of_nocap _ (nocap_isExhausted c)
  have h2 := framable_of_nocap _ (nocap_takeOptTag c)
  have h3 := framable_of_nocap _ (nocap_length_takeFrom c.mode)
  have h4 : ∀ t : Tag, Framable t.takeFromIf := fun t => framable_of_nocap _ (nocap_tag_takeFromIf t)
  have h5 : ∀ k : Content, Framable k.exhausted := fun k => framable_of_nocap _ (nocap_content_exhausted k)
  repeat' (first
    | exact framable_pure _
    | exact framable_of_nocap _ (NoCap.ret _) | exact framable_of_nocap _ (NoCap.fail _)
    | exact framable_of_nocap _ NoCap.contentErr'
    | exact framable_of_nocap _ nocap_getPos | exact framable_of_nocap _ nocap_getLimit
    | exact framable_of_nocap _ (nocap_setLimit _)
    | assumption
    | exact h4 _ | exact hop _ _ | exact h5 _
    | apply framable_bind
    | intro _
    | (dsimp only)
    | split)

theorem framable_asConstructed {α : Type} (k : Cons → Prog (α × Cons)) (hk : ∀ c, Framable (k c)) (c : Content) :
    Framable (asConstructed k c) := by
  cases c with
  | prim m => exact framable_of_nocap _ NoCap.contentErr'
  | cons c =>
    simp only [asConstructed]
    refine framable_bind _ _ (hk c) (fun x => ?_)
    obtain ⟨a, c'⟩ := x
    exact framable_pure _

/-! ### what a closure may do to the bookkeeping of the `Constructed` it is given -/

/-- the closure has closed the value it was given, starting from the data `d`: it moved over `j`
    octets, then over an end-of-contents header of `k + kl` octets; the value was indefinite, is done,
    and `eoc` is the size of that header -/
def Closed (c c' : Cons) (d : Bytes) (g' : G0) : Prop :=
  ∃ (gm : G0) (j k kl : Nat) (id : Ident), gm.frames = [] ∧ j ≤ d.length ∧ gm.data = d.drop j ∧
    readIdent gm.view = some (id, k) ∧ isEocIdent id = true ∧ id.constructed = false ∧
    readLen c.mode.isBer (gm.adv k).view = some (some 0, kl) ∧
    c.state = .indefinite ∧ c' = { c with state := .done, eoc := k + kl } ∧
    j + k + kl ≤ d.length ∧ g'.data = d.drop (j + k + kl)

theorem closed_of_closes (c c' : Cons) (g g' : G0) (hf : g.frames = []) (h : ClosesIndefinite c c' g g') :
    Closed c c' g.data g' := by
  obtain ⟨id, k, kl, hr, he, hc, hl, hs, hc', hg'⟩ := h
  have hk : k ≤ g.view.length := readIdent_le _ _ _ hr
  have hvd : g.view.length ≤ g.data.length := G0.view_length_le g
  obtain ⟨_, hkl⟩ := readLen_bound _ _ _ _ hl
  have hv1 : (g.adv k).view = g.view.drop k := G0.adv_view g k hk
  rw [hv1, List.length_drop] at hkl
  have hd' : g'.data = g.data.drop (k + kl) := by
    rw [hg']; simp [G0.adv, List.drop_drop]
  refine ⟨g, 0, k, kl, id, hf, Nat.zero_le _, by simp, hr, he, hc, hl, hs, ?_, by omega, by simpa using hd'⟩
  rw [hc', hd', List.length_drop]
  congr 1
  omega

theorem closed_shift (c c' : Cons) (d : Bytes) (k1 : Nat) (hk1 : k1 ≤ d.length) (g' : G0)
    (h : Closed c c' (d.drop k1) g') : Closed c c' d g' := by
  obtain ⟨gm, j, k, kl, id, h1, h2, h3, h4, h5, h6, h7, h8, h9, h10, h11⟩ := h
  simp only [List.length_drop] at h2 h10
  refine ⟨gm, k1 + j, k, kl, id, h1, by omega, by rw [h3, List.drop_drop], h4, h5, h6, h7, h8, h9, by omega, ?_⟩
  rw [h11, List.drop_drop]
  congr 1
  omega

/-- closures that keep the bookkeeping of the `Constructed` right: they work the same under an open
    capture frame; they leave the `Constructed` as it was or have closed it (`Closed`); on a
    `Constructed` that is done they do nothing at all -/
structure Good {α : Type} (r : Cons → Prog (α × Cons)) : Prop where
  framable : ∀ c, Framable (r c)
  post : ∀ c d l a c' g', runG0 (r c) (St d l) = .ok ((a, c'), g') → c' = c ∨ Closed c c' d g'
  done : ∀ c d l a c' g', c.state = .done → runG0 (r c) (St d l) = .ok ((a, c'), g') → c' = c ∧ g' = St d l

theorem closed_done (c c' : Cons) (d : Bytes) (g' : G0) (h : Closed c c' d g') : c'.state = .done := by
  obtain ⟨_, _, _, _, _, _, _, _, _, _, _, _, _, h9, _, _⟩ := h
  rw [h9]

theorem good_pure {α : Type} (a : α) : Good (fun c => (pure (a, c) : Prog (α × Cons))) where
  framable := fun c => framable_pure _
  post := fun c d l a' c' g' h => by
    simp only [runG0_pure, Except.ok.injEq, Prod.mk.injEq] at h; exact .inl h.1.2.symm
  done := fun c d l a' c' g' _ h => by
    simp only [runG0_pure, Except.ok.injEq, Prod.mk.injEq] at h; exact ⟨h.1.2.symm, h.2.symm⟩

/-- a read that returns a value leaves the `Constructed` as it was -/
theorem bodyF_some_same {α : Type} (c : Cons) (op : Tag → Content → Prog (α × Content)) (hd : Nat) (g2 : G0) (id : Ident)
    (len? : Option Nat) (a : α) (c' : Cons) (g' : G0)
    (h : bodyF c op hd g2 id len? = .ok ((some a, c'), g')) : c' = c := by
  unfold bodyF at h
  have key : ∀ (r : Res ((α × Content) × G0)) (fin : G0 → G0),
      (match r with
        | .error e => (.error e : Res ((Option α × Cons) × G0))
        | .ok ((res, content'), g3) =>
          match runG0 content'.exhausted g3 with
          | .error e => .error e
          | .ok (_, g4) => .ok ((some res, c), fin g4)) = .ok ((some a, c'), g') → c' = c := by
    intro r fin hh
    cases r with
    | error e => cases hh
    | ok x =>
      obtain ⟨⟨res, ct⟩, g3⟩ := x
      simp only at hh
      cases hx : runG0 ct.exhausted g3 with
      | error e => rw [hx] at hh; cases hh
      | ok y =>
        rw [hx] at hh
        simp only [Except.ok.injEq, Prod.mk.injEq] at hh
        exact hh.1.2.symm
  repeat' (first | (split at h) | (cases h))
  all_goals (first
    | rfl
    | exact key _ (fun g4 => { g4 with limit := _ }) h
    | exact key _ (fun g4 => g4) h)

theorem pnv_some_same {α : Type} (c : Cons) (op : Tag → Content → Prog (α × Content)) (g : G0) (hf : g.frames = [])
    (a : α) (c' : Cons) (g' : G0) (h : runG0 (processNextValue c none op) g = .ok ((some a, c'), g')) : c' = c := by
  rw [pnv_eq c op g hf] at h
  unfold pnvF at h
  repeat' (first | (split at h) | (cases h))
  all_goals (first | (exact bodyF_some_same _ _ _ _ _ _ _ _ _ h) | (simp at h))

theorem pnvE_some_same {α : Type} (c : Cons) (cls num : Nat) (hc : cls ≤ 3) (hn : num ≤ 0x1fffff)
    (op : Tag → Content → Prog (α × Content)) (g : G0) (hf : g.frames = [])
    (a : α) (c' : Cons) (g' : G0)
    (h : runG0 (processNextValue c (some (C12.tagOf cls num)) op) g = .ok ((some a, c'), g')) : c' = c := by
  rw [pnvE_eq c cls num hc hn op g hf] at h
  unfold pnvE at h
  repeat' (first | (split at h) | (cases h))
  all_goals (first | (exact bodyF_some_same _ _ _ _ _ _ _ _ _ h) | (simp at h))

theorem pnv_done {α : Type} (c : Cons) (e : Option Tag) (op : Tag → Content → Prog (α × Content)) (g : G0)
    (hs : c.state = .done) : runG0 (processNextValue c e op) g = .ok ((none, c), g) := by
  unfold processNextValue
  simp [runG0_bind, run_isExhausted, hs]

/-- the untagged readers `take_opt_value` / `take_opt_primitive` / `take_opt_constructed` with a
    framable value closure (capture-free ones: `framable_of_nocap`; ones that capture on the nested
    value: `framable_asConstructed`, `framable_capture`) -/
theorem good_pnv {α : Type} (op : Tag → Content → Prog (α × Content)) (hop : ∀ t k, Framable (op t k)) :
    Good (fun c => processNextValue c none op) where
  framable := fun c => framable_pnv c none op hop
  post := fun c d l a c' g' h => by
    cases a with
    | some a => exact .inl (pnv_some_same c op _ rfl a c' g' h)
    | none =>
      rcases absent_untouched c c' op (St d l) g' rfl h with ⟨_, h2⟩ | h2
      · exact .inl h2
      · exact .inr (closed_of_closes c c' (St d l) g' rfl h2)
  done := fun c d l a c' g' hs h => by
    rw [pnv_done c none op _ hs] at h
    simp only [Except.ok.injEq, Prod.mk.injEq] at h
    exact ⟨h.1.2.symm, h.2.symm⟩

/-- the tag-selective readers `take_opt_*_if` -/
theorem good_pnvIf {α : Type} (cls num : Nat) (hc : cls ≤ 3) (hn : num ≤ 0x1fffff)
    (op : Tag → Content → Prog (α × Content)) (hop : ∀ t k, Framable (op t k)) :
    Good (fun c => processNextValue c (some (C12.tagOf cls num)) op) where
  framable := fun c => framable_pnv c _ op hop
  post := fun c d l a c' g' h => by
    cases a with
    | some a => exact .inl (pnvE_some_same c cls num hc hn op _ rfl a c' g' h)
    | none =>
      rcases absent_untouched_if c c' cls num hc hn op (St d l) g' rfl h with ⟨_, h2⟩ | ⟨_, _, h2⟩
      · exact .inl h2
      · exact .inr (closed_of_closes c c' (St d l) g' rfl h2)
  done := fun c d l a c' g' hs h => by
    rw [pnv_done c _ op _ hs] at h
    simp only [Except.ok.injEq, Prod.mk.injEq] at h
    exact ⟨h.1.2.symm, h.2.symm⟩

/-- the mandatory forms -/
theorem good_mandatory {α : Type} (r : Cons → Prog (Option α × Cons)) (hr : Good r) :
    Good (fun c => mandatory (r c)) where
  framable := fun c => by
    unfold mandatory
    refine framable_bind _ _ (hr.framable c) (fun x => ?_)
    obtain ⟨a?, c'⟩ := x
    cases a? with
    | some a => exact framable_pure _
    | none => exact framable_of_nocap _ NoCap.contentErr'
  post := fun c d l a c' g' h => by
    rw [mandatory_run] at h
    cases hx : runG0 (r c) (St d l) with
    | error e => rw [hx] at h; cases h
    | ok x =>
      obtain ⟨⟨a?, c1⟩, g1⟩ := x
      rw [hx] at h
      cases a? with
      | none => cases h
      | some a1 =>
        simp only [Except.ok.injEq, Prod.mk.injEq] at h
        obtain ⟨⟨_, rfl⟩, rfl⟩ := h
        exact hr.post c d l _ _ _ hx
  done := fun c d l a c' g' hs h => by
    rw [mandatory_run] at h
    cases hx : runG0 (r c) (St d l) with
    | error e => rw [hx] at h; cases h
    | ok x =>
      obtain ⟨⟨a?, c1⟩, g1⟩ := x
      rw [hx] at h
      cases a? with
      | none => cases h
      | some a1 =>
        simp only [Except.ok.injEq, Prod.mk.injEq] at h
        obtain ⟨⟨_, rfl⟩, rfl⟩ := h
        exact hr.done c d l _ _ _ hs hx

/-- one after the other -/
theorem good_seq {α β : Type} (r1 : Cons → Prog (α × Cons)) (r2 : Cons → Prog (β × Cons))
    (h1 : Good r1) (h2 : Good r2) :
    Good (fun c => do let (a, c1) ← r1 c; let (b, c2) ← r2 c1; pure ((a, b), c2)) where
  framable := fun c => by
    refine framable_bind _ _ (h1.framable c) (fun x => ?_)
    obtain ⟨a, c1⟩ := x
    refine framable_bind _ _ (h2.framable c1) (fun y => ?_)
    obtain ⟨b, c2⟩ := y
    exact framable_pure _
  post := fun c d l ab c' g' h => by
    simp only [runG0_bind] at h
    cases hx : runG0 (r1 c) (St d l) with
    | error e => rw [hx] at h; cases h
    | ok x =>
      obtain ⟨⟨a, c1⟩, g1⟩ := x
      rw [hx] at h
      simp only at h
      obtain ⟨hf1, k1, hk1, hd1⟩ := ((h1.framable c).run d l ⟨[], none⟩ []).2 _ _ hx
      have hg1 := g0_eta g1 (d.drop k1) hf1 hd1
      cases hy : runG0 (r2 c1) g1 with
      | error e => rw [hy] at h; cases h
      | ok y =>
        obtain ⟨⟨b, c2⟩, g2⟩ := y
        rw [hy] at h
        simp only [runG0_pure, Except.ok.injEq, Prod.mk.injEq] at h
        obtain ⟨⟨_, rfl⟩, rfl⟩ := h
        rw [hg1] at hy
        rcases h1.post c d l a c1 g1 hx with rfl | hcl
        · rcases h2.post c1 (d.drop k1) g1.limit b c2 g2 hy with rfl | hcl2
          · exact .inl rfl
          · exact .inr (closed_shift _ _ d k1 hk1 g2 hcl2)
        · have hdn := closed_done c c1 d g1 hcl
          obtain ⟨e1, e2⟩ := h2.done c1 (d.drop k1) g1.limit b c2 g2 hdn hy
          subst e1
          rw [e2]
          rw [hg1] at hcl
          exact .inr hcl
  done := fun c d l ab c' g' hs h => by
    simp only [runG0_bind] at h
    cases hx : runG0 (r1 c) (St d l) with
    | error e => rw [hx] at h; cases h
    | ok x =>
      obtain ⟨⟨a, c1⟩, g1⟩ := x
      rw [hx] at h
      simp only at h
      obtain ⟨e1, e2⟩ := h1.done c d l a c1 g1 hs hx
      subst e1; subst e2
      cases hy : runG0 (r2 c1) (St d l) with
      | error e => rw [hy] at h; cases h
      | ok y =>
        obtain ⟨⟨b, c2⟩, g2⟩ := y
        rw [hy] at h
        simp only [runG0_pure, Except.ok.injEq, Prod.mk.injEq] at h
        obtain ⟨⟨_, rfl⟩, rfl⟩ := h
        exact h2.done c1 d l b c2 g2 hs hy

/-- a reader that runs like another one, up to the value returned -/
theorem good_of_map {α β : Type} (r1 : Cons → Prog (α × Cons)) (r2 : Cons → Prog (β × Cons)) (f : α → β)
    (hf : ∀ c, Framable (r2 c))
    (h : ∀ c g, runG0 (r2 c) g = match runG0 (r1 c) g with
      | .ok ((a, c'), g') => .ok ((f a, c'), g')
      | .error e => .error e) (h1 : Good r1) : Good r2 where
  framable := hf
  post := fun c d l b c' g' hr => by
    rw [h] at hr
    cases hx : runG0 (r1 c) (St d l) with
    | error e => rw [hx] at hr; cases hr
    | ok x =>
      obtain ⟨⟨a, c1⟩, g1⟩ := x
      rw [hx] at hr
      simp only [Except.ok.injEq, Prod.mk.injEq] at hr
      obtain ⟨⟨_, rfl⟩, rfl⟩ := hr
      exact h1.post c d l a _ _ hx
  done := fun c d l b c' g' hs hr => by
    rw [h] at hr
    cases hx : runG0 (r1 c) (St d l) with
    | error e => rw [hx] at hr; cases hr
    | ok x =>
      obtain ⟨⟨a, c1⟩, g1⟩ := x
      rw [hx] at hr
      simp only [Except.ok.injEq, Prod.mk.injEq] at hr
      obtain ⟨⟨_, rfl⟩, rfl⟩ := hr
      exact h1.done c d l a _ _ hs hx

/-! ### skipping -/

theorem skipOpt_done (c : Cons) (filter : σ → Tag → Bool → Nat → Option σ) (st : σ) (N : Nat) (g : G0)
    (hs : c.state = .done) : runG0 (skipOpt c filter st N) g = .ok ((none, c, st), g) := by
  unfold skipOpt
  simp [runG0_bind, run_isExhausted, hs]

/-- what `skip_opt` does to the `Constructed` -/
theorem skipOpt_post (c : Cons) (filter : σ → Tag → Bool → Nat → Option σ) (st : σ) (N : Nat) (d : Bytes)
    (l : Option Nat) (r : Option Unit) (c' : Cons) (st' : σ) (g' : G0)
    (h : runG0 (skipOpt c filter st N) (St d l) = .ok ((r, c', st'), g')) : c' = c ∨ Closed c c' d g' := by
  cases r with
  | some u =>
    obtain ⟨_, _, _, _, _, hc, _⟩ := C10.skip_value_inv c filter st (St d l) rfl N c' st' g' h
    exact .inl hc
  | none =>
    obtain ⟨ha, _⟩ := C10.skip_absent_inv c filter st (St d l) rfl N c' st' g' h
    -- absence from `skip_opt` is absence from the untagged optional read
    have hp := (C10.pnv_absent_iff c (fun (_ : Tag) (k : Content) => (pure ((), k) : Prog (Unit × Content))) (St d l) c' g').mpr ha
    rw [← pnv_eq c _ (St d l) rfl] at hp
    rcases absent_untouched c c' _ (St d l) g' rfl hp with ⟨_, h2⟩ | h2
    · exact .inl h2
    · exact .inr (closed_of_closes c c' (St d l) g' rfl h2)

/-- `skip_opt` with any filter -/
theorem good_skipOpt (filter : σ → Tag → Bool → Nat → Option σ) (st : σ) (N : Nat) :
    Good (fun c => do let (r, c', st') ← skipOpt c filter st N; pure ((r, st'), c')) where
  framable := fun c => framable_of_nocap _ (by have := nocap_skipOpt c filter st N; nocap)
  post := fun c d l a c' g' h => by
    simp only [runG0_bind] at h
    cases hx : runG0 (skipOpt c filter st N) (St d l) with
    | error e => rw [hx] at h; cases h
    | ok x =>
      obtain ⟨⟨r, c1, st1⟩, g1⟩ := x
      rw [hx] at h
      simp only [runG0_pure, Except.ok.injEq, Prod.mk.injEq] at h
      obtain ⟨⟨_, rfl⟩, rfl⟩ := h
      exact skipOpt_post c filter st N d l r c1 st1 g1 hx
  done := fun c d l a c' g' hs h => by
    simp only [runG0_bind, skipOpt_done c filter st N _ hs, runG0_pure, Except.ok.injEq, Prod.mk.injEq] at h
    exact ⟨h.1.2.symm, h.2.symm⟩

/-- `skip_one` -/
theorem good_skipOne (N : Nat) : Good (fun c => skipOne c N) where
  framable := fun c => framable_of_nocap _ (nocap_skipOne c N)
  post := fun c d l a c' g' h => by
    rw [C10.run_skipOne] at h
    cases hx : runG0 (skipOpt c acceptAll () N) (St d l) with
    | error e => rw [hx] at h; cases h
    | ok x =>
      obtain ⟨⟨r, c1, st1⟩, g1⟩ := x
      rw [hx] at h
      simp only [Except.ok.injEq, Prod.mk.injEq] at h
      obtain ⟨⟨_, rfl⟩, rfl⟩ := h
      exact skipOpt_post c acceptAll () N d l r c1 st1 g1 hx
  done := fun c d l a c' g' hs h => by
    rw [C10.run_skipOne, skipOpt_done c acceptAll () N _ hs] at h
    simp only [Except.ok.injEq, Prod.mk.injEq] at h
    exact ⟨h.1.2.symm, h.2.symm⟩

/-- `skip_all` -/
theorem good_skipAll : ∀ (N : Nat), Good (fun c => do let c' ← skipAll c N; pure ((), c')) := by
  intro N
  induction N with
  | zero =>
    exact {
      framable := fun c => framable_of_nocap _ (by have := nocap_skipAll 0 c; nocap)
      post := fun c d l a c' g' h => by simp [skipAll, runG0_bind, runG0] at h
      done := fun c d l a c' g' _ h => by simp [skipAll, runG0_bind, runG0] at h }
  | succ N ih =>
    have h1 := good_skipOne N
    refine {
      framable := fun c => framable_of_nocap _ (by have := nocap_skipAll (N + 1) c; nocap)
      post := ?_
      done := ?_ }
    · intro c d l a c' g' h
      simp only [skipAll, runG0_bind] at h
      cases hx : runG0 (skipOne c N) (St d l) with
      | error e => rw [hx] at h; cases h
      | ok x =>
        obtain ⟨⟨r, c1⟩, g1⟩ := x
        rw [hx] at h
        obtain ⟨hf1, k1, hk1, hd1⟩ := ((h1.framable c).run d l ⟨[], none⟩ []).2 _ _ hx
        have hg1 := g0_eta g1 (d.drop k1) hf1 hd1
        cases r with
        | none =>
          simp only [runG0_pure, Except.ok.injEq, Prod.mk.injEq] at h
          obtain ⟨⟨_, rfl⟩, rfl⟩ := h
          exact h1.post c d l _ _ _ hx
        | some u =>
          simp only at h
          have h' : runG0 (do let c' ← skipAll c1 N; pure ((), c') : Prog (Unit × Cons)) g1 = .ok ((a, c'), g') := by
            simp only [runG0_bind]; exact h
          rw [hg1] at h'
          rcases h1.post c d l _ c1 g1 hx with rfl | hcl
          · rcases ih.post c1 (d.drop k1) g1.limit a c' g' h' with rfl | hcl2
            · exact .inl rfl
            · exact .inr (closed_shift _ _ d k1 hk1 g' hcl2)
          · have hdn := closed_done c c1 d g1 hcl
            obtain ⟨e1, e2⟩ := ih.done c1 (d.drop k1) g1.limit a c' g' hdn h'
            subst e1
            rw [e2]
            rw [hg1] at hcl
            exact .inr hcl
    · intro c d l a c' g' hs h
      simp only [skipAll, runG0_bind] at h
      rw [C10.run_skipOne, skipOpt_done c acceptAll () N _ hs] at h
      simp only [runG0_pure, Except.ok.injEq, Prod.mk.injEq] at h
      exact ⟨h.1.2.symm, h.2.symm⟩

/-! ### capturing -/

/-- **`capture` around a good closure is good**: in particular, opened on a value that has been closed
    already it does nothing — the point the crate got wrong (D12b) -/
theorem good_capture {α : Type} (r : Cons → Prog (α × Cons)) (hr : Good r) :
    Good (fun c => capture c (fun c => do let (_, c') ← r c; pure c')) := by
  have hfr : ∀ c, Framable (do let (_, c') ← r c; pure c' : Prog Cons) := by
    intro c
    refine framable_bind _ _ (hr.framable c) (fun x => ?_)
    obtain ⟨a, c'⟩ := x
    exact framable_pure _
  have hrun : ∀ c g, runG0 (do let (_, c') ← r c; pure c' : Prog Cons) g =
      match runG0 (r c) g with
      | .ok ((_, c'), g') => .ok (c', g')
      | .error e => .error e := by
    intro c g
    simp only [runG0_bind]
    cases runG0 (r c) g with
    | error e => rfl
    | ok x => obtain ⟨⟨a, c'⟩, g'⟩ := x; rfl
  refine { framable := fun c => framable_capture c _ hfr, post := ?_, done := ?_ }
  · intro c d l bytes c'' g'' h
    rw [capture_run1 c _ hfr d l, hrun] at h
    cases hx : runG0 (r c) (St d l) with
    | error e => rw [hx] at h; cases h
    | ok x =>
      obtain ⟨⟨a, c1⟩, g1⟩ := x
      rw [hx] at h
      simp only at h
      have hres : c'' = { c with state := c1.state, eoc := c1.eoc } ∧ g''.data = g1.data := by
        cases l with
        | none =>
          simp only [Except.ok.injEq, Prod.mk.injEq] at h
          exact ⟨h.1.2.symm, by rw [← h.2]⟩
        | some lim =>
          simp only at h
          split at h
          · cases h
          · simp only [Except.ok.injEq, Prod.mk.injEq] at h
            exact ⟨h.1.2.symm, by rw [← h.2]⟩
      obtain ⟨hc'', hd''⟩ := hres
      rcases hr.post c d l a c1 g1 hx with rfl | hcl
      · left; rw [hc'']
      · right
        obtain ⟨gm, j, k, kl, id, h1, h2, h3, h4, h5, h6, h7, h8, h9, h10, h11⟩ := hcl
        refine ⟨gm, j, k, kl, id, h1, h2, h3, h4, h5, h6, h7, h8, ?_, h10, by rw [hd'', h11]⟩
        rw [hc'', h9]
  · intro c d l bytes c'' g'' hs h
    rw [capture_run1 c _ hfr d l, hrun] at h
    cases hx : runG0 (r c) (St d l) with
    | error e => rw [hx] at h; cases h
    | ok x =>
      obtain ⟨⟨a, c1⟩, g1⟩ := x
      rw [hx] at h
      obtain ⟨e1, e2⟩ := hr.done c d l a c1 g1 hs hx
      subst e1; subst e2
      simp only [Nat.sub_self] at h
      cases l with
      | none =>
        simp only [Except.ok.injEq, Prod.mk.injEq] at h
        exact ⟨h.1.2.symm, h.2.symm⟩
      | some lim =>
        simp only [Nat.not_lt_zero, if_false, Nat.sub_zero, Except.ok.injEq, Prod.mk.injEq] at h
        exact ⟨h.1.2.symm, h.2.symm⟩

/-- `capture_one` -/
theorem good_captureOne (N : Nat) : Good (fun c => captureOne c N) :=
  good_capture _ (good_mandatory _ (good_skipOne N))

/-- `capture_all` -/
theorem good_captureAll (N : Nat) : Good (fun c => captureAll c N) := by
  have h := good_capture _ (good_skipAll N)
  have e : (fun c => captureAll c N) =
      (fun c => capture c (fun c => do let (_, c') ← (do let c' ← skipAll c N; pure ((), c') : Prog (Unit × Cons)); pure c')) := by
    funext c
    unfold captureAll
    congr 1
    funext c
    rw [Prog.bind_assoc]
    conv => lhs; rw [← Prog.bind_pure (skipAll c N)]
    rfl
  rw [e]; exact h

/-! ### the statement -/

/-- **C11, for every good closure — captures inside it included, to any depth: `capture` never
    returns the end-of-contents marker.**  It returns the octets the closure moved over; if the closure
    has closed the value, these end with an end-of-contents header (`00`, zero length) and exactly the
    octets in front of it are returned. -/
theorem capture_no_marker {α : Type} (r : Cons → Prog (α × Cons)) (hr : Good r) (c : Cons) (d : Bytes) (l : Option Nat)
    (bytes : Bytes) (c' : Cons) (g' : G0)
    (h : runG0 (capture c (fun c => do let (_, c') ← r c; pure c')) (St d l) = .ok ((bytes, c'), g')) :
    ∃ K, K ≤ d.length ∧ g'.data = d.drop K ∧
      ((c' = c ∧ bytes = d.take K) ∨
       (∃ (gm : G0) (j k kl : Nat) (id : Ident), K = j + k + kl ∧ bytes = d.take j ∧ gm.data = d.drop j ∧
          readIdent gm.view = some (id, k) ∧ isEocIdent id = true ∧ id.constructed = false ∧
          readLen c.mode.isBer (gm.adv k).view = some (some 0, kl) ∧
          c.state = .indefinite ∧ c'.state = .done)) := by
  have hfr : ∀ c, Framable (do let (_, c') ← r c; pure c' : Prog Cons) := by
    intro c
    refine framable_bind _ _ (hr.framable c) (fun x => ?_)
    obtain ⟨a, c'⟩ := x
    exact framable_pure _
  rw [capture_run1 c _ hfr d l] at h
  simp only [runG0_bind] at h
  cases hx : runG0 (r c) (St d l) with
  | error e => rw [hx] at h; cases h
  | ok x =>
    obtain ⟨⟨a, c1⟩, g1⟩ := x
    rw [hx] at h
    simp only [runG0_pure] at h
    obtain ⟨hf1, K, hK, hd1⟩ := ((hr.framable c).run d l ⟨[], none⟩ []).2 _ _ hx
    have hlen : d.length - g1.data.length = K := by rw [hd1, List.length_drop]; omega
    simp only [hlen] at h
    have hres : bytes = d.take (K - (if c1.state = c.state then 0 else c1.eoc)) ∧
        c' = { c with state := c1.state, eoc := c1.eoc } ∧ g'.data = g1.data := by
      cases l with
      | none =>
        simp only [Except.ok.injEq, Prod.mk.injEq] at h
        exact ⟨h.1.1.symm, h.1.2.symm, by rw [← h.2]⟩
      | some lim =>
        simp only at h
        split at h
        · cases h
        · simp only [Except.ok.injEq, Prod.mk.injEq] at h
          exact ⟨h.1.1.symm, h.1.2.symm, by rw [← h.2]⟩
    obtain ⟨hb, hc', hd'⟩ := hres
    refine ⟨K, hK, by rw [hd', hd1], ?_⟩
    rcases hr.post c d l a c1 g1 hx with rfl | hcl
    · left
      refine ⟨by rw [hc'], ?_⟩
      rw [hb]; simp
    · right
      obtain ⟨gm, j, k, kl, id, h1, h2, h3, h4, h5, h6, h7, h8, h9, h10, h11⟩ := hcl
      have hKj : K = j + k + kl := by
        have e1 := congrArg List.length hd1
        have e2 := congrArg List.length h11
        simp only [List.length_drop] at e1 e2
        omega
      refine ⟨gm, j, k, kl, id, hKj, ?_, h3, h4, h5, h6, h7, h8, by rw [hc', h9]⟩
      rw [hb, h9]
      have hne : ¬ (CState.done = c.state) := by rw [h8]; decide
      simp only [hne, if_false]
      congr 1
      omega

/-- the witness of D12b in the model: two `capture_all` in a row inside a capture, inside the
    indefinite value `30 80 02 01 80 00 00` — the outer capture returns the INTEGER, not the marker -/
theorem d12b_example :
    runG0 (capture ⟨.indefinite, .cer, 0⟩ (fun c => do
        let (_, c1) ← captureAll c 4
        let (_, c2) ← captureAll c1 4
        pure c2)) (St [0x02, 0x01, 0x80, 0x00, 0x00] none) =
      .ok (([0x02, 0x01, 0x80], ⟨.done, .cer, 2⟩), St [] none) := by rfl

/-! ### C09 under an open capture -/

/-- **absence leaves everything untouched, also while a capture is open** (C09's statements are for
    sources without open capture; `framable_pnv` carries them under any stack of capture frames):
    an optional read that reports absence has not moved the source, has not added to the capture,
    and has left the `Constructed` as it was — unless it closed an indefinite value -/
theorem absent_untouched_under_capture {α : Type} (c c' : Cons) (e : Option Tag)
    (op : Tag → Content → Prog (α × Content)) (hop : ∀ t k, Framable (op t k))
    (d : Bytes) (l : Option Nat) (f : Frame) (fs : List Frame) (g' : G0)
    (hpost : ∀ g1, runG0 (processNextValue c e op) (St d l) = .ok ((none, c'), g1) →
      (g1 = St d l ∧ c' = c) ∨ (c.state = .indefinite ∧ c'.state = .done))
    (h : runG0 (processNextValue c e op) ⟨d, l, f :: fs⟩ = .ok ((none, c'), g')) :
    (g' = ⟨d, l, f :: fs⟩ ∧ c' = c) ∨ (c.state = .indefinite ∧ c'.state = .done) := by
  rw [((framable_pnv c e op hop).run d l f fs).1] at h
  cases hr : runG0 (processNextValue c e op) ⟨d, l, []⟩ with
  | error err => rw [hr] at h; cases h
  | ok x =>
    obtain ⟨⟨a, c1⟩, g1⟩ := x
    rw [hr] at h
    simp only [Except.ok.injEq, Prod.mk.injEq] at h
    obtain ⟨⟨rfl, rfl⟩, rfl⟩ := h
    rcases hpost g1 hr with ⟨rfl, rfl⟩ | h2
    · exact .inl ⟨by simp [framed], rfl⟩
    · exact .inr h2

/-- the untagged optional readers, under any open captures -/
theorem absent_untouched_framed {α : Type} (c c' : Cons) (op : Tag → Content → Prog (α × Content))
    (hop : ∀ t k, Framable (op t k)) (d : Bytes) (l : Option Nat) (f : Frame) (fs : List Frame) (g' : G0)
    (h : runG0 (processNextValue c none op) ⟨d, l, f :: fs⟩ = .ok ((none, c'), g')) :
    (g' = ⟨d, l, f :: fs⟩ ∧ c' = c) ∨ (c.state = .indefinite ∧ c'.state = .done) := by
  refine absent_untouched_under_capture c c' none op hop d l f fs g' (fun g1 h1 => ?_) h
  rcases absent_untouched c c' op (St d l) g1 rfl h1 with ⟨h2, h3⟩ | h2
  · exact .inl ⟨h2, h3⟩
  · obtain ⟨_, _, _, _, _, _, _, hs, hc', _⟩ := h2
    exact .inr ⟨hs, by rw [hc']⟩

/-- the tag-selective optional readers (any tag but end-of-contents), under any open captures:
    absence means untouched, full stop -/
theorem absent_untouched_if_framed {α : Type} (c c' : Cons) (cls num : Nat) (hc : cls ≤ 3) (hn : num ≤ 0x1fffff)
    (hne : ¬ (cls = 0 ∧ num = 0)) (op : Tag → Content → Prog (α × Content))
    (hop : ∀ t k, Framable (op t k)) (d : Bytes) (l : Option Nat) (f : Frame) (fs : List Frame) (g' : G0)
    (h : runG0 (processNextValue c (some (C12.tagOf cls num)) op) ⟨d, l, f :: fs⟩ = .ok ((none, c'), g')) :
    g' = ⟨d, l, f :: fs⟩ ∧ c' = c := by
  have := absent_untouched_under_capture c c' (some (C12.tagOf cls num)) op hop d l f fs g' (fun g1 h1 => by
    exact .inl (absent_untouched_if_ne c c' cls num hc hn hne op (St d l) g1 rfl h1)) h
  rcases this with h1 | ⟨_, h2⟩
  · exact h1
  · -- the alternative cannot occur: the base run left the `Constructed` unchanged
    rw [((framable_pnv c _ op hop).run d l f fs).1] at h
    cases hr : runG0 (processNextValue c (some (C12.tagOf cls num)) op) ⟨d, l, []⟩ with
    | error err => rw [hr] at h; cases h
    | ok x =>
      obtain ⟨⟨a, c1⟩, g1⟩ := x
      rw [hr] at h
      simp only [Except.ok.injEq, Prod.mk.injEq] at h
      obtain ⟨⟨rfl, rfl⟩, rfl⟩ := h
      obtain ⟨e1, e2⟩ := absent_untouched_if_ne c c1 cls num hc hn hne op (St d l) g1 rfl hr
      subst e1; subst e2
      exact ⟨by simp [framed], rfl⟩

end Bcder.Props.C11c
