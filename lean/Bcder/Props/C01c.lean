/-
  C01 (continued) — typed reading never panics, for every composition of the reading combinators.

  `Lemmas/LeafSafe.lean` shows, once and for all, that content-level code (`LeafSafe`: the typed
  accessors of `Primitive`, built from infallible accesses and the `LimitedSource` helpers) ends on
  EVERY limited source - whatever the declared length, however little data is really there - in a
  value or a non-panic error.  Here that is lifted through `Constructed::process_next_value`:

   * `SafeC op`  : a closure on a value's content never panics on the sources the framework runs it on;
   * `SafeK k`   : a reader of values from a `Constructed` never panics and hands the `Constructed`
                   back on a source of the same kind;
   * `safe_pnv`, `safe_pnvE`: `process_next_value` (untagged / tag-selective) maps `SafeC` closures
     to `SafeK` readers — by the closed forms `pnv_eq` / `pnvE_eq` of C02 / C09;
   * `Reader` / `Closure`: the mutually inductive families of readers built from
     `take_[opt_]{value,primitive,constructed}[_if]`, sequencing, mapping/rejecting, `skip_opt` / `skip_one` /
     `skip_all`, `capture` / `capture_one` / `capture_all`, with `LeafSafe` leaves (all typed accessors of
     `Primitive`), `BitString::from_content` and `OctetString::from_content` (all forms, all modes) — at
     any nesting depth;  `reader_safe : Reader k → SafeK k`;
   * besides panic-freedom the readers are shown to keep the limit accounting of `LimitedSource`
     (`Kept`: octets consumed + limit left ≤ old limit), which is what makes the `advance` of the
     enclosing source at the end of a capture safe (`safeK_capture`);
   * `decode_never_panics`: `Mode::decode` with any `Reader`, on every octet string, in every mode:
     never one of the model's panic sites.
-/
import Bcder.Lemmas.LeafSafe
import Bcder.Props.C09
import Bcder.Props.C16b
import Bcder.Props.C11c
namespace Bcder.Props.C01c
open Bcder Bcder.Spec Prog Bcder.Props.C02

def NotPanic {α : Type} (r : Res α) : Prop := ∀ s, r ≠ .error (.panic s)

theorem notPanic_of_isPanic {α : Type} {r : Res α} (e : Err) (h : r = .error e) (he : e.isPanic = false) : NotPanic r := by
  intro s hs; rw [h] at hs; cases hs; cases he
theorem notPanic_ok {α : Type} (a : α) : NotPanic (.ok a : Res α) := by intro s h; cases h
theorem notPanic_content {α : Type} : NotPanic (.error .content : Res α) := by intro s h; cases h

/-- the sources a `Constructed` in state `c` sits on: no capture is open (the theorems of C02/C09 are
    stated there), and a definite-length value sits on a limited source (as it always does) -/
def Pre (c : Cons) (g : G0) : Prop := g.frames = [] ∧ (c.state = .definite → g.limit ≠ none)

/-- what a routine leaves behind (on a source without open capture): still no capture; it has only
    moved forward, by `k` octets; a limited source is still limited and what was consumed plus what the
    limit still allows does not exceed the old limit; an unlimited source is still unlimited -/
def Kept (g g' : G0) : Prop :=
  g'.frames = [] ∧ ∃ k, k ≤ g.data.length ∧ g'.data = g.data.drop k ∧
    (∀ l, g.limit = some l → ∃ l', g'.limit = some l' ∧ k + l' ≤ l) ∧ (g.limit = none → g'.limit = none)

theorem Kept.limit_ne {g g' : G0} (h : Kept g g') (hl : g.limit ≠ none) : g'.limit ≠ none := by
  obtain ⟨_, k, _, _, ha, _⟩ := h
  cases hg : g.limit with
  | none => exact absurd hg hl
  | some l => obtain ⟨l', hl', _⟩ := ha l hg; rw [hl']; simp

theorem kept_of_moved {g g' : G0} (hf : g.frames = []) (h : G0.Moved g g') : Kept g g' := by
  obtain ⟨f, k, hk, hd, ha, hn⟩ := h
  refine ⟨f hf, k, hk, hd, fun l hl => ?_, hn⟩
  obtain ⟨hle, hl'⟩ := ha l hl
  exact ⟨l - k, hl', by omega⟩

theorem kept_adv (g : G0) (n : Nat) (hn : n ≤ g.view.length) : Kept g (g.adv n) := by
  have hv := G0.view_length_le g
  refine ⟨rfl, n, by omega, rfl, fun l hl => ?_, fun h => by simp [G0.adv, h]⟩
  have hvl : g.view.length ≤ l := view_le_limit g l hl
  exact ⟨l - n, by simp [G0.adv, hl], by omega⟩

theorem Kept.trans {g g1 g2 : G0} (h1 : Kept g g1) (h2 : Kept g1 g2) : Kept g g2 := by
  obtain ⟨_, k1, hk1, hd1, ha1, hn1⟩ := h1
  obtain ⟨f2, k2, hk2, hd2, ha2, hn2⟩ := h2
  refine ⟨f2, k1 + k2, ?_, ?_, ?_, fun h => hn2 (hn1 h)⟩
  · rw [hd1, List.length_drop] at hk2; omega
  · rw [hd2, hd1, List.drop_drop]
  · intro l hl
    obtain ⟨l1, hl1, hle1⟩ := ha1 l hl
    obtain ⟨l2, hl2, hle2⟩ := ha2 l1 hl1
    exact ⟨l2, hl2, by omega⟩

theorem kept_refl (g : G0) (hf : g.frames = []) : Kept g g :=
  ⟨hf, 0, Nat.zero_le _, by simp, fun l hl => ⟨l, hl, by omega⟩, fun h => h⟩

theorem kept_of_keeps {g g' : G0} (hf : g.frames = []) (l : Nat) (hl : g.limit = some l) (h : G0.Keeps g g') :
    Kept g g' := kept_of_moved hf (G0.Moved.of_keeps l hl h)

/-- a reader of values from a `Constructed` -/
def SafeK {α : Type} (k : Cons → Prog (α × Cons)) : Prop :=
  ∀ c g, Pre c g → NotPanic (runG0 (k c) g) ∧
    ∀ a c' g', runG0 (k c) g = .ok ((a, c'), g') → Kept g g' ∧ (c'.state = .definite → c.state = .definite)

/-- outcome of a closure on the content of a value, run on `g` -/
def COK {α : Type} (g : G0) (r : Res ((α × Content) × G0)) : Prop :=
  NotPanic r ∧ ∀ a k g', r = .ok ((a, k), g') → Kept g g'

/-- a closure on the content of one value, on the sources `process_next_value` runs it on -/
def SafeC {α : Type} (op : Content → Prog (α × Content)) : Prop :=
  (∀ m d len, COK (St d (some len)) (runG0 (op (.prim m)) (St d (some len)))) ∧
  (∀ m e d len, COK (St d (some len)) (runG0 (op (.cons ⟨.definite, m, e⟩)) (St d (some len)))) ∧
  (∀ m e g, g.frames = [] → COK g (runG0 (op (.cons ⟨.indefinite, m, e⟩)) g))

theorem exhausted_ok (k : Content) (g : G0) (hf : g.frames = []) :
    NotPanic (runG0 k.exhausted g) ∧ ∀ u g', runG0 k.exhausted g = .ok (u, g') → Kept g g' := by
  rcases harmless_run (hl_content_exhausted k) g with ⟨e, he, hp⟩ | ⟨a, g', hr, hm⟩
  · exact ⟨notPanic_of_isPanic e he hp, fun u g' h => by rw [he] at h; cases h⟩
  · refine ⟨by rw [hr]; exact notPanic_ok _, fun u g'' h => ?_⟩
    rw [hr] at h; cases h; exact kept_of_moved hf hm

/-- closure, then exhaustion check, then a continuation on the resulting source -/
theorem closure_then {α β : Type} (g : G0) (r : Res ((α × Content) × G0)) (hc : COK g r)
    (fin : α → G0 → β) :
    NotPanic (match r with
      | .error e => (.error e : Res β)
      | .ok ((res, content'), g3) =>
        match runG0 content'.exhausted g3 with
        | .error e => .error e
        | .ok (_, g4) => .ok (fin res g4)) ∧
    ∀ b, (match r with
      | .error e => (.error e : Res β)
      | .ok ((res, content'), g3) =>
        match runG0 content'.exhausted g3 with
        | .error e => .error e
        | .ok (_, g4) => .ok (fin res g4)) = .ok b → ∃ res g4, b = fin res g4 ∧ Kept g g4 := by
  cases r with
  | error e =>
    exact ⟨fun s h => by cases h; exact hc.1 s rfl, fun b h => by cases h⟩
  | ok x =>
    obtain ⟨⟨res, content'⟩, g3⟩ := x
    have hk3 := hc.2 res content' g3 rfl
    obtain ⟨hx1, hx2⟩ := exhausted_ok content' g3 hk3.1
    simp only
    cases hx : runG0 content'.exhausted g3 with
    | error e => exact ⟨fun s h => by cases h; exact hx1 s hx, fun b h => by cases h⟩
    | ok r2 =>
      obtain ⟨u, g4⟩ := r2
      refine ⟨notPanic_ok _, fun b h => ?_⟩
      simp only [Except.ok.injEq] at h
      have hk4 := hx2 u g4 hx
      exact ⟨res, g4, h.symm, hk3.trans hk4⟩

/-- the value part of `process_next_value` -/
theorem bodyF_safe {α : Type} (c : Cons) (op : Tag → Content → Prog (α × Content)) (hop : ∀ t, SafeC (op t))
    (hd : Nat) (g2 : G0) (hf : g2.frames = []) (id : Ident) (len? : Option Nat) :
    NotPanic (bodyF c op hd g2 id len?) ∧
      ∀ a c' g', bodyF c op hd g2 id len? = .ok ((a, c'), g') →
        Kept g2 g' ∧ (c'.state = .definite → c.state = .definite) := by
  unfold bodyF
  by_cases he : isEocIdent id = true
  · simp only [he, if_true]
    by_cases hi : c.state = .indefinite
    · simp only [hi, if_true]
      by_cases hcn : id.constructed = true
      · simp only [hcn, if_true]; exact ⟨notPanic_content, fun a c' g' h => by cases h⟩
      · simp only [hcn, Bool.false_eq_true, if_false]
        by_cases hz : len? ≠ some 0
        · rw [if_pos hz]; exact ⟨notPanic_content, fun a c' g' h => by cases h⟩
        · rw [if_neg hz]
          refine ⟨notPanic_ok _, fun a c' g' h => ?_⟩
          simp only [Except.ok.injEq, Prod.mk.injEq] at h
          obtain ⟨⟨_, hc'⟩, hg'⟩ := h
          subst hc'; subst hg'
          exact ⟨kept_refl g2 hf, fun h => by cases h⟩
    · simp only [hi, if_false]; exact ⟨notPanic_content, fun a c' g' h => by cases h⟩
  · simp only [he, Bool.false_eq_true, if_false]
    cases len? with
    | some len =>
      simp only
      have main : (∀ L, g2.limit = some L → len ≤ L) → NotPanic (if (id.constructed && c.mode == .cer) = true then (.error .content : Res ((Option α × Cons) × G0))
            else
              match runG0 (op (C12.tagOf id.cls id.num)
                  (if id.constructed = true then Content.cons ⟨.definite, c.mode, 0⟩ else Content.prim c.mode))
                  (St g2.data (some len)) with
              | .error e => .error e
              | .ok ((res, content'), g3) =>
                match runG0 content'.exhausted g3 with
                | .error e => .error e
                | .ok (_, g4) => .ok ((some res, c), { g4 with limit := g2.limit.map (· - len) })) ∧
          ∀ a c' g', (if (id.constructed && c.mode == .cer) = true then (.error .content : Res ((Option α × Cons) × G0))
            else
              match runG0 (op (C12.tagOf id.cls id.num)
                  (if id.constructed = true then Content.cons ⟨.definite, c.mode, 0⟩ else Content.prim c.mode))
                  (St g2.data (some len)) with
              | .error e => .error e
              | .ok ((res, content'), g3) =>
                match runG0 content'.exhausted g3 with
                | .error e => .error e
                | .ok (_, g4) => .ok ((some res, c), { g4 with limit := g2.limit.map (· - len) })) = .ok ((a, c'), g') →
            Kept g2 g' ∧ (c'.state = .definite → c.state = .definite) := by
        intro hfit
        by_cases h2 : (id.constructed && c.mode == .cer) = true
        · simp only [h2, if_true]; exact ⟨notPanic_content, fun a c' g' h => by cases h⟩
        · simp only [h2, Bool.false_eq_true, if_false]
          have hc : COK (St g2.data (some len)) (runG0 (op (C12.tagOf id.cls id.num)
              (if id.constructed = true then Content.cons ⟨.definite, c.mode, 0⟩ else Content.prim c.mode))
              (St g2.data (some len))) := by
            by_cases hcn : id.constructed = true
            · simp only [hcn, if_true]; exact (hop _).2.1 _ _ _ _
            · simp only [hcn, Bool.false_eq_true, if_false]; exact (hop _).1 _ _ _
          obtain ⟨n1, n2⟩ := closure_then (St g2.data (some len)) _ hc
            (fun res g4 => ((some res, c), ({ g4 with limit := g2.limit.map (· - len) } : G0)))
          refine ⟨n1, fun a c' g' h => ?_⟩
          obtain ⟨res, g4, hb, hk⟩ := n2 _ h
          simp only [Prod.mk.injEq] at hb
          obtain ⟨⟨_, hc'⟩, hg'⟩ := hb
          subst hc'; subst hg'
          refine ⟨?_, fun h => h⟩
          -- the closure and the exhaustion check consumed `k ≤ len` octets of the window
          obtain ⟨hf4, k, hk, hd, ha, _⟩ := hk
          obtain ⟨l4, _, hkl⟩ := ha len rfl
          refine ⟨hf4, k, hk, hd, fun L hL => ?_, fun hn => by simp [hn]⟩
          refine ⟨L - len, by simp [hL], ?_⟩
          have : len ≤ L := hfit L hL
          omega
      cases hlim : g2.limit with
      | none =>
        have main' := main (by intro L hL; rw [hlim] at hL; cases hL)
        simp only [hlim, Bool.false_eq_true, if_false] at main' ⊢
        exact main'
      | some l =>
        by_cases hgt : len > l
        · simp only [hgt, decide_true, if_true]; exact ⟨notPanic_content, fun a c' g' h => by cases h⟩
        · have hdd : decide (len > l) = false := by simp [hgt]
          have main' := main (by intro L hL; rw [hlim] at hL; cases hL; omega)
          simp only [hlim, hdd, Bool.false_eq_true, if_false] at main' ⊢
          exact main'
    | none =>
      simp only
      by_cases h1 : (!id.constructed || c.mode == .der) = true
      · simp only [h1, if_true]; exact ⟨notPanic_content, fun a c' g' h => by cases h⟩
      · simp only [h1, Bool.false_eq_true, if_false]
        have hc := (hop (C12.tagOf id.cls id.num)).2.2 c.mode 0 g2 hf
        obtain ⟨n1, n2⟩ := closure_then g2 _ hc (fun res g4 => ((some res, c), g4))
        refine ⟨n1, fun a c' g' h => ?_⟩
        obtain ⟨res, g4, hb, hk⟩ := n2 _ h
        simp only [Prod.mk.injEq] at hb
        obtain ⟨⟨_, hc'⟩, hg'⟩ := hb
        subst hc'; subst hg'
        exact ⟨hk, fun h => h⟩


theorem headerF_kept (m : Mode) (g : G0) (id : Ident) (len? : Option Nat) (g2 : G0)
    (h : headerF m g = some ((id, len?), g2)) : Kept g g2 := by
  unfold headerF at h
  cases hr : readIdent g.view with
  | none => rw [hr] at h; cases h
  | some r =>
    obtain ⟨id', k⟩ := r
    rw [hr] at h
    simp only at h
    cases hl : readLen m.isBer (g.adv k).view with
    | none => rw [hl] at h; cases h
    | some r2 =>
      obtain ⟨l2, kl⟩ := r2
      rw [hl] at h
      simp only [Option.some.injEq, Prod.mk.injEq] at h
      rw [← h.2]
      have hk := readIdent_le _ _ _ hr
      have hkl := (readLen_bound _ _ _ _ hl).2
      exact (kept_adv g k hk).trans (kept_adv _ kl hkl)

/-- **`process_next_value(None, op)` never panics if the closure does not** -/
theorem safe_pnv {α : Type} (op : Tag → Content → Prog (α × Content)) (hop : ∀ t, SafeC (op t)) :
    SafeK (fun c => processNextValue c none op) := by
  intro c g ⟨hf, hlim⟩
  simp only [pnv_eq c op g hf]
  unfold pnvF
  by_cases h1 : c.state = .done
  · rw [if_pos h1]
    exact ⟨notPanic_ok _, fun a c' g' h => by
      simp only [Except.ok.injEq, Prod.mk.injEq] at h; obtain ⟨⟨_, rfl⟩, rfl⟩ := h; exact ⟨kept_refl g hf, fun h => h⟩⟩
  · by_cases h2 : c.state = .definite ∧ g.limit = none
    · exact absurd h2.2 (hlim h2.1)
    · by_cases h3 : c.state = .definite ∧ g.limit = some 0
      · simp only [if_neg h1, if_neg h2, if_pos h3]
        exact ⟨notPanic_ok _, fun a c' g' h => by
          simp only [Except.ok.injEq, Prod.mk.injEq] at h; obtain ⟨⟨_, rfl⟩, rfl⟩ := h; exact ⟨kept_refl g hf, fun h => h⟩⟩
      · by_cases h4 : c.state = .unbounded ∧ g.view = []
        · simp only [if_neg h1, if_neg h2, if_neg h3, if_pos h4]
          exact ⟨notPanic_ok _, fun a c' g' h => by
            simp only [Except.ok.injEq, Prod.mk.injEq] at h; obtain ⟨⟨_, rfl⟩, rfl⟩ := h; exact ⟨kept_refl g hf, fun h => h⟩⟩
        · simp only [if_neg h1, if_neg h2, if_neg h3, if_neg h4]
          cases hH : headerF c.mode g with
          | none => exact ⟨notPanic_content, fun a c' g' h => by cases h⟩
          | some r =>
            obtain ⟨⟨id, len?⟩, g2⟩ := r
            have hk := headerF_kept _ _ _ _ _ hH
            obtain ⟨n1, n2⟩ := bodyF_safe c op hop g.data.length g2 hk.1 id len?
            refine ⟨n1, fun a c' g' h => ?_⟩
            obtain ⟨hk2, hs⟩ := n2 a c' g' h
            exact ⟨hk.trans hk2, hs⟩

/-- **`process_next_value(Some(tag), op)` never panics if the closure does not** -/
theorem safe_pnvE {α : Type} (cls num : Nat) (hc : cls ≤ 3) (hn : num ≤ 0x1fffff)
    (op : Tag → Content → Prog (α × Content)) (hop : ∀ t, SafeC (op t)) :
    SafeK (fun c => processNextValue c (some (C12.tagOf cls num)) op) := by
  intro c g ⟨hf, hlim⟩
  simp only [C09.pnvE_eq c cls num hc hn op g hf]
  unfold C09.pnvE
  have same : NotPanic (.ok ((none, c), g) : Res ((Option α × Cons) × G0)) ∧
      ∀ a c' g', (.ok ((none, c), g) : Res ((Option α × Cons) × G0)) = .ok ((a, c'), g') →
        Kept g g' ∧ (c'.state = .definite → c.state = .definite) :=
    ⟨notPanic_ok _, fun a c' g' h => by
      simp only [Except.ok.injEq, Prod.mk.injEq] at h; obtain ⟨⟨_, rfl⟩, rfl⟩ := h; exact ⟨kept_refl g hf, fun h => h⟩⟩
  by_cases h1 : c.state = .done
  · rw [if_pos h1]; exact same
  · by_cases h2 : c.state = .definite ∧ g.limit = none
    · exact absurd h2.2 (hlim h2.1)
    · by_cases h3 : c.state = .definite ∧ g.limit = some 0
      · simp only [if_neg h1, if_neg h2, if_pos h3]; exact same
      · by_cases h4 : g.view = []
        · simp only [if_neg h1, if_neg h2, if_neg h3, if_pos h4]; exact same
        · simp only [if_neg h1, if_neg h2, if_neg h3, if_neg h4]
          cases hr : readIdent g.view with
          | none => exact ⟨notPanic_content, fun a c' g' h => by cases h⟩
          | some r =>
            obtain ⟨id, k⟩ := r
            simp only
            by_cases hm : id.cls = cls ∧ id.num = num
            · simp only [hm, and_self, if_true]
              cases hl : readLen c.mode.isBer (g.adv k).view with
              | none => exact ⟨notPanic_content, fun a c' g' h => by cases h⟩
              | some r2 =>
                obtain ⟨len?, kl⟩ := r2
                simp only
                have hk : Kept g ((g.adv k).adv kl) :=
                  (kept_adv g k (readIdent_le _ _ _ hr)).trans (kept_adv _ kl (readLen_bound _ _ _ _ hl).2)
                obtain ⟨n1, n2⟩ := bodyF_safe c op hop g.data.length ((g.adv k).adv kl) hk.1 id len?
                refine ⟨n1, fun a c' g' h => ?_⟩
                obtain ⟨hk2, hs⟩ := n2 a c' g' h
                exact ⟨hk.trans hk2, hs⟩
            · simp only [hm, if_false]; exact same


/-! ### closures -/

theorem cok_of_leafOK {α : Type} (d : Bytes) (len : Nat) (r : Res ((α × Content) × G0))
    (h : LeafOK r (St d (some len))) : COK (St d (some len)) r := by
  rcases h with ⟨e, he, hp⟩ | ⟨a, g', hr, hk⟩
  · exact ⟨notPanic_of_isPanic e he hp, fun a k g' h => by rw [he] at h; cases h⟩
  · refine ⟨by rw [hr]; exact notPanic_ok _, fun a' k g'' h => ?_⟩
    rw [hr] at h; cases h
    exact kept_of_keeps rfl len rfl hk

theorem cok_contentErr {α : Type} (g : G0) : COK g (runG0 (Prog.contentErr : Prog (α × Content)) g) :=
  ⟨notPanic_content, fun a k g' h => by cases h⟩

/-- `content.as_primitive()?` followed by a content-level routine -/
theorem safeC_prim {α : Type} (p : Mode → Prog (α × Mode)) (hp : ∀ m, LeafSafe (p m)) : SafeC (asPrimitive p) := by
  refine ⟨fun m d len => ?_, fun m e d len => cok_contentErr _, fun m e g _ => cok_contentErr _⟩
  apply cok_of_leafOK
  have hl : LeafSafe (asPrimitive p (.prim m)) := by
    simp only [asPrimitive]
    exact LeafSafe.bind (hp m) (fun x => ls_pure _)
  exact leafSafe_run hl _ len rfl

/-- a closure that takes the `Content` itself (`BitString::from_content`, …): content-level code on
    a primitive, a content error on a constructed value -/
theorem safeC_content {α : Type} (op : Content → Prog (α × Content)) (h1 : ∀ m, LeafSafe (op (.prim m)))
    (h2 : ∀ c, op (.cons c) = Prog.contentErr) : SafeC op := by
  refine ⟨fun m d len => ?_, fun m e d len => by rw [h2]; exact cok_contentErr _, fun m e g _ => by rw [h2]; exact cok_contentErr _⟩
  apply cok_of_leafOK
  exact leafSafe_run (h1 m) _ len rfl

/-- `content.as_constructed()?` followed by a reader of its values -/
theorem safeC_cons {α : Type} (k : Cons → Prog (α × Cons)) (hk : SafeK k) : SafeC (asConstructed k) := by
  have run : ∀ (c : Cons) (g : G0), Pre c g → COK g (runG0 (asConstructed k (.cons c)) g) := by
    intro c g hpre
    obtain ⟨n1, n2⟩ := hk c g hpre
    simp only [asConstructed, runG0_bind]
    cases hr : runG0 (k c) g with
    | error e => exact ⟨fun s h => by cases h; exact n1 s hr, fun a k' g' h => by cases h⟩
    | ok x =>
      obtain ⟨⟨a, c'⟩, g'⟩ := x
      refine ⟨notPanic_ok _, fun a' k' g'' h => ?_⟩
      simp only [runG0_pure, Except.ok.injEq, Prod.mk.injEq] at h
      obtain ⟨_, rfl⟩ := h
      exact (n2 a c' g' hr).1
  refine ⟨fun m d len => cok_contentErr _, fun m e d len => ?_, fun m e g hf => ?_⟩
  · exact run _ _ ⟨rfl, fun _ => by simp⟩
  · exact run _ _ ⟨hf, fun h => by cases h⟩

/-! ### readers -/

theorem safeK_pure {α : Type} (a : α) : SafeK (fun c => (pure (a, c) : Prog (α × Cons))) := by
  intro c g ⟨hf, _⟩
  exact ⟨notPanic_ok _, fun a' c' g' h => by
    simp only [runG0_pure, Except.ok.injEq, Prod.mk.injEq] at h; obtain ⟨⟨_, rfl⟩, rfl⟩ := h; exact ⟨kept_refl g hf, fun h => h⟩⟩

theorem pre_of_kept {c c' : Cons} {g g' : G0} (hp : Pre c g) (hk : Kept g g')
    (hs : c'.state = .definite → c.state = .definite) : Pre c' g' :=
  ⟨hk.1, fun h => hk.limit_ne (hp.2 (hs h))⟩

/-- one reader after the other (tuples, fields of a SEQUENCE) -/
theorem safeK_seq {α β : Type} (k1 : Cons → Prog (α × Cons)) (k2 : Cons → Prog (β × Cons)) (h1 : SafeK k1) (h2 : SafeK k2) :
    SafeK (fun c => do let (a, c1) ← k1 c; let (b, c2) ← k2 c1; pure ((a, b), c2)) := by
  intro c g hpre
  obtain ⟨n1, p1⟩ := h1 c g hpre
  simp only [runG0_bind]
  cases hr : runG0 (k1 c) g with
  | error e => exact ⟨fun s h => by cases h; exact n1 s hr, fun a c' g' h => by cases h⟩
  | ok x =>
    obtain ⟨⟨a, c1⟩, g1⟩ := x
    obtain ⟨hk1, hs1⟩ := p1 a c1 g1 hr
    have hpre1 := pre_of_kept hpre hk1 hs1
    obtain ⟨n2, p2⟩ := h2 c1 g1 hpre1
    simp only
    cases hr2 : runG0 (k2 c1) g1 with
    | error e => exact ⟨fun s h => by cases h; exact n2 s hr2, fun a c' g' h => by cases h⟩
    | ok y =>
      obtain ⟨⟨b, c2⟩, g2⟩ := y
      obtain ⟨hk2, hs2⟩ := p2 b c2 g2 hr2
      refine ⟨notPanic_ok _, fun a' c' g' h => ?_⟩
      simp only [runG0_pure, Except.ok.injEq, Prod.mk.injEq] at h
      obtain ⟨⟨_, rfl⟩, rfl⟩ := h
      exact ⟨hk1.trans hk2, fun h => hs1 (hs2 h)⟩

/-- post-processing of the value read (may reject it with a content error) -/
theorem safeK_map {α β : Type} (k : Cons → Prog (α × Cons)) (f : α → Option β) (h : SafeK k) :
    SafeK (fun c => do let (a, c1) ← k c; match f a with | some b => pure (b, c1) | none => Prog.contentErr) := by
  intro c g hpre
  obtain ⟨n1, p1⟩ := h c g hpre
  simp only [runG0_bind]
  cases hr : runG0 (k c) g with
  | error e => exact ⟨fun s h => by cases h; exact n1 s hr, fun a c' g' h => by cases h⟩
  | ok x =>
    obtain ⟨⟨a, c1⟩, g1⟩ := x
    simp only
    cases hfa : f a with
    | none => exact ⟨notPanic_content, fun a c' g' h => by cases h⟩
    | some b =>
      refine ⟨notPanic_ok _, fun a' c' g' h => ?_⟩
      simp only [runG0_pure, Except.ok.injEq, Prod.mk.injEq] at h
      obtain ⟨⟨_, rfl⟩, rfl⟩ := h
      exact p1 a c1 g1 hr

/-- `Constructed::mandatory` -/
theorem safeK_mandatory {α : Type} (k : Cons → Prog (Option α × Cons)) (h : SafeK k) :
    SafeK (fun c => mandatory (k c)) := by
  intro c g hpre
  obtain ⟨n1, p1⟩ := h c g hpre
  simp only [C09.mandatory_run]
  cases hr : runG0 (k c) g with
  | error e => exact ⟨fun s h => by cases h; exact n1 s hr, fun a c' g' h => by cases h⟩
  | ok x =>
    obtain ⟨⟨a, c1⟩, g1⟩ := x
    cases a with
    | none => exact ⟨notPanic_content, fun a c' g' h => by cases h⟩
    | some a =>
      refine ⟨notPanic_ok _, fun a' c' g' h => ?_⟩
      simp only [Except.ok.injEq, Prod.mk.injEq] at h
      obtain ⟨⟨_, rfl⟩, rfl⟩ := h
      exact p1 (some a) c1 g1 hr


/-! ### skipping -/

theorem absentF_kept (c c' : Cons) (g g' : G0) (hf : g.frames = []) (h : C10.absentF c g = some (c', g')) :
    Kept g g' ∧ (c'.state = .definite → c.state = .definite) := by
  unfold C10.absentF at h
  have same : ∀ (x : Option (Cons × G0)), x = some (c, g) → x = some (c', g') →
      Kept g g' ∧ (c'.state = .definite → c.state = .definite) := by
    intro x h1 h2; rw [h1] at h2; simp only [Option.some.injEq, Prod.mk.injEq] at h2
    obtain ⟨rfl, rfl⟩ := h2; exact ⟨kept_refl g hf, fun h => h⟩
  by_cases h1 : c.state = .done
  · rw [if_pos h1] at h; exact same _ rfl h
  · rw [if_neg h1] at h
    by_cases h2 : c.state = .definite ∧ g.limit = none
    · rw [if_pos h2] at h; cases h
    · rw [if_neg h2] at h
      by_cases h3 : c.state = .definite ∧ g.limit = some 0
      · rw [if_pos h3] at h; exact same _ rfl h
      · rw [if_neg h3] at h
        by_cases h4 : c.state = .unbounded ∧ g.view = []
        · rw [if_pos h4] at h; exact same _ rfl h
        · rw [if_neg h4] at h
          cases hH : headerF c.mode g with
          | none => rw [hH] at h; cases h
          | some r =>
            obtain ⟨⟨id, len?⟩, g2⟩ := r
            rw [hH] at h
            simp only at h
            split at h
            · simp only [Option.some.injEq, Prod.mk.injEq] at h
              obtain ⟨rfl, rfl⟩ := h
              exact ⟨headerF_kept _ _ _ _ _ hH, fun h => by cases h⟩
            · cases h

/-- `skip_opt` with any filter and any budget (and so `skip`, `skip_one`): a value, absence, a content
    error or the exhausted budget - never a panic; the `Constructed` stays usable -/
theorem safeK_skipOpt {σ : Type} (filter : σ → Tag → Bool → Nat → Option σ) (st : σ) (N : Nat) :
    SafeK (fun c => do let (r, c', st') ← skipOpt c filter st N; pure ((r, st'), c')) := by
  intro c g ⟨hf, hlim⟩
  simp only [runG0_bind]
  cases hr : runG0 (skipOpt c filter st N) g with
  | error e =>
    refine ⟨fun s h => ?_, fun a c' g' h => by cases h⟩
    cases h
    rcases C16b.skipOpt_nopanic c filter st N g _ hf hlim hr with h1 | h1 <;> cases h1
  | ok x =>
    obtain ⟨⟨r, c1, st1⟩, g1⟩ := x
    refine ⟨notPanic_ok _, fun a c' g' h => ?_⟩
    simp only [runG0_pure, Except.ok.injEq, Prod.mk.injEq] at h
    obtain ⟨⟨_, rfl⟩, rfl⟩ := h
    cases r with
    | some u =>
      obtain ⟨f, t, rest, _, _, hc1, hg1, _⟩ := C10.skip_value_inv c filter st g hf N c1 st1 g1 hr
      rw [hc1, hg1]; exact ⟨kept_adv g _ (by omega), fun h => h⟩
    | none =>
      obtain ⟨ha, _⟩ := C10.skip_absent_inv c filter st g hf N c1 st1 g1 hr
      exact absentF_kept c c1 g g1 hf ha

/-- `skip_all` with any budget -/
theorem safeK_skipAll : ∀ (N : Nat), SafeK (fun c => do let c' ← skipAll c N; pure ((), c')) := by
  intro N
  induction N with
  | zero =>
    intro c g _
    have h0 : runG0 (do let c' ← skipAll c 0; pure ((), c') : Prog (Unit × Cons)) g = .error .fuel := rfl
    refine ⟨fun s h => ?_, fun a c' g' h => ?_⟩
    · rw [h0] at h; cases h
    · rw [h0] at h; cases h
  | succ N ih =>
    intro c g hpre
    obtain ⟨n1, p1⟩ := safeK_skipOpt acceptAll () N c g hpre
    simp only [runG0_bind] at n1 p1 ⊢
    simp only [skipAll, skipOne, runG0_bind]
    cases hr : runG0 (skipOpt c acceptAll () N) g with
    | error e =>
      rw [hr] at n1
      exact ⟨fun s h => by cases h; exact n1 s rfl, fun a c' g' h => by cases h⟩
    | ok x =>
      obtain ⟨⟨r, c1, u⟩, g1⟩ := x
      rw [hr] at p1
      obtain ⟨hk1, hs1⟩ := p1 (r, u) c1 g1 rfl
      simp only [runG0_pure]
      cases r with
      | none =>
        simp only
        refine ⟨notPanic_ok _, fun a c' g' h => ?_⟩
        simp only [runG0_pure, Except.ok.injEq, Prod.mk.injEq] at h
        obtain ⟨⟨_, rfl⟩, rfl⟩ := h
        exact ⟨hk1, hs1⟩
      | some uu =>
        simp only
        have hpre1 := pre_of_kept hpre hk1 hs1
        obtain ⟨n2, p2⟩ := ih c1 g1 hpre1
        simp only [runG0_bind] at n2 p2
        cases hr2 : runG0 (skipAll c1 N) g1 with
        | error e =>
          rw [hr2] at n2
          exact ⟨fun s h => by cases h; exact n2 s rfl, fun a c' g' h => by cases h⟩
        | ok y =>
          obtain ⟨c2, g2⟩ := y
          rw [hr2] at p2
          obtain ⟨hk2, hs2⟩ := p2 () c2 g2 rfl
          refine ⟨notPanic_ok _, fun a c' g' h => ?_⟩
          simp only [runG0_pure, Except.ok.injEq, Prod.mk.injEq] at h
          obtain ⟨⟨_, rfl⟩, rfl⟩ := h
          exact ⟨hk1.trans hk2, fun h => hs1 (hs2 h)⟩

/-! ### capturing -/

theorem g0_eq_St (g : G0) (hf : g.frames = []) : g = St g.data g.limit := by
  cases g with
  | mk d l f => simp at hf; subst hf; rfl

/-- `Constructed::capture` around a capture-free closure that never panics: never panics either - in
    particular the `advance` of the enclosing source over the captured octets stays within its limit,
    because the closure consumed no more than the limit allowed -/
theorem safeK_capture (op : Cons → Prog Cons) (hnc : ∀ c, NoCap (op c))
    (hop : SafeK (fun c => do let c' ← op c; pure ((), c'))) : SafeK (fun c => capture c op) := by
  intro c g hpre
  have hf := hpre.1
  have hg := g0_eq_St g hf
  obtain ⟨n1, p1⟩ := hop c g hpre
  simp only [runG0_bind] at n1 p1
  rw [hg, C16.capture_run0 c op hnc g.data g.limit, ← hg]
  cases hr : runG0 (op c) g with
  | error e =>
    rw [hr] at n1
    exact ⟨fun s h => by cases h; exact n1 s rfl, fun a c' g' h => by cases h⟩
  | ok x =>
    obtain ⟨c1, g1⟩ := x
    rw [hr] at p1
    obtain ⟨⟨hf1, k, hk, hd, ha, hn⟩, hs⟩ := p1 () c1 g1 rfl
    have hlen : g.data.length - g1.data.length = k := by rw [hd, List.length_drop]; omega
    simp only [hlen]
    cases hl : g.limit with
    | none =>
      refine ⟨notPanic_ok _, fun a c' g' h => ?_⟩
      simp only [Except.ok.injEq, Prod.mk.injEq] at h
      obtain ⟨⟨_, rfl⟩, rfl⟩ := h
      refine ⟨⟨rfl, k, hk, hd, ?_, fun _ => rfl⟩, hs⟩
      intro l hl'; rw [hl] at hl'; cases hl'
    | some lim =>
      obtain ⟨l1, _, hle⟩ := ha lim hl
      have hlt : ¬ lim < k := by omega
      simp only [hlt, if_false]
      refine ⟨notPanic_ok _, fun a c' g' h => ?_⟩
      simp only [Except.ok.injEq, Prod.mk.injEq] at h
      obtain ⟨⟨_, rfl⟩, rfl⟩ := h
      refine ⟨⟨rfl, k, hk, hd, ?_, ?_⟩, hs⟩
      · intro l hl'
        rw [hl] at hl'
        simp only [Option.some.injEq] at hl'
        subst hl'
        exact ⟨lim - k, rfl, by omega⟩
      · intro h; rw [hl] at h; cases h

/-- the same for closures that capture again (`C11c.Framable`: behaving under an open capture frame
    as without it — capture-free programs, sequences of framable ones, captures of framable ones) -/
theorem safeK_captureF (op : Cons → Prog Cons) (hfr : ∀ c, C11c.Framable (op c))
    (hop : SafeK (fun c => do let c' ← op c; pure ((), c'))) : SafeK (fun c => capture c op) := by
  intro c g hpre
  have hf := hpre.1
  have hg := g0_eq_St g hf
  obtain ⟨n1, p1⟩ := hop c g hpre
  simp only [runG0_bind] at n1 p1
  rw [hg, C11c.capture_run1 c op hfr g.data g.limit, ← hg]
  cases hr : runG0 (op c) g with
  | error e =>
    rw [hr] at n1
    exact ⟨fun s h => by cases h; exact n1 s rfl, fun a c' g' h => by cases h⟩
  | ok x =>
    obtain ⟨c1, g1⟩ := x
    rw [hr] at p1
    obtain ⟨⟨hf1, k, hk, hd, ha, hn⟩, hs⟩ := p1 () c1 g1 rfl
    have hlen : g.data.length - g1.data.length = k := by rw [hd, List.length_drop]; omega
    simp only [hlen]
    cases hl : g.limit with
    | none =>
      refine ⟨notPanic_ok _, fun a c' g' h => ?_⟩
      simp only [Except.ok.injEq, Prod.mk.injEq] at h
      obtain ⟨⟨_, rfl⟩, rfl⟩ := h
      refine ⟨⟨rfl, k, hk, hd, ?_, fun _ => rfl⟩, hs⟩
      intro l hl'; rw [hl] at hl'; cases hl'
    | some lim =>
      obtain ⟨l1, _, hle⟩ := ha lim hl
      have hlt : ¬ lim < k := by omega
      simp only [hlt, if_false]
      refine ⟨notPanic_ok _, fun a c' g' h => ?_⟩
      simp only [Except.ok.injEq, Prod.mk.injEq] at h
      obtain ⟨⟨_, rfl⟩, rfl⟩ := h
      refine ⟨⟨rfl, k, hk, hd, ?_, ?_⟩, hs⟩
      · intro l hl'
        rw [hl] at hl'
        simp only [Option.some.injEq] at hl'
        subst hl'
        exact ⟨lim - k, rfl, by omega⟩
      · intro h; rw [hl] at h; cases h

/-- changing the value a reader returns does not matter -/
theorem safeK_of_map {α β : Type} (k1 : Cons → Prog (α × Cons)) (k2 : Cons → Prog (β × Cons)) (f : α → β)
    (h : ∀ c g, runG0 (k2 c) g = match runG0 (k1 c) g with
      | .ok ((a, c'), g') => .ok ((f a, c'), g')
      | .error e => .error e) (h1 : SafeK k1) : SafeK k2 := by
  intro c g hpre
  obtain ⟨n1, p1⟩ := h1 c g hpre
  rw [h]
  cases hr : runG0 (k1 c) g with
  | error e => exact ⟨fun s hh => by cases hh; exact n1 s hr, fun a c' g' hh => by cases hh⟩
  | ok x =>
    obtain ⟨⟨a, c1⟩, g1⟩ := x
    refine ⟨notPanic_ok _, fun a' c' g' hh => ?_⟩
    simp only [Except.ok.injEq, Prod.mk.injEq] at hh
    obtain ⟨⟨_, rfl⟩, rfl⟩ := hh
    exact p1 a c1 g1 hr

theorem safeK_skipOne (N : Nat) : SafeK (fun c => skipOne c N) := by
  refine safeK_of_map _ _ (fun (x : Option Unit × Unit) => x.1) (fun c g => ?_) (safeK_skipOpt acceptAll () N)
  simp only [skipOne, runG0_bind]
  cases runG0 (skipOpt c acceptAll () N) g with
  | error e => rfl
  | ok x => obtain ⟨⟨r, c', u⟩, g'⟩ := x; rfl

/-- `capture_one` -/
theorem safeK_captureOne (N : Nat) : SafeK (fun c => captureOne c N) := by
  unfold captureOne
  refine safeK_capture _ (fun c => ?_) ?_
  · have := nocap_mandatory _ (nocap_skipOne c N); nocap
  · refine safeK_of_map _ _ (fun (_ : Unit) => ()) (fun c g => ?_) (safeK_mandatory _ (safeK_skipOne N))
    simp only [runG0_bind]
    cases runG0 (mandatory (skipOne c N)) g with
    | error e => rfl
    | ok x => obtain ⟨⟨u, c'⟩, g'⟩ := x; rfl

/-- `capture_all` -/
theorem safeK_captureAll (N : Nat) : SafeK (fun c => captureAll c N) := by
  unfold captureAll
  exact safeK_capture _ (fun c => nocap_skipAll N c) (safeK_skipAll N)

/-! ### OCTET STRING (and with it the restricted character strings): every form, every mode -/

/-- the loop of `take_constructed_ber` -/
theorem safeK_berLoop (inner : Nat) : ∀ (N : Nat), SafeK (fun c => do let c' ← OS.berLoop c inner N; pure ((), c')) := by
  intro N
  induction N with
  | zero =>
    intro c g _
    have h0 : runG0 (do let c' ← OS.berLoop c inner 0; pure ((), c') : Prog (Unit × Cons)) g = .error .fuel := rfl
    refine ⟨fun s h => ?_, fun a c' g' h => ?_⟩
    · rw [h0] at h; cases h
    · rw [h0] at h; cases h
  | succ N ih =>
    intro c g hpre
    obtain ⟨n1, p1⟩ := safeK_skipOpt OS.berFilter () inner c g hpre
    simp only [runG0_bind] at n1 p1 ⊢
    simp only [OS.berLoop, runG0_bind]
    cases hr : runG0 (skipOpt c OS.berFilter () inner) g with
    | error e =>
      rw [hr] at n1
      exact ⟨fun s h => by cases h; exact n1 s rfl, fun a c' g' h => by cases h⟩
    | ok x =>
      obtain ⟨⟨r, c1, u⟩, g1⟩ := x
      rw [hr] at p1
      obtain ⟨hk1, hs1⟩ := p1 (r, u) c1 g1 rfl
      cases r with
      | none =>
        simp only
        refine ⟨notPanic_ok _, fun a c' g' h => ?_⟩
        simp only [runG0_pure, Except.ok.injEq, Prod.mk.injEq] at h
        obtain ⟨⟨_, rfl⟩, rfl⟩ := h
        exact ⟨hk1, hs1⟩
      | some uu =>
        simp only
        have hpre1 := pre_of_kept hpre hk1 hs1
        obtain ⟨n2, p2⟩ := ih c1 g1 hpre1
        simp only [runG0_bind] at n2 p2
        cases hr2 : runG0 (OS.berLoop c1 inner N) g1 with
        | error e =>
          rw [hr2] at n2
          exact ⟨fun s h => by cases h; exact n2 s rfl, fun a c' g' h => by cases h⟩
        | ok y =>
          obtain ⟨c2, g2⟩ := y
          rw [hr2] at p2
          obtain ⟨hk2, hs2⟩ := p2 () c2 g2 rfl
          refine ⟨notPanic_ok _, fun a c' g' h => ?_⟩
          simp only [runG0_pure, Except.ok.injEq, Prod.mk.injEq] at h
          obtain ⟨⟨_, rfl⟩, rfl⟩ := h
          exact ⟨hk1.trans hk2, fun h => hs1 (hs2 h)⟩

/-- the closure of `take_constructed_cer` on one segment -/
theorem ls_cerClosure (short : Bool) (m : Mode) : LeafSafe (do
      let rem ← Prim.remaining
      if rem > 1000 then Prog.contentErr
      else if short then Prog.contentErr
      else
        Prim.skipAll
        pure (decide (rem < 1000), m) : Prog (Bool × Mode)) := by
  have := ls_remaining; have := ls_skipAll
  leafsafe

/-- the loop of `take_constructed_cer` -/
theorem safeK_cerLoop : ∀ (N : Nat) (short : Bool), SafeK (fun c => do let c' ← OS.cerLoop c N short; pure ((), c')) := by
  intro N
  induction N with
  | zero =>
    intro short c g _
    have h0 : runG0 (do let c' ← OS.cerLoop c 0 short; pure ((), c') : Prog (Unit × Cons)) g = .error .fuel := rfl
    refine ⟨fun s h => ?_, fun a c' g' h => ?_⟩
    · rw [h0] at h; cases h
    · rw [h0] at h; cases h
  | succ N ih =>
    intro short c g hpre
    have hone : SafeK (fun c => takeOptPrimitiveIf c Tag.OCTET_STRING (fun m => do
        let rem ← Prim.remaining
        if rem > 1000 then Prog.contentErr
        else if short then Prog.contentErr
        else
          Prim.skipAll
          pure (decide (rem < 1000), m))) := by
      rw [← C16.tagOf_os]
      exact safe_pnvE 0 4 (by decide) (by decide) _ (fun _ => safeC_prim _ (ls_cerClosure short))
    obtain ⟨n1, p1⟩ := hone c g hpre
    simp only [OS.cerLoop, runG0_bind]
    cases hr : runG0 (takeOptPrimitiveIf c Tag.OCTET_STRING (fun m => do
        let rem ← Prim.remaining
        if rem > 1000 then Prog.contentErr
        else if short then Prog.contentErr
        else
          Prim.skipAll
          pure (decide (rem < 1000), m))) g with
    | error e => exact ⟨fun s h => by cases h; exact n1 s hr, fun a c' g' h => by cases h⟩
    | ok x =>
      obtain ⟨⟨r, c1⟩, g1⟩ := x
      obtain ⟨hk1, hs1⟩ := p1 r c1 g1 hr
      cases r with
      | none =>
        simp only
        refine ⟨notPanic_ok _, fun a c' g' h => ?_⟩
        simp only [runG0_pure, Except.ok.injEq, Prod.mk.injEq] at h
        obtain ⟨⟨_, rfl⟩, rfl⟩ := h
        exact ⟨hk1, hs1⟩
      | some short' =>
        simp only
        have hpre1 := pre_of_kept hpre hk1 hs1
        obtain ⟨n2, p2⟩ := ih short' c1 g1 hpre1
        simp only [runG0_bind] at n2 p2
        cases hr2 : runG0 (OS.cerLoop c1 N short') g1 with
        | error e =>
          rw [hr2] at n2
          exact ⟨fun s h => by cases h; exact n2 s rfl, fun a c' g' h => by cases h⟩
        | ok y =>
          obtain ⟨c2, g2⟩ := y
          rw [hr2] at p2
          obtain ⟨hk2, hs2⟩ := p2 () c2 g2 rfl
          refine ⟨notPanic_ok _, fun a c' g' h => ?_⟩
          simp only [runG0_pure, Except.ok.injEq, Prod.mk.injEq] at h
          obtain ⟨⟨_, rfl⟩, rfl⟩ := h
          exact ⟨hk1.trans hk2, fun h => hs1 (hs2 h)⟩

theorem safeK_takeConstructedBer (fuel : Nat) : SafeK (fun c => OS.takeConstructedBer c fuel) := by
  refine safeK_of_map (fun c => capture c (fun c => OS.berLoop c fuel fuel)) _ (fun b => OS.cons b) (fun c g => ?_)
    (safeK_capture _ (fun c => C16.nocap_berLoop fuel fuel c) (safeK_berLoop fuel fuel))
  simp only [OS.takeConstructedBer, runG0_bind]
  cases runG0 (capture c fun c => OS.berLoop c fuel fuel) g with
  | error e => rfl
  | ok x => obtain ⟨⟨b, c'⟩, g'⟩ := x; rfl

theorem safeK_takeConstructedCer (fuel : Nat) : SafeK (fun c => OS.takeConstructedCer c fuel) := by
  refine safeK_of_map (fun c => capture c (fun c => OS.cerLoop c fuel false)) _ (fun b => OS.cons b) (fun c g => ?_)
    (safeK_capture _ (fun c => C16.nocap_cerLoop fuel c false) (safeK_cerLoop fuel false))
  simp only [OS.takeConstructedCer, runG0_bind]
  cases runG0 (capture c fun c => OS.cerLoop c fuel false) g with
  | error e => rfl
  | ok x => obtain ⟨⟨b, c'⟩, g'⟩ := x; rfl

/-- a reader of a constructed content, as a closure -/
theorem cok_of_safeK {α : Type} (k : Cons → Prog (α × Cons)) (hk : SafeK k) (c : Cons) (g : G0) (hpre : Pre c g) :
    COK g (runG0 (do let (a, c') ← k c; pure (a, Content.cons c')) g) := by
  obtain ⟨n1, n2⟩ := hk c g hpre
  simp only [runG0_bind]
  cases hr : runG0 (k c) g with
  | error e => exact ⟨fun s h => by cases h; exact n1 s hr, fun a k' g' h => by cases h⟩
  | ok x =>
    obtain ⟨⟨a, c'⟩, g'⟩ := x
    refine ⟨notPanic_ok _, fun a' k' g'' h => ?_⟩
    simp only [runG0_pure, Except.ok.injEq, Prod.mk.injEq] at h
    obtain ⟨_, rfl⟩ := h
    exact (n2 a c' g' hr).1

/-- **`OctetString::from_content` never panics**: primitive or constructed, definite or indefinite,
    BER, CER or DER, whatever the content and the loop budget -/
theorem safeC_octets (fuel : Nat) : SafeC (OS.fromContent fuel) := by
  have hcons : ∀ (c : Cons) (g : G0), Pre c g → COK g (runG0 (OS.fromContent fuel (.cons c)) g) := by
    intro c g hpre
    cases hm : c.mode with
    | der => simp only [OS.fromContent, hm]; exact cok_contentErr g
    | ber => simp only [OS.fromContent, hm]; exact cok_of_safeK _ (safeK_takeConstructedBer fuel) c g hpre
    | cer => simp only [OS.fromContent, hm]; exact cok_of_safeK _ (safeK_takeConstructedCer fuel) c g hpre
  refine ⟨fun m d len => ?_, fun m e d len => hcons _ _ ⟨rfl, fun _ => by simp⟩,
    fun m e g hf => hcons _ _ ⟨hf, fun h => by cases h⟩⟩
  apply cok_of_leafOK
  have hl : LeafSafe (OS.fromContent fuel (.prim m)) := by
    simp only [OS.fromContent]
    have := ls_remaining; have := ls_takeAll
    leafsafe
  exact leafSafe_run hl _ len rfl

/-! ### the family of readers -/

mutual
/-- readers of values from a `Constructed`, built from the crate's reading combinators -/
inductive Reader : {α : Type} → (Cons → Prog (α × Cons)) → Prop
  /-- nothing to read -/
  | pure {α : Type} (a : α) : Reader (fun c => (pure (a, c) : Prog (α × Cons)))
  /-- `take_opt_value`, `take_opt_primitive`, `take_opt_constructed` (any tag) -/
  | opt {α : Type} (op : Tag → Content → Prog (α × Content)) (h : ∀ t, Closure (op t)) :
      Reader (fun c => processNextValue c none op)
  /-- `take_opt_value_if`, `take_opt_primitive_if`, `take_opt_constructed_if`, `take_opt_sequence`, … -/
  | optIf {α : Type} (cls num : Nat) (hc : cls ≤ 3) (hn : num ≤ 0x1fffff) (op : Tag → Content → Prog (α × Content))
      (h : ∀ t, Closure (op t)) : Reader (fun c => processNextValue c (some (C12.tagOf cls num)) op)
  /-- the mandatory variants -/
  | mandatory {α : Type} (k : Cons → Prog (Option α × Cons)) (h : Reader k) : Reader (fun c => Bcder.mandatory (k c))
  /-- one after the other -/
  | seq {α β : Type} (k1 : Cons → Prog (α × Cons)) (k2 : Cons → Prog (β × Cons)) (h1 : Reader k1) (h2 : Reader k2) :
      Reader (fun c => do let (a, c1) ← k1 c; let (b, c2) ← k2 c1; pure ((a, b), c2))
  /-- post-processing, possibly rejecting -/
  | map {α β : Type} (k : Cons → Prog (α × Cons)) (f : α → Option β) (h : Reader k) :
      Reader (fun c => do let (a, c1) ← k c; match f a with | some b => pure (b, c1) | none => Prog.contentErr)
  /-- `skip_opt` (and `skip_one`) with any filter and budget -/
  | skipOpt {σ : Type} (filter : σ → Tag → Bool → Nat → Option σ) (st : σ) (N : Nat) :
      Reader (fun c => do let (r, c', st') ← Bcder.skipOpt c filter st N; pure ((r, st'), c'))
  /-- `skip_all` -/
  | skipAll (N : Nat) : Reader (fun c => do let c' ← Bcder.skipAll c N; pure ((), c'))
  /-- `capture_one`, `capture_all` -/
  | captureOne (N : Nat) : Reader (fun c => Bcder.captureOne c N)
  | captureAll (N : Nat) : Reader (fun c => Bcder.captureAll c N)
  /-- `capture` around any capture-free closure that is itself a reader -/
  | capture (f : Cons → Prog Cons) (hnc : ∀ c, NoCap (f c)) (h : Reader (fun c => do let c' ← f c; pure ((), c'))) :
      Reader (fun c => Bcder.capture c f)
  /-- `capture` around a closure that captures again (nested captures, to any depth) -/
  | captureF (f : Cons → Prog Cons) (hfr : ∀ c, C11c.Framable (f c)) (h : Reader (fun c => do let c' ← f c; pure ((), c'))) :
      Reader (fun c => Bcder.capture c f)
/-- closures on the content of one value -/
inductive Closure : {α : Type} → (Content → Prog (α × Content)) → Prop
  /-- `content.as_primitive()?` and a typed accessor (`to_bool`, `to_u8` … `to_i128`, `to_null`, `Integer`, `Oid`, …) -/
  | prim {α : Type} (p : Mode → Prog (α × Mode)) (hp : ∀ m, LeafSafe (p m)) : Closure (asPrimitive p)
  /-- `BitString::from_content` and its like -/
  | content {α : Type} (op : Content → Prog (α × Content)) (h1 : ∀ m, LeafSafe (op (.prim m)))
      (h2 : ∀ c, op (.cons c) = Prog.contentErr) : Closure op
  /-- `content.as_constructed()?` and a reader of the nested values -/
  | cons {α : Type} (k : Cons → Prog (α × Cons)) (hk : Reader k) : Closure (asConstructed k)
  /-- `OctetString::from_content`: primitive and constructed forms -/
  | octets (fuel : Nat) : Closure (OS.fromContent fuel)
end

mutual
/-- **every reader built from the reading combinators never panics**, on any source without open
    capture, at any nesting depth, and hands the `Constructed` back in a usable state -/
theorem reader_safe : ∀ {α : Type} {k : Cons → Prog (α × Cons)}, Reader k → SafeK k
  | _, _, .pure a => safeK_pure a
  | _, _, .opt f h => safe_pnv f (fun t => closure_safe (h t))
  | _, _, .optIf cls num hc hn f h => safe_pnvE cls num hc hn f (fun t => closure_safe (h t))
  | _, _, .mandatory k h => safeK_mandatory k (reader_safe h)
  | _, _, .seq k1 k2 h1 h2 => safeK_seq k1 k2 (reader_safe h1) (reader_safe h2)
  | _, _, .map k f h => safeK_map k f (reader_safe h)
  | _, _, .skipOpt filter st N => safeK_skipOpt filter st N
  | _, _, .skipAll N => safeK_skipAll N
  | _, _, .captureOne N => safeK_captureOne N
  | _, _, .captureAll N => safeK_captureAll N
  | _, _, .capture f hnc h => safeK_capture f hnc (reader_safe h)
  | _, _, .captureF f hfr h => safeK_captureF f hfr (reader_safe h)
theorem closure_safe : ∀ {α : Type} {op : Content → Prog (α × Content)}, Closure op → SafeC op
  | _, _, .prim p hp => safeC_prim p hp
  | _, _, .content f h1 h2 => safeC_content f h1 h2
  | _, _, .cons k hk => safeC_cons k (reader_safe hk)
  | _, _, .octets fuel => safeC_octets fuel
end

/-- **C01: `Mode::decode` with any reader of the family never reaches a panic site**, on every octet
    string, in every mode -/
theorem decode_never_panics {α : Type} (k : Cons → Prog (α × Cons)) (hk : Reader k) (m : Mode) (d : Bytes) (s : String) :
    runG0 (decodeTop m k) (St d none) ≠ .error (.panic s) := by
  unfold decodeTop
  simp only [runG0_bind]
  obtain ⟨n1, p1⟩ := reader_safe hk ⟨.unbounded, m, 0⟩ (St d none) ⟨rfl, fun h => by cases h⟩
  cases hr : runG0 (k ⟨.unbounded, m, 0⟩) (St d none) with
  | error e => intro h; cases h; exact n1 s hr
  | ok x =>
    obtain ⟨⟨a, c'⟩, g'⟩ := x
    simp only
    obtain ⟨hk', _⟩ := p1 a c' g' hr
    obtain ⟨hx, _⟩ := exhausted_ok (.cons c') g' hk'.1
    cases hx2 : runG0 c'.exhausted g' with
    | error e => intro h; cases h; exact hx s hx2
    | ok y => intro h; cases h

/-! ### the accessors of `Constructed` are members of the family -/

theorem reader_takeOptPrimitiveIf {α : Type} (cls num : Nat) (hc : cls ≤ 3) (hn : num ≤ 0x1fffff)
    (p : Mode → Prog (α × Mode)) (hp : ∀ m, LeafSafe (p m)) :
    Reader (fun c => takeOptPrimitiveIf c (C12.tagOf cls num) p) :=
  Reader.optIf cls num hc hn (fun _ => asPrimitive p) (fun _ => Closure.prim p hp)
theorem reader_takePrimitiveIf {α : Type} (cls num : Nat) (hc : cls ≤ 3) (hn : num ≤ 0x1fffff)
    (p : Mode → Prog (α × Mode)) (hp : ∀ m, LeafSafe (p m)) :
    Reader (fun c => takePrimitiveIf c (C12.tagOf cls num) p) :=
  Reader.mandatory _ (reader_takeOptPrimitiveIf cls num hc hn p hp)
theorem reader_takeOptConstructedIf {α : Type} (cls num : Nat) (hc : cls ≤ 3) (hn : num ≤ 0x1fffff)
    (k : Cons → Prog (α × Cons)) (hk : Reader k) :
    Reader (fun c => takeOptConstructedIf c (C12.tagOf cls num) k) :=
  Reader.optIf cls num hc hn (fun _ => asConstructed k) (fun _ => Closure.cons k hk)
theorem reader_takeConstructedIf {α : Type} (cls num : Nat) (hc : cls ≤ 3) (hn : num ≤ 0x1fffff)
    (k : Cons → Prog (α × Cons)) (hk : Reader k) :
    Reader (fun c => takeConstructedIf c (C12.tagOf cls num) k) :=
  Reader.mandatory _ (reader_takeOptConstructedIf cls num hc hn k hk)
theorem reader_takeOptPrimitive {α : Type} (p : Tag → Mode → Prog (α × Mode)) (hp : ∀ t m, LeafSafe (p t m)) :
    Reader (fun c => takeOptPrimitive c p) :=
  Reader.opt (fun t => asPrimitive (p t)) (fun t => Closure.prim (p t) (hp t))
theorem reader_takePrimitive {α : Type} (p : Tag → Mode → Prog (α × Mode)) (hp : ∀ t m, LeafSafe (p t m)) :
    Reader (fun c => takePrimitive c p) :=
  Reader.mandatory _ (reader_takeOptPrimitive p hp)
theorem reader_takeOptConstructed {α : Type} (k : Tag → Cons → Prog (α × Cons)) (hk : ∀ t, Reader (k t)) :
    Reader (fun c => takeOptConstructed c k) :=
  Reader.opt (fun t => asConstructed (k t)) (fun t => Closure.cons (k t) (hk t))
theorem reader_takeConstructed {α : Type} (k : Tag → Cons → Prog (α × Cons)) (hk : ∀ t, Reader (k t)) :
    Reader (fun c => takeConstructed c k) :=
  Reader.mandatory _ (reader_takeOptConstructed k hk)
theorem reader_takeOptValueIf {α : Type} (cls num : Nat) (hc : cls ≤ 3) (hn : num ≤ 0x1fffff)
    (op : Content → Prog (α × Content)) (h : Closure op) :
    Reader (fun c => takeOptValueIf c (C12.tagOf cls num) op) :=
  Reader.optIf cls num hc hn (fun _ => op) (fun _ => h)
theorem reader_takeValueIf {α : Type} (cls num : Nat) (hc : cls ≤ 3) (hn : num ≤ 0x1fffff)
    (op : Content → Prog (α × Content)) (h : Closure op) :
    Reader (fun c => takeValueIf c (C12.tagOf cls num) op) :=
  Reader.mandatory _ (reader_takeOptValueIf cls num hc hn op h)

/-! ### non-vacuity: a nested schema -/

/-- one reader after the other -/
def seqK {α β : Type} (k1 : Cons → Prog (α × Cons)) (k2 : Cons → Prog (β × Cons)) : Cons → Prog ((α × β) × Cons) :=
  fun c => do let (a, c1) ← k1 c; let (b, c2) ← k2 c1; pure ((a, b), c2)

def rInt : Cons → Prog (Int × Cons) := fun c =>
  takePrimitiveIf c (C12.tagOf 0 2) (fun md => do let v ← toInt .i16; pure (v, md))
def rBool : Cons → Prog (Bool × Cons) := fun c =>
  takePrimitiveIf c (C12.tagOf 0 1) (fun md => do let v ← toBool md; pure (v, md))
def rNull : Cons → Prog (Unit × Cons) := fun c =>
  takePrimitiveIf c (C12.tagOf 0 5) (fun md => do toNull; pure ((), md))
def rOptNull : Cons → Prog (Option Unit × Cons) := fun c => takeOptConstructedIf c (C12.tagOf 2 0) rNull
def rBits : Cons → Prog (BitString × Cons) := fun c => takeValueIf c (C12.tagOf 0 3) BitString.fromContent

/-- `SEQUENCE { INTEGER (as i16), BOOLEAN, [0] EXPLICIT NULL OPTIONAL, BIT STRING }` -/
def sample : Cons → Prog ((Int × Bool × Option Unit × BitString) × Cons) := fun c =>
  takeConstructedIf c (C12.tagOf 0 16) (seqK rInt (seqK rBool (seqK rOptNull rBits)))

theorem sample_reader : Reader sample := by
  have hInt : Reader rInt := reader_takePrimitiveIf 0 2 (by decide) (by decide) _
    (fun md => LeafSafe.bind (ls_toInt .i16) (fun v => ls_pure _))
  have hBool : Reader rBool := reader_takePrimitiveIf 0 1 (by decide) (by decide) _
    (fun md => LeafSafe.bind (ls_toBool md) (fun v => ls_pure _))
  have hNull : Reader rNull := reader_takePrimitiveIf 0 5 (by decide) (by decide) _
    (fun md => LeafSafe.bind ls_toNull (fun _ => ls_pure _))
  have hOpt : Reader rOptNull := reader_takeOptConstructedIf 2 0 (by decide) (by decide) _ hNull
  have hBits : Reader rBits := reader_takeValueIf 0 3 (by decide) (by decide) _
    (Closure.content _ (fun m => ls_bits_fromContent (.prim m)) (fun c => rfl))
  exact reader_takeConstructedIf 0 16 (by decide) (by decide) _
    (Reader.seq _ _ hInt (Reader.seq _ _ hBool (Reader.seq _ _ hOpt hBits)))

/-- the nested schema never panics, whatever the input and the mode -/
theorem sample_never_panics (m : Mode) (d : Bytes) (s : String) :
    runG0 (decodeTop m sample) (St d none) ≠ .error (.panic s) :=
  decode_never_panics _ sample_reader m d s

/-- … and it does read what it should -/
example : ∃ g, runG0 (decodeTop .der sample)
    (St [0x30, 0x0f, 0x02, 0x02, 0x01, 0x2c, 0x01, 0x01, 0xff, 0xa0, 0x02, 0x05, 0x00, 0x03, 0x02, 0x04, 0xf0] none) =
    .ok ((300, true, some (), ⟨4, [0xf0]⟩), g) := ⟨_, rfl⟩
/-- … and a truncated input is a content error -/
example : runG0 (decodeTop .der sample) (St [0x30, 0x0f, 0x02, 0x02, 0x01] none) = .error .content := rfl


/-- an OCTET STRING (any form) followed by a capture of everything that is left -/
def sample2 : Cons → Prog ((OS × Bytes) × Cons) :=
  seqK (fun c => takeValueIf c (C12.tagOf 0 4) (OS.fromContent 5)) (fun c => captureAll c 5)

theorem sample2_reader : Reader sample2 :=
  Reader.seq _ _ (reader_takeValueIf 0 4 (by decide) (by decide) _ (Closure.octets 5)) (Reader.captureAll 5)

theorem sample2_never_panics (m : Mode) (d : Bytes) (s : String) :
    runG0 (decodeTop m sample2) (St d none) ≠ .error (.panic s) :=
  decode_never_panics _ sample2_reader m d s

example : ∃ g, runG0 (decodeTop .ber sample2)
    (St [0x24, 0x80, 0x04, 0x01, 0x61, 0x04, 0x01, 0x62, 0x00, 0x00, 0x05, 0x00, 0x02, 0x01, 0x07] none) =
    .ok ((.cons [0x04, 0x01, 0x61, 0x04, 0x01, 0x62], [0x05, 0x00, 0x02, 0x01, 0x07]), g) := ⟨_, rfl⟩

/-! ### nested captures -/

/-- the closure of the D12b witness: two `capture_all` in a row -/
def twoAll (N : Nat) (c : Cons) : Prog Cons := do
  let (_, c1) ← captureAll c N
  let (_, c2) ← captureAll c1 N
  pure c2

theorem framable_twoAll (N : Nat) (c : Cons) : C11c.Framable (twoAll N c) := by
  unfold twoAll
  refine C11c.framable_bind _ _ ((C11c.good_captureAll N).framable c) (fun x => ?_)
  obtain ⟨_, c1⟩ := x
  refine C11c.framable_bind _ _ ((C11c.good_captureAll N).framable c1) (fun y => ?_)
  obtain ⟨_, c2⟩ := y
  exact C11c.framable_pure _

theorem reader_nested (N : Nat) : Reader (fun c => capture c (twoAll N)) := by
  refine Reader.captureF (twoAll N) (framable_twoAll N) ?_
  have base := Reader.map _ (fun (_ : Bytes × Bytes) => some ()) (Reader.seq _ _ (Reader.captureAll N) (Reader.captureAll N))
  have e : (fun c => do
      let (a, c1) ← (do let (a, c1) ← captureAll c N; let (b, c2) ← captureAll c1 N; pure ((a, b), c2) : Prog ((Bytes × Bytes) × Cons))
      match (fun (_ : Bytes × Bytes) => some ()) a with
      | some b => pure (b, c1)
      | none => Prog.contentErr : Cons → Prog (Unit × Cons)) =
      (fun c => do let c' ← twoAll N c; pure ((), c')) := by
    funext c
    simp only [twoAll, Prog.bind_assoc]
    rfl
  rw [← e]
  exact base

/-- **a capture whose closure captures again never reaches a panic site** (in particular the
    `truncate` of the captured octets by the recorded marker size cannot underflow) -/
theorem nested_capture_never_panics (N : Nat) (m : Mode) (d : Bytes) (s : String) :
    runG0 (decodeTop m (fun c => capture c (twoAll N))) (St d none) ≠ .error (.panic s) :=
  decode_never_panics _ (reader_nested N) m d s

end Bcder.Props.C01c
