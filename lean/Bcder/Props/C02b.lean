/-
  C02b — reading a number of values the caller chooses, and switching the mode at a nested level.

  `C02` characterises the exhaustive generic read (`readAll`: `while let Some(..) = take_opt_value`).
  Here:
   * `take_value_spec`: ONE mandatory generic read (`take_value`) in any context that has not ended
     succeeds iff the grammar of the mode sees a value at the front of the view, delivers that tree,
     leaves the `Constructed` as it was and the source right behind the value;
   * `readN_spec`: `n` such reads one after the other (the caller stops after `n` values, whatever
     follows) succeed iff the grammar sees `n` values in a row (`parseN`), and the source is left
     exactly behind the `n`-th — what follows is neither looked at nor consumed (`readN_top`);
   * `switched_spec` (further down): a constructed value whose content is read in another mode
     (`Constructed::set_mode`) is accepted iff its header is well-formed under the outer mode and its
     content under the inner one.
-/
import Bcder.Props.C02
import Bcder.Props.C09
namespace Bcder.Props.C02b
open Bcder Bcder.Spec Prog Bcder.Props.C02 Bcder.Props.C09

/-- `n` values in a row at the front of `bs`; returns them and what follows -/
def parseN (m : M) (f : Nat) : Nat → Bytes → Option (List Tree × Bytes)
  | 0, bs => some ([], bs)
  | n + 1, bs =>
    match parseValue m f bs with
    | none => none
    | some (t, rest) =>
      match parseN m f n rest with
      | none => none
      | some (ts, r) => some (t :: ts, r)

/-- `n` times `cons.take_value(generic)` -/
def readN (f : Nat) : Nat → Cons → Prog (List Tree × Cons)
  | 0, c => pure ([], c)
  | n + 1, c => do
    let (t, c') ← takeValue c (readValue f)
    let (ts, c'') ← readN f n c'
    pure (t :: ts, c'')

def specOne (c : Cons) (f : Nat) (g : G0) : Option ((Tree × Cons) × G0) :=
  (parseValue (toM c.mode) f g.view).map fun p => ((p.1, c), g.adv (g.view.length - p.2.length))

theorem parseValue_nil (m : M) (f : Nat) : parseValue m f [] = none := by
  cases f <;> simp [parseValue, readIdent]

theorem parseValue_eoc (m : M) (f : Nat) (v : Bytes) (id : Ident) (k : Nat) (hr : readIdent v = some (id, k))
    (he : isEocIdent id = true) : parseValue m f v = none := by
  cases f with
  | zero => simp [parseValue]
  | succ f => simp [parseValue, hr, he]

/-- **one mandatory generic read** -/
theorem take_value_spec (f : Nat) (c : Cons) (g : G0) (hf : g.frames = []) (hnd : c.state ≠ .done)
    (hdef : ¬ (c.state = .definite ∧ g.limit = none)) :
    Rel0 (runG0 (takeValue c (readValue f)) g) (specOne c f g) := by
  unfold takeValue specOne
  rw [mandatory_run, pnv_eq c _ g hf]
  by_cases h3 : c.state = .definite ∧ g.limit = some 0
  · have hv : g.view = [] := by simp [G0.view, h3.2]
    unfold pnvF
    simp only [hnd, hdef, h3, if_false, and_self, if_true, hv, parseValue_nil]
    simp [Rel0]
  · by_cases h4 : c.state = .unbounded ∧ g.view = []
    · unfold pnvF
      simp only [hnd, hdef, h3, h4, if_false, and_self, if_true, parseValue_nil]
      simp [Rel0]
    · rw [pnvF_value c f g hnd hdef h3 h4]
      -- an end-of-contents identifier in an indefinite parent: not a value
      by_cases he : c.state = .indefinite ∧ ∃ id k, readIdent g.view = some (id, k) ∧ isEocIdent id = true
      · obtain ⟨hs, id, k, hr, hid⟩ := he
        rw [parseValue_eoc _ f _ id k hr hid]
        unfold valuePart headerF
        rw [hr]
        simp only
        cases readLen c.mode.isBer (g.adv k).view with
        | none => simp [Rel0]
        | some r =>
          obtain ⟨len?, kl⟩ := r
          simp only [bodyF, hid, if_true, hs]
          by_cases hc : id.constructed = true
          · simp [hc, Rel0]
          · by_cases hl : len? = some 0
            · simp [hc, hl, Rel0]
            · simp [hc, hl, Rel0]
      · have hv := (all_levels f).2.2.2 c g hf (by
          intro hs id k hr
          cases hb : isEocIdent id with
          | false => rfl
          | true => exact absurd ⟨hs, id, k, hr, hb⟩ he)
        unfold specV at hv
        cases hp : parseValue (toM c.mode) f g.view with
        | none =>
          rw [hp] at hv
          rcases (rel0_none _).mp hv with h | h <;> simp [h, Rel0]
        | some p =>
          rw [hp] at hv
          have := (rel0_some _ _).mp hv
          simp [this, Rel0]

def specN (c : Cons) (f n : Nat) (g : G0) : Option ((List Tree × Cons) × G0) :=
  (parseN (toM c.mode) f n g.view).map fun p => ((p.1, c), g.adv (g.view.length - p.2.length))

/-- **the caller reads `n` values and stops**: accepted iff the grammar sees `n` values in a row;
    then these are delivered, the `Constructed` is unchanged and the source is exactly behind the
    `n`-th value — whatever follows has no influence and is not consumed -/
theorem readN_spec (f : Nat) : ∀ (n : Nat) (c : Cons) (g : G0), g.frames = [] → c.state ≠ .done →
    ¬ (c.state = .definite ∧ g.limit = none) →
    Rel0 (runG0 (readN f n c) g) (specN c f n g) := by
  intro n
  induction n with
  | zero =>
    intro c g hf _ _
    simp only [readN, runG0_pure, specN, parseN, Option.map, Nat.sub_self, Rel0, g.adv_zero hf]
  | succ n ih =>
    intro c g hf hnd hdef
    have h1 := take_value_spec f c g hf hnd hdef
    unfold specOne at h1
    simp only [readN, runG0_bind, specN, parseN]
    cases hp : parseValue (toM c.mode) f g.view with
    | none =>
      rw [hp] at h1
      rcases (rel0_none _).mp h1 with h | h <;> simp [h, Rel0]
    | some p =>
      obtain ⟨t, rest⟩ := p
      rw [hp] at h1
      have e1 := (rel0_some _ _).mp h1
      simp only [Option.map] at e1
      rw [e1]
      simp only
      obtain ⟨k, hk, hrest⟩ := (suffix_lemma (toM c.mode) f).1 _ _ _ hp
      have hlen : g.view.length - rest.length = k := by rw [hrest, List.length_drop]; omega
      rw [hlen]
      have hview : (g.adv k).view = rest := by rw [G0.adv_view g k hk, hrest]
      have h2 := ih c (g.adv k) rfl hnd (by
        intro ⟨hs, hl⟩
        apply hdef
        refine ⟨hs, ?_⟩
        cases hgl : g.limit with
        | none => rfl
        | some l => simp [G0.adv, hgl] at hl)
      unfold specN at h2
      rw [hview] at h2
      cases hq : parseN (toM c.mode) f n rest with
      | none =>
        rw [hq] at h2
        rcases (rel0_none _).mp h2 with h | h <;> simp [h, Rel0]
      | some q =>
        obtain ⟨ts, r⟩ := q
        rw [hq] at h2
        have e2 := (rel0_some _ _).mp h2
        simp only [Option.map] at e2
        rw [e2]
        simp only [runG0_pure, Option.map, Rel0, Prod.mk.injEq, true_and]
        rw [G0.adv_adv]
        congr 1
        -- octets: k for the first value, the rest for the others
        have : r.length ≤ rest.length := by
          have : ∀ (n : Nat) (bs : Bytes) (ts : List Tree) (r : Bytes), parseN (toM c.mode) f n bs = some (ts, r) →
              r.length ≤ bs.length := by
            intro n
            induction n with
            | zero => intro bs ts r h; simp [parseN] at h; rw [h.2]; exact Nat.le_refl _
            | succ n ihn =>
              intro bs ts r h
              simp only [parseN] at h
              cases hv : parseValue (toM c.mode) f bs with
              | none => rw [hv] at h; cases h
              | some pv =>
                obtain ⟨t1, r1⟩ := pv
                rw [hv] at h
                simp only at h
                cases hn : parseN (toM c.mode) f n r1 with
                | none => rw [hn] at h; cases h
                | some pn =>
                  obtain ⟨ts1, r2⟩ := pn
                  rw [hn] at h
                  simp only [Option.some.injEq, Prod.mk.injEq] at h
                  obtain ⟨k1, hk1, hr1⟩ := (suffix_lemma (toM c.mode) f).1 _ _ _ hv
                  have := ihn r1 ts1 r2 hn
                  rw [← h.2]
                  rw [hr1, List.length_drop] at this
                  omega
          exact this n rest ts r hq
        rw [hrest, List.length_drop] at this ⊢
        omega

/-- at top level: `Mode::decode(source, |cons| n × take_value)` -/
theorem readN_top (m : Mode) (f n : Nat) (d : Bytes) :
    Rel0 (runG0 (readN f n ⟨.unbounded, m, 0⟩) (St d none))
      ((parseN (toM m) f n d).map fun p => ((p.1, ⟨.unbounded, m, 0⟩), St p.2 none)) := by
  have h := readN_spec f n ⟨.unbounded, m, 0⟩ (St d none) rfl (by simp) (by simp)
  unfold specN at h
  simp only [St_view_none] at h
  cases hp : parseN (toM m) f n d with
  | none => rw [hp] at h; exact h
  | some p =>
    rw [hp] at h
    simp only [Option.map] at h ⊢
    have : ∀ (n : Nat) (bs : Bytes) (ts : List Tree) (r : Bytes), parseN (toM m) f n bs = some (ts, r) →
        ∃ k, k ≤ bs.length ∧ r = bs.drop k := by
      intro n
      induction n with
      | zero => intro bs ts r h; simp [parseN] at h; exact ⟨0, Nat.zero_le _, by rw [← h.2]; rfl⟩
      | succ n ihn =>
        intro bs ts r h
        simp only [parseN] at h
        cases hv : parseValue (toM m) f bs with
        | none => rw [hv] at h; cases h
        | some pv =>
          obtain ⟨t1, r1⟩ := pv
          rw [hv] at h
          simp only at h
          cases hn : parseN (toM m) f n r1 with
          | none => rw [hn] at h; cases h
          | some pn =>
            obtain ⟨ts1, r2⟩ := pn
            rw [hn] at h
            simp only [Option.some.injEq, Prod.mk.injEq] at h
            obtain ⟨k1, hk1, hr1⟩ := (suffix_lemma (toM m) f).1 _ _ _ hv
            obtain ⟨k2, hk2, hr2⟩ := ihn r1 ts1 r2 hn
            refine ⟨k1 + k2, ?_, ?_⟩
            · rw [hr1, List.length_drop] at hk2; omega
            · rw [← h.2, hr2, hr1, List.drop_drop]
    obtain ⟨k, hk, hr⟩ := this n d p.1 p.2 hp
    have e : (St d none).adv (d.length - p.2.length) = St p.2 none := by
      rw [hr, List.length_drop]
      simp only [G0.adv, Option.map]
      congr 1
      congr 1
      omega
    rw [e] at h
    exact h

/-! non-vacuity: two of three values read, the third untouched -/
example : parseN .der 3 2 [0x05, 0x00, 0x01, 0x01, 0xff, 0x02, 0x01, 0x07] =
    some ([.prim ⟨0, false, 5⟩ [], .prim ⟨0, false, 1⟩ [0xff]], [0x02, 0x01, 0x07]) := by rfl
example : runG0 (readN 3 2 ⟨.unbounded, .der, 0⟩) (St [0x05, 0x00, 0x01, 0x01, 0xff, 0x02, 0x01, 0x07] none) =
    .ok (([.prim ⟨0, false, 5⟩ [], .prim ⟨0, false, 1⟩ [0xff]], ⟨.unbounded, .der, 0⟩), St [0x02, 0x01, 0x07] none) := by rfl
example : parseN .der 3 2 [0x05, 0x00, 0x01, 0x81, 0x01, 0xff] = none := by rfl

/-! ### switching the mode at a nested level (definitions and the body/header steps are in C02) -/

def specOneSw (m' : Mode) (c : Cons) (f : Nat) (g : G0) : Option ((Tree × Cons) × G0) :=
  (parseSwitched (toM c.mode) (toM m') f g.view).map fun p => ((p.1, c), g.adv (g.view.length - p.2.length))

theorem parseSwitched_nil (m m' : M) (f : Nat) : parseSwitched m m' f [] = none := by
  simp [parseSwitched, readIdent]

theorem parseSwitched_eoc (m m' : M) (f : Nat) (v : Bytes) (id : Ident) (k : Nat) (hr : readIdent v = some (id, k))
    (he : isEocIdent id = true) : parseSwitched m m' f v = none := by
  simp [parseSwitched, hr, he]

/-- **a value read in mode `m` whose content is read in mode `m'`** (`Constructed::set_mode` inside the
    closure): accepted iff the header is well-formed under `m` and the content under `m'`; nested
    values below inherit `m'` (they are read by `readAll` in that mode: C02) -/
theorem switched_spec (m' : Mode) (f : Nat) (c : Cons) (g : G0) (hf : g.frames = []) (hnd : c.state ≠ .done)
    (hdef : ¬ (c.state = .definite ∧ g.limit = none)) :
    Rel0 (runG0 (takeValue c (readValueAs m' f)) g) (specOneSw m' c f g) := by
  unfold takeValue specOneSw
  rw [mandatory_run, pnv_eq c _ g hf]
  by_cases h3 : c.state = .definite ∧ g.limit = some 0
  · have hv : g.view = [] := by simp [G0.view, h3.2]
    unfold pnvF
    simp only [hnd, hdef, h3, if_false, and_self, if_true, hv, parseSwitched_nil]
    simp [Rel0]
  · by_cases h4 : c.state = .unbounded ∧ g.view = []
    · unfold pnvF
      simp only [hnd, hdef, h3, h4, if_false, and_self, if_true, parseSwitched_nil]
      simp [Rel0]
    · have hpv : pnvF c (readValueAs m' f) g = valuePartAs m' c f g := by
        unfold pnvF valuePartAs
        simp only [hnd, hdef, h3, h4, if_false]
      rw [hpv]
      by_cases he : c.state = .indefinite ∧ ∃ id k, readIdent g.view = some (id, k) ∧ isEocIdent id = true
      · obtain ⟨hs, id, k, hr, hid⟩ := he
        rw [parseSwitched_eoc _ _ f _ id k hr hid]
        unfold valuePartAs headerF
        rw [hr]
        simp only
        cases readLen c.mode.isBer (g.adv k).view with
        | none => simp [Rel0]
        | some r =>
          obtain ⟨len?, kl⟩ := r
          simp only [bodyF, hid, if_true, hs]
          by_cases hc : id.constructed = true
          · simp [hc, Rel0]
          · by_cases hl : len? = some 0
            · simp [hc, hl, Rel0]
            · simp [hc, hl, Rel0]
      · have hv := vs_sw m' f (all_levels f).1 (all_levels f).2.1 c g hf (by
          intro hs id k hr
          cases hb : isEocIdent id with
          | false => rfl
          | true => exact absurd ⟨hs, id, k, hr, hb⟩ he)
        unfold specVsw at hv
        cases hp : parseSwitched (toM c.mode) (toM m') f g.view with
        | none =>
          rw [hp] at hv
          rcases (rel0_none _).mp hv with h | h <;> simp [h, Rel0]
        | some p =>
          rw [hp] at hv
          have := (rel0_some _ _).mp hv
          simp [this, Rel0]

/-! non-vacuity, by kernel evaluation: a BER-only length form (`81 02`) inside a value read in DER -/
-- outer DER, content switched to BER: accepted
example : runG0 (takeValue ⟨.unbounded, .der, 0⟩ (readValueAs .ber 3)) (St [0x30, 0x04, 0x04, 0x81, 0x01, 0xaa] none) =
    .ok ((.cons ⟨0, true, 16⟩ false [.prim ⟨0, false, 4⟩ [0xaa]], ⟨.unbounded, .der, 0⟩), St [] none) := by rfl
-- no switch: rejected, the content inherits DER
example : runG0 (takeValue ⟨.unbounded, .der, 0⟩ (readValueAs .der 3)) (St [0x30, 0x04, 0x04, 0x81, 0x01, 0xaa] none) =
    .error .content := by rfl
-- the header of the value itself stays under the outer mode
example : runG0 (takeValue ⟨.unbounded, .der, 0⟩ (readValueAs .ber 3)) (St [0x30, 0x81, 0x03, 0x04, 0x01, 0xaa] none) =
    .error .content := by rfl
example : parseSwitched .der .ber 3 [0x30, 0x04, 0x04, 0x81, 0x01, 0xaa] =
    some (.cons ⟨0, true, 16⟩ false [.prim ⟨0, false, 4⟩ [0xaa]], []) := by rfl

end Bcder.Props.C02b
