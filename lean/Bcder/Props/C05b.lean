/-
  C05b — DER canonicity for the restricted character strings and for the string encoders.

  `C05.DerCodec` has the leaves BOOLEAN, NULL, the INTEGERs, OBJECT IDENTIFIER, BIT STRING and
  OCTET STRING, re-encoded with `Primitive<…>`.  Here:

   * `RestrictedString::from_content` (Utf8String, NumericString, PrintableString, Ia5String) is a
     primitive-only window closure and accepts exactly what re-encoding the returned value writes
     (`primOnly_restricted`, `leaf_restricted_canonical`);
   * re-encoding with the encoders the crate really uses for these values — `OctetStringEncoder`
     (`OctetString::encode_as`, `RestrictedString::encode_as`), `OctetSliceEncoder`,
     `BitSliceEncoder` — writes the same octets as `Primitive<…>` for every value a DER decoder can
     return (`write_octetString_der`, `write_octetSlice`, `write_bitSlice`), so `DerCodec.congr`
     brings them into the algebra (`derCodec_octetString`, `derCodec_restricted`, `derCodec_bitSlice`).
-/
import Bcder.Props.C05
import Bcder.Props.C04b
import Bcder.Props.C11b
namespace Bcder.Props.C05b
open Bcder Bcder.Spec Prog Bcder.Props.C02 Bcder.Props.C09 Bcder.Props.C04 Bcder.Props.C05

/-- what `RestrictedString::from_content` returns, `OctetString::from_content` returned (on the same
    source, leaving it the same), and the value passed the character-set check -/
theorem restricted_run_inv (cs : CharSet) (fuel : Nat) (k : Content) (g : G0) (os : OS) (k' : Content) (g' : G0)
    (h : runG0 (RS.fromContent cs fuel k) g = .ok ((os, k'), g')) :
    runG0 (OS.fromContent fuel k) g = .ok ((os, k'), g') ∧ RS.new cs os = .ok (some os) := by
  simp only [RS.fromContent, runG0_bind] at h
  cases hr : runG0 (OS.fromContent fuel k) g with
  | error e => rw [hr] at h; cases h
  | ok r =>
    obtain ⟨⟨os1, k1⟩, g1⟩ := r
    rw [hr] at h
    simp only at h
    cases hn : RS.new cs os1 with
    | error e => rw [hn] at h; simp [runG0] at h
    | ok o =>
      rw [hn] at h
      cases o with
      | none => simp [contentErr, runG0] at h
      | some os2 =>
        simp only [runG0_pure, Except.ok.injEq, Prod.mk.injEq] at h
        obtain ⟨⟨h1, h2⟩, h3⟩ := h
        -- `new` hands back the octet string it was given
        have : os2 = os1 := by
          simp only [RS.new, Bind.bind, Except.bind] at hn
          cases ho : os1.octets with
          | error e => rw [ho] at hn; cases hn
          | ok bs =>
            rw [ho] at hn
            simp only at hn
            cases hc : cs.check bs with
            | error e => rw [hc] at hn; cases hn
            | ok b =>
              rw [hc] at hn
              cases b <;> simp [pure, Except.pure] at hn
              exact hn.symm
        subst this
        subst h1; subst h2; subst h3
        exact ⟨rfl, hn⟩

/-- `RestrictedString::from_content` is a primitive-only window closure -/
theorem primOnly_restricted (cs : CharSet) (fuel : Nat) : PrimOnly (RS.fromContent cs fuel) := by
  have hos := primOnly_octets fuel
  refine ⟨?_, ?_, ?_⟩
  · intro st g r h
    obtain ⟨⟨os, k'⟩, g'⟩ := r
    exact hos.rejectsCons st g _ (restricted_run_inv cs fuel _ g os k' g' h).1
  · have := hos.window
    simp only [RS.fromContent]
    uses
  · intro g a k g' h
    exact hos.returnsPrim g a k g' (restricted_run_inv cs fuel _ g a k g' h).1

/-- **restricted character strings in DER**: primitive form only, content returned unchanged — what
    is accepted is exactly what re-encoding the returned string writes -/
theorem leaf_restricted_canonical (cs : CharSet) (fuel : Nat) : LeafCanonC (RS.fromContent cs fuel) osPC := by
  intro cnt tail os g h
  apply leaf_octets_canonical fuel cnt tail os g
  unfold contentRun at h ⊢
  cases hr : runG0 (RS.fromContent cs fuel (.prim .der)) (St (cnt ++ tail) (some cnt.length)) with
  | error e => rw [hr] at h; cases h
  | ok r =>
    obtain ⟨⟨os1, k1⟩, g1⟩ := r
    rw [hr] at h
    rw [(restricted_run_inv cs fuel _ _ os1 k1 g1 hr).1]
    exact h

/-- …and whatever it returns is a string of the character set (C18: `check` = the reference decoder) -/
theorem restricted_returns_valid (cs : CharSet) (fuel : Nat) (cnt tail : Bytes) (os : OS) (g : G0)
    (h : contentRun (RS.fromContent cs fuel) .der cnt tail = .ok (os, g)) :
    os = .prim cnt ∧ cs.check cnt = .ok true := by
  unfold contentRun at h
  cases hr : runG0 (RS.fromContent cs fuel (.prim .der)) (St (cnt ++ tail) (some cnt.length)) with
  | error e => rw [hr] at h; cases h
  | ok r =>
    obtain ⟨⟨os1, k1⟩, g1⟩ := r
    rw [hr] at h
    obtain ⟨h1, h2⟩ := restricted_run_inv cs fuel _ _ os1 k1 g1 hr
    have hrun : runG0 (OS.fromContent fuel (.prim .der)) (St (cnt ++ tail) (some cnt.length)) =
        .ok ((.prim cnt, .prim .der), St tail (some 0)) := by
      have hne : (Mode.der == Mode.cer) = false := rfl
      simp only [OS.fromContent, hne, Bool.false_and, Bool.false_eq_true, if_false, runG0_bind, C19.run_remaining,
        C15.run_takeAll_content, runG0_pure]
    rw [hrun] at h1
    simp only [Except.ok.injEq, Prod.mk.injEq] at h1
    obtain ⟨⟨e1, e2⟩, e3⟩ := h1
    subst e1; subst e2; subst e3
    simp only [Content.exhausted, run_limitedExhausted, if_true, Except.ok.injEq, Prod.mk.injEq] at h
    refine ⟨h.1.symm, ?_⟩
    simp only [RS.new, OS.octets, Bind.bind, Except.bind, pure, Except.pure] at h2
    cases hc : cs.check cnt with
    | error e => rw [hc] at h2; cases h2
    | ok b =>
      rw [hc] at h2
      cases b
      · simp at h2
      · rfl

/-! ### the encoders the crate uses for these values write what `Primitive<…>` writes -/

/-- `OctetStringEncoder` in DER = `Primitive<&[u8]>` of the octets of the string -/
theorem write_octetString_der (tag : Tag) (os : OS) (bs : Bytes) (ho : os.octets = .ok bs) :
    (Enc.octetString tag os).write .der = (Enc.prim tag (.octets bs)).write .der := by
  simp only [Enc.write]
  rw [C06.os_octets] at ho
  rw [C06.os_len]
  cases hs : os.segments with
  | error e => rw [hs] at ho; cases ho
  | ok segs =>
    rw [hs] at ho
    simp only [Except.map, Except.ok.injEq] at ho
    simp only [Except.map, Bind.bind, Except.bind, Pure.pure, Except.pure, PC.encodedLen, PC.write]
    rw [ho]

/-- `OctetSliceEncoder` = `Primitive<&[u8]>` (BER and DER) -/
theorem write_octetSlice (m : Mode) (hm : m ≠ .cer) (tag : Tag) (bs : Bytes) :
    (Enc.octetSlice tag bs).write m = (Enc.prim tag (.octets bs)).write m := by
  have : (m == Mode.cer) = false := by cases m <;> simp at hm ⊢
  simp only [Enc.write, this, Bool.false_eq_true, if_false, PC.encodedLen, PC.write]

/-- `BitSliceEncoder` = `Primitive<BitString>` (BER and DER) -/
theorem write_bitSlice (m : Mode) (hm : m ≠ .cer) (tag : Tag) (u : UInt8) (bs : Bytes) :
    (Enc.bitSlice tag u bs).write m = (Enc.prim tag (.bits u bs)).write m := by
  have : (m == Mode.cer) = false := by cases m <;> simp at hm ⊢
  simp only [Enc.write, this, Bool.false_eq_true, if_false, PC.encodedLen, PC.write]
  cases (Length.definite (bs.length + 1)).write with
  | error e => rfl
  | ok l => simp [Bind.bind, Except.bind, Pure.pure, Except.pure, List.append_assoc]

/-- a DER decoder of OCTET STRINGs only ever returns primitive strings -/
theorem returns_prim (cls num : Nat) (ht : TagOK cls num) (op : Content → Prog (OS × Content)) (hop : PrimOnly op)
    (hl : LeafCanonC op osPC) (hprim : ∀ cnt tail os g, contentRun op .der cnt tail = .ok (os, g) → os = .prim cnt)
    (v : OS) (hr : Returns (fun c => takeValueIf c (C12.tagOf cls num) op) v) : ∃ cnt, v = .prim cnt := by
  obtain ⟨c, d, lim, c', g', hm, hrun⟩ := hr
  obtain ⟨cnt, tail, _, _, _, _, _, h6⟩ := der_value_framing c hm cls num ht op hop d lim v c' g' hrun
  exact ⟨cnt, hprim cnt tail v _ h6⟩

theorem octets_contentRun (fuel : Nat) (cnt tail : Bytes) (os : OS) (g : G0)
    (h : contentRun (OS.fromContent fuel) .der cnt tail = .ok (os, g)) : os = .prim cnt := by
  unfold contentRun at h
  have hrun : runG0 (OS.fromContent fuel (.prim .der)) (St (cnt ++ tail) (some cnt.length)) =
      .ok ((.prim cnt, .prim .der), St tail (some 0)) := by
    have hne : (Mode.der == Mode.cer) = false := rfl
    simp only [OS.fromContent, hne, Bool.false_and, Bool.false_eq_true, if_false, runG0_bind, C19.run_remaining,
      C15.run_takeAll_content, runG0_pure]
  rw [hrun] at h
  simp only [Content.exhausted, run_limitedExhausted, if_true, Except.ok.injEq, Prod.mk.injEq] at h
  exact h.1.symm

/-- **OCTET STRING, decoded by `OctetString::from_content`, re-encoded by `OctetString::encode_as`
    (`OctetStringEncoder`)** is in the algebra -/
theorem derCodec_octetString (cls num : Nat) (ht : TagOK cls num) (fuel : Nat) :
    DerCodec (fun c => takeValueIf c (C12.tagOf cls num) (OS.fromContent fuel))
      (fun os => .octetString (C12.tagOf cls num) os) := by
  refine DerCodec.congr _ (fun v => .prim (C12.tagOf cls num) (osPC v)) _ ?_
    (DerCodec.value cls num ht _ (primOnly_octets fuel) osPC (leaf_octets_canonical fuel))
  intro v hr
  obtain ⟨cnt, rfl⟩ := returns_prim cls num ht _ (primOnly_octets fuel) (leaf_octets_canonical fuel)
    (octets_contentRun fuel) v hr
  exact ⟨write_octetString_der _ (.prim cnt) cnt rfl, rfl⟩

/-- **the restricted character strings, decoded by `RestrictedString::from_content`, re-encoded by
    `RestrictedString::encode_as` (`OctetStringEncoder`)** are in the algebra -/
theorem derCodec_restricted (cs : CharSet) (cls num : Nat) (ht : TagOK cls num) (fuel : Nat) :
    DerCodec (fun c => takeValueIf c (C12.tagOf cls num) (RS.fromContent cs fuel))
      (fun os => .octetString (C12.tagOf cls num) os) := by
  refine DerCodec.congr _ (fun v => .prim (C12.tagOf cls num) (osPC v)) _ ?_
    (DerCodec.value cls num ht _ (primOnly_restricted cs fuel) osPC (leaf_restricted_canonical cs fuel))
  intro v hr
  obtain ⟨cnt, rfl⟩ := returns_prim cls num ht _ (primOnly_restricted cs fuel) (leaf_restricted_canonical cs fuel)
    (fun cnt tail os g h => (restricted_returns_valid cs fuel cnt tail os g h).1) v hr
  exact ⟨write_octetString_der _ (.prim cnt) cnt rfl, rfl⟩

/-- **BIT STRING re-encoded by `BitSliceEncoder`** is in the algebra -/
theorem derCodec_bitSlice (cls num : Nat) (ht : TagOK cls num) :
    DerCodec (fun c => takeValueIf c (C12.tagOf cls num) BitString.fromContent)
      (fun s => .bitSlice (C12.tagOf cls num) s.unused s.bits) := by
  refine DerCodec.congr _ (fun s => .prim (C12.tagOf cls num) (.bits s.unused s.bits)) _ ?_
    (DerCodec.value cls num ht _ primOnly_bits _ leaf_bits_canonical)
  intro v _
  exact ⟨write_bitSlice .der (by decide) _ _ _, rfl⟩

/-- **C05 for a PrintableString**: whatever `Mode::Der.decode` accepts as a PrintableString is exactly
    what `encode_as(PRINTABLE_STRING)` of the returned string writes, and the string is printable -/
theorem printable_canonical (fuel : Nat) : Canon (fun c => takeValueIf c (C12.tagOf 0 19) (RS.fromContent .printable fuel))
    (fun os => .octetString (C12.tagOf 0 19) os) :=
  der_canonical _ _ (derCodec_restricted .printable 0 19 ⟨by omega, by omega, by omega⟩ fuel)

/-- non-vacuity by kernel evaluation: `13 02 41 31` is accepted and re-encodes to itself; the
    non-printable `13 01 2a` ("*") is rejected -/
example : runG0 (takeValueIf ⟨.unbounded, .der, 0⟩ (C12.tagOf 0 19) (RS.fromContent .printable 4))
    (St [0x13, 0x02, 0x41, 0x31] none) = .ok ((.prim [0x41, 0x31], ⟨.unbounded, .der, 0⟩), St [] none) := by rfl
example : (Enc.octetString (C12.tagOf 0 19) (.prim [0x41, 0x31])).write .der = .ok [0x13, 0x02, 0x41, 0x31] := by rfl
example : runG0 (takeValueIf ⟨.unbounded, .der, 0⟩ (C12.tagOf 0 19) (RS.fromContent .printable 4))
    (St [0x13, 0x01, 0x2a] none) = .error .content := by rfl

/-! ### the untagged readers -/

/-- whenever an untagged read returns a value, the source started with a complete identifier of a
    valid, non-end-of-contents tag -/
theorem untagged_some_ident {α : Type} (c : Cons) (op : Tag → Content → Prog (α × Content)) (g : G0)
    (hf : g.frames = []) (a : α) (c' : Cons) (g' : G0)
    (h : runG0 (processNextValue c none op) g = .ok ((some a, c'), g')) :
    ∃ id k, readIdent g.view = some (id, k) ∧ TagOK id.cls id.num := by
  rw [pnv_eq c op g hf] at h
  unfold pnvF headerF at h
  by_cases h1 : c.state = .done
  · simp [h1] at h
  · by_cases h2 : c.state = .definite ∧ g.limit = none
    · simp [h1, h2] at h
    · by_cases h3 : c.state = .definite ∧ g.limit = some 0
      · simp [h1, h3] at h
      · by_cases h4 : c.state = .unbounded ∧ g.view = []
        · simp [h1, h4] at h
        · simp only [h1, h2, h3, h4, if_false] at h
          cases hr : readIdent g.view with
          | none => rw [hr] at h; cases h
          | some r =>
            obtain ⟨id, k⟩ := r
            rw [hr] at h
            simp only at h
            obtain ⟨b1, b2, _⟩ := C12.readIdent_bounds _ id k hr
            refine ⟨id, k, rfl, b1, b2, ?_⟩
            intro ⟨e1, e2⟩
            have he : isEocIdent id = true := by simp [isEocIdent, e1, e2]
            cases hl : readLen c.mode.isBer (g.adv k).view with
            | none => rw [hl] at h; cases h
            | some r2 =>
              obtain ⟨len?, kl⟩ := r2
              rw [hl] at h
              simp only [bodyF, he, if_true] at h
              split at h
              · split at h
                · cases h
                · split at h
                  · cases h
                  · simp at h
              · cases h

/-- **the mandatory untagged readers (`take_value`, `take_primitive`, `take_constructed`) are
    DER-canonical** against an encoder `enc` if, for every tag, the tag-selective reader with the
    closure applied to that tag is -/
theorem canon_untagged {α : Type} (op : Tag → Content → Prog (α × Content)) (enc : α → Enc)
    (h : ∀ cls num, TagOK cls num →
      Canon (fun c => mandatory (processNextValue c (some (C12.tagOf cls num)) (fun _ => op (C12.tagOf cls num)))) enc) :
    Canon (fun c => mandatory (processNextValue c none op)) enc := by
  intro c d lim v c' g' hm hr
  have hr0 := hr
  rw [mandatory_run] at hr
  cases hp : runG0 (processNextValue c none op) (St d lim) with
  | error e => rw [hp] at hr; cases hr
  | ok r =>
    obtain ⟨⟨a?, c1⟩, g1⟩ := r
    rw [hp] at hr
    cases a? with
    | none => cases hr
    | some a =>
      obtain ⟨id, k, hri, ht⟩ := untagged_some_ident c op (St d lim) rfl a c1 g1 hp
      obtain ⟨cls, b, num⟩ := id
      apply h cls num ht c d lim v c' g' hm
      rw [mandatory_run, ← C04b.untagged_eq c cls num ht.hc ht.hn op (St d lim) rfl b k hri, ← mandatory_run]
      exact hr0

/-- `take_value` with a closure choosing by tag (a CHOICE): canonical if every alternative is -/
theorem canon_takeValue {α : Type} (op : Tag → Content → Prog (α × Content)) (enc : α → Enc)
    (h : ∀ cls num, TagOK cls num → Canon (fun c => takeValueIf c (C12.tagOf cls num) (op (C12.tagOf cls num))) enc) :
    Canon (fun c => takeValue c op) enc :=
  canon_untagged op enc h

/-! non-vacuity: the CHOICE { INTEGER, BOOLEAN } of C04b, read with `take_value` -/

theorem canon_of_never {β : Type} (dec : Cons → Prog (β × Cons)) (enc : β → Enc)
    (h : ∀ c d lim r, runG0 (dec c) (St d lim) ≠ .ok r) : Canon dec enc :=
  fun c d lim v c' g' _ hr => absurd hr (h c d lim _)

theorem leafCanon_map {α β : Type} (p : Prog α) (f : α → β) (pcOf : β → PC) (h : LeafCanon p (fun a => pcOf (f a))) :
    LeafCanon (do let a ← p; pure (f a)) pcOf := by
  intro cnt tail v g hr
  rw [C04.primRun_unfold] at hr
  simp only [runG0_bind, runG0_pure] at hr
  cases hp : runG0 p (St (cnt ++ tail) (some cnt.length)) with
  | error e => rw [hp] at hr; cases hr
  | ok r =>
    obtain ⟨a, g1⟩ := r
    rw [hp] at hr
    simp only at hr
    cases hx : runG0 limitedExhausted g1 with
    | error e => rw [hx] at hr; cases hr
    | ok r2 =>
      obtain ⟨u, g2⟩ := r2
      rw [hx] at hr
      simp only [Except.ok.injEq, Prod.mk.injEq] at hr
      have := h cnt tail a g2 (by rw [C04.primRun_unfold, hp]; simp only; rw [hx])
      rw [← hr.1]; exact this

def choicePC : Int ⊕ Bool → PC
  | .inl i => .int .i16 i
  | .inr b => .bool b

/-- the encoder of the decoded CHOICE value: the alternative that was read, under its own tag -/
def choiceEnc : Int ⊕ Bool → Enc
  | .inl i => .prim (C12.tagOf 0 2) (.int .i16 i)
  | .inr b => .prim (C12.tagOf 0 1) (.bool b)

theorem primRun_map_inv {α β : Type} (p : Prog α) (f : α → β) (cnt tail : Bytes) (v : β) (g : G0)
    (h : C14.primRun (do let a ← p; pure (f a)) cnt tail = .ok (v, g)) :
    ∃ a, v = f a ∧ C14.primRun p cnt tail = .ok (a, g) := by
  rw [C04.primRun_unfold] at h
  simp only [runG0_bind, runG0_pure] at h
  cases hp : runG0 p (St (cnt ++ tail) (some cnt.length)) with
  | error e => rw [hp] at h; cases h
  | ok r =>
    obtain ⟨a, g1⟩ := r
    rw [hp] at h
    simp only at h
    cases hx : runG0 limitedExhausted g1 with
    | error e => rw [hx] at h; cases h
    | ok r2 =>
      obtain ⟨u, g2⟩ := r2
      rw [hx] at h
      simp only [Except.ok.injEq, Prod.mk.injEq] at h
      refine ⟨a, h.1.symm, ?_⟩
      rw [C04.primRun_unfold, hp]
      simp only
      rw [hx, h.2]

/-- one alternative of a CHOICE: read by `take_value_if(tag, |prim| p.map(f))`, re-encoded under
    that tag -/
theorem canon_alt {α β : Type} (cls num : Nat) (ht : TagOK cls num) (p : Prog α) (hp : W p) (f : α → β)
    (pcOf : α → PC) (hl : LeafCanon p pcOf) (enc : β → Enc)
    (henc : ∀ a, enc (f a) = .prim (C12.tagOf cls num) (pcOf a)) :
    Canon (fun c => takeValueIf c (C12.tagOf cls num)
      (asPrimitive (fun md => do let a ← (do let a ← p; pure (f a) : Prog β); pure (a, md)))) enc := by
  intro c d lim v c' g' hm hr
  have hw : W (do let a ← p; pure (f a) : Prog β) := by uses
  obtain ⟨cnt, tail, h1, h2, h3, h4, h5, h6⟩ := der_prim_framing c hm cls num ht _ hw d lim v c' g' hr
  obtain ⟨a, rfl, h7⟩ := primRun_map_inv p f cnt tail v _ h6
  obtain ⟨hc, hi⟩ := hl cnt tail a _ h7
  subst hc
  rw [henc]
  refine ⟨hdrOctets cls false num (pcOf a).write.length ++ (pcOf a).write, tail,
    write_prim_eq .der cls num ht _ hi h2, by simp only [C06.IntsOK]; exact hi, h1, h3, ?_, ?_⟩
  · rw [h4, List.length_append]
  · intro l hl'; rw [List.length_append]; exact h5 l hl'

theorem choice_canonical : Canon (fun c => takeValue c C04b.choiceOp) choiceEnc := by
  apply canon_takeValue
  intro cls num ht
  by_cases h2 : C12.tagOf cls num = C12.tagOf 0 2
  · obtain ⟨rfl, rfl⟩ := C12.tagOf_inj cls num 0 2 ht.hc (by omega) ht.hn (by omega) h2
    have e : C04b.choiceOp (C12.tagOf 0 2) = asPrimitive (fun md => do let a ← C04b.intAlt; pure (a, md)) := by
      simp [C04b.choiceOp]
    rw [e]
    exact canon_alt 0 2 ht (toInt .i16) (w_toInt .i16) Sum.inl (fun i => .int .i16 i) (leaf_int_canonical .i16)
      choiceEnc (fun _ => rfl)
  · by_cases h1 : C12.tagOf cls num = C12.tagOf 0 1
    · obtain ⟨rfl, rfl⟩ := C12.tagOf_inj cls num 0 1 ht.hc (by omega) ht.hn (by omega) h1
      have e : C04b.choiceOp (C12.tagOf 0 1) = asPrimitive (fun md => do let a ← C04b.boolAlt; pure (a, md)) := by
        have : ¬ C12.tagOf 0 1 = C12.tagOf 0 2 := by decide
        simp [C04b.choiceOp, this]
      rw [e]
      exact canon_alt 0 1 ht (toBool .der) (w_toBool .der) Sum.inr (fun b => .bool b) leaf_bool_canonical
        choiceEnc (fun _ => rfl)
    · have e : C04b.choiceOp (C12.tagOf cls num) = fun _ => Prog.contentErr := by
        simp [C04b.choiceOp, h1, h2]
      rw [e]
      apply canon_of_never
      intro c d lim r hr
      unfold takeValueIf at hr
      rw [mandatory_run, C09.pnvE_eq c cls num ht.hc ht.hn _ (St d lim) rfl] at hr
      unfold C09.pnvE at hr
      have hce : ∀ (t : Tag) (k : Content) (g : G0), runG0 ((fun _ => Prog.contentErr : Content → Prog ((Int ⊕ Bool) × Content)) k) g
          = .error .content := fun _ _ _ => rfl
      repeat' (first | (split at hr) | (cases hr))
      all_goals (rename_i hb; unfold bodyF at hb; simp only [runG0, Prog.contentErr] at hb)
      all_goals (repeat' (first | (split at hb) | (cases hb)))

/-! ### captured values -/

/-- **`capture_one` in DER is canonical against `Captured`'s encoder**: the octets it returns are the
    octets it consumed (one complete DER value, C11b), and writing them back copies them -/
theorem canon_captureOne (N : Nat) : Canon (fun c => captureOne c N) (fun bytes => .captured bytes .der) := by
  intro c d lim bytes c' g' hm hr
  obtain ⟨f, t, n, hn, _, _, hb, hg, hc⟩ := C11b.capture_one_value c N d lim bytes c' g' hr
  have hvl : (St d lim).view.length ≤ d.length := G0.view_length_le _
  have hbl : bytes.length = n := by rw [hb, List.length_take]; omega
  refine ⟨bytes, d.drop n, ?_, rfl, ?_, hc, ?_, ?_⟩
  · simp [Enc.write, capturedGuard, Bind.bind, Except.bind, Pure.pure, Except.pure]
  · rw [hb, List.take_append_drop]
  · rw [hg, hbl]; rfl
  · intro l hl
    rw [hbl]
    have : (St d lim).view.length ≤ l := by simp [G0.view, hl, List.length_take]; omega
    omega

/-- SEQUENCE { any value, captured }: in the algebra through `DerCodec.sem`, so by `der_canonical`
    whatever is accepted re-encodes to itself -/
theorem derCodec_captured_sample :
    DerCodec (C04.consD (C12.tagOf 0 16) (C04.seqD (fun c => captureOne c 8) C04.nilD))
      (fun v => .cons (C12.tagOf 0 16) (.seq .tuple [.captured v.1 .der])) :=
  DerCodec.cons 0 16 ⟨by omega, by omega, by omega⟩ _ _
    (DerCodec.seqCons .tuple _ _ (fun b => .captured b .der) (fun _ => [])
      (DerCodec.sem _ _ (canon_captureOne 8)) (DerCodec.seqNil .tuple))

example : runG0 (decodeTop .der (C04.consD (C12.tagOf 0 16) (C04.seqD (fun c => captureOne c 8) C04.nilD)))
    (St [0x30, 0x04, 0x30, 0x02, 0x05, 0x00] none) = .ok (([0x30, 0x02, 0x05, 0x00], ()), St [] none) := by rfl

end Bcder.Props.C05b
