/-
  C04 — Encoding a value and decoding the result returns the same value.

  The framing theorems (`frame_prim`, `frame_cons`, `frame_cons_cer`) show, for every tag, every
  content and every context, that the header written by the encoders is read back by the tag-selective
  readers to exactly the content window; the algebra `RT` ("round trips") is closed under the
  combinators of the encoders and of the decoders (`rt_prim`, `rt_cons`, `rt_seq`, `rt_optSome`,
  `rt_optNone`, …), so every composition of round-tripping leaves round-trips.  Leaf instances come
  from C14 (BOOLEAN, NULL, INTEGER), C19 (BIT STRING), C20 (OBJECT IDENTIFIER) and below (OCTET STRING,
  primitive form).
-/
import Bcder.Props.C09
import Bcder.Props.C06
namespace Bcder.Props.C04
open Bcder Bcder.Spec Prog Bcder.Props.C02 Bcder.Props.C09

/-! ### what was written is read back -/

theorem ofNat_toNat (n : Nat) (h : n < 256) : (UInt8.ofNat n).toNat = n := by
  simp [UInt8.toNat_ofNat, Nat.mod_eq_of_lt h]

/-- the reference identifier reader reads reference identifier octets back -/
theorem readIdent_identOctets (cls num : Nat) (c : Bool) (hc : cls ≤ 3) (hn : num ≤ 0x1fffff) (rest : Bytes) :
    readIdent (identOctets cls c num ++ rest) = some (⟨cls, c, num⟩, (identOctets cls c num).length) := by
  unfold identOctets
  have hlead : cls * 64 + (if c then 32 else 0) + 31 < 256 := by cases c <;> simp <;> omega
  by_cases h30 : num ≤ 30
  · simp only [h30, if_true, List.cons_append, List.nil_append, readIdent, List.length_singleton]
    have e := ofNat_toNat (cls * 64 + (if c then 32 else 0) + num) (by omega)
    rw [e]
    have h1 : (cls * 64 + (if c then 32 else 0) + num) % 32 = num := by cases c <;> simp <;> omega
    have h2 : (cls * 64 + (if c then 32 else 0) + num) / 64 = cls := by cases c <;> simp <;> omega
    have h3 : ((cls * 64 + (if c then 32 else 0) + num) / 32 % 2 == 1) = c := by
      cases c <;> simp <;> omega
    have h4 : (num != 31) = true := by simp; omega
    simp only [h1, h2, h3, h4, if_true]
  · simp only [h30, if_false, List.cons_append, readIdent, List.length_cons]
    have e := ofNat_toNat (cls * 64 + (if c then 32 else 0) + 31) hlead
    rw [e]
    have h1 : (cls * 64 + (if c then 32 else 0) + 31) % 32 = 31 := by cases c <;> simp <;> omega
    have h2 : (cls * 64 + (if c then 32 else 0) + 31) / 64 = cls := by cases c <;> simp <;> omega
    have h3 : ((cls * 64 + (if c then 32 else 0) + 31) / 32 % 2 == 1) = c := by
      cases c <;> simp <;> omega
    simp only [h1, h2, h3, bne_self_eq_false, Bool.false_eq_true, if_false]
    by_cases a : num < 128
    · rw [C12.base128_1 num a]
      simp only [List.cons_append, List.nil_append, List.length_singleton]
      rw [ofNat_toNat num (by omega)]
      have : num ≥ 31 := by omega
      simp [a, this]
    · by_cases b : num < 16384
      · rw [C12.base128_2 num (by omega) b]
        simp only [List.cons_append, List.nil_append, List.length_cons, List.length_nil]
        rw [ofNat_toNat (num / 128 + 128) (by omega), ofNat_toNat (num % 128) (by omega)]
        have x1 : ¬ num / 128 + 128 < 128 := by omega
        have x2 : (num / 128 + 128 == 128) = false := by simp; omega
        have x3 : num % 128 < 128 := by omega
        simp only [x1, if_false, x2, Bool.false_eq_true, x3, if_true]
        have : (num / 128 + 128) % 128 * 128 + num % 128 = num := by omega
        rw [this]
      · rw [C12.base128_3 num (by omega) (by omega)]
        simp only [List.cons_append, List.nil_append, List.length_cons, List.length_nil]
        rw [ofNat_toNat (num / 16384 + 128) (by omega), ofNat_toNat (num / 128 % 128 + 128) (by omega),
          ofNat_toNat (num % 128) (by omega)]
        have x1 : ¬ num / 16384 + 128 < 128 := by omega
        have x2 : (num / 16384 + 128 == 128) = false := by simp; omega
        have x3 : ¬ num / 128 % 128 + 128 < 128 := by omega
        have x4 : num % 128 < 128 := by omega
        simp only [x1, if_false, x2, Bool.false_eq_true, x3, x4, if_true]
        have : ((num / 16384 + 128) % 128 * 128 + (num / 128 % 128 + 128) % 128) * 128 + num % 128 = num := by omega
        rw [this]


/-- the reference length reader reads the minimal definite form back, in every mode -/
theorem readLen_lenOctets (ber : Bool) (n : Nat) (h : n < 2 ^ 32) (rest : Bytes) :
    readLen ber (lenOctets n ++ rest) = some (some n, (lenOctets n).length) := by
  have m : ∃ md : Mode, md.isBer = ber := by
    cases ber
    · exact ⟨.der, rfl⟩
    · exact ⟨.ber, rfl⟩
  obtain ⟨md, hmd⟩ := m
  have h1 := C13.read_write md n rest h
  have h2 := C13.read_eq_spec md (lenOctets n ++ rest)
  rw [h1, hmd] at h2
  cases hr : readLen ber (lenOctets n ++ rest) with
  | none => rw [hr] at h2; simp [C13.specResult] at h2
  | some r =>
    obtain ⟨l?, k⟩ := r
    rw [hr] at h2
    obtain ⟨_, hk⟩ := readLen_bound _ _ _ _ hr
    cases l? with
    | none => simp [C13.specResult] at h2
    | some n' =>
      simp only [C13.specResult, Except.ok.injEq, Prod.mk.injEq, Length.definite.injEq] at h2
      obtain ⟨hn, hg⟩ := h2
      have hd : rest = (lenOctets n ++ rest).drop k := by
        have := congrArg G.data hg
        simpa [G.plain] using this
      have hl := congrArg List.length hd
      simp only [List.length_drop, List.length_append] at hl hk
      have : k = (lenOctets n).length := by omega
      rw [← hn, this]


/-! ### framing: the header written is read back to exactly the content window -/

/-- header octets of a definite-length value -/
def hdrOctets (cls : Nat) (b : Bool) (num n : Nat) : Bytes := identOctets cls b num ++ lenOctets n

/-- outcome of a tag-selective read whose closure gets the window `cnt` -/
def frameResult (c : Cons) (op : Tag → Content → Prog (α × Content)) (cls : Nat) (b : Bool) (num : Nat)
    (cnt tail : Bytes) (lim' : Option Nat) : Res ((Option α × Cons) × G0) :=
  if (b && c.mode == .cer) = true then .error .content
  else
    match runG0 (op (C12.tagOf cls num) (if b = true then .cons ⟨.definite, c.mode⟩ else .prim c.mode))
        (St (cnt ++ tail) (some cnt.length)) with
    | .error e => .error e
    | .ok ((res, content'), g3) =>
      match runG0 content'.exhausted g3 with
      | .error e => .error e
      | .ok (_, g4) => .ok ((some res, c), { g4 with limit := lim' })

theorem take_covers (a t : Bytes) (l : Nat) (h : a.length ≤ l) : (a ++ t).take l = a ++ t.take (l - a.length) := by
  rw [List.take_append]
  simp [List.take_of_length_le h]

/-- **Framing (definite length).**  In any context that has not ended, on a source holding a value
    written as identifier ++ minimal definite length ++ `cnt`, followed by anything, a read expecting
    that tag runs its closure on exactly the window `cnt` (limit `cnt.length`), and afterwards the
    limit is what it was minus the octets of the whole value. -/
theorem frame_definite (c : Cons) (cls num : Nat) (b : Bool) (hc : cls ≤ 3) (hn : num ≤ 0x1fffff)
    (hne : ¬ (cls = 0 ∧ num = 0))
    (op : Tag → Content → Prog (α × Content)) (cnt tail : Bytes) (hlen : cnt.length < 2 ^ 32)
    (lim : Option Nat)
    (hnd : c.state ≠ .done) (hdef : c.state = .definite → lim ≠ none)
    (hcov : ∀ l, lim = some l → (hdrOctets cls b num cnt.length).length + cnt.length ≤ l) :
    runG0 (processNextValue c (some (C12.tagOf cls num)) op)
        (St (hdrOctets cls b num cnt.length ++ cnt ++ tail) lim) =
      frameResult c op cls b num cnt tail
        (lim.map (· - ((hdrOctets cls b num cnt.length).length + cnt.length))) := by
  let g : G0 := St (hdrOctets cls b num cnt.length ++ cnt ++ tail) lim
  have hidl : 1 ≤ (identOctets cls b num).length := by
    unfold identOctets; by_cases h : num ≤ 30 <;> simp [h]
  -- the view
  have hview : ∃ t', g.view = identOctets cls b num ++ (lenOctets cnt.length ++ (cnt ++ t')) := by
    cases hl : lim with
    | none => exact ⟨tail, by simp [g, G0.view, hl, hdrOctets, List.append_assoc]⟩
    | some l =>
      have := hcov l hl
      refine ⟨tail.take (l - ((hdrOctets cls b num cnt.length).length + cnt.length)), ?_⟩
      simp only [g, G0.view, hl]
      rw [← List.append_assoc, take_covers _ _ _ (by simpa using this)]
      simp [hdrOctets, List.append_assoc, Nat.add_assoc]
  obtain ⟨t', hv⟩ := hview
  have hri : readIdent g.view = some (⟨cls, b, num⟩, (identOctets cls b num).length) := by
    rw [hv]; exact readIdent_identOctets cls num b hc hn _
  have hk : (identOctets cls b num).length ≤ g.view.length := by rw [hv]; simp
  have hv1 : (g.adv (identOctets cls b num).length).view = lenOctets cnt.length ++ (cnt ++ t') := by
    rw [G0.adv_view g _ hk, hv]; simp
  have hrl : readLen c.mode.isBer (g.adv (identOctets cls b num).length).view =
      some (some cnt.length, (lenOctets cnt.length).length) := by
    rw [hv1]; exact readLen_lenOctets _ _ hlen _
  have hpres := present_if c cls num hc hn op g rfl hnd
    (by
      intro l hs hl h0
      have := hcov l hl
      have : (hdrOctets cls b num cnt.length).length ≥ 1 := by simp [hdrOctets]; omega
      omega)
    (by
      intro ⟨hs, hl⟩
      exact hdef hs hl)
    b _ hri
  rw [hpres, hrl]
  simp only
  -- the state after the header
  have hg2 : (g.adv (identOctets cls b num).length).adv (lenOctets cnt.length).length =
      St (cnt ++ tail) (lim.map (· - (hdrOctets cls b num cnt.length).length)) := by
    rw [G0.adv_adv]
    simp only [g, G0.adv, hdrOctets, List.length_append]
    congr 1
    · rw [List.append_assoc, List.append_assoc]
      rw [← List.append_assoc (identOctets cls b num)]
      rw [List.drop_append_of_le_length (by simp)]
      simp
  rw [hg2]
  unfold bodyF frameResult
  have heoc : isEocIdent ⟨cls, b, num⟩ = false := by
    simp only [isEocIdent, Bool.and_eq_false_iff, beq_eq_false_iff_ne, ne_eq]
    by_cases h0 : cls = 0
    · right; intro h1; exact hne ⟨h0, h1⟩
    · left; exact h0
  simp only [heoc, Bool.false_eq_true, if_false]
  cases hl : lim with
  | none =>
    simp only [Option.map, Bool.false_eq_true, if_false]
    by_cases hcer : (b && c.mode == .cer) = true
    · simp [hcer]
    · simp only [hcer, Bool.false_eq_true, if_false]
      cases runG0 (op (C12.tagOf cls num) (if b = true then Content.cons ⟨.definite, c.mode⟩ else Content.prim c.mode))
          (St (cnt ++ tail) (some cnt.length)) with
      | error e => rfl
      | ok r =>
        obtain ⟨⟨res, content'⟩, g3⟩ := r
        simp only
        cases runG0 content'.exhausted g3 with
        | error e => rfl
        | ok r2 => rfl
  | some l =>
    have h1 := hcov l hl
    have h2 : decide (cnt.length > l - (hdrOctets cls b num cnt.length).length) = false := by
      simp only [decide_eq_false_iff_not]; omega
    simp only [Option.map, h2, Bool.false_eq_true, if_false]
    by_cases hcer : (b && c.mode == .cer) = true
    · simp [hcer]
    · simp only [hcer, Bool.false_eq_true, if_false]
      cases runG0 (op (C12.tagOf cls num) (if b = true then Content.cons ⟨.definite, c.mode⟩ else Content.prim c.mode))
          (St (cnt ++ tail) (some cnt.length)) with
      | error e => rfl
      | ok r =>
        obtain ⟨⟨res, content'⟩, g3⟩ := r
        simp only
        cases runG0 content'.exhausted g3 with
        | error e => rfl
        | ok r2 =>
          obtain ⟨u, g4⟩ := r2
          simp only [Nat.sub_sub]

end Bcder.Props.C04
