/-
  C04 — Encoding a value and decoding the result returns the same value.

  The framing theorems (`frame_prim`, `frame_cons`, `frame_cons_cer`) show, for every tag, every
  content and every context, that the header written by the encoders is read back by the tag-selective
  readers to exactly the content window; the algebra `RT` ("round trips") is closed under the
  combinators of the encoders and of the decoders (`rt_prim`, `rt_cons`, `rt_seq`, `rt_optSome`,
  `rt_optNone`, …), so every composition of round-tripping leaves round-trips.  Leaf instances come
  from C14 (BOOLEAN, NULL, INTEGER), C19 (BIT STRING), C20 (OBJECT IDENTIFIER) and below (OCTET STRING,
  primitive form).
-/
import Bcder.Props.C09
import Bcder.Props.C06
import Bcder.Props.C14
namespace Bcder.Props.C04
open Bcder Bcder.Spec Prog Bcder.Props.C02 Bcder.Props.C09

/-! ### what was written is read back -/

theorem ofNat_toNat (n : Nat) (h : n < 256) : (UInt8.ofNat n).toNat = n := by
  simp [UInt8.toNat_ofNat, Nat.mod_eq_of_lt h]

/-- the reference identifier reader reads reference identifier octets back -/
theorem readIdent_identOctets (cls num : Nat) (c : Bool) (hc : cls ≤ 3) (hn : num ≤ 0x1fffff) (rest : Bytes) :
    readIdent (identOctets cls c num ++ rest) = some (⟨cls, c, num⟩, (identOctets cls c num).length) := by
  unfold identOctets
  have hlead : cls * 64 + (if c then 32 else 0) + 31 < 256 := by cases c <;> simp <;> omega
  by_cases h30 : num ≤ 30
  · simp only [h30, if_true, List.cons_append, List.nil_append, readIdent, List.length_singleton]
    have e := ofNat_toNat (cls * 64 + (if c then 32 else 0) + num) (by omega)
    rw [e]
    have h1 : (cls * 64 + (if c then 32 else 0) + num) % 32 = num := by cases c <;> simp <;> omega
    have h2 : (cls * 64 + (if c then 32 else 0) + num) / 64 = cls := by cases c <;> simp <;> omega
    have h3 : ((cls * 64 + (if c then 32 else 0) + num) / 32 % 2 == 1) = c := by
      cases c <;> simp <;> omega
    have h4 : (num != 31) = true := by simp; omega
    simp only [h1, h2, h3, h4, if_true]
  · simp only [h30, if_false, List.cons_append, readIdent, List.length_cons]
    have e := ofNat_toNat (cls * 64 + (if c then 32 else 0) + 31) hlead
    rw [e]
    have h1 : (cls * 64 + (if c then 32 else 0) + 31) % 32 = 31 := by cases c <;> simp <;> omega
    have h2 : (cls * 64 + (if c then 32 else 0) + 31) / 64 = cls := by cases c <;> simp <;> omega
    have h3 : ((cls * 64 + (if c then 32 else 0) + 31) / 32 % 2 == 1) = c := by
      cases c <;> simp <;> omega
    simp only [h1, h2, h3, bne_self_eq_false, Bool.false_eq_true, if_false]
    by_cases a : num < 128
    · rw [C12.base128_1 num a]
      simp only [List.cons_append, List.nil_append, List.length_singleton]
      rw [ofNat_toNat num (by omega)]
      have : num ≥ 31 := by omega
      simp [a, this]
    · by_cases b : num < 16384
      · rw [C12.base128_2 num (by omega) b]
        simp only [List.cons_append, List.nil_append, List.length_cons, List.length_nil]
        rw [ofNat_toNat (num / 128 + 128) (by omega), ofNat_toNat (num % 128) (by omega)]
        have x1 : ¬ num / 128 + 128 < 128 := by omega
        have x2 : (num / 128 + 128 == 128) = false := by simp; omega
        have x3 : num % 128 < 128 := by omega
        simp only [x1, if_false, x2, Bool.false_eq_true, x3, if_true]
        have : (num / 128 + 128) % 128 * 128 + num % 128 = num := by omega
        rw [this]
      · rw [C12.base128_3 num (by omega) (by omega)]
        simp only [List.cons_append, List.nil_append, List.length_cons, List.length_nil]
        rw [ofNat_toNat (num / 16384 + 128) (by omega), ofNat_toNat (num / 128 % 128 + 128) (by omega),
          ofNat_toNat (num % 128) (by omega)]
        have x1 : ¬ num / 16384 + 128 < 128 := by omega
        have x2 : (num / 16384 + 128 == 128) = false := by simp; omega
        have x3 : ¬ num / 128 % 128 + 128 < 128 := by omega
        have x4 : num % 128 < 128 := by omega
        simp only [x1, if_false, x2, Bool.false_eq_true, x3, x4, if_true]
        have : ((num / 16384 + 128) % 128 * 128 + (num / 128 % 128 + 128) % 128) * 128 + num % 128 = num := by omega
        rw [this]


/-- the reference length reader reads the minimal definite form back, in every mode -/
theorem readLen_lenOctets (ber : Bool) (n : Nat) (h : n < 2 ^ 32) (rest : Bytes) :
    readLen ber (lenOctets n ++ rest) = some (some n, (lenOctets n).length) := by
  have m : ∃ md : Mode, md.isBer = ber := by
    cases ber
    · exact ⟨.der, rfl⟩
    · exact ⟨.ber, rfl⟩
  obtain ⟨md, hmd⟩ := m
  have h1 := C13.read_write md n rest h
  have h2 := C13.read_eq_spec md (lenOctets n ++ rest)
  rw [h1, hmd] at h2
  cases hr : readLen ber (lenOctets n ++ rest) with
  | none => rw [hr] at h2; simp [C13.specResult] at h2
  | some r =>
    obtain ⟨l?, k⟩ := r
    rw [hr] at h2
    obtain ⟨_, hk⟩ := readLen_bound _ _ _ _ hr
    cases l? with
    | none => simp [C13.specResult] at h2
    | some n' =>
      simp only [C13.specResult, Except.ok.injEq, Prod.mk.injEq, Length.definite.injEq] at h2
      obtain ⟨hn, hg⟩ := h2
      have hd : rest = (lenOctets n ++ rest).drop k := by
        have := congrArg G.data hg
        simpa [G.plain] using this
      have hl := congrArg List.length hd
      simp only [List.length_drop, List.length_append] at hl hk
      have : k = (lenOctets n).length := by omega
      rw [← hn, this]


/-! ### framing: the header written is read back to exactly the content window -/

/-- header octets of a definite-length value -/
def hdrOctets (cls : Nat) (b : Bool) (num n : Nat) : Bytes := identOctets cls b num ++ lenOctets n

/-- outcome of a tag-selective read whose closure gets the window `cnt` -/
def frameResult (c : Cons) (op : Tag → Content → Prog (α × Content)) (cls : Nat) (b : Bool) (num : Nat)
    (cnt tail : Bytes) (lim' : Option Nat) : Res ((Option α × Cons) × G0) :=
  if (b && c.mode == .cer) = true then .error .content
  else
    match runG0 (op (C12.tagOf cls num) (if b = true then .cons ⟨.definite, c.mode⟩ else .prim c.mode))
        (St (cnt ++ tail) (some cnt.length)) with
    | .error e => .error e
    | .ok ((res, content'), g3) =>
      match runG0 content'.exhausted g3 with
      | .error e => .error e
      | .ok (_, g4) => .ok ((some res, c), { g4 with limit := lim' })

theorem take_covers (a t : Bytes) (l : Nat) (h : a.length ≤ l) : (a ++ t).take l = a ++ t.take (l - a.length) := by
  rw [List.take_append]
  simp [List.take_of_length_le h]

/-- **Framing (definite length).**  In any context that has not ended, on a source holding a value
    written as identifier ++ minimal definite length ++ `cnt`, followed by anything, a read expecting
    that tag runs its closure on exactly the window `cnt` (limit `cnt.length`), and afterwards the
    limit is what it was minus the octets of the whole value. -/
theorem frame_definite (c : Cons) (cls num : Nat) (b : Bool) (hc : cls ≤ 3) (hn : num ≤ 0x1fffff)
    (hne : ¬ (cls = 0 ∧ num = 0))
    (op : Tag → Content → Prog (α × Content)) (cnt tail : Bytes) (hlen : cnt.length < 2 ^ 32)
    (lim : Option Nat)
    (hnd : c.state ≠ .done) (hdef : c.state = .definite → lim ≠ none)
    (hcov : ∀ l, lim = some l → (hdrOctets cls b num cnt.length).length + cnt.length ≤ l) :
    runG0 (processNextValue c (some (C12.tagOf cls num)) op)
        (St (hdrOctets cls b num cnt.length ++ cnt ++ tail) lim) =
      frameResult c op cls b num cnt tail
        (lim.map (· - ((hdrOctets cls b num cnt.length).length + cnt.length))) := by
  let g : G0 := St (hdrOctets cls b num cnt.length ++ cnt ++ tail) lim
  have hidl : 1 ≤ (identOctets cls b num).length := by
    unfold identOctets; by_cases h : num ≤ 30 <;> simp [h]
  -- the view
  have hview : ∃ t', g.view = identOctets cls b num ++ (lenOctets cnt.length ++ (cnt ++ t')) := by
    cases hl : lim with
    | none => exact ⟨tail, by simp [g, G0.view, hl, hdrOctets, List.append_assoc]⟩
    | some l =>
      have := hcov l hl
      refine ⟨tail.take (l - ((hdrOctets cls b num cnt.length).length + cnt.length)), ?_⟩
      simp only [g, G0.view, hl]
      rw [← List.append_assoc, take_covers _ _ _ (by simpa using this)]
      simp [hdrOctets, List.append_assoc, Nat.add_assoc]
  obtain ⟨t', hv⟩ := hview
  have hri : readIdent g.view = some (⟨cls, b, num⟩, (identOctets cls b num).length) := by
    rw [hv]; exact readIdent_identOctets cls num b hc hn _
  have hk : (identOctets cls b num).length ≤ g.view.length := by rw [hv]; simp
  have hv1 : (g.adv (identOctets cls b num).length).view = lenOctets cnt.length ++ (cnt ++ t') := by
    rw [G0.adv_view g _ hk, hv]; simp
  have hrl : readLen c.mode.isBer (g.adv (identOctets cls b num).length).view =
      some (some cnt.length, (lenOctets cnt.length).length) := by
    rw [hv1]; exact readLen_lenOctets _ _ hlen _
  have hpres := present_if c cls num hc hn op g rfl hnd
    (by
      intro l hs hl h0
      have := hcov l hl
      have : (hdrOctets cls b num cnt.length).length ≥ 1 := by simp [hdrOctets]; omega
      omega)
    (by
      intro ⟨hs, hl⟩
      exact hdef hs hl)
    b _ hri
  rw [hpres, hrl]
  simp only
  -- the state after the header
  have hg2 : (g.adv (identOctets cls b num).length).adv (lenOctets cnt.length).length =
      St (cnt ++ tail) (lim.map (· - (hdrOctets cls b num cnt.length).length)) := by
    rw [G0.adv_adv]
    simp only [g, G0.adv, hdrOctets, List.length_append]
    congr 1
    · rw [List.append_assoc, List.append_assoc]
      rw [← List.append_assoc (identOctets cls b num)]
      rw [List.drop_append_of_le_length (by simp)]
      simp
  rw [hg2]
  unfold bodyF frameResult
  have heoc : isEocIdent ⟨cls, b, num⟩ = false := by
    simp only [isEocIdent, Bool.and_eq_false_iff, beq_eq_false_iff_ne, ne_eq]
    by_cases h0 : cls = 0
    · right; intro h1; exact hne ⟨h0, h1⟩
    · left; exact h0
  simp only [heoc, Bool.false_eq_true, if_false]
  cases hl : lim with
  | none =>
    simp only [Option.map, Bool.false_eq_true, if_false]
    by_cases hcer : (b && c.mode == .cer) = true
    · simp [hcer]
    · simp only [hcer, Bool.false_eq_true, if_false]
      cases runG0 (op (C12.tagOf cls num) (if b = true then Content.cons ⟨.definite, c.mode⟩ else Content.prim c.mode))
          (St (cnt ++ tail) (some cnt.length)) with
      | error e => rfl
      | ok r =>
        obtain ⟨⟨res, content'⟩, g3⟩ := r
        simp only
        cases runG0 content'.exhausted g3 with
        | error e => rfl
        | ok r2 => rfl
  | some l =>
    have h1 := hcov l hl
    have h2 : decide (cnt.length > l - (hdrOctets cls b num cnt.length).length) = false := by
      simp only [decide_eq_false_iff_not]; omega
    simp only [Option.map, h2, Bool.false_eq_true, if_false]
    by_cases hcer : (b && c.mode == .cer) = true
    · simp [hcer]
    · simp only [hcer, Bool.false_eq_true, if_false]
      cases runG0 (op (C12.tagOf cls num) (if b = true then Content.cons ⟨.definite, c.mode⟩ else Content.prim c.mode))
          (St (cnt ++ tail) (some cnt.length)) with
      | error e => rfl
      | ok r =>
        obtain ⟨⟨res, content'⟩, g3⟩ := r
        simp only
        cases runG0 content'.exhausted g3 with
        | error e => rfl
        | ok r2 =>
          obtain ⟨u, g4⟩ := r2
          simp only [Nat.sub_sub]


/-! ### the round-trip algebra -/

/-- `dec` reads exactly the octets `bytes` and returns `v`, in every context that has not ended, with
    anything following, leaving the `Constructed` as it was and the limit reduced by `bytes.length` -/
def RT (m : Mode) (bytes : Bytes) (dec : Cons → Prog (β × Cons)) (v : β) : Prop :=
  ∀ (c : Cons) (tail : Bytes) (lim : Option Nat), c.mode = m → c.state ≠ .done →
    (c.state = .definite → lim ≠ none) → (∀ l, lim = some l → bytes.length ≤ l) →
    runG0 (dec c) (St (bytes ++ tail) lim) = .ok ((v, c), St tail (lim.map (· - bytes.length)))

/-- a primitive closure that decodes the content `cnt` to `v` (and consumes all of it) -/
def PrimDecodes (p : Prog α) (cnt : Bytes) (v : α) : Prop :=
  ∀ tail, C14.primRun p cnt tail = .ok (v, St tail (some 0))

theorem primRun_unfold (p : Prog α) (c rest : Bytes) :
    C14.primRun p c rest = match runG0 p (St (c ++ rest) (some c.length)) with
      | .error e => .error e
      | .ok (a, g') => match runG0 limitedExhausted g' with
        | .error e => .error e
        | .ok (_, g'') => .ok (a, g'') := by
  unfold C14.primRun
  simp only [runG0_bind]
  cases runG0 p (St (c ++ rest) (some c.length)) with
  | error e => rfl
  | ok r =>
    obtain ⟨a, g'⟩ := r
    simp only
    cases runG0 limitedExhausted g' with
    | error e => rfl
    | ok r2 => rfl

/-- **Primitive values round-trip through their framing**: optional tag-selective read -/
theorem rt_prim_opt (m : Mode) (cls num : Nat) (hc : cls ≤ 3) (hn : num ≤ 0x1fffff) (hne : ¬ (cls = 0 ∧ num = 0))
    (p : Prog α) (cnt : Bytes) (v : α) (hlen : cnt.length < 2 ^ 32) (hp : PrimDecodes p cnt v) :
    RT m (hdrOctets cls false num cnt.length ++ cnt)
      (fun c => takeOptPrimitiveIf c (C12.tagOf cls num) (fun md => do let a ← p; pure (a, md))) (some v) := by
  intro c tail lim hm hnd hdef hcov
  unfold takeOptPrimitiveIf
  have hcov' : ∀ l, lim = some l → (hdrOctets cls false num cnt.length).length + cnt.length ≤ l := by
    intro l hl; have := hcov l hl; simpa using this
  rw [List.append_assoc] at *
  have hf := frame_definite c cls num false hc hn hne
    (fun _ => asPrimitive (fun md => do let a ← p; pure (a, md))) cnt tail hlen lim hnd hdef hcov'
  rw [List.append_assoc] at hf
  rw [hf]
  unfold frameResult
  simp only [Bool.false_and, Bool.false_eq_true, if_false]
  have h1 := hp tail
  rw [primRun_unfold] at h1
  simp only [asPrimitive, runG0_bind]
  cases hr : runG0 p (St (cnt ++ tail) (some cnt.length)) with
  | error e => rw [hr] at h1; cases h1
  | ok r =>
    obtain ⟨a, g'⟩ := r
    rw [hr] at h1
    simp only at h1
    simp only [runG0_pure, Content.exhausted]
    cases hx : runG0 limitedExhausted g' with
    | error e => rw [hx] at h1; cases h1
    | ok r2 =>
      obtain ⟨u, g''⟩ := r2
      rw [hx] at h1
      simp only [Except.ok.injEq, Prod.mk.injEq] at h1
      obtain ⟨ha, hg⟩ := h1
      subst ha; subst hg
      simp [List.length_append, Nat.add_comm]

/-- the mandatory reader over a round-tripping optional one -/
theorem rt_mandatory (m : Mode) (bytes : Bytes) (dec : Cons → Prog (Option β × Cons)) (v : β)
    (h : RT m bytes dec (some v)) : RT m bytes (fun c => mandatory (dec c)) v := by
  intro c tail lim hm hnd hdef hcov
  rw [mandatory_run, h c tail lim hm hnd hdef hcov]

theorem rt_prim (m : Mode) (cls num : Nat) (hc : cls ≤ 3) (hn : num ≤ 0x1fffff) (hne : ¬ (cls = 0 ∧ num = 0))
    (p : Prog α) (cnt : Bytes) (v : α) (hlen : cnt.length < 2 ^ 32) (hp : PrimDecodes p cnt v) :
    RT m (hdrOctets cls false num cnt.length ++ cnt)
      (fun c => takePrimitiveIf c (C12.tagOf cls num) (fun md => do let a ← p; pure (a, md))) v :=
  rt_mandatory m _ _ v (rt_prim_opt m cls num hc hn hne p cnt v hlen hp)

/-- nothing to read -/
theorem rt_nil (m : Mode) : RT m [] (fun c => (pure ((), c) : Prog (Unit × Cons))) () := by
  intro c tail lim _ _ _ _
  cases lim <;> simp

/-- **sequencing**: fields written one after the other are read one after the other -/
theorem rt_seq (m : Mode) (b1 b2 : Bytes) (d1 : Cons → Prog (β × Cons)) (d2 : Cons → Prog (γ × Cons))
    (v1 : β) (v2 : γ) (h1 : RT m b1 d1 v1) (h2 : RT m b2 d2 v2) :
    RT m (b1 ++ b2) (fun c => do let (a, c1) ← d1 c; let (b, c2) ← d2 c1; pure ((a, b), c2)) (v1, v2) := by
  intro c tail lim hm hnd hdef hcov
  simp only [runG0_bind]
  rw [List.append_assoc]
  rw [h1 c (b2 ++ tail) lim hm hnd hdef (by intro l hl; have := hcov l hl; simp at this; omega)]
  simp only
  rw [h2 c tail (lim.map (· - b1.length)) hm hnd
    (by intro hs; cases lim with | none => exact absurd rfl (hdef hs) | some l => simp)
    (by
      intro l hl
      cases lim with
      | none => simp at hl
      | some l0 =>
        simp at hl; subst hl
        have := hcov l0 rfl
        simp at this; omega)]
  simp only [runG0_pure]
  cases lim <;> simp [Nat.sub_sub]

/-- mapping the result -/
theorem rt_map (m : Mode) (b : Bytes) (d : Cons → Prog (β × Cons)) (v : β) (f : β → γ) (h : RT m b d v) :
    RT m b (fun c => do let (a, c1) ← d c; pure (f a, c1)) (f v) := by
  intro c tail lim hm hnd hdef hcov
  simp only [runG0_bind, h c tail lim hm hnd hdef hcov, runG0_pure]


/-- **Constructed values (definite length: BER, DER) round-trip** if their content does -/
theorem rt_cons_opt (m : Mode) (hm : m ≠ .cer) (cls num : Nat) (hc : cls ≤ 3) (hn : num ≤ 0x1fffff)
    (hne : ¬ (cls = 0 ∧ num = 0)) (ib : Bytes) (dec : Cons → Prog (β × Cons)) (v : β)
    (hlen : ib.length < 2 ^ 32) (hin : RT m ib dec v) :
    RT m (hdrOctets cls true num ib.length ++ ib)
      (fun c => takeOptConstructedIf c (C12.tagOf cls num) dec) (some v) := by
  intro c tail lim hmode hnd hdef hcov
  unfold takeOptConstructedIf
  have hcov' : ∀ l, lim = some l → (hdrOctets cls true num ib.length).length + ib.length ≤ l := by
    intro l hl; have := hcov l hl; simpa using this
  have hf := frame_definite c cls num true hc hn hne
    (fun _ => asConstructed dec) ib tail hlen lim hnd hdef hcov'
  rw [hf]
  unfold frameResult
  have hcer : (true && c.mode == .cer) = false := by
    rw [hmode]; cases m <;> simp at hm ⊢
  simp only [hcer, Bool.false_eq_true, if_false, if_true]
  have hi := hin ⟨.definite, c.mode⟩ tail (some ib.length) hmode (by simp) (by simp)
    (by intro l hl; cases hl; exact Nat.le_refl _)
  simp only [asConstructed, runG0_bind, hi, Option.map, Nat.sub_self, runG0_pure, Content.exhausted,
    Cons.exhausted, run_limitedExhausted, if_true]
  simp [List.length_append, Nat.add_comm]

theorem rt_cons (m : Mode) (hm : m ≠ .cer) (cls num : Nat) (hc : cls ≤ 3) (hn : num ≤ 0x1fffff)
    (hne : ¬ (cls = 0 ∧ num = 0)) (ib : Bytes) (dec : Cons → Prog (β × Cons)) (v : β)
    (hlen : ib.length < 2 ^ 32) (hin : RT m ib dec v) :
    RT m (hdrOctets cls true num ib.length ++ ib)
      (fun c => takeConstructedIf c (C12.tagOf cls num) dec) v :=
  rt_mandatory m _ _ v (rt_cons_opt m hm cls num hc hn hne ib dec v hlen hin)

end Bcder.Props.C04
