/-
  C04 — Encoding a value and decoding the result returns the same value.

  The framing theorems (`frame_prim`, `frame_cons`, `frame_cons_cer`) show, for every tag, every
  content and every context, that the header written by the encoders is read back by the tag-selective
  readers to exactly the content window; the algebra `RT` ("round trips") is closed under the
  combinators of the encoders and of the decoders (`rt_prim`, `rt_cons`, `rt_seq`, `rt_optSome`,
  `rt_optNone`, …), so every composition of round-tripping leaves round-trips.  Leaf instances come
  from C14 (BOOLEAN, NULL, INTEGER), C19 (BIT STRING), C20 (OBJECT IDENTIFIER) and below (OCTET STRING,
  primitive form).
-/
import Bcder.Props.C09
import Bcder.Props.C06
import Bcder.Props.C14
import Bcder.Props.C15
import Bcder.Props.C19
import Bcder.Props.C20
namespace Bcder.Props.C04
open Bcder Bcder.Spec Prog Bcder.Props.C02 Bcder.Props.C09

/-! ### what was written is read back -/

theorem ofNat_toNat (n : Nat) (h : n < 256) : (UInt8.ofNat n).toNat = n := by
  simp [UInt8.toNat_ofNat, Nat.mod_eq_of_lt h]

/-- the reference identifier reader reads reference identifier octets back -/
theorem readIdent_identOctets (cls num : Nat) (c : Bool) (hc : cls ≤ 3) (hn : num ≤ 0x1fffff) (rest : Bytes) :
    readIdent (identOctets cls c num ++ rest) = some (⟨cls, c, num⟩, (identOctets cls c num).length) := by
  unfold identOctets
  have hlead : cls * 64 + (if c then 32 else 0) + 31 < 256 := by cases c <;> simp <;> omega
  by_cases h30 : num ≤ 30
  · simp only [h30, if_true, List.cons_append, List.nil_append, readIdent, List.length_singleton]
    have e := ofNat_toNat (cls * 64 + (if c then 32 else 0) + num) (by omega)
    rw [e]
    have h1 : (cls * 64 + (if c then 32 else 0) + num) % 32 = num := by cases c <;> simp <;> omega
    have h2 : (cls * 64 + (if c then 32 else 0) + num) / 64 = cls := by cases c <;> simp <;> omega
    have h3 : ((cls * 64 + (if c then 32 else 0) + num) / 32 % 2 == 1) = c := by
      cases c <;> simp <;> omega
    have h4 : (num != 31) = true := by simp; omega
    simp only [h1, h2, h3, h4, if_true]
  · simp only [h30, if_false, List.cons_append, readIdent, List.length_cons]
    have e := ofNat_toNat (cls * 64 + (if c then 32 else 0) + 31) hlead
    rw [e]
    have h1 : (cls * 64 + (if c then 32 else 0) + 31) % 32 = 31 := by cases c <;> simp <;> omega
    have h2 : (cls * 64 + (if c then 32 else 0) + 31) / 64 = cls := by cases c <;> simp <;> omega
    have h3 : ((cls * 64 + (if c then 32 else 0) + 31) / 32 % 2 == 1) = c := by
      cases c <;> simp <;> omega
    simp only [h1, h2, h3, bne_self_eq_false, Bool.false_eq_true, if_false]
    by_cases a : num < 128
    · rw [C12.base128_1 num a]
      simp only [List.cons_append, List.nil_append, List.length_singleton]
      rw [ofNat_toNat num (by omega)]
      have : num ≥ 31 := by omega
      simp [a, this]
    · by_cases b : num < 16384
      · rw [C12.base128_2 num (by omega) b]
        simp only [List.cons_append, List.nil_append, List.length_cons, List.length_nil]
        rw [ofNat_toNat (num / 128 + 128) (by omega), ofNat_toNat (num % 128) (by omega)]
        have x1 : ¬ num / 128 + 128 < 128 := by omega
        have x2 : (num / 128 + 128 == 128) = false := by simp; omega
        have x3 : num % 128 < 128 := by omega
        simp only [x1, if_false, x2, Bool.false_eq_true, x3, if_true]
        have : (num / 128 + 128) % 128 * 128 + num % 128 = num := by omega
        rw [this]
      · rw [C12.base128_3 num (by omega) (by omega)]
        simp only [List.cons_append, List.nil_append, List.length_cons, List.length_nil]
        rw [ofNat_toNat (num / 16384 + 128) (by omega), ofNat_toNat (num / 128 % 128 + 128) (by omega),
          ofNat_toNat (num % 128) (by omega)]
        have x1 : ¬ num / 16384 + 128 < 128 := by omega
        have x2 : (num / 16384 + 128 == 128) = false := by simp; omega
        have x3 : ¬ num / 128 % 128 + 128 < 128 := by omega
        have x4 : num % 128 < 128 := by omega
        simp only [x1, if_false, x2, Bool.false_eq_true, x3, x4, if_true]
        have : ((num / 16384 + 128) % 128 * 128 + (num / 128 % 128 + 128) % 128) * 128 + num % 128 = num := by omega
        rw [this]


/-- the reference length reader reads the minimal definite form back, in every mode -/
theorem readLen_lenOctets (ber : Bool) (n : Nat) (h : n < 2 ^ 32) (rest : Bytes) :
    readLen ber (lenOctets n ++ rest) = some (some n, (lenOctets n).length) := by
  have m : ∃ md : Mode, md.isBer = ber := by
    cases ber
    · exact ⟨.der, rfl⟩
    · exact ⟨.ber, rfl⟩
  obtain ⟨md, hmd⟩ := m
  have h1 := C13.read_write md n rest h
  have h2 := C13.read_eq_spec md (lenOctets n ++ rest)
  rw [h1, hmd] at h2
  cases hr : readLen ber (lenOctets n ++ rest) with
  | none => rw [hr] at h2; simp [C13.specResult] at h2
  | some r =>
    obtain ⟨l?, k⟩ := r
    rw [hr] at h2
    obtain ⟨_, hk⟩ := readLen_bound _ _ _ _ hr
    cases l? with
    | none => simp [C13.specResult] at h2
    | some n' =>
      simp only [C13.specResult, Except.ok.injEq, Prod.mk.injEq, Length.definite.injEq] at h2
      obtain ⟨hn, hg⟩ := h2
      have hd : rest = (lenOctets n ++ rest).drop k := by
        have := congrArg G.data hg
        simpa [G.plain] using this
      have hl := congrArg List.length hd
      simp only [List.length_drop, List.length_append] at hl hk
      have : k = (lenOctets n).length := by omega
      rw [← hn, this]


/-! ### framing: the header written is read back to exactly the content window -/

/-- header octets of a definite-length value -/
def hdrOctets (cls : Nat) (b : Bool) (num n : Nat) : Bytes := identOctets cls b num ++ lenOctets n

/-- outcome of a tag-selective read whose closure gets the window `cnt` -/
def frameResult (c : Cons) (op : Tag → Content → Prog (α × Content)) (cls : Nat) (b : Bool) (num : Nat)
    (cnt tail : Bytes) (lim' : Option Nat) : Res ((Option α × Cons) × G0) :=
  if (b && c.mode == .cer) = true then .error .content
  else
    match runG0 (op (C12.tagOf cls num) (if b = true then .cons ⟨.definite, c.mode, 0⟩ else .prim c.mode))
        (St (cnt ++ tail) (some cnt.length)) with
    | .error e => .error e
    | .ok ((res, content'), g3) =>
      match runG0 content'.exhausted g3 with
      | .error e => .error e
      | .ok (_, g4) => .ok ((some res, c), { g4 with limit := lim' })

theorem take_covers (a t : Bytes) (l : Nat) (h : a.length ≤ l) : (a ++ t).take l = a ++ t.take (l - a.length) := by
  rw [List.take_append]
  simp [List.take_of_length_le h]

/-- **Framing (definite length).**  In any context that has not ended, on a source holding a value
    written as identifier ++ minimal definite length ++ `cnt`, followed by anything, a read expecting
    that tag runs its closure on exactly the window `cnt` (limit `cnt.length`), and afterwards the
    limit is what it was minus the octets of the whole value. -/
theorem frame_definite (c : Cons) (cls num : Nat) (b : Bool) (hc : cls ≤ 3) (hn : num ≤ 0x1fffff)
    (hne : ¬ (cls = 0 ∧ num = 0))
    (op : Tag → Content → Prog (α × Content)) (cnt tail : Bytes) (hlen : cnt.length < 2 ^ 32)
    (lim : Option Nat)
    (hnd : c.state ≠ .done) (hdef : c.state = .definite → lim ≠ none)
    (hcov : ∀ l, lim = some l → (hdrOctets cls b num cnt.length).length + cnt.length ≤ l) :
    runG0 (processNextValue c (some (C12.tagOf cls num)) op)
        (St (hdrOctets cls b num cnt.length ++ cnt ++ tail) lim) =
      frameResult c op cls b num cnt tail
        (lim.map (· - ((hdrOctets cls b num cnt.length).length + cnt.length))) := by
  let g : G0 := St (hdrOctets cls b num cnt.length ++ cnt ++ tail) lim
  have hidl : 1 ≤ (identOctets cls b num).length := by
    unfold identOctets; by_cases h : num ≤ 30 <;> simp [h]
  -- the view
  have hview : ∃ t', g.view = identOctets cls b num ++ (lenOctets cnt.length ++ (cnt ++ t')) := by
    cases hl : lim with
    | none => exact ⟨tail, by simp [g, G0.view, hl, hdrOctets, List.append_assoc]⟩
    | some l =>
      have := hcov l hl
      refine ⟨tail.take (l - ((hdrOctets cls b num cnt.length).length + cnt.length)), ?_⟩
      simp only [g, G0.view, hl]
      rw [← List.append_assoc, take_covers _ _ _ (by simpa using this)]
      simp [hdrOctets, List.append_assoc, Nat.add_assoc]
  obtain ⟨t', hv⟩ := hview
  have hri : readIdent g.view = some (⟨cls, b, num⟩, (identOctets cls b num).length) := by
    rw [hv]; exact readIdent_identOctets cls num b hc hn _
  have hk : (identOctets cls b num).length ≤ g.view.length := by rw [hv]; simp
  have hv1 : (g.adv (identOctets cls b num).length).view = lenOctets cnt.length ++ (cnt ++ t') := by
    rw [G0.adv_view g _ hk, hv]; simp
  have hrl : readLen c.mode.isBer (g.adv (identOctets cls b num).length).view =
      some (some cnt.length, (lenOctets cnt.length).length) := by
    rw [hv1]; exact readLen_lenOctets _ _ hlen _
  have hpres := present_if c cls num hc hn op g rfl hnd
    (by
      intro l hs hl h0
      have := hcov l hl
      have : (hdrOctets cls b num cnt.length).length ≥ 1 := by simp [hdrOctets]; omega
      omega)
    (by
      intro ⟨hs, hl⟩
      exact hdef hs hl)
    b _ hri
  rw [hpres, hrl]
  simp only
  -- the state after the header
  have hg2 : (g.adv (identOctets cls b num).length).adv (lenOctets cnt.length).length =
      St (cnt ++ tail) (lim.map (· - (hdrOctets cls b num cnt.length).length)) := by
    rw [G0.adv_adv]
    simp only [g, G0.adv, hdrOctets, List.length_append]
    congr 1
    · rw [List.append_assoc, List.append_assoc]
      rw [← List.append_assoc (identOctets cls b num)]
      rw [List.drop_append_of_le_length (by simp)]
      simp
  rw [hg2]
  unfold bodyF frameResult
  have heoc : isEocIdent ⟨cls, b, num⟩ = false := by
    simp only [isEocIdent, Bool.and_eq_false_iff, beq_eq_false_iff_ne, ne_eq]
    by_cases h0 : cls = 0
    · right; intro h1; exact hne ⟨h0, h1⟩
    · left; exact h0
  simp only [heoc, Bool.false_eq_true, if_false]
  cases hl : lim with
  | none =>
    simp only [Option.map, Bool.false_eq_true, if_false]
    by_cases hcer : (b && c.mode == .cer) = true
    · simp [hcer]
    · simp only [hcer, Bool.false_eq_true, if_false]
      cases runG0 (op (C12.tagOf cls num) (if b = true then Content.cons ⟨.definite, c.mode, 0⟩ else Content.prim c.mode))
          (St (cnt ++ tail) (some cnt.length)) with
      | error e => rfl
      | ok r =>
        obtain ⟨⟨res, content'⟩, g3⟩ := r
        simp only
        cases runG0 content'.exhausted g3 with
        | error e => rfl
        | ok r2 => rfl
  | some l =>
    have h1 := hcov l hl
    have h2 : decide (cnt.length > l - (hdrOctets cls b num cnt.length).length) = false := by
      simp only [decide_eq_false_iff_not]; omega
    simp only [Option.map, h2, Bool.false_eq_true, if_false]
    by_cases hcer : (b && c.mode == .cer) = true
    · simp [hcer]
    · simp only [hcer, Bool.false_eq_true, if_false]
      cases runG0 (op (C12.tagOf cls num) (if b = true then Content.cons ⟨.definite, c.mode, 0⟩ else Content.prim c.mode))
          (St (cnt ++ tail) (some cnt.length)) with
      | error e => rfl
      | ok r =>
        obtain ⟨⟨res, content'⟩, g3⟩ := r
        simp only
        cases runG0 content'.exhausted g3 with
        | error e => rfl
        | ok r2 =>
          obtain ⟨u, g4⟩ := r2
          simp only [Nat.sub_sub]


/-! ### the round-trip algebra -/

/-- `dec` reads exactly the octets `bytes` and returns `v`, in every context that has not ended, with
    anything following, leaving the `Constructed` as it was and the limit reduced by `bytes.length` -/
def RT (m : Mode) (bytes : Bytes) (dec : Cons → Prog (β × Cons)) (v : β) : Prop :=
  ∀ (c : Cons) (tail : Bytes) (lim : Option Nat), c.mode = m → c.state ≠ .done →
    (c.state = .definite → lim ≠ none) → (∀ l, lim = some l → bytes.length ≤ l) →
    runG0 (dec c) (St (bytes ++ tail) lim) = .ok ((v, c), St tail (lim.map (· - bytes.length)))

/-- a primitive closure that decodes the content `cnt` to `v` (and consumes all of it) -/
def PrimDecodes (p : Prog α) (cnt : Bytes) (v : α) : Prop :=
  ∀ tail, C14.primRun p cnt tail = .ok (v, St tail (some 0))

theorem primRun_unfold (p : Prog α) (c rest : Bytes) :
    C14.primRun p c rest = match runG0 p (St (c ++ rest) (some c.length)) with
      | .error e => .error e
      | .ok (a, g') => match runG0 limitedExhausted g' with
        | .error e => .error e
        | .ok (_, g'') => .ok (a, g'') := by
  unfold C14.primRun
  simp only [runG0_bind]
  cases runG0 p (St (c ++ rest) (some c.length)) with
  | error e => rfl
  | ok r =>
    obtain ⟨a, g'⟩ := r
    simp only
    cases runG0 limitedExhausted g' with
    | error e => rfl
    | ok r2 => rfl

/-- **Primitive values round-trip through their framing**: optional tag-selective read -/
theorem rt_prim_opt (m : Mode) (cls num : Nat) (hc : cls ≤ 3) (hn : num ≤ 0x1fffff) (hne : ¬ (cls = 0 ∧ num = 0))
    (p : Prog α) (cnt : Bytes) (v : α) (hlen : cnt.length < 2 ^ 32) (hp : PrimDecodes p cnt v) :
    RT m (hdrOctets cls false num cnt.length ++ cnt)
      (fun c => takeOptPrimitiveIf c (C12.tagOf cls num) (fun md => do let a ← p; pure (a, md))) (some v) := by
  intro c tail lim hm hnd hdef hcov
  unfold takeOptPrimitiveIf
  have hcov' : ∀ l, lim = some l → (hdrOctets cls false num cnt.length).length + cnt.length ≤ l := by
    intro l hl; have := hcov l hl; simpa using this
  rw [List.append_assoc] at *
  have hf := frame_definite c cls num false hc hn hne
    (fun _ => asPrimitive (fun md => do let a ← p; pure (a, md))) cnt tail hlen lim hnd hdef hcov'
  rw [List.append_assoc] at hf
  rw [hf]
  unfold frameResult
  simp only [Bool.false_and, Bool.false_eq_true, if_false]
  have h1 := hp tail
  rw [primRun_unfold] at h1
  simp only [asPrimitive, runG0_bind]
  cases hr : runG0 p (St (cnt ++ tail) (some cnt.length)) with
  | error e => rw [hr] at h1; cases h1
  | ok r =>
    obtain ⟨a, g'⟩ := r
    rw [hr] at h1
    simp only at h1
    simp only [runG0_pure, Content.exhausted]
    cases hx : runG0 limitedExhausted g' with
    | error e => rw [hx] at h1; cases h1
    | ok r2 =>
      obtain ⟨u, g''⟩ := r2
      rw [hx] at h1
      simp only [Except.ok.injEq, Prod.mk.injEq] at h1
      obtain ⟨ha, hg⟩ := h1
      subst ha; subst hg
      simp [List.length_append, Nat.add_comm]

/-- the mandatory reader over a round-tripping optional one -/
theorem rt_mandatory (m : Mode) (bytes : Bytes) (dec : Cons → Prog (Option β × Cons)) (v : β)
    (h : RT m bytes dec (some v)) : RT m bytes (fun c => mandatory (dec c)) v := by
  intro c tail lim hm hnd hdef hcov
  rw [mandatory_run, h c tail lim hm hnd hdef hcov]

theorem rt_prim (m : Mode) (cls num : Nat) (hc : cls ≤ 3) (hn : num ≤ 0x1fffff) (hne : ¬ (cls = 0 ∧ num = 0))
    (p : Prog α) (cnt : Bytes) (v : α) (hlen : cnt.length < 2 ^ 32) (hp : PrimDecodes p cnt v) :
    RT m (hdrOctets cls false num cnt.length ++ cnt)
      (fun c => takePrimitiveIf c (C12.tagOf cls num) (fun md => do let a ← p; pure (a, md))) v :=
  rt_mandatory m _ _ v (rt_prim_opt m cls num hc hn hne p cnt v hlen hp)

/-- a content closure that decodes the primitive content `cnt` to `v` and leaves it exhausted -/
def ContentDecodes (m : Mode) (op : Content → Prog (α × Content)) (cnt : Bytes) (v : α) : Prop :=
  ∀ tail, ∃ g', runG0 (op (.prim m)) (St (cnt ++ tail) (some cnt.length)) = .ok ((v, .prim m), g') ∧
    runG0 limitedExhausted g' = .ok ((), St tail (some 0))

/-- the same framing for readers that take the `Content` (`take_value_if`, `take_opt_value_if`) -/
theorem rt_value_opt (m : Mode) (cls num : Nat) (hc : cls ≤ 3) (hn : num ≤ 0x1fffff) (hne : ¬ (cls = 0 ∧ num = 0))
    (op : Content → Prog (α × Content)) (cnt : Bytes) (v : α) (hlen : cnt.length < 2 ^ 32)
    (hp : ContentDecodes m op cnt v) :
    RT m (hdrOctets cls false num cnt.length ++ cnt)
      (fun c => takeOptValueIf c (C12.tagOf cls num) op) (some v) := by
  intro c tail lim hm hnd hdef hcov
  unfold takeOptValueIf
  have hcov' : ∀ l, lim = some l → (hdrOctets cls false num cnt.length).length + cnt.length ≤ l := by
    intro l hl; have := hcov l hl; simpa using this
  have hf := frame_definite c cls num false hc hn hne (fun _ => op) cnt tail hlen lim hnd hdef hcov'
  rw [hf]
  unfold frameResult
  simp only [Bool.false_and, Bool.false_eq_true, if_false]
  obtain ⟨g', h1, h2⟩ := hp tail
  rw [hm, h1]
  simp only [Content.exhausted, h2]
  simp [List.length_append, Nat.add_comm]

theorem rt_value (m : Mode) (cls num : Nat) (hc : cls ≤ 3) (hn : num ≤ 0x1fffff) (hne : ¬ (cls = 0 ∧ num = 0))
    (op : Content → Prog (α × Content)) (cnt : Bytes) (v : α) (hlen : cnt.length < 2 ^ 32)
    (hp : ContentDecodes m op cnt v) :
    RT m (hdrOctets cls false num cnt.length ++ cnt)
      (fun c => takeValueIf c (C12.tagOf cls num) op) v :=
  rt_mandatory m _ _ v (rt_value_opt m cls num hc hn hne op cnt v hlen hp)

/-- nothing to read -/
theorem rt_nil (m : Mode) : RT m [] (fun c => (pure ((), c) : Prog (Unit × Cons))) () := by
  intro c tail lim _ _ _ _
  cases lim <;> simp

/-- **sequencing**: fields written one after the other are read one after the other -/
theorem rt_seq (m : Mode) (b1 b2 : Bytes) (d1 : Cons → Prog (β × Cons)) (d2 : Cons → Prog (γ × Cons))
    (v1 : β) (v2 : γ) (h1 : RT m b1 d1 v1) (h2 : RT m b2 d2 v2) :
    RT m (b1 ++ b2) (fun c => do let (a, c1) ← d1 c; let (b, c2) ← d2 c1; pure ((a, b), c2)) (v1, v2) := by
  intro c tail lim hm hnd hdef hcov
  simp only [runG0_bind]
  rw [List.append_assoc]
  rw [h1 c (b2 ++ tail) lim hm hnd hdef (by intro l hl; have := hcov l hl; simp at this; omega)]
  simp only
  rw [h2 c tail (lim.map (· - b1.length)) hm hnd
    (by intro hs; cases lim with | none => exact absurd rfl (hdef hs) | some l => simp)
    (by
      intro l hl
      cases lim with
      | none => simp at hl
      | some l0 =>
        simp at hl; subst hl
        have := hcov l0 rfl
        simp at this; omega)]
  simp only [runG0_pure]
  cases lim <;> simp [Nat.sub_sub]

/-- mapping the result -/
theorem rt_map (m : Mode) (b : Bytes) (d : Cons → Prog (β × Cons)) (v : β) (f : β → γ) (h : RT m b d v) :
    RT m b (fun c => do let (a, c1) ← d c; pure (f a, c1)) (f v) := by
  intro c tail lim hm hnd hdef hcov
  simp only [runG0_bind, h c tail lim hm hnd hdef hcov, runG0_pure]


/-- **Constructed values (definite length: BER, DER) round-trip** if their content does -/
theorem rt_cons_opt (m : Mode) (hm : m ≠ .cer) (cls num : Nat) (hc : cls ≤ 3) (hn : num ≤ 0x1fffff)
    (hne : ¬ (cls = 0 ∧ num = 0)) (ib : Bytes) (dec : Cons → Prog (β × Cons)) (v : β)
    (hlen : ib.length < 2 ^ 32) (hin : RT m ib dec v) :
    RT m (hdrOctets cls true num ib.length ++ ib)
      (fun c => takeOptConstructedIf c (C12.tagOf cls num) dec) (some v) := by
  intro c tail lim hmode hnd hdef hcov
  unfold takeOptConstructedIf
  have hcov' : ∀ l, lim = some l → (hdrOctets cls true num ib.length).length + ib.length ≤ l := by
    intro l hl; have := hcov l hl; simpa using this
  have hf := frame_definite c cls num true hc hn hne
    (fun _ => asConstructed dec) ib tail hlen lim hnd hdef hcov'
  rw [hf]
  unfold frameResult
  have hcer : (true && c.mode == .cer) = false := by
    rw [hmode]; cases m <;> simp at hm ⊢
  simp only [hcer, Bool.false_eq_true, if_false, if_true]
  have hi := hin ⟨.definite, c.mode, 0⟩ tail (some ib.length) hmode (by simp) (by simp)
    (by intro l hl; cases hl; exact Nat.le_refl _)
  simp only [asConstructed, runG0_bind, hi, Option.map, Nat.sub_self, runG0_pure, Content.exhausted,
    Cons.exhausted, run_limitedExhausted, if_true]
  simp [List.length_append, Nat.add_comm]

theorem rt_cons (m : Mode) (hm : m ≠ .cer) (cls num : Nat) (hc : cls ≤ 3) (hn : num ≤ 0x1fffff)
    (hne : ¬ (cls = 0 ∧ num = 0)) (ib : Bytes) (dec : Cons → Prog (β × Cons)) (v : β)
    (hlen : ib.length < 2 ^ 32) (hin : RT m ib dec v) :
    RT m (hdrOctets cls true num ib.length ++ ib)
      (fun c => takeConstructedIf c (C12.tagOf cls num) dec) v :=
  rt_mandatory m _ _ v (rt_cons_opt m hm cls num hc hn hne ib dec v hlen hin)


/-! ### CER: indefinite length closed by end-of-contents -/

/-- the exhaustion check of an indefinite `Constructed` consumes exactly the end-of-contents octets -/
theorem eoc_exhausted (m : Mode) (tail : Bytes) (lim : Option Nat) (hcov : ∀ l, lim = some l → 2 ≤ l) :
    runG0 (Cons.exhausted ⟨.indefinite, m, 0⟩) (St (0 :: 0 :: tail) lim) = .ok ((), St tail (lim.map (· - 2))) := by
  let g : G0 := St (0 :: 0 :: tail) lim
  have hv : ∃ t', g.view = 0 :: 0 :: t' := by
    cases hl : lim with
    | none => exact ⟨tail, by simp [g, G0.view, hl]⟩
    | some l =>
      have := hcov l hl
      refine ⟨tail.take (l - 2), ?_⟩
      simp only [g, G0.view, hl]
      obtain ⟨l', rfl⟩ : ∃ l', l = l' + 2 := ⟨l - 2, by omega⟩
      simp
  obtain ⟨t', hv⟩ := hv
  have hri : readIdent g.view = some (⟨0, false, 0⟩, 1) := by rw [hv]; rfl
  have hv1 : (g.adv 1).view = 0 :: t' := by
    rw [G0.adv_view g 1 (by rw [hv]; simp), hv]; rfl
  have hrl : readLen m.isBer (g.adv 1).view = some (some 0, 1) := by rw [hv1]; rfl
  simp only [Cons.exhausted, runG0_bind]
  rw [tag_takeFrom0 g rfl, hri]
  simp only
  have e0 : C12.tagOf 0 0 = Tag.END_OF_VALUE := by rfl
  rw [e0]
  simp only [bne_self_eq_false, Bool.false_or, Bool.false_eq_true, if_false, runG0_bind]
  rw [length_takeFrom0 m (g.adv 1) rfl, hrl]
  simp only [Length.isZero, if_true, runG0_pure]
  rw [G0.adv_adv]
  simp only [g, G0.adv, List.drop_succ_cons, List.drop_zero]

/-- **Constructed values in CER (indefinite length) round-trip** if their content does -/
theorem rt_cons_cer_opt (cls num : Nat) (hc : cls ≤ 3) (hn : num ≤ 0x1fffff)
    (hne : ¬ (cls = 0 ∧ num = 0)) (ib : Bytes) (dec : Cons → Prog (β × Cons)) (v : β)
    (hin : RT .cer ib dec v) :
    RT .cer (identOctets cls true num ++ [0x80] ++ ib ++ [0, 0])
      (fun c => takeOptConstructedIf c (C12.tagOf cls num) dec) (some v) := by
  intro c tail lim hmode hnd hdef hcov
  unfold takeOptConstructedIf
  let data : Bytes := identOctets cls true num ++ [0x80] ++ ib ++ [0, 0] ++ tail
  let g : G0 := St data lim
  have hidl : 1 ≤ (identOctets cls true num).length := by
    unfold identOctets; by_cases h : num ≤ 30 <;> simp [h]
  have hcovl : ∀ l, lim = some l → (identOctets cls true num).length + 1 + ib.length + 2 ≤ l := by
    intro l hl; have := hcov l hl; simp at this; omega
  have hview : ∃ t', g.view = identOctets cls true num ++ (0x80 :: (ib ++ 0 :: 0 :: t')) := by
    cases hl : lim with
    | none => exact ⟨tail, by simp [g, data, G0.view, hl, List.append_assoc]⟩
    | some l =>
      have := hcovl l hl
      refine ⟨tail.take (l - ((identOctets cls true num).length + 1 + ib.length + 2)), ?_⟩
      simp only [g, data, G0.view, hl]
      rw [take_covers _ _ _ (by simp; omega)]
      simp [List.append_assoc, Nat.add_assoc]
      congr 2; omega
  obtain ⟨t', hv⟩ := hview
  have hri : readIdent g.view = some (⟨cls, true, num⟩, (identOctets cls true num).length) := by
    rw [hv]; exact readIdent_identOctets cls num true hc hn _
  have hk : (identOctets cls true num).length ≤ g.view.length := by rw [hv]; simp
  have hv1 : (g.adv (identOctets cls true num).length).view = 0x80 :: (ib ++ 0 :: 0 :: t') := by
    rw [G0.adv_view g _ hk, hv]; simp
  have hrl : readLen c.mode.isBer (g.adv (identOctets cls true num).length).view = some (none, 1) := by
    rw [hv1]; rfl
  have hpres := present_if c cls num hc hn (fun _ => asConstructed dec) g rfl hnd
    (by intro l hs hl h0; have := hcovl l hl; omega)
    (by intro ⟨hs, hl⟩; exact hdef hs hl)
    true _ hri
  show runG0 (processNextValue c (some (C12.tagOf cls num)) fun _ => asConstructed dec) g = _
  rw [hpres, hrl]
  simp only
  have hg2 : (g.adv (identOctets cls true num).length).adv 1 =
      St (ib ++ (0 :: 0 :: tail)) (lim.map (· - ((identOctets cls true num).length + 1))) := by
    rw [G0.adv_adv]
    simp only [g, data, G0.adv]
    congr 1
    rw [List.append_assoc, List.append_assoc, List.append_assoc]
    rw [show (identOctets cls true num).length + 1 = (identOctets cls true num ++ [0x80]).length by simp]
    rw [← List.append_assoc (identOctets cls true num)]
    rw [List.drop_append_of_le_length (Nat.le_refl _)]
    simp
  rw [hg2]
  unfold bodyF
  have heoc : isEocIdent ⟨cls, true, num⟩ = false := by
    simp only [isEocIdent, Bool.and_eq_false_iff, beq_eq_false_iff_ne, ne_eq]
    by_cases h0 : cls = 0
    · right; intro h1; exact hne ⟨h0, h1⟩
    · left; exact h0
  have hder : (!true || c.mode == .der) = false := by rw [hmode]; rfl
  simp only [heoc, Bool.false_eq_true, if_false, hder]
  have hi := hin ⟨.indefinite, c.mode, 0⟩ (0 :: 0 :: tail)
    (lim.map (· - ((identOctets cls true num).length + 1))) hmode (by simp) (by simp)
    (by
      intro l hl
      cases hl0 : lim with
      | none => rw [hl0] at hl; simp at hl
      | some l0 => rw [hl0] at hl; simp at hl; have := hcovl l0 hl0; omega)
  simp only [asConstructed, runG0_bind, hi, runG0_pure, Content.exhausted]
  rw [hmode]
  rw [eoc_exhausted .cer tail _ (by
      intro l hl
      cases hl0 : lim with
      | none => rw [hl0] at hl; simp at hl
      | some l0 => rw [hl0] at hl; simp at hl; have := hcovl l0 hl0; omega)]
  simp only
  cases lim with
  | none => simp
  | some l => simp [Nat.sub_sub, Nat.add_assoc]; omega

theorem rt_cons_cer (cls num : Nat) (hc : cls ≤ 3) (hn : num ≤ 0x1fffff)
    (hne : ¬ (cls = 0 ∧ num = 0)) (ib : Bytes) (dec : Cons → Prog (β × Cons)) (v : β)
    (hin : RT .cer ib dec v) :
    RT .cer (identOctets cls true num ++ [0x80] ++ ib ++ [0, 0])
      (fun c => takeConstructedIf c (C12.tagOf cls num) dec) v :=
  rt_mandatory .cer _ _ v (rt_cons_cer_opt cls num hc hn hne ib dec v hin)


/-! ### from encoders to octets -/

theorem tagOf_write (cls num : Nat) (hc : cls ≤ 3) (hn : num ≤ 0x1fffff) (c : Bool) :
    (C12.tagOf cls num).write c = identOctets cls c num := by
  obtain ⟨t, ht, hw, _⟩ := C12.write_eq_spec cls num c hc hn
  have : C12.tagOf cls num = t := by simp [C12.tagOf, ht]
  rw [this, hw]

/-- a valid, non-end-of-contents tag -/
structure TagOK (cls num : Nat) : Prop where
  hc : cls ≤ 3
  hn : num ≤ 0x1fffff
  hne : ¬ (cls = 0 ∧ num = 0)

theorem write_prim_bytes (m : Mode) (cls num : Nat) (ht : TagOK cls num) (pc : PC) (hi : C06.PC.intOK pc = true)
    (bytes : Bytes) (h : (Enc.prim (C12.tagOf cls num) pc).write m = .ok bytes) :
    pc.write.length < 2 ^ 32 ∧ bytes = hdrOctets cls false num pc.write.length ++ pc.write := by
  rw [C06.write_prim m _ pc hi, C06.tlvR] at h
  by_cases hl : pc.write.length < 2 ^ 32
  · rw [if_pos hl, tagOf_write cls num ht.hc ht.hn] at h
    cases h
    exact ⟨hl, by simp [hdrOctets]⟩
  · rw [if_neg hl] at h; cases h

theorem write_cons_bytes (m : Mode) (cls num : Nat) (ht : TagOK cls num) (inner : Enc)
    (hi : C06.IntsOK inner = true) (bytes : Bytes)
    (h : (Enc.cons (C12.tagOf cls num) inner).write m = .ok bytes) :
    ∃ ib, inner.write m = .ok ib ∧
      ((m ≠ .cer ∧ ib.length < 2 ^ 32 ∧ bytes = hdrOctets cls true num ib.length ++ ib) ∨
       (m = .cer ∧ bytes = identOctets cls true num ++ [0x80] ++ ib ++ [0, 0])) := by
  have hdef : ∀ (md : Mode), md ≠ .cer →
      (Enc.cons (C12.tagOf cls num) inner).write md = inner.write md >>= C06.tlvR (C12.tagOf cls num) true →
      (Enc.cons (C12.tagOf cls num) inner).write md = .ok bytes →
      ∃ ib, inner.write md = .ok ib ∧ md ≠ .cer ∧ ib.length < 2 ^ 32 ∧
        bytes = hdrOctets cls true num ib.length ++ ib := by
    intro md hmd hw h
    rw [hw] at h
    cases hiw : inner.write md with
    | error e => rw [hiw] at h; cases h
    | ok ib =>
      rw [hiw] at h
      simp only [Bind.bind, Except.bind, C06.tlvR] at h
      by_cases hl : ib.length < 2 ^ 32
      · rw [if_pos hl, tagOf_write cls num ht.hc ht.hn] at h
        cases h
        exact ⟨ib, rfl, hmd, hl, by simp [hdrOctets]⟩
      · rw [if_neg hl] at h; cases h
  cases m with
  | ber =>
    obtain ⟨ib, h1, h2, h3, h4⟩ := hdef .ber (by decide) (C06.write_cons_ber _ inner hi) h
    exact ⟨ib, h1, .inl ⟨h2, h3, h4⟩⟩
  | der =>
    obtain ⟨ib, h1, h2, h3, h4⟩ := hdef .der (by decide) (C06.write_cons_der _ inner hi) h
    exact ⟨ib, h1, .inl ⟨h2, h3, h4⟩⟩
  | cer =>
    rw [C06.write_cons_cer] at h
    cases hiw : inner.write .cer with
    | error e => rw [hiw] at h; cases h
    | ok ib =>
      rw [hiw] at h
      simp only [Bind.bind, Except.bind, Pure.pure, Except.pure] at h
      cases h
      exact ⟨ib, rfl, .inr ⟨rfl, by rw [tagOf_write cls num ht.hc ht.hn]⟩⟩

/-! ### the codec algebra: every composition of round-tripping parts round-trips -/

/-- pairs of an encoder composition and a decoder built from the crate's reading combinators -/
inductive Codec (m : Mode) : {β : Type} → Enc → (Cons → Prog (β × Cons)) → β → Prop
  /-- `value.encode_as(tag)` / `take_primitive_if(tag, |prim| …)` -/
  | prim {α : Type} (cls num : Nat) (ht : TagOK cls num) (pc : PC) (hi : C06.PC.intOK pc = true) (p : Prog α) (v : α)
      (hp : PrimDecodes p pc.write v) :
      Codec m (.prim (C12.tagOf cls num) pc)
        (fun c => takePrimitiveIf c (C12.tagOf cls num) (fun md => do let a ← p; pure (a, md))) v
  /-- the same read through `take_opt_primitive_if` (an OPTIONAL field that is present) -/
  | optPrim {α : Type} (cls num : Nat) (ht : TagOK cls num) (pc : PC) (hi : C06.PC.intOK pc = true) (p : Prog α) (v : α)
      (hp : PrimDecodes p pc.write v) :
      Codec m (.optSome (.prim (C12.tagOf cls num) pc))
        (fun c => takeOptPrimitiveIf c (C12.tagOf cls num) (fun md => do let a ← p; pure (a, md))) (some v)
  /-- primitive values whose decoder takes the `Content` (`BitString::from_content`, `OctetString::from_content`, …) -/
  | value {α : Type} (cls num : Nat) (ht : TagOK cls num) (pc : PC) (hi : C06.PC.intOK pc = true)
      (op : Content → Prog (α × Content)) (v : α) (hp : ContentDecodes m op pc.write v) :
      Codec m (.prim (C12.tagOf cls num) pc) (fun c => takeValueIf c (C12.tagOf cls num) op) v
  | optValue {α : Type} (cls num : Nat) (ht : TagOK cls num) (pc : PC) (hi : C06.PC.intOK pc = true)
      (op : Content → Prog (α × Content)) (v : α) (hp : ContentDecodes m op pc.write v) :
      Codec m (.optSome (.prim (C12.tagOf cls num) pc)) (fun c => takeOptValueIf c (C12.tagOf cls num) op) (some v)
  /-- `sequence`, `set`, `explicit`, `Constructed::new(tag, inner)` / `take_constructed_if` -/
  | cons {β : Type} (cls num : Nat) (ht : TagOK cls num) (inner : Enc) (hi : C06.IntsOK inner = true)
      (dec : Cons → Prog (β × Cons)) (v : β) (hin : Codec m inner dec v) :
      Codec m (.cons (C12.tagOf cls num) inner) (fun c => takeConstructedIf c (C12.tagOf cls num) dec) v
  /-- an OPTIONAL constructed field that is present -/
  | optCons {β : Type} (cls num : Nat) (ht : TagOK cls num) (inner : Enc) (hi : C06.IntsOK inner = true)
      (dec : Cons → Prog (β × Cons)) (v : β) (hin : Codec m inner dec v) :
      Codec m (.optSome (.cons (C12.tagOf cls num) inner))
        (fun c => takeOptConstructedIf c (C12.tagOf cls num) dec) (some v)
  /-- the empty tuple / empty `Vec` / `Nothing` -/
  | seqNil (k : SeqKind) : Codec m (.seq k []) (fun c => (pure ((), c) : Prog (Unit × Cons))) ()
  /-- tuples, `Vec`, slices, iterators: items in order -/
  | seqCons {β γ : Type} (k : SeqKind) (e : Enc) (es : List Enc) (d1 : Cons → Prog (β × Cons))
      (d2 : Cons → Prog (γ × Cons)) (v1 : β) (v2 : γ)
      (h1 : Codec m e d1 v1) (h2 : Codec m (.seq k es) d2 v2) :
      Codec m (.seq k (e :: es)) (fun c => do let (a, c1) ← d1 c; let (b, c2) ← d2 c1; pure ((a, b), c2)) (v1, v2)
  /-- `Choice2` / `Choice3`: the chosen alternative -/
  | choice {β : Type} (n i : Nat) (e : Enc) (d : Cons → Prog (β × Cons)) (v : β) (h : Codec m e d v) :
      Codec m (.choice n i e) d v
  /-- post-processing of the decoded value -/
  | map {β γ : Type} (e : Enc) (d : Cons → Prog (β × Cons)) (v : β) (f : β → γ) (h : Codec m e d v) :
      Codec m e (fun c => do let (a, c1) ← d c; pure (f a, c1)) (f v)

/-- **C04: encode, then decode, for every composition.** -/
theorem codec_roundtrip (m : Mode) {β : Type} (e : Enc) (dec : Cons → Prog (β × Cons)) (v : β)
    (h : Codec m e dec v) : ∀ bytes, e.write m = .ok bytes → RT m bytes dec v := by
  induction h with
  | prim cls num ht pc hi p v hp =>
    intro bytes hw
    obtain ⟨hl, hb⟩ := write_prim_bytes m cls num ht pc hi bytes hw
    rw [hb]
    exact rt_prim m cls num ht.hc ht.hn ht.hne p pc.write v hl hp
  | optPrim cls num ht pc hi p v hp =>
    intro bytes hw
    simp only [Enc.write] at hw
    obtain ⟨hl, hb⟩ := write_prim_bytes m cls num ht pc hi bytes (by simpa only [Enc.write] using hw)
    rw [hb]
    exact rt_prim_opt m cls num ht.hc ht.hn ht.hne p pc.write v hl hp
  | value cls num ht pc hi op v hp =>
    intro bytes hw
    obtain ⟨hl, hb⟩ := write_prim_bytes m cls num ht pc hi bytes hw
    rw [hb]
    exact rt_value m cls num ht.hc ht.hn ht.hne op pc.write v hl hp
  | optValue cls num ht pc hi op v hp =>
    intro bytes hw
    obtain ⟨hl, hb⟩ := write_prim_bytes m cls num ht pc hi bytes (by simpa only [Enc.write] using hw)
    rw [hb]
    exact rt_value_opt m cls num ht.hc ht.hn ht.hne op pc.write v hl hp
  | cons cls num ht inner hi dec v hin ih =>
    intro bytes hw
    obtain ⟨ib, hiw, h | h⟩ := write_cons_bytes m cls num ht inner hi bytes hw
    · obtain ⟨hm, hl, hb⟩ := h
      rw [hb]
      exact rt_cons m hm cls num ht.hc ht.hn ht.hne ib dec v hl (ih ib hiw)
    · obtain ⟨hm, hb⟩ := h
      subst hm
      rw [hb]
      exact rt_cons_cer cls num ht.hc ht.hn ht.hne ib dec v (ih ib hiw)
  | optCons cls num ht inner hi dec v hin ih =>
    intro bytes hw
    obtain ⟨ib, hiw, h | h⟩ := write_cons_bytes m cls num ht inner hi bytes (by simpa only [Enc.write] using hw)
    · obtain ⟨hm, hl, hb⟩ := h
      rw [hb]
      exact rt_cons_opt m hm cls num ht.hc ht.hn ht.hne ib dec v hl (ih ib hiw)
    · obtain ⟨hm, hb⟩ := h
      subst hm
      rw [hb]
      exact rt_cons_cer_opt cls num ht.hc ht.hn ht.hne ib dec v (ih ib hiw)
  | seqNil k =>
    intro bytes hw
    simp only [Enc.write, Enc.writeList] at hw
    cases hw
    exact rt_nil m
  | seqCons k e es d1 d2 v1 v2 h1 h2 ih1 ih2 =>
    intro bytes hw
    simp only [Enc.write, Enc.writeList] at hw
    cases hw1 : e.write m with
    | error err => rw [hw1] at hw; cases hw
    | ok b1 =>
      rw [hw1] at hw
      cases hw2 : Enc.writeList m es with
      | error err => rw [hw2] at hw; cases hw
      | ok b2 =>
        rw [hw2] at hw
        simp only [Bind.bind, Except.bind, Pure.pure, Except.pure] at hw
        cases hw
        exact rt_seq m b1 b2 d1 d2 v1 v2 (ih1 b1 hw1) (ih2 b2 (by simpa only [Enc.write] using hw2))
  | choice n i e d v h ih =>
    intro bytes hw
    simp only [Enc.write] at hw
    exact ih bytes hw
  | map e d v f h ih =>
    intro bytes hw
    exact rt_map m bytes d v f (ih bytes hw)


/-! ### leaves: every supported primitive type -/

/-- fixed-width INTEGER (all ten builtin types) -/
theorem leaf_int (ty : IntTy) (v : Int) (h : inRange ty.signed ty.width v = true) :
    PrimDecodes (toInt ty) (PC.int ty v).write v := fun tail => C14.roundtrip ty v h tail
/-- BOOLEAN -/
theorem leaf_bool (m : Mode) (b : Bool) : PrimDecodes (toBool m) (PC.bool b).write b :=
  fun tail => C14.bool_roundtrip m b tail
/-- NULL -/
theorem leaf_null : PrimDecodes toNull PC.null.write () := fun tail => C14.null_roundtrip tail

theorem primDecodes_of_run (p : Prog α) (cnt : Bytes) (v : α)
    (h : ∀ tail, runG0 p (St (cnt ++ tail) (some cnt.length)) = .ok (v, St tail (some 0))) :
    PrimDecodes p cnt v := by
  intro tail
  rw [primRun_unfold, h tail]
  simp [run_limitedExhausted]

/-- OBJECT IDENTIFIER (content = what the encoder writes for an accepted identifier) -/
theorem leaf_oid (c : Bytes) (h : Oid.checkContent c = true) : PrimDecodes Oid.fromPrimitive (PC.oid c).write c := by
  apply primDecodes_of_run
  intro tail
  have := C20.fromPrimitive_run c tail
  simpa [h, PC.write] using this

/-- arbitrary-size INTEGER (`Integer`; content in minimal form) -/
theorem leaf_integer (c : Bytes) (h : isMinimalTC c = true) :
    PrimDecodes integerFromPrimitive (PC.integer c).write c := by
  apply primDecodes_of_run
  intro tail
  have := C15.integerFromPrimitive_spec c tail
  simpa [h, PC.write] using this

/-- BIT STRING -/
theorem leaf_bits (m : Mode) (s : BitString) (h : C19.accepts m s.enc = true) :
    ContentDecodes m BitString.fromContent (PC.bits s.unused s.bits).write s := by
  intro tail
  refine ⟨St tail (some 0), ?_, by simp [run_limitedExhausted]⟩
  have h1 := C19.fromContent_run m s.enc tail
  simp only [C19.enc_eq] at h h1
  simp only [C19.decoded, h, if_true] at h1
  exact h1

/-- OCTET STRING, primitive form (BER and DER: any content below 2^32 octets; CER: at most 1000 octets) -/
theorem leaf_octets (m : Mode) (fuel : Nat) (bs : Bytes) (h : m = .cer → bs.length ≤ 1000) :
    ContentDecodes m (OS.fromContent fuel) (PC.octets bs).write (.prim bs) := by
  intro tail
  refine ⟨St tail (some 0), ?_, by simp [run_limitedExhausted]⟩
  simp only [PC.write, OS.fromContent]
  have hgt : (m == Mode.cer && decide (bs.length > 1000)) = false := by
    cases m <;> simp
    have := h rfl; omega
  simp only [runG0_bind, runG0_ite, C19.run_remaining, run_takeAll]
  by_cases hc : m = .cer
  · subst hc
    have := h rfl
    have h2 : ¬ bs.length > 1000 := by omega
    simp [h2]
  · have : (m == Mode.cer) = false := by cases m <;> simp at hc ⊢
    simp [this]

/-! ### consequences -/

/-- DER output is also accepted, with the same value, by the BER-mode decoder built from the same
    combinators (for compositions of primitives, constructed values, sequences, options, choices) -/
theorem write_der_eq_ber {β : Type} (e : Enc) (dec : Cons → Prog (β × Cons)) (v : β) (h : Codec .ber e dec v) :
    e.write .der = e.write .ber := by
  induction h with
  | prim cls num ht pc hi p v hp => rw [C06.write_prim _ _ pc hi, C06.write_prim _ _ pc hi]
  | optPrim cls num ht pc hi p v hp =>
    simp only [Enc.write]
  | value cls num ht pc hi op v hp => rw [C06.write_prim _ _ pc hi, C06.write_prim _ _ pc hi]
  | optValue cls num ht pc hi op v hp => simp only [Enc.write]
  | cons cls num ht inner hi dec v hin ih => rw [C06.write_cons_ber _ inner hi, C06.write_cons_der _ inner hi, ih]
  | optCons cls num ht inner hi dec v hin ih =>
    have := C06.write_cons_ber (C12.tagOf cls num) inner hi
    have h2 := C06.write_cons_der (C12.tagOf cls num) inner hi
    simp only [Enc.write] at this h2 ⊢
    rw [this, h2, ih]
  | seqNil k => rfl
  | seqCons k e es d1 d2 v1 v2 h1 h2 ih1 ih2 =>
    simp only [Enc.write, Enc.writeList] at ih2 ⊢
    rw [ih1, ih2]
  | choice n i e d v h ih => simp only [Enc.write]; exact ih
  | map e d v f h ih => exact ih

theorem der_decodes_in_ber {β : Type} (e : Enc) (dec : Cons → Prog (β × Cons)) (v : β) (h : Codec .ber e dec v)
    (bytes : Bytes) (hw : e.write .der = .ok bytes) : RT .ber bytes dec v :=
  codec_roundtrip .ber e dec v h bytes (by rw [← write_der_eq_ber e dec v h]; exact hw)

/-- **C04 at top level**: `Mode::decode(bytes, dec)` on exactly the written octets returns the value
    and leaves nothing -/
theorem top_roundtrip (m : Mode) {β : Type} (e : Enc) (dec : Cons → Prog (β × Cons)) (v : β)
    (h : Codec m e dec v) (bytes : Bytes) (hw : e.write m = .ok bytes) :
    runG0 (decodeTop m dec) (St bytes none) = .ok (v, St [] none) := by
  have := codec_roundtrip m e dec v h bytes hw ⟨.unbounded, m, 0⟩ [] none rfl (by simp) (by simp) (by simp)
  simp only [List.append_nil] at this
  simp [decodeTop, runG0_bind, this, Cons.exhausted]

/-! non-vacuity: SEQUENCE { INTEGER 300 (i16), BOOLEAN true, [0] EXPLICIT NULL OPTIONAL present } -/
def sample : Enc :=
  .cons (C12.tagOf 0 16) (.seq .tuple [
    .prim (C12.tagOf 0 2) (.int .i16 300),
    .prim (C12.tagOf 0 1) (.bool true),
    .optSome (.cons (C12.tagOf 2 0) (.seq .tuple [.prim (C12.tagOf 0 5) .null]))])

example : sample.write .der = .ok [0x30, 0x0b, 0x02, 0x02, 0x01, 0x2c, 0x01, 0x01, 0xff, 0xa0, 0x02, 0x05, 0x00] := by
  rfl
example : sample.write .cer =
    .ok [0x30, 0x80, 0x02, 0x02, 0x01, 0x2c, 0x01, 0x01, 0xff, 0xa0, 0x80, 0x05, 0x00, 0, 0, 0, 0] := by
  rfl

/-- decoder combinators matching the encoder combinators -/
def seqD (d1 : Cons → Prog (β × Cons)) (d2 : Cons → Prog (γ × Cons)) : Cons → Prog ((β × γ) × Cons) :=
  fun c => do let (a, c1) ← d1 c; let (b, c2) ← d2 c1; pure ((a, b), c2)
def nilD : Cons → Prog (Unit × Cons) := fun c => pure ((), c)
def primD (t : Tag) (p : Prog α) : Cons → Prog (α × Cons) :=
  fun c => takePrimitiveIf c t (fun md => do let a ← p; pure (a, md))
def consD (t : Tag) (d : Cons → Prog (β × Cons)) : Cons → Prog (β × Cons) := fun c => takeConstructedIf c t d
def optConsD (t : Tag) (d : Cons → Prog (β × Cons)) : Cons → Prog (Option β × Cons) :=
  fun c => takeOptConstructedIf c t d

/-- the matching decoder, built from the reading combinators -/
def sampleDec (m : Mode) : Cons → Prog ((Int × Bool × Option (Unit × Unit) × Unit) × Cons) :=
  consD (C12.tagOf 0 16)
    (seqD (primD (C12.tagOf 0 2) (toInt .i16))
      (seqD (primD (C12.tagOf 0 1) (toBool m))
        (seqD (optConsD (C12.tagOf 2 0) (seqD (primD (C12.tagOf 0 5) toNull) nilD)) nilD)))

theorem sample_codec (m : Mode) : Codec m sample (sampleDec m) (300, true, some ((), ()), ()) := by
  have t1 : TagOK 0 16 := ⟨by omega, by omega, by omega⟩
  have t2 : TagOK 0 2 := ⟨by omega, by omega, by omega⟩
  have t3 : TagOK 0 1 := ⟨by omega, by omega, by omega⟩
  have t4 : TagOK 2 0 := ⟨by omega, by omega, by omega⟩
  have t5 : TagOK 0 5 := ⟨by omega, by omega, by omega⟩
  have c5 : Codec m (.seq .tuple [.prim (C12.tagOf 0 5) .null]) (seqD (primD (C12.tagOf 0 5) toNull) nilD) ((), ()) :=
    Codec.seqCons .tuple _ [] _ _ () () (Codec.prim 0 5 t5 .null rfl toNull () leaf_null) (Codec.seqNil .tuple)
  have c4 : Codec m (.optSome (.cons (C12.tagOf 2 0) (.seq .tuple [.prim (C12.tagOf 0 5) .null])))
      (optConsD (C12.tagOf 2 0) (seqD (primD (C12.tagOf 0 5) toNull) nilD)) (some ((), ())) :=
    Codec.optCons 2 0 t4 _ rfl _ _ c5
  have c3 := Codec.seqCons .tuple _ [] _ _ _ _ c4 (Codec.seqNil (m := m) .tuple)
  have c2 := Codec.seqCons .tuple _ _ _ _ _ _
    (Codec.prim 0 1 t3 (.bool true) rfl (toBool m) true (leaf_bool m true)) c3
  have c1 := Codec.seqCons .tuple _ _ _ _ _ _
    (Codec.prim 0 2 t2 (.int .i16 300) rfl (toInt .i16) 300 (leaf_int .i16 300 rfl)) c2
  exact Codec.cons 0 16 t1 _ rfl _ _ c1

/-- the sample value round-trips in every mode, at top level, by the general theorem -/
theorem sample_roundtrip (m : Mode) (bytes : Bytes) (hw : sample.write m = .ok bytes) :
    runG0 (decodeTop m (sampleDec m)) (St bytes none) = .ok ((300, true, some ((), ()), ()), St [] none) :=
  top_roundtrip m sample (sampleDec m) _ (sample_codec m) bytes hw

end Bcder.Props.C04
