/-
  C19 — Bit strings expose exactly the encoded bits.

  What is proved (for ALL inputs, no size bound), about the model `Bcder.Model.BitString` of
  src/string/bit.rs, on the plain source semantics `runG0` (Lemmas/G0.lean; `runG` refines it):

  * Acceptance (`fromContent_run`, `fromContent_exhausted_run`, `fromContent_accepts`,
    `fromContent_rejects`, `fromContent_cons`): for every mode `m`, every content `c` and every
    trailing octets `rest`, `BitString::from_content` on the primitive content `c` (presented, as
    the framework does, as the source `St (c ++ rest) (some c.length)`, and followed by the
    framework's exhaustion check) succeeds exactly when `accepts m c` — `c` is not empty, its first
    octet is at most 7, is zero if no further octet follows, and in CER `c` has at most 1000
    octets — and then returns exactly `⟨first octet, remaining octets⟩` with all of the content
    consumed (`St rest (some 0)`); otherwise it fails with a content error (never a panic).
    On a constructed content it is a content error on every source.
  * `skipContent_*`: `BitString::skip_content` accepts exactly the same contents and leaves exactly
    the same source state.
  * Values (`bitLen_eq`, `bit_eq_spec`, `bit_lt`, `bit_ge`, `bit_lt_explicit`, `bit_two_part`,
    `bits_list`, `accepted_bits`): for every `s : BitString`
    that satisfies the invariant of `BitString::new` (`unused ≤ 7`, `unused = 0` if there are no data
    octets) — which every accepted value does (`accepted_invariant`) — `bit_len` is
    `8 * octets - unused` (no underflow panic), and for EVERY index `i : Nat` `bit i` is the `i`-th
    bit of the reference bit list `Spec.specBits` (most significant bit first) when `i` is below the
    bit length and `false` at or beyond it.  `bitLen_panics` shows the hypothesis is needed for
    `bit_len`.
  * Round trip (`enc_eq`, `encLen_eq`, `roundtrip`, `decode_enc_content`): the `PrimitiveContent`
    encoding of `s` is `unused :: bits`, its announced length is the length of that, decoding it
    gives back `s` (when the acceptance condition holds), and re-encoding an accepted value
    reproduces the content octets.

  * `fromContent_runG_ok`, `fromContent_runG_err`: the acceptance result transferred to the
    contract-checking layer `runG` that the test driver runs.

  NOT covered here:
  * the octet views (`octet_len`, `octets`, `octet_slice`, `octet_bytes`) are plain projections of
    the `bits` field in the Rust and are not modelled as separate functions; what is proved is that
    the decoded `bits` field is exactly the data octets of the content (`fromContent_accepts`);
  * the identifier/length octets around the content (C02/C12/C13) and `encode_slice`;
  * sources other than `SliceSource` (C07 extends `runG0` results to every conforming source).
-/
import Bcder.Model.BitString
import Bcder.Spec.Values
import Bcder.Lemmas.G0
import Bcder.Props.C02
namespace Bcder.Props.C19
open Bcder Bcder.Spec Prog
open Bcder.Props.C02 (St run_getLimit run_need run_takeAll run_limitedExhausted)

/-! ### primitive accessors on a limited source -/

/-- `take_opt_u8` when the window and the data hold an octet -/
theorem run_takeOptU8_cons (b : UInt8) (t : Bytes) (l : Nat) :
    runG0 takeOptU8 (St (b :: t) (some (l + 1))) = .ok (some b, St t (some l)) := by
  simp [takeOptU8, runG0, stepG0, G0.view, G0.advance]

/-- `take_opt_u8` on an empty window -/
theorem run_takeOptU8_zero (d : Bytes) :
    runG0 takeOptU8 (St d (some 0)) = .ok (none, St d (some 0)) := by
  simp [takeOptU8, runG0, stepG0, G0.view]

/-- `take_opt_u8` when the data ran out -/
theorem run_takeOptU8_nil (l : Nat) :
    runG0 takeOptU8 (St [] (some l)) = .ok (none, St [] (some l)) := by
  simp [takeOptU8, runG0, stepG0, G0.view]

/-- `Source::take_u8` when the window and the data hold an octet -/
theorem run_takeU8_cons (b : UInt8) (t : Bytes) (l : Nat) :
    runG0 takeU8 (St (b :: t) (some (l + 1))) = .ok (b, St t (some l)) := by
  unfold takeU8
  simp only [runG0_bind, run_takeOptU8_cons, runG0_pure]

/-- `Source::take_u8` on an empty window -/
theorem run_takeU8_zero (d : Bytes) : runG0 takeU8 (St d (some 0)) = .error .content := by
  unfold takeU8
  simp only [runG0_bind, run_takeOptU8_zero, runG0_contentErr]

/-- `Source::take_u8` when the data ran out -/
theorem run_takeU8_nil (l : Nat) : runG0 takeU8 (St [] (some l)) = .error .content := by
  unfold takeU8
  simp only [runG0_bind, run_takeOptU8_nil, runG0_contentErr]

/-- `Primitive::remaining` -/
theorem run_remaining (d : Bytes) (l : Nat) :
    runG0 Prim.remaining (St d (some l)) = .ok (l, St d (some l)) := by
  unfold Prim.remaining
  simp only [runG0_bind, run_getLimit, runG0_pure]

/-- `LimitedSource::skip_all` on a window of `len` octets -/
theorem run_skipAll (d : Bytes) (len : Nat) :
    runG0 Prim.skipAll (St d (some len)) =
      if len ≤ d.length then .ok ((), St (d.drop len) (some 0)) else .error .content := by
  unfold Prim.skipAll
  simp only [runG0_bind, run_remaining, run_need]
  have hv : (St d (some len)).view.length = min len d.length := by simp [G0.view, List.length_take]
  by_cases h : len ≤ d.length
  · have : len ≤ (St d (some len)).view.length := by rw [hv]; omega
    simp only [h, this, decide_true, if_true]
    have ha := G0.advance_eq (St d (some len)) rfl len this
    have hlt : ¬ min len d.length < len := by omega
    simp [skipN, runG0, stepG0, ha, G0.adv, hv, hlt]
  · have : ¬ len ≤ (St d (some len)).view.length := by rw [hv]; omega
    simp [h, this]

/-! ### acceptance -/

/-- the acceptance condition of the property text: the content is not empty, its first octet is at
    most 7 and is zero if no further octet follows, and in CER it is at most 1000 octets long -/
def accepts (m : Mode) (c : Bytes) : Bool :=
  match c with
  | [] => false
  | u :: data =>
    decide (u.toNat ≤ 7) && (!decide ((u :: data).length = 1) || decide (u = 0)) &&
      (!decide (m = .cer) || decide ((u :: data).length ≤ 1000))

theorem fromContent_run_cons (m : Mode) (u : UInt8) (data rest : Bytes) :
    runG0 (BitString.fromContent (.prim m)) (St (u :: data ++ rest) (some (data.length + 1))) =
      if accepts m (u :: data) then .ok ((⟨u, data⟩, .prim m), St rest (some 0))
      else .error .content := by
  unfold BitString.fromContent
  simp only [runG0_bind, run_remaining]
  by_cases h1 : (m == Mode.cer && decide (data.length + 1 > 1000)) = true
  · have ha : accepts m (u :: data) = false := by
      simp only [Bool.and_eq_true, beq_iff_eq, decide_eq_true_eq] at h1
      simp only [accepts, List.length_cons, h1.1, decide_true, Bool.not_true, Bool.false_or]
      have : ¬ data.length + 1 ≤ 1000 := by omega
      simp [this]
    rw [if_pos h1, ha]
    rfl
  · rw [if_neg h1]
    have hcer : (!decide (m = .cer) || decide ((u :: data).length ≤ 1000)) = true := by
      simp only [Bool.and_eq_true, beq_iff_eq, decide_eq_true_eq, not_and] at h1
      by_cases hm : m = .cer
      · have := h1 hm
        simp only [List.length_cons, hm, decide_true, Bool.not_true, Bool.false_or, decide_eq_true_eq]
        omega
      · simp [hm]
    have hcons : (u :: data ++ rest) = u :: (data ++ rest) := rfl
    simp only [runG0_bind, hcons, run_takeU8_cons]
    by_cases h2 : u > 7
    · have ha : accepts m (u :: data) = false := by
        have : ¬ u.toNat ≤ 7 := by
          have := UInt8.lt_iff_toNat_lt.mp h2
          simp at this; omega
        simp [accepts, this]
      rw [if_pos h2, ha]
      rfl
    · rw [if_neg h2]
      have hu7 : u.toNat ≤ 7 := by
        have : ¬ (7 : UInt8).toNat < u.toNat := fun h => h2 (UInt8.lt_iff_toNat_lt.mpr h)
        simp at this; omega
      simp only [runG0_bind, run_remaining]
      by_cases h3 : (data.length == 0 && decide (u > 0)) = true
      · have ha : accepts m (u :: data) = false := by
          simp only [Bool.and_eq_true, beq_iff_eq, decide_eq_true_eq] at h3
          have hne : ¬ u = 0 := by
            intro h; rw [h] at h3; exact absurd h3.2 (by decide)
          simp [accepts, h3.1, hne]
        rw [if_pos h3, ha]
        rfl
      · rw [if_neg h3]
        have ha : accepts m (u :: data) = true := by
          have h3' : (!decide ((u :: data).length = 1) || decide (u = 0)) = true := by
            simp only [Bool.and_eq_true, beq_iff_eq, decide_eq_true_eq, not_and] at h3
            by_cases hl : data.length = 0
            · have hz : ¬ u > 0 := h3 hl
              have : u = 0 := by
                apply UInt8.toNat_inj.mp
                have : ¬ (0 : UInt8).toNat < u.toNat := fun h => hz (UInt8.lt_iff_toNat_lt.mpr h)
                simp at this ⊢; omega
              simp [this]
            · simp [hl]
          simp only [accepts, hu7, decide_true, Bool.true_and, h3', hcer]
        have hle : data.length ≤ (data ++ rest).length := by simp
        simp only [runG0_bind, run_takeAll, hle, if_true, ha, runG0_pure]
        simp

theorem fromContent_run_nil (m : Mode) (rest : Bytes) :
    runG0 (BitString.fromContent (.prim m)) (St rest (some 0)) = .error .content := by
  unfold BitString.fromContent
  simp only [runG0_bind, run_remaining]
  have h1 : ¬ (m == Mode.cer && decide (0 > 1000)) = true := by simp
  rw [if_neg h1]
  simp only [runG0_bind, run_takeU8_zero]

/-- what decoding the primitive content `c` (followed by `rest`) must give -/
def decoded (m : Mode) (c rest : Bytes) : Res ((BitString × Content) × G0) :=
  match c with
  | [] => .error .content
  | u :: data =>
    if accepts m (u :: data) then .ok ((⟨u, data⟩, .prim m), St rest (some 0)) else .error .content

/-- **C19 (acceptance), closure alone**: `BitString::from_content` on the primitive content `c` -/
theorem fromContent_run (m : Mode) (c rest : Bytes) :
    runG0 (BitString.fromContent (.prim m)) (St (c ++ rest) (some c.length)) = decoded m c rest := by
  cases c with
  | nil => exact fromContent_run_nil m rest
  | cons u data => exact fromContent_run_cons m u data rest

/-- the closure as the framework runs it: followed by the exhaustion check of the content -/
def fromContentChecked (content : Content) : Prog (BitString × Content) := do
  let r ← BitString.fromContent content
  limitedExhausted
  pure r

/-- **C19 (acceptance)**: `from_content` followed by `LimitedSource::exhausted` -/
theorem fromContent_exhausted_run (m : Mode) (c rest : Bytes) :
    runG0 (fromContentChecked (.prim m)) (St (c ++ rest) (some c.length)) = decoded m c rest := by
  unfold fromContentChecked
  simp only [runG0_bind, fromContent_run]
  cases c with
  | nil => rfl
  | cons u data =>
    simp only [decoded]
    by_cases ha : accepts m (u :: data) = true
    · simp only [ha, if_true, run_limitedExhausted, runG0_pure]
    · simp only [ha, Bool.false_eq_true, if_false]

theorem accepts_cons_iff (m : Mode) (u : UInt8) (data : Bytes) :
    accepts m (u :: data) = true ↔
      u.toNat ≤ 7 ∧ (data = [] → u = 0) ∧ (m = .cer → (u :: data).length ≤ 1000) := by
  cases data with
  | nil => by_cases hm : m = .cer <;> simp [accepts, hm]
  | cons b t => by_cases hm : m = .cer <;> simp [accepts, hm]

theorem accepts_nil (m : Mode) : accepts m [] = false := rfl

/-- accepted contents: exactly the value `⟨first octet, remaining octets⟩`, content fully consumed -/
theorem fromContent_accepts (m : Mode) (c rest : Bytes) (h : accepts m c = true) :
    ∃ u data, c = u :: data ∧
      runG0 (fromContentChecked (.prim m)) (St (c ++ rest) (some c.length)) =
        .ok ((⟨u, data⟩, .prim m), St rest (some 0)) := by
  cases c with
  | nil => simp [accepts] at h
  | cons u data =>
    refine ⟨u, data, rfl, ?_⟩
    rw [fromContent_exhausted_run]
    simp only [decoded, h, if_true]

/-- everything else is a content error (not a panic) -/
theorem fromContent_rejects (m : Mode) (c rest : Bytes) (h : accepts m c = false) :
    runG0 (fromContentChecked (.prim m)) (St (c ++ rest) (some c.length)) = .error .content := by
  rw [fromContent_exhausted_run]
  cases c with
  | nil => rfl
  | cons u data => simp only [decoded, h, Bool.false_eq_true, if_false]

/-- acceptance, as an equivalence -/
theorem fromContent_ok_iff (m : Mode) (c rest : Bytes) :
    (∃ r, runG0 (fromContentChecked (.prim m)) (St (c ++ rest) (some c.length)) = .ok r) ↔
      accepts m c = true := by
  constructor
  · rintro ⟨r, hr⟩
    cases ha : accepts m c with
    | true => rfl
    | false => rw [fromContent_rejects m c rest ha] at hr; cases hr
  · intro h
    obtain ⟨u, data, _, hr⟩ := fromContent_accepts m c rest h
    exact ⟨_, hr⟩

/-- a constructed BIT STRING is never accepted, on any source -/
theorem fromContent_cons (k : Cons) (g : G0) :
    runG0 (BitString.fromContent (.cons k)) g = .error .content := rfl

theorem fromContentChecked_cons (k : Cons) (g : G0) :
    runG0 (fromContentChecked (.cons k)) g = .error .content := rfl

/-! ### skipping -/

theorem skipContent_run_cons (m : Mode) (u : UInt8) (data rest : Bytes) :
    runG0 (BitString.skipContent (.prim m)) (St (u :: data ++ rest) (some (data.length + 1))) =
      if accepts m (u :: data) then .ok (((), .prim m), St rest (some 0))
      else .error .content := by
  unfold BitString.skipContent
  simp only [runG0_bind, run_remaining]
  by_cases h1 : (m == Mode.cer && decide (data.length + 1 > 1000)) = true
  · have ha : accepts m (u :: data) = false := by
      simp only [Bool.and_eq_true, beq_iff_eq, decide_eq_true_eq] at h1
      simp only [accepts, List.length_cons, h1.1, decide_true, Bool.not_true, Bool.false_or]
      have : ¬ data.length + 1 ≤ 1000 := by omega
      simp [this]
    rw [if_pos h1, ha]
    rfl
  · rw [if_neg h1]
    have hcer : (!decide (m = .cer) || decide ((u :: data).length ≤ 1000)) = true := by
      simp only [Bool.and_eq_true, beq_iff_eq, decide_eq_true_eq, not_and] at h1
      by_cases hm : m = .cer
      · have := h1 hm
        simp only [List.length_cons, hm, decide_true, Bool.not_true, Bool.false_or, decide_eq_true_eq]
        omega
      · simp [hm]
    have hcons : (u :: data ++ rest) = u :: (data ++ rest) := rfl
    simp only [runG0_bind, hcons, run_takeU8_cons]
    by_cases h2 : u > 7
    · have ha : accepts m (u :: data) = false := by
        have : ¬ u.toNat ≤ 7 := by
          have := UInt8.lt_iff_toNat_lt.mp h2
          simp at this; omega
        simp [accepts, this]
      rw [if_pos h2, ha]
      rfl
    · rw [if_neg h2]
      have hu7 : u.toNat ≤ 7 := by
        have : ¬ (7 : UInt8).toNat < u.toNat := fun h => h2 (UInt8.lt_iff_toNat_lt.mpr h)
        simp at this; omega
      simp only [runG0_bind, run_remaining]
      by_cases h3 : (data.length == 0 && decide (u > 0)) = true
      · have ha : accepts m (u :: data) = false := by
          simp only [Bool.and_eq_true, beq_iff_eq, decide_eq_true_eq] at h3
          have hne : ¬ u = 0 := by
            intro h; rw [h] at h3; exact absurd h3.2 (by decide)
          simp [accepts, h3.1, hne]
        rw [if_pos h3, ha]
        rfl
      · rw [if_neg h3]
        have ha : accepts m (u :: data) = true := by
          have h3' : (!decide ((u :: data).length = 1) || decide (u = 0)) = true := by
            simp only [Bool.and_eq_true, beq_iff_eq, decide_eq_true_eq, not_and] at h3
            by_cases hl : data.length = 0
            · have hz : ¬ u > 0 := h3 hl
              have : u = 0 := by
                apply UInt8.toNat_inj.mp
                have : ¬ (0 : UInt8).toNat < u.toNat := fun h => hz (UInt8.lt_iff_toNat_lt.mpr h)
                simp at this ⊢; omega
              simp [this]
            · simp [hl]
          simp only [accepts, hu7, decide_true, Bool.true_and, h3', hcer]
        have hle : data.length ≤ (data ++ rest).length := by simp
        simp only [runG0_bind, run_skipAll, hle, if_true, ha, runG0_pure]
        simp


theorem skipContent_run_nil (m : Mode) (rest : Bytes) :
    runG0 (BitString.skipContent (.prim m)) (St rest (some 0)) = .error .content := by
  unfold BitString.skipContent
  simp only [runG0_bind, run_remaining]
  have h1 : ¬ (m == Mode.cer && decide (0 > 1000)) = true := by simp
  rw [if_neg h1]
  simp only [runG0_bind, run_takeU8_zero]

/-- **C19 (skipping)**: `BitString::skip_content` succeeds on exactly the contents `from_content`
    accepts, and leaves the source in exactly the same state -/
theorem skipContent_run (m : Mode) (c rest : Bytes) :
    runG0 (BitString.skipContent (.prim m)) (St (c ++ rest) (some c.length)) =
      if accepts m c then .ok (((), .prim m), St rest (some 0)) else .error .content := by
  cases c with
  | nil => exact skipContent_run_nil m rest
  | cons u data => exact skipContent_run_cons m u data rest

/-- drop the decoded value: what is left of a `from_content` result for comparison with skipping -/
def forget : Res ((BitString × Content) × G0) → Res ((Unit × Content) × G0)
  | .ok ((_, k), g) => .ok (((), k), g)
  | .error e => .error e

/-- skipping is decoding with the value dropped: same acceptance, same content state, same source
    state, same error -/
theorem skipContent_eq_fromContent (m : Mode) (c rest : Bytes) :
    runG0 (BitString.skipContent (.prim m)) (St (c ++ rest) (some c.length)) =
      forget (runG0 (BitString.fromContent (.prim m)) (St (c ++ rest) (some c.length))) := by
  rw [skipContent_run, fromContent_run]
  cases c with
  | nil => rfl
  | cons u data =>
    simp only [decoded]
    by_cases ha : accepts m (u :: data) = true
    · simp only [ha, if_true, forget]
    · simp only [ha, Bool.false_eq_true, if_false, forget]

theorem skipContent_cons (k : Cons) (g : G0) :
    runG0 (BitString.skipContent (.cons k)) g = .error .content := rfl

/-- the same with the framework's exhaustion check after the closure -/
def skipContentChecked (content : Content) : Prog (Unit × Content) := do
  let r ← BitString.skipContent content
  limitedExhausted
  pure r

theorem skipContent_exhausted_run (m : Mode) (c rest : Bytes) :
    runG0 (skipContentChecked (.prim m)) (St (c ++ rest) (some c.length)) =
      if accepts m c then .ok (((), .prim m), St rest (some 0)) else .error .content := by
  unfold skipContentChecked
  simp only [runG0_bind, skipContent_run]
  by_cases ha : accepts m c = true
  · simp only [ha, if_true, run_limitedExhausted, runG0_pure]
  · simp only [ha, Bool.false_eq_true, if_false]

theorem skipContent_ok_iff (m : Mode) (c rest : Bytes) :
    (∃ r, runG0 (skipContentChecked (.prim m)) (St (c ++ rest) (some c.length)) = .ok r) ↔
      (∃ r, runG0 (fromContentChecked (.prim m)) (St (c ++ rest) (some c.length)) = .ok r) := by
  rw [fromContent_ok_iff, skipContent_exhausted_run]
  by_cases ha : accepts m c = true
  · simp [ha]
  · simp [ha]

/-! ### the bits of a value -/

/-- bit `k` (0 = most significant) of an octet -/
def msbBit (o : UInt8) (k : Nat) : Bool := (o.toNat / 2 ^ (7 - k)) % 2 == 1

theorem and_one_shl_ne_zero (n b : Nat) : ((n &&& (1 <<< b)) != 0) = (n / 2 ^ b % 2 == 1) := by
  rw [Nat.one_shiftLeft]
  have key : ((n &&& 2 ^ b) = 0) ↔ n.testBit b = false := by
    constructor
    · intro h
      have := congrArg (fun x => Nat.testBit x b) h
      simpa [Nat.testBit_and, Nat.testBit_two_pow_self] using this
    · intro h
      apply Nat.eq_of_testBit_eq
      intro j
      simp only [Nat.testBit_and, Nat.testBit_two_pow, Nat.zero_testBit]
      by_cases hj : b = j
      · subst hj; simp [h]
      · simp [hj]
  rw [Nat.testBit_eq_decide_div_mod_eq] at key
  by_cases h : n / 2 ^ b % 2 = 1
  · have : ¬ (n &&& 2 ^ b) = 0 := fun h0 => by simpa [h] using key.mp h0
    simp [h, this]
  · have : (n &&& 2 ^ b) = 0 := key.mpr (by simp [h])
    simp [h, this]

theorem bitsOfByte_length (b : UInt8) : (bitsOfByte b).length = 8 := rfl

theorem bitsOf_cons (b : UInt8) (bs : Bytes) : bitsOf (b :: bs) = bitsOfByte b ++ bitsOf bs := by
  simp [bitsOf]

theorem bitsOf_length (bs : Bytes) : (bitsOf bs).length = 8 * bs.length := by
  induction bs with
  | nil => rfl
  | cons b bs ih => rw [bitsOf_cons, List.length_append, ih, bitsOfByte_length, List.length_cons]; omega

theorem bitsOfByte_get (b : UInt8) (k : Nat) (hk : k < 8) : (bitsOfByte b)[k]? = some (msbBit b k) := by
  have : k = 0 ∨ k = 1 ∨ k = 2 ∨ k = 3 ∨ k = 4 ∨ k = 5 ∨ k = 6 ∨ k = 7 := by omega
  rcases this with h | h | h | h | h | h | h | h <;> subst h <;> rfl

/-- the reference bit list, indexed: bit `i` is bit `i % 8` (MSB first) of octet `i / 8` -/
theorem bitsOf_get (bs : Bytes) (i : Nat) :
    (bitsOf bs)[i]? = (bs[i / 8]?).map fun o => msbBit o (i % 8) := by
  induction bs generalizing i with
  | nil => simp [bitsOf]
  | cons b bs ih =>
    rw [bitsOf_cons, List.getElem?_append, bitsOfByte_length]
    by_cases hi : i < 8
    · have h0 : i / 8 = 0 := by omega
      have h1 : i % 8 = i := by omega
      simp only [hi, if_true, h0, h1, List.getElem?_cons_zero, Option.map]
      exact bitsOfByte_get b i hi
    · have h0 : i / 8 = (i - 8) / 8 + 1 := by omega
      have h1 : i % 8 = (i - 8) % 8 := by omega
      simp only [hi, if_false, ih, h0, h1, List.getElem?_cons_succ]

theorem specBits_length (u : Nat) (data : Bytes) : (specBits u data).length = 8 * data.length - u := by
  simp only [specBits, List.length_take, bitsOf_length]; omega

theorem specBits_get (u : Nat) (data : Bytes) (i : Nat) :
    (specBits u data)[i]? =
      if i < 8 * data.length - u then (data[i / 8]?).map fun o => msbBit o (i % 8) else none := by
  simp only [specBits, List.getElem?_take, bitsOf_get]

/-- the invariant of `BitString::new` -/
def Inv (s : BitString) : Prop := s.unused.toNat ≤ 7 ∧ (s.bits = [] → s.unused = 0)

instance (s : BitString) : Decidable (Inv s) := by unfold Inv; exact inferInstance

/-- every accepted content decodes to a value satisfying the invariant -/
theorem accepted_invariant (m : Mode) (u : UInt8) (data : Bytes) (h : accepts m (u :: data) = true) :
    Inv ⟨u, data⟩ := by
  obtain ⟨h1, h2, _⟩ := (accepts_cons_iff m u data).mp h
  exact ⟨h1, h2⟩

theorem inv_unused_le (s : BitString) (h : Inv s) : s.unused.toNat ≤ 8 * s.bits.length := by
  obtain ⟨h1, h2⟩ := h
  cases hb : s.bits with
  | nil => rw [h2 hb]; simp
  | cons b t => simp only [List.length_cons]; omega

/-- **C19 (bit length)**: eight times the number of data octets minus the unused count; the
    subtraction does not underflow -/
theorem bitLen_eq (s : BitString) (h : Inv s) :
    s.bitLen = .ok (8 * s.bits.length - s.unused.toNat) := by
  have hle := inv_unused_le s h
  unfold BitString.bitLen
  have e : s.bits.length <<< 3 = 8 * s.bits.length := by rw [Nat.shiftLeft_eq]; omega
  rw [e]
  have : ¬ 8 * s.bits.length < s.unused.toNat := by omega
  rw [if_neg this]

/-- … which is the length of the reference bit list -/
theorem bitLen_eq_spec (s : BitString) (h : Inv s) :
    s.bitLen = .ok (specBits s.unused.toNat s.bits).length := by
  rw [bitLen_eq s h, specBits_length]

/-- without the invariant `bit_len` is an arithmetic underflow (a panic in debug builds): the
    hypothesis of `bitLen_eq` is needed -/
theorem bitLen_panics : (⟨3, []⟩ : BitString).bitLen = .error (.panic "bit_len underflow") := rfl

theorem bit_index_low (i : Nat) : i % 256 &&& 7 = i % 8 := by
  have : (7 : Nat) = 2 ^ 3 - 1 := rfl
  rw [this, Nat.and_two_pow_sub_one_eq_mod]
  omega

/-- `BitString::bit` computed: for every index -/
theorem bit_eq (s : BitString) (h : Inv s) (i : Nat) :
    s.bit i = if i < 8 * s.bits.length - s.unused.toNat then
        (match s.bits[i / 8]? with | some o => msbBit o (i % 8) | none => false)
      else false := by
  have hu := h.1
  unfold BitString.bit
  simp only [Nat.shiftRight_eq_div_pow, bit_index_low, and_one_shl_ne_zero]
  have e8 : (2 : Nat) ^ 3 = 8 := rfl
  rw [e8]
  by_cases h1 : s.bits.length ≤ i / 8
  · have : ¬ i < 8 * s.bits.length - s.unused.toNat := by omega
    rw [if_pos h1, if_neg this]
  · rw [if_neg h1]
    by_cases h2 : (s.bits.length == i / 8 + 1 && decide (s.unused.toNat > 7 - i % 8)) = true
    · rw [if_pos h2]
      simp only [Bool.and_eq_true, beq_iff_eq, decide_eq_true_eq] at h2
      have : ¬ i < 8 * s.bits.length - s.unused.toNat := by omega
      rw [if_neg this]
    · rw [if_neg h2]
      simp only [Bool.and_eq_true, beq_iff_eq, decide_eq_true_eq, not_and] at h2
      have : i < 8 * s.bits.length - s.unused.toNat := by
        by_cases hl : s.bits.length = i / 8 + 1
        · have := h2 hl; omega
        · omega
      rw [if_pos this]
      cases s.bits[i / 8]? <;> rfl

/-- **C19 (bits), one statement for every index**: `bit i` is the `i`-th element of the reference
    bit list (MSB first, cut at the bit length) and `false` outside it.  (The `getD` default is the
    content of the property here — "false at or beyond the bit length" — and `bit_lt` / `bit_ge`
    below state the two halves separately without it.) -/
theorem bit_eq_spec (s : BitString) (h : Inv s) (i : Nat) :
    s.bit i = (specBits s.unused.toNat s.bits).getD i false := by
  rw [List.getD_eq_getElem?_getD, specBits_get, bit_eq s h i]
  by_cases hi : i < 8 * s.bits.length - s.unused.toNat
  · simp only [hi, if_true]
    cases s.bits[i / 8]? <;> rfl
  · simp only [hi, if_false]
    rfl

/-- **C19 (bits below the bit length)**: the reference bit list has an `i`-th element and `bit i`
    is it -/
theorem bit_lt (s : BitString) (h : Inv s) (i : Nat) (hi : i < 8 * s.bits.length - s.unused.toNat) :
    (specBits s.unused.toNat s.bits)[i]? = some (s.bit i) ∧ (bitsOf s.bits)[i]? = some (s.bit i) := by
  have hidx : i / 8 < s.bits.length := by omega
  rw [specBits_get, bitsOf_get, bit_eq s h i]
  simp only [hi, if_true]
  rw [List.getElem?_eq_getElem hidx]
  exact ⟨rfl, rfl⟩

/-- the same, spelled out: octet `i / 8` exists and `bit i` is its bit `7 - i % 8` -/
theorem bit_lt_explicit (s : BitString) (h : Inv s) (i : Nat)
    (hi : i < 8 * s.bits.length - s.unused.toNat) :
    ∃ o, s.bits[i / 8]? = some o ∧ s.bit i = ((o.toNat / 2 ^ (7 - i % 8)) % 2 == 1) := by
  have hidx : i / 8 < s.bits.length := by omega
  refine ⟨s.bits[i / 8], List.getElem?_eq_getElem hidx, ?_⟩
  rw [bit_eq s h i]
  simp only [hi, if_true, List.getElem?_eq_getElem hidx]
  rfl

/-- **C19 (bits at or beyond the bit length)** are `false` -/
theorem bit_ge (s : BitString) (h : Inv s) (i : Nat) (hi : 8 * s.bits.length - s.unused.toNat ≤ i) :
    s.bit i = false := by
  rw [bit_eq s h i]
  have : ¬ i < 8 * s.bits.length - s.unused.toNat := by omega
  rw [if_neg this]

/-- **C19 (bits), in the two-part form of the property text**, relative to what `bit_len` returns -/
theorem bit_two_part (s : BitString) (h : Inv s) :
    ∃ n, s.bitLen = .ok n ∧ n = 8 * s.bits.length - s.unused.toNat ∧
      (∀ i, i < n → (bitsOf s.bits)[i]? = some (s.bit i)) ∧
      (∀ i, n ≤ i → s.bit i = false) :=
  ⟨_, bitLen_eq s h, rfl, fun i hi => (bit_lt s h i hi).2, fun i hi => bit_ge s h i hi⟩

/-- the bits the accessor exposes are exactly the reference bits: listing `bit 0 … bit (n-1)` gives
    `specBits` -/
theorem bits_list (s : BitString) (h : Inv s) :
    (List.range (8 * s.bits.length - s.unused.toNat)).map s.bit = specBits s.unused.toNat s.bits := by
  apply List.ext_getElem?
  intro i
  by_cases hi : i < 8 * s.bits.length - s.unused.toNat
  · rw [(bit_lt s h i hi).1, List.getElem?_map, List.getElem?_range hi]
    rfl
  · have h1 : (List.map s.bit (List.range (8 * s.bits.length - s.unused.toNat))).length ≤ i := by
      simp only [List.length_map, List.length_range]; omega
    have h2 : (specBits s.unused.toNat s.bits).length ≤ i := by rw [specBits_length]; omega
    rw [List.getElem?_eq_none h1, List.getElem?_eq_none h2]

/-! ### encoding and round trip -/

/-- the content octets written for a value: the unused count, then the data octets unchanged -/
theorem enc_eq (s : BitString) : s.enc = s.unused :: s.bits := rfl

/-- the announced content length is the length of what is written -/
theorem encLen_eq (s : BitString) : s.encLen = s.enc.length := rfl

/-- **C19 (round trip, encode then decode)**: decoding the encoding of `s` gives `s` back and
    consumes exactly the encoding, provided the acceptance condition holds … -/
theorem roundtrip (m : Mode) (s : BitString) (rest : Bytes) (h : accepts m s.enc = true) :
    runG0 (fromContentChecked (.prim m)) (St (s.enc ++ rest) (some s.encLen)) =
      .ok ((s, .prim m), St rest (some 0)) := by
  rw [encLen_eq, fromContent_exhausted_run]
  simp only [enc_eq] at h ⊢
  simp only [decoded, h, if_true]

/-- … and fails with a content error otherwise -/
theorem roundtrip_rejects (m : Mode) (s : BitString) (rest : Bytes) (h : accepts m s.enc = false) :
    runG0 (fromContentChecked (.prim m)) (St (s.enc ++ rest) (some s.encLen)) = .error .content := by
  rw [encLen_eq]
  exact fromContent_rejects m s.enc rest h

/-- the acceptance condition for an encoding is the invariant of `BitString::new` plus the CER
    size limit -/
theorem accepts_enc_iff (m : Mode) (s : BitString) :
    accepts m s.enc = true ↔ Inv s ∧ (m = .cer → s.encLen ≤ 1000) := by
  rw [enc_eq, accepts_cons_iff]
  constructor
  · rintro ⟨h1, h2, h3⟩
    exact ⟨⟨h1, h2⟩, fun hm => by have := h3 hm; simpa [BitString.encLen] using this⟩
  · rintro ⟨⟨h1, h2⟩, h3⟩
    exact ⟨h1, h2, fun hm => by have := h3 hm; simpa [BitString.encLen] using this⟩

/-- in BER and DER every value satisfying the invariant round-trips -/
theorem roundtrip_inv (m : Mode) (hm : m ≠ .cer) (s : BitString) (rest : Bytes) (h : Inv s) :
    runG0 (fromContentChecked (.prim m)) (St (s.enc ++ rest) (some s.encLen)) =
      .ok ((s, .prim m), St rest (some 0)) :=
  roundtrip m s rest ((accepts_enc_iff m s).mpr ⟨h, fun h' => absurd h' hm⟩)

/-- **C19 (round trip, decode then encode)**: whatever `from_content` returns re-encodes to the
    content octets it was decoded from, and its data octets are the content after the first -/
theorem decode_enc_content (m : Mode) (c rest : Bytes) (s : BitString) (k : Content) (g : G0)
    (h : runG0 (fromContentChecked (.prim m)) (St (c ++ rest) (some c.length)) = .ok ((s, k), g)) :
    s.enc = c ∧ s.encLen = c.length ∧ s.bits = c.drop 1 ∧ c.head? = some s.unused ∧ Inv s ∧
      k = .prim m ∧ g = St rest (some 0) := by
  rw [fromContent_exhausted_run] at h
  cases c with
  | nil => cases h
  | cons u data =>
    simp only [decoded] at h
    by_cases ha : accepts m (u :: data) = true
    · simp only [ha, if_true, Except.ok.injEq, Prod.mk.injEq] at h
      obtain ⟨⟨hs, hk⟩, hg⟩ := h
      subst hs
      exact ⟨rfl, rfl, rfl, rfl, accepted_invariant m u data ha, hk.symm, hg.symm⟩
    · simp only [ha, Bool.false_eq_true, if_false] at h
      cases h

/-- everything together for an accepted content: the decoded value, its bit length and its bits -/
theorem accepted_bits (m : Mode) (u : UInt8) (data rest : Bytes) (h : accepts m (u :: data) = true) :
    runG0 (fromContentChecked (.prim m)) (St (u :: data ++ rest) (some (u :: data).length)) =
        .ok ((⟨u, data⟩, .prim m), St rest (some 0)) ∧
      (⟨u, data⟩ : BitString).bitLen = .ok (8 * data.length - u.toNat) ∧
      (∀ i, i < 8 * data.length - u.toNat →
        (bitsOf data)[i]? = some ((⟨u, data⟩ : BitString).bit i)) ∧
      (∀ i, 8 * data.length - u.toNat ≤ i → (⟨u, data⟩ : BitString).bit i = false) ∧
      (⟨u, data⟩ : BitString).enc = u :: data := by
  have hinv := accepted_invariant m u data h
  refine ⟨?_, bitLen_eq _ hinv, fun i hi => (bit_lt _ hinv i hi).2, fun i hi => bit_ge _ hinv i hi, rfl⟩
  have := fromContent_exhausted_run m (u :: data) rest
  simp only [decoded, h, if_true] at this
  exact this

/-! ### the same on the contract-checking layer `runG` -/

/-- on the layer the test driver executes (`runG`, which adds the ghost grant watermark): a
    successful run means the content is accepted and the value is exactly `⟨first, remaining⟩` -/
theorem fromContent_runG_ok (m : Mode) (c rest : Bytes) (s : BitString) (k : Content) (g' : G)
    (h : runG (fromContentChecked (.prim m)) { data := c ++ rest, limit := some c.length } = .ok ((s, k), g')) :
    accepts m c = true ∧ s.enc = c ∧ Inv s ∧ k = .prim m ∧ g'.data = rest ∧ g'.limit = some 0 := by
  have h0 := sim0_ok _ _ _ _ h
  have he : ({ data := c ++ rest, limit := some c.length } : G).erase = St (c ++ rest) (some c.length) := rfl
  rw [he] at h0
  have ha : accepts m c = true := (fromContent_ok_iff m c rest).mp ⟨_, h0⟩
  obtain ⟨h1, _, _, _, h5, h6, h7⟩ := decode_enc_content m c rest s k g'.erase h0
  exact ⟨ha, h1, h5, h6, congrArg G0.data h7, congrArg G0.limit h7⟩

/-- … and a failure that is not a panic means the content is not accepted -/
theorem fromContent_runG_err (m : Mode) (c rest : Bytes) (e : Err) (hp : e.isPanic = false)
    (h : runG (fromContentChecked (.prim m)) { data := c ++ rest, limit := some c.length } = .error e) :
    accepts m c = false ∧ e = .content := by
  have h0 := sim0_err _ _ _ h hp
  have he : ({ data := c ++ rest, limit := some c.length } : G).erase = St (c ++ rest) (some c.length) := rfl
  rw [he] at h0
  cases ha : accepts m c with
  | false =>
    rw [fromContent_rejects m c rest ha] at h0
    cases h0
    exact ⟨rfl, rfl⟩
  | true =>
    obtain ⟨u, data, _, hr⟩ := fromContent_accepts m c rest ha
    rw [hr] at h0
    cases h0

/-! ### non-vacuity -/

-- accepted: 5 unused bits, two data octets, in every mode
example : accepts .der [5, 0xA5, 0xE0] = true := by decide
example : accepts .cer [5, 0xA5, 0xE0] = true := by decide
-- the empty bit string
example : accepts .ber [0] = true := by decide
-- rejected: empty content, unused count 8, unused bits without data octets
example : accepts .ber [] = false := by decide
example : accepts .ber [8, 0xFF] = false := by decide
example : accepts .der [3] = false := by decide
-- rejected in CER only: 1001 content octets
example : accepts .cer (0 :: List.replicate 1000 0xFF) = false := by
  rw [Bool.eq_false_iff]
  intro h
  have := ((accepts_cons_iff _ _ _).mp h).2.2 rfl
  simp only [List.length_cons, List.length_replicate] at this
  omega
example : accepts .ber (0 :: List.replicate 1000 0xFF) = true :=
  (accepts_cons_iff _ _ _).mpr ⟨by decide, fun _ => rfl, fun h => by cases h⟩
example : accepts .cer (0 :: List.replicate 999 0xFF) = true :=
  (accepts_cons_iff _ _ _).mpr ⟨by decide, fun _ => rfl, fun _ => by
    simp only [List.length_cons, List.length_replicate]; omega⟩
-- the decoder on concrete input (agrees with the theorems)
example : runG0 (fromContentChecked (.prim .der)) (St [5, 0xA5, 0xE0, 0x99] (some 3)) =
    .ok ((⟨5, [0xA5, 0xE0]⟩, .prim .der), St [0x99] (some 0)) := by rfl
example : runG0 (fromContentChecked (.prim .der)) (St [3, 0x99] (some 1)) = .error .content := by rfl
example : runG0 (skipContentChecked (.prim .der)) (St [5, 0xA5, 0xE0, 0x99] (some 3)) =
    .ok (((), .prim .der), St [0x99] (some 0)) := by rfl
-- the invariant holds for a non-trivial value, and its bits
example : Inv ⟨5, [0xA5, 0xE0]⟩ := by decide
example : (⟨5, [0xA5, 0xE0]⟩ : BitString).bitLen = .ok 11 := by rfl
example : specBits 5 [0xA5, 0xE0] =
    [true, false, true, false, false, true, false, true, true, true, true] := by decide
example : (List.range 13).map (⟨5, [0xA5, 0xE0]⟩ : BitString).bit =
    [true, false, true, false, false, true, false, true, true, true, true, false, false] := by decide
-- an index whose low byte differs from the index (the `as u8` cast in `bit`): still beyond the end
example : (⟨5, [0xA5, 0xE0]⟩ : BitString).bit 256 = false := by decide
/-! ### the octet views -/

/-- **the octet views return the data octets unchanged**: `octets()`, `octet_slice()`,
    `octet_bytes()` all yield the data octets and `octet_len()` their number -/
theorem views_eq (s : BitString) :
    s.octets = s.bits ∧ s.octetSlice = some s.bits ∧ s.octetBytes = s.bits ∧ s.octetLen = s.bits.length ∧
      s.unusedBits = s.unused := by
  refine ⟨?_, rfl, rfl, rfl, rfl⟩
  simp [BitString.octets]

/-- for an accepted value: the views return exactly the content octets after the first -/
theorem accepted_views (m : Mode) (u : UInt8) (data rest : Bytes) (s : BitString) (k : Content) (g : G0)
    (h : runG0 (BitString.fromContent (.prim m)) (St (u :: data ++ rest) (some (data.length + 1))) = .ok ((s, k), g)) :
    s.octets = data ∧ s.octetSlice = some data ∧ s.octetBytes = data ∧ s.octetLen = data.length ∧ s.unusedBits = u := by
  have h1 := fromContent_run m (u :: data) rest
  simp only [List.length_cons, List.cons_append] at h1 h
  rw [h] at h1
  simp only [decoded] at h1
  split at h1
  · simp only [Except.ok.injEq, Prod.mk.injEq] at h1
    obtain ⟨⟨hs, _⟩, _⟩ := h1
    subst hs
    have := views_eq ⟨u, data⟩
    simpa using this
  · cases h1

/-- `BitString::new` builds exactly the values that satisfy the invariant of accepted values -/
theorem new_ok_iff (u : UInt8) (bits : Bytes) :
    (∃ s, BitString.new u bits = .ok s) ↔ (u.toNat ≤ 7 ∧ (bits = [] → u = 0)) := by
  unfold BitString.new
  by_cases h1 : u > 7
  · have : ¬ u.toNat ≤ 7 := by
      have := UInt8.lt_iff_toNat_lt.mp h1; simp at this; omega
    simp [h1, this]
  · have h7 : u.toNat ≤ 7 := by
      have : ¬ (7 : UInt8).toNat < u.toNat := fun h => h1 (UInt8.lt_iff_toNat_lt.mpr h)
      simp at this; omega
    cases bits with
    | nil =>
      by_cases h0 : u = 0
      · simp [h0]
      · simp [h1, h0, h7]
    | cons b t => simp [h1, h7]

end Bcder.Props.C19
