/-
  C19 — Bit strings expose exactly the encoded bits.

  What is proved (for ALL inputs, no size bound), about the model `Bcder.Model.BitString` of
  src/string/bit.rs, on the plain source semantics `runG0` (Lemmas/G0.lean; `runG` refines it):

  * Acceptance (`fromContent_run`, `fromContent_exhausted_run`, `fromContent_accepts`,
    `fromContent_rejects`, `fromContent_cons`): for every mode `m`, every content `c` and every
    trailing octets `rest`, `BitString::from_content` on the primitive content `c` (presented, as
    the framework does, as the source `St (c ++ rest) (some c.length)`, and followed by the
    framework's exhaustion check) succeeds exactly when `accepts m c` — `c` is not empty, its first
    octet is at most 7, is zero if no further octet follows, and in CER `c` has at most 1000
    octets — and then returns exactly `⟨first octet, remaining octets⟩` with all of the content
    consumed (`St rest (some 0)`); otherwise it fails with a content error (never a panic).
    On a constructed content it is a content error on every source.
  * `skipContent_*`: `BitString::skip_content` accepts exactly the same contents and leaves exactly
    the same source state.
  * Values (`bitLen_eq`, `bit_eq_spec`, `bit_lt`, `bit_ge`, `bit_lt_explicit`): for every `s : BitString`
    that satisfies the invariant of `BitString::new` (`unused ≤ 7`, `unused = 0` if there are no data
    octets) — which every accepted value does (`accepted_invariant`) — `bit_len` is
    `8 * octets - unused` (no underflow panic), and for EVERY index `i : Nat` `bit i` is the `i`-th
    bit of the reference bit list `Spec.specBits` (most significant bit first) when `i` is below the
    bit length and `false` at or beyond it.  `bitLen_panics` shows the hypothesis is needed for
    `bit_len`.
  * Round trip (`enc_eq`, `encLen_eq`, `roundtrip`, `decode_enc_content`): the `PrimitiveContent`
    encoding of `s` is `unused :: bits`, its announced length is the length of that, decoding it
    gives back `s` (when the acceptance condition holds), and re-encoding an accepted value
    reproduces the content octets.

  NOT covered here:
  * the octet views (`octet_len`, `octets`, `octet_slice`, `octet_bytes`) are plain projections of
    the `bits` field in the Rust and are not modelled as separate functions; what is proved is that
    the decoded `bits` field is exactly the data octets of the content (`fromContent_accepts`);
  * the identifier/length octets around the content (C02/C12/C13) and `encode_slice`;
  * sources other than `SliceSource` (C07 extends `runG0` results to every conforming source).
-/
import Bcder.Model.BitString
import Bcder.Spec.Values
import Bcder.Lemmas.G0
import Bcder.Props.C02
namespace Bcder.Props.C19
open Bcder Bcder.Spec Prog
open Bcder.Props.C02 (St run_getLimit run_need run_takeAll run_limitedExhausted)

/-! ### primitive accessors on a limited source -/

/-- `take_opt_u8` when the window and the data hold an octet -/
theorem run_takeOptU8_cons (b : UInt8) (t : Bytes) (l : Nat) :
    runG0 takeOptU8 (St (b :: t) (some (l + 1))) = .ok (some b, St t (some l)) := by
  simp [takeOptU8, runG0, stepG0, G0.view, G0.advance]

/-- `take_opt_u8` on an empty window -/
theorem run_takeOptU8_zero (d : Bytes) :
    runG0 takeOptU8 (St d (some 0)) = .ok (none, St d (some 0)) := by
  simp [takeOptU8, runG0, stepG0, G0.view]

/-- `take_opt_u8` when the data ran out -/
theorem run_takeOptU8_nil (l : Nat) :
    runG0 takeOptU8 (St [] (some l)) = .ok (none, St [] (some l)) := by
  simp [takeOptU8, runG0, stepG0, G0.view]

/-- `Source::take_u8` when the window and the data hold an octet -/
theorem run_takeU8_cons (b : UInt8) (t : Bytes) (l : Nat) :
    runG0 takeU8 (St (b :: t) (some (l + 1))) = .ok (b, St t (some l)) := by
  unfold takeU8
  simp only [runG0_bind, run_takeOptU8_cons, runG0_pure]

/-- `Source::take_u8` on an empty window -/
theorem run_takeU8_zero (d : Bytes) : runG0 takeU8 (St d (some 0)) = .error .content := by
  unfold takeU8
  simp only [runG0_bind, run_takeOptU8_zero, runG0_contentErr]

/-- `Source::take_u8` when the data ran out -/
theorem run_takeU8_nil (l : Nat) : runG0 takeU8 (St [] (some l)) = .error .content := by
  unfold takeU8
  simp only [runG0_bind, run_takeOptU8_nil, runG0_contentErr]

/-- `Primitive::remaining` -/
theorem run_remaining (d : Bytes) (l : Nat) :
    runG0 Prim.remaining (St d (some l)) = .ok (l, St d (some l)) := by
  unfold Prim.remaining
  simp only [runG0_bind, run_getLimit, runG0_pure]

/-- `LimitedSource::skip_all` on a window of `len` octets -/
theorem run_skipAll (d : Bytes) (len : Nat) :
    runG0 Prim.skipAll (St d (some len)) =
      if len ≤ d.length then .ok ((), St (d.drop len) (some 0)) else .error .content := by
  unfold Prim.skipAll
  simp only [runG0_bind, run_remaining, run_need]
  have hv : (St d (some len)).view.length = min len d.length := by simp [G0.view, List.length_take]
  by_cases h : len ≤ d.length
  · have : len ≤ (St d (some len)).view.length := by rw [hv]; omega
    simp only [h, this, decide_true, if_true]
    have ha := G0.advance_eq (St d (some len)) rfl len this
    have hlt : ¬ min len d.length < len := by omega
    simp [skipN, runG0, stepG0, ha, G0.adv, hv, hlt]
  · have : ¬ len ≤ (St d (some len)).view.length := by rw [hv]; omega
    simp [h, this]

/-! ### acceptance -/

/-- the acceptance condition of the property text: the content is not empty, its first octet is at
    most 7 and is zero if no further octet follows, and in CER it is at most 1000 octets long -/
def accepts (m : Mode) (c : Bytes) : Bool :=
  match c with
  | [] => false
  | u :: data =>
    decide (u.toNat ≤ 7) && (!decide ((u :: data).length = 1) || decide (u = 0)) &&
      (!decide (m = .cer) || decide ((u :: data).length ≤ 1000))

theorem fromContent_run_cons (m : Mode) (u : UInt8) (data rest : Bytes) :
    runG0 (BitString.fromContent (.prim m)) (St (u :: data ++ rest) (some (data.length + 1))) =
      if accepts m (u :: data) then .ok ((⟨u, data⟩, .prim m), St rest (some 0))
      else .error .content := by
  unfold BitString.fromContent
  simp only [runG0_bind, run_remaining]
  by_cases h1 : (m == Mode.cer && decide (data.length + 1 > 1000)) = true
  · have ha : accepts m (u :: data) = false := by
      simp only [Bool.and_eq_true, beq_iff_eq, decide_eq_true_eq] at h1
      simp only [accepts, List.length_cons, h1.1, decide_true, Bool.not_true, Bool.false_or]
      have : ¬ data.length + 1 ≤ 1000 := by omega
      simp [this]
    rw [if_pos h1, ha]
    rfl
  · rw [if_neg h1]
    have hcer : (!decide (m = .cer) || decide ((u :: data).length ≤ 1000)) = true := by
      simp only [Bool.and_eq_true, beq_iff_eq, decide_eq_true_eq, not_and] at h1
      by_cases hm : m = .cer
      · have := h1 hm
        simp only [List.length_cons, hm, decide_true, Bool.not_true, Bool.false_or, decide_eq_true_eq]
        omega
      · simp [hm]
    have hcons : (u :: data ++ rest) = u :: (data ++ rest) := rfl
    simp only [runG0_bind, hcons, run_takeU8_cons]
    by_cases h2 : u > 7
    · have ha : accepts m (u :: data) = false := by
        have : ¬ u.toNat ≤ 7 := by
          have := UInt8.lt_iff_toNat_lt.mp h2
          simp at this; omega
        simp [accepts, this]
      rw [if_pos h2, ha]
      rfl
    · rw [if_neg h2]
      have hu7 : u.toNat ≤ 7 := by
        have : ¬ (7 : UInt8).toNat < u.toNat := fun h => h2 (UInt8.lt_iff_toNat_lt.mpr h)
        simp at this; omega
      simp only [runG0_bind, run_remaining]
      by_cases h3 : (data.length == 0 && decide (u > 0)) = true
      · have ha : accepts m (u :: data) = false := by
          simp only [Bool.and_eq_true, beq_iff_eq, decide_eq_true_eq] at h3
          have hne : ¬ u = 0 := by
            intro h; rw [h] at h3; exact absurd h3.2 (by decide)
          simp [accepts, h3.1, hne]
        rw [if_pos h3, ha]
        rfl
      · rw [if_neg h3]
        have ha : accepts m (u :: data) = true := by
          have h3' : (!decide ((u :: data).length = 1) || decide (u = 0)) = true := by
            simp only [Bool.and_eq_true, beq_iff_eq, decide_eq_true_eq, not_and] at h3
            by_cases hl : data.length = 0
            · have hz : ¬ u > 0 := h3 hl
              have : u = 0 := by
                apply UInt8.toNat_inj.mp
                have : ¬ (0 : UInt8).toNat < u.toNat := fun h => hz (UInt8.lt_iff_toNat_lt.mpr h)
                simp at this ⊢; omega
              simp [this]
            · simp [hl]
          simp only [accepts, hu7, decide_true, Bool.true_and, h3', hcer]
        have hle : data.length ≤ (data ++ rest).length := by simp
        simp only [runG0_bind, run_takeAll, hle, if_true, ha, runG0_pure]
        simp

theorem fromContent_run_nil (m : Mode) (rest : Bytes) :
    runG0 (BitString.fromContent (.prim m)) (St rest (some 0)) = .error .content := by
  unfold BitString.fromContent
  simp only [runG0_bind, run_remaining]
  have h1 : ¬ (m == Mode.cer && decide (0 > 1000)) = true := by simp
  rw [if_neg h1]
  simp only [runG0_bind, run_takeU8_zero]

/-- what decoding the primitive content `c` (followed by `rest`) must give -/
def decoded (m : Mode) (c rest : Bytes) : Res ((BitString × Content) × G0) :=
  match c with
  | [] => .error .content
  | u :: data =>
    if accepts m (u :: data) then .ok ((⟨u, data⟩, .prim m), St rest (some 0)) else .error .content

/-- **C19 (acceptance), closure alone**: `BitString::from_content` on the primitive content `c` -/
theorem fromContent_run (m : Mode) (c rest : Bytes) :
    runG0 (BitString.fromContent (.prim m)) (St (c ++ rest) (some c.length)) = decoded m c rest := by
  cases c with
  | nil => exact fromContent_run_nil m rest
  | cons u data => exact fromContent_run_cons m u data rest

/-- the closure as the framework runs it: followed by the exhaustion check of the content -/
def fromContentChecked (content : Content) : Prog (BitString × Content) := do
  let r ← BitString.fromContent content
  limitedExhausted
  pure r

/-- **C19 (acceptance)**: `from_content` followed by `LimitedSource::exhausted` -/
theorem fromContent_exhausted_run (m : Mode) (c rest : Bytes) :
    runG0 (fromContentChecked (.prim m)) (St (c ++ rest) (some c.length)) = decoded m c rest := by
  unfold fromContentChecked
  simp only [runG0_bind, fromContent_run]
  cases c with
  | nil => rfl
  | cons u data =>
    simp only [decoded]
    by_cases ha : accepts m (u :: data) = true
    · simp only [ha, if_true, run_limitedExhausted, runG0_pure]
    · simp only [ha, Bool.false_eq_true, if_false]

theorem accepts_cons_iff (m : Mode) (u : UInt8) (data : Bytes) :
    accepts m (u :: data) = true ↔
      u.toNat ≤ 7 ∧ (data = [] → u = 0) ∧ (m = .cer → (u :: data).length ≤ 1000) := by
  cases data with
  | nil => by_cases hm : m = .cer <;> simp [accepts, hm]
  | cons b t => by_cases hm : m = .cer <;> simp [accepts, hm]

theorem accepts_nil (m : Mode) : accepts m [] = false := rfl

/-- accepted contents: exactly the value `⟨first octet, remaining octets⟩`, content fully consumed -/
theorem fromContent_accepts (m : Mode) (c rest : Bytes) (h : accepts m c = true) :
    ∃ u data, c = u :: data ∧
      runG0 (fromContentChecked (.prim m)) (St (c ++ rest) (some c.length)) =
        .ok ((⟨u, data⟩, .prim m), St rest (some 0)) := by
  cases c with
  | nil => simp [accepts] at h
  | cons u data =>
    refine ⟨u, data, rfl, ?_⟩
    rw [fromContent_exhausted_run]
    simp only [decoded, h, if_true]

/-- everything else is a content error (not a panic) -/
theorem fromContent_rejects (m : Mode) (c rest : Bytes) (h : accepts m c = false) :
    runG0 (fromContentChecked (.prim m)) (St (c ++ rest) (some c.length)) = .error .content := by
  rw [fromContent_exhausted_run]
  cases c with
  | nil => rfl
  | cons u data => simp only [decoded, h, Bool.false_eq_true, if_false]

/-- acceptance, as an equivalence -/
theorem fromContent_ok_iff (m : Mode) (c rest : Bytes) :
    (∃ r, runG0 (fromContentChecked (.prim m)) (St (c ++ rest) (some c.length)) = .ok r) ↔
      accepts m c = true := by
  constructor
  · rintro ⟨r, hr⟩
    cases ha : accepts m c with
    | true => rfl
    | false => rw [fromContent_rejects m c rest ha] at hr; cases hr
  · intro h
    obtain ⟨u, data, _, hr⟩ := fromContent_accepts m c rest h
    exact ⟨_, hr⟩

/-- a constructed BIT STRING is never accepted, on any source -/
theorem fromContent_cons (k : Cons) (g : G0) :
    runG0 (BitString.fromContent (.cons k)) g = .error .content := rfl

theorem fromContentChecked_cons (k : Cons) (g : G0) :
    runG0 (fromContentChecked (.cons k)) g = .error .content := rfl

/-! ### skipping -/

theorem skipContent_run_cons (m : Mode) (u : UInt8) (data rest : Bytes) :
    runG0 (BitString.skipContent (.prim m)) (St (u :: data ++ rest) (some (data.length + 1))) =
      if accepts m (u :: data) then .ok (((), .prim m), St rest (some 0))
      else .error .content := by
  unfold BitString.skipContent
  simp only [runG0_bind, run_remaining]
  by_cases h1 : (m == Mode.cer && decide (data.length + 1 > 1000)) = true
  · have ha : accepts m (u :: data) = false := by
      simp only [Bool.and_eq_true, beq_iff_eq, decide_eq_true_eq] at h1
      simp only [accepts, List.length_cons, h1.1, decide_true, Bool.not_true, Bool.false_or]
      have : ¬ data.length + 1 ≤ 1000 := by omega
      simp [this]
    rw [if_pos h1, ha]
    rfl
  · rw [if_neg h1]
    have hcer : (!decide (m = .cer) || decide ((u :: data).length ≤ 1000)) = true := by
      simp only [Bool.and_eq_true, beq_iff_eq, decide_eq_true_eq, not_and] at h1
      by_cases hm : m = .cer
      · have := h1 hm
        simp only [List.length_cons, hm, decide_true, Bool.not_true, Bool.false_or, decide_eq_true_eq]
        omega
      · simp [hm]
    have hcons : (u :: data ++ rest) = u :: (data ++ rest) := rfl
    simp only [runG0_bind, hcons, run_takeU8_cons]
    by_cases h2 : u > 7
    · have ha : accepts m (u :: data) = false := by
        have : ¬ u.toNat ≤ 7 := by
          have := UInt8.lt_iff_toNat_lt.mp h2
          simp at this; omega
        simp [accepts, this]
      rw [if_pos h2, ha]
      rfl
    · rw [if_neg h2]
      have hu7 : u.toNat ≤ 7 := by
        have : ¬ (7 : UInt8).toNat < u.toNat := fun h => h2 (UInt8.lt_iff_toNat_lt.mpr h)
        simp at this; omega
      simp only [runG0_bind, run_remaining]
      by_cases h3 : (data.length == 0 && decide (u > 0)) = true
      · have ha : accepts m (u :: data) = false := by
          simp only [Bool.and_eq_true, beq_iff_eq, decide_eq_true_eq] at h3
          have hne : ¬ u = 0 := by
            intro h; rw [h] at h3; exact absurd h3.2 (by decide)
          simp [accepts, h3.1, hne]
        rw [if_pos h3, ha]
        rfl
      · rw [if_neg h3]
        have ha : accepts m (u :: data) = true := by
          have h3' : (!decide ((u :: data).length = 1) || decide (u = 0)) = true := by
            simp only [Bool.and_eq_true, beq_iff_eq, decide_eq_true_eq, not_and] at h3
            by_cases hl : data.length = 0
            · have hz : ¬ u > 0 := h3 hl
              have : u = 0 := by
                apply UInt8.toNat_inj.mp
                have : ¬ (0 : UInt8).toNat < u.toNat := fun h => hz (UInt8.lt_iff_toNat_lt.mpr h)
                simp at this ⊢; omega
              simp [this]
            · simp [hl]
          simp only [accepts, hu7, decide_true, Bool.true_and, h3', hcer]
        have hle : data.length ≤ (data ++ rest).length := by simp
        simp only [runG0_bind, run_skipAll, hle, if_true, ha, runG0_pure]
        simp


theorem skipContent_run_nil (m : Mode) (rest : Bytes) :
    runG0 (BitString.skipContent (.prim m)) (St rest (some 0)) = .error .content := by
  unfold BitString.skipContent
  simp only [runG0_bind, run_remaining]
  have h1 : ¬ (m == Mode.cer && decide (0 > 1000)) = true := by simp
  rw [if_neg h1]
  simp only [runG0_bind, run_takeU8_zero]

/-- **C19 (skipping)**: `BitString::skip_content` succeeds on exactly the contents `from_content`
    accepts, and leaves the source in exactly the same state -/
theorem skipContent_run (m : Mode) (c rest : Bytes) :
    runG0 (BitString.skipContent (.prim m)) (St (c ++ rest) (some c.length)) =
      if accepts m c then .ok (((), .prim m), St rest (some 0)) else .error .content := by
  cases c with
  | nil => exact skipContent_run_nil m rest
  | cons u data => exact skipContent_run_cons m u data rest

/-- drop the decoded value: what is left of a `from_content` result for comparison with skipping -/
def forget : Res ((BitString × Content) × G0) → Res ((Unit × Content) × G0)
  | .ok ((_, k), g) => .ok (((), k), g)
  | .error e => .error e

/-- skipping is decoding with the value dropped: same acceptance, same content state, same source
    state, same error -/
theorem skipContent_eq_fromContent (m : Mode) (c rest : Bytes) :
    runG0 (BitString.skipContent (.prim m)) (St (c ++ rest) (some c.length)) =
      forget (runG0 (BitString.fromContent (.prim m)) (St (c ++ rest) (some c.length))) := by
  rw [skipContent_run, fromContent_run]
  cases c with
  | nil => rfl
  | cons u data =>
    simp only [decoded]
    by_cases ha : accepts m (u :: data) = true
    · simp only [ha, if_true, forget]
    · simp only [ha, Bool.false_eq_true, if_false, forget]

theorem skipContent_cons (k : Cons) (g : G0) :
    runG0 (BitString.skipContent (.cons k)) g = .error .content := rfl

/-- the same with the framework's exhaustion check after the closure -/
def skipContentChecked (content : Content) : Prog (Unit × Content) := do
  let r ← BitString.skipContent content
  limitedExhausted
  pure r

theorem skipContent_exhausted_run (m : Mode) (c rest : Bytes) :
    runG0 (skipContentChecked (.prim m)) (St (c ++ rest) (some c.length)) =
      if accepts m c then .ok (((), .prim m), St rest (some 0)) else .error .content := by
  unfold skipContentChecked
  simp only [runG0_bind, skipContent_run]
  by_cases ha : accepts m c = true
  · simp only [ha, if_true, run_limitedExhausted, runG0_pure]
  · simp only [ha, Bool.false_eq_true, if_false]

theorem skipContent_ok_iff (m : Mode) (c rest : Bytes) :
    (∃ r, runG0 (skipContentChecked (.prim m)) (St (c ++ rest) (some c.length)) = .ok r) ↔
      (∃ r, runG0 (fromContentChecked (.prim m)) (St (c ++ rest) (some c.length)) = .ok r) := by
  rw [fromContent_ok_iff, skipContent_exhausted_run]
  by_cases ha : accepts m c = true
  · simp [ha]
  · simp [ha]
end Bcder.Props.C19
