/-
  C06 — Announced encoded length equals octets written, for every encoder composition.

  Model: `Enc` (Model/Encode.lean), the tree of `Values` combinators, with the two independently
  written methods `Enc.encodedLen` (`Values::encoded_len`) and `Enc.write` (`Values::write_encoded`).
  Everything below is for ALL `e : Enc` (every nesting depth; mutual structural induction over
  `Enc` / `List Enc`) and all three modes.  `lenR r` is "the length `r` announces": the number of
  octets if `r` is a success, the same error otherwise.

  Proved
  * `write_len` / `writeList_len` (main theorem):  `lenR (e.write mode) = e.encodedLen mode`.
    One equation that says: both methods succeed or both fail; on success the announced length is
    exactly the number of octets written; on failure both report the same panic.
    Requested forms: `len_eq_write`, `write_eq_len`, `fail_iff` (+ `lenList_eq_write`,
    `writeList_eq_len`, `failList_iff`).
    Hypothesis `IntsOK e` (decidable): every `.int ty v` leaf satisfies
    `encIntLen ty v = (encInt ty v).length`.  It is discharged here:
    `intOK_u8`, `intOK_i8` (all `v`), and `intOK_of_inRange` / `IntsOK_of_inRange` for ALL ten
    builtin types and every value in the range of the type (`encUnsigned_len`, `encSigned_len`),
    giving the hypothesis-free form `announced_eq_written` (hypothesis: integer leaves hold values
    of their Rust type, `IntsInRange`).  The range hypothesis is necessary in the model
    (`.int .i16 70000` makes the two sizes differ; such a value does not exist in Rust).
    Also `os_len`: `OctetString::len` is the number of octets its iterator yields (DER encoder).
  * Structure of the output (`tlvR tag c content` = identifier octets `tag.write c`, then the
    reference MINIMAL definite length octets `Spec.lenOctets content.length` (C13), then `content`;
    panic "excessive length" iff `content.length ≥ 2^32`, `length_write_spec`):
      `write_prim`              primitive: `tlvR tag false pc.write`
      `write_cons_ber/_der`     constructed, BER/DER: `inner.write >>= tlvR tag true`
                                (the enclosing definite length is the number of octets the inner
                                 encoder writes — this is where the announced length is used)
      `write_cons_cer`          constructed, CER: identifier, 0x80, inner octets, 0x00 0x00
      `write_seq`               tuples/Vec/slices/iterators: concatenation, in order, of the items
      `write_optNone/_optSome/_choice/_nothing`, `write_captured`,
      `write_octetString_ber_prim/_ber_cons/_der`, `write_octetSlice`, `write_bitSlice`,
      `write_wrapped` (OCTET STRING around the inner value encoded in its own mode).
  * Panics the model documents as caller misuse, on which the two methods also agree:
    `cer_unimplemented` (string encoders in CER), `captured_incompatible`, `excessive_both`.
  * Relation to the reference encoder `Spec.encode` (Spec/Encode.lean), for well-formed trees `WF e`
    (decidable: tags write the reference identifier octets of their class and number — true for every
    `Tag::new` tag, `tagOK_new`; integer leaves as above and `encInt ty v = minimalTC v`):
      `write_ok_spec`    `e.write mode = .ok bs → Spec.encode mode e = some bs`
      `spec_some_write`  `Spec.encode mode e = some bs → bs.length < 2^32 → e.write mode = .ok bs`
    so below the 2^32 size limit the writer IS the reference encoder, and where the reference
    says "unimplemented / caller error" (`none`) the writer fails.

  NOT covered
  * `encInt ty v = minimalTC v` (integer content is the minimal two's complement form) is C14's
    property; here it is an explicit decidable hypothesis inside `WF` (only for the `Spec.encode`
    relation; the length theorems do not need it).
  * Tags not made by `Tag::new` (arbitrary four stored octets): the length theorems hold for them too
    (`tag_write_len` is for all tags), the identifier-octet correctness is C12's and enters via `tagOK`.
  * The `Write` target never fails in the model (`io::Error` of the underlying writer is not modelled).
-/
import Bcder.Model.Encode
import Bcder.Spec.Encode
import Bcder.Props.C12
import Bcder.Props.C13
namespace Bcder.Props.C06
open Bcder Bcder.Spec

/-- the length a writer result announces: the number of octets on success, the same error otherwise -/
def lenR : Res Bytes → Res Nat
  | .ok bs => .ok bs.length
  | .error e => .error e

@[simp] theorem lenR_ok (bs : Bytes) : lenR (.ok bs) = .ok bs.length := rfl
@[simp] theorem lenR_error (e : Err) : lenR (.error e) = .error e := rfl

theorem tag_write_len (t : Tag) (c : Bool) : (t.write c).length = t.encodedLen := by
  simp only [Tag.write, Tag.encodedLen]
  split <;> (try split) <;> (try split) <;> simp

theorem length_write_len (n : Nat) :
    lenR (Length.definite n).write = (Length.definite n).encodedLen := by
  unfold Length.write Length.encodedLen
  split <;> (try split) <;> (try split) <;> (try split) <;> (try split) <;> (try split) <;> rfl

def PC.intOK : PC → Bool
  | .int ty v => encIntLen ty v == (encInt ty v).length
  | _ => true

theorem pc_write_len (pc : PC) (h : PC.intOK pc = true) : pc.write.length = pc.encodedLen := by
  cases pc with
  | int ty v => simp only [PC.intOK, beq_iff_eq] at h; exact h.symm
  | bool b => cases b <;> rfl
  | null => rfl
  | octets bs => rfl
  | integer c => rfl
  | oid c => rfl
  | bits u bs => rfl

mutual
def IntsOK : Enc → Bool
  | .prim _ pc => PC.intOK pc
  | .cons _ inner => IntsOK inner
  | .seq _ es => IntsOKList es
  | .optSome e => IntsOK e
  | .choice _ _ e => IntsOK e
  | .wrapped _ inner => IntsOK inner
  | _ => true
def IntsOKList : List Enc → Bool
  | [] => true
  | e :: es => IntsOK e && IntsOKList es
end

theorem foldl_len (l : List Bytes) (acc : Nat) :
    l.foldl (fun a x => a + x.length) acc = acc + l.flatten.length := by
  induction l generalizing acc with
  | nil => simp
  | cons x xs ih => simp [List.foldl, ih]; omega

theorem os_len (os : OS) : os.len = (os.segments).map (fun s => s.flatten.length) := by
  cases os with
  | prim b =>
    cases b <;> simp [OS.len, OS.segments, pure, Except.pure, Except.map]
  | cons c =>
    simp only [OS.len, bind, Except.bind, pure, Except.pure, Except.map]
    cases OS.segments (OS.cons c) with
    | error e => rfl
    | ok s => simp [foldl_len]


theorem lenOfLen_eq (n : Nat) : lenOfLen n = lenR (Length.definite n).write := by
  rw [length_write_len]; rfl

/-- a primitive-style TLV: identifier, definite length, `n` content octets -/
theorem tlv_len (tag : Tag) (c : Bool) (content : Bytes) (n : Nat) (h : content.length = n) :
    lenR (do let l ← (Length.definite n).write; pure (tag.write c ++ l ++ content) : Res Bytes)
      = (do let ll ← lenOfLen n; pure (tag.encodedLen + ll + n) : Res Nat) := by
  rw [lenOfLen_eq]
  cases (Length.definite n).write with
  | error e => rfl
  | ok l => simp [bind, Except.bind, pure, Except.pure, tag_write_len, h]; omega

theorem wrapped_len (own : Mode) (inner : Enc) (ih : lenR (inner.write own) = inner.encodedLen own) :
    lenR (do let h ← writeHeader Tag.OCTET_STRING false (← inner.encodedLen own)
             pure (h ++ (← inner.write own)) : Res Bytes)
      = (do totalEncodedLen Tag.OCTET_STRING (← inner.encodedLen own) : Res Nat) := by
  rw [← ih]
  cases inner.write own with
  | error e => rfl
  | ok b =>
    simp only [lenR_ok, bind, Except.bind, pure, Except.pure, writeHeader, totalEncodedLen]
    rw [← length_write_len]
    cases (Length.definite b.length).write with
    | error e => rfl
    | ok l => simp [tag_write_len]; omega

theorem bits_len (tag : Tag) (u : UInt8) (bs : Bytes) :
    lenR (do pure (tag.write false ++ (← (Length.definite (bs.length + 1)).write) ++ [u] ++ bs) : Res Bytes)
      = (do pure (tag.encodedLen + (← lenOfLen (bs.length + 1)) + (bs.length + 1)) : Res Nat) := by
  rw [lenOfLen_eq]
  cases (Length.definite (bs.length + 1)).write with
  | error e => rfl
  | ok l => simp [bind, Except.bind, pure, Except.pure, tag_write_len]; omega

mutual
theorem write_len : ∀ (e : Enc) (mode : Mode), IntsOK e = true →
    lenR (e.write mode) = e.encodedLen mode
  | .prim tag pc, mode, h => by
    simp only [IntsOK] at h
    simp only [Enc.write, Enc.encodedLen]
    exact tlv_len tag false pc.write pc.encodedLen (pc_write_len pc h)
  | .cons tag inner, mode, h => by
    simp only [IntsOK] at h
    have ih := write_len inner mode h
    cases mode <;> simp only [Enc.write, Enc.encodedLen] <;> rw [← ih] <;>
      cases inner.write _ with
      | error e => rfl
      | ok b =>
        simp only [lenR_ok, bind, Except.bind, pure, Except.pure, lenOfLen_eq]
        first
          | (cases (Length.definite b.length).write with
              | error e => rfl
              | ok l => simp [tag_write_len]; omega)
          | (simp [tag_write_len])
  | .seq _ es, mode, h => by
    simp only [IntsOK] at h
    simp only [Enc.write, Enc.encodedLen]
    exact writeList_len es mode h
  | .optNone, mode, h => rfl
  | .optSome e, mode, h => by
    simp only [IntsOK] at h
    simp only [Enc.write, Enc.encodedLen]; exact write_len e mode h
  | .choice _ _ e, mode, h => by
    simp only [IntsOK] at h
    simp only [Enc.write, Enc.encodedLen]; exact write_len e mode h
  | .nothing, mode, h => rfl
  | .captured bytes own, mode, h => by
    simp only [Enc.write, Enc.encodedLen]
    cases capturedGuard own mode <;> rfl
  | .octetString tag os, mode, h => by
    cases mode with
    | ber =>
      cases os with
      | prim b => simp only [Enc.write, Enc.encodedLen]; exact tlv_len tag false b b.length rfl
      | cons c => simp only [Enc.write, Enc.encodedLen]; exact tlv_len tag true c c.length rfl
    | cer => rfl
    | der =>
      simp only [Enc.write, Enc.encodedLen, os_len]
      cases os.segments with
      | error e => rfl
      | ok s => exact tlv_len tag false s.flatten s.flatten.length rfl
  | .octetSlice tag bs, mode, h => by
    cases mode with
    | cer => rfl
    | ber => exact tlv_len tag false bs bs.length rfl
    | der => exact tlv_len tag false bs bs.length rfl
  | .wrapped own inner, mode, h => by
    simp only [IntsOK] at h
    have ih := write_len inner own h
    cases mode with
    | cer => rfl
    | ber => exact wrapped_len own inner ih
    | der => exact wrapped_len own inner ih
  | .bitSlice tag u bs, mode, h => by
    cases mode with
    | cer => rfl
    | ber => exact bits_len tag u bs
    | der => exact bits_len tag u bs
theorem writeList_len : ∀ (es : List Enc) (mode : Mode), IntsOKList es = true →
    lenR (Enc.writeList mode es) = Enc.encodedLenList mode es
  | [], mode, h => rfl
  | e :: es, mode, h => by
    simp only [IntsOKList, Bool.and_eq_true] at h
    have ih1 := write_len e mode h.1
    have ih2 := writeList_len es mode h.2
    simp only [Enc.writeList, Enc.encodedLenList]
    rw [← ih1, ← ih2]
    cases e.write mode with
    | error e => rfl
    | ok b =>
      cases Enc.writeList mode es with
      | error e => rfl
      | ok bs => simp [bind, Except.bind, pure, Except.pure]
end


/-! ### structure -/

def excessive : Err := .panic "excessive length"

theorem length_write_spec (n : Nat) :
    (Length.definite n).write = if n < 2 ^ 32 then .ok (lenOctets n) else .error excessive := by
  by_cases h : n < 2 ^ 32
  · rw [if_pos h, C13.write_eq_spec n h]
  · rw [if_neg h]
    have h' : ¬ n < 4294967296 := by simpa using h
    unfold Length.write
    have h1 : ¬ n < 0x80 := by omega
    have h2 : ¬ n < 0x100 := by omega
    have h3 : ¬ n < 0x10000 := by omega
    have h4 : ¬ n < 0x1000000 := by omega
    simp only [h1, h2, h3, h4, h', if_false]; rfl

/-- identifier octets, the minimal definite length octets of the content, the content;
    the writer refuses contents of 2^32 octets or more -/
def tlvR (tag : Tag) (constructed : Bool) (content : Bytes) : Res Bytes :=
  if content.length < 2 ^ 32 then .ok (tag.write constructed ++ lenOctets content.length ++ content)
  else .error excessive

theorem tlvR_eq (tag : Tag) (c : Bool) (content : Bytes) :
    (do let l ← (Length.definite content.length).write; pure (tag.write c ++ l ++ content) : Res Bytes)
      = tlvR tag c content := by
  rw [length_write_spec, tlvR]
  split <;> rfl

theorem write_prim (mode : Mode) (tag : Tag) (pc : PC) (h : PC.intOK pc = true) :
    (Enc.prim tag pc).write mode = tlvR tag false pc.write := by
  simp only [Enc.write]
  rw [← pc_write_len pc h]; exact tlvR_eq tag false pc.write

theorem write_cons_ber (tag : Tag) (inner : Enc) (h : IntsOK inner = true) :
    (Enc.cons tag inner).write .ber = inner.write .ber >>= tlvR tag true := by
  simp only [Enc.write]
  rw [← write_len inner .ber h]
  cases inner.write .ber with
  | error e => rfl
  | ok b => exact tlvR_eq tag true b

theorem write_cons_der (tag : Tag) (inner : Enc) (h : IntsOK inner = true) :
    (Enc.cons tag inner).write .der = inner.write .der >>= tlvR tag true := by
  simp only [Enc.write]
  rw [← write_len inner .der h]
  cases inner.write .der with
  | error e => rfl
  | ok b => exact tlvR_eq tag true b

theorem write_cons_cer (tag : Tag) (inner : Enc) :
    (Enc.cons tag inner).write .cer =
      inner.write .cer >>= fun body => pure (tag.write true ++ [0x80] ++ body ++ [0, 0]) := by
  simp only [Enc.write]

theorem write_seq (mode : Mode) (k : SeqKind) (es : List Enc) :
    (Enc.seq k es).write mode = List.flatten <$> es.mapM (Enc.write mode) := by
  simp only [Enc.write]
  induction es with
  | nil => rfl
  | cons e es ih =>
    simp only [Enc.writeList, List.mapM_cons, ih]
    cases e.write mode with
    | error e => rfl
    | ok b =>
      cases List.mapM (Enc.write mode) es with
      | error e => rfl
      | ok bs => rfl


theorem write_octetString_ber_prim (tag : Tag) (b : Bytes) :
    (Enc.octetString tag (.prim b)).write .ber = tlvR tag false b := by
  simp only [Enc.write]; exact tlvR_eq tag false b

theorem write_octetString_ber_cons (tag : Tag) (c : Bytes) :
    (Enc.octetString tag (.cons c)).write .ber = tlvR tag true c := by
  simp only [Enc.write]; exact tlvR_eq tag true c

theorem write_octetString_der (tag : Tag) (os : OS) :
    (Enc.octetString tag os).write .der = os.segments >>= fun s => tlvR tag false s.flatten := by
  simp only [Enc.write, os_len]
  cases os.segments with
  | error e => rfl
  | ok s => exact tlvR_eq tag false s.flatten

theorem write_octetSlice (mode : Mode) (hm : mode ≠ .cer) (tag : Tag) (bs : Bytes) :
    (Enc.octetSlice tag bs).write mode = tlvR tag false bs := by
  cases mode with
  | cer => exact absurd rfl hm
  | ber => exact tlvR_eq tag false bs
  | der => exact tlvR_eq tag false bs

theorem write_bitSlice (mode : Mode) (hm : mode ≠ .cer) (tag : Tag) (u : UInt8) (bs : Bytes) :
    (Enc.bitSlice tag u bs).write mode = tlvR tag false (u :: bs) := by
  have key : (do pure (tag.write false ++ (← (Length.definite (bs.length + 1)).write) ++ [u] ++ bs) : Res Bytes)
      = tlvR tag false (u :: bs) := by
    rw [← tlvR_eq]
    simp only [List.length_cons]
    cases (Length.definite (bs.length + 1)).write with
    | error e => rfl
    | ok l => simp [bind, Except.bind, pure, Except.pure]
  cases mode with
  | cer => exact absurd rfl hm
  | ber => exact key
  | der => exact key

theorem write_wrapped (mode : Mode) (hm : mode ≠ .cer) (own : Mode) (inner : Enc) (h : IntsOK inner = true) :
    (Enc.wrapped own inner).write mode = inner.write own >>= tlvR Tag.OCTET_STRING false := by
  have key : (do let h ← writeHeader Tag.OCTET_STRING false (← inner.encodedLen own)
                 pure (h ++ (← inner.write own)) : Res Bytes)
      = inner.write own >>= tlvR Tag.OCTET_STRING false := by
    rw [← write_len inner own h]
    cases inner.write own with
    | error e => rfl
    | ok b =>
      rw [show (Except.ok b >>= tlvR Tag.OCTET_STRING false) = tlvR Tag.OCTET_STRING false b from rfl,
        ← tlvR_eq]
      simp only [lenR_ok, bind, Except.bind, pure, Except.pure, writeHeader]
      cases (Length.definite b.length).write with
      | error e => rfl
      | ok l => rfl
  cases mode with
  | cer => exact absurd rfl hm
  | ber => exact key
  | der => exact key

theorem write_captured (mode own : Mode) (bytes : Bytes) :
    (Enc.captured bytes own).write mode =
      if own ≠ mode ∧ mode ≠ .ber then
        .error (.panic "Trying to encode a captured value with incompatible mode")
      else .ok bytes := by
  cases own <;> cases mode <;> rfl

theorem write_optNone (mode : Mode) : Enc.optNone.write mode = .ok [] := rfl
theorem write_nothing (mode : Mode) : Enc.nothing.write mode = .ok [] := rfl
theorem write_optSome (mode : Mode) (e : Enc) : (Enc.optSome e).write mode = e.write mode := by
  simp only [Enc.write]
theorem write_choice (mode : Mode) (a i : Nat) (e : Enc) : (Enc.choice a i e).write mode = e.write mode := by
  simp only [Enc.write]

/-- the documented caller misuse: string encoders are unimplemented in CER -/
theorem cer_unimplemented (e : Enc)
    (h : (∃ t os, e = .octetString t os) ∨ (∃ t bs, e = .octetSlice t bs) ∨
         (∃ m i, e = .wrapped m i) ∨ (∃ t u bs, e = .bitSlice t u bs)) :
    e.write .cer = .error (.panic "unimplemented") ∧ e.encodedLen .cer = .error (.panic "unimplemented") := by
  rcases h with ⟨t, os, rfl⟩ | ⟨t, bs, rfl⟩ | ⟨m, i, rfl⟩ | ⟨t, u, bs, rfl⟩ <;> exact ⟨rfl, rfl⟩


/-! ### relation to the reference encoder -/

/-- the tag's written identifier octets are the reference identifier octets of its class and number -/
def tagOK (t : Tag) : Bool := t.write false == tagIdent t false && t.write true == tagIdent t true

theorem tagOK_write (t : Tag) (h : tagOK t = true) (c : Bool) : t.write c = tagIdent t c := by
  simp only [tagOK, Bool.and_eq_true, beq_iff_eq] at h
  cases c
  · exact h.1
  · exact h.2

/-- every tag made by `Tag::new` from a class and a number up to 0x1FFFFF is such a tag -/
theorem tagOK_new (cls num : Nat) (hc : cls ≤ 3) (hn : num ≤ 0x1fffff) :
    tagOK (C12.tagOf cls num) = true := by
  have key : ∀ c, (C12.tagOf cls num).write c = tagIdent (C12.tagOf cls num) c := by
    intro c
    obtain ⟨t, ht, hw, _⟩ := C12.write_eq_spec cls num c hc hn
    obtain ⟨t', ht', hnum, hcls⟩ := C12.new_number_class cls num hc hn
    rw [ht] at ht'; cases ht'
    have e : C12.tagOf cls num = t := by simp [C12.tagOf, ht]
    rw [e, hw, tagIdent, hnum, hcls]
    have : cls * 64 / 64 = cls := by omega
    rw [this]
  simp only [tagOK, Bool.and_eq_true, beq_iff_eq]
  exact ⟨key false, key true⟩

def PC.specOK : PC → Bool
  | .int ty v => encInt ty v == minimalTC v
  | _ => true

theorem pc_write_spec (pc : PC) (h : PC.specOK pc = true) : pc.write = pcContent pc := by
  cases pc with
  | int ty v => simp only [PC.specOK, beq_iff_eq] at h; exact h
  | bool b => cases b <;> rfl
  | null => rfl
  | octets bs => rfl
  | integer c => rfl
  | oid c => rfl
  | bits u bs => rfl

mutual
/-- well-formed encoder tree: tags are proper tags, integer leaves are encoded minimally with the
    announced size -/
def WF : Enc → Bool
  | .prim tag pc => tagOK tag && PC.intOK pc && PC.specOK pc
  | .cons tag inner => tagOK tag && WF inner
  | .seq _ es => WFList es
  | .optSome e => WF e
  | .choice _ _ e => WF e
  | .wrapped _ inner => WF inner
  | .octetString tag _ => tagOK tag
  | .octetSlice tag _ => tagOK tag
  | .bitSlice tag _ _ => tagOK tag
  | .optNone => true
  | .nothing => true
  | .captured _ _ => true
def WFList : List Enc → Bool
  | [] => true
  | e :: es => WF e && WFList es
end

mutual
theorem WF_ints : ∀ (e : Enc), WF e = true → IntsOK e = true
  | .prim tag pc, h => by
    simp only [WF, Bool.and_eq_true] at h; simp only [IntsOK]; exact h.1.2
  | .cons tag inner, h => by
    simp only [WF, Bool.and_eq_true] at h; simp only [IntsOK]; exact WF_ints inner h.2
  | .seq _ es, h => by
    simp only [WF] at h; simp only [IntsOK]; exact WFList_ints es h
  | .optSome e, h => by simp only [WF] at h; simp only [IntsOK]; exact WF_ints e h
  | .choice _ _ e, h => by simp only [WF] at h; simp only [IntsOK]; exact WF_ints e h
  | .wrapped _ e, h => by simp only [WF] at h; simp only [IntsOK]; exact WF_ints e h
  | .octetString _ _, _ => rfl
  | .octetSlice _ _, _ => rfl
  | .bitSlice _ _ _, _ => rfl
  | .optNone, _ => rfl
  | .nothing, _ => rfl
  | .captured _ _, _ => rfl
theorem WFList_ints : ∀ (es : List Enc), WFList es = true → IntsOKList es = true
  | [], _ => rfl
  | e :: es, h => by
    simp only [WFList, Bool.and_eq_true] at h
    simp only [IntsOKList, Bool.and_eq_true]
    exact ⟨WF_ints e h.1, WFList_ints es h.2⟩
end

theorem tlvR_ok (tag : Tag) (c : Bool) (content bs : Bytes) (ht : tagOK tag = true)
    (h : tlvR tag c content = .ok bs) : bs = tlv tag c content := by
  unfold tlvR at h
  split at h
  · cases h; rw [tlv, tagOK_write tag ht]
  · cases h

theorem tlvR_of_small (tag : Tag) (c : Bool) (content : Bytes) (ht : tagOK tag = true)
    (h : (tlv tag c content).length < 2 ^ 32) : tlvR tag c content = .ok (tlv tag c content) := by
  have : content.length < 2 ^ 32 := by
    simp only [tlv, List.length_append] at h; omega
  rw [tlvR, if_pos this, tlv, tagOK_write tag ht]

theorem tlv_content_le (tag : Tag) (c : Bool) (content : Bytes) :
    content.length ≤ (tlv tag c content).length := by
  simp only [tlv, List.length_append]; omega


theorem os_octets (os : OS) : os.octets = os.segments.map List.flatten := by
  cases os with
  | prim b => cases b <;> simp [OS.octets, OS.segments, pure, Except.pure, Except.map]
  | cons c =>
    simp only [OS.octets, bind, Except.bind, pure, Except.pure, Except.map]

theorem tagOK_octetString : tagOK Tag.OCTET_STRING = true := by decide

mutual
theorem write_ok_spec : ∀ (e : Enc) (mode : Mode) (bs : Bytes), WF e = true →
    e.write mode = .ok bs → encode mode e = some bs
  | .prim tag pc, mode, bs, h, hw => by
    simp only [WF, Bool.and_eq_true] at h
    rw [write_prim mode tag pc h.1.2] at hw
    rw [tlvR_ok _ _ _ _ h.1.1 hw, pc_write_spec pc h.2]; simp only [encode]
  | .cons tag inner, mode, bs, h, hw => by
    have hwf := h
    simp only [WF, Bool.and_eq_true] at h
    have hi := WF_ints inner h.2
    cases mode with
    | ber =>
      rw [write_cons_ber tag inner hi] at hw
      cases hb : inner.write .ber with
      | error e => rw [hb] at hw; cases hw
      | ok body =>
        rw [hb] at hw
        have := tlvR_ok _ _ _ _ h.1 hw
        simp [encode, write_ok_spec inner .ber body h.2 hb, this]
    | der =>
      rw [write_cons_der tag inner hi] at hw
      cases hb : inner.write .der with
      | error e => rw [hb] at hw; cases hw
      | ok body =>
        rw [hb] at hw
        have := tlvR_ok _ _ _ _ h.1 hw
        simp [encode, write_ok_spec inner .der body h.2 hb, this]
    | cer =>
      rw [write_cons_cer tag inner] at hw
      cases hb : inner.write .cer with
      | error e => rw [hb] at hw; cases hw
      | ok body =>
        rw [hb] at hw
        cases hw
        simp [encode, write_ok_spec inner .cer body h.2 hb, tagOK_write tag h.1]
  | .seq _ es, mode, bs, h, hw => by
    simp only [WF] at h
    simp only [Enc.write] at hw
    simp only [encode]; exact writeList_ok_spec es mode bs h hw
  | .optNone, mode, bs, h, hw => by cases hw; simp only [encode]
  | .optSome e, mode, bs, h, hw => by
    simp only [WF] at h; simp only [Enc.write] at hw
    simp only [encode]; exact write_ok_spec e mode bs h hw
  | .choice _ _ e, mode, bs, h, hw => by
    simp only [WF] at h; simp only [Enc.write] at hw
    simp only [encode]; exact write_ok_spec e mode bs h hw
  | .nothing, mode, bs, h, hw => by cases hw; simp only [encode]
  | .captured bytes own, mode, bs, h, hw => by
    cases own <;> cases mode <;> first | cases hw; rfl | cases hw
  | .octetString tag os, mode, bs, h, hw => by
    simp only [WF] at h
    cases mode with
    | cer => cases hw
    | ber =>
      cases os with
      | prim b =>
        rw [write_octetString_ber_prim] at hw
        rw [tlvR_ok _ _ _ _ h hw]; simp only [encode]
      | cons c =>
        rw [write_octetString_ber_cons] at hw
        rw [tlvR_ok _ _ _ _ h hw]; simp only [encode]
    | der =>
      rw [write_octetString_der] at hw
      simp only [encode, os_octets]
      cases hs : os.segments with
      | error e => rw [hs] at hw; cases hw
      | ok s =>
        rw [hs] at hw
        rw [tlvR_ok _ _ _ _ h hw]; rfl
  | .octetSlice tag b, mode, bs, h, hw => by
    simp only [WF] at h
    cases mode with
    | cer => cases hw
    | ber => rw [write_octetSlice .ber (by decide)] at hw; rw [tlvR_ok _ _ _ _ h hw]; rfl
    | der => rw [write_octetSlice .der (by decide)] at hw; rw [tlvR_ok _ _ _ _ h hw]; rfl
  | .bitSlice tag u b, mode, bs, h, hw => by
    simp only [WF] at h
    cases mode with
    | cer => cases hw
    | ber => rw [write_bitSlice .ber (by decide)] at hw; rw [tlvR_ok _ _ _ _ h hw]; rfl
    | der => rw [write_bitSlice .der (by decide)] at hw; rw [tlvR_ok _ _ _ _ h hw]; rfl
  | .wrapped own inner, mode, bs, h, hw => by
    simp only [WF] at h
    have hi := WF_ints inner h
    have key : ∀ m, m ≠ Mode.cer → (Enc.wrapped own inner).write m = .ok bs →
        (encode own inner).map (tlv Tag.OCTET_STRING false) = some bs := by
      intro m hm hw
      rw [write_wrapped m hm own inner hi] at hw
      cases hb : inner.write own with
      | error e => rw [hb] at hw; cases hw
      | ok body =>
        rw [hb] at hw
        rw [write_ok_spec inner own body h hb, tlvR_ok _ _ _ _ tagOK_octetString hw]; rfl
    cases mode with
    | cer => cases hw
    | ber => simpa [encode] using key .ber (by decide) hw
    | der => simpa [encode] using key .der (by decide) hw
theorem writeList_ok_spec : ∀ (es : List Enc) (mode : Mode) (bs : Bytes), WFList es = true →
    Enc.writeList mode es = .ok bs → encodeList mode es = some bs
  | [], mode, bs, h, hw => by cases hw; simp only [encodeList]
  | e :: es, mode, bs, h, hw => by
    simp only [WFList, Bool.and_eq_true] at h
    simp only [Enc.writeList] at hw
    cases ha : e.write mode with
    | error err => rw [ha] at hw; cases hw
    | ok a =>
      cases hb : Enc.writeList mode es with
      | error err => rw [ha, hb] at hw; cases hw
      | ok b =>
        rw [ha, hb] at hw; cases hw
        simp only [encodeList, write_ok_spec e mode a h.1 ha, writeList_ok_spec es mode b h.2 hb]
end


mutual
theorem spec_some_write : ∀ (e : Enc) (mode : Mode) (bs : Bytes), WF e = true →
    encode mode e = some bs → bs.length < 2 ^ 32 → e.write mode = .ok bs
  | .prim tag pc, mode, bs, h, hs, hl => by
    simp only [WF, Bool.and_eq_true] at h
    simp only [encode, Option.some.injEq] at hs
    subst hs
    rw [write_prim mode tag pc h.1.2, pc_write_spec pc h.2]
    exact tlvR_of_small _ _ _ h.1.1 hl
  | .cons tag inner, mode, bs, h, hs, hl => by
    simp only [WF, Bool.and_eq_true] at h
    have hi := WF_ints inner h.2
    simp only [encode] at hs
    cases hb : encode mode inner with
    | none => rw [hb] at hs; cases hs
    | some body =>
      rw [hb] at hs
      cases mode with
      | ber =>
        have hs : some (tlv tag true body) = some bs := hs
        simp only [Option.some.injEq] at hs
        subst hs
        have := tlv_content_le tag true body
        rw [write_cons_ber tag inner hi, spec_some_write inner .ber body h.2 hb (by omega)]
        exact tlvR_of_small _ _ _ h.1 hl
      | der =>
        have hs : some (tlv tag true body) = some bs := hs
        simp only [Option.some.injEq] at hs
        subst hs
        have := tlv_content_le tag true body
        rw [write_cons_der tag inner hi, spec_some_write inner .der body h.2 hb (by omega)]
        exact tlvR_of_small _ _ _ h.1 hl
      | cer =>
        have hs : some (tagIdent tag true ++ [0x80] ++ body ++ [0, 0]) = some bs := hs
        simp only [Option.some.injEq] at hs
        subst hs
        have : body.length < 2 ^ 32 := by
          simp only [List.length_append] at hl; omega
        rw [write_cons_cer tag inner, spec_some_write inner .cer body h.2 hb this, tagOK_write tag h.1]
        rfl
  | .seq _ es, mode, bs, h, hs, hl => by
    simp only [WF] at h
    simp only [encode] at hs
    simp only [Enc.write]; exact spec_some_writeList es mode bs h hs hl
  | .optNone, mode, bs, h, hs, hl => by simp only [encode, Option.some.injEq] at hs; subst hs; rfl
  | .optSome e, mode, bs, h, hs, hl => by
    simp only [WF] at h; simp only [encode] at hs
    simp only [Enc.write]; exact spec_some_write e mode bs h hs hl
  | .choice _ _ e, mode, bs, h, hs, hl => by
    simp only [WF] at h; simp only [encode] at hs
    simp only [Enc.write]; exact spec_some_write e mode bs h hs hl
  | .nothing, mode, bs, h, hs, hl => by simp only [encode, Option.some.injEq] at hs; subst hs; rfl
  | .captured bytes own, mode, bs, h, hs, hl => by
    cases own <;> cases mode <;> first | (cases hs; rfl) | cases hs
  | .octetString tag os, mode, bs, h, hs, hl => by
    simp only [WF] at h
    cases mode with
    | cer => cases hs
    | ber =>
      cases os with
      | prim b =>
        simp only [encode, Option.some.injEq] at hs; subst hs
        rw [write_octetString_ber_prim]; exact tlvR_of_small _ _ _ h hl
      | cons c =>
        simp only [encode, Option.some.injEq] at hs; subst hs
        rw [write_octetString_ber_cons]; exact tlvR_of_small _ _ _ h hl
    | der =>
      simp only [encode, os_octets] at hs
      rw [write_octetString_der]
      cases hseg : os.segments with
      | error e => rw [hseg] at hs; cases hs
      | ok s =>
        rw [hseg] at hs
        have hs : some (tlv tag false s.flatten) = some bs := hs
        simp only [Option.some.injEq] at hs; subst hs
        exact tlvR_of_small _ _ _ h hl
  | .octetSlice tag b, mode, bs, h, hs, hl => by
    simp only [WF] at h
    cases mode with
    | cer => cases hs
    | ber =>
      have hs : some (tlv tag false b) = some bs := hs
      simp only [Option.some.injEq] at hs; subst hs
      rw [write_octetSlice .ber (by decide)]; exact tlvR_of_small _ _ _ h hl
    | der =>
      have hs : some (tlv tag false b) = some bs := hs
      simp only [Option.some.injEq] at hs; subst hs
      rw [write_octetSlice .der (by decide)]; exact tlvR_of_small _ _ _ h hl
  | .bitSlice tag u b, mode, bs, h, hs, hl => by
    simp only [WF] at h
    cases mode with
    | cer => cases hs
    | ber =>
      have hs : some (tlv tag false (u :: b)) = some bs := hs
      simp only [Option.some.injEq] at hs; subst hs
      rw [write_bitSlice .ber (by decide)]; exact tlvR_of_small _ _ _ h hl
    | der =>
      have hs : some (tlv tag false (u :: b)) = some bs := hs
      simp only [Option.some.injEq] at hs; subst hs
      rw [write_bitSlice .der (by decide)]; exact tlvR_of_small _ _ _ h hl
  | .wrapped own inner, mode, bs, h, hs, hl => by
    simp only [WF] at h
    have hi := WF_ints inner h
    have key : ∀ m, m ≠ Mode.cer → (encode own inner).map (tlv Tag.OCTET_STRING false) = some bs →
        (Enc.wrapped own inner).write m = .ok bs := by
      intro m hm hs
      cases hb : encode own inner with
      | none => rw [hb] at hs; cases hs
      | some body =>
        rw [hb] at hs
        simp only [Option.map_some, Option.some.injEq] at hs; subst hs
        have := tlv_content_le Tag.OCTET_STRING false body
        rw [write_wrapped m hm own inner hi, spec_some_write inner own body h hb (by omega)]
        exact tlvR_of_small _ _ _ tagOK_octetString hl
    cases mode with
    | cer => cases hs
    | ber => exact key .ber (by decide) (by simpa [encode] using hs)
    | der => exact key .der (by decide) (by simpa [encode] using hs)
theorem spec_some_writeList : ∀ (es : List Enc) (mode : Mode) (bs : Bytes), WFList es = true →
    encodeList mode es = some bs → bs.length < 2 ^ 32 → Enc.writeList mode es = .ok bs
  | [], mode, bs, h, hs, hl => by simp only [encodeList, Option.some.injEq] at hs; subst hs; rfl
  | e :: es, mode, bs, h, hs, hl => by
    simp only [WFList, Bool.and_eq_true] at h
    simp only [encodeList] at hs
    cases ha : encode mode e with
    | none => rw [ha] at hs; cases hs
    | some a =>
      cases hb : encodeList mode es with
      | none => rw [ha, hb] at hs; cases hs
      | some b =>
        rw [ha, hb] at hs
        simp only [Option.some.injEq] at hs; subst hs
        simp only [List.length_append] at hl
        simp only [Enc.writeList, spec_some_write e mode a h.1 ha (by omega),
          spec_some_writeList es mode b h.2 hb (by omega)]
        rfl
end


/-! ### the property in the requested forms -/

theorem lenR_eq_ok (r : Res Bytes) (n : Nat) : lenR r = .ok n ↔ ∃ bs, r = .ok bs ∧ bs.length = n := by
  cases r with
  | error e => simp [lenR]
  | ok bs => simp [lenR]

theorem lenR_eq_error (r : Res Bytes) (err : Err) : lenR r = .error err ↔ r = .error err := by
  cases r with
  | error e => simp [lenR]
  | ok bs => simp [lenR]

/-- C06 — if a length is announced, exactly that many octets are written -/
theorem len_eq_write (mode : Mode) (e : Enc) (h : IntsOK e = true) :
    ∀ n, e.encodedLen mode = .ok n → ∃ bs, e.write mode = .ok bs ∧ bs.length = n := by
  intro n hn
  rw [← write_len e mode h] at hn
  exact (lenR_eq_ok _ _).mp hn

/-- C06 — if octets are written, their number is the announced length -/
theorem write_eq_len (mode : Mode) (e : Enc) (h : IntsOK e = true) (bs : Bytes)
    (hw : e.write mode = .ok bs) : e.encodedLen mode = .ok bs.length := by
  rw [← write_len e mode h, hw]; rfl

/-- C06 — the two methods fail together, with the same panic -/
theorem fail_iff (mode : Mode) (e : Enc) (h : IntsOK e = true) (err : Err) :
    e.encodedLen mode = .error err ↔ e.write mode = .error err := by
  rw [← write_len e mode h]; exact lenR_eq_error _ _

theorem lenList_eq_write (mode : Mode) (es : List Enc) (h : IntsOKList es = true) :
    ∀ n, Enc.encodedLenList mode es = .ok n → ∃ bs, Enc.writeList mode es = .ok bs ∧ bs.length = n := by
  intro n hn
  rw [← writeList_len es mode h] at hn
  exact (lenR_eq_ok _ _).mp hn

theorem writeList_eq_len (mode : Mode) (es : List Enc) (h : IntsOKList es = true) (bs : Bytes)
    (hw : Enc.writeList mode es = .ok bs) : Enc.encodedLenList mode es = .ok bs.length := by
  rw [← writeList_len es mode h, hw]; rfl

theorem failList_iff (mode : Mode) (es : List Enc) (h : IntsOKList es = true) (err : Err) :
    Enc.encodedLenList mode es = .error err ↔ Enc.writeList mode es = .error err := by
  rw [← writeList_len es mode h]; exact lenR_eq_error _ _

/-! ### the integer hypothesis, outright for the one-octet types -/

theorem intOK_u8 (v : Int) : PC.intOK (.int .u8 v) = true := by
  simp only [PC.intOK, encIntLen, encInt, encU8Len, encU8, beq_iff_eq]
  split <;> rfl

theorem intOK_i8 (v : Int) : PC.intOK (.int .i8 v) = true := by
  simp only [PC.intOK, encIntLen, encInt, encI8, beq_iff_eq]; rfl

/-! ### the fixed-width integer encoders announce what they write (values in range) -/

theorem toBE_succ (w v : Nat) : toBE (w + 1) v = toBE w (v / 256) ++ [UInt8.ofNat (v % 256)] := rfl

theorem toBE_zero (w : Nat) : ∀ a ∈ toBE w 0, (a == 0) = true := by
  induction w with
  | zero => intro a h; cases h
  | succ w ih =>
    intro a h
    rw [toBE_succ] at h
    simp only [Nat.zero_div, Nat.zero_mod, List.mem_append, List.mem_singleton] at h
    rcases h with h | h
    · exact ih a h
    · subst h; rfl

/-- the significant octets of the `w`-octet big-endian form of `v`, where `256^d ≤ v < 256^(d+1)`:
    `d + 1` octets, the first being `v / 256^d` -/
theorem dropWhile_toBE (w : Nat) : ∀ (v d : Nat), v < 256 ^ w → 256 ^ d ≤ v → v < 256 ^ (d + 1) →
    ∃ b rest, (toBE w v).dropWhile (· == 0) = b :: rest ∧ rest.length = d ∧ b.toNat = v / 256 ^ d := by
  induction w with
  | zero => intro v d h1 h2 h3; have : 0 < 256 ^ d := Nat.pow_pos (by decide); simp at h1; omega
  | succ w ih =>
    intro v d h1 h2 h3
    rw [toBE_succ]
    cases d with
    | zero =>
      simp at h2 h3
      have hz : v / 256 = 0 := by omega
      rw [hz, List.dropWhile_append_of_pos (toBE_zero w)]
      refine ⟨UInt8.ofNat (v % 256), [], ?_, rfl, ?_⟩
      · rw [List.dropWhile_cons_of_neg]
        rw [byte_beq_iff, toNat_ofNat]; simp; omega
      · rw [toNat_ofNat]; simp; omega
    | succ d =>
      have p1 : v / 256 < 256 ^ w := by
        rw [Nat.div_lt_iff_lt_mul (by decide)]; rw [Nat.pow_succ] at h1; exact h1
      have p2 : 256 ^ d ≤ v / 256 := by
        rw [Nat.le_div_iff_mul_le (by decide)]; rw [Nat.pow_succ] at h2; exact h2
      have p3 : v / 256 < 256 ^ (d + 1) := by
        rw [Nat.div_lt_iff_lt_mul (by decide)]; rw [Nat.pow_succ] at h3; exact h3
      obtain ⟨b, rest, e1, e2, e3⟩ := ih (v / 256) d p1 p2 p3
      refine ⟨b, rest ++ [UInt8.ofNat (v % 256)], ?_, ?_, ?_⟩
      · rw [List.dropWhile_append, e1]; rfl
      · simp [e2]
      · rw [e3, Nat.div_div_eq_div_mul, Nat.pow_succ, Nat.mul_comm]


theorem pow256 (d : Nat) : 256 ^ d = 2 ^ (8 * d) := by
  rw [Nat.pow_mul]

theorem log2_digits (v : Nat) (hv : v ≠ 0) :
    256 ^ (v.log2 / 8) ≤ v ∧ v < 256 ^ (v.log2 / 8 + 1) ∧
      (128 ≤ v / 256 ^ (v.log2 / 8) ↔ v.log2 % 8 = 7) := by
  have a1 : 2 ^ v.log2 ≤ v := (Nat.le_log2 hv).mp (Nat.le_refl _)
  have a2 : v < 2 ^ (v.log2 + 1) := (Nat.log2_lt hv).mp (Nat.lt_succ_self _)
  rw [pow256, pow256]
  refine ⟨?_, ?_, ?_⟩
  · exact Nat.le_trans (Nat.pow_le_pow_right (by decide) (by omega)) a1
  · exact Nat.lt_of_lt_of_le a2 (Nat.pow_le_pow_right (by decide) (by omega))
  · rw [Nat.le_div_iff_mul_le (Nat.pow_pos (by decide))]
    have : 128 * 2 ^ (8 * (v.log2 / 8)) = 2 ^ (8 * (v.log2 / 8) + 7) := by
      rw [Nat.pow_add, Nat.mul_comm]
    rw [this, ← Nat.le_log2 hv]
    omega

/-- `unsigned_content!` for a `w`-octet type, every value of the type -/
theorem encUnsigned_len (w v : Nat) (h : v < 256 ^ w) :
    encUnsignedLen w v = (encUnsigned w v).length := by
  unfold encUnsignedLen encUnsigned
  by_cases h0 : v = 0
  · simp [h0]
  · have hb : (v == 0) = false := by simp [h0]
    simp only [hb, Bool.false_eq_true, if_false]
    obtain ⟨l1, l2, l3⟩ := log2_digits v h0
    obtain ⟨b, rest, e1, e2, e3⟩ := dropWhile_toBE w v (v.log2 / 8) h l1 l2
    rw [e1]
    simp only [byte_and80_ne0, e3, leadingZeros, hb, Bool.false_eq_true, if_false,
      Nat.shiftRight_eq_div_pow]
    have hw : v.log2 + 1 ≤ 8 * w := by
      have : v.log2 < 8 * w := by rw [Nat.log2_lt h0, ← pow256]; exact h
      omega
    by_cases h7 : v.log2 % 8 = 7
    · have c : 128 ≤ v / 256 ^ (v.log2 / 8) := l3.mpr h7
      have z : (8 * w - (v.log2 + 1)) % 8 = 0 := by omega
      simp [c, z, e2]; omega
    · have c : ¬ 128 ≤ v / 256 ^ (v.log2 / 8) := fun x => h7 (l3.mp x)
      have z : ¬ (8 * w - (v.log2 + 1)) % 8 = 0 := by omega
      simp [c, z, e2]; omega


/-- the common size formula of `signed_content!` for the magnitude `m` (`v` itself, or `-v-1`) -/
theorem signedLen_core (w m : Nat) (h0 : m ≠ 0) (h : m < 2 ^ (8 * w - 1)) :
    (if leadingZeros w m &&& 7 == 0 then w + 1 - (leadingZeros w m >>> 3) else w - (leadingZeros w m >>> 3))
      = m.log2 / 8 + 1 + (if m.log2 % 8 = 7 then 1 else 0) := by
  have hb : (m == 0) = false := by simp [h0]
  have hw : m.log2 + 2 ≤ 8 * w := by
    have : m.log2 < 8 * w - 1 := by rw [Nat.log2_lt h0]; exact h
    omega
  have h7 : ∀ z : Nat, z &&& 7 = z % 8 := fun z => Nat.and_two_pow_sub_one_eq_mod z 3
  simp only [leadingZeros, hb, Bool.false_eq_true, if_false, Nat.shiftRight_eq_div_pow, h7]
  by_cases c : m.log2 % 8 = 7
  · have z : (8 * w - (m.log2 + 1)) % 8 = 0 := by omega
    simp [c, z]; omega
  · have z : ¬ (8 * w - (m.log2 + 1)) % 8 = 0 := by omega
    simp [c, z]; omega

/-- one's complement of an octet -/
def cpl (x : UInt8) : UInt8 := UInt8.ofNat (255 - x.toNat)

theorem cpl_toNat (x : UInt8) : (cpl x).toNat = 255 - x.toNat := by
  have := byte_lt_256 x
  rw [cpl, toNat_ofNat]; omega

theorem toBE_cpl (w : Nat) : ∀ m, m < 256 ^ w → toBE w (256 ^ w - 1 - m) = (toBE w m).map cpl := by
  induction w with
  | zero => intro m h; rfl
  | succ w ih =>
    intro m h
    rw [Nat.pow_succ] at h
    have hq : m / 256 < 256 ^ w := by rw [Nat.div_lt_iff_lt_mul (by decide)]; exact h
    have e1 : (256 ^ (w + 1) - 1 - m) / 256 = 256 ^ w - 1 - m / 256 := by
      rw [Nat.pow_succ]; omega
    have e2 : (256 ^ (w + 1) - 1 - m) % 256 = 255 - m % 256 := by
      rw [Nat.pow_succ]; omega
    rw [toBE_succ, toBE_succ, e1, e2, ih _ hq, List.map_append]
    congr 1
    simp only [List.map_cons, List.map_nil, cpl, toNat_ofNat]
    have : m % 256 % 256 = m % 256 := by omega
    rw [this]

theorem cpl_ff : ((· == (0xFF : UInt8)) ∘ cpl) = (· == (0 : UInt8)) := by
  funext x
  have := byte_lt_256 x
  simp only [Function.comp, byte_beq_iff, cpl_toNat]
  have a : (0xFF : UInt8).toNat = 255 := rfl
  have b : (0 : UInt8).toNat = 0 := rfl
  rw [a, b]
  by_cases hx : x.toNat = 0
  · simp [hx]
  · have : ¬ 255 - x.toNat = 255 := by omega
    simp [hx, this]


theorem int_pow_cast (k : Nat) : (2 : Int) ^ k = ((2 ^ k : Nat) : Int) := by
  rw [Int.natCast_pow]; rfl

/-- `signed_content!` for a `w`-octet type, every value of the type -/
theorem encSigned_len (w : Nat) (v : Int) (hw : 1 ≤ w)
    (hlo : -(2 : Int) ^ (8 * w - 1) ≤ v) (hhi : v < (2 : Int) ^ (8 * w - 1)) :
    encSignedLen w v = (encSigned w v).length := by
  have hN : (2 : Int) ^ (8 * w) = ((256 ^ w : Nat) : Int) := by rw [int_pow_cast, pow256]
  have hNP : 256 ^ w = 2 * 2 ^ (8 * w - 1) := by
    rw [pow256, show 8 * w = (8 * w - 1) + 1 by omega, Nat.pow_succ, Nat.mul_comm]; simp
  rw [int_pow_cast] at hlo hhi
  unfold encSignedLen encSigned
  by_cases h0 : v = 0
  · subst h0; rfl
  · by_cases h1 : v = -1
    · subst h1; rfl
    · have c0 : (v == 0) = false := by simp [h0]
      have c1 : (v == -1) = false := by simp [h1]
      simp only [c0, c1, Bool.or_self, Bool.false_eq_true, if_false]
      rw [hN]
      by_cases hneg : v < 0
      · simp only [hneg, if_true]
        have m0 : (-v - 1).toNat ≠ 0 := by omega
        have mlt : (-v - 1).toNat < 2 ^ (8 * w - 1) := by omega
        have mltN : (-v - 1).toNat < 256 ^ w := by omega
        have hmod : (v % ((256 ^ w : Nat) : Int)).toNat = 256 ^ w - 1 - (-v - 1).toNat := by
          have : v % ((256 ^ w : Nat) : Int) = v + ((256 ^ w : Nat) : Int) := by
            rw [← Int.add_emod_right v, Int.emod_eq_of_lt (by omega) (by omega)]
          rw [this]; omega
        rw [signedLen_core w _ m0 mlt, hmod, toBE_cpl w _ mltN, List.dropWhile_map, cpl_ff]
        clear hmod
        generalize (-v - 1).toNat = m at *
        obtain ⟨l1, l2, l3⟩ := log2_digits _ m0
        obtain ⟨b, rest, e1, e2, e3⟩ := dropWhile_toBE w _ _ mltN l1 l2
        rw [e1]
        simp only [List.map_cons, byte_and80_ne80, cpl_toNat]
        have hb := byte_lt_256 b
        by_cases h7 : m.log2 % 8 = 7
        · have c : 128 ≤ b.toNat := by rw [e3]; exact l3.mpr h7
          have c' : 255 - b.toNat < 128 := by omega
          simp [c', h7, e2]
        · have c : ¬ 128 ≤ b.toNat := by rw [e3]; exact fun x => h7 (l3.mp x)
          have c' : ¬ 255 - b.toNat < 128 := by omega
          simp [c', h7, e2]
      · simp only [hneg, if_false]
        have m0 : v.toNat ≠ 0 := by omega
        have mlt : v.toNat < 2 ^ (8 * w - 1) := by omega
        have mltN : v.toNat < 256 ^ w := by omega
        have hmod : (v % ((256 ^ w : Nat) : Int)).toNat = v.toNat := by
          rw [Int.emod_eq_of_lt (by omega) (by omega)]
        rw [signedLen_core w _ m0 mlt, hmod]
        obtain ⟨l1, l2, l3⟩ := log2_digits _ m0
        obtain ⟨b, rest, e1, e2, e3⟩ := dropWhile_toBE w _ _ mltN l1 l2
        rw [e1]
        simp only [byte_and80_eq80]
        by_cases h7 : v.toNat.log2 % 8 = 7
        · have c : 128 ≤ b.toNat := by rw [e3]; exact l3.mpr h7
          simp [c, h7, e2]
        · have c : ¬ 128 ≤ b.toNat := by rw [e3]; exact fun x => h7 (l3.mp x)
          simp [c, h7, e2]


/-- the integer leaf holds a value of its Rust type -/
def PC.inRange : PC → Bool
  | .int ty v => Spec.inRange ty.signed ty.width v
  | _ => true

/-- C06 (integer leaves) — for every builtin integer type and every value of the type, the
    announced content size is the number of content octets written -/
theorem intOK_of_inRange (pc : PC) (h : PC.inRange pc = true) : PC.intOK pc = true := by
  cases pc with
  | int ty v =>
    simp only [PC.inRange] at h
    have hu : ∀ w, 1 ≤ w → inRange false w v = true → encUnsignedLen w v.toNat = (encUnsigned w v.toNat).length := by
      intro w hw hr
      simp only [inRange, Bool.false_eq_true, if_false, Bool.and_eq_true, decide_eq_true_eq] at hr
      apply encUnsigned_len
      have : (2 : Int) ^ (8 * w) = ((256 ^ w : Nat) : Int) := by rw [int_pow_cast, pow256]
      rw [this] at hr; omega
    have hs : ∀ w, 1 ≤ w → inRange true w v = true → encSignedLen w v = (encSigned w v).length := by
      intro w hw hr
      simp only [inRange, if_true, Bool.and_eq_true, decide_eq_true_eq] at hr
      exact encSigned_len w v hw hr.1 hr.2
    cases ty
    case u8 => exact intOK_u8 v
    case i8 => exact intOK_i8 v
    all_goals
      simp only [PC.intOK, encIntLen, encInt, IntTy.signed, IntTy.width, beq_iff_eq, if_true,
        Bool.false_eq_true, if_false]
      first
        | exact hs 2 (by decide) h
        | exact hs 4 (by decide) h
        | exact hs 8 (by decide) h
        | exact hs 16 (by decide) h
        | exact hu 2 (by decide) h
        | exact hu 4 (by decide) h
        | exact hu 8 (by decide) h
        | exact hu 16 (by decide) h
  | bool b => rfl
  | null => rfl
  | octets bs => rfl
  | integer c => rfl
  | oid c => rfl
  | bits u bs => rfl

mutual
def IntsInRange : Enc → Bool
  | .prim _ pc => PC.inRange pc
  | .cons _ inner => IntsInRange inner
  | .seq _ es => IntsInRangeList es
  | .optSome e => IntsInRange e
  | .choice _ _ e => IntsInRange e
  | .wrapped _ inner => IntsInRange inner
  | _ => true
def IntsInRangeList : List Enc → Bool
  | [] => true
  | e :: es => IntsInRange e && IntsInRangeList es
end

mutual
theorem IntsOK_of_inRange : ∀ (e : Enc), IntsInRange e = true → IntsOK e = true
  | .prim tag pc, h => by
    simp only [IntsInRange] at h; simp only [IntsOK]; exact intOK_of_inRange pc h
  | .cons tag inner, h => by
    simp only [IntsInRange] at h; simp only [IntsOK]; exact IntsOK_of_inRange inner h
  | .seq _ es, h => by
    simp only [IntsInRange] at h; simp only [IntsOK]; exact IntsOKList_of_inRange es h
  | .optSome e, h => by simp only [IntsInRange] at h; simp only [IntsOK]; exact IntsOK_of_inRange e h
  | .choice _ _ e, h => by simp only [IntsInRange] at h; simp only [IntsOK]; exact IntsOK_of_inRange e h
  | .wrapped _ e, h => by simp only [IntsInRange] at h; simp only [IntsOK]; exact IntsOK_of_inRange e h
  | .octetString _ _, _ => rfl
  | .octetSlice _ _, _ => rfl
  | .bitSlice _ _ _, _ => rfl
  | .optNone, _ => rfl
  | .nothing, _ => rfl
  | .captured _ _, _ => rfl
theorem IntsOKList_of_inRange : ∀ (es : List Enc), IntsInRangeList es = true → IntsOKList es = true
  | [], _ => rfl
  | e :: es, h => by
    simp only [IntsInRangeList, Bool.and_eq_true] at h
    simp only [IntsOKList, Bool.and_eq_true]
    exact ⟨IntsOK_of_inRange e h.1, IntsOKList_of_inRange es h.2⟩
end

/-- C06, hypothesis-free form: for every encoder composition whose integer leaves hold values of
    their Rust types (which the Rust type system guarantees), in every mode, the announced length
    is the number of octets written, and the two methods fail together with the same panic -/
theorem announced_eq_written (mode : Mode) (e : Enc) (h : IntsInRange e = true) :
    lenR (e.write mode) = e.encodedLen mode :=
  write_len e mode (IntsOK_of_inRange e h)

/-- the hypothesis is needed: an out-of-range value makes the two methods of the model disagree -/
example : PC.intOK (.int .i16 70000) = false := by decide

/-- captured data in an incompatible mode: both methods panic -/
theorem captured_incompatible (bytes : Bytes) (own mode : Mode) (h1 : own ≠ mode) (h2 : mode ≠ .ber) :
    (Enc.captured bytes own).write mode
        = .error (.panic "Trying to encode a captured value with incompatible mode") ∧
    (Enc.captured bytes own).encodedLen mode
        = .error (.panic "Trying to encode a captured value with incompatible mode") := by
  cases own <;> cases mode <;> first | exact absurd rfl h1 | exact absurd rfl h2 | exact ⟨rfl, rfl⟩

/-! ### non-vacuity -/

/-- SEQUENCE { [0] EXPLICIT INTEGER 300 (i16), BOOLEAN true, OCTET STRING 01 02 03, NULL absent } -/
def sample (capMode : Mode) : Enc :=
  .cons Tag.SEQUENCE (.seq .tuple [
    .cons ⟨0x80, 0, 0, 0⟩ (.prim Tag.INTEGER (.int .i16 300)),
    .prim Tag.BOOLEAN (.bool true),
    .optNone,
    .optSome (.cons Tag.SET (.seq .vec [.prim Tag.NULL .null, .prim Tag.INTEGER (.int .u8 200)])),
    .choice 2 1 (.captured [5, 0] capMode)])

/-- the same with string encoders (BER and DER only) -/
def sampleStr : Enc :=
  .cons Tag.SEQUENCE (.seq .tuple [
    .octetSlice Tag.OCTET_STRING [1, 2, 3],
    .octetString Tag.OCTET_STRING (.prim [9, 8]),
    .bitSlice Tag.BIT_STRING 3 [0xf8],
    .wrapped .der (sample .der)])

example : WF (sample .der) = true ∧ WF (sample .cer) = true ∧ WF sampleStr = true := by decide
example : IntsInRange (sample .der) = true ∧ IntsInRange sampleStr = true := by decide

example : (sample .der).write .ber
    = .ok [0x30, 19, 0xa0, 4, 2, 2, 1, 44, 1, 1, 0xff, 0x31, 6, 5, 0, 2, 2, 0, 200, 5, 0]
  ∧ (sample .der).encodedLen .ber = .ok 21 := ⟨rfl, rfl⟩
example : (sample .der).write .der
    = .ok [0x30, 19, 0xa0, 4, 2, 2, 1, 44, 1, 1, 0xff, 0x31, 6, 5, 0, 2, 2, 0, 200, 5, 0]
  ∧ (sample .der).encodedLen .der = .ok 21 := ⟨rfl, rfl⟩
example : (sample .cer).write .cer
    = .ok [0x30, 0x80, 0xa0, 0x80, 2, 2, 1, 44, 0, 0, 1, 1, 0xff, 0x31, 0x80, 5, 0, 2, 2, 0, 200, 0, 0, 5, 0, 0, 0]
  ∧ (sample .cer).encodedLen .cer = .ok 27 := ⟨rfl, rfl⟩
/-- captured DER data inside a CER encoder: both methods panic -/
example : (sample .der).write .cer
    = .error (.panic "Trying to encode a captured value with incompatible mode")
  ∧ (sample .der).encodedLen .cer
    = .error (.panic "Trying to encode a captured value with incompatible mode") := ⟨rfl, rfl⟩
example : sampleStr.write .der
    = .ok [0x30, 36, 4, 3, 1, 2, 3, 4, 2, 9, 8, 3, 2, 3, 0xf8, 4, 21,
           0x30, 19, 0xa0, 4, 2, 2, 1, 44, 1, 1, 0xff, 0x31, 6, 5, 0, 2, 2, 0, 200, 5, 0]
  ∧ sampleStr.encodedLen .der = .ok 38 ∧ encode .der sampleStr = (sampleStr.write .der).toOption := ⟨rfl, rfl, rfl⟩
example : sampleStr.write .cer = .error (.panic "unimplemented")
  ∧ sampleStr.encodedLen .cer = .error (.panic "unimplemented") := ⟨rfl, rfl⟩

/-- the hypotheses of the main theorems hold for the samples, and the theorems apply -/
example : ∃ bs, (sample .cer).write .cer = .ok bs ∧ bs.length = 27 :=
  len_eq_write .cer (sample .cer) (by decide) 27 rfl
example : encode .der sampleStr = some
    [0x30, 36, 4, 3, 1, 2, 3, 4, 2, 9, 8, 3, 2, 3, 0xf8, 4, 21,
     0x30, 19, 0xa0, 4, 2, 2, 1, 44, 1, 1, 0xff, 0x31, 6, 5, 0, 2, 2, 0, 200, 5, 0] :=
  write_ok_spec sampleStr .der _ (by decide) rfl

/-- the size limit is reachable: content of 2^32 octets or more makes both methods panic
    "excessive length" -/
theorem excessive_both (mode : Mode) (hm : mode ≠ .cer) (tag : Tag) (bs : Bytes) (h : 2 ^ 32 ≤ bs.length) :
    (Enc.octetSlice tag bs).write mode = .error excessive ∧
    (Enc.octetSlice tag bs).encodedLen mode = .error excessive := by
  have hw : (Enc.octetSlice tag bs).write mode = .error excessive := by
    rw [write_octetSlice mode hm, tlvR, if_neg (by omega)]
  exact ⟨hw, (fail_iff mode _ rfl _).mpr hw⟩

example (n : Nat) (h : 2 ^ 32 ≤ n) :
    (Enc.octetSlice Tag.OCTET_STRING (List.replicate n 0)).write .der = .error excessive :=
  (excessive_both .der (by decide) _ _ (by simpa using h)).1

end Bcder.Props.C06
