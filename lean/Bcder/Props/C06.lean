/-
  C06 — Announced encoded length equals octets written, for every encoder composition.

  (header completed below)
-/
import Bcder.Model.Encode
import Bcder.Spec.Encode
import Bcder.Props.C12
import Bcder.Props.C13
namespace Bcder.Props.C06
open Bcder Bcder.Spec

/-- the length a writer result announces: the number of octets on success, the same error otherwise -/
def lenR : Res Bytes → Res Nat
  | .ok bs => .ok bs.length
  | .error e => .error e

@[simp] theorem lenR_ok (bs : Bytes) : lenR (.ok bs) = .ok bs.length := rfl
@[simp] theorem lenR_error (e : Err) : lenR (.error e) = .error e := rfl

theorem tag_write_len (t : Tag) (c : Bool) : (t.write c).length = t.encodedLen := by
  simp only [Tag.write, Tag.encodedLen]
  split <;> (try split) <;> (try split) <;> simp

theorem length_write_len (n : Nat) :
    lenR (Length.definite n).write = (Length.definite n).encodedLen := by
  unfold Length.write Length.encodedLen
  split <;> (try split) <;> (try split) <;> (try split) <;> (try split) <;> (try split) <;> rfl

def PC.intOK : PC → Bool
  | .int ty v => encIntLen ty v == (encInt ty v).length
  | _ => true

theorem pc_write_len (pc : PC) (h : PC.intOK pc = true) : pc.write.length = pc.encodedLen := by
  cases pc with
  | int ty v => simp only [PC.intOK, beq_iff_eq] at h; exact h.symm
  | bool b => cases b <;> rfl
  | null => rfl
  | octets bs => rfl
  | integer c => rfl
  | oid c => rfl
  | bits u bs => rfl

mutual
def IntsOK : Enc → Bool
  | .prim _ pc => PC.intOK pc
  | .cons _ inner => IntsOK inner
  | .seq _ es => IntsOKList es
  | .optSome e => IntsOK e
  | .choice _ _ e => IntsOK e
  | .wrapped _ inner => IntsOK inner
  | _ => true
def IntsOKList : List Enc → Bool
  | [] => true
  | e :: es => IntsOK e && IntsOKList es
end

theorem foldl_len (l : List Bytes) (acc : Nat) :
    l.foldl (fun a x => a + x.length) acc = acc + l.flatten.length := by
  induction l generalizing acc with
  | nil => simp
  | cons x xs ih => simp [List.foldl, ih]; omega

theorem os_len (os : OS) : os.len = (os.segments).map (fun s => s.flatten.length) := by
  cases os with
  | prim b =>
    cases b <;> simp [OS.len, OS.segments, pure, Except.pure, Except.map]
  | cons c =>
    simp only [OS.len, bind, Except.bind, pure, Except.pure, Except.map]
    cases OS.segments (OS.cons c) with
    | error e => rfl
    | ok s => simp [foldl_len]


theorem lenOfLen_eq (n : Nat) : lenOfLen n = lenR (Length.definite n).write := by
  rw [length_write_len]; rfl

/-- a primitive-style TLV: identifier, definite length, `n` content octets -/
theorem tlv_len (tag : Tag) (c : Bool) (content : Bytes) (n : Nat) (h : content.length = n) :
    lenR (do let l ← (Length.definite n).write; pure (tag.write c ++ l ++ content) : Res Bytes)
      = (do let ll ← lenOfLen n; pure (tag.encodedLen + ll + n) : Res Nat) := by
  rw [lenOfLen_eq]
  cases (Length.definite n).write with
  | error e => rfl
  | ok l => simp [bind, Except.bind, pure, Except.pure, tag_write_len, h]; omega

theorem wrapped_len (own : Mode) (inner : Enc) (ih : lenR (inner.write own) = inner.encodedLen own) :
    lenR (do let h ← writeHeader Tag.OCTET_STRING false (← inner.encodedLen own)
             pure (h ++ (← inner.write own)) : Res Bytes)
      = (do totalEncodedLen Tag.OCTET_STRING (← inner.encodedLen own) : Res Nat) := by
  rw [← ih]
  cases inner.write own with
  | error e => rfl
  | ok b =>
    simp only [lenR_ok, bind, Except.bind, pure, Except.pure, writeHeader, totalEncodedLen]
    rw [← length_write_len]
    cases (Length.definite b.length).write with
    | error e => rfl
    | ok l => simp [tag_write_len]; omega

theorem bits_len (tag : Tag) (u : UInt8) (bs : Bytes) :
    lenR (do pure (tag.write false ++ (← (Length.definite (bs.length + 1)).write) ++ [u] ++ bs) : Res Bytes)
      = (do pure (tag.encodedLen + (← lenOfLen (bs.length + 1)) + (bs.length + 1)) : Res Nat) := by
  rw [lenOfLen_eq]
  cases (Length.definite (bs.length + 1)).write with
  | error e => rfl
  | ok l => simp [bind, Except.bind, pure, Except.pure, tag_write_len]; omega

mutual
theorem write_len : ∀ (e : Enc) (mode : Mode), IntsOK e = true →
    lenR (e.write mode) = e.encodedLen mode
  | .prim tag pc, mode, h => by
    simp only [IntsOK] at h
    simp only [Enc.write, Enc.encodedLen]
    exact tlv_len tag false pc.write pc.encodedLen (pc_write_len pc h)
  | .cons tag inner, mode, h => by
    simp only [IntsOK] at h
    have ih := write_len inner mode h
    cases mode <;> simp only [Enc.write, Enc.encodedLen] <;> rw [← ih] <;>
      cases inner.write _ with
      | error e => rfl
      | ok b =>
        simp only [lenR_ok, bind, Except.bind, pure, Except.pure, lenOfLen_eq]
        first
          | (cases (Length.definite b.length).write with
              | error e => rfl
              | ok l => simp [tag_write_len]; omega)
          | (simp [tag_write_len])
  | .seq _ es, mode, h => by
    simp only [IntsOK] at h
    simp only [Enc.write, Enc.encodedLen]
    exact writeList_len es mode h
  | .optNone, mode, h => rfl
  | .optSome e, mode, h => by
    simp only [IntsOK] at h
    simp only [Enc.write, Enc.encodedLen]; exact write_len e mode h
  | .choice _ _ e, mode, h => by
    simp only [IntsOK] at h
    simp only [Enc.write, Enc.encodedLen]; exact write_len e mode h
  | .nothing, mode, h => rfl
  | .captured bytes own, mode, h => by
    simp only [Enc.write, Enc.encodedLen]
    cases capturedGuard own mode <;> rfl
  | .octetString tag os, mode, h => by
    cases mode with
    | ber =>
      cases os with
      | prim b => simp only [Enc.write, Enc.encodedLen]; exact tlv_len tag false b b.length rfl
      | cons c => simp only [Enc.write, Enc.encodedLen]; exact tlv_len tag true c c.length rfl
    | cer => rfl
    | der =>
      simp only [Enc.write, Enc.encodedLen, os_len]
      cases os.segments with
      | error e => rfl
      | ok s => exact tlv_len tag false s.flatten s.flatten.length rfl
  | .octetSlice tag bs, mode, h => by
    cases mode with
    | cer => rfl
    | ber => exact tlv_len tag false bs bs.length rfl
    | der => exact tlv_len tag false bs bs.length rfl
  | .wrapped own inner, mode, h => by
    simp only [IntsOK] at h
    have ih := write_len inner own h
    cases mode with
    | cer => rfl
    | ber => exact wrapped_len own inner ih
    | der => exact wrapped_len own inner ih
  | .bitSlice tag u bs, mode, h => by
    cases mode with
    | cer => rfl
    | ber => exact bits_len tag u bs
    | der => exact bits_len tag u bs
theorem writeList_len : ∀ (es : List Enc) (mode : Mode), IntsOKList es = true →
    lenR (Enc.writeList mode es) = Enc.encodedLenList mode es
  | [], mode, h => rfl
  | e :: es, mode, h => by
    simp only [IntsOKList, Bool.and_eq_true] at h
    have ih1 := write_len e mode h.1
    have ih2 := writeList_len es mode h.2
    simp only [Enc.writeList, Enc.encodedLenList]
    rw [← ih1, ← ih2]
    cases e.write mode with
    | error e => rfl
    | ok b =>
      cases Enc.writeList mode es with
      | error e => rfl
      | ok bs => simp [bind, Except.bind, pure, Except.pure]
end


/-! ### structure -/

def excessive : Err := .panic "excessive length"

theorem length_write_spec (n : Nat) :
    (Length.definite n).write = if n < 2 ^ 32 then .ok (lenOctets n) else .error excessive := by
  by_cases h : n < 2 ^ 32
  · rw [if_pos h, C13.write_eq_spec n h]
  · rw [if_neg h]
    have h' : ¬ n < 4294967296 := by simpa using h
    unfold Length.write
    have h1 : ¬ n < 0x80 := by omega
    have h2 : ¬ n < 0x100 := by omega
    have h3 : ¬ n < 0x10000 := by omega
    have h4 : ¬ n < 0x1000000 := by omega
    simp only [h1, h2, h3, h4, h', if_false]; rfl

/-- identifier octets, the minimal definite length octets of the content, the content;
    the writer refuses contents of 2^32 octets or more -/
def tlvR (tag : Tag) (constructed : Bool) (content : Bytes) : Res Bytes :=
  if content.length < 2 ^ 32 then .ok (tag.write constructed ++ lenOctets content.length ++ content)
  else .error excessive

theorem tlvR_eq (tag : Tag) (c : Bool) (content : Bytes) :
    (do let l ← (Length.definite content.length).write; pure (tag.write c ++ l ++ content) : Res Bytes)
      = tlvR tag c content := by
  rw [length_write_spec, tlvR]
  split <;> rfl

theorem write_prim (mode : Mode) (tag : Tag) (pc : PC) (h : PC.intOK pc = true) :
    (Enc.prim tag pc).write mode = tlvR tag false pc.write := by
  simp only [Enc.write]
  rw [← pc_write_len pc h]; exact tlvR_eq tag false pc.write

theorem write_cons_ber (tag : Tag) (inner : Enc) (h : IntsOK inner = true) :
    (Enc.cons tag inner).write .ber = inner.write .ber >>= tlvR tag true := by
  simp only [Enc.write]
  rw [← write_len inner .ber h]
  cases inner.write .ber with
  | error e => rfl
  | ok b => exact tlvR_eq tag true b

theorem write_cons_der (tag : Tag) (inner : Enc) (h : IntsOK inner = true) :
    (Enc.cons tag inner).write .der = inner.write .der >>= tlvR tag true := by
  simp only [Enc.write]
  rw [← write_len inner .der h]
  cases inner.write .der with
  | error e => rfl
  | ok b => exact tlvR_eq tag true b

theorem write_cons_cer (tag : Tag) (inner : Enc) :
    (Enc.cons tag inner).write .cer =
      inner.write .cer >>= fun body => pure (tag.write true ++ [0x80] ++ body ++ [0, 0]) := by
  simp only [Enc.write]

theorem write_seq (mode : Mode) (k : SeqKind) (es : List Enc) :
    (Enc.seq k es).write mode = List.flatten <$> es.mapM (Enc.write mode) := by
  simp only [Enc.write]
  induction es with
  | nil => rfl
  | cons e es ih =>
    simp only [Enc.writeList, List.mapM_cons, ih]
    cases e.write mode with
    | error e => rfl
    | ok b =>
      cases List.mapM (Enc.write mode) es with
      | error e => rfl
      | ok bs => rfl


theorem write_octetString_ber_prim (tag : Tag) (b : Bytes) :
    (Enc.octetString tag (.prim b)).write .ber = tlvR tag false b := by
  simp only [Enc.write]; exact tlvR_eq tag false b

theorem write_octetString_ber_cons (tag : Tag) (c : Bytes) :
    (Enc.octetString tag (.cons c)).write .ber = tlvR tag true c := by
  simp only [Enc.write]; exact tlvR_eq tag true c

theorem write_octetString_der (tag : Tag) (os : OS) :
    (Enc.octetString tag os).write .der = os.segments >>= fun s => tlvR tag false s.flatten := by
  simp only [Enc.write, os_len]
  cases os.segments with
  | error e => rfl
  | ok s => exact tlvR_eq tag false s.flatten

theorem write_octetSlice (mode : Mode) (hm : mode ≠ .cer) (tag : Tag) (bs : Bytes) :
    (Enc.octetSlice tag bs).write mode = tlvR tag false bs := by
  cases mode with
  | cer => exact absurd rfl hm
  | ber => exact tlvR_eq tag false bs
  | der => exact tlvR_eq tag false bs

theorem write_bitSlice (mode : Mode) (hm : mode ≠ .cer) (tag : Tag) (u : UInt8) (bs : Bytes) :
    (Enc.bitSlice tag u bs).write mode = tlvR tag false (u :: bs) := by
  have key : (do pure (tag.write false ++ (← (Length.definite (bs.length + 1)).write) ++ [u] ++ bs) : Res Bytes)
      = tlvR tag false (u :: bs) := by
    rw [← tlvR_eq]
    simp only [List.length_cons]
    cases (Length.definite (bs.length + 1)).write with
    | error e => rfl
    | ok l => simp [bind, Except.bind, pure, Except.pure]
  cases mode with
  | cer => exact absurd rfl hm
  | ber => exact key
  | der => exact key

theorem write_wrapped (mode : Mode) (hm : mode ≠ .cer) (own : Mode) (inner : Enc) (h : IntsOK inner = true) :
    (Enc.wrapped own inner).write mode = inner.write own >>= tlvR Tag.OCTET_STRING false := by
  have key : (do let h ← writeHeader Tag.OCTET_STRING false (← inner.encodedLen own)
                 pure (h ++ (← inner.write own)) : Res Bytes)
      = inner.write own >>= tlvR Tag.OCTET_STRING false := by
    rw [← write_len inner own h]
    cases inner.write own with
    | error e => rfl
    | ok b =>
      rw [show (Except.ok b >>= tlvR Tag.OCTET_STRING false) = tlvR Tag.OCTET_STRING false b from rfl,
        ← tlvR_eq]
      simp only [lenR_ok, bind, Except.bind, pure, Except.pure, writeHeader]
      cases (Length.definite b.length).write with
      | error e => rfl
      | ok l => rfl
  cases mode with
  | cer => exact absurd rfl hm
  | ber => exact key
  | der => exact key

theorem write_captured (mode own : Mode) (bytes : Bytes) :
    (Enc.captured bytes own).write mode =
      if own ≠ mode ∧ mode ≠ .ber then
        .error (.panic "Trying to encode a captured value with incompatible mode")
      else .ok bytes := by
  cases own <;> cases mode <;> rfl

theorem write_optNone (mode : Mode) : Enc.optNone.write mode = .ok [] := rfl
theorem write_nothing (mode : Mode) : Enc.nothing.write mode = .ok [] := rfl
theorem write_optSome (mode : Mode) (e : Enc) : (Enc.optSome e).write mode = e.write mode := by
  simp only [Enc.write]
theorem write_choice (mode : Mode) (a i : Nat) (e : Enc) : (Enc.choice a i e).write mode = e.write mode := by
  simp only [Enc.write]

/-- the documented caller misuse: string encoders are unimplemented in CER -/
theorem cer_unimplemented (e : Enc)
    (h : (∃ t os, e = .octetString t os) ∨ (∃ t bs, e = .octetSlice t bs) ∨
         (∃ m i, e = .wrapped m i) ∨ (∃ t u bs, e = .bitSlice t u bs)) :
    e.write .cer = .error (.panic "unimplemented") ∧ e.encodedLen .cer = .error (.panic "unimplemented") := by
  rcases h with ⟨t, os, rfl⟩ | ⟨t, bs, rfl⟩ | ⟨m, i, rfl⟩ | ⟨t, u, bs, rfl⟩ <;> exact ⟨rfl, rfl⟩


/-! ### relation to the reference encoder -/

/-- the tag's written identifier octets are the reference identifier octets of its class and number -/
def tagOK (t : Tag) : Bool := t.write false == tagIdent t false && t.write true == tagIdent t true

theorem tagOK_write (t : Tag) (h : tagOK t = true) (c : Bool) : t.write c = tagIdent t c := by
  simp only [tagOK, Bool.and_eq_true, beq_iff_eq] at h
  cases c
  · exact h.1
  · exact h.2

/-- every tag made by `Tag::new` from a class and a number up to 0x1FFFFF is such a tag -/
theorem tagOK_new (cls num : Nat) (hc : cls ≤ 3) (hn : num ≤ 0x1fffff) :
    tagOK (C12.tagOf cls num) = true := by
  have key : ∀ c, (C12.tagOf cls num).write c = tagIdent (C12.tagOf cls num) c := by
    intro c
    obtain ⟨t, ht, hw, _⟩ := C12.write_eq_spec cls num c hc hn
    obtain ⟨t', ht', hnum, hcls⟩ := C12.new_number_class cls num hc hn
    rw [ht] at ht'; cases ht'
    have e : C12.tagOf cls num = t := by simp [C12.tagOf, ht]
    rw [e, hw, tagIdent, hnum, hcls]
    have : cls * 64 / 64 = cls := by omega
    rw [this]
  simp only [tagOK, Bool.and_eq_true, beq_iff_eq]
  exact ⟨key false, key true⟩

def PC.specOK : PC → Bool
  | .int ty v => encInt ty v == minimalTC v
  | _ => true

theorem pc_write_spec (pc : PC) (h : PC.specOK pc = true) : pc.write = pcContent pc := by
  cases pc with
  | int ty v => simp only [PC.specOK, beq_iff_eq] at h; exact h
  | bool b => cases b <;> rfl
  | null => rfl
  | octets bs => rfl
  | integer c => rfl
  | oid c => rfl
  | bits u bs => rfl

mutual
/-- well-formed encoder tree: tags are proper tags, integer leaves are encoded minimally with the
    announced size -/
def WF : Enc → Bool
  | .prim tag pc => tagOK tag && PC.intOK pc && PC.specOK pc
  | .cons tag inner => tagOK tag && WF inner
  | .seq _ es => WFList es
  | .optSome e => WF e
  | .choice _ _ e => WF e
  | .wrapped _ inner => WF inner
  | .octetString tag _ => tagOK tag
  | .octetSlice tag _ => tagOK tag
  | .bitSlice tag _ _ => tagOK tag
  | .optNone => true
  | .nothing => true
  | .captured _ _ => true
def WFList : List Enc → Bool
  | [] => true
  | e :: es => WF e && WFList es
end

mutual
theorem WF_ints : ∀ (e : Enc), WF e = true → IntsOK e = true
  | .prim tag pc, h => by
    simp only [WF, Bool.and_eq_true] at h; simp only [IntsOK]; exact h.1.2
  | .cons tag inner, h => by
    simp only [WF, Bool.and_eq_true] at h; simp only [IntsOK]; exact WF_ints inner h.2
  | .seq _ es, h => by
    simp only [WF] at h; simp only [IntsOK]; exact WFList_ints es h
  | .optSome e, h => by simp only [WF] at h; simp only [IntsOK]; exact WF_ints e h
  | .choice _ _ e, h => by simp only [WF] at h; simp only [IntsOK]; exact WF_ints e h
  | .wrapped _ e, h => by simp only [WF] at h; simp only [IntsOK]; exact WF_ints e h
  | .octetString _ _, _ => rfl
  | .octetSlice _ _, _ => rfl
  | .bitSlice _ _ _, _ => rfl
  | .optNone, _ => rfl
  | .nothing, _ => rfl
  | .captured _ _, _ => rfl
theorem WFList_ints : ∀ (es : List Enc), WFList es = true → IntsOKList es = true
  | [], _ => rfl
  | e :: es, h => by
    simp only [WFList, Bool.and_eq_true] at h
    simp only [IntsOKList, Bool.and_eq_true]
    exact ⟨WF_ints e h.1, WFList_ints es h.2⟩
end

theorem tlvR_ok (tag : Tag) (c : Bool) (content bs : Bytes) (ht : tagOK tag = true)
    (h : tlvR tag c content = .ok bs) : bs = tlv tag c content := by
  unfold tlvR at h
  split at h
  · cases h; rw [tlv, tagOK_write tag ht]
  · cases h

theorem tlvR_of_small (tag : Tag) (c : Bool) (content : Bytes) (ht : tagOK tag = true)
    (h : (tlv tag c content).length < 2 ^ 32) : tlvR tag c content = .ok (tlv tag c content) := by
  have : content.length < 2 ^ 32 := by
    simp only [tlv, List.length_append] at h; omega
  rw [tlvR, if_pos this, tlv, tagOK_write tag ht]

theorem tlv_content_le (tag : Tag) (c : Bool) (content : Bytes) :
    content.length ≤ (tlv tag c content).length := by
  simp only [tlv, List.length_append]; omega


theorem os_octets (os : OS) : os.octets = os.segments.map List.flatten := by
  cases os with
  | prim b => cases b <;> simp [OS.octets, OS.segments, pure, Except.pure, Except.map]
  | cons c =>
    simp only [OS.octets, bind, Except.bind, pure, Except.pure, Except.map]

theorem tagOK_octetString : tagOK Tag.OCTET_STRING = true := by decide

mutual
theorem write_ok_spec : ∀ (e : Enc) (mode : Mode) (bs : Bytes), WF e = true →
    e.write mode = .ok bs → encode mode e = some bs
  | .prim tag pc, mode, bs, h, hw => by
    simp only [WF, Bool.and_eq_true] at h
    rw [write_prim mode tag pc h.1.2] at hw
    rw [tlvR_ok _ _ _ _ h.1.1 hw, pc_write_spec pc h.2]; simp only [encode]
  | .cons tag inner, mode, bs, h, hw => by
    have hwf := h
    simp only [WF, Bool.and_eq_true] at h
    have hi := WF_ints inner h.2
    cases mode with
    | ber =>
      rw [write_cons_ber tag inner hi] at hw
      cases hb : inner.write .ber with
      | error e => rw [hb] at hw; cases hw
      | ok body =>
        rw [hb] at hw
        have := tlvR_ok _ _ _ _ h.1 hw
        simp [encode, write_ok_spec inner .ber body h.2 hb, this]
    | der =>
      rw [write_cons_der tag inner hi] at hw
      cases hb : inner.write .der with
      | error e => rw [hb] at hw; cases hw
      | ok body =>
        rw [hb] at hw
        have := tlvR_ok _ _ _ _ h.1 hw
        simp [encode, write_ok_spec inner .der body h.2 hb, this]
    | cer =>
      rw [write_cons_cer tag inner] at hw
      cases hb : inner.write .cer with
      | error e => rw [hb] at hw; cases hw
      | ok body =>
        rw [hb] at hw
        cases hw
        simp [encode, write_ok_spec inner .cer body h.2 hb, tagOK_write tag h.1]
  | .seq _ es, mode, bs, h, hw => by
    simp only [WF] at h
    simp only [Enc.write] at hw
    simp only [encode]; exact writeList_ok_spec es mode bs h hw
  | .optNone, mode, bs, h, hw => by cases hw; simp only [encode]
  | .optSome e, mode, bs, h, hw => by
    simp only [WF] at h; simp only [Enc.write] at hw
    simp only [encode]; exact write_ok_spec e mode bs h hw
  | .choice _ _ e, mode, bs, h, hw => by
    simp only [WF] at h; simp only [Enc.write] at hw
    simp only [encode]; exact write_ok_spec e mode bs h hw
  | .nothing, mode, bs, h, hw => by cases hw; simp only [encode]
  | .captured bytes own, mode, bs, h, hw => by
    cases own <;> cases mode <;> first | cases hw; rfl | cases hw
  | .octetString tag os, mode, bs, h, hw => by
    simp only [WF] at h
    cases mode with
    | cer => cases hw
    | ber =>
      cases os with
      | prim b =>
        rw [write_octetString_ber_prim] at hw
        rw [tlvR_ok _ _ _ _ h hw]; simp only [encode]
      | cons c =>
        rw [write_octetString_ber_cons] at hw
        rw [tlvR_ok _ _ _ _ h hw]; simp only [encode]
    | der =>
      rw [write_octetString_der] at hw
      simp only [encode, os_octets]
      cases hs : os.segments with
      | error e => rw [hs] at hw; cases hw
      | ok s =>
        rw [hs] at hw
        rw [tlvR_ok _ _ _ _ h hw]; rfl
  | .octetSlice tag b, mode, bs, h, hw => by
    simp only [WF] at h
    cases mode with
    | cer => cases hw
    | ber => rw [write_octetSlice .ber (by decide)] at hw; rw [tlvR_ok _ _ _ _ h hw]; rfl
    | der => rw [write_octetSlice .der (by decide)] at hw; rw [tlvR_ok _ _ _ _ h hw]; rfl
  | .bitSlice tag u b, mode, bs, h, hw => by
    simp only [WF] at h
    cases mode with
    | cer => cases hw
    | ber => rw [write_bitSlice .ber (by decide)] at hw; rw [tlvR_ok _ _ _ _ h hw]; rfl
    | der => rw [write_bitSlice .der (by decide)] at hw; rw [tlvR_ok _ _ _ _ h hw]; rfl
  | .wrapped own inner, mode, bs, h, hw => by
    simp only [WF] at h
    have hi := WF_ints inner h
    have key : ∀ m, m ≠ Mode.cer → (Enc.wrapped own inner).write m = .ok bs →
        (encode own inner).map (tlv Tag.OCTET_STRING false) = some bs := by
      intro m hm hw
      rw [write_wrapped m hm own inner hi] at hw
      cases hb : inner.write own with
      | error e => rw [hb] at hw; cases hw
      | ok body =>
        rw [hb] at hw
        rw [write_ok_spec inner own body h hb, tlvR_ok _ _ _ _ tagOK_octetString hw]; rfl
    cases mode with
    | cer => cases hw
    | ber => simpa [encode] using key .ber (by decide) hw
    | der => simpa [encode] using key .der (by decide) hw
theorem writeList_ok_spec : ∀ (es : List Enc) (mode : Mode) (bs : Bytes), WFList es = true →
    Enc.writeList mode es = .ok bs → encodeList mode es = some bs
  | [], mode, bs, h, hw => by cases hw; simp only [encodeList]
  | e :: es, mode, bs, h, hw => by
    simp only [WFList, Bool.and_eq_true] at h
    simp only [Enc.writeList] at hw
    cases ha : e.write mode with
    | error err => rw [ha] at hw; cases hw
    | ok a =>
      cases hb : Enc.writeList mode es with
      | error err => rw [ha, hb] at hw; cases hw
      | ok b =>
        rw [ha, hb] at hw; cases hw
        simp only [encodeList, write_ok_spec e mode a h.1 ha, writeList_ok_spec es mode b h.2 hb]
end


mutual
theorem spec_some_write : ∀ (e : Enc) (mode : Mode) (bs : Bytes), WF e = true →
    encode mode e = some bs → bs.length < 2 ^ 32 → e.write mode = .ok bs
  | .prim tag pc, mode, bs, h, hs, hl => by
    simp only [WF, Bool.and_eq_true] at h
    simp only [encode, Option.some.injEq] at hs
    subst hs
    rw [write_prim mode tag pc h.1.2, pc_write_spec pc h.2]
    exact tlvR_of_small _ _ _ h.1.1 hl
  | .cons tag inner, mode, bs, h, hs, hl => by
    simp only [WF, Bool.and_eq_true] at h
    have hi := WF_ints inner h.2
    simp only [encode] at hs
    cases hb : encode mode inner with
    | none => rw [hb] at hs; cases hs
    | some body =>
      rw [hb] at hs
      cases mode with
      | ber =>
        have hs : some (tlv tag true body) = some bs := hs
        simp only [Option.some.injEq] at hs
        subst hs
        have := tlv_content_le tag true body
        rw [write_cons_ber tag inner hi, spec_some_write inner .ber body h.2 hb (by omega)]
        exact tlvR_of_small _ _ _ h.1 hl
      | der =>
        have hs : some (tlv tag true body) = some bs := hs
        simp only [Option.some.injEq] at hs
        subst hs
        have := tlv_content_le tag true body
        rw [write_cons_der tag inner hi, spec_some_write inner .der body h.2 hb (by omega)]
        exact tlvR_of_small _ _ _ h.1 hl
      | cer =>
        have hs : some (tagIdent tag true ++ [0x80] ++ body ++ [0, 0]) = some bs := hs
        simp only [Option.some.injEq] at hs
        subst hs
        have : body.length < 2 ^ 32 := by
          simp only [List.length_append] at hl; omega
        rw [write_cons_cer tag inner, spec_some_write inner .cer body h.2 hb this, tagOK_write tag h.1]
        rfl
  | .seq _ es, mode, bs, h, hs, hl => by
    simp only [WF] at h
    simp only [encode] at hs
    simp only [Enc.write]; exact spec_some_writeList es mode bs h hs hl
  | .optNone, mode, bs, h, hs, hl => by simp only [encode, Option.some.injEq] at hs; subst hs; rfl
  | .optSome e, mode, bs, h, hs, hl => by
    simp only [WF] at h; simp only [encode] at hs
    simp only [Enc.write]; exact spec_some_write e mode bs h hs hl
  | .choice _ _ e, mode, bs, h, hs, hl => by
    simp only [WF] at h; simp only [encode] at hs
    simp only [Enc.write]; exact spec_some_write e mode bs h hs hl
  | .nothing, mode, bs, h, hs, hl => by simp only [encode, Option.some.injEq] at hs; subst hs; rfl
  | .captured bytes own, mode, bs, h, hs, hl => by
    cases own <;> cases mode <;> first | (cases hs; rfl) | cases hs
  | .octetString tag os, mode, bs, h, hs, hl => by
    simp only [WF] at h
    cases mode with
    | cer => cases hs
    | ber =>
      cases os with
      | prim b =>
        simp only [encode, Option.some.injEq] at hs; subst hs
        rw [write_octetString_ber_prim]; exact tlvR_of_small _ _ _ h hl
      | cons c =>
        simp only [encode, Option.some.injEq] at hs; subst hs
        rw [write_octetString_ber_cons]; exact tlvR_of_small _ _ _ h hl
    | der =>
      simp only [encode, os_octets] at hs
      rw [write_octetString_der]
      cases hseg : os.segments with
      | error e => rw [hseg] at hs; cases hs
      | ok s =>
        rw [hseg] at hs
        have hs : some (tlv tag false s.flatten) = some bs := hs
        simp only [Option.some.injEq] at hs; subst hs
        exact tlvR_of_small _ _ _ h hl
  | .octetSlice tag b, mode, bs, h, hs, hl => by
    simp only [WF] at h
    cases mode with
    | cer => cases hs
    | ber =>
      have hs : some (tlv tag false b) = some bs := hs
      simp only [Option.some.injEq] at hs; subst hs
      rw [write_octetSlice .ber (by decide)]; exact tlvR_of_small _ _ _ h hl
    | der =>
      have hs : some (tlv tag false b) = some bs := hs
      simp only [Option.some.injEq] at hs; subst hs
      rw [write_octetSlice .der (by decide)]; exact tlvR_of_small _ _ _ h hl
  | .bitSlice tag u b, mode, bs, h, hs, hl => by
    simp only [WF] at h
    cases mode with
    | cer => cases hs
    | ber =>
      have hs : some (tlv tag false (u :: b)) = some bs := hs
      simp only [Option.some.injEq] at hs; subst hs
      rw [write_bitSlice .ber (by decide)]; exact tlvR_of_small _ _ _ h hl
    | der =>
      have hs : some (tlv tag false (u :: b)) = some bs := hs
      simp only [Option.some.injEq] at hs; subst hs
      rw [write_bitSlice .der (by decide)]; exact tlvR_of_small _ _ _ h hl
  | .wrapped own inner, mode, bs, h, hs, hl => by
    simp only [WF] at h
    have hi := WF_ints inner h
    have key : ∀ m, m ≠ Mode.cer → (encode own inner).map (tlv Tag.OCTET_STRING false) = some bs →
        (Enc.wrapped own inner).write m = .ok bs := by
      intro m hm hs
      cases hb : encode own inner with
      | none => rw [hb] at hs; cases hs
      | some body =>
        rw [hb] at hs
        simp only [Option.map_some, Option.some.injEq] at hs; subst hs
        have := tlv_content_le Tag.OCTET_STRING false body
        rw [write_wrapped m hm own inner hi, spec_some_write inner own body h hb (by omega)]
        exact tlvR_of_small _ _ _ tagOK_octetString hl
    cases mode with
    | cer => cases hs
    | ber => exact key .ber (by decide) (by simpa [encode] using hs)
    | der => exact key .der (by decide) (by simpa [encode] using hs)
theorem spec_some_writeList : ∀ (es : List Enc) (mode : Mode) (bs : Bytes), WFList es = true →
    encodeList mode es = some bs → bs.length < 2 ^ 32 → Enc.writeList mode es = .ok bs
  | [], mode, bs, h, hs, hl => by simp only [encodeList, Option.some.injEq] at hs; subst hs; rfl
  | e :: es, mode, bs, h, hs, hl => by
    simp only [WFList, Bool.and_eq_true] at h
    simp only [encodeList] at hs
    cases ha : encode mode e with
    | none => rw [ha] at hs; cases hs
    | some a =>
      cases hb : encodeList mode es with
      | none => rw [ha, hb] at hs; cases hs
      | some b =>
        rw [ha, hb] at hs
        simp only [Option.some.injEq] at hs; subst hs
        simp only [List.length_append] at hl
        simp only [Enc.writeList, spec_some_write e mode a h.1 ha (by omega),
          spec_some_writeList es mode b h.2 hb (by omega)]
        rfl
end


/-! ### the property in the requested forms -/

theorem lenR_eq_ok (r : Res Bytes) (n : Nat) : lenR r = .ok n ↔ ∃ bs, r = .ok bs ∧ bs.length = n := by
  cases r with
  | error e => simp [lenR]
  | ok bs => simp [lenR]

theorem lenR_eq_error (r : Res Bytes) (err : Err) : lenR r = .error err ↔ r = .error err := by
  cases r with
  | error e => simp [lenR]
  | ok bs => simp [lenR]

/-- C06 — if a length is announced, exactly that many octets are written -/
theorem len_eq_write (mode : Mode) (e : Enc) (h : IntsOK e = true) :
    ∀ n, e.encodedLen mode = .ok n → ∃ bs, e.write mode = .ok bs ∧ bs.length = n := by
  intro n hn
  rw [← write_len e mode h] at hn
  exact (lenR_eq_ok _ _).mp hn

/-- C06 — if octets are written, their number is the announced length -/
theorem write_eq_len (mode : Mode) (e : Enc) (h : IntsOK e = true) (bs : Bytes)
    (hw : e.write mode = .ok bs) : e.encodedLen mode = .ok bs.length := by
  rw [← write_len e mode h, hw]; rfl

/-- C06 — the two methods fail together, with the same panic -/
theorem fail_iff (mode : Mode) (e : Enc) (h : IntsOK e = true) (err : Err) :
    e.encodedLen mode = .error err ↔ e.write mode = .error err := by
  rw [← write_len e mode h]; exact lenR_eq_error _ _

theorem lenList_eq_write (mode : Mode) (es : List Enc) (h : IntsOKList es = true) :
    ∀ n, Enc.encodedLenList mode es = .ok n → ∃ bs, Enc.writeList mode es = .ok bs ∧ bs.length = n := by
  intro n hn
  rw [← writeList_len es mode h] at hn
  exact (lenR_eq_ok _ _).mp hn

theorem writeList_eq_len (mode : Mode) (es : List Enc) (h : IntsOKList es = true) (bs : Bytes)
    (hw : Enc.writeList mode es = .ok bs) : Enc.encodedLenList mode es = .ok bs.length := by
  rw [← writeList_len es mode h, hw]; rfl

theorem failList_iff (mode : Mode) (es : List Enc) (h : IntsOKList es = true) (err : Err) :
    Enc.encodedLenList mode es = .error err ↔ Enc.writeList mode es = .error err := by
  rw [← writeList_len es mode h]; exact lenR_eq_error _ _

/-! ### the integer hypothesis, outright for the one-octet types -/

theorem intOK_u8 (v : Int) : PC.intOK (.int .u8 v) = true := by
  simp only [PC.intOK, encIntLen, encInt, encU8Len, encU8, beq_iff_eq]
  split <;> rfl

theorem intOK_i8 (v : Int) : PC.intOK (.int .i8 v) = true := by
  simp only [PC.intOK, encIntLen, encInt, encI8, beq_iff_eq]; rfl

/-- the hypothesis is needed: an out-of-range value makes the two methods of the model disagree -/
example : PC.intOK (.int .i16 70000) = false := by decide

/-- captured data in an incompatible mode: both methods panic -/
theorem captured_incompatible (bytes : Bytes) (own mode : Mode) (h1 : own ≠ mode) (h2 : mode ≠ .ber) :
    (Enc.captured bytes own).write mode
        = .error (.panic "Trying to encode a captured value with incompatible mode") ∧
    (Enc.captured bytes own).encodedLen mode
        = .error (.panic "Trying to encode a captured value with incompatible mode") := by
  cases own <;> cases mode <;> first | exact absurd rfl h1 | exact absurd rfl h2 | exact ⟨rfl, rfl⟩

/-! ### non-vacuity -/

/-- SEQUENCE { [0] EXPLICIT INTEGER 300 (i16), BOOLEAN true, OCTET STRING 01 02 03, NULL absent } -/
def sample (capMode : Mode) : Enc :=
  .cons Tag.SEQUENCE (.seq .tuple [
    .cons ⟨0x80, 0, 0, 0⟩ (.prim Tag.INTEGER (.int .i16 300)),
    .prim Tag.BOOLEAN (.bool true),
    .optNone,
    .optSome (.cons Tag.SET (.seq .vec [.prim Tag.NULL .null, .prim Tag.INTEGER (.int .u8 200)])),
    .choice 2 1 (.captured [5, 0] capMode)])

/-- the same with string encoders (BER and DER only) -/
def sampleStr : Enc :=
  .cons Tag.SEQUENCE (.seq .tuple [
    .octetSlice Tag.OCTET_STRING [1, 2, 3],
    .octetString Tag.OCTET_STRING (.prim [9, 8]),
    .bitSlice Tag.BIT_STRING 3 [0xf8],
    .wrapped .der (sample .der)])

example : WF (sample .der) = true ∧ WF (sample .cer) = true ∧ WF sampleStr = true := by decide

example : (sample .der).write .ber
    = .ok [0x30, 19, 0xa0, 4, 2, 2, 1, 44, 1, 1, 0xff, 0x31, 6, 5, 0, 2, 2, 0, 200, 5, 0]
  ∧ (sample .der).encodedLen .ber = .ok 21 := ⟨rfl, rfl⟩
example : (sample .der).write .der
    = .ok [0x30, 19, 0xa0, 4, 2, 2, 1, 44, 1, 1, 0xff, 0x31, 6, 5, 0, 2, 2, 0, 200, 5, 0]
  ∧ (sample .der).encodedLen .der = .ok 21 := ⟨rfl, rfl⟩
example : (sample .cer).write .cer
    = .ok [0x30, 0x80, 0xa0, 0x80, 2, 2, 1, 44, 0, 0, 1, 1, 0xff, 0x31, 0x80, 5, 0, 2, 2, 0, 200, 0, 0, 5, 0, 0, 0]
  ∧ (sample .cer).encodedLen .cer = .ok 27 := ⟨rfl, rfl⟩
/-- captured DER data inside a CER encoder: both methods panic -/
example : (sample .der).write .cer
    = .error (.panic "Trying to encode a captured value with incompatible mode")
  ∧ (sample .der).encodedLen .cer
    = .error (.panic "Trying to encode a captured value with incompatible mode") := ⟨rfl, rfl⟩
example : sampleStr.write .der
    = .ok [0x30, 36, 4, 3, 1, 2, 3, 4, 2, 9, 8, 3, 2, 3, 0xf8, 4, 21,
           0x30, 19, 0xa0, 4, 2, 2, 1, 44, 1, 1, 0xff, 0x31, 6, 5, 0, 2, 2, 0, 200, 5, 0]
  ∧ sampleStr.encodedLen .der = .ok 38 ∧ encode .der sampleStr = (sampleStr.write .der).toOption := ⟨rfl, rfl, rfl⟩
example : sampleStr.write .cer = .error (.panic "unimplemented")
  ∧ sampleStr.encodedLen .cer = .error (.panic "unimplemented") := ⟨rfl, rfl⟩

/-- the hypotheses of the main theorems hold for the samples, and the theorems apply -/
example : ∃ bs, (sample .cer).write .cer = .ok bs ∧ bs.length = 27 :=
  len_eq_write .cer (sample .cer) (by decide) 27 rfl
example : encode .der sampleStr = some
    [0x30, 36, 4, 3, 1, 2, 3, 4, 2, 9, 8, 3, 2, 3, 0xf8, 4, 21,
     0x30, 19, 0xa0, 4, 2, 2, 1, 44, 1, 1, 0xff, 0x31, 6, 5, 0, 2, 2, 0, 200, 5, 0] :=
  write_ok_spec sampleStr .der _ (by decide) rfl

/-- the size limit is reachable: content of 2^32 octets or more makes both methods panic
    "excessive length" -/
theorem excessive_both (mode : Mode) (hm : mode ≠ .cer) (tag : Tag) (bs : Bytes) (h : 2 ^ 32 ≤ bs.length) :
    (Enc.octetSlice tag bs).write mode = .error excessive ∧
    (Enc.octetSlice tag bs).encodedLen mode = .error excessive := by
  have hw : (Enc.octetSlice tag bs).write mode = .error excessive := by
    rw [write_octetSlice mode hm, tlvR, if_neg (by omega)]
  exact ⟨hw, (fail_iff mode _ rfl _).mpr hw⟩

example (n : Nat) (h : 2 ^ 32 ≤ n) :
    (Enc.octetSlice Tag.OCTET_STRING (List.replicate n 0)).write .der = .error excessive :=
  (excessive_both .der (by decide) _ _ (by simpa using h)).1

end Bcder.Props.C06
