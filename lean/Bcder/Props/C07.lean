/-
  C07 — Decoding results do not depend on how the source delivers its data.

  `runG` is the semantics over a source that hands out everything at once (`SliceSource`,
  `BytesSource`); `runS pol` is the semantics over ANY source obeying the `Source` contract
  (`Conforming pol`: each request grants at least `min(len, available)` and at most what is
  available), in which `slice()` is cut to what was granted and `bytes`/`advance` beyond the grant
  panic.  The theorem is proved once, by induction over the program, for EVERY routine - including
  those that capture (`Constructed::capture*`, constructed OCTET STRING decoding): the stream layer
  models open `CaptureSource`s (the base source is not advanced while a capture is open, every
  request reaches it with the captured offset added, `into_bytes` advances it).  It is instantiated
  below.
-/
import Bcder.Lemmas.Stream
import Bcder.Lemmas.NoCap
import Bcder.Model.Script
import Bcder.Model.Octet
import Bcder.Props.C11
namespace Bcder.Props.C07
open Bcder

/-- a fresh stream source over `data` with the given limit and no fault armed -/
def S.fresh (data : Bytes) (limit : Option Nat) : S :=
  { data := data, granted := 0, reqs := 0, failAt := none, limit := limit }
/-- the corresponding generous source -/
def G.fresh (data : Bytes) (limit : Option Nat) : G :=
  { data := data, limit := limit, frames := [], seen := 0 }

theorem rel_fresh (data : Bytes) (limit : Option Nat) : Rel (S.fresh data limit) (G.fresh data limit) :=
  ⟨rfl, rfl, rfl, Nat.le_refl 0, Nat.le_refl 0, Nat.zero_le _⟩

/-- C07 (main) — for EVERY routine `p` (capturing or not), every input, every limit and every
    conforming grant policy: if the run over a slice yields a value, the run over the streaming source yields
    the same value, has consumed the same octets and has stayed within the source contract (no
    `CONTRACT` panic is possible, since the result is `ok`); if the run over a slice rejects the
    input, so does the run over the streaming source, with the same error class. -/
theorem source_independence (pol : Policy) (hp : Conforming pol) (p : Prog α)
    (data : Bytes) (limit : Option Nat) :
    (∀ a g', runG p (G.fresh data limit) = .ok (a, g') →
      ∃ s', runS pol p (S.fresh data limit) = .ok (a, s') ∧ s'.data.drop s'.off = g'.data ∧
        s'.limit = g'.limit ∧ s'.frames = g'.frames) ∧
    (∀ e, runG p (G.fresh data limit) = .error e → e.isPanic = false →
      runS pol p (S.fresh data limit) = .error e) := by
  have h := run_sim pol hp p (S.fresh data limit) (G.fresh data limit) (rel_fresh data limit)
  constructor
  · intro a g' hg
    rcases h.1 a g' hg with ⟨hne, _⟩ | ⟨s', hs', R', _⟩
    · exact absurd rfl hne
    · exact ⟨s', hs', R'.data.symm, R'.limit.symm, R'.frames.symm⟩
  · intro e hg hp'
    rcases h.2 e hg hp' with ⟨hne, _⟩ | he
    · exact absurd rfl hne
    · exact he

/-- … and when no capture is left open at the end (every library routine closes what it opens), the
    base source has been advanced exactly as far as the slice -/
theorem source_independence_closed (pol : Policy) (hp : Conforming pol) (p : Prog α)
    (data : Bytes) (limit : Option Nat)
    (hclosed : ∀ a g', runG p (G.fresh data limit) = .ok (a, g') → g'.frames = []) :
    (∀ a g', runG p (G.fresh data limit) = .ok (a, g') →
      ∃ s', runS pol p (S.fresh data limit) = .ok (a, s') ∧ s'.data = g'.data ∧ s'.limit = g'.limit) ∧
    (∀ e, runG p (G.fresh data limit) = .error e → e.isPanic = false →
      runS pol p (S.fresh data limit) = .error e) := by
  obtain ⟨h1, h2⟩ := source_independence pol hp p data limit
  refine ⟨?_, h2⟩
  intro a g' hg
  obtain ⟨s', hs', hd, hl, hf⟩ := h1 a g' hg
  have : s'.off = 0 := by simp [S.off, hf, hclosed a g' hg]
  rw [this] at hd
  exact ⟨s', hs', by simpa using hd, hl⟩

/-- a capture-free routine leaves the capture frames as they were -/
theorem nocap_frames {p : Prog α} (hn : NoCap p) : ∀ (g : G) (a : α) (g' : G), runG p g = .ok (a, g') →
    g.frames = [] → g'.frames = [] := by
  intro g a g' h hf
  obtain ⟨k, _, _, hfr⟩ := run_consumed p (Bcder.Props.C11.uses_of_nocap hn) g a g' h
  rw [hfr, hf]

/-- the stingiest conforming source: grants exactly `min(len, available)` -/
def stingy : Policy := fun _ len avail => min len avail
theorem stingy_conforming : Conforming stingy := fun _ len avail => ⟨Nat.le_refl _, Nat.min_le_right _ _⟩
/-- a source that grows its buffer in chunks of `c ≥ 1` octets -/
def chunked (c : Nat) : Policy := fun _ len avail => min ((min len avail + c - 1) / c * c) avail
theorem chunked_conforming (c : Nat) (hc : 0 < c) : Conforming (chunked c) := by
  intro i len avail
  refine ⟨?_, Nat.min_le_right _ _⟩
  unfold chunked
  have h1 : min len avail ≤ (min len avail + c - 1) / c * c := by
    have := Nat.div_add_mod (min len avail + c - 1) c
    have hm := Nat.mod_lt (min len avail + c - 1) hc
    rw [Nat.mul_comm] at this
    omega
  have h2 : min len avail ≤ avail := Nat.min_le_right _ _
  omega

/-! ### the routines of the library model are capture-free, hence covered -/

theorem nocap_generic :
    ∀ (fuel : Nat),
      (∀ tag content x, NoCap (genericValue fuel tag content x)) ∧
      (∀ c x, NoCap (genericAll fuel c x)) := by
  intro fuel
  induction fuel with
  | zero => exact ⟨fun _ _ _ => NoCap.fail _, fun _ _ => NoCap.fail _⟩
  | succ fuel ih =>
    constructor
    · intro tag content x
      cases content with
      | prim m =>
        simp only [genericValue]
        have := nocap_prim_takeAll
        nocap
      | cons c =>
        simp only [genericValue]
        have h := ih.2
        nocap
        exact h _ _
    · intro c x
      simp only [genericAll, takeOptValue]
      have h1 := nocap_processNextValue c none (fun tag content => genericValue fuel tag content x)
        (fun t k => ih.1 t k x)
      have h2 := ih.2
      nocap
      exact h2 _ _

/-- C07 instantiated: reading a whole source value by value (the routine of C02), in any mode -/
theorem generic_read_independent (pol : Policy) (hp : Conforming pol) (m : Mode) (data : Bytes) (fuel : Nat) :
    let p : Prog Trace := decodeTop m (fun c => do let (c', x) ← genericAll fuel c {}; pure (x.trace, c'))
    (∀ a g', runG p (G.fresh data none) = .ok (a, g') →
      ∃ s', runS pol p (S.fresh data none) = .ok (a, s') ∧ s'.data = g'.data ∧ s'.limit = g'.limit) ∧
    (∀ e, runG p (G.fresh data none) = .error e → e.isPanic = false →
      runS pol p (S.fresh data none) = .error e) := by
  intro p
  have hnc : NoCap p := by
    apply nocap_decodeTop
    intro c
    have := (nocap_generic fuel).2 c {}
    nocap
  exact source_independence_closed pol hp p data none (fun a g' h => nocap_frames hnc _ a g' h rfl)

/-- C07 instantiated: skipping everything -/
theorem skip_all_independent (pol : Policy) (hp : Conforming pol) (m : Mode) (data : Bytes) (fuel : Nat) :
    let p : Prog Unit := decodeTop m (fun c => do let c' ← skipAll c fuel; pure ((), c'))
    (∀ a g', runG p (G.fresh data none) = .ok (a, g') →
      ∃ s', runS pol p (S.fresh data none) = .ok (a, s') ∧ s'.data = g'.data ∧ s'.limit = g'.limit) ∧
    (∀ e, runG p (G.fresh data none) = .error e → e.isPanic = false →
      runS pol p (S.fresh data none) = .error e) := by
  intro p
  have hnc : NoCap p := by
    apply nocap_decodeTop
    intro c
    have := nocap_skipAll fuel c
    nocap
  exact source_independence_closed pol hp p data none (fun a g' h => nocap_frames hnc _ a g' h rfl)

/-- C07 instantiated: every fixed-width INTEGER reader behind `take_primitive_if(INTEGER, …)` -/
theorem take_int_independent (pol : Policy) (hp : Conforming pol) (m : Mode) (ty : IntTy) (data : Bytes) :
    let p : Prog Int := decodeTop m (fun c =>
      takePrimitiveIf c Tag.INTEGER (fun md => do let v ← toInt ty; pure (v, md)))
    (∀ a g', runG p (G.fresh data none) = .ok (a, g') →
      ∃ s', runS pol p (S.fresh data none) = .ok (a, s') ∧ s'.data = g'.data ∧ s'.limit = g'.limit) ∧
    (∀ e, runG p (G.fresh data none) = .error e → e.isPanic = false →
      runS pol p (S.fresh data none) = .error e) := by
  intro p
  have hnc : NoCap p := by
    apply nocap_decodeTop
    intro c
    apply nocap_mandatory
    apply nocap_processNextValue
    intro t k
    apply nocap_asPrimitive
    intro md
    have := nocap_toInt ty
    nocap
  exact source_independence_closed pol hp p data none (fun a g' h => nocap_frames hnc _ a g' h rfl)

/-- C07 instantiated for routines that CAPTURE: `capture_one` (any `Constructed`, any input) -/
theorem capture_one_independent (pol : Policy) (hp : Conforming pol) (m : Mode) (data : Bytes) (fuel : Nat) :
    let p : Prog Bytes := decodeTop m (fun c => captureOne c fuel)
    (∀ a g', runG p (G.fresh data none) = .ok (a, g') →
      ∃ s', runS pol p (S.fresh data none) = .ok (a, s') ∧ s'.data.drop s'.off = g'.data ∧
        s'.limit = g'.limit ∧ s'.frames = g'.frames) ∧
    (∀ e, runG p (G.fresh data none) = .error e → e.isPanic = false →
      runS pol p (S.fresh data none) = .error e) :=
  source_independence pol hp _ data none

/-- C07 instantiated: decoding an OCTET STRING, primitive or constructed (the constructed forms are
    read inside `Constructed::capture`) -/
theorem octet_string_independent (pol : Policy) (hp : Conforming pol) (m : Mode) (data : Bytes) (fuel : Nat) :
    let p : Prog OS := decodeTop m (fun c => takeValueIf c Tag.OCTET_STRING (OS.fromContent fuel))
    (∀ a g', runG p (G.fresh data none) = .ok (a, g') →
      ∃ s', runS pol p (S.fresh data none) = .ok (a, s') ∧ s'.data.drop s'.off = g'.data ∧
        s'.limit = g'.limit ∧ s'.frames = g'.frames) ∧
    (∀ e, runG p (G.fresh data none) = .error e → e.isPanic = false →
      runS pol p (S.fresh data none) = .error e) :=
  source_independence pol hp _ data none

/-- non-vacuity: a constructed OCTET STRING of indefinite length read over the stingy source and
    over a source growing one octet at a time: same value, all input consumed, no capture left open -/
example : ∃ s', runS stingy (decodeTop .ber (fun c => takeValueIf c Tag.OCTET_STRING (OS.fromContent 5)))
      (S.fresh [0x24, 0x80, 0x04, 0x01, 0x61, 0x04, 0x01, 0x62, 0x00, 0x00] none) =
        .ok (.cons [0x04, 0x01, 0x61, 0x04, 0x01, 0x62], s') ∧ s'.data = [] ∧ s'.frames = [] := ⟨_, rfl, rfl, rfl⟩
example : ∃ s', runS (chunked 1) (decodeTop .ber (fun c => takeValueIf c Tag.OCTET_STRING (OS.fromContent 5)))
      (S.fresh [0x24, 0x80, 0x04, 0x01, 0x61, 0x04, 0x01, 0x62, 0x00, 0x00] none) =
        .ok (.cons [0x04, 0x01, 0x61, 0x04, 0x01, 0x62], s') ∧ s'.data = [] ∧ s'.frames = [] := ⟨_, rfl, rfl, rfl⟩

/-- non-vacuity: a concrete accepted run over the stingy source -/
example : ∃ s', runS stingy (decodeTop .der (fun c =>
      takePrimitiveIf c Tag.INTEGER (fun md => do let v ← toInt .u8; pure (v, md))))
      (S.fresh [0x02, 0x02, 0x00, 0x80] none) = .ok (128, s') := ⟨_, rfl⟩

end Bcder.Props.C07
