/-
  C01 (continued) — totality of the typed decoders, collected from the per-type theorems: on EVERY
  content, in every mode, each typed accessor followed by the exhaustion check ends in a value or a
  content error (octet strings and skipping: or the model's out-of-fuel marker when the caller-supplied
  loop budget is too small) — never in one of the model's panic sites.
-/
import Bcder.Props.C14
import Bcder.Props.C15
import Bcder.Props.C16b
import Bcder.Props.C18
import Bcder.Props.C19
import Bcder.Props.C20
namespace Bcder.Props.C01b
open Bcder Bcder.Spec Prog Bcder.Props.C02

/-- the outcome is a value or a content error -/
def Total {α : Type} (r : Res α) : Prop := (∃ a, r = .ok a) ∨ r = .error .content
/-- … or out of the caller-supplied loop budget -/
def TotalF {α : Type} (r : Res α) : Prop := (∃ a, r = .ok a) ∨ r = .error .content ∨ r = .error .fuel

theorem total_of_ite {α : Type} (p : Prop) [Decidable p] (a : α) : Total (if p then .ok a else .error .content : Res α) := by
  by_cases h : p
  · rw [if_pos h]; exact .inl ⟨a, rfl⟩
  · rw [if_neg h]; exact .inr rfl

/-- all ten fixed-width INTEGER accessors -/
theorem int_total (ty : IntTy) (c rest : Bytes) : Total (C14.primRun (toInt ty) c rest) := by
  rw [C14.decode_eq_spec]
  cases decodeInt ty.signed ty.width c with
  | some v => exact .inl ⟨_, rfl⟩
  | none => exact .inr rfl

theorem bool_total (m : Mode) (c rest : Bytes) : Total (C14.primRun (toBool m) c rest) := by
  rw [C14.bool_eq_spec]
  cases decodeBool m.isBer c with
  | some v => exact .inl ⟨_, rfl⟩
  | none => exact .inr rfl

theorem null_total (c rest : Bytes) : Total (C14.primRun toNull c rest) := by
  rw [C14.null_eq_spec]; exact total_of_ite _ _

/-- arbitrary-size INTEGER -/
theorem integer_total (c rest : Bytes) : Total (runG0 integerFromPrimitive (St (c ++ rest) (some c.length))) := by
  rw [C15.integerFromPrimitive_spec]; exact total_of_ite _ _
theorem unsigned_total (c rest : Bytes) : Total (runG0 unsignedFromPrimitive (St (c ++ rest) (some c.length))) := by
  rw [C15.unsignedFromPrimitive_spec]; exact total_of_ite _ _

/-- OBJECT IDENTIFIER: take and skip -/
theorem oid_total (c rest : Bytes) :
    Total (runG0 (do let r ← Oid.fromPrimitive; limitedExhausted; pure r) (St (c ++ rest) (some c.length))) := by
  rw [C20.fromPrimitive_exhausted]; exact total_of_ite _ _

/-- BIT STRING -/
theorem bits_total (m : Mode) (c rest : Bytes) :
    Total (runG0 (C19.fromContentChecked (.prim m)) (St (c ++ rest) (some c.length))) := by
  rw [C19.fromContent_exhausted_run]
  unfold C19.decoded
  cases c with
  | nil => exact .inr rfl
  | cons u data => exact total_of_ite _ _

/-- OCTET STRING, primitive form -/
theorem octets_prim_total (fuel : Nat) (m : Mode) (c rest : Bytes) :
    Total (runG0 (C16.fromContentChecked fuel (.prim m)) (St (c ++ rest) (some c.length))) := by
  rw [C16.prim_accept]; exact total_of_ite _ _

/-- OCTET STRING, constructed form: DER rejects, BER and CER end in a value, a content error or out of budget -/
theorem octets_cons_der_total (fuel : Nat) (st : CState) (g : G0) :
    Total (runG0 (OS.fromContent fuel (.cons ⟨st, .der, 0⟩)) g) := .inr (C16.cons_der_reject fuel st g)

theorem octets_cons_ber_total (fuel : Nat) (st : CState) (d : Bytes) (lo : Option Nat) (hc : st = .definite → lo ≠ none) :
    TotalF (runG0 (OS.fromContent fuel (.cons ⟨st, .ber, 0⟩)) (St d lo)) := by
  cases h : runG0 (OS.fromContent fuel (.cons ⟨st, .ber, 0⟩)) (St d lo) with
  | ok a => exact .inl ⟨a, rfl⟩
  | error e =>
    rcases C16b.fromContent_nopanic fuel st d lo hc e h with h1 | h1
    · exact .inr (.inl (by rw [h1]))
    · exact .inr (.inr (by rw [h1]))

/-- restricted character strings: the character decoder is total on every octet string -/
theorem chars_total (cs : CharSet) (bs : Bytes) : ∃ r, CharSet.chars cs bs = .ok r :=
  ⟨_, C18.chars_eq_spec cs bs⟩

/-- skipping: every failure of `skip_opt` (any filter, any budget) is a content error or the budget -/
theorem skip_total {σ : Type} (c : Cons) (filter : σ → Tag → Bool → Nat → Option σ) (st : σ) (N : Nat) (g : G0)
    (hf : g.frames = []) (hd : c.state = .definite → g.limit ≠ none) :
    TotalF (runG0 (skipOpt c filter st N) g) := by
  cases h : runG0 (skipOpt c filter st N) g with
  | ok a => exact .inl ⟨a, rfl⟩
  | error e =>
    rcases C16b.skipOpt_nopanic (c := c) (filter := filter) st N g e hf hd h with h1 | h1
    · exact .inr (.inl (by rw [h1]))
    · exact .inr (.inr (by rw [h1]))

end Bcder.Props.C01b
