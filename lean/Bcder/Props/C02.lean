/-
  C02 — Generic decoding accepts exactly well-formed X.690 structure for the mode.

  `readAll` / `readValue` read a source value by value through the model of
  `Constructed::process_next_value` (descending into constructed values, taking the content of
  primitive ones) and return what they saw as a `Spec.Tree`.  The theorem `refines` states that on
  EVERY input, in every mode and in every enclosing context (top level, definite parent with any
  limit, indefinite parent) this reader succeeds exactly when the sub-list grammar parser of
  `Bcder.Spec.Tlv` does, with the same trees and the source advanced exactly to the end of the last
  value read.  It is stated for `runG0`, the semantics of `SliceSource` (`runG` refines it, see
  Lemmas/G0.lean; C07 extends it to every conforming source).
-/
import Bcder.Lemmas.Header
import Bcder.Model.Generic
namespace Bcder.Props.C02
open Bcder Bcder.Spec Prog

theorem toM_isBer (m : Mode) : (toM m).isBer = m.isBer := by cases m <;> rfl

/-! ### basic facts on sources without an open capture -/

abbrev St (d : Bytes) (l : Option Nat) : G0 := ⟨d, l, []⟩

theorem run_getLimit (g : G0) : runG0 getLimit g = .ok (g.limit, g) := by
  simp [getLimit, runG0, stepG0]
theorem run_setLimit (g : G0) (l : Option Nat) : runG0 (setLimit l) g = .ok ((), { g with limit := l }) := by
  simp [setLimit, runG0, stepG0]
theorem run_getPos (g : G0) : runG0 getPos g = .ok (g.data.length, g) := by
  simp [getPos, runG0, stepG0]
theorem run_need (g : G0) (n : Nat) : runG0 (need n) g = .ok (decide (n ≤ g.view.length), g) := by
  simp [need, runG0, stepG0]

/-- `LimitedSource::take_all` on a window of `len` octets -/
theorem run_takeAll (d : Bytes) (len : Nat) :
    runG0 Prim.takeAll (St d (some len)) =
      if len ≤ d.length then .ok (d.take len, St (d.drop len) (some 0)) else .error .content := by
  unfold Prim.takeAll Prim.remaining
  simp only [runG0_bind, run_getLimit, run_need]
  have hv : (St d (some len)).view.length = min len d.length := by simp [G0.view, List.length_take]
  by_cases h : len ≤ d.length
  · have : len ≤ (St d (some len)).view.length := by rw [hv]; omega
    simp only [h, this, decide_true, if_true, runG0_pure]
    have ha := G0.advance_eq (St d (some len)) rfl len this
    have hlt : ¬ min len d.length < len := by omega
    simp [takeN, runG0, stepG0, ha, G0.adv, hv, hlt]
  · have : ¬ len ≤ (St d (some len)).view.length := by rw [hv]; omega
    simp [h, this]

/-- `LimitedSource::exhausted` -/
theorem run_limitedExhausted (d : Bytes) (l : Nat) :
    runG0 limitedExhausted (St d (some l)) = if l = 0 then .ok ((), St d (some l)) else .error .content := by
  unfold limitedExhausted
  simp only [runG0_bind, run_getLimit]
  cases l <;> simp


/-! ### `process_next_value` (untagged) as a function of the view -/

theorem tagOf_eoc (id : Ident) (hc : id.cls ≤ 3) (hn : id.num ≤ 0x1fffff) :
    (C12.tagOf id.cls id.num = Tag.END_OF_VALUE) ↔ isEocIdent id = true := by
  have e0 : C12.tagOf 0 0 = Tag.END_OF_VALUE := by rfl
  constructor
  · intro h
    rw [← e0] at h
    obtain ⟨h1, h2⟩ := C12.tagOf_inj _ _ _ _ hc (by omega) hn (by omega) h
    simp [isEocIdent, h1, h2]
  · intro h
    simp [isEocIdent] at h
    obtain ⟨h1, h2⟩ := h
    rw [h1, h2, e0]

theorem adv_frames (g : G0) (n : Nat) : (g.adv n).frames = [] := rfl

def lenOf : Option Nat → Length
  | some n => .definite n
  | none => .indefinite

/-- the outcome of the value part of `process_next_value` once the header is known -/
def bodyF (c : Cons) (op : Tag → Content → Prog (α × Content)) (hd : Nat) (g2 : G0) (id : Ident) (len? : Option Nat) :
    Res ((Option α × Cons) × G0) :=
  let tag := C12.tagOf id.cls id.num
  if isEocIdent id then
    if c.state = .indefinite then
      if id.constructed then .error .content
      else if len? ≠ some 0 then .error .content
      else .ok ((none, { c with state := .done, eoc := hd - g2.data.length }), g2)
    else .error .content
  else match len? with
    | some len =>
      if (match g2.limit with | some l => decide (len > l) | none => false) then .error .content
      else if id.constructed && c.mode == .cer then .error .content
      else
        let content : Content := if id.constructed then .cons ⟨.definite, c.mode, 0⟩ else .prim c.mode
        match runG0 (op tag content) (St g2.data (some len)) with
        | .error e => .error e
        | .ok ((res, content'), g3) =>
          match runG0 content'.exhausted g3 with
          | .error e => .error e
          | .ok (_, g4) => .ok ((some res, c), { g4 with limit := g2.limit.map (· - len) })
    | none =>
      if !id.constructed || c.mode == .der then .error .content
      else match runG0 (op tag (.cons ⟨.indefinite, c.mode, 0⟩)) g2 with
        | .error e => .error e
        | .ok ((res, content'), g3) =>
          match runG0 content'.exhausted g3 with
          | .error e => .error e
          | .ok (_, g4) => .ok ((some res, c), g4)

theorem pnv_body (c : Cons) (op : Tag → Content → Prog (α × Content)) (hd : Nat) (g2 : G0) (hf2 : g2.frames = [])
    (id : Ident) (hb : id.cls ≤ 3 ∧ id.num ≤ 0x1fffff) (len? : Option Nat) :
    runG0 (processValueBody c op hd (C12.tagOf id.cls id.num) id.constructed (lenOf len?)) g2 =
      bodyF c op hd g2 id len? := by
  have heoc := tagOf_eoc id hb.1 hb.2
  unfold processValueBody bodyF
  by_cases he : isEocIdent id = true
  · have ht : C12.tagOf id.cls id.num = Tag.END_OF_VALUE := heoc.mpr he
    simp only [ht, he, if_true]
    by_cases hi : c.state = .indefinite
    · simp only [hi, if_true]
      by_cases hc : id.constructed = true
      · simp [hc]
      · simp only [hc, Bool.false_eq_true, if_false]
        cases len? with
        | none => simp [Length.isZero, lenOf]
        | some n =>
          cases n with
          | zero => simp [Length.isZero, lenOf, runG0_bind, run_getPos]
          | succ n => simp [Length.isZero, lenOf]
    · simp [hi]
  · have ht : ¬ C12.tagOf id.cls id.num = Tag.END_OF_VALUE := fun h => he (heoc.mp h)
    simp only [ht, he, if_false, Bool.false_eq_true]
    cases len? with
    | none =>
      simp only [lenOf]
      by_cases h1 : (!id.constructed || c.mode == .der) = true
      · simp [h1]
      · simp only [h1, Bool.false_eq_true, if_false, runG0_bind]
        cases runG0 (op (C12.tagOf id.cls id.num) (.cons ⟨.indefinite, c.mode, 0⟩)) g2 with
        | error e => rfl
        | ok r =>
          obtain ⟨⟨res, content'⟩, g3⟩ := r
          simp only
          cases runG0 content'.exhausted g3 with
          | error e => rfl
          | ok r2 => obtain ⟨u, g4⟩ := r2; rfl
    | some len =>
      have hst : ({ g2 with limit := some len } : G0) = St g2.data (some len) := by
        cases g2 with
        | mk d l f => simp at hf2; subst hf2; rfl
      simp only [lenOf, runG0_bind, run_getLimit]
      cases hlim : g2.limit with
      | none =>
        simp only [Bool.false_eq_true, if_false, runG0_bind, run_setLimit]
        by_cases h2 : (id.constructed && c.mode == .cer) = true
        · simp [h2]
        · simp only [h2, Bool.false_eq_true, if_false, runG0_bind]
          rw [hst]
          cases runG0 (op (C12.tagOf id.cls id.num)
              (if id.constructed = true then Content.cons ⟨.definite, c.mode, 0⟩ else Content.prim c.mode))
              (St g2.data (some len)) with
          | error e => rfl
          | ok r =>
            obtain ⟨⟨res, content'⟩, g3⟩ := r
            simp only
            cases runG0 content'.exhausted g3 with
            | error e => rfl
            | ok r2 => obtain ⟨u, g4⟩ := r2; simp [run_setLimit]
      | some l =>
        by_cases hgt : len > l
        · simp [hgt]
        · have hd : decide (len > l) = false := by simp [hgt]
          simp only [hd, Bool.false_eq_true, if_false, runG0_bind, run_setLimit]
          by_cases h2 : (id.constructed && c.mode == .cer) = true
          · simp [h2]
          · simp only [h2, Bool.false_eq_true, if_false, runG0_bind]
            rw [hst]
            cases runG0 (op (C12.tagOf id.cls id.num)
                (if id.constructed = true then Content.cons ⟨.definite, c.mode, 0⟩ else Content.prim c.mode))
                (St g2.data (some len)) with
            | error e => rfl
            | ok r =>
              obtain ⟨⟨res, content'⟩, g3⟩ := r
              simp only
              cases runG0 content'.exhausted g3 with
              | error e => rfl
              | ok r2 => obtain ⟨u, g4⟩ := r2; simp [run_setLimit]

/-- the header of the next value -/
def headerF (m : Mode) (g : G0) : Option ((Ident × Option Nat) × G0) :=
  match readIdent g.view with
  | none => none
  | some (id, k) =>
    match readLen m.isBer (g.adv k).view with
    | none => none
    | some (len?, kl) => some ((id, len?), (g.adv k).adv kl)

/-- what `process_next_value(None, op)` does on a source `g`, given how `op` behaves -/
def pnvF (c : Cons) (op : Tag → Content → Prog (α × Content)) (g : G0) : Res ((Option α × Cons) × G0) :=
  if c.state = .done then .ok ((none, c), g)
  else if c.state = .definite ∧ g.limit = none then .error (.panic "is_exhausted: no limit")
  else if c.state = .definite ∧ g.limit = some 0 then .ok ((none, c), g)
  else if c.state = .unbounded ∧ g.view = [] then .ok ((none, c), g)
  else match headerF c.mode g with
    | none => .error .content
    | some ((id, len?), g2) => bodyF c op g.data.length g2 id len?

theorem run_isExhausted (c : Cons) (g : G0) :
    runG0 c.isExhausted g =
      match c.state with
      | .definite => (match g.limit with | some l => .ok (l == 0, g) | none => .error (.panic "is_exhausted: no limit"))
      | .indefinite => .ok (false, g)
      | .done => .ok (true, g)
      | .unbounded => .ok (false, g) := by
  unfold Cons.isExhausted
  cases c.state <;> simp [runG0_bind, run_getLimit]
  cases g.limit <;> simp [Prog.panic]

/-- `process_next_value(None, op)` on any source without an open capture -/
theorem pnv_eq (c : Cons) (op : Tag → Content → Prog (α × Content)) (g : G0) (hf : g.frames = []) :
    runG0 (processNextValue c none op) g = pnvF c op g := by
  -- reading identifier and length octets and continuing with the body
  have hdr : ∀ (hne : ¬ (c.state = .unbounded ∧ g.view = [])),
      runG0 (do
        let hdr ← c.takeOptTag
        match hdr with
        | none => return (none, c)
        | some (tag, constructed) =>
          let length ← Length.takeFrom c.mode
          processValueBody c op g.data.length tag constructed length) g =
      match headerF c.mode g with
      | none => .error .content
      | some ((id, len?), g2) => bodyF c op g.data.length g2 id len? := by
    intro hne
    unfold headerF
    simp only [runG0_bind]
    -- the identifier
    have htag : runG0 c.takeOptTag g = match readIdent g.view with
        | none => .error .content
        | some (id, k) => .ok (some (C12.tagOf id.cls id.num, id.constructed), g.adv k) := by
      unfold Cons.takeOptTag
      by_cases hu : c.state = .unbounded
      · have hv : ¬ g.view = [] := fun h => hne ⟨hu, h⟩
        simp only [hu, if_true, tag_takeOptFrom0 g hf, hv, if_false]
        cases readIdent g.view with
        | none => rfl
        | some r => obtain ⟨id, k⟩ := r; rfl
      · simp only [hu, if_false, runG0_bind, tag_takeFrom0 g hf]
        cases readIdent g.view with
        | none => rfl
        | some r => obtain ⟨id, k⟩ := r; rfl
    rw [htag]
    cases hr : readIdent g.view with
    | none => rfl
    | some r =>
      obtain ⟨id, k⟩ := r
      obtain ⟨hc, hn, _, _, _⟩ := C12.readIdent_bounds g.view id k hr
      simp only [runG0_bind, length_takeFrom0 c.mode (g.adv k) rfl]
      cases hl : readLen c.mode.isBer (g.adv k).view with
      | none => rfl
      | some r2 =>
        obtain ⟨len?, kl⟩ := r2
        cases len? with
        | none => simp only; exact pnv_body c op _ _ rfl id ⟨hc, hn⟩ none
        | some n => simp only; exact pnv_body c op _ _ rfl id ⟨hc, hn⟩ (some n)
  unfold processNextValue pnvF
  simp only [runG0_bind, run_isExhausted, run_getPos]
  cases hs : c.state with
  | done => simp
  | definite =>
    cases hlim : g.limit with
    | none => simp
    | some l =>
      cases l with
      | zero => simp
      | succ l =>
        have hne : ¬ (c.state = .unbounded ∧ g.view = []) := by simp [hs]
        have := hdr hne
        simp only [hs] at this ⊢
        simp only [Nat.succ_ne_zero, beq_iff_eq, Bool.false_eq_true, if_false, reduceCtorEq, false_and,
          and_false, Option.some.injEq, true_and]
        exact this
  | indefinite =>
    have hne : ¬ (c.state = .unbounded ∧ g.view = []) := by simp [hs]
    have := hdr hne
    simp only [hs] at this ⊢
    simp only [Bool.false_eq_true, if_false, reduceCtorEq, false_and]
    exact this
  | unbounded =>
    by_cases hv : g.view = []
    · simp only [hv, and_self, if_true, Bool.false_eq_true, if_false, reduceCtorEq, false_and]
      have : runG0 c.takeOptTag g = .ok (none, g) := by
        unfold Cons.takeOptTag
        simp only [hs, if_true, tag_takeOptFrom0 g hf, hv]
      simp [runG0_bind, this, run_getPos]
    · have hne : ¬ (c.state = .unbounded ∧ g.view = []) := by simp [hv]
      have := hdr hne
      simp only [hs] at this ⊢
      simp only [Bool.false_eq_true, if_false, reduceCtorEq, false_and, hv, and_false]
      exact this


/-! ### the reference parser only ever returns a suffix of its input -/

theorem readIdent_le (v : Bytes) (id : Ident) (k : Nat) (h : readIdent v = some (id, k)) : k ≤ v.length :=
  (C12.readIdent_bounds v id k h).2.2.2.1

theorem suffix_lemma (m : M) : ∀ (f : Nat),
    (∀ v t rest, parseValue m f v = some (t, rest) → ∃ n, n ≤ v.length ∧ rest = v.drop n) ∧
    (∀ v ts rest, parseUntilEoc m f v = some (ts, rest) → ∃ n, n ≤ v.length ∧ rest = v.drop n) := by
  intro f
  induction f with
  | zero => exact ⟨fun v t rest h => by simp [parseValue] at h, fun v ts rest h => by simp [parseUntilEoc] at h⟩
  | succ f ih =>
    obtain ⟨ihV, ihE⟩ := ih
    constructor
    · intro v t rest h
      simp only [parseValue] at h
      cases hr : readIdent v with
      | none => simp [hr] at h
      | some r =>
        obtain ⟨id, k⟩ := r
        have hk := readIdent_le v id k hr
        simp only [hr] at h
        split at h
        · simp at h
        · cases hl : readLen m.isBer (v.drop k) with
          | none => simp [hl] at h
          | some r2 =>
            obtain ⟨len?, kl⟩ := r2
            have hkl := (readLen_bound _ _ len? kl hl).2
            simp only [List.length_drop] at hkl
            simp only [hl] at h
            cases len? with
            | some n =>
              simp only at h
              split at h
              · simp at h
              · rename_i hn
                simp only [List.length_drop] at hn
                have : rest = v.drop (k + kl + n) := by
                  split at h
                  · simp at h; exact h.2.symm
                  · split at h
                    · simp at h
                    · split at h <;> simp at h
                      exact h.2.symm
                exact ⟨k + kl + n, by omega, this⟩
            | none =>
              simp only at h
              split at h
              · simp at h
              · cases he : parseUntilEoc m f (v.drop (k + kl)) with
                | none => simp [he] at h
                | some r3 =>
                  obtain ⟨kids, rest'⟩ := r3
                  simp [he] at h
                  obtain ⟨n, hn, hrest⟩ := ihE _ _ _ he
                  simp only [List.length_drop] at hn
                  exact ⟨k + kl + n, by omega, by rw [← h.2, hrest, List.drop_drop]⟩
    · intro v ts rest h
      simp only [parseUntilEoc] at h
      cases hr : readIdent v with
      | none => simp [hr] at h
      | some r =>
        obtain ⟨id, k⟩ := r
        have hk := readIdent_le v id k hr
        simp only [hr] at h
        split at h
        · split at h
          · simp at h
          · cases hl : readLen m.isBer (v.drop k) with
            | none => simp [hl] at h
            | some r2 =>
              obtain ⟨len?, kl⟩ := r2
              have hkl := (readLen_bound _ _ len? kl hl).2
              simp only [List.length_drop] at hkl
              simp only [hl] at h
              split at h
              · rename_i kl' heq
                simp at heq
                simp at h
                obtain ⟨_, hkk⟩ := heq
                subst hkk
                exact ⟨k + kl, by omega, h.2.symm⟩
              · simp at h
        · cases hv : parseValue m f v with
          | none => simp [hv] at h
          | some r2 =>
            obtain ⟨t, rest1⟩ := r2
            simp only [hv] at h
            obtain ⟨n1, hn1, hr1⟩ := ihV _ _ _ hv
            cases he : parseUntilEoc m f rest1 with
            | none => simp [he] at h
            | some r3 =>
              obtain ⟨ts', rest2⟩ := r3
              simp [he] at h
              obtain ⟨n2, hn2, hr2⟩ := ihE _ _ _ he
              rw [hr1] at hn2 hr2
              simp only [List.length_drop] at hn2
              exact ⟨n1 + n2, by omega, by rw [← h.2, hr2, List.drop_drop]⟩


/-! ### the refinement -/

/-- the model result `r` agrees with the reference result `s`: same value and same source state on
    success; rejection by the reference parser is a content error of the model (or the model's fuel
    running out, which `fuel_enough` excludes for the fuel the library's loops never exceed) -/
def Rel0 {β : Type} (r : Res (β × G0)) (s : Option (β × G0)) : Prop :=
  match r, s with
  | .ok x, some y => x = y
  | .error .content, none => True
  | .error .fuel, none => True
  | _, _ => False

theorem rel0_none {β : Type} (r : Res (β × G0)) : Rel0 r none ↔ (r = .error .content ∨ r = .error .fuel) := by
  cases r with
  | ok x => simp [Rel0]
  | error e => cases e <;> simp [Rel0]

theorem rel0_some {β : Type} (r : Res (β × G0)) (y : β × G0) : Rel0 r (some y) ↔ r = .ok y := by
  cases r with
  | ok x => simp [Rel0]
  | error e => cases e <;> simp [Rel0]

def specD (m : Mode) (e : Nat) (f : Nat) (d : Bytes) (l : Nat) : Option ((List Tree × Cons) × G0) :=
  if l ≤ d.length then
    (parseAll (toM m) f (d.take l)).map fun ts => ((ts, ⟨.definite, m, e⟩), St (d.drop l) (some 0))
  else none

def specU (m : Mode) (e : Nat) (f : Nat) (d : Bytes) : Option ((List Tree × Cons) × G0) :=
  (parseAll (toM m) f d).map fun ts => ((ts, ⟨.unbounded, m, e⟩), St [] none)

/-- the size of the end-of-contents marker that `parseUntilEoc` stops at (`Constructed::eoc_len`) -/
def eocLen (m : M) : Nat → Bytes → Nat
  | 0, _ => 0
  | fuel + 1, bs =>
    match readIdent bs with
    | none => 0
    | some (id, k) =>
      if isEocIdent id then
        match readLen m.isBer (bs.drop k) with
        | some (_, kl) => k + kl
        | none => 0
      else match parseValue m fuel bs with
        | some (_, rest) => eocLen m fuel rest
        | none => 0

def specI (m : Mode) (f : Nat) (g : G0) : Option ((List Tree × Cons) × G0) :=
  (parseUntilEoc (toM m) f g.view).map fun p =>
    ((p.1, ⟨.done, m, eocLen (toM m) f g.view⟩), g.adv (g.view.length - p.2.length))

def specV (c : Cons) (f : Nat) (g : G0) : Option ((Option Tree × Cons) × G0) :=
  (parseValue (toM c.mode) f g.view).map fun p => ((some p.1, c), g.adv (g.view.length - p.2.length))

/-- reading one value that is there (header and body) -/
def valuePart (c : Cons) (f : Nat) (g : G0) : Res ((Option Tree × Cons) × G0) :=
  match headerF c.mode g with
  | none => .error .content
  | some ((id, len?), g2) => bodyF c (readValue f) g.data.length g2 id len?

def DS (f : Nat) : Prop := ∀ m e d l, Rel0 (runG0 (readAll f ⟨.definite, m, e⟩) (St d (some l))) (specD m e f d l)
def IS (f : Nat) : Prop := ∀ m e g, g.frames = [] → Rel0 (runG0 (readAll f ⟨.indefinite, m, e⟩) g) (specI m f g)
def US (f : Nat) : Prop := ∀ m e d, Rel0 (runG0 (readAll f ⟨.unbounded, m, e⟩) (St d none)) (specU m e f d)
/-- in an indefinite parent the end-of-contents header is handled by the caller, not here -/
def VS (f : Nat) : Prop := ∀ c g, g.frames = [] →
  (c.state = .indefinite → ∀ id k, readIdent g.view = some (id, k) → isEocIdent id = false) →
  Rel0 (valuePart c f g) (specV c f g)

theorem identOf_tagOf (id : Ident) (hc : id.cls ≤ 3) (hn : id.num ≤ 0x1fffff) (b : Bool) :
    identOf (C12.tagOf id.cls id.num) b = ⟨id.cls, b, id.num⟩ := by
  obtain ⟨t, ht, h1, h2⟩ := C12.new_number_class id.cls id.num hc hn
  have : C12.tagOf id.cls id.num = t := by simp [C12.tagOf, ht]
  rw [this]
  simp only [identOf, h1, h2]
  congr 1
  omega

theorem view_adv_len (g : G0) (n : Nat) (hn : n ≤ g.view.length) : (g.adv n).view.length = g.view.length - n := by
  rw [g.adv_view n hn]; simp

/-- limit and view length -/
theorem view_le_limit (g : G0) (l : Nat) (h : g.limit = some l) : g.view.length ≤ l := by
  simp [G0.view, h, List.length_take]; omega

theorem view_eq_data (g : G0) (h : g.limit = none) : g.view = g.data := by simp [G0.view, h]

theorem view_len (g : G0) : g.view.length = match g.limit with | some l => min l g.data.length | none => g.data.length := by
  cases h : g.limit <;> simp [G0.view, h, List.length_take]


/-- what the reference parser does with the body of a value whose header has been read -/
def bodySpec (c : Cons) (f : Nat) (id : Ident) (len? : Option Nat) (g2 : G0) :
    Option ((Option Tree × Cons) × G0) :=
  match len? with
  | some n =>
    if g2.view.length < n then none
    else if !id.constructed then some ((some (.prim id (g2.view.take n)), c), g2.adv n)
    else if toM c.mode == .cer then none
    else (parseAll (toM c.mode) f (g2.view.take n)).map fun kids => ((some (.cons id false kids), c), g2.adv n)
  | none =>
    if !id.constructed || toM c.mode == .der then none
    else (parseUntilEoc (toM c.mode) f g2.view).map fun p =>
      ((some (.cons id true p.1), c), g2.adv (g2.view.length - p.2.length))

theorem toM_cer (m : Mode) : (toM m == M.cer) = (m == Mode.cer) := by cases m <;> rfl
theorem toM_der (m : Mode) : (toM m == M.der) = (m == Mode.der) := by cases m <;> rfl

theorem ident_eta (id : Ident) (b : Bool) (h : id.constructed = b) : id = ⟨id.cls, b, id.num⟩ := by
  cases id; cases h; rfl

theorem adv_eq_St (g : G0) (n : Nat) : g.adv n = St (g.data.drop n) (g.limit.map (· - n)) := rfl

theorem body_rel (f : Nat) (hD : DS f) (hI : IS f) (c : Cons) (hd : Nat) (g2 : G0) (hf2 : g2.frames = [])
    (id : Ident) (hc : id.cls ≤ 3) (hn : id.num ≤ 0x1fffff) (hne : isEocIdent id = false) (len? : Option Nat) :
    Rel0 (bodyF c (readValue (f + 1)) hd g2 id len?) (bodySpec c f id len? g2) := by
  have hg2 : g2 = St g2.data g2.limit := by
    cases g2 with
    | mk d l fr => simp at hf2; subst hf2; rfl
  have hid : ∀ b, identOf (C12.tagOf id.cls id.num) b = ⟨id.cls, b, id.num⟩ := identOf_tagOf id hc hn
  unfold bodyF bodySpec
  simp only [hne, Bool.false_eq_true, if_false]
  cases len? with
  | some n =>
    simp only
    have hvl := view_len g2
    -- the limit check
    by_cases hover : (match g2.limit with | some l => decide (n > l) | none => false) = true
    · have : g2.view.length < n := by
        cases hl : g2.limit with
        | none => simp [hl] at hover
        | some l => simp [hl] at hover hvl; omega
      simp [hover, this, Rel0]
    · simp only [hover, Bool.false_eq_true, if_false]
      have hnl : ∀ l, g2.limit = some l → n ≤ l := by
        intro l hl; simp [hl] at hover; omega
      -- view length vs data length
      have hlen : (g2.view.length < n) ↔ (g2.data.length < n) := by
        cases hl : g2.limit with
        | none => simp [hl] at hvl; omega
        | some l => have := hnl l hl; simp [hl] at hvl; omega
      have htake : g2.view.take n = g2.data.take n := by
        cases hl : g2.limit with
        | none => simp [G0.view, hl]
        | some l =>
          have := hnl l hl
          simp only [G0.view, hl, List.take_take]; congr 1; omega
      by_cases hcons : id.constructed = true
      · -- constructed
        simp only [hcons, Bool.true_and, Bool.not_true, Bool.false_eq_true, if_false, if_true, toM_cer]
        by_cases hcer : (c.mode == .cer) = true
        · simp only [hcer, if_true]
          by_cases hs : g2.view.length < n <;> simp [hs, Rel0]
        · simp only [hcer, Bool.false_eq_true, if_false]
          -- the closure: descend
          have hrv : ∀ g, runG0 (readValue (f + 1) (C12.tagOf id.cls id.num) (.cons ⟨.definite, c.mode, 0⟩)) g =
              match runG0 (readAll f ⟨.definite, c.mode, 0⟩) g with
              | .ok ((kids, c'), g') => .ok ((.cons ⟨id.cls, true, id.num⟩ false kids, .cons c'), g')
              | .error e => .error e := by
            intro g
            simp only [readValue, runG0_bind, hid]
            cases runG0 (readAll f ⟨.definite, c.mode, 0⟩) g with
            | error e => rfl
            | ok r => obtain ⟨⟨kids, c'⟩, g'⟩ := r; rfl
          rw [hrv]
          have hd := hD c.mode 0 g2.data n
          unfold specD at hd
          by_cases hs : g2.data.length < n
          · have hs' : g2.view.length < n := hlen.mpr hs
            have : ¬ n ≤ g2.data.length := by omega
            simp only [this, if_false] at hd
            rcases (rel0_none _).mp hd with he | he <;> simp [he, hs', Rel0]
          · have hs' : ¬ g2.view.length < n := fun h => hs (hlen.mp h)
            have : n ≤ g2.data.length := by omega
            simp only [this, if_true] at hd
            simp only [hs', if_false, htake]
            cases hp : parseAll (toM c.mode) f (g2.data.take n) with
            | none =>
              rw [hp] at hd
              rcases (rel0_none _).mp hd with he | he <;> simp [he, Rel0]
            | some kids =>
              rw [hp] at hd
              simp only [Option.map] at hd
              rw [rel0_some] at hd
              simp only [hd, Content.exhausted, Cons.exhausted, run_limitedExhausted, if_true, Option.map, Rel0]
              have : id = ⟨id.cls, true, id.num⟩ := ident_eta id true hcons
              rw [adv_eq_St]
              simp only [Prod.mk.injEq]
              rw [← this]
              simp
              cases g2.limit <;> rfl
      · -- primitive
        simp only [hcons, Bool.false_and, Bool.not_false, Bool.false_eq_true, if_false, if_true]
        have hrv : runG0 (readValue (f + 1) (C12.tagOf id.cls id.num) (.prim c.mode)) (St g2.data (some n)) =
            if n ≤ g2.data.length then
              .ok ((.prim ⟨id.cls, false, id.num⟩ (g2.data.take n), .prim c.mode), St (g2.data.drop n) (some 0))
            else .error .content := by
          simp only [readValue, runG0_bind, run_takeAll, hid]
          by_cases h : n ≤ g2.data.length <;> simp [h]
        rw [hrv]
        by_cases hs : g2.data.length < n
        · have hs' : g2.view.length < n := hlen.mpr hs
          have : ¬ n ≤ g2.data.length := by omega
          simp [this, hs', Rel0]
        · have hs' : ¬ g2.view.length < n := fun h => hs (hlen.mp h)
          have : n ≤ g2.data.length := by omega
          simp only [this, if_true, hs', if_false, Content.exhausted, run_limitedExhausted, htake, Rel0]
          have hidp : id = ⟨id.cls, false, id.num⟩ := ident_eta id false (by simpa using hcons)
          rw [adv_eq_St]
          simp only [Prod.mk.injEq]
          rw [← hidp]
          simp
  | none =>
    simp only [toM_der]
    by_cases h1 : (!id.constructed || c.mode == .der) = true
    · simp [h1, Rel0]
    · simp only [h1, Bool.false_eq_true, if_false]
      have hcons : id.constructed = true := by
        cases hc' : id.constructed <;> simp [hc'] at h1 ⊢
      have hrv : ∀ g, runG0 (readValue (f + 1) (C12.tagOf id.cls id.num) (.cons ⟨.indefinite, c.mode, 0⟩)) g =
          match runG0 (readAll f ⟨.indefinite, c.mode, 0⟩) g with
          | .ok ((kids, c'), g') => .ok ((.cons ⟨id.cls, true, id.num⟩ true kids, .cons c'), g')
          | .error e => .error e := by
        intro g
        simp only [readValue, runG0_bind, hid]
        cases runG0 (readAll f ⟨.indefinite, c.mode, 0⟩) g with
        | error e => rfl
        | ok r => obtain ⟨⟨kids, c'⟩, g'⟩ := r; rfl
      rw [hrv]
      have hi := hI c.mode 0 g2 hf2
      unfold specI at hi
      cases hp : parseUntilEoc (toM c.mode) f g2.view with
      | none =>
        rw [hp] at hi
        rcases (rel0_none _).mp hi with he | he <;> simp [he, Rel0]
      | some r =>
        obtain ⟨kids, rest⟩ := r
        rw [hp] at hi
        simp only [Option.map] at hi
        rw [rel0_some] at hi
        simp only [hi, Content.exhausted, Cons.exhausted, runG0_pure, Option.map, Rel0]
        have : id = ⟨id.cls, true, id.num⟩ := ident_eta id true hcons
        rw [← this]


theorem adv_back (g : G0) (a j : Nat) (ha : a ≤ g.view.length) (hj : j ≤ g.view.length - a) :
    g.adv (g.view.length - (g.view.length - a - j)) = (g.adv a).adv j := by
  rw [G0.adv_adv]; congr 1; omega

theorem vs_step (f : Nat) (hD : DS f) (hI : IS f) : VS (f + 1) := by
  intro c g hf hEoc
  unfold valuePart specV headerF
  simp only [parseValue]
  cases hri : readIdent g.view with
  | none => simp [Rel0]
  | some r =>
    obtain ⟨id, k⟩ := r
    obtain ⟨hc, hn, hk1, hk, _⟩ := C12.readIdent_bounds _ _ _ hri
    simp only
    have hv1 : (g.adv k).view = g.view.drop k := G0.adv_view g k hk
    rw [hv1, toM_isBer]
    cases hrl : readLen c.mode.isBer (g.view.drop k) with
    | none => by_cases he : isEocIdent id = true <;> simp [he, Rel0]
    | some r2 =>
      obtain ⟨len?, kl⟩ := r2
      obtain ⟨hkl1, hkl⟩ := readLen_bound _ _ _ _ hrl
      simp only [List.length_drop] at hkl
      by_cases he : isEocIdent id = true
      · simp only [he, if_true, Option.map]
        unfold bodyF
        simp only [he, if_true]
        by_cases hst : c.state = .indefinite
        · have := hEoc hst id k hri
          rw [he] at this; cases this
        · simp [hst, Rel0]
      · have he' : isEocIdent id = false := by simpa using he
        simp only [he', Bool.false_eq_true, if_false]
        have hb := body_rel f hD hI c g.data.length ((g.adv k).adv kl) (adv_frames _ _) id hc hn he' len?
        have hkv : kl ≤ (g.adv k).view.length := by rw [hv1, List.length_drop]; exact hkl
        have hv2 : ((g.adv k).adv kl).view = g.view.drop (k + kl) := by
          rw [G0.adv_view _ _ hkv, hv1, List.drop_drop]
        have hvl2 : ((g.adv k).adv kl).view.length = g.view.length - (k + kl) := by
          rw [hv2, List.length_drop]
        have hsum : k + kl ≤ g.view.length := by omega
        refine cast (congrArg (Rel0 _) ?_) hb
        unfold bodySpec
        rw [hv2]
        cases len? with
        | some n =>
          simp only [List.length_drop]
          by_cases h1 : g.view.length - (k + kl) < n
          · simp [h1]
          · simp only [h1, if_false]
            have hadv : g.adv (g.view.length - (g.view.length - (k + kl) - n)) = ((g.adv k).adv kl).adv n := by
              rw [G0.adv_adv g k kl]
              exact adv_back g (k + kl) n hsum (by omega)
            by_cases h2 : id.constructed = true
            · simp only [h2, Bool.not_true, Bool.false_eq_true, if_false]
              by_cases h3 : (toM c.mode == M.cer) = true
              · simp [h3]
              · simp only [h3, Bool.false_eq_true, if_false]
                cases parseAll (toM c.mode) f (List.take n (List.drop (k + kl) g.view)) with
                | none => rfl
                | some kids => simp only [Option.map, List.length_drop, hadv]
            · simp only [h2, Bool.not_false, if_true, Option.map, List.length_drop, hadv]
        | none =>
          by_cases h1 : (!id.constructed || toM c.mode == M.der) = true
          · simp [h1]
          · simp only [h1, Bool.false_eq_true, if_false]
            cases hp : parseUntilEoc (toM c.mode) f (List.drop (k + kl) g.view) with
            | none => rfl
            | some r3 =>
              obtain ⟨kids, rest⟩ := r3
              obtain ⟨j, hj, hrest⟩ := (suffix_lemma (toM c.mode) f).2 _ _ _ hp
              simp only [List.length_drop] at hj
              simp only [Option.map, hrest, List.length_drop]
              have e1 : g.view.length - (k + kl) - (g.view.length - (k + kl) - j) = j := by omega
              rw [e1, G0.adv_adv g k kl, adv_back g (k + kl) j hsum hj]


/-- one round of the `while let` loop of a generic read -/
def allF (f : Nat) (c : Cons) (g : G0) : Res ((List Tree × Cons) × G0) :=
  match pnvF c (readValue f) g with
  | .error e => .error e
  | .ok ((none, c'), g') => .ok (([], c'), g')
  | .ok ((some t, c'), g') =>
    match runG0 (readAll f c') g' with
    | .error e => .error e
    | .ok ((ts, c''), g'') => .ok ((t :: ts, c''), g'')

theorem readAll_run (f : Nat) (c : Cons) (g : G0) (hf : g.frames = []) :
    runG0 (readAll (f + 1) c) g = allF f c g := by
  unfold allF
  rw [← pnv_eq c (readValue f) g hf]
  simp only [readAll, takeOptValue, runG0_bind]
  cases runG0 (processNextValue c none (readValue f)) g with
  | error e => rfl
  | ok r =>
    obtain ⟨⟨t?, c'⟩, g'⟩ := r
    cases t? with
    | none => rfl
    | some t =>
      simp only [runG0_bind]
      cases runG0 (readAll f c') g' with
      | error e => rfl
      | ok r2 => obtain ⟨⟨ts, c''⟩, g''⟩ := r2; rfl


theorem pnvF_value (c : Cons) (f : Nat) (g : G0)
    (h1 : c.state ≠ .done) (h2 : ¬ (c.state = .definite ∧ g.limit = none))
    (h3 : ¬ (c.state = .definite ∧ g.limit = some 0)) (h4 : ¬ (c.state = .unbounded ∧ g.view = [])) :
    pnvF c (readValue f) g = valuePart c f g := by
  unfold pnvF valuePart
  simp only [h1, h2, h3, h4, if_false]

theorem St_view_none (d : Bytes) : (St d none).view = d := rfl
theorem St_view_some (d : Bytes) (l : Nat) : (St d (some l)).view = d.take l := rfl

theorem us_step (f : Nat) (hV : VS f) (hU : US f) : US (f + 1) := by
  intro m e d
  rw [readAll_run _ _ _ rfl]
  unfold allF specU
  by_cases hd : d = []
  · subst hd
    simp [pnvF, parseAll, Rel0, G0.view]
  · rw [pnvF_value _ _ _ (by simp) (by simp) (by simp) (by simpa [G0.view] using hd)]
    have hv := hV ⟨.unbounded, m, e⟩ (St d none) rfl (by simp)
    unfold specV at hv
    simp only [St_view_none] at hv
    have hemp : d.isEmpty = false := by cases d <;> simp_all
    simp only [parseAll, hemp, Bool.false_eq_true, if_false]
    cases hp : parseValue (toM m) f d with
    | none =>
      rw [hp] at hv
      rcases (rel0_none _).mp hv with he | he <;> simp [he, Rel0]
    | some r =>
      obtain ⟨t, rest⟩ := r
      rw [hp] at hv
      simp only [Option.map] at hv
      rw [rel0_some] at hv
      obtain ⟨n, hn, hrest⟩ := (suffix_lemma (toM m) f).1 _ _ _ hp
      simp only [hv]
      have hadv : (St d none).adv (d.length - rest.length) = St rest none := by
        subst hrest
        simp only [G0.adv, List.length_drop, Option.map]
        congr 2; omega
      rw [hadv]
      have hu := hU m e rest
      unfold specU at hu
      cases hq : parseAll (toM m) f rest with
      | none =>
        rw [hq] at hu
        rcases (rel0_none _).mp hu with he | he <;> simp [he, Rel0]
      | some ts =>
        rw [hq] at hu
        simp only [Option.map] at hu
        rw [rel0_some] at hu
        simp [hu, Rel0]


theorem ds_step (f : Nat) (hV : VS f) (hD : DS f) : DS (f + 1) := by
  intro m e d l
  rw [readAll_run _ _ _ rfl]
  unfold allF specD
  by_cases hl : l = 0
  · subst hl
    simp [pnvF, parseAll, Rel0]
  · rw [pnvF_value _ _ _ (by simp) (by simp) (by simpa using hl) (by simp)]
    have hv := hV ⟨.definite, m, e⟩ (St d (some l)) rfl (by simp)
    unfold specV at hv
    simp only [St_view_some] at hv
    cases hp : parseValue (toM m) f (d.take l) with
    | none =>
      rw [hp] at hv
      have hspec : (if l ≤ d.length then
          (parseAll (toM m) (f + 1) (d.take l)).map fun ts => ((ts, (⟨.definite, m, e⟩ : Cons)), St (d.drop l) (some 0))
          else none) = none := by
        by_cases hle : l ≤ d.length
        · have hemp : (d.take l).isEmpty = false := by
            cases d with
            | nil => simp at hle; omega
            | cons b r => cases l with
              | zero => omega
              | succ l' => simp
          simp [hle, parseAll, hemp, hp]
        · simp [hle]
      rw [hspec]
      rcases (rel0_none _).mp hv with he | he <;> simp [he, Rel0]
    | some r =>
      obtain ⟨t, rest⟩ := r
      rw [hp] at hv
      simp only [Option.map] at hv
      rw [rel0_some] at hv
      obtain ⟨n, hn, hrest⟩ := (suffix_lemma (toM m) f).1 _ _ _ hp
      simp only [List.length_take] at hn
      simp only [hv]
      have hadv : (St d (some l)).adv ((d.take l).length - rest.length) = St (d.drop n) (some (l - n)) := by
        subst hrest
        simp only [G0.adv, List.length_drop, List.length_take, Option.map]
        have : min l d.length - (min l d.length - n) = n := by omega
        rw [this]
      rw [hadv]
      have hd := hD m e (d.drop n) (l - n)
      unfold specD at hd
      simp only [List.length_drop] at hd
      by_cases hle : l ≤ d.length
      · have h1 : l - n ≤ d.length - n := by omega
        have hemp : (d.take l).isEmpty = false := by
          cases d with
          | nil => simp at hle; omega
          | cons b r => cases l with
            | zero => omega
            | succ l' => simp
        have hrest' : rest = (d.drop n).take (l - n) := by
          rw [hrest, List.drop_take]
        have hdd : List.drop (l - n) (List.drop n d) = List.drop l d := by
          rw [List.drop_drop]; congr 1; omega
        simp only [h1, if_true, hdd] at hd
        simp only [hle, if_true, parseAll, hemp, Bool.false_eq_true, if_false, hp]
        rw [← hrest'] at hd
        cases hq : parseAll (toM m) f rest with
        | none =>
          rw [hq] at hd
          rcases (rel0_none _).mp hd with he | he <;> simp [he, Rel0]
        | some ts =>
          rw [hq] at hd
          simp only [Option.map] at hd
          rw [rel0_some] at hd
          simp [hd, Rel0]
      · have h1 : ¬ l - n ≤ d.length - n := by omega
        simp only [h1, if_false] at hd
        simp only [hle, if_false]
        rcases (rel0_none _).mp hd with he | he <;> simp [he, Rel0]


theorem is_step (f : Nat) (hV : VS f) (hI : IS f) : IS (f + 1) := by
  intro m e g hf
  rw [readAll_run _ _ _ hf]
  unfold allF specI
  simp only [parseUntilEoc]
  cases hri : readIdent g.view with
  | none =>
    simp [pnvF, headerF, hri, Rel0]
  | some r =>
    obtain ⟨id, k⟩ := r
    obtain ⟨hc, hn, hk1, hk, _⟩ := C12.readIdent_bounds _ _ _ hri
    have hv1 : (g.adv k).view = g.view.drop k := G0.adv_view g k hk
    by_cases he : isEocIdent id = true
    · -- the end-of-contents marker
      simp only [he, if_true]
      simp only [pnvF, headerF, hri, hv1, toM_isBer]
      simp only [show ((⟨.indefinite, m, e⟩ : Cons).state = .done) = False from by simp,
        show ((⟨.indefinite, m, e⟩ : Cons).state = .definite) = False from by simp,
        show ((⟨.indefinite, m, e⟩ : Cons).state = .unbounded) = False from by simp, false_and, if_false]
      cases hrl : readLen m.isBer (g.view.drop k) with
      | none => by_cases hcn : id.constructed = true <;> simp [hcn, Rel0]
      | some r2 =>
        obtain ⟨len?, kl⟩ := r2
        obtain ⟨hkl1, hkl⟩ := readLen_bound _ _ _ _ hrl
        simp only [List.length_drop] at hkl
        simp only [bodyF, he, if_true]
        by_cases hcn : id.constructed = true
        · simp [hcn, Rel0]
        · simp only [hcn, Bool.false_eq_true, if_false]
          by_cases hz : len? = some 0
          · subst hz
            simp only [ne_eq, not_true_eq_false, if_false, Option.map, Rel0, List.length_drop]
            rw [G0.adv_adv]
            have : g.view.length - (g.view.length - (k + kl)) = k + kl := by omega
            rw [this]
            have hdl := G0.view_length_le g
            have he2 : g.data.length - (g.adv (k + kl)).data.length = k + kl := by
              simp only [G0.adv, List.length_drop]; omega
            simp only [he2, eocLen, hri, he, if_true, toM_isBer, hrl]
          · have : (match len?, kl with
                | some 0, kl => some (([] : List Tree), g.view.drop (k + kl))
                | _, _ => none) = none := by
              cases len? with
              | none => rfl
              | some n => cases n with
                | zero => exact absurd rfl hz
                | succ n' => rfl
            simp [hz, Rel0]
    · have he' : isEocIdent id = false := by simpa using he
      simp only [he', Bool.false_eq_true, if_false]
      rw [pnvF_value _ _ _ (by simp) (by simp) (by simp) (by simp)]
      have hv := hV ⟨.indefinite, m, e⟩ g hf (by
        intro _ id' k' h'
        rw [hri] at h'; cases h'; exact he')
      unfold specV at hv
      cases hp : parseValue (toM m) f g.view with
      | none =>
        rw [hp] at hv
        rcases (rel0_none _).mp hv with he | he <;> simp [he, Rel0]
      | some r =>
        obtain ⟨t, rest⟩ := r
        rw [hp] at hv
        simp only [Option.map] at hv
        rw [rel0_some] at hv
        obtain ⟨n, hn, hrest⟩ := (suffix_lemma (toM m) f).1 _ _ _ hp
        simp only [hv]
        have hlen : g.view.length - rest.length = n := by
          rw [hrest, List.length_drop]; omega
        rw [hlen]
        have hi := hI m e (g.adv n) (adv_frames _ _)
        unfold specI at hi
        have hvn : (g.adv n).view = rest := by rw [G0.adv_view g n hn, hrest]
        rw [hvn] at hi
        cases hq : parseUntilEoc (toM m) f rest with
        | none =>
          rw [hq] at hi
          rcases (rel0_none _).mp hi with he | he <;> simp [he, Rel0]
        | some r3 =>
          obtain ⟨ts, rest'⟩ := r3
          rw [hq] at hi
          simp only [Option.map] at hi
          rw [rel0_some] at hi
          obtain ⟨j, hj, hrest'⟩ := (suffix_lemma (toM m) f).2 _ _ _ hq
          have hel : eocLen (toM m) (f + 1) g.view = eocLen (toM m) f rest := by
            simp only [eocLen, hri, he', Bool.false_eq_true, if_false, hp]
          simp only [hi, Option.map, Rel0, Prod.mk.injEq, true_and, hel]
          rw [G0.adv_adv]
          congr 1
          rw [hrest', hrest] at *
          simp only [List.length_drop] at *
          omega


theorem readValue_zero (t : Tag) (c : Content) (g : G0) : runG0 (readValue 0 t c) g = .error .fuel := by
  cases c <;> rfl

theorem vs_zero : VS 0 := by
  intro c g hf hEoc
  unfold valuePart specV headerF
  simp only [parseValue, Option.map]
  cases hri : readIdent g.view with
  | none => simp [Rel0]
  | some r =>
    obtain ⟨id, k⟩ := r
    simp only
    cases hrl : readLen c.mode.isBer (g.adv k).view with
    | none => simp [Rel0]
    | some r2 =>
      obtain ⟨len?, kl⟩ := r2
      simp only [bodyF, readValue_zero]
      by_cases he : isEocIdent id = true
      · by_cases hst : c.state = .indefinite
        · have := hEoc hst id k hri
          rw [he] at this; cases this
        · simp [he, hst, Rel0]
      · simp only [he, Bool.false_eq_true, if_false]
        cases len? with
        | some n =>
          simp only
          repeat' split
          all_goals simp [Rel0]
        | none =>
          simp only
          split <;> simp [Rel0]

theorem all_levels : ∀ f, DS f ∧ IS f ∧ US f ∧ VS f := by
  intro f
  induction f with
  | zero =>
    refine ⟨?_, ?_, ?_, vs_zero⟩
    · intro m e d l
      have : runG0 (readAll 0 ⟨.definite, m, e⟩) (St d (some l)) = .error .fuel := rfl
      rw [this]; unfold specD
      by_cases h : l ≤ d.length <;> simp [h, parseAll, Rel0]
    · intro m e g _
      have : runG0 (readAll 0 ⟨.indefinite, m, e⟩) g = .error .fuel := rfl
      rw [this]; simp [specI, parseUntilEoc, Rel0]
    · intro m e d
      have : runG0 (readAll 0 ⟨.unbounded, m, e⟩) (St d none) = .error .fuel := rfl
      rw [this]; simp [specU, parseAll, Rel0]
  | succ f ih =>
    obtain ⟨hD, hI, hU, hV⟩ := ih
    exact ⟨ds_step f hV hD, is_step f hV hI, us_step f hV hU, vs_step f hD hI⟩


/-! ## The property -/

/-- **C02, every context.**  For every fuel `f` the generic reader over the model of
    `process_next_value` and the grammar of `Spec.Tlv` agree, on every input:
    * inside a definite parent with `l` octets left (`l` may exceed what the source holds),
    * inside an indefinite parent on any source without open capture,
    * at top level,
    * and for a single value in any of these contexts;
    agreement means: the grammar accepts ⇒ the reader returns exactly those trees and leaves the source
    exactly behind the last value; the grammar rejects ⇒ the reader fails (malformed, or — only when
    the grammar too has run out of fuel — fuel). -/
theorem refines (f : Nat) : DS f ∧ IS f ∧ US f ∧ VS f := all_levels f

/-- octet strings the grammar accepts as a sequence of values, with their trees -/
def WellFormed (m : Mode) (d : Bytes) (ts : List Tree) : Prop := ∃ f, parseAll (toM m) f d = some ts

/-- `Mode::decode(source, generic reader)` on a slice -/
def decodeAll (m : Mode) (f : Nat) : Prog (List Tree) := decodeTop m (readAll f)

theorem decode_run (m : Mode) (f : Nat) (d : Bytes) :
    Rel0 (runG0 (decodeAll m f) (St d none)) ((parseAll (toM m) f d).map fun ts => (ts, St [] none)) := by
  have hu := (refines f).2.2.1 m 0 d
  unfold specU at hu
  unfold decodeAll decodeTop
  simp only [runG0_bind]
  cases hp : parseAll (toM m) f d with
  | none =>
    rw [hp] at hu
    rcases (rel0_none _).mp hu with he | he <;> simp [he, Rel0]
  | some ts =>
    rw [hp] at hu
    simp only [Option.map] at hu
    rw [rel0_some] at hu
    simp [hu, Cons.exhausted, Rel0]

/-- **acceptance is exactly well-formedness**, with exactly the encoded trees, everything consumed -/
theorem accepts_iff (m : Mode) (d : Bytes) (ts : List Tree) :
    (∃ f g', runG0 (decodeAll m f) (St d none) = .ok (ts, g')) ↔ WellFormed m d ts := by
  constructor
  · rintro ⟨f, g', h⟩
    refine ⟨f, ?_⟩
    have hr := decode_run m f d
    rw [h] at hr
    cases hp : parseAll (toM m) f d with
    | none => rw [hp] at hr; simp [Rel0] at hr
    | some ts' =>
      rw [hp] at hr
      simp only [Option.map, Rel0, Prod.mk.injEq] at hr
      rw [hr.1]
  · rintro ⟨f, hp⟩
    refine ⟨f, St [] none, ?_⟩
    have hr := decode_run m f d
    rw [hp] at hr
    simp only [Option.map] at hr
    exact (rel0_some _ _).mp hr

/-- what the reader leaves behind on success: nothing (the source is at the end of the last value) -/
theorem accepts_consumes (m : Mode) (f : Nat) (d : Bytes) (ts : List Tree) (g' : G0)
    (h : runG0 (decodeAll m f) (St d none) = .ok (ts, g')) : g' = St [] none ∧ parseAll (toM m) f d = some ts := by
  have hr := decode_run m f d
  rw [h] at hr
  cases hp : parseAll (toM m) f d with
  | none => rw [hp] at hr; simp [Rel0] at hr
  | some ts' =>
    rw [hp] at hr
    simp only [Option.map, Rel0, Prod.mk.injEq] at hr
    exact ⟨hr.2, by rw [hr.1]⟩

/-- malformed input is never accepted, with whatever fuel -/
theorem rejects (m : Mode) (d : Bytes) (h : ∀ ts, ¬ WellFormed m d ts) (f : Nat) :
    runG0 (decodeAll m f) (St d none) = .error .content ∨ runG0 (decodeAll m f) (St d none) = .error .fuel := by
  have hr := decode_run m f d
  cases hp : parseAll (toM m) f d with
  | none => rw [hp] at hr; exact (rel0_none _).mp hr
  | some ts => exact absurd ⟨f, hp⟩ (h ts)

/-- the same on the generous layer (which only adds the ghost grant watermark): a successful run
    of the model the driver executes is a grammar parse -/
theorem accepts_runG (m : Mode) (f : Nat) (d : Bytes) (ts : List Tree) (g' : G)
    (h : runG (decodeAll m f) { data := d, limit := none } = .ok (ts, g')) :
    parseAll (toM m) f d = some ts ∧ g'.data = [] := by
  have h0 := sim0_ok _ _ _ _ h
  have := accepts_consumes m f d ts g'.erase h0
  refine ⟨this.2, ?_⟩
  have e := congrArg G0.data this.1
  exact e

/-- … and a failing run that is not a contract breach means the grammar rejects (at that fuel) -/
theorem rejects_runG (m : Mode) (f : Nat) (d : Bytes) (e : Err) (hp : e.isPanic = false)
    (h : runG (decodeAll m f) { data := d, limit := none } = .error e) :
    parseAll (toM m) f d = none := by
  have h0 := sim0_err _ _ _ h hp
  have hr := decode_run m f d
  have : ({ data := d, limit := none } : G).erase = St d none := rfl
  rw [this] at h0
  rw [h0] at hr
  cases hq : parseAll (toM m) f d with
  | none => rfl
  | some ts => rw [hq] at hr; simp [Rel0] at hr

/-- nested in a definite parent: a child may not extend past the parent (`l` octets left) -/
theorem definite_parent (m : Mode) (f : Nat) (d : Bytes) (l : Nat) :
    Rel0 (runG0 (readAll f ⟨.definite, m, 0⟩) (St d (some l))) (specD m 0 f d l) := (refines f).1 m 0 d l

/-- nested in an indefinite parent: read up to and including the end-of-contents octets -/
theorem indefinite_parent (m : Mode) (f : Nat) (g : G0) (hf : g.frames = []) :
    Rel0 (runG0 (readAll f ⟨.indefinite, m, 0⟩) g) (specI m f g) := (refines f).2.1 m 0 g hf

/-! ### switching the mode at a nested level -/

/-- the closure `|tag, content| { if let Constructed(c) = content { c.set_mode(m') }; generic(content) }`:
    a generic read that reads the content of a constructed value in mode `m'` -/
def readValueAs (m' : Mode) (f : Nat) : Tag → Content → Prog (Tree × Content)
  | tag, .prim m => do
    let c ← Prim.takeAll
    pure (.prim (identOf tag false) c, .prim m)
  | tag, .cons c => do
    let (kids, c') ← readAll f { c with mode := m' }
    pure (.cons (identOf tag true) (c.state == .indefinite) kids, .cons c')

/-- one value whose header follows the rules of `m` and whose content (if constructed) those of `m'` -/
def parseSwitched (m m' : M) (f : Nat) (bs : Bytes) : Option (Tree × Bytes) :=
  match readIdent bs with
  | none => none
  | some (id, k) =>
    if isEocIdent id then none else
    match readLen m.isBer (bs.drop k) with
    | none => none
    | some (some n, kl) =>
      let body := bs.drop (k + kl)
      if body.length < n then none
      else if !id.constructed then some (.prim id (body.take n), body.drop n)
      else if m == .cer then none
      else match parseAll m' f (body.take n) with
        | some kids => some (.cons id false kids, body.drop n)
        | none => none
    | some (none, kl) =>
      if !id.constructed || m == .der then none
      else match parseUntilEoc m' f (bs.drop (k + kl)) with
        | some (kids, rest) => some (.cons id true kids, rest)
        | none => none

/-- without a switch this is the grammar itself -/
theorem parseSwitched_same (m : M) (f : Nat) (bs : Bytes) : parseSwitched m m f bs = parseValue m (f + 1) bs := by
  simp only [parseSwitched, parseValue]
  rfl

def bodySpecSw (c : Cons) (m' : Mode) (f : Nat) (id : Ident) (len? : Option Nat) (g2 : G0) :
    Option ((Option Tree × Cons) × G0) :=
  match len? with
  | some n =>
    if g2.view.length < n then none
    else if !id.constructed then some ((some (.prim id (g2.view.take n)), c), g2.adv n)
    else if toM c.mode == .cer then none
    else (parseAll (toM m') f (g2.view.take n)).map fun kids => ((some (.cons id false kids), c), g2.adv n)
  | none =>
    if !id.constructed || toM c.mode == .der then none
    else (parseUntilEoc (toM m') f g2.view).map fun p =>
      ((some (.cons id true p.1), c), g2.adv (g2.view.length - p.2.length))

def specVsw (m' : Mode) (c : Cons) (f : Nat) (g : G0) : Option ((Option Tree × Cons) × G0) :=
  (parseSwitched (toM c.mode) (toM m') f g.view).map fun p => ((some p.1, c), g.adv (g.view.length - p.2.length))

def valuePartAs (m' : Mode) (c : Cons) (f : Nat) (g : G0) : Res ((Option Tree × Cons) × G0) :=
  match headerF c.mode g with
  | none => .error .content
  | some ((id, len?), g2) => bodyF c (readValueAs m' f) g.data.length g2 id len?

def VSsw (m' : Mode) (f : Nat) : Prop := ∀ c g, g.frames = [] →
  (c.state = .indefinite → ∀ id k, readIdent g.view = some (id, k) → isEocIdent id = false) →
  Rel0 (valuePartAs m' c f g) (specVsw m' c f g)

theorem body_rel_sw (m' : Mode) (f : Nat) (hD : DS f) (hI : IS f) (c : Cons) (hd : Nat) (g2 : G0) (hf2 : g2.frames = [])
    (id : Ident) (hc : id.cls ≤ 3) (hn : id.num ≤ 0x1fffff) (hne : isEocIdent id = false) (len? : Option Nat) :
    Rel0 (bodyF c (readValueAs m' f) hd g2 id len?) (bodySpecSw c m' f id len? g2) := by
  have hg2 : g2 = St g2.data g2.limit := by
    cases g2 with
    | mk d l fr => simp at hf2; subst hf2; rfl
  have hid : ∀ b, identOf (C12.tagOf id.cls id.num) b = ⟨id.cls, b, id.num⟩ := identOf_tagOf id hc hn
  unfold bodyF bodySpecSw
  simp only [hne, Bool.false_eq_true, if_false]
  cases len? with
  | some n =>
    simp only
    have hvl := view_len g2
    -- the limit check
    by_cases hover : (match g2.limit with | some l => decide (n > l) | none => false) = true
    · have : g2.view.length < n := by
        cases hl : g2.limit with
        | none => simp [hl] at hover
        | some l => simp [hl] at hover hvl; omega
      simp [hover, this, Rel0]
    · simp only [hover, Bool.false_eq_true, if_false]
      have hnl : ∀ l, g2.limit = some l → n ≤ l := by
        intro l hl; simp [hl] at hover; omega
      -- view length vs data length
      have hlen : (g2.view.length < n) ↔ (g2.data.length < n) := by
        cases hl : g2.limit with
        | none => simp [hl] at hvl; omega
        | some l => have := hnl l hl; simp [hl] at hvl; omega
      have htake : g2.view.take n = g2.data.take n := by
        cases hl : g2.limit with
        | none => simp [G0.view, hl]
        | some l =>
          have := hnl l hl
          simp only [G0.view, hl, List.take_take]; congr 1; omega
      by_cases hcons : id.constructed = true
      · -- constructed
        simp only [hcons, Bool.true_and, Bool.not_true, Bool.false_eq_true, if_false, if_true, toM_cer]
        by_cases hcer : (c.mode == .cer) = true
        · simp only [hcer, if_true]
          by_cases hs : g2.view.length < n <;> simp [hs, Rel0]
        · simp only [hcer, Bool.false_eq_true, if_false]
          -- the closure: descend
          have hrv : ∀ g, runG0 (readValueAs m' f (C12.tagOf id.cls id.num) (.cons ⟨.definite, c.mode, 0⟩)) g =
              match runG0 (readAll f ⟨.definite, m', 0⟩) g with
              | .ok ((kids, c'), g') => .ok ((.cons ⟨id.cls, true, id.num⟩ false kids, .cons c'), g')
              | .error e => .error e := by
            intro g
            simp only [readValueAs, runG0_bind, hid]
            cases runG0 (readAll f ⟨.definite, m', 0⟩) g with
            | error e => rfl
            | ok r => obtain ⟨⟨kids, c'⟩, g'⟩ := r; rfl
          rw [hrv]
          have hd := hD m' 0 g2.data n
          unfold specD at hd
          by_cases hs : g2.data.length < n
          · have hs' : g2.view.length < n := hlen.mpr hs
            have : ¬ n ≤ g2.data.length := by omega
            simp only [this, if_false] at hd
            rcases (rel0_none _).mp hd with he | he <;> simp [he, hs', Rel0]
          · have hs' : ¬ g2.view.length < n := fun h => hs (hlen.mp h)
            have : n ≤ g2.data.length := by omega
            simp only [this, if_true] at hd
            simp only [hs', if_false, htake]
            cases hp : parseAll (toM m') f (g2.data.take n) with
            | none =>
              rw [hp] at hd
              rcases (rel0_none _).mp hd with he | he <;> simp [he, Rel0]
            | some kids =>
              rw [hp] at hd
              simp only [Option.map] at hd
              rw [rel0_some] at hd
              simp only [hd, Content.exhausted, Cons.exhausted, run_limitedExhausted, if_true, Option.map, Rel0]
              have : id = ⟨id.cls, true, id.num⟩ := ident_eta id true hcons
              rw [adv_eq_St]
              simp only [Prod.mk.injEq]
              rw [← this]
              simp
              cases g2.limit <;> rfl
      · -- primitive
        simp only [hcons, Bool.false_and, Bool.not_false, Bool.false_eq_true, if_false, if_true]
        have hrv : runG0 (readValueAs m' f (C12.tagOf id.cls id.num) (.prim c.mode)) (St g2.data (some n)) =
            if n ≤ g2.data.length then
              .ok ((.prim ⟨id.cls, false, id.num⟩ (g2.data.take n), .prim c.mode), St (g2.data.drop n) (some 0))
            else .error .content := by
          simp only [readValueAs, runG0_bind, run_takeAll, hid]
          by_cases h : n ≤ g2.data.length <;> simp [h]
        rw [hrv]
        by_cases hs : g2.data.length < n
        · have hs' : g2.view.length < n := hlen.mpr hs
          have : ¬ n ≤ g2.data.length := by omega
          simp [this, hs', Rel0]
        · have hs' : ¬ g2.view.length < n := fun h => hs (hlen.mp h)
          have : n ≤ g2.data.length := by omega
          simp only [this, if_true, hs', if_false, Content.exhausted, run_limitedExhausted, htake, Rel0]
          have hidp : id = ⟨id.cls, false, id.num⟩ := ident_eta id false (by simpa using hcons)
          rw [adv_eq_St]
          simp only [Prod.mk.injEq]
          rw [← hidp]
          simp
  | none =>
    simp only [toM_der]
    by_cases h1 : (!id.constructed || c.mode == .der) = true
    · simp [h1, Rel0]
    · simp only [h1, Bool.false_eq_true, if_false]
      have hcons : id.constructed = true := by
        cases hc' : id.constructed <;> simp [hc'] at h1 ⊢
      have hrv : ∀ g, runG0 (readValueAs m' f (C12.tagOf id.cls id.num) (.cons ⟨.indefinite, c.mode, 0⟩)) g =
          match runG0 (readAll f ⟨.indefinite, m', 0⟩) g with
          | .ok ((kids, c'), g') => .ok ((.cons ⟨id.cls, true, id.num⟩ true kids, .cons c'), g')
          | .error e => .error e := by
        intro g
        simp only [readValueAs, runG0_bind, hid]
        cases runG0 (readAll f ⟨.indefinite, m', 0⟩) g with
        | error e => rfl
        | ok r => obtain ⟨⟨kids, c'⟩, g'⟩ := r; rfl
      rw [hrv]
      have hi := hI m' 0 g2 hf2
      unfold specI at hi
      cases hp : parseUntilEoc (toM m') f g2.view with
      | none =>
        rw [hp] at hi
        rcases (rel0_none _).mp hi with he | he <;> simp [he, Rel0]
      | some r =>
        obtain ⟨kids, rest⟩ := r
        rw [hp] at hi
        simp only [Option.map] at hi
        rw [rel0_some] at hi
        simp only [hi, Content.exhausted, Cons.exhausted, runG0_pure, Option.map, Rel0]
        have : id = ⟨id.cls, true, id.num⟩ := ident_eta id true hcons
        rw [← this]



theorem vs_sw (m' : Mode) (f : Nat) (hD : DS f) (hI : IS f) : VSsw m' f := by
  intro c g hf hEoc
  unfold valuePartAs specVsw headerF
  simp only [parseSwitched]
  cases hri : readIdent g.view with
  | none => simp [Rel0]
  | some r =>
    obtain ⟨id, k⟩ := r
    obtain ⟨hc, hn, hk1, hk, _⟩ := C12.readIdent_bounds _ _ _ hri
    simp only
    have hv1 : (g.adv k).view = g.view.drop k := G0.adv_view g k hk
    rw [hv1, toM_isBer]
    cases hrl : readLen c.mode.isBer (g.view.drop k) with
    | none => by_cases he : isEocIdent id = true <;> simp [he, Rel0]
    | some r2 =>
      obtain ⟨len?, kl⟩ := r2
      obtain ⟨hkl1, hkl⟩ := readLen_bound _ _ _ _ hrl
      simp only [List.length_drop] at hkl
      by_cases he : isEocIdent id = true
      · simp only [he, if_true, Option.map]
        unfold bodyF
        simp only [he, if_true]
        by_cases hst : c.state = .indefinite
        · have := hEoc hst id k hri
          rw [he] at this; cases this
        · simp [hst, Rel0]
      · have he' : isEocIdent id = false := by simpa using he
        simp only [he', Bool.false_eq_true, if_false]
        have hb := body_rel_sw m' f hD hI c g.data.length ((g.adv k).adv kl) (adv_frames _ _) id hc hn he' len?
        have hkv : kl ≤ (g.adv k).view.length := by rw [hv1, List.length_drop]; exact hkl
        have hv2 : ((g.adv k).adv kl).view = g.view.drop (k + kl) := by
          rw [G0.adv_view _ _ hkv, hv1, List.drop_drop]
        have hvl2 : ((g.adv k).adv kl).view.length = g.view.length - (k + kl) := by
          rw [hv2, List.length_drop]
        have hsum : k + kl ≤ g.view.length := by omega
        refine cast (congrArg (Rel0 _) ?_) hb
        unfold bodySpecSw
        rw [hv2]
        cases len? with
        | some n =>
          simp only [List.length_drop]
          by_cases h1 : g.view.length - (k + kl) < n
          · simp [h1]
          · simp only [h1, if_false]
            have hadv : g.adv (g.view.length - (g.view.length - (k + kl) - n)) = ((g.adv k).adv kl).adv n := by
              rw [G0.adv_adv g k kl]
              exact adv_back g (k + kl) n hsum (by omega)
            by_cases h2 : id.constructed = true
            · simp only [h2, Bool.not_true, Bool.false_eq_true, if_false]
              by_cases h3 : (toM c.mode == M.cer) = true
              · simp [h3]
              · simp only [h3, Bool.false_eq_true, if_false]
                cases parseAll (toM m') f (List.take n (List.drop (k + kl) g.view)) with
                | none => rfl
                | some kids => simp only [Option.map, List.length_drop, hadv]
            · simp only [h2, Bool.not_false, if_true, Option.map, List.length_drop, hadv]
        | none =>
          by_cases h1 : (!id.constructed || toM c.mode == M.der) = true
          · simp [h1]
          · simp only [h1, Bool.false_eq_true, if_false]
            cases hp : parseUntilEoc (toM m') f (List.drop (k + kl) g.view) with
            | none => rfl
            | some r3 =>
              obtain ⟨kids, rest⟩ := r3
              obtain ⟨j, hj, hrest⟩ := (suffix_lemma (toM m') f).2 _ _ _ hp
              simp only [List.length_drop] at hj
              simp only [Option.map, hrest, List.length_drop]
              have e1 : g.view.length - (k + kl) - (g.view.length - (k + kl) - j) = j := by omega
              rw [e1, G0.adv_adv g k kl, adv_back g (k + kl) j hsum hj]




theorem pnvF_valueAs (m' : Mode) (c : Cons) (f : Nat) (g : G0)
    (h1 : c.state ≠ .done) (h2 : ¬ (c.state = .definite ∧ g.limit = none))
    (h3 : ¬ (c.state = .definite ∧ g.limit = some 0)) (h4 : ¬ (c.state = .unbounded ∧ g.view = [])) :
    pnvF c (readValueAs m' f) g = valuePartAs m' c f g := by
  unfold pnvF valuePartAs
  simp only [h1, h2, h3, h4, if_false]

/-! non-vacuity: concrete inputs on both sides of the relation -/
example : parseAll .ber 5 [0x30, 0x80, 0x04, 0x01, 0xaa, 0x00, 0x00, 0x02, 0x01, 0x05] =
    some [.cons ⟨0, true, 16⟩ true [.prim ⟨0, false, 4⟩ [0xaa]], .prim ⟨0, false, 2⟩ [0x05]] := by rfl
example : parseAll .der 5 [0x30, 0x80, 0x04, 0x01, 0xaa, 0x00, 0x00] = none := by rfl
example : parseAll .ber 5 [0x30, 0x03, 0x04, 0x02, 0xaa] = none := by rfl

end Bcder.Props.C02
