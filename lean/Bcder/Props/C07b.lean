/-
  C07b — an octet string used as a source (`OctetStringSource`, src/string/octet.rs) IS one of the
  conforming sources C07 quantifies over.

  C07's stream layer (`Model/Stream.lean`) interprets every read of the library over an abstract base
  source described only by a grant policy (`S.baseRequest pol`, `S.slice`, `S.advance`), and
  `C07.source_independence` holds for every conforming policy.  Here the concrete source of the crate
  is shown to be such a base source:

    * `ossPol segs` is the policy: a request is answered with the smallest segment boundary that
      covers it (or everything that is left) — `ossPol_conforming`;
    * `Sim segs s a` relates a state `s` of the model of `OctetStringSource` to a state `a` of the
      abstract source; it holds initially (`sim_new_prim`, `sim_new_cons`) and every call keeps it,
      with the same answer on both sides: `request_sim` (same grant), `slice_sim` (same octets
      shown), `advance_sim` (same octets dropped; advancing past the grant is a panic on both sides);
    * `calls_sim`: hence any sequence of `request` / `slice` / `advance` calls gets the same answers
      from the two, which is all the generic code above (`LimitedSource`, `CaptureSource`, the
      readers — `stepS`) ever does with a base source.

  The octet string must be one whose constructed content is an item sequence (`C16.Items`), which is
  what `OctetString::from_content` guarantees for every value it accepts (C16, C16b).
-/
import Bcder.Props.C16
import Bcder.Props.C07
import Bcder.Model.OssSource
namespace Bcder.Props.C07b
open Bcder Bcder.Props.C16

theorem grantFrom_zero (segs : List Bytes) : grantFrom segs 0 = 0 := by
  cases segs <;> simp [grantFrom]

theorem grantFrom_le : ∀ (segs : List Bytes) (x : Nat), grantFrom segs x ≤ segs.flatten.length
  | [], _ => by simp [grantFrom]
  | s :: ss, x => by
    simp only [grantFrom, List.flatten_cons, List.length_append]
    by_cases h : x = 0
    · simp [h]
    · simp only [h, if_false]; have := grantFrom_le ss (x - s.length); omega

theorem grantFrom_ge : ∀ (segs : List Bytes) (x : Nat), x ≤ segs.flatten.length → x ≤ grantFrom segs x
  | [], x => by simp [grantFrom]
  | s :: ss, x => by
    intro hx
    simp only [grantFrom, List.flatten_cons, List.length_append] at hx ⊢
    by_cases h : x = 0
    · simp [h]
    · simp only [h, if_false]; have := grantFrom_ge ss (x - s.length) (by omega); omega

theorem grantFrom_all (segs : List Bytes) (x : Nat) (h : segs.flatten.length ≤ x) :
    grantFrom segs x = segs.flatten.length := by
  induction segs generalizing x with
  | nil => simp [grantFrom]
  | cons s ss ih =>
    simp only [grantFrom, List.flatten_cons, List.length_append] at h ⊢
    by_cases h0 : x = 0
    · subst h0
      have h1 : s.length = 0 := by omega
      have h2 : ss.flatten.length = 0 := by omega
      simp [h1, h2]
    · simp only [h0, if_false]; rw [ih (x - s.length) (by omega)]

/-- asking for no more than is there: the same as asking for exactly that much -/
theorem grantFrom_min (segs : List Bytes) (y : Nat) :
    grantFrom segs (min y segs.flatten.length) = grantFrom segs y := by
  by_cases h : y ≤ segs.flatten.length
  · rw [Nat.min_eq_left h]
  · have h' : segs.flatten.length ≤ y := by omega
    rw [Nat.min_eq_right h', grantFrom_all segs y h', grantFrom_all segs _ (Nat.le_refl _)]

/-- a request that the segments already delivered cover is answered within them -/
theorem grantFrom_within (done rest : List Bytes) (x : Nat) (h : x ≤ done.flatten.length) :
    grantFrom (done ++ rest) x ≤ done.flatten.length := by
  induction done generalizing x with
  | nil => simp at h; subst h; simp [grantFrom_zero]
  | cons s ss ih =>
    simp only [List.cons_append, grantFrom, List.flatten_cons, List.length_append] at h ⊢
    by_cases h0 : x = 0
    · simp [h0]
    · simp only [h0, if_false]; have := ih (x - s.length) (by omega); omega

/-- a request reaching beyond the segments already delivered continues in the remaining ones -/
theorem grantFrom_beyond (done rest : List Bytes) (y : Nat) (hy : 0 < y) :
    grantFrom (done ++ rest) (done.flatten.length + y) = done.flatten.length + grantFrom rest y := by
  induction done with
  | nil => simp
  | cons s ss ih =>
    simp only [List.cons_append, grantFrom, List.flatten_cons, List.length_append]
    have h0 : ¬ (s.length + ss.flatten.length + y = 0) := by omega
    simp only [h0, if_false]
    have : s.length + ss.flatten.length + y - s.length = ss.flatten.length + y := by omega
    rw [this, ih]; omega

/-- the `while current.len() < len` loop loads exactly the segments up to the smallest boundary
    that covers the request -/
theorem fill_exact (len : Nat) : ∀ (fuel : Nat) (s : OSS) (segs : List Bytes), Items s.remainder segs →
    s.remainder.length < fuel →
    ∃ s' taken rest, OSS.fill len fuel s = .ok s' ∧ segs = taken ++ rest ∧ Items s'.remainder rest ∧
      s'.current = s.current ++ taken.flatten ∧
      taken.flatten.length = grantFrom segs (len - s.current.length) := by
  intro fuel
  induction fuel with
  | zero => intro s segs _ hf; omega
  | succ fuel ih =>
    intro s segs h hf
    by_cases hlt : s.current.length < len
    · have hn := nextCurrent_items s segs h
      cases segs with
      | nil =>
        simp only at hn
        refine ⟨{ s with remainder := [] }, [], [], ?_, rfl, Items.nil, by simp, by simp [grantFrom]⟩
        simp only [OSS.fill, hlt, if_true, hn, Bind.bind, Except.bind, pure, Except.pure]
      | cons x xs =>
        simp only at hn
        obtain ⟨rest, r1, r2, r3⟩ := hn
        obtain ⟨s', taken, rest', f1, f2, f3, f4, f5⟩ := ih ⟨s.current ++ x, rest⟩ xs r2 (by simp only; omega)
        refine ⟨s', x :: taken, rest', ?_, by rw [f2]; rfl, f3, ?_, ?_⟩
        · simp only [OSS.fill, hlt, if_true, r1, Bind.bind, Except.bind]
          exact f1
        · rw [f4]; simp [List.append_assoc]
        · simp only [List.flatten_cons, List.length_append, f5, grantFrom]
          have h0 : ¬ (len - s.current.length = 0) := by omega
          simp only [h0, if_false]
          congr 2
          omega
    · refine ⟨s, [], segs, ?_, rfl, h, by simp, ?_⟩
      · simp only [OSS.fill, hlt, if_false, pure, Except.pure]
      · have : len - s.current.length = 0 := by omega
        simp [this, grantFrom_zero]

/-- **`OctetStringSource::request`, exactly** -/
theorem request_exact (s : OSS) (segs : List Bytes) (len : Nat) (h : Items s.remainder segs) :
    ∃ s' taken rest, OSS.request s len = .ok (s'.current.length, s') ∧ segs = taken ++ rest ∧
      Items s'.remainder rest ∧ s'.current = s.current ++ taken.flatten ∧
      taken.flatten.length = grantFrom segs (len - s.current.length) := by
  by_cases hc : s.current.length < len ∧ s.remainder ≠ []
  · have hb : (decide (s.current.length < len) && !s.remainder.isEmpty) = true := by
      obtain ⟨c1, c2⟩ := hc
      cases hr : s.remainder with
      | nil => exact absurd hr c2
      | cons a b => simp [c1]
    obtain ⟨s', taken, rest, f1, f2, f3, f4, f5⟩ := fill_exact len (s.remainder.length + 2) s segs h (by omega)
    refine ⟨s', taken, rest, ?_, f2, f3, f4, f5⟩
    simp only [OSS.request, hb, if_true, f1, Bind.bind, Except.bind, pure, Except.pure]
  · have hb : (decide (s.current.length < len) && !s.remainder.isEmpty) = false := by
      by_cases c1 : s.current.length < len
      · have c2 : s.remainder = [] := by
          cases hr : s.remainder with
          | nil => rfl
          | cons a b => exact absurd ⟨c1, by simp [hr]⟩ hc
        simp [c2]
      · simp [c1]
    refine ⟨s, [], segs, ?_, rfl, h, by simp, ?_⟩
    · simp only [OSS.request, hb, Bool.false_eq_true, if_false, pure, Except.pure]
    · by_cases c1 : s.current.length < len
      · have c2 : s.remainder = [] := by
          cases hr : s.remainder with
          | nil => rfl
          | cons a b => exact absurd ⟨c1, by simp [hr]⟩ hc
        rw [c2] at h
        have := items_nil_inv segs h
        subst this
        simp [grantFrom]
      · have : len - s.current.length = 0 := by omega
        simp [this, grantFrom_zero]

/-! ### the policy, and the simulation -/

/-- **the policy meets the `Source::request` contract** -/
theorem ossPol_conforming (segs : List Bytes) : Conforming (ossPol segs) := by
  intro i len avail
  unfold ossPol
  by_cases h : avail ≤ segs.flatten.length
  · simp only [h, if_true]
    have h1 := grantFrom_ge segs (segs.flatten.length - avail + min len avail) (by omega)
    have h2 := grantFrom_le segs (segs.flatten.length - avail + min len avail)
    omega
  · simp only [h, if_false]; omega

/-- state `s` of the `OctetStringSource` and state `a` of the abstract source describe the same
    situation: the same octets are pending, the current slice is what has been granted, and the
    segments split into those already loaded (`done`) and those still to come -/
structure Sim (segs : List Bytes) (s : OSS) (a : S) : Prop where
  split : ∃ done rest, segs = done ++ rest ∧ Items s.remainder rest ∧ a.data = s.current ++ rest.flatten ∧
    s.current.length ≤ done.flatten.length
  granted : a.granted = s.current.length
  limit : a.limit = none
  frames : a.frames = []
  noFail : a.failAt = none

theorem sim_new_prim (b : Bytes) : Sim [b] (OSS.new (.prim b)) { data := b, granted := b.length, reqs := 0, failAt := none, limit := none } :=
  ⟨⟨[b], [], rfl, Items.nil, by simp [OSS.new], by simp [OSS.new]⟩, rfl, rfl, rfl, rfl⟩

theorem sim_new_cons (c : Bytes) (segs : List Bytes) (h : Items c segs) :
    Sim segs (OSS.new (.cons c)) { data := segs.flatten, granted := 0, reqs := 0, failAt := none, limit := none } :=
  ⟨⟨[], segs, rfl, h, by simp [OSS.new], by simp [OSS.new]⟩, rfl, rfl, rfl, rfl⟩

/-- **`request`: the same grant, and the two stay related** -/
theorem request_sim (segs : List Bytes) (s : OSS) (a : S) (R : Sim segs s a) (len : Nat) :
    ∃ s' a', OSS.request s len = .ok (s'.current.length, s') ∧
      a.baseRequest (ossPol segs) len = .ok (s'.current.length, a') ∧ Sim segs s' a' := by
  obtain ⟨⟨done, rest, hsplit, hitems, hdata, hcur⟩, hgr, hlim, hfr, hnf⟩ := R
  obtain ⟨s', taken, rest', r1, r2, r3, r4, r5⟩ := request_exact s rest len hitems
  have htot : segs.flatten.length = done.flatten.length + rest.flatten.length := by
    rw [hsplit]; simp
  have hav : a.data.length = s.current.length + rest.flatten.length := by rw [hdata]; simp
  -- what the policy grants
  have hpol : max a.granted (ossPol segs a.reqs len a.data.length) = s'.current.length := by
    rw [r4, List.length_append, r5, hgr]
    unfold ossPol
    have hle : a.data.length ≤ segs.flatten.length := by omega
    simp only [hle, if_true]
    have hpos : segs.flatten.length - a.data.length = done.flatten.length - s.current.length := by omega
    rw [hpos, hsplit]
    by_cases hl : len ≤ s.current.length
    · have hm : min len a.data.length = len := by omega
      have h1 := grantFrom_within done rest (done.flatten.length - s.current.length + min len a.data.length) (by omega)
      have h0 : len - s.current.length = 0 := by omega
      rw [h0, grantFrom_zero]
      omega
    · by_cases hr0 : rest.flatten.length = 0
      · have hm : min len a.data.length = s.current.length := by omega
        have h1 := grantFrom_within done rest (done.flatten.length - s.current.length + min len a.data.length) (by omega)
        have h2 := grantFrom_le rest (len - s.current.length)
        omega
      · have hm : min len a.data.length = s.current.length + min (len - s.current.length) rest.flatten.length := by omega
        have hx : done.flatten.length - s.current.length + min len a.data.length =
            done.flatten.length + min (len - s.current.length) rest.flatten.length := by omega
        rw [hx, grantFrom_beyond done rest _ (by omega), grantFrom_min]
        omega
  refine ⟨s', { a with reqs := a.reqs + 1, granted := s'.current.length }, r1, ?_, ?_⟩
  · simp only [S.baseRequest, hnf]
    simp only [hpol]
    simp
  · refine ⟨⟨done ++ taken, rest', by rw [hsplit, r2, List.append_assoc], r3, ?_, ?_⟩, rfl, hlim, hfr, hnf⟩
    · simp only [hdata, r4, r2, List.flatten_append, List.append_assoc]
    · rw [r4]; simp only [List.length_append, List.flatten_append]; omega

/-- **`slice`: the same octets are shown** -/
theorem slice_sim (segs : List Bytes) (s : OSS) (a : S) (R : Sim segs s a) : a.slice = s.current := by
  obtain ⟨⟨done, rest, _, _, hdata, _⟩, hgr, hlim, hfr, _⟩ := R
  simp [S.slice, S.off, hlim, hfr, hgr, hdata]

/-- **`advance` within the grant: the same octets are dropped** -/
theorem advance_sim (segs : List Bytes) (s : OSS) (a : S) (R : Sim segs s a) (n : Nat) (hn : n ≤ s.current.length) :
    ∃ s' a', OSS.advance s n = .ok s' ∧ a.advance n = .ok a' ∧ Sim segs s' a' := by
  obtain ⟨⟨done, rest, hsplit, hitems, hdata, hcur⟩, hgr, hlim, hfr, hnf⟩ := R
  refine ⟨{ s with current := s.current.drop n }, { a with data := a.data.drop n, granted := a.granted - n, limit := none },
    by simp [OSS.advance, hn], ?_, ⟨⟨done, rest, hsplit, hitems, ?_, ?_⟩, ?_, rfl, hfr, hnf⟩⟩
  · have h2 : ¬ a.granted < n := by omega
    simp [S.advance, S.off, hlim, hfr, h2]
  · simp only [hdata]; rw [List.drop_append_of_le_length hn]
  · simp only [List.length_drop]; omega
  · simp only [List.length_drop, hgr]

/-- …and past the grant both refuse (a panic: the caller broke the contract) -/
theorem advance_past (segs : List Bytes) (s : OSS) (a : S) (R : Sim segs s a) (n : Nat) (hn : s.current.length < n) :
    (∃ m, OSS.advance s n = .error (.panic m)) ∧ (∃ m, a.advance n = .error (.panic m)) := by
  obtain ⟨_, hgr, hlim, hfr, _⟩ := R
  constructor
  · have : ¬ n ≤ s.current.length := by omega
    exact ⟨"advance past current", by simp [OSS.advance, this]⟩
  · have h2 : a.granted < n := by omega
    exact ⟨"CONTRACT advance beyond granted", by simp [S.advance, S.off, hlim, hfr, h2]⟩

/-! ### any sequence of calls -/

/-- **C07 for the octet string source: every sequence of calls is answered by `OctetStringSource`
    exactly as by the abstract source with the conforming policy `ossPol`** -/
theorem calls_sim (segs : List Bytes) : ∀ (cs : List Call) (s : OSS) (a : S), Sim segs s a →
    ossRun cs s = absRun (ossPol segs) cs a := by
  intro cs
  induction cs with
  | nil => intro s a _; rfl
  | cons c cs ih =>
    intro s a R
    cases c with
    | request len =>
      obtain ⟨s', a', h1, h2, R'⟩ := request_sim segs s a R len
      simp only [ossRun, absRun, h1, h2, slice_sim segs s' a' R', ih s' a' R']
    | advance n =>
      by_cases hn : n ≤ s.current.length
      · obtain ⟨s', a', h1, h2, R'⟩ := advance_sim segs s a R n hn
        simp only [ossRun, absRun, h1, h2, slice_sim segs s' a' R', ih s' a' R']
      · obtain ⟨⟨m1, h1⟩, ⟨m2, h2⟩⟩ := advance_past segs s a R n (by omega)
        simp only [ossRun, absRun, h1, h2]

/-- the two sources for an accepted constructed octet string, from the start -/
theorem oss_is_conforming_source (c : Bytes) (segs : List Bytes) (h : Items c segs) (cs : List Call) :
    Conforming (ossPol segs) ∧
    ossRun cs (OSS.new (.cons c)) =
      absRun (ossPol segs) cs { data := segs.flatten, granted := 0, reqs := 0, failAt := none, limit := none } :=
  ⟨ossPol_conforming segs, calls_sim segs cs _ _ (sim_new_cons c segs h)⟩

/-- …and for a primitive octet string: the whole content is granted from the start -/
theorem oss_prim_is_conforming_source (b : Bytes) (cs : List Call) :
    Conforming (ossPol [b]) ∧
    ossRun cs (OSS.new (.prim b)) =
      absRun (ossPol [b]) cs { data := b, granted := b.length, reqs := 0, failAt := none, limit := none } :=
  ⟨ossPol_conforming [b], calls_sim [b] cs _ _ (sim_new_prim b)⟩

/-- non-vacuity, by kernel evaluation: `24 80 04 02 61 62 04 01 63 00 00` content = two segments -/
example : ossRun [.request 1, .advance 1, .request 3, .advance 2, .request 1] (OSS.new (.cons [0x04, 0x02, 0x61, 0x62, 0x04, 0x01, 0x63])) =
    [.granted 2 [0x61, 0x62], .advanced [0x62], .granted 2 [0x62, 0x63], .advanced [], .granted 0 []] := by rfl

end Bcder.Props.C07b
