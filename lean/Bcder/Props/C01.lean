/-
  C01 — Decoding untrusted octets never panics, aborts, hangs or overflows.

  What a theorem about the model can carry of this property, for ALL inputs:

  * `generic_total`: `Mode::decode` with the generic reader ends, on every octet string and in every
    mode, in a value, a content error, or (only if the caller-supplied loop budget is too small) the
    model's out-of-fuel marker — never in any of the model's panic sites (index, unwrap, assertion,
    `advance` past the limit, …).
  * `fuel_adequate` / `generic_terminates`: a loop budget of `input length + 2` is never exhausted: the
    number of loop iterations and the recursion depth of the generic reader are bounded by the number
    of octets in the input (every value consumes at least its two header octets).  This is the
    "never loops forever" part; the driver runs the model with that budget.
  * `leaves_run`: a routine whose explicit failure leaves are all content errors can only end in a
    content error or in a source-operation panic (`Leaves` / `leaves` tactic); used for the helpers.

  Typed accessors (BOOLEAN, INTEGER, OID, BIT STRING, strings) are shown total by the theorems of
  C14, C15, C18, C19, C20 (each gives the accessor as a closed function into ok / content error).
  NOT carried by the model: call-stack depth, aborts on allocation failure, allocation volume and
  wall-clock hangs of the Rust code — those are explored by the implementation driver (deep nestings
  on a 256 KiB stack, metered heap, watchdog) on every run.
-/
import Bcder.Props.C02
namespace Bcder.Props.C01
open Bcder Bcder.Spec Prog Bcder.Props.C02

/-! ### failure leaves of a program -/

/-- every explicit `fail e` in the program satisfies `P` -/
inductive Leaves (P : Err → Prop) : Prog α → Prop
  | ret (a : α) : Leaves P (.ret a)
  | fail (e : Err) (h : P e) : Leaves P (.fail e)
  | op (o : Op) (k : Resp → Prog α) (hk : ∀ r, Leaves P (k r)) : Leaves P (.op o k)

theorem Leaves.bind {P : Err → Prop} {p : Prog α} {f : α → Prog β} (hp : Leaves P p) (hf : ∀ a, Leaves P (f a)) :
    Leaves P (p >>= f) := by
  induction hp with
  | ret a => exact hf a
  | fail e h => exact Leaves.fail e h
  | op o k _ ih => exact Leaves.op o _ ih

theorem advance0_err_panic (g : G0) (n : Nat) (e : Err) (h : g.advance n = .error e) : e.isPanic = true := by
  unfold G0.advance at h
  by_cases h1 : g.data.length < n
  · simp only [h1, if_true] at h; cases h; rfl
  · simp only [h1, if_false] at h
    cases hl : g.limit with
    | none => rw [hl] at h; cases h
    | some l =>
      rw [hl] at h
      simp only at h
      by_cases h2 : l < n
      · simp only [h2, if_true] at h; cases h; rfl
      · simp only [h2, if_false] at h; cases h

/-- source operations fail only by panicking (contract breaches of the caller of the source) -/
theorem stepG0_err_panic (g : G0) (o : Op) (e : Err) (h : stepG0 g o = .error e) : e.isPanic = true := by
  cases o <;> simp only [stepG0] at h
  case takeOptU8 =>
    split at h
    · cases h
    · split at h
      · cases h
      · rename_i e' he; cases h; exact advance0_err_panic _ _ _ he
  case takeN n =>
    split at h
    · cases h; rfl
    · split at h
      · cases h
      · rename_i e' he; cases h; exact advance0_err_panic _ _ _ he
  case skipN n =>
    split at h
    · cases h; rfl
    · split at h
      · cases h
      · rename_i e' he; cases h; exact advance0_err_panic _ _ _ he
  case sliceN n =>
    split at h
    · cases h; rfl
    · cases h
  case capEnd =>
    split at h
    · cases h; rfl
    · split at h
      · split at h
        · cases h; rfl
        · cases h
      · cases h
  all_goals cases h

/-- a program fails only with one of its leaves or with a source-operation panic -/
theorem leaves_run {P : Err → Prop} {p : Prog α} (hp : Leaves P p) :
    ∀ (g : G0) (e : Err), runG0 p g = .error e → P e ∨ e.isPanic = true := by
  induction hp with
  | ret a => intro g e h; cases h
  | fail e0 h0 => intro g e h; simp only [runG0] at h; cases h; exact .inl h0
  | op o k _ ih =>
    intro g e h
    simp only [runG0] at h
    cases hs : stepG0 g o with
    | error e' =>
      rw [hs] at h; cases h
      exact .inr (stepG0_err_panic g o e hs)
    | ok r =>
      obtain ⟨r, g'⟩ := r
      rw [hs] at h
      exact ih r g' e h

/-! ### the generic reader ends in a value, a content error or out-of-fuel — never a panic -/

theorem generic_total (m : Mode) (f : Nat) (d : Bytes) :
    (∃ ts, runG0 (decodeAll m f) (St d none) = .ok (ts, St [] none)) ∨
    runG0 (decodeAll m f) (St d none) = .error .content ∨
    runG0 (decodeAll m f) (St d none) = .error .fuel := by
  have hr := decode_run m f d
  cases hp : parseAll (toM m) f d with
  | none => rw [hp] at hr; exact .inr ((rel0_none _).mp hr)
  | some ts =>
    rw [hp] at hr
    simp only [Option.map] at hr
    exact .inl ⟨ts, (rel0_some _ _).mp hr⟩

theorem generic_never_panics (m : Mode) (f : Nat) (d : Bytes) (s : String) :
    runG0 (decodeAll m f) (St d none) ≠ .error (.panic s) := by
  rcases generic_total m f d with ⟨ts, h⟩ | h | h <;> rw [h] <;> simp

/-- the same in every nested context (definite parent with any limit, indefinite parent) -/
theorem nested_never_panics_definite (m : Mode) (f : Nat) (d : Bytes) (l : Nat) (s : String) :
    runG0 (readAll f ⟨.definite, m, 0⟩) (St d (some l)) ≠ .error (.panic s) := by
  have h := definite_parent m f d l
  intro hc
  rw [hc] at h
  cases specD m 0 f d l <;> simp [Rel0] at h

theorem nested_never_panics_indefinite (m : Mode) (f : Nat) (g : G0) (hf : g.frames = []) (s : String) :
    runG0 (readAll f ⟨.indefinite, m, 0⟩) g ≠ .error (.panic s) := by
  have h := indefinite_parent m f g hf
  intro hc
  rw [hc] at h
  cases specI m f g <;> simp [Rel0] at h


/-! ### a loop budget of `input length + 2` is never exhausted -/

abbrev NF : Err → Prop := fun e => e ≠ .fuel

theorem leaves_takeOptU8 : Leaves NF (takeOptU8 : Prog _) :=
  Leaves.op _ _ (fun r => by cases r <;> first | exact Leaves.ret _ | exact Leaves.fail _ (by simp [NF]))
theorem leaves_getLimit : Leaves NF (getLimit : Prog _) :=
  Leaves.op _ _ (fun r => by cases r <;> first | exact Leaves.ret _ | exact Leaves.fail _ (by simp [NF]))
theorem leaves_need (n : Nat) : Leaves NF (need n : Prog _) :=
  Leaves.op _ _ (fun r => by cases r <;> first | exact Leaves.ret _ | exact Leaves.fail _ (by simp [NF]))

macro "leaves" : tactic => `(tactic|
  repeat' (first
    | exact Leaves.ret _ | exact Leaves.fail _ (by simp [NF]) | exact leaves_takeOptU8 | exact leaves_getLimit
    | exact leaves_need _
    | assumption
    | apply Leaves.bind
    | intro _
    | (dsimp only)
    | split))

theorem leaves_takeU8 : Leaves NF takeU8 := by
  unfold takeU8; simp only [Prog.contentErr, pure]; leaves
theorem leaves_tag_takeOptFrom : Leaves NF Tag.takeOptFrom := by
  unfold Tag.takeOptFrom; have := leaves_takeU8; simp only [Prog.contentErr, pure]; leaves
theorem leaves_tag_takeFrom : Leaves NF Tag.takeFrom := by
  unfold Tag.takeFrom; have := leaves_tag_takeOptFrom; simp only [Prog.contentErr, pure]; leaves
theorem leaves_length_takeFrom (m : Mode) : Leaves NF (Length.takeFrom m) := by
  unfold Length.takeFrom; have := leaves_takeU8; simp only [Prog.contentErr, pure]; leaves
theorem leaves_limitedExhausted : Leaves NF limitedExhausted := by
  unfold limitedExhausted; simp only [Prog.contentErr, pure]; leaves
theorem leaves_cons_exhausted (c : Cons) : Leaves NF c.exhausted := by
  unfold Cons.exhausted
  have := leaves_limitedExhausted; have := leaves_tag_takeFrom; have := leaves_length_takeFrom c.mode
  simp only [Prog.contentErr, pure]; leaves
theorem leaves_content_exhausted (c : Content) : Leaves NF c.exhausted := by
  cases c with
  | prim m => exact leaves_limitedExhausted
  | cons c => exact leaves_cons_exhausted c

theorem exhausted_no_fuel (c : Content) (g : G0) : runG0 c.exhausted g ≠ .error .fuel := by
  intro h
  rcases leaves_run (leaves_content_exhausted c) g _ h with h1 | h1
  · exact h1 rfl
  · cases h1


/-- the value part can only run out of fuel inside the closure -/
theorem bodyF_fuel (c : Cons) (op : Tag → Content → Prog (α × Content)) (hd : Nat) (g2 : G0) (id : Ident) (len? : Option Nat)
    (h : bodyF c op hd g2 id len? = .error .fuel) :
    (∃ len, len? = some len ∧ (∀ l, g2.limit = some l → len ≤ l) ∧
      runG0 (op (C12.tagOf id.cls id.num)
        (if id.constructed then .cons ⟨.definite, c.mode, 0⟩ else .prim c.mode)) (St g2.data (some len)) = .error .fuel) ∨
    (len? = none ∧ runG0 (op (C12.tagOf id.cls id.num) (.cons ⟨.indefinite, c.mode, 0⟩)) g2 = .error .fuel) := by
  unfold bodyF at h
  by_cases he : isEocIdent id = true
  · simp only [he, if_true] at h
    exfalso
    repeat' (split at h)
    all_goals simp at h
  · simp only [he, Bool.false_eq_true, if_false] at h
    cases len? with
    | some len =>
      simp only at h
      have cont : (∀ l, g2.limit = some l → len ≤ l) →
          (if (id.constructed && c.mode == .cer) = true then (.error .content : Res ((Option α × Cons) × G0))
           else
            match runG0 (op (C12.tagOf id.cls id.num)
                (if id.constructed = true then Content.cons ⟨.definite, c.mode, 0⟩ else Content.prim c.mode))
                (St g2.data (some len)) with
            | .error e => .error e
            | .ok ((res, content'), g3) =>
              match runG0 content'.exhausted g3 with
              | .error e => .error e
              | .ok (_, g4) => .ok ((some res, c), { g4 with limit := g2.limit.map (· - len) })) = .error .fuel →
          runG0 (op (C12.tagOf id.cls id.num)
            (if id.constructed = true then Content.cons ⟨.definite, c.mode, 0⟩ else Content.prim c.mode))
            (St g2.data (some len)) = .error .fuel := by
        intro _ h
        by_cases hcer : (id.constructed && c.mode == .cer) = true
        · rw [if_pos hcer] at h; cases h
        · rw [if_neg hcer] at h
          cases hr : runG0 (op (C12.tagOf id.cls id.num)
              (if id.constructed = true then Content.cons ⟨.definite, c.mode, 0⟩ else Content.prim c.mode))
              (St g2.data (some len)) with
          | error e =>
            rw [hr] at h; simp only at h; cases h; rfl
          | ok r =>
            obtain ⟨⟨res, content'⟩, g3⟩ := r
            rw [hr] at h
            simp only at h
            cases hx : runG0 content'.exhausted g3 with
            | error e => rw [hx] at h; simp only at h; cases h; exact absurd hx (exhausted_no_fuel _ _)
            | ok r2 => rw [hx] at h; cases h
      cases hlim : g2.limit with
      | none =>
        rw [hlim] at h
        simp only [Bool.false_eq_true, if_false] at h
        have hle : ∀ l, g2.limit = some l → len ≤ l := by intro l hl; rw [hlim] at hl; cases hl
        rw [hlim] at cont
        exact .inl ⟨len, rfl, (by intro l hl; cases hl), cont (by intro l hl; cases hl) h⟩
      | some l =>
        rw [hlim] at h
        simp only at h
        by_cases hgt : len > l
        · simp only [hgt, decide_true, if_true] at h; cases h
        · have hd : decide (len > l) = false := by simp [hgt]
          simp only [hd, Bool.false_eq_true, if_false] at h
          have hle : ∀ l', g2.limit = some l' → len ≤ l' := by
            intro l' hl; rw [hlim] at hl; cases hl; omega
          rw [hlim] at cont
          exact .inl ⟨len, rfl, (by intro l' hl; cases hl; omega), cont (by intro l' hl; cases hl; omega) h⟩
    | none =>
      simp only at h
      by_cases h1 : (!id.constructed || c.mode == .der) = true
      · rw [if_pos h1] at h; cases h
      · rw [if_neg h1] at h
        refine .inr ⟨rfl, ?_⟩
        cases hr : runG0 (op (C12.tagOf id.cls id.num) (.cons ⟨.indefinite, c.mode, 0⟩)) g2 with
        | error e => rw [hr] at h; simp only at h; cases h; rfl
        | ok r =>
          obtain ⟨⟨res, content'⟩, g3⟩ := r
          rw [hr] at h
          simp only at h
          cases hx : runG0 content'.exhausted g3 with
          | error e => rw [hx] at h; simp only at h; cases h; exact absurd hx (exhausted_no_fuel _ _)
          | ok r2 => rw [hx] at h; cases h

/-- every value the grammar accepts consumes at least its two header octets -/
theorem parseValue_consumes (m : M) (f : Nat) (v : Bytes) (t : Tree) (rest : Bytes)
    (h : parseValue m f v = some (t, rest)) : rest.length + 2 ≤ v.length := by
  cases f with
  | zero => simp [parseValue] at h
  | succ f =>
    simp only [parseValue] at h
    cases hr : readIdent v with
    | none => simp [hr] at h
    | some r =>
      obtain ⟨id, k⟩ := r
      obtain ⟨_, _, hk1, hk, _⟩ := C12.readIdent_bounds v id k hr
      simp only [hr] at h
      split at h
      · simp at h
      · cases hl : readLen m.isBer (v.drop k) with
        | none => simp [hl] at h
        | some r2 =>
          obtain ⟨len?, kl⟩ := r2
          obtain ⟨hkl1, hkl⟩ := readLen_bound _ _ len? kl hl
          simp only [List.length_drop] at hkl
          simp only [hl] at h
          cases len? with
          | some n =>
            simp only at h
            split at h
            · simp at h
            · split at h
              · simp only [Option.some.injEq, Prod.mk.injEq] at h
                rw [← h.2]; simp only [List.length_drop]; omega
              · split at h
                · simp at h
                · split at h
                  · simp only [Option.some.injEq, Prod.mk.injEq] at h
                    rw [← h.2]; simp only [List.length_drop]; omega
                  · simp at h
          | none =>
            simp only at h
            split at h
            · simp at h
            · split at h
              · rename_i kids rest' hp
                simp only [Option.some.injEq, Prod.mk.injEq] at h
                obtain ⟨j, hj, hrest⟩ := (suffix_lemma m f).2 _ _ _ hp
                rw [← h.2, hrest]; simp only [List.length_drop]; omega
              · simp at h


def NFA (f : Nat) : Prop := ∀ c g, g.frames = [] → g.view.length < f → runG0 (readAll f c) g ≠ .error .fuel
def NFV (f : Nat) : Prop := ∀ tag content g, g.frames = [] →
  (∀ m, content = .prim m → ∃ d len, g = St d (some len)) → g.view.length + 1 < f →
  runG0 (readValue f tag content) g ≠ .error .fuel

theorem nfv_step (f : Nat) (hA : NFA f) : NFV (f + 1) := by
  intro tag content g hf hprim hlen
  cases content with
  | prim m =>
    obtain ⟨d, len, hg⟩ := hprim m rfl
    subst hg
    simp only [readValue, runG0_bind, run_takeAll]
    by_cases h : len ≤ d.length <;> simp [h]
  | cons c =>
    simp only [readValue, runG0_bind]
    cases hr : runG0 (readAll f c) g with
    | ok r => obtain ⟨⟨kids, c'⟩, g'⟩ := r; simp
    | error e =>
      simp only
      intro h; cases h
      exact hA c g hf (by omega) hr

theorem header_view (m : Mode) (g : G0) (id : Ident) (len? : Option Nat) (g2 : G0)
    (h : headerF m g = some ((id, len?), g2)) :
    g2.frames = [] ∧ g2.view.length + 2 ≤ g.view.length ∧ ∃ k, readIdent g.view = some (id, k) := by
  unfold headerF at h
  cases hr : readIdent g.view with
  | none => rw [hr] at h; cases h
  | some r =>
    obtain ⟨id', k⟩ := r
    rw [hr] at h
    simp only at h
    obtain ⟨_, _, hk1, hk, _⟩ := C12.readIdent_bounds _ _ _ hr
    cases hl : readLen m.isBer (g.adv k).view with
    | none => rw [hl] at h; cases h
    | some r2 =>
      obtain ⟨l?, kl⟩ := r2
      rw [hl] at h
      simp only [Option.some.injEq, Prod.mk.injEq] at h
      obtain ⟨⟨h1, h2⟩, h3⟩ := h
      obtain ⟨hkl1, hkl⟩ := readLen_bound _ _ _ _ hl
      subst h3
      refine ⟨rfl, ?_, k, by rw [h1]⟩
      rw [view_adv_len _ _ hkl, view_adv_len _ _ hk]
      rw [view_adv_len _ _ hk] at hkl
      omega

theorem nfa_step (f : Nat) (hA : NFA f) (hV : NFV f) (hS : VS f) : NFA (f + 1) := by
  intro c g hf hlen
  rw [readAll_run _ _ _ hf]
  unfold allF
  cases hp : pnvF c (readValue f) g with
  | error e =>
    simp only
    intro h; cases h
    -- the error comes out of pnvF
    unfold pnvF at hp
    split at hp
    · cases hp
    · split at hp
      · cases hp
      · split at hp
        · cases hp
        · split at hp
          · cases hp
          · cases hh : headerF c.mode g with
            | none => rw [hh] at hp; cases hp
            | some r =>
              obtain ⟨⟨id, len?⟩, g2⟩ := r
              rw [hh] at hp
              simp only at hp
              obtain ⟨hf2, hv2, _⟩ := header_view _ _ _ _ _ hh
              rcases bodyF_fuel _ _ _ _ _ _ hp with ⟨len, _, hle, hrun⟩ | ⟨_, hrun⟩
              · refine hV _ _ _ rfl ?_ ?_ hrun
                · intro m _; exact ⟨_, _, rfl⟩
                · have hvl := view_len g2
                  have : (St g2.data (some len)).view.length = min len g2.data.length := by
                    simp [G0.view, List.length_take]
                  rw [this]
                  cases hl : g2.limit with
                  | none => rw [hl] at hvl; simp only at hvl; omega
                  | some l => have := hle l hl; rw [hl] at hvl; simp only at hvl; omega
              · refine hV _ _ _ hf2 ?_ ?_ hrun
                · intro m hm; cases hm
                · omega
  | ok r =>
    obtain ⟨⟨t?, c'⟩, g'⟩ := r
    cases t? with
    | none => simp
    | some t =>
      simp only
      -- locate g' through the grammar
      have hnf : runG0 (readAll f c') g' ≠ .error .fuel := by
        by_cases h1 : c.state = .done
        · simp [pnvF, h1] at hp
        by_cases h2 : c.state = .definite ∧ g.limit = none
        · simp [pnvF, h1, h2] at hp
        by_cases h3 : c.state = .definite ∧ g.limit = some 0
        · simp [pnvF, h1, h2, h3] at hp
        by_cases h4 : c.state = .unbounded ∧ g.view = []
        · simp [pnvF, h1, h2, h3, h4] at hp
        rw [pnvF_value _ _ _ h1 h2 h3 h4] at hp
        by_cases hE : c.state = .indefinite → ∀ id k, readIdent g.view = some (id, k) → isEocIdent id = false
        · have hv := hS c g hf hE
          rw [hp] at hv
          unfold specV at hv
          cases hq : parseValue (toM c.mode) f g.view with
          | none => rw [hq] at hv; simp [Rel0] at hv
          | some r =>
            obtain ⟨t', rest⟩ := r
            rw [hq] at hv
            simp only [Option.map, Rel0, Prod.mk.injEq] at hv
            obtain ⟨⟨_, hc'⟩, hg'⟩ := hv
            have hcons := parseValue_consumes _ _ _ _ _ hq
            subst hg'
            refine hA c' _ (adv_frames _ _) ?_
            rw [view_adv_len _ _ (by omega)]
            omega
        · -- end-of-contents in an indefinite parent never yields a value
          exfalso
          have hE' : c.state = .indefinite ∧ ∃ id k, readIdent g.view = some (id, k) ∧ isEocIdent id = true := by
            apply Classical.byContradiction
            intro hn
            apply hE
            intro hs id k hr
            cases hb : isEocIdent id with
            | false => rfl
            | true => exact absurd ⟨hs, id, k, hr, hb⟩ hn
          obtain ⟨hs, id, k, hr, he⟩ := hE'
          have he' : isEocIdent id = true := by simpa using he
          unfold valuePart at hp
          cases hh : headerF c.mode g with
          | none => rw [hh] at hp; cases hp
          | some r =>
            obtain ⟨⟨id2, len?⟩, g2⟩ := r
            rw [hh] at hp
            simp only at hp
            obtain ⟨_, _, k2, hr2⟩ := header_view _ _ _ _ _ hh
            rw [hr] at hr2
            simp only [Option.some.injEq, Prod.mk.injEq] at hr2
            obtain ⟨hid, _⟩ := hr2
            subst hid
            unfold bodyF at hp
            simp only [he', if_true, hs] at hp
            repeat' (split at hp)
            all_goals simp at hp
      cases hr : runG0 (readAll f c') g' with
      | ok r2 => obtain ⟨⟨ts, c''⟩, g''⟩ := r2; simp
      | error e =>
        simp only
        intro h; cases h
        exact hnf hr

theorem nf_all : ∀ f, NFA f ∧ NFV f := by
  intro f
  induction f with
  | zero => exact ⟨fun c g _ h => by omega, fun t c g _ _ h => by omega⟩
  | succ f ih => exact ⟨nfa_step f ih.1 ih.2 (refines f).2.2.2, nfv_step f ih.1⟩

/-- **the loop budget `input length + 2` is never exhausted**: the generic reader makes at most
    that many nested/consecutive steps on any input -/
theorem fuel_adequate (m : Mode) (d : Bytes) (f : Nat) (hf : d.length + 2 ≤ f) :
    runG0 (decodeAll m f) (St d none) ≠ .error .fuel := by
  unfold decodeAll decodeTop
  simp only [runG0_bind]
  cases hr : runG0 (readAll f ⟨.unbounded, m, 0⟩) (St d none) with
  | error e =>
    simp only
    intro h; cases h
    exact (nf_all f).1 _ _ rfl (by simp [G0.view]; omega) hr
  | ok r =>
    obtain ⟨⟨ts, c'⟩, g'⟩ := r
    simp only
    cases hx : runG0 c'.exhausted g' with
    | ok r2 => simp
    | error e =>
      simp only
      intro h; cases h
      exact exhausted_no_fuel (.cons c') g' hx

/-- **termination with a verdict**: with the budget the driver uses, every input in every mode ends
    in a value (everything consumed) or a content error -/
theorem generic_terminates (m : Mode) (d : Bytes) :
    (∃ ts, runG0 (decodeAll m (d.length + 2)) (St d none) = .ok (ts, St [] none)) ∨
    runG0 (decodeAll m (d.length + 2)) (St d none) = .error .content := by
  rcases generic_total m (d.length + 2) d with h | h | h
  · exact .inl h
  · exact .inr h
  · exact absurd h (fuel_adequate m d _ (Nat.le_refl _))

end Bcder.Props.C01
