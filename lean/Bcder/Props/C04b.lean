/-
  C04b — the round trip with OPTIONAL fields that are ABSENT.

  `C04.Codec` covers OPTIONAL fields that are present.  An absent OPTIONAL field writes nothing, and
  whether the reader then answers `None` depends on what FOLLOWS: `take_opt_*_if(tag)` answers
  `None` exactly if the context has ended, the source is at its end, or the next identifier is not
  `tag` (C09).  So the round trip of a composition with absent fields holds under a condition on the
  octets that follow, and that condition is what ASN.1 demands of a type for it to be unambiguous:
  the tag of an absent OPTIONAL field must differ from the tag of whatever comes next.

  `RTF m P` is `C04.RT m` under a hypothesis `P` on the view that follows; `TailOK T` says the view
  that follows is empty or starts with an identifier whose tag is not in `T`.  `CodecF m T` extends
  `C04.Codec m` by absent fields, tracking the follow set `T`; `codecF_roundtrip` is the theorem and
  `topF_roundtrip` its top-level form (where nothing follows, so the condition is discharged).
-/
import Bcder.Props.C04
import Bcder.Props.C16
import Bcder.Props.C18
namespace Bcder.Props.C04b
open Bcder Bcder.Spec Prog Bcder.Props.C02 Bcder.Props.C09 Bcder.Props.C04

/-- the view is empty, or starts with a complete identifier whose (class, number) is not in `T` -/
def TailOK (T : List (Nat × Nat)) (view : Bytes) : Prop :=
  view = [] ∨ ∃ id k, readIdent view = some (id, k) ∧ ∀ t ∈ T, ¬ (id.cls = t.1 ∧ id.num = t.2)

theorem tailOK_nil (T : List (Nat × Nat)) : TailOK T [] := .inl rfl

theorem tailOK_empty (view : Bytes) (h : view = [] ∨ ∃ id k, readIdent view = some (id, k)) : TailOK [] view := by
  rcases h with h | ⟨id, k, h⟩
  · exact .inl h
  · exact .inr ⟨id, k, h, by simp⟩

theorem tailOK_mono (T T' : List (Nat × Nat)) (view : Bytes) (hs : ∀ t ∈ T', t ∈ T) (h : TailOK T view) :
    TailOK T' view := by
  rcases h with h | ⟨id, k, h, hn⟩
  · exact .inl h
  · exact .inr ⟨id, k, h, fun t ht => hn t (hs t ht)⟩

/-- `C04.RT` under a hypothesis on the view that follows the octets read -/
def RTF (m : Mode) (P : Bytes → Prop) (bytes : Bytes) (dec : Cons → Prog (β × Cons)) (v : β) : Prop :=
  ∀ (c : Cons) (tail : Bytes) (lim : Option Nat), c.mode = m → c.state ≠ .done →
    (c.state = .definite → lim ≠ none) → (∀ l, lim = some l → bytes.length ≤ l) →
    P (St tail (lim.map (· - bytes.length))).view →
    runG0 (dec c) (St (bytes ++ tail) lim) = .ok ((v, c), St tail (lim.map (· - bytes.length)))

theorem rtf_of_rt (m : Mode) (P : Bytes → Prop) (bytes : Bytes) (dec : Cons → Prog (β × Cons)) (v : β)
    (h : RT m bytes dec v) : RTF m P bytes dec v :=
  fun c tail lim hm hnd hdef hcov _ => h c tail lim hm hnd hdef hcov

theorem rtf_weaken (m : Mode) (P Q : Bytes → Prop) (bytes : Bytes) (dec : Cons → Prog (β × Cons)) (v : β)
    (hpq : ∀ view, Q view → P view) (h : RTF m P bytes dec v) : RTF m Q bytes dec v :=
  fun c tail lim hm hnd hdef hcov hq => h c tail lim hm hnd hdef hcov (hpq _ hq)

/-! ### an absent OPTIONAL field -/

/-- a tag-selective read answers `None` and touches nothing if what follows is not that tag -/
theorem pnv_absent (c : Cons) (cls num : Nat) (hc : cls ≤ 3) (hn : num ≤ 0x1fffff)
    (op : Tag → Content → Prog (α × Content)) (tail : Bytes) (lim : Option Nat)
    (hdef : c.state = .definite → lim ≠ none)
    (hP : TailOK [(cls, num)] (St tail lim).view) :
    runG0 (processNextValue c (some (C12.tagOf cls num)) op) (St tail lim) = .ok ((none, c), St tail lim) := by
  rw [pnvE_eq c cls num hc hn op (St tail lim) rfl]
  unfold pnvE
  by_cases h1 : c.state = .done
  · simp [h1]
  · have h2 : ¬ (c.state = .definite ∧ (St tail lim).limit = none) := fun ⟨a, b⟩ => hdef a b
    simp only [h1, if_false, h2]
    by_cases h3 : c.state = .definite ∧ (St tail lim).limit = some 0
    · rw [if_pos h3]
    · rw [if_neg h3]
      rcases hP with hv | ⟨id, k, hr, hne⟩
      · simp [hv]
      · have hv : (St tail lim).view ≠ [] := by
          intro h; rw [h] at hr; simp [readIdent] at hr
        simp only [hv, if_false, hr]
        have := hne (cls, num) (by simp)
        simp only at this
        simp [this]

theorem map_sub_zero (lim : Option Nat) : lim.map (· - ([] : Bytes).length) = lim := by
  cases lim <;> simp

/-- `take_opt_primitive_if` on an absent field -/
theorem rtf_optNone_prim (m : Mode) (cls num : Nat) (hc : cls ≤ 3) (hn : num ≤ 0x1fffff)
    (k : Mode → Prog (α × Mode)) :
    RTF m (TailOK [(cls, num)]) [] (fun c => takeOptPrimitiveIf c (C12.tagOf cls num) k) none := by
  intro c tail lim _ _ hdef _ hP
  rw [map_sub_zero] at hP ⊢
  unfold takeOptPrimitiveIf
  simpa using pnv_absent c cls num hc hn _ tail lim hdef hP

/-- `take_opt_value_if` on an absent field -/
theorem rtf_optNone_value (m : Mode) (cls num : Nat) (hc : cls ≤ 3) (hn : num ≤ 0x1fffff)
    (op : Content → Prog (α × Content)) :
    RTF m (TailOK [(cls, num)]) [] (fun c => takeOptValueIf c (C12.tagOf cls num) op) none := by
  intro c tail lim _ _ hdef _ hP
  rw [map_sub_zero] at hP ⊢
  unfold takeOptValueIf
  simpa using pnv_absent c cls num hc hn _ tail lim hdef hP

/-- `take_opt_constructed_if` on an absent field -/
theorem rtf_optNone_cons (m : Mode) (cls num : Nat) (hc : cls ≤ 3) (hn : num ≤ 0x1fffff)
    (dec : Cons → Prog (β × Cons)) :
    RTF m (TailOK [(cls, num)]) [] (fun c => takeOptConstructedIf c (C12.tagOf cls num) dec) none := by
  intro c tail lim _ _ hdef _ hP
  rw [map_sub_zero] at hP ⊢
  unfold takeOptConstructedIf
  simpa using pnv_absent c cls num hc hn _ tail lim hdef hP

/-! ### the algebra -/

theorem rtf_map (m : Mode) (P : Bytes → Prop) (b : Bytes) (d : Cons → Prog (β × Cons)) (v : β) (f : β → γ)
    (h : RTF m P b d v) : RTF m P b (fun c => do let (a, c1) ← d c; pure (f a, c1)) (f v) := by
  intro c tail lim hm hnd hdef hcov hP
  simp only [runG0_bind, h c tail lim hm hnd hdef hcov hP, runG0_pure]

theorem rtf_mandatory (m : Mode) (P : Bytes → Prop) (bytes : Bytes) (dec : Cons → Prog (Option β × Cons)) (v : β)
    (h : RTF m P bytes dec (some v)) : RTF m P bytes (fun c => mandatory (dec c)) v := by
  intro c tail lim hm hnd hdef hcov hP
  rw [mandatory_run, h c tail lim hm hnd hdef hcov hP]

/-- the octets start with a complete identifier of this class and number -/
def FirstIs (b : Bytes) (cls num : Nat) : Prop := ∃ c k, readIdent b = some (⟨cls, c, num⟩, k)

/-- the view of a source whose window covers `b` starts with `b` -/
theorem view_covers (b tail : Bytes) (lim : Option Nat) (hcov : ∀ l, lim = some l → b.length ≤ l) :
    ∃ t', (St (b ++ tail) lim).view = b ++ t' := by
  cases lim with
  | none => exact ⟨tail, by simp [G0.view]⟩
  | some l =>
    have := hcov l rfl
    exact ⟨tail.take (l - b.length), by simp only [G0.view]; exact take_covers b tail l this⟩

/-- **sequencing** under follow conditions: what follows the first part is the second part (if it
    wrote anything) or what follows both -/
theorem rtf_seq (m : Mode) (T1 T2 T : List (Nat × Nat)) (b1 b2 : Bytes)
    (d1 : Cons → Prog (β × Cons)) (d2 : Cons → Prog (γ × Cons))
    (v1 : β) (v2 : γ) (h1 : RTF m (TailOK T1) b1 d1 v1) (h2 : RTF m (TailOK T2) b2 d2 v2)
    (hT2 : ∀ t ∈ T2, t ∈ T)
    (hfirst : (b2 = [] ∧ ∀ t ∈ T1, t ∈ T) ∨ (∃ cls num, FirstIs b2 cls num ∧ (cls, num) ∉ T1)) :
    RTF m (TailOK T) (b1 ++ b2) (fun c => do let (a, c1) ← d1 c; let (b, c2) ← d2 c1; pure ((a, b), c2)) (v1, v2) := by
  intro c tail lim hm hnd hdef hcov hP
  have hfin : (lim.map (· - b1.length)).map (· - b2.length) = lim.map (· - (b1 ++ b2).length) := by
    cases lim <;> simp [Nat.sub_sub]
  have hcov2 : ∀ l, lim.map (· - b1.length) = some l → b2.length ≤ l := by
    intro l hl
    cases lim with
    | none => simp at hl
    | some l0 =>
      simp at hl; subst hl
      have := hcov l0 rfl
      simp at this; omega
  simp only [runG0_bind]
  rw [List.append_assoc]
  rw [h1 c (b2 ++ tail) lim hm hnd hdef (by intro l hl; have := hcov l hl; simp at this; omega)
    (by
      rcases hfirst with ⟨hb, hs⟩ | ⟨cls, num, ⟨cb, k, hr⟩, hnot⟩
      · subst hb
        simp only [List.nil_append]
        rw [← hfin] at hP
        simp only [List.length_nil, Nat.sub_zero] at hP
        have e : Option.map (fun x => x) (Option.map (fun x => x - b1.length) lim) =
            Option.map (fun x => x - b1.length) lim := by cases lim <;> rfl
        rw [e] at hP
        exact tailOK_mono T T1 _ hs hP
      · obtain ⟨t', hv⟩ := view_covers b2 tail (lim.map (· - b1.length)) hcov2
        refine .inr ⟨⟨cls, cb, num⟩, k, ?_, ?_⟩
        · rw [hv]; exact C16.readIdent_append b2 t' _ k hr
        · intro t ht ⟨e1, e2⟩
          apply hnot
          have : t = (cls, num) := by
            obtain ⟨a, b⟩ := t
            simp only at e1 e2
            rw [e1, e2]
          rw [← this]; exact ht)]
  simp only
  rw [h2 c tail (lim.map (· - b1.length)) hm hnd
    (by intro hs; cases lim with | none => exact absurd rfl (hdef hs) | some l => simp)
    hcov2
    (by rw [hfin]; exact tailOK_mono T T2 _ hT2 hP)]
  simp only [runG0_pure]
  rw [hfin]

/-- **Constructed values (definite length: BER, DER)**: the content is followed by nothing (its
    window ends), so any follow condition of the content is met -/
theorem rtf_cons_opt (m : Mode) (hm : m ≠ .cer) (cls num : Nat) (hc : cls ≤ 3) (hn : num ≤ 0x1fffff)
    (hne : ¬ (cls = 0 ∧ num = 0)) (T : List (Nat × Nat)) (ib : Bytes) (dec : Cons → Prog (β × Cons)) (v : β)
    (hlen : ib.length < 2 ^ 32) (hin : RTF m (TailOK T) ib dec v) :
    RT m (hdrOctets cls true num ib.length ++ ib)
      (fun c => takeOptConstructedIf c (C12.tagOf cls num) dec) (some v) := by
  intro c tail lim hmode hnd hdef hcov
  unfold takeOptConstructedIf
  have hcov' : ∀ l, lim = some l → (hdrOctets cls true num ib.length).length + ib.length ≤ l := by
    intro l hl; have := hcov l hl; simpa using this
  have hf := frame_definite c cls num true hc hn hne
    (fun _ => asConstructed dec) ib tail hlen lim hnd hdef hcov'
  rw [hf]
  unfold frameResult
  have hcer : (true && c.mode == .cer) = false := by
    rw [hmode]; cases m <;> simp at hm ⊢
  simp only [hcer, Bool.false_eq_true, if_false, if_true]
  have hi := hin ⟨.definite, c.mode, 0⟩ tail (some ib.length) hmode (by simp) (by simp)
    (by intro l hl; cases hl; exact Nat.le_refl _)
    (by left; simp [G0.view])
  simp only [asConstructed, runG0_bind, hi, Option.map, Nat.sub_self, runG0_pure, Content.exhausted,
    Cons.exhausted, run_limitedExhausted, if_true]
  simp [List.length_append, Nat.add_comm]

/-- **Constructed values in CER (indefinite length)**: the content is followed by the
    end-of-contents octets, whose tag (universal 0) no field can have -/
theorem rtf_cons_cer_opt (cls num : Nat) (hc : cls ≤ 3) (hn : num ≤ 0x1fffff)
    (hne : ¬ (cls = 0 ∧ num = 0)) (T : List (Nat × Nat)) (hT : ∀ t ∈ T, ¬ (t.1 = 0 ∧ t.2 = 0))
    (ib : Bytes) (dec : Cons → Prog (β × Cons)) (v : β)
    (hin : RTF .cer (TailOK T) ib dec v) :
    RT .cer (identOctets cls true num ++ [0x80] ++ ib ++ [0, 0])
      (fun c => takeOptConstructedIf c (C12.tagOf cls num) dec) (some v) := by
  intro c tail lim hmode hnd hdef hcov
  unfold takeOptConstructedIf
  let data : Bytes := identOctets cls true num ++ [0x80] ++ ib ++ [0, 0] ++ tail
  let g : G0 := St data lim
  have hidl : 1 ≤ (identOctets cls true num).length := by
    unfold identOctets; by_cases h : num ≤ 30 <;> simp [h]
  have hcovl : ∀ l, lim = some l → (identOctets cls true num).length + 1 + ib.length + 2 ≤ l := by
    intro l hl; have := hcov l hl; simp at this; omega
  have hview : ∃ t', g.view = identOctets cls true num ++ (0x80 :: (ib ++ 0 :: 0 :: t')) := by
    cases hl : lim with
    | none => exact ⟨tail, by simp [g, data, G0.view, hl, List.append_assoc]⟩
    | some l =>
      have := hcovl l hl
      refine ⟨tail.take (l - ((identOctets cls true num).length + 1 + ib.length + 2)), ?_⟩
      simp only [g, data, G0.view, hl]
      rw [take_covers _ _ _ (by simp; omega)]
      simp [List.append_assoc, Nat.add_assoc]
      congr 2; omega
  obtain ⟨t', hv⟩ := hview
  have hri : readIdent g.view = some (⟨cls, true, num⟩, (identOctets cls true num).length) := by
    rw [hv]; exact readIdent_identOctets cls num true hc hn _
  have hk : (identOctets cls true num).length ≤ g.view.length := by rw [hv]; simp
  have hv1 : (g.adv (identOctets cls true num).length).view = 0x80 :: (ib ++ 0 :: 0 :: t') := by
    rw [G0.adv_view g _ hk, hv]; simp
  have hrl : readLen c.mode.isBer (g.adv (identOctets cls true num).length).view = some (none, 1) := by
    rw [hv1]; rfl
  have hpres := present_if c cls num hc hn (fun _ => asConstructed dec) g rfl hnd
    (by intro l hs hl h0; have := hcovl l hl; omega)
    (by intro ⟨hs, hl⟩; exact hdef hs hl)
    true _ hri
  show runG0 (processNextValue c (some (C12.tagOf cls num)) fun _ => asConstructed dec) g = _
  rw [hpres, hrl]
  simp only
  have hg2 : (g.adv (identOctets cls true num).length).adv 1 =
      St (ib ++ (0 :: 0 :: tail)) (lim.map (· - ((identOctets cls true num).length + 1))) := by
    rw [G0.adv_adv]
    simp only [g, data, G0.adv]
    congr 1
    rw [List.append_assoc, List.append_assoc, List.append_assoc]
    rw [show (identOctets cls true num).length + 1 = (identOctets cls true num ++ [0x80]).length by simp]
    rw [← List.append_assoc (identOctets cls true num)]
    rw [List.drop_append_of_le_length (Nat.le_refl _)]
    simp
  rw [hg2]
  unfold bodyF
  have heoc : isEocIdent ⟨cls, true, num⟩ = false := by
    simp only [isEocIdent, Bool.and_eq_false_iff, beq_eq_false_iff_ne, ne_eq]
    by_cases h0 : cls = 0
    · right; intro h1; exact hne ⟨h0, h1⟩
    · left; exact h0
  have hder : (!true || c.mode == .der) = false := by rw [hmode]; rfl
  simp only [heoc, Bool.false_eq_true, if_false, hder]
  have hcov3 : ∀ l, lim.map (· - ((identOctets cls true num).length + 1)) = some l → ib.length + 2 ≤ l := by
    intro l hl
    cases hl0 : lim with
    | none => rw [hl0] at hl; simp at hl
    | some l0 => rw [hl0] at hl; simp at hl; have := hcovl l0 hl0; omega
  have hi := hin ⟨.indefinite, c.mode, 0⟩ (0 :: 0 :: tail)
    (lim.map (· - ((identOctets cls true num).length + 1))) hmode (by simp) (by simp)
    (by intro l hl; have := hcov3 l hl; omega)
    (by
      -- what follows the content is the end-of-contents marker
      right
      refine ⟨⟨0, false, 0⟩, 1, ?_, fun t ht ⟨e1, e2⟩ => hT t ht ⟨e1.symm, e2.symm⟩⟩
      cases hl0 : lim with
      | none => simp [G0.view, readIdent]
      | some l0 =>
        have := hcovl l0 hl0
        simp only [Option.map, G0.view]
        obtain ⟨l', hl'⟩ : ∃ l', l0 - ((identOctets cls true num).length + 1) - ib.length = l' + 2 :=
          ⟨l0 - ((identOctets cls true num).length + 1) - ib.length - 2, by omega⟩
        rw [hl']
        simp [readIdent])
  simp only [asConstructed, runG0_bind, hi, runG0_pure, Content.exhausted]
  rw [hmode]
  rw [eoc_exhausted .cer tail _ (by
      intro l hl
      cases hl0 : lim with
      | none => rw [hl0] at hl; simp at hl
      | some l0 => rw [hl0] at hl; simp at hl; have := hcovl l0 hl0; omega)]
  simp only
  cases lim with
  | none => simp
  | some l => simp [Nat.sub_sub, Nat.add_assoc]; omega

/-! ### what the encoders' octets start with -/

theorem firstIs_append (b1 b2 : Bytes) (cls num : Nat) (h : FirstIs b1 cls num) : FirstIs (b1 ++ b2) cls num := by
  obtain ⟨c, k, h⟩ := h
  exact ⟨c, k, C16.readIdent_append b1 b2 _ k h⟩

theorem first_prim (m : Mode) (cls num : Nat) (ht : TagOK cls num) (pc : PC) (hi : C06.PC.intOK pc = true)
    (bytes : Bytes) (h : (Enc.prim (C12.tagOf cls num) pc).write m = .ok bytes) : FirstIs bytes cls num := by
  obtain ⟨_, hb⟩ := write_prim_bytes m cls num ht pc hi bytes h
  rw [hb, hdrOctets, List.append_assoc]
  exact ⟨false, _, readIdent_identOctets cls num false ht.hc ht.hn _⟩

theorem first_cons (m : Mode) (cls num : Nat) (ht : TagOK cls num) (inner : Enc) (hi : C06.IntsOK inner = true)
    (bytes : Bytes) (h : (Enc.cons (C12.tagOf cls num) inner).write m = .ok bytes) : FirstIs bytes cls num := by
  obtain ⟨ib, _, h | h⟩ := write_cons_bytes m cls num ht inner hi bytes h
  · obtain ⟨_, _, hb⟩ := h
    rw [hb, hdrOctets, List.append_assoc]
    exact ⟨true, _, readIdent_identOctets cls num true ht.hc ht.hn _⟩
  · obtain ⟨_, hb⟩ := h
    rw [hb, List.append_assoc, List.append_assoc]
    exact ⟨true, _, readIdent_identOctets cls num true ht.hc ht.hn _⟩

theorem first_optSome (m : Mode) (e : Enc) (cls num : Nat)
    (h : ∀ b, e.write m = .ok b → FirstIs b cls num) :
    ∀ b, (Enc.optSome e).write m = .ok b → FirstIs b cls num := by
  intro b hw; exact h b (by simpa only [Enc.write] using hw)

theorem first_choice (m : Mode) (n i : Nat) (e : Enc) (cls num : Nat)
    (h : ∀ b, e.write m = .ok b → FirstIs b cls num) :
    ∀ b, (Enc.choice n i e).write m = .ok b → FirstIs b cls num := by
  intro b hw; exact h b (by simpa only [Enc.write] using hw)

theorem first_seq (m : Mode) (k : SeqKind) (e : Enc) (es : List Enc) (cls num : Nat)
    (h : ∀ b, e.write m = .ok b → FirstIs b cls num) :
    ∀ b, (Enc.seq k (e :: es)).write m = .ok b → FirstIs b cls num := by
  intro b hw
  simp only [Enc.write, Enc.writeList] at hw
  cases hw1 : e.write m with
  | error err => rw [hw1] at hw; cases hw
  | ok b1 =>
    rw [hw1] at hw
    cases hw2 : Enc.writeList m es with
    | error err => rw [hw2] at hw; cases hw
    | ok b2 =>
      rw [hw2] at hw
      simp only [Bind.bind, Except.bind, Pure.pure, Except.pure] at hw
      cases hw
      exact firstIs_append b1 b2 cls num (h b1 hw1)

/-- an absent field (or an empty list) followed by more: the first octets are those of the rest -/
theorem first_seq_skip (m : Mode) (k : SeqKind) (e : Enc) (es : List Enc) (cls num : Nat)
    (he : e.write m = .ok [])
    (h : ∀ b, (Enc.seq k es).write m = .ok b → FirstIs b cls num) :
    ∀ b, (Enc.seq k (e :: es)).write m = .ok b → FirstIs b cls num := by
  intro b hw
  simp only [Enc.write, Enc.writeList, he] at hw
  cases hw2 : Enc.writeList m es with
  | error err => rw [hw2] at hw; cases hw
  | ok b2 =>
    rw [hw2] at hw
    simp only [Bind.bind, Except.bind, Pure.pure, Except.pure, List.nil_append] at hw
    cases hw
    exact h _ (by simpa only [Enc.write] using hw2)

/-! ### string encoders: every encoder that writes a primitive value -/

/-- the encoder `e`, in mode `m`, writes a primitive value: the identifier octets of (cls, num),
    the minimal definite length, and the content `cnt` -/
def PrimLike (m : Mode) (e : Enc) (cls num : Nat) (cnt : Bytes) : Prop :=
  ∀ bytes, e.write m = .ok bytes → cnt.length < 2 ^ 32 ∧ bytes = hdrOctets cls false num cnt.length ++ cnt

theorem tlv_like (cls num : Nat) (ht : TagOK cls num) (cnt bytes : Bytes)
    (h : (do let l ← (Length.definite cnt.length).write; pure ((C12.tagOf cls num).write false ++ l ++ cnt) : Res Bytes)
      = .ok bytes) :
    cnt.length < 2 ^ 32 ∧ bytes = hdrOctets cls false num cnt.length ++ cnt := by
  rw [C06.tlvR_eq, C06.tlvR] at h
  by_cases hl : cnt.length < 2 ^ 32
  · rw [if_pos hl, tagOf_write cls num ht.hc ht.hn] at h
    cases h
    exact ⟨hl, by simp [hdrOctets]⟩
  · rw [if_neg hl] at h; cases h

/-- `Primitive<P>` / `encode_as` of every primitive content -/
theorem primLike_prim (m : Mode) (cls num : Nat) (ht : TagOK cls num) (pc : PC) (hi : C06.PC.intOK pc = true) :
    PrimLike m (.prim (C12.tagOf cls num) pc) cls num pc.write :=
  fun bytes h => write_prim_bytes m cls num ht pc hi bytes h

/-- `OctetSliceEncoder` (BER, DER; the CER encoder is the documented `unimplemented!`) -/
theorem primLike_octetSlice (m : Mode) (cls num : Nat) (ht : TagOK cls num) (bs : Bytes) :
    PrimLike m (.octetSlice (C12.tagOf cls num) bs) cls num bs := by
  intro bytes h
  simp only [Enc.write] at h
  by_cases hm : (m == Mode.cer) = true
  · simp [hm] at h
  · simp only [hm, Bool.false_eq_true, if_false] at h
    exact tlv_like cls num ht bs bytes h

/-- `OctetStringEncoder` of a primitive octet string (BER, DER) -/
theorem primLike_octetString_prim (m : Mode) (cls num : Nat) (ht : TagOK cls num) (b : Bytes) :
    PrimLike m (.octetString (C12.tagOf cls num) (.prim b)) cls num b := by
  intro bytes h
  simp only [Enc.write] at h
  cases m with
  | ber => exact tlv_like cls num ht b bytes h
  | cer => cases h
  | der =>
    have e1 : (OS.prim b).len = .ok b.length := rfl
    have e2 : ((OS.prim b).segments.map List.flatten) = .ok b := by
      simp only [OS.segments]
      cases b <;> simp [Except.map]
    cases hs : (OS.prim b).segments with
    | error e => rw [hs] at e2; cases e2
    | ok segs =>
      rw [hs] at e2 h
      simp only [Except.map, Except.ok.injEq] at e2
      rw [e1] at h
      simp only [Bind.bind, Except.bind, Pure.pure, Except.pure] at h
      rw [e2] at h
      exact tlv_like cls num ht b bytes h

/-- `OctetStringEncoder` in DER: any octet string, however segmented, is written primitive with the
    concatenation of its segments as content -/
theorem primLike_octetString_der (cls num : Nat) (ht : TagOK cls num) (os : OS) (bs : Bytes)
    (ho : os.octets = .ok bs) :
    PrimLike .der (.octetString (C12.tagOf cls num) os) cls num bs := by
  intro bytes h
  simp only [Enc.write] at h
  rw [C06.os_octets] at ho
  rw [C06.os_len] at h
  cases hs : os.segments with
  | error e => rw [hs] at ho; cases ho
  | ok segs =>
    rw [hs] at ho h
    simp only [Except.map, Except.ok.injEq] at ho
    simp only [Except.map, Bind.bind, Except.bind, Pure.pure, Except.pure] at h
    rw [ho] at h
    exact tlv_like cls num ht bs bytes h

/-- `BitSliceEncoder` (BER, DER) -/
theorem primLike_bitSlice (m : Mode) (cls num : Nat) (ht : TagOK cls num) (unused : UInt8) (bs : Bytes) :
    PrimLike m (.bitSlice (C12.tagOf cls num) unused bs) cls num (unused :: bs) := by
  intro bytes h
  simp only [Enc.write] at h
  by_cases hm : (m == Mode.cer) = true
  · simp [hm] at h
  · simp only [hm, Bool.false_eq_true, if_false] at h
    apply tlv_like cls num ht (unused :: bs) bytes
    simpa [List.append_assoc] using h

theorem first_primLike (m : Mode) (e : Enc) (cls num : Nat) (ht : TagOK cls num) (cnt : Bytes)
    (hpl : PrimLike m e cls num cnt) : ∀ b, e.write m = .ok b → FirstIs b cls num := by
  intro b hw
  obtain ⟨_, hb⟩ := hpl b hw
  rw [hb, hdrOctets, List.append_assoc]
  exact ⟨false, _, readIdent_identOctets cls num false ht.hc ht.hn _⟩

/-- OCTET STRING leaf for `OctetString::from_content`, any content (the value is the primitive octet
    string of the content, which equals — `OctetString::eq`, C17 — every segmentation of it) -/
theorem leaf_octets' (m : Mode) (fuel : Nat) (bs : Bytes) (h : m = .cer → bs.length ≤ 1000) :
    ContentDecodes m (OS.fromContent fuel) bs (.prim bs) := leaf_octets m fuel bs h

/-- restricted character strings (`Utf8String`, `NumericString`, `PrintableString`, `Ia5String`):
    any octets that are a string of the character set -/
theorem leaf_restricted (m : Mode) (cs : CharSet) (fuel : Nat) (bs : Bytes)
    (hok : cs.check bs = .ok true) (h : m = .cer → bs.length ≤ 1000) :
    ContentDecodes m (RS.fromContent cs fuel) bs (.prim bs) := by
  intro tail
  obtain ⟨g', h1, h2⟩ := leaf_octets m fuel bs h tail
  refine ⟨g', ?_, h2⟩
  simp only [PC.write] at h1
  simp only [RS.fromContent, runG0_bind, h1]
  have : RS.new cs (.prim bs) = .ok (some (.prim bs)) := by
    simp only [RS.new, OS.octets, Bind.bind, Except.bind, Pure.pure, Except.pure, hok, if_true]
  rw [this]
  simp

/-! ### the untagged readers (`take_value`, `take_primitive`, `take_constructed` and their `_opt`
    forms): on a source whose next identifier is (cls, num) they are the tag-selective readers for
    that tag, with the closure applied to it -/

theorem bodyF_tag (c : Cons) (op : Tag → Content → Prog (α × Content)) (hd : Nat) (g2 : G0) (id : Ident)
    (len? : Option Nat) :
    bodyF c op hd g2 id len? = bodyF c (fun _ => op (C12.tagOf id.cls id.num)) hd g2 id len? := by
  unfold bodyF; rfl

/-- **untagged = tag-selective for the tag that is there** -/
theorem untagged_eq (c : Cons) (cls num : Nat) (hc : cls ≤ 3) (hn : num ≤ 0x1fffff)
    (op : Tag → Content → Prog (α × Content)) (g : G0) (hf : g.frames = [])
    (b : Bool) (k : Nat) (hr : readIdent g.view = some (⟨cls, b, num⟩, k)) :
    runG0 (processNextValue c none op) g =
      runG0 (processNextValue c (some (C12.tagOf cls num)) (fun _ => op (C12.tagOf cls num))) g := by
  rw [pnv_eq c op g hf, pnvE_eq c cls num hc hn _ g hf]
  unfold pnvF pnvE headerF
  have hv : g.view ≠ [] := by intro h; rw [h] at hr; simp [readIdent] at hr
  have hv' : ¬ (c.state = .unbounded ∧ g.view = []) := fun h => hv h.2
  simp only [hv, hv', if_false, hr, and_self, if_true]
  by_cases h1 : c.state = .done
  · simp [h1]
  · by_cases h2 : c.state = .definite ∧ g.limit = none
    · simp [h1, h2]
    · by_cases h3 : c.state = .definite ∧ g.limit = some 0
      · simp [h1, h2, h3]
      · simp only [h1, h2, h3, if_false]
        cases readLen c.mode.isBer (g.adv k).view with
        | none => simp
        | some r =>
          obtain ⟨len?, kl⟩ := r
          simp only [and_false, if_false]
          exact bodyF_tag c op g.data.length ((g.adv k).adv kl) ⟨cls, b, num⟩ len?

/-- the round trip carries over from the tag-selective reader to the untagged one -/
theorem rtf_untagged (m : Mode) (P : Bytes → Prop) (cls num : Nat) (hc : cls ≤ 3) (hn : num ≤ 0x1fffff)
    (bytes : Bytes) (hfirst : FirstIs bytes cls num)
    (op : Tag → Content → Prog (α × Content)) (v : Option α)
    (h : RTF m P bytes (fun c => processNextValue c (some (C12.tagOf cls num)) (fun _ => op (C12.tagOf cls num))) v) :
    RTF m P bytes (fun c => processNextValue c none op) v := by
  intro c tail lim hm hnd hdef hcov hP
  obtain ⟨b, k, hr⟩ := hfirst
  obtain ⟨t', hv⟩ := view_covers bytes tail lim hcov
  rw [untagged_eq c cls num hc hn op (St (bytes ++ tail) lim) rfl b k
    (by rw [hv]; exact C16.readIdent_append bytes t' _ k hr)]
  exact h c tail lim hm hnd hdef hcov hP

/-! ### the codec algebra with absent fields -/

/-- pairs of an encoder composition and a decoder built from the crate's reading combinators, with
    the follow set `T`: the tags that must not come next for the decoder to return the value -/
inductive CodecF (m : Mode) : List (Nat × Nat) → {β : Type} → Enc → (Cons → Prog (β × Cons)) → β → Prop
  /-- everything `C04.Codec` covers, with no condition on what follows -/
  | ofCodec {β : Type} (e : Enc) (d : Cons → Prog (β × Cons)) (v : β) (h : Codec m e d v) : CodecF m [] e d v
  /-- every encoder writing a primitive value (`Primitive`, `OctetSliceEncoder`, `OctetStringEncoder`,
      `BitSliceEncoder`) / `take_primitive_if` -/
  | primOf {α : Type} (e : Enc) (cls num : Nat) (ht : TagOK cls num) (cnt : Bytes) (hpl : PrimLike m e cls num cnt)
      (p : Prog α) (v : α) (hp : PrimDecodes p cnt v) :
      CodecF m [] e (fun c => takePrimitiveIf c (C12.tagOf cls num) (fun md => do let a ← p; pure (a, md))) v
  | optPrimOf {α : Type} (e : Enc) (cls num : Nat) (ht : TagOK cls num) (cnt : Bytes) (hpl : PrimLike m e cls num cnt)
      (p : Prog α) (v : α) (hp : PrimDecodes p cnt v) :
      CodecF m [] (.optSome e)
        (fun c => takeOptPrimitiveIf c (C12.tagOf cls num) (fun md => do let a ← p; pure (a, md))) (some v)
  /-- the same for decoders taking the `Content` (`OctetString::from_content`, `BitString::from_content`,
      `RestrictedString::from_content`) -/
  | valueOf {α : Type} (e : Enc) (cls num : Nat) (ht : TagOK cls num) (cnt : Bytes) (hpl : PrimLike m e cls num cnt)
      (op : Content → Prog (α × Content)) (v : α) (hp : ContentDecodes m op cnt v) :
      CodecF m [] e (fun c => takeValueIf c (C12.tagOf cls num) op) v
  | optValueOf {α : Type} (e : Enc) (cls num : Nat) (ht : TagOK cls num) (cnt : Bytes) (hpl : PrimLike m e cls num cnt)
      (op : Content → Prog (α × Content)) (v : α) (hp : ContentDecodes m op cnt v) :
      CodecF m [] (.optSome e) (fun c => takeOptValueIf c (C12.tagOf cls num) op) (some v)
  /-- `None` / `take_opt_primitive_if(tag, …)`, any closure -/
  | optNonePrim {α : Type} (cls num : Nat) (ht : TagOK cls num) (k : Mode → Prog (α × Mode)) :
      CodecF m [(cls, num)] .optNone (fun c => takeOptPrimitiveIf c (C12.tagOf cls num) k) none
  /-- `None` / `take_opt_value_if(tag, …)`, any closure -/
  | optNoneValue {α : Type} (cls num : Nat) (ht : TagOK cls num) (op : Content → Prog (α × Content)) :
      CodecF m [(cls, num)] .optNone (fun c => takeOptValueIf c (C12.tagOf cls num) op) none
  /-- `None` / `take_opt_constructed_if(tag, …)`, any closure -/
  | optNoneCons {β : Type} (cls num : Nat) (ht : TagOK cls num) (dec : Cons → Prog (β × Cons)) :
      CodecF m [(cls, num)] .optNone (fun c => takeOptConstructedIf c (C12.tagOf cls num) dec) none
  /-- a constructed value: whatever its content demands of what follows is met by the end of the
      content (definite) or the end-of-contents marker (indefinite) -/
  | cons {β : Type} (cls num : Nat) (ht : TagOK cls num) (T : List (Nat × Nat))
      (hT : ∀ t ∈ T, ¬ (t.1 = 0 ∧ t.2 = 0)) (inner : Enc) (hi : C06.IntsOK inner = true)
      (dec : Cons → Prog (β × Cons)) (v : β) (hin : CodecF m T inner dec v) :
      CodecF m [] (.cons (C12.tagOf cls num) inner) (fun c => takeConstructedIf c (C12.tagOf cls num) dec) v
  | optCons {β : Type} (cls num : Nat) (ht : TagOK cls num) (T : List (Nat × Nat))
      (hT : ∀ t ∈ T, ¬ (t.1 = 0 ∧ t.2 = 0)) (inner : Enc) (hi : C06.IntsOK inner = true)
      (dec : Cons → Prog (β × Cons)) (v : β) (hin : CodecF m T inner dec v) :
      CodecF m [] (.optSome (.cons (C12.tagOf cls num) inner))
        (fun c => takeOptConstructedIf c (C12.tagOf cls num) dec) (some v)
  /-- fields in order: the first field's follow set must exclude the first tag of the rest, or, if
      the rest wrote nothing, be part of the follow set of the whole -/
  | seqCons {β γ : Type} (k : SeqKind) (T1 T2 T : List (Nat × Nat)) (e : Enc) (es : List Enc)
      (d1 : Cons → Prog (β × Cons)) (d2 : Cons → Prog (γ × Cons)) (v1 : β) (v2 : γ)
      (h1 : CodecF m T1 e d1 v1) (h2 : CodecF m T2 (.seq k es) d2 v2)
      (hT2 : ∀ t ∈ T2, t ∈ T)
      (hfirst : ∀ b2 : Bytes, (Enc.seq k es).write m = .ok b2 →
        (b2 = [] ∧ ∀ t ∈ T1, t ∈ T) ∨ (∃ cls num, FirstIs b2 cls num ∧ (cls, num) ∉ T1)) :
      CodecF m T (.seq k (e :: es)) (fun c => do let (a, c1) ← d1 c; let (b, c2) ← d2 c1; pure ((a, b), c2)) (v1, v2)
  | choice {β : Type} (T : List (Nat × Nat)) (n i : Nat) (e : Enc) (d : Cons → Prog (β × Cons)) (v : β)
      (h : CodecF m T e d v) : CodecF m T (.choice n i e) d v
  | map {β γ : Type} (T : List (Nat × Nat)) (e : Enc) (d : Cons → Prog (β × Cons)) (v : β) (f : β → γ)
      (h : CodecF m T e d v) : CodecF m T e (fun c => do let (a, c1) ← d c; pure (f a, c1)) (f v)
  /-- the untagged readers `take_opt_value`, `take_opt_primitive`, `take_opt_constructed` (closure
      `op`, which is handed the tag): as the tag-selective reader for the tag that was written -/
  | untagged {α : Type} (T : List (Nat × Nat)) (e : Enc) (cls num : Nat) (ht : TagOK cls num)
      (hfirst : ∀ b, e.write m = .ok b → FirstIs b cls num)
      (op : Tag → Content → Prog (α × Content)) (v : Option α)
      (h : CodecF m T e (fun c => processNextValue c (some (C12.tagOf cls num)) (fun _ => op (C12.tagOf cls num))) v) :
      CodecF m T e (fun c => processNextValue c none op) v
  /-- `take_value`, `take_primitive`, `take_constructed`: the mandatory forms -/
  | mandatoryOf {β : Type} (T : List (Nat × Nat)) (e : Enc) (d : Cons → Prog (Option β × Cons)) (v : β)
      (h : CodecF m T e d (some v)) : CodecF m T e (fun c => mandatory (d c)) v
  /-- `Some(v)` writes what `v` writes: a present value may be read by an optional reader whether
      or not the writer wrapped it in an `Option` -/
  | unwrapSome {β : Type} (T : List (Nat × Nat)) (e : Enc) (d : Cons → Prog (β × Cons)) (v : β)
      (h : CodecF m T (.optSome e) d v) : CodecF m T e d v
  | wrapSome {β : Type} (T : List (Nat × Nat)) (e : Enc) (d : Cons → Prog (β × Cons)) (v : β)
      (h : CodecF m T e d v) : CodecF m T (.optSome e) d v
  /-- any other pair for which the round trip has been shown (captured values: C04c) -/
  | sem {β : Type} (T : List (Nat × Nat)) (e : Enc) (d : Cons → Prog (β × Cons)) (v : β)
      (h : ∀ bytes, e.write m = .ok bytes → RTF m (TailOK T) bytes d v) : CodecF m T e d v
  /-- a larger follow set is a stronger demand -/
  | weaken {β : Type} (T T' : List (Nat × Nat)) (e : Enc) (d : Cons → Prog (β × Cons)) (v : β)
      (hs : ∀ t ∈ T, t ∈ T') (h : CodecF m T e d v) : CodecF m T' e d v

/-- **C04 with absent OPTIONAL fields: encode, then decode, for every composition**, provided what
    follows does not start with a tag of the follow set. -/
theorem codecF_roundtrip (m : Mode) (T : List (Nat × Nat)) {β : Type} (e : Enc) (dec : Cons → Prog (β × Cons)) (v : β)
    (h : CodecF m T e dec v) : ∀ bytes, e.write m = .ok bytes → RTF m (TailOK T) bytes dec v := by
  induction h with
  | ofCodec e d v h =>
    intro bytes hw
    exact rtf_of_rt m _ bytes d v (codec_roundtrip m e d v h bytes hw)
  | primOf e cls num ht cnt hpl p v hp =>
    intro bytes hw
    obtain ⟨hl, hb⟩ := hpl bytes hw
    rw [hb]
    exact rtf_of_rt m _ _ _ _ (rt_prim m cls num ht.hc ht.hn ht.hne p cnt v hl hp)
  | optPrimOf e cls num ht cnt hpl p v hp =>
    intro bytes hw
    obtain ⟨hl, hb⟩ := hpl bytes (by simpa only [Enc.write] using hw)
    rw [hb]
    exact rtf_of_rt m _ _ _ _ (rt_prim_opt m cls num ht.hc ht.hn ht.hne p cnt v hl hp)
  | valueOf e cls num ht cnt hpl op v hp =>
    intro bytes hw
    obtain ⟨hl, hb⟩ := hpl bytes hw
    rw [hb]
    exact rtf_of_rt m _ _ _ _ (rt_value m cls num ht.hc ht.hn ht.hne op cnt v hl hp)
  | optValueOf e cls num ht cnt hpl op v hp =>
    intro bytes hw
    obtain ⟨hl, hb⟩ := hpl bytes (by simpa only [Enc.write] using hw)
    rw [hb]
    exact rtf_of_rt m _ _ _ _ (rt_value_opt m cls num ht.hc ht.hn ht.hne op cnt v hl hp)
  | optNonePrim cls num ht k =>
    intro bytes hw
    simp only [Enc.write] at hw; cases hw
    exact rtf_optNone_prim m cls num ht.hc ht.hn k
  | optNoneValue cls num ht op =>
    intro bytes hw
    simp only [Enc.write] at hw; cases hw
    exact rtf_optNone_value m cls num ht.hc ht.hn op
  | optNoneCons cls num ht dec =>
    intro bytes hw
    simp only [Enc.write] at hw; cases hw
    exact rtf_optNone_cons m cls num ht.hc ht.hn dec
  | cons cls num ht T hT inner hi dec v hin ih =>
    intro bytes hw
    obtain ⟨ib, hiw, h | h⟩ := write_cons_bytes m cls num ht inner hi bytes hw
    · obtain ⟨hm, hl, hb⟩ := h
      rw [hb]
      exact rtf_of_rt m _ _ _ v
        (rt_mandatory m _ _ v (rtf_cons_opt m hm cls num ht.hc ht.hn ht.hne T ib dec v hl (ih ib hiw)))
    · obtain ⟨hm, hb⟩ := h
      subst hm
      rw [hb]
      exact rtf_of_rt .cer _ _ _ v
        (rt_mandatory .cer _ _ v (rtf_cons_cer_opt cls num ht.hc ht.hn ht.hne T hT ib dec v (ih ib hiw)))
  | optCons cls num ht T hT inner hi dec v hin ih =>
    intro bytes hw
    obtain ⟨ib, hiw, h | h⟩ := write_cons_bytes m cls num ht inner hi bytes (by simpa only [Enc.write] using hw)
    · obtain ⟨hm, hl, hb⟩ := h
      rw [hb]
      exact rtf_of_rt m _ _ _ _ (rtf_cons_opt m hm cls num ht.hc ht.hn ht.hne T ib dec v hl (ih ib hiw))
    · obtain ⟨hm, hb⟩ := h
      subst hm
      rw [hb]
      exact rtf_of_rt .cer _ _ _ _ (rtf_cons_cer_opt cls num ht.hc ht.hn ht.hne T hT ib dec v (ih ib hiw))
  | seqCons k T1 T2 T e es d1 d2 v1 v2 h1 h2 hT2 hfirst ih1 ih2 =>
    intro bytes hw
    simp only [Enc.write, Enc.writeList] at hw
    cases hw1 : e.write m with
    | error err => rw [hw1] at hw; cases hw
    | ok b1 =>
      rw [hw1] at hw
      cases hw2 : Enc.writeList m es with
      | error err => rw [hw2] at hw; cases hw
      | ok b2 =>
        rw [hw2] at hw
        simp only [Bind.bind, Except.bind, Pure.pure, Except.pure] at hw
        cases hw
        have hw2' : (Enc.seq k es).write m = .ok b2 := by simpa only [Enc.write] using hw2
        exact rtf_seq m T1 T2 T b1 b2 d1 d2 v1 v2 (ih1 b1 hw1) (ih2 b2 hw2') hT2 (hfirst b2 hw2')
  | choice T n i e d v h ih =>
    intro bytes hw
    simp only [Enc.write] at hw
    exact ih bytes hw
  | map T e d v f h ih =>
    intro bytes hw
    exact rtf_map m _ bytes d v f (ih bytes hw)
  | untagged T e cls num ht hfirst op v h ih =>
    intro bytes hw
    exact rtf_untagged m _ cls num ht.hc ht.hn bytes (hfirst bytes hw) op v (ih bytes hw)
  | mandatoryOf T e d v h ih =>
    intro bytes hw
    exact rtf_mandatory m _ bytes d v (ih bytes hw)
  | unwrapSome T e d v h ih =>
    intro bytes hw
    exact ih bytes (by simpa only [Enc.write] using hw)
  | wrapSome T e d v h ih =>
    intro bytes hw
    exact ih bytes (by simpa only [Enc.write] using hw)
  | sem T e d v h => exact h
  | weaken T T' e d v hs h ih =>
    intro bytes hw
    exact rtf_weaken m _ _ bytes d v (fun view hq => tailOK_mono T' T view hs hq) (ih bytes hw)

/-- **at top level** nothing follows, so the value comes back whatever the follow set -/
theorem topF_roundtrip (m : Mode) (T : List (Nat × Nat)) {β : Type} (e : Enc) (dec : Cons → Prog (β × Cons)) (v : β)
    (h : CodecF m T e dec v) (bytes : Bytes) (hw : e.write m = .ok bytes) :
    runG0 (decodeTop m dec) (St bytes none) = .ok (v, St [] none) := by
  have := codecF_roundtrip m T e dec v h bytes hw ⟨.unbounded, m, 0⟩ [] none rfl (by simp) (by simp) (by simp)
    (by left; simp [G0.view])
  simp only [List.append_nil] at this
  simp [decodeTop, runG0_bind, this, Cons.exhausted]

/-- **the condition is needed**: an absent `[0]` field followed by a `[0]` value does not come back
    as absent — the reader takes the following value for the field (so the follow set is not an
    artefact of the proof) -/
theorem follow_needed :
    runG0 (takeOptPrimitiveIf ⟨.unbounded, .der, 0⟩ (C12.tagOf 2 0) (fun md => do let a ← toNull; pure (a, md)))
      (St ([] ++ [0x80, 0x00]) none) = .ok ((some (), ⟨.unbounded, .der, 0⟩), St [] none) := by
  rfl

/-! non-vacuity: SEQUENCE { [0] NULL OPTIONAL absent, INTEGER 300, [1] EXPLICIT … OPTIONAL absent,
    [2] BOOLEAN OPTIONAL absent } -/
def sampleF : Enc :=
  .cons (C12.tagOf 0 16) (.seq .tuple [
    .optNone,
    .prim (C12.tagOf 0 2) (.int .i16 300),
    .optNone,
    .optNone])

example : sampleF.write .der = .ok [0x30, 0x04, 0x02, 0x02, 0x01, 0x2c] := by rfl
example : sampleF.write .cer = .ok [0x30, 0x80, 0x02, 0x02, 0x01, 0x2c, 0, 0] := by rfl

def optPrimD (t : Tag) (p : Prog α) : Cons → Prog (Option α × Cons) :=
  fun c => takeOptPrimitiveIf c t (fun md => do let a ← p; pure (a, md))

def sampleFDec (m : Mode) : Cons → Prog ((Option Unit × Int × Option (Unit × Unit) × Option Bool × Unit) × Cons) :=
  consD (C12.tagOf 0 16)
    (seqD (optPrimD (C12.tagOf 2 0) toNull)
      (seqD (primD (C12.tagOf 0 2) (toInt .i16))
        (seqD (optConsD (C12.tagOf 2 1) (seqD (primD (C12.tagOf 0 5) toNull) nilD))
          (seqD (optPrimD (C12.tagOf 2 2) (toBool m)) nilD))))

theorem sampleF_codec (m : Mode) :
    CodecF m [] sampleF (sampleFDec m) (none, 300, none, none, ()) := by
  have t1 : TagOK 0 16 := ⟨by omega, by omega, by omega⟩
  have t2 : TagOK 0 2 := ⟨by omega, by omega, by omega⟩
  have a0 : TagOK 2 0 := ⟨by omega, by omega, by omega⟩
  have a1 : TagOK 2 1 := ⟨by omega, by omega, by omega⟩
  have a2 : TagOK 2 2 := ⟨by omega, by omega, by omega⟩
  have cnil : CodecF m [] (.seq .tuple []) nilD () := CodecF.ofCodec _ _ _ (Codec.seqNil .tuple)
  -- [2] BOOLEAN OPTIONAL absent, then nothing
  have c4 : CodecF m [(2, 2)] (.seq .tuple [.optNone]) (seqD (optPrimD (C12.tagOf 2 2) (toBool m)) nilD) (none, ()) :=
    CodecF.seqCons .tuple [(2, 2)] [] [(2, 2)] _ [] _ _ _ _
      (CodecF.optNonePrim 2 2 a2 _) cnil (by simp)
      (by intro b2 hw; simp only [Enc.write, Enc.writeList] at hw; cases hw; exact .inl ⟨rfl, by simp⟩)
  -- [1] … OPTIONAL absent, then the above
  have c3 : CodecF m [(2, 1), (2, 2)] (.seq .tuple [.optNone, .optNone])
      (seqD (optConsD (C12.tagOf 2 1) (seqD (primD (C12.tagOf 0 5) toNull) nilD))
        (seqD (optPrimD (C12.tagOf 2 2) (toBool m)) nilD)) (none, none, ()) :=
    CodecF.seqCons .tuple [(2, 1)] [(2, 2)] [(2, 1), (2, 2)] _ _ _ _ _ _
      (CodecF.optNoneCons 2 1 a1 _) c4 (by simp)
      (by intro b2 hw; simp only [Enc.write, Enc.writeList] at hw; cases hw; exact .inl ⟨rfl, by simp⟩)
  -- INTEGER, then the above
  have c2 : CodecF m [(2, 1), (2, 2)] (.seq .tuple [.prim (C12.tagOf 0 2) (.int .i16 300), .optNone, .optNone])
      (seqD (primD (C12.tagOf 0 2) (toInt .i16))
        (seqD (optConsD (C12.tagOf 2 1) (seqD (primD (C12.tagOf 0 5) toNull) nilD))
          (seqD (optPrimD (C12.tagOf 2 2) (toBool m)) nilD)))
      (300, none, none, ()) :=
    CodecF.seqCons .tuple [] [(2, 1), (2, 2)] [(2, 1), (2, 2)] _ _ _ _ _ _
      (CodecF.ofCodec (m := m) _ _ _ (Codec.prim 0 2 t2 (.int .i16 300) rfl (toInt .i16) 300 (leaf_int .i16 300 rfl)))
      c3 (by simp)
      (by intro b2 hw; simp only [Enc.write, Enc.writeList] at hw; cases hw; exact .inl ⟨rfl, by simp⟩)
  -- [0] NULL OPTIONAL absent, then the INTEGER: the follow tag is INTEGER, not [0]
  have c1 : CodecF m [(2, 1), (2, 2)] (.seq .tuple [.optNone, .prim (C12.tagOf 0 2) (.int .i16 300), .optNone, .optNone])
      (seqD (optPrimD (C12.tagOf 2 0) toNull)
        (seqD (primD (C12.tagOf 0 2) (toInt .i16))
          (seqD (optConsD (C12.tagOf 2 1) (seqD (primD (C12.tagOf 0 5) toNull) nilD))
            (seqD (optPrimD (C12.tagOf 2 2) (toBool m)) nilD))))
      (none, 300, none, none, ()) :=
    CodecF.seqCons .tuple [(2, 0)] [(2, 1), (2, 2)] [(2, 1), (2, 2)] _ _ _ _ _ _
      (CodecF.optNonePrim 2 0 a0 _) c2 (by simp)
      (by
        intro b2 hw
        right
        refine ⟨0, 2, first_seq m .tuple _ _ 0 2 (first_prim m 0 2 t2 _ rfl) b2 hw, by simp⟩)
  exact CodecF.cons 0 16 t1 [(2, 1), (2, 2)] (by simp) _ rfl _ _ c1

/-- the sample with absent fields round-trips in every mode, at top level, by the general theorem -/
theorem sampleF_roundtrip (m : Mode) (bytes : Bytes) (hw : sampleF.write m = .ok bytes) :
    runG0 (decodeTop m (sampleFDec m)) (St bytes none) = .ok ((none, 300, none, none, ()), St [] none) :=
  topF_roundtrip m [] sampleF (sampleFDec m) _ (sampleF_codec m) bytes hw

/-! non-vacuity for the string encoders: SEQUENCE { PrintableString "A1" (OctetStringEncoder),
    OCTET STRING (OctetSliceEncoder), [5] PrintableString OPTIONAL absent } in DER -/
def sampleS : Enc :=
  .cons (C12.tagOf 0 16) (.seq .tuple [
    .octetString (C12.tagOf 0 19) (.prim [0x41, 0x31]),
    .octetSlice (C12.tagOf 0 4) [1, 2, 3],
    .optNone])

example : sampleS.write .der = .ok [0x30, 0x09, 0x13, 0x02, 0x41, 0x31, 0x04, 0x03, 1, 2, 3] := by rfl

def sampleSDec : Cons → Prog ((OS × OS × Option OS × Unit) × Cons) :=
  consD (C12.tagOf 0 16)
    (seqD (fun c => takeValueIf c (C12.tagOf 0 19) (RS.fromContent .printable 8))
      (seqD (fun c => takeValueIf c (C12.tagOf 0 4) (OS.fromContent 8))
        (seqD (fun c => takeOptValueIf c (C12.tagOf 2 5) (RS.fromContent .printable 8)) nilD)))

theorem sampleS_codec : CodecF .der [] sampleS sampleSDec (.prim [0x41, 0x31], .prim [1, 2, 3], none, ()) := by
  have t1 : TagOK 0 16 := ⟨by omega, by omega, by omega⟩
  have t19 : TagOK 0 19 := ⟨by omega, by omega, by omega⟩
  have t4 : TagOK 0 4 := ⟨by omega, by omega, by omega⟩
  have a5 : TagOK 2 5 := ⟨by omega, by omega, by omega⟩
  have cnil : CodecF .der [] (.seq .tuple []) nilD () := CodecF.ofCodec _ _ _ (Codec.seqNil .tuple)
  have c3 : CodecF .der [(2, 5)] (.seq .tuple [.optNone])
      (seqD (fun c => takeOptValueIf c (C12.tagOf 2 5) (RS.fromContent .printable 8)) nilD) (none, ()) :=
    CodecF.seqCons .tuple [(2, 5)] [] [(2, 5)] _ [] _ _ _ _
      (CodecF.optNoneValue 2 5 a5 _) cnil (by simp)
      (by intro b2 hw; simp only [Enc.write, Enc.writeList] at hw; cases hw; exact .inl ⟨rfl, by simp⟩)
  have c2 : CodecF .der [(2, 5)] (.seq .tuple [.octetSlice (C12.tagOf 0 4) [1, 2, 3], .optNone])
      (seqD (fun c => takeValueIf c (C12.tagOf 0 4) (OS.fromContent 8))
        (seqD (fun c => takeOptValueIf c (C12.tagOf 2 5) (RS.fromContent .printable 8)) nilD))
      (.prim [1, 2, 3], none, ()) :=
    CodecF.seqCons .tuple [] [(2, 5)] [(2, 5)] _ _ _ _ _ _
      (CodecF.valueOf _ 0 4 t4 [1, 2, 3] (primLike_octetSlice .der 0 4 t4 _) _ _
        (leaf_octets' .der 8 [1, 2, 3] (by simp)))
      c3 (by simp)
      (by intro b2 hw; simp only [Enc.write, Enc.writeList] at hw; cases hw; exact .inl ⟨rfl, by simp⟩)
  have c1 : CodecF .der [(2, 5)]
      (.seq .tuple [.octetString (C12.tagOf 0 19) (.prim [0x41, 0x31]), .octetSlice (C12.tagOf 0 4) [1, 2, 3], .optNone])
      (seqD (fun c => takeValueIf c (C12.tagOf 0 19) (RS.fromContent .printable 8))
        (seqD (fun c => takeValueIf c (C12.tagOf 0 4) (OS.fromContent 8))
          (seqD (fun c => takeOptValueIf c (C12.tagOf 2 5) (RS.fromContent .printable 8)) nilD)))
      (.prim [0x41, 0x31], .prim [1, 2, 3], none, ()) :=
    CodecF.seqCons .tuple [] [(2, 5)] [(2, 5)] _ _ _ _ _ _
      (CodecF.valueOf _ 0 19 t19 [0x41, 0x31] (primLike_octetString_prim .der 0 19 t19 _) _ _
        (leaf_restricted .der .printable 8 [0x41, 0x31] (by rfl) (by simp)))
      c2 (by simp)
      (by
        intro b2 hw
        right
        exact ⟨0, 4, first_seq .der .tuple _ _ 0 4
          (first_primLike .der _ 0 4 t4 _ (primLike_octetSlice .der 0 4 t4 [1, 2, 3])) b2 hw, by simp⟩)
  exact CodecF.cons 0 16 t1 [(2, 5)] (by simp) _ rfl _ _ c1

theorem sampleS_roundtrip (bytes : Bytes) (hw : sampleS.write .der = .ok bytes) :
    runG0 (decodeTop .der sampleSDec) (St bytes none) =
      .ok ((.prim [0x41, 0x31], .prim [1, 2, 3], none, ()), St [] none) :=
  topF_roundtrip .der [] sampleS sampleSDec _ sampleS_codec bytes hw

/-! non-vacuity for the untagged readers: a CHOICE { INTEGER, BOOLEAN } read with `take_value`, the
    closure choosing by the tag it is handed -/

theorem primDecodes_map (p : Prog α) (f : α → β) (cnt : Bytes) (v : α) (h : PrimDecodes p cnt v) :
    PrimDecodes (do let a ← p; pure (f a)) cnt (f v) := by
  intro tail
  have h1 := h tail
  rw [primRun_unfold] at h1 ⊢
  simp only [runG0_bind, runG0_pure]
  cases hr : runG0 p (St (cnt ++ tail) (some cnt.length)) with
  | error e => rw [hr] at h1; cases h1
  | ok r =>
    obtain ⟨a, g'⟩ := r
    rw [hr] at h1
    simp only at h1 ⊢
    cases hx : runG0 limitedExhausted g' with
    | error e => rw [hx] at h1; cases h1
    | ok r2 =>
      obtain ⟨u, g''⟩ := r2
      rw [hx] at h1
      simp only [Except.ok.injEq, Prod.mk.injEq] at h1 ⊢
      exact ⟨by rw [h1.1], h1.2⟩

def intAlt : Prog (Int ⊕ Bool) := do let a ← toInt .i16; pure (Sum.inl a)
def boolAlt : Prog (Int ⊕ Bool) := do let a ← toBool .der; pure (Sum.inr a)

def choiceOp : Tag → Content → Prog ((Int ⊕ Bool) × Content) := fun t =>
  if t = C12.tagOf 0 2 then asPrimitive (fun md => do let a ← intAlt; pure (a, md))
  else if t = C12.tagOf 0 1 then asPrimitive (fun md => do let a ← boolAlt; pure (a, md))
  else fun _ => Prog.contentErr

theorem choice_codec :
    CodecF .der [] (.choice 2 0 (.prim (C12.tagOf 0 2) (.int .i16 300))) (fun c => takeValue c choiceOp) (Sum.inl 300) := by
  have t2 : TagOK 0 2 := ⟨by omega, by omega, by omega⟩
  refine CodecF.mandatoryOf [] _ _ _ (CodecF.untagged [] _ 0 2 t2
    (first_choice .der 2 0 _ 0 2 (first_prim .der 0 2 t2 _ rfl)) choiceOp _ ?_)
  have e : choiceOp (C12.tagOf 0 2) = asPrimitive (fun md => do let a ← intAlt; pure (a, md)) := by
    simp [choiceOp]
  rw [e]
  exact CodecF.choice [] 2 0 _ _ _ (CodecF.unwrapSome [] _ _ _ (CodecF.ofCodec _ _ _
    (Codec.optPrim (m := .der) 0 2 t2 (.int .i16 300) rfl intAlt (Sum.inl 300)
      (primDecodes_map (toInt .i16) Sum.inl _ 300 (leaf_int .i16 300 rfl)))))

/-- the CHOICE value written with `Choice2` comes back through the untagged `take_value` -/
theorem choice_roundtrip (bytes : Bytes)
    (hw : (Enc.choice 2 0 (.prim (C12.tagOf 0 2) (.int .i16 300))).write .der = .ok bytes) :
    runG0 (decodeTop .der (fun c => takeValue c choiceOp)) (St bytes none) = .ok (Sum.inl 300, St [] none) :=
  topF_roundtrip .der [] _ _ _ choice_codec bytes hw

end Bcder.Props.C04b
