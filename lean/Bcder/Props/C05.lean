/-
  C05 — DER decoding is canonical: re-encoding an accepted value reproduces the input.

  "Whenever decoding in DER mode accepts an encoding of a value of a supported type or composition,
  encoding the decoded value in DER mode yields exactly the octets that were accepted.  Consequently
  two different octet strings never decode in DER mode to equal values."

  What is proved (every statement is for ALL inputs; no length or depth bounds; `runG0` = SliceSource
  semantics, `runG` corollaries where stated):

  1. Header canonicity (reference readers of Spec.Tlv / Spec.X690, which C12/C13 tie to the model readers
     on every input):
       `readIdent_canonical`  the identifier octets consumed are `identOctets` of what was read;
       `readLen_canonical`    in DER/CER a definite length is consumed only in its shortest form `lenOctets n`;
       `readLen_indefinite`   the indefinite form is the octet 80 (read in every mode; `der_no_indefinite`:
                              rejected by the DER value rule); `readLen_lt`: lengths read are < 2^32;
       `header_canonical`, `header_take`: both together.
  2. Structure (the grammar `parseValue` / `parseAll` in DER mode = the generic reader, C02):
       `treeBytes`, `treesBytes`   the canonical octets of a tree: identifier ++ minimal definite length ++ content;
       `der_parse_canonical` (`parseValue_canonical`, `parseAll_canonical`)  accepted input = canonical octets
                              of the trees returned (++ what follows the value);
       `der_injective`, `der_value_injective`   equal trees ⇒ equal octets;
       `decode_der_canonical`, `decode_der_injective`, `decode_der_canonical_runG`  the same for the model of
                              `Mode::Der.decode` over `take_opt_value` (through `C02.accepts_consumes`);
       `der_reparse`, `der_parse_wf`, `der_reencode_accepted`   the re-encoding is itself accepted, with the
                              same trees (`wfTree(s)`: decidable well-formedness every DER parse result has;
                              `fuelTree(s)`: the fuel the parser needs).
  3. Typed leaves (`LeafCanon p pcOf`: whatever the accessor accepts is exactly `(pcOf v).write` for the value
     `v` it returns): `leaf_int_canonical` (ten fixed-width types), `leaf_bool_canonical` (DER: only 00 / FF),
     `leaf_null_canonical`, `leaf_integer_canonical`, `leaf_unsigned_canonical`, `leaf_oid_canonical`,
     `leaf_bits_canonical` (+ `primOnly_bits`), `leaf_octets_canonical` (+ `primOnly_octets`; DER: primitive form only).
  4. Typed framing, the inverse of `C04.frame_definite`:
       `frame_inv`            a tag-selective `process_next_value` that returns a value in DER mode found the
                              canonical header `hdrOctets cls b num len` in front of the data, inside the limit,
                              ran the closure on the `len`-octet window behind it, left the `Constructed` unchanged
                              and the limit reduced by header + `len`;
       `der_value_framing(_opt)`, `der_prim_framing`   for primitive values read by window closures (`W p`: no
                              limit changes, no capture — every leaf accessor, Lemmas/Window): the content was
                              all there (`d = hdr ++ cnt ++ tail`), the closure saw exactly `cnt`, source left at `tail`;
       `der_prim_canonical`   3 + 4: consumed octets = `Enc.write .der (.prim tag (pcOf v))`;
       `canon_cons(_some)`, `canon_optCons`   constructed: consumed = `hdrOctets cls true num ib.length ++ ib`
                              = `Enc.write .der (.cons tag (enc v))` where `ib` is what the inner decoder consumed;
       `Canon`, `canon_*`, `DerCodec`, **`der_canonical`**   the algebra and its bundle: for every composition of
                              primitive / optional / constructed / sequence / choice / mapped decoders, the octets
                              consumed in DER mode (any context, any limit, anything following) are exactly what the
                              matching encoder writes for the decoded value;
       `top_canonical`, `top_canonical_runG`, `typed_injective(_full)`, `reencode_decodes`   at top level:
                              `Mode::Der.decode` accepted ⇒ input = DER encoding of the value ++ unread rest; equal
                              values ⇒ equal consumed octets.
     Non-vacuity examples at the end (both sides of each case distinction; `sample_canonical` runs the bundle
     on the SEQUENCE sample of C04, whose acceptance is a C04 theorem).

  NOT covered: the untagged readers (`take_value`, `take_primitive`, `take_constructed` without `_if`) in the typed
  algebra (section 2 covers them structurally); SET OF ordering and DEFAULT-value omission (the crate neither checks
  nor encodes them specially: "canonical" here means "what this crate's encoder writes for the decoded value");
  (restricted character strings, the string encoders, the mandatory untagged readers and `Captured`: C05b); constructed OCTET STRING / BIT STRING (rejected in DER: `primOnly_*`);
  closures that change the limit or capture inside a primitive (hypothesis `W`); sources other than SliceSource
  semantics (C07); faithfulness of the model to the Rust code (differential harness).
-/
import Bcder.Props.C04
import Bcder.Lemmas.Window
namespace Bcder.Props.C05
open Bcder Bcder.Spec Prog Bcder.Props.C02 Bcder.Props.C09 Bcder.Props.C04

/-! ## 1. header canonicity -/

theorem lead_eq (b : UInt8) :
    b.toNat = b.toNat / 64 * 64 + (if (b.toNat / 32 % 2 == 1) = true then 32 else 0) + b.toNat % 32 := by
  by_cases h : b.toNat / 32 % 2 = 1
  · simp [h]; omega
  · simp [h]; omega

/-- **1(a).** The reference identifier reader accepts only the minimal identifier octets of the
    identifier it returns: the octets consumed are `identOctets` of class, form and number read. -/
theorem readIdent_canonical (bs : Bytes) (id : Ident) (k : Nat) (h : readIdent bs = some (id, k)) :
    bs.take k = identOctets id.cls id.constructed id.num := by
  cases bs with
  | nil => simp [readIdent] at h
  | cons b rest =>
    have hb := byte_lt_256 b
    have hl := lead_eq b
    simp only [readIdent] at h
    split at h
    · rename_i h0
      simp at h0
      simp at h; obtain ⟨h1, h2⟩ := h; subst h1; subst h2
      have h30 : b.toNat % 32 ≤ 30 := by omega
      simp only [identOctets, h30, if_true, List.take_succ_cons, List.take_zero]
      congr 1
      exact byte_of_toNat b _ hl
    · rename_i h0
      simp at h0
      have hlead : b = UInt8.ofNat (b.toNat / 64 * 64 + (if (b.toNat / 32 % 2 == 1) = true then 32 else 0) + 31) :=
        byte_of_toNat b _ (by omega)
      match rest, h with
      | [], h => simp at h
      | d1 :: r1, h =>
        have hd1 := byte_lt_256 d1
        simp only at h
        split at h
        · split at h
          · simp at h; obtain ⟨h1, h2⟩ := h; subst h1; subst h2
            have h30 : ¬ d1.toNat ≤ 30 := by omega
            simp only [identOctets, h30, if_false, List.take_succ_cons, List.take_zero]
            rw [C12.base128_1 _ (by omega), ← hlead, ofNat_toNat]
          · simp at h
        · split at h
          · simp at h
          · rename_i hge hne
            simp at hne
            match r1, h with
            | [], h => simp at h
            | d2 :: r2, h =>
              have hd2 := byte_lt_256 d2
              simp only at h
              split at h
              · simp at h; obtain ⟨h1, h2⟩ := h; subst h1; subst h2
                have h30 : ¬ d1.toNat % 128 * 128 + d2.toNat ≤ 30 := by omega
                simp only [identOctets, h30, if_false, List.take_succ_cons, List.take_zero]
                rw [C12.base128_2 _ (by omega) (by omega), ← hlead]
                have e1 : (d1.toNat % 128 * 128 + d2.toNat) / 128 + 128 = d1.toNat := by omega
                have e2 : (d1.toNat % 128 * 128 + d2.toNat) % 128 = d2.toNat := by omega
                rw [e1, e2, ofNat_toNat, ofNat_toNat]
              · match r2, h with
                | [], h => simp at h
                | d3 :: r3, h =>
                  have hd3 := byte_lt_256 d3
                  simp only at h
                  split at h
                  · simp at h; obtain ⟨h1, h2⟩ := h; subst h1; subst h2
                    have h30 : ¬ (d1.toNat % 128 * 128 + d2.toNat % 128) * 128 + d3.toNat ≤ 30 := by omega
                    simp only [identOctets, h30, if_false, List.take_succ_cons, List.take_zero]
                    rw [C12.base128_3 _ (by omega) (by omega), ← hlead]
                    have e1 : ((d1.toNat % 128 * 128 + d2.toNat % 128) * 128 + d3.toNat) / 16384 + 128 = d1.toNat := by
                      omega
                    have e2 : ((d1.toNat % 128 * 128 + d2.toNat % 128) * 128 + d3.toNat) / 128 % 128 + 128 = d2.toNat := by
                      omega
                    have e3 : ((d1.toNat % 128 * 128 + d2.toNat % 128) * 128 + d3.toNat) % 128 = d3.toNat := by omega
                    rw [e1, e2, e3, ofNat_toNat, ofNat_toNat, ofNat_toNat]
                  · simp at h

/-- **1(b).** In DER (and CER) the reference length reader accepts a definite length only in its
    shortest form: the octets consumed are `lenOctets` of the length read. -/
theorem readLen_canonical (bs : Bytes) (n k : Nat) (h : readLen false bs = some (some n, k)) :
    bs.take k = lenOctets n := by
  cases bs with
  | nil => simp [readLen] at h
  | cons b rest =>
    simp only [readLen] at h
    split at h
    · rename_i h0
      simp at h; obtain ⟨h1, h2⟩ := h; subst h1; subst h2
      rw [C13.lenOctets_1 _ h0, ofNat_toNat]; rfl
    · split at h
      · simp at h
      · split at h
        · simp at h
        · split at h
          · simp at h
          · simp only [Bool.false_eq_true, if_false] at h
            split at h
            · rename_i hmin
              simp at h; obtain ⟨h1, h2⟩ := h; subst h1; subst h2
              rw [hmin, Nat.add_comm, List.take_succ_cons]
            · simp at h

/-- the indefinite form is the single octet 0x80 (it is read as such by the length reader in every mode and
    rejected afterwards by the DER rule of the value grammar, see `der_no_indefinite`) -/
theorem readLen_indefinite (ber : Bool) (bs : Bytes) (k : Nat) (h : readLen ber bs = some (none, k)) :
    k = 1 ∧ bs.take 1 = [0x80] := by
  cases bs with
  | nil => simp [readLen] at h
  | cons b rest =>
    simp only [readLen] at h
    split at h
    · simp at h
    · split at h
      · rename_i h1
        simp at h
        refine ⟨h.symm, ?_⟩
        simp only [List.take_succ_cons, List.take_zero]
        rw [byte_of_toNat b 128 h1]; rfl
      · split at h
        · simp at h
        · split at h
          · simp at h
          · split at h
            · simp at h
            · split at h <;> simp at h

/-- a definite length read in DER mode fits the four length octets the library supports -/
theorem readLen_lt (ber : Bool) (bs : Bytes) (n k : Nat) (h : readLen ber bs = some (some n, k)) : n < 2 ^ 32 := by
  cases bs with
  | nil => simp [readLen] at h
  | cons b rest =>
    have hb := byte_lt_256 b
    simp only [readLen] at h
    split at h
    · simp at h; omega
    · split at h
      · simp at h
      · split at h
        · simp at h
        · rename_i hk
          split at h
          · simp at h
          · have hlt := C14.beValue_lt (rest.take (b.toNat - 128))
            have hle : (rest.take (b.toNat - 128)).length ≤ 4 := by rw [List.length_take]; omega
            have hp : 256 ^ (rest.take (b.toNat - 128)).length ≤ 256 ^ 4 := Nat.pow_le_pow_right (by decide) hle
            have hv : ∀ v kk, (some (some (beValue (rest.take (b.toNat - 128))), 1 + (b.toNat - 128)) : Option (Option Nat × Nat))
                = some (some v, kk) → v < 2 ^ 32 := by
              intro v kk e; simp at e; omega
            split at h
            · exact hv _ _ h
            · split at h
              · exact hv _ _ h
              · simp at h

/-- the header of a value accepted in DER mode consists of exactly the canonical octets -/
theorem header_canonical (bs : Bytes) (id : Ident) (k n kl : Nat) (h1 : readIdent bs = some (id, k))
    (h2 : readLen false (bs.drop k) = some (some n, kl)) :
    bs = hdrOctets id.cls id.constructed id.num n ++ bs.drop (k + kl) := by
  have e1 := readIdent_canonical bs id k h1
  have e2 := readLen_canonical _ n kl h2
  unfold hdrOctets
  rw [← e1, ← e2, ← List.drop_drop, List.append_assoc, List.take_append_drop, List.take_append_drop]

/-! ## 2. structure canonicity on the grammar -/

mutual
/-- the canonical (DER) octets of a tree: minimal identifier octets, minimal definite length, content -/
def treeBytes : Tree → Bytes
  | .prim id c => hdrOctets id.cls id.constructed id.num c.length ++ c
  | .cons id _ kids => hdrOctets id.cls id.constructed id.num (treesBytes kids).length ++ treesBytes kids
/-- the canonical octets of a sequence of trees -/
def treesBytes : List Tree → Bytes
  | [] => []
  | t :: ts => treeBytes t ++ treesBytes ts
end

theorem treesBytes_nil : treesBytes [] = [] := by rw [treesBytes]
theorem treesBytes_cons (t : Tree) (ts : List Tree) : treesBytes (t :: ts) = treeBytes t ++ treesBytes ts := by
  rw [treesBytes]
theorem treeBytes_prim (id : Ident) (c : Bytes) :
    treeBytes (.prim id c) = hdrOctets id.cls id.constructed id.num c.length ++ c := by rw [treeBytes]
theorem treeBytes_cons (id : Ident) (b : Bool) (kids : List Tree) :
    treeBytes (.cons id b kids) =
      hdrOctets id.cls id.constructed id.num (treesBytes kids).length ++ treesBytes kids := by rw [treeBytes]

/-- in DER the indefinite form is never accepted (so `parseUntilEoc` is never reached) -/
theorem der_no_indefinite (f : Nat) (bs : Bytes) (id : Ident) (k kl : Nat)
    (h1 : readIdent bs = some (id, k)) (h2 : readLen false (bs.drop k) = some (none, kl)) :
    parseValue .der (f + 1) bs = none := by
  simp only [parseValue, h1, M.isBer, h2]
  split <;> simp

/-- **2. DER parsing is canonical** (both levels, by induction on the fuel): whatever the grammar
    accepts in DER mode is the canonical encoding of the tree(s) it returns. -/
theorem der_parse_canonical : ∀ f : Nat,
    (∀ bs t rest, parseValue .der f bs = some (t, rest) → bs = treeBytes t ++ rest) ∧
    (∀ bs ts, parseAll .der f bs = some ts → bs = treesBytes ts) := by
  intro f
  induction f with
  | zero => exact ⟨fun bs t rest h => by simp [parseValue] at h, fun bs ts h => by simp [parseAll] at h⟩
  | succ f ih =>
    obtain ⟨ihV, ihA⟩ := ih
    constructor
    · intro bs t rest h
      simp only [parseValue] at h
      cases hr : readIdent bs with
      | none => simp [hr] at h
      | some r =>
        obtain ⟨id, k⟩ := r
        simp only [hr] at h
        split at h
        · simp at h
        · cases hl : readLen M.der.isBer (bs.drop k) with
          | none => simp [hl] at h
          | some r2 =>
            obtain ⟨len?, kl⟩ := r2
            simp only [hl] at h
            cases len? with
            | none =>
              simp only at h
              split at h
              · simp at h
              · rename_i hx; simp at hx
            | some n =>
              have hhdr := header_canonical bs id k n kl hr hl
              simp only at h
              split at h
              · simp at h
              · rename_i hn
                have hlen : (List.take n (List.drop (k + kl) bs)).length = n := by
                  rw [List.length_take]; omega
                split at h
                · simp only [Option.some.injEq, Prod.mk.injEq] at h
                  obtain ⟨ht, hrest⟩ := h
                  subst ht; subst hrest
                  rw [treeBytes_prim, hlen, List.append_assoc, List.take_append_drop]
                  exact hhdr
                · split at h
                  · simp at h
                  · cases hp : parseAll .der f (List.take n (List.drop (k + kl) bs)) with
                    | none => simp [hp] at h
                    | some kids =>
                      simp only [hp, Option.some.injEq, Prod.mk.injEq] at h
                      obtain ⟨ht, hrest⟩ := h
                      subst ht; subst hrest
                      have hk := ihA _ _ hp
                      rw [treeBytes_cons, ← hk, hlen, List.append_assoc, List.take_append_drop]
                      exact hhdr
    · intro bs ts h
      simp only [parseAll] at h
      split at h
      · rename_i he
        simp at h; subst h
        rw [treesBytes_nil]
        simpa using he
      · cases hv : parseValue .der f bs with
        | none => simp [hv] at h
        | some r =>
          obtain ⟨t, rest⟩ := r
          simp only [hv] at h
          cases hq : parseAll .der f rest with
          | none => simp [hq] at h
          | some ts' =>
            simp only [hq, Option.map, Option.some.injEq] at h
            subst h
            rw [treesBytes_cons, ← ihA _ _ hq]
            exact ihV _ _ _ hv

/-- a single value: the octets of the value are the canonical octets of its tree -/
theorem parseValue_canonical (f : Nat) (bs : Bytes) (t : Tree) (rest : Bytes)
    (h : parseValue .der f bs = some (t, rest)) : bs = treeBytes t ++ rest :=
  (der_parse_canonical f).1 bs t rest h

/-- a sequence of values filling the input: the input is the canonical encoding of the trees -/
theorem parseAll_canonical (f : Nat) (bs : Bytes) (ts : List Tree)
    (h : parseAll .der f bs = some ts) : bs = treesBytes ts :=
  (der_parse_canonical f).2 bs ts h

/-- **two different octet strings never decode in DER mode to equal values** (trees: tags, nesting,
    primitive contents), whatever fuel either parse used -/
theorem der_injective (f f' : Nat) (a b : Bytes) (ts : List Tree)
    (ha : parseAll .der f a = some ts) (hb : parseAll .der f' b = some ts) : a = b := by
  rw [parseAll_canonical f a ts ha, parseAll_canonical f' b ts hb]

/-- the same for one value at the front of two inputs: the octets consumed are the same -/
theorem der_value_injective (f f' : Nat) (a b : Bytes) (t : Tree) (ra rb : Bytes)
    (ha : parseValue .der f a = some (t, ra)) (hb : parseValue .der f' b = some (t, rb)) :
    ∃ v, a = v ++ ra ∧ b = v ++ rb :=
  ⟨treeBytes t, parseValue_canonical f a t ra ha, parseValue_canonical f' b t rb hb⟩

/-- through C02: whatever the generic reader (the model of `Mode::Der.decode` over
    `Constructed::take_opt_value`) accepts is the canonical encoding of what it returned -/
theorem decode_der_canonical (f : Nat) (d : Bytes) (ts : List Tree) (g' : G0)
    (h : runG0 (decodeAll .der f) (St d none) = .ok (ts, g')) : d = treesBytes ts ∧ g' = St [] none := by
  obtain ⟨hg, hp⟩ := accepts_consumes .der f d ts g' h
  exact ⟨parseAll_canonical f d ts hp, hg⟩

/-- … hence the reader is injective on accepted inputs -/
theorem decode_der_injective (f f' : Nat) (a b : Bytes) (ts : List Tree) (ga gb : G0)
    (ha : runG0 (decodeAll .der f) (St a none) = .ok (ts, ga))
    (hb : runG0 (decodeAll .der f') (St b none) = .ok (ts, gb)) : a = b := by
  rw [(decode_der_canonical f a ts ga ha).1, (decode_der_canonical f' b ts gb hb).1]

/-- the same on the contract-checking layer `runG` -/
theorem decode_der_canonical_runG (f : Nat) (d : Bytes) (ts : List Tree) (g' : G)
    (h : runG (decodeAll .der f) { data := d, limit := none } = .ok (ts, g')) : d = treesBytes ts :=
  parseAll_canonical f d ts (accepts_runG .der f d ts g' h).1

/-! ### re-encoding is well-formed: the canonical octets of a tree parse back to the tree -/

/-- identifiers the library can represent that are not end-of-contents -/
def identOK (id : Ident) : Bool := decide (id.cls ≤ 3) && decide (id.num ≤ 0x1fffff) && !isEocIdent id

mutual
/-- trees a DER parse can return: representable identifiers, form flag matching the node, definite
    lengths that fit four length octets -/
def wfTree : Tree → Bool
  | .prim id c => identOK id && !id.constructed && decide (c.length < 2 ^ 32)
  | .cons id indef kids =>
    identOK id && id.constructed && !indef && wfTrees kids && decide ((treesBytes kids).length < 2 ^ 32)
def wfTrees : List Tree → Bool
  | [] => true
  | t :: ts => wfTree t && wfTrees ts
end

mutual
/-- fuel the reference parser needs for a tree -/
def fuelTree : Tree → Nat
  | .prim _ _ => 1
  | .cons _ _ kids => 1 + fuelTrees kids
def fuelTrees : List Tree → Nat
  | [] => 1
  | t :: ts => 1 + max (fuelTree t) (fuelTrees ts)
end

theorem take_window (c rest : Bytes) : (c ++ rest).take c.length = c := by simp
theorem drop_window (c rest : Bytes) : (c ++ rest).drop c.length = rest := by simp

/-- reading back a canonical header -/
theorem header_readback (id : Ident) (hid : identOK id = true) (n : Nat) (hn : n < 2 ^ 32) (body : Bytes) :
    readIdent (hdrOctets id.cls id.constructed id.num n ++ body) =
        some (id, (identOctets id.cls id.constructed id.num).length) ∧
    readLen false ((hdrOctets id.cls id.constructed id.num n ++ body).drop
        (identOctets id.cls id.constructed id.num).length) = some (some n, (lenOctets n).length) ∧
    (hdrOctets id.cls id.constructed id.num n ++ body).drop
        ((identOctets id.cls id.constructed id.num).length + (lenOctets n).length) = body := by
  simp only [identOK, Bool.and_eq_true, decide_eq_true_eq] at hid
  obtain ⟨⟨hc, hnum⟩, _⟩ := hid
  have e : hdrOctets id.cls id.constructed id.num n ++ body =
      identOctets id.cls id.constructed id.num ++ (lenOctets n ++ body) := by
    simp [hdrOctets, List.append_assoc]
  rw [e]
  refine ⟨?_, ?_, ?_⟩
  · rw [readIdent_identOctets id.cls id.num id.constructed hc hnum]
  · rw [drop_window]; exact readLen_lenOctets false n hn body
  · rw [← List.drop_drop, drop_window, drop_window]

/-- **re-encoding is accepted.**  The canonical octets of well-formed trees are accepted by the DER
    grammar, with exactly those trees (given the fuel the trees need). -/
theorem der_reparse : ∀ f : Nat,
    (∀ t rest, fuelTree t ≤ f → wfTree t = true → parseValue .der f (treeBytes t ++ rest) = some (t, rest)) ∧
    (∀ ts, fuelTrees ts ≤ f → wfTrees ts = true → parseAll .der f (treesBytes ts) = some ts) := by
  intro f
  induction f with
  | zero =>
    constructor
    · intro t rest hf; cases t <;> simp [fuelTree] at hf
    · intro ts hf; cases ts <;> simp [fuelTrees] at hf
  | succ f ih =>
    obtain ⟨ihV, ihA⟩ := ih
    have hber : M.der.isBer = false := rfl
    constructor
    · intro t rest hf hw
      cases t with
      | prim id c =>
        simp only [wfTree, Bool.and_eq_true, decide_eq_true_eq, Bool.not_eq_true'] at hw
        obtain ⟨⟨hid, hcn⟩, hlen⟩ := hw
        obtain ⟨h1, h2, h3⟩ := header_readback id hid c.length hlen (c ++ rest)
        have heoc : isEocIdent id = false := by
          simp only [identOK, Bool.and_eq_true, Bool.not_eq_true'] at hid; exact hid.2
        rw [treeBytes_prim, List.append_assoc]
        rw [hcn] at h1 h2 h3
        simp only [parseValue, h1, heoc, Bool.false_eq_true, if_false, hber, h2, h3, hcn, Bool.not_false, if_true,
          take_window, drop_window]
        simp
      | cons id indef kids =>
        simp only [wfTree, Bool.and_eq_true, decide_eq_true_eq, Bool.not_eq_true'] at hw
        obtain ⟨⟨⟨⟨hid, hcn⟩, hindef⟩, hkids⟩, hlen⟩ := hw
        obtain ⟨h1, h2, h3⟩ := header_readback id hid (treesBytes kids).length hlen (treesBytes kids ++ rest)
        have heoc : isEocIdent id = false := by
          simp only [identOK, Bool.and_eq_true, Bool.not_eq_true'] at hid; exact hid.2
        have hfk : fuelTrees kids ≤ f := by simp only [fuelTree] at hf; omega
        have hp := ihA kids hfk hkids
        rw [treeBytes_cons, List.append_assoc]
        rw [hcn] at h1 h2 h3
        have hcer : (M.der == M.cer) = false := rfl
        have : ¬ (treesBytes kids ++ rest).length < (treesBytes kids).length := by simp
        simp only [parseValue, hcn, h1, heoc, Bool.false_eq_true, if_false, hber, h2, h3, Bool.not_true,
          take_window, drop_window, hcer, hp, this, hindef]
    · intro ts hf hw
      cases ts with
      | nil => simp [parseAll, treesBytes_nil]
      | cons t ts =>
        simp only [wfTrees, Bool.and_eq_true] at hw
        simp only [fuelTrees] at hf
        have hne : (treesBytes (t :: ts)).isEmpty = false := by
          rw [treesBytes_cons]
          have : 1 ≤ (treeBytes t).length := by
            have hi : ∀ c b n, 1 ≤ (identOctets c b n).length := by
              intro c b n; unfold identOctets; by_cases h : n ≤ 30 <;> simp [h]
            cases t with
            | prim id c => rw [treeBytes_prim]; simp [hdrOctets]; have := hi id.cls id.constructed id.num; omega
            | cons id b kids => rw [treeBytes_cons]; simp [hdrOctets]; have := hi id.cls id.constructed id.num; omega
          cases hb : treeBytes t with
          | nil => rw [hb] at this; simp at this
          | cons x xs => rfl
        simp only [parseAll, hne, Bool.false_eq_true, if_false]
        rw [treesBytes_cons, ihV t _ (by omega) hw.1]
        simp only
        rw [ihA ts (by omega) hw.2]
        rfl

/-- every tree a DER parse returns is well-formed in the above sense, so the round trip
    octets → trees → octets → trees closes -/
theorem der_parse_wf : ∀ f : Nat,
    (∀ bs t rest, parseValue .der f bs = some (t, rest) → wfTree t = true) ∧
    (∀ bs ts, parseAll .der f bs = some ts → wfTrees ts = true) := by
  intro f
  induction f with
  | zero => exact ⟨fun bs t rest h => by simp [parseValue] at h, fun bs ts h => by simp [parseAll] at h⟩
  | succ f ih =>
    obtain ⟨ihV, ihA⟩ := ih
    constructor
    · intro bs t rest h
      simp only [parseValue] at h
      cases hr : readIdent bs with
      | none => simp [hr] at h
      | some r =>
        obtain ⟨id, k⟩ := r
        obtain ⟨hc, hnum, _⟩ := C12.readIdent_bounds bs id k hr
        simp only [hr] at h
        split at h
        · simp at h
        · rename_i heoc
          have hid : identOK id = true := by simp [identOK, hc, hnum, heoc]
          cases hl : readLen M.der.isBer (bs.drop k) with
          | none => simp [hl] at h
          | some r2 =>
            obtain ⟨len?, kl⟩ := r2
            simp only [hl] at h
            cases len? with
            | none =>
              simp only at h
              split at h
              · simp at h
              · rename_i hx; simp at hx
            | some n =>
              have hn32 := readLen_lt _ _ _ _ hl
              simp only at h
              split at h
              · simp at h
              · rename_i hn
                have hlen : (List.take n (List.drop (k + kl) bs)).length = n := by
                  rw [List.length_take]; omega
                split at h
                · rename_i hcn
                  simp only [Option.some.injEq, Prod.mk.injEq] at h
                  rw [← h.1]
                  simp only [wfTree, hid, hlen, hn32, decide_true, Bool.and_true, Bool.true_and]
                  exact hcn
                · rename_i hcn
                  split at h
                  · simp at h
                  · cases hp : parseAll .der f (List.take n (List.drop (k + kl) bs)) with
                    | none => simp [hp] at h
                    | some kids =>
                      simp only [hp, Option.some.injEq, Prod.mk.injEq] at h
                      rw [← h.1]
                      have hk := parseAll_canonical f _ _ hp
                      have hkl : (treesBytes kids).length = n := by rw [← hk, hlen]
                      have hcn' : id.constructed = true := by simpa using hcn
                      simp only [wfTree, hid, hcn', ihA _ _ hp, hkl, hn32, decide_true, Bool.and_true, Bool.not_false]
    · intro bs ts h
      simp only [parseAll] at h
      split at h
      · simp at h; subst h; rfl
      · cases hv : parseValue .der f bs with
        | none => simp [hv] at h
        | some r =>
          obtain ⟨t, rest⟩ := r
          simp only [hv] at h
          cases hq : parseAll .der f rest with
          | none => simp [hq] at h
          | some ts' =>
            simp only [hq, Option.map, Option.some.injEq] at h
            subst h
            simp only [wfTrees, ihV _ _ _ hv, ihA _ _ hq, Bool.and_self]

/-- **decode ∘ encode ∘ decode = decode** at the level of trees: what DER decoding accepted re-encodes
    (`treesBytes`) to the same octets, and those are accepted again with the same trees -/
theorem der_reencode_accepted (f : Nat) (bs : Bytes) (ts : List Tree) (h : parseAll .der f bs = some ts) :
    treesBytes ts = bs ∧ ∀ f', fuelTrees ts ≤ f' → parseAll .der f' (treesBytes ts) = some ts :=
  ⟨(parseAll_canonical f bs ts h).symm, fun f' hf => (der_reparse f').2 ts hf ((der_parse_wf f).2 bs ts h)⟩

/-! ## 4. typed framing in DER: the inverse of `C04.frame_definite` -/

theorem St_view_len (d : Bytes) (l : Nat) : (St d (some l)).view.length = min l d.length := by
  simp [G0.view, List.length_take]

/-- one window operation on a limited source without capture: data and limit move together -/
theorem step_window0 (d : Bytes) (l : Nat) (o : Op) (ho : o.isWindow) (r : Resp) (g' : G0)
    (h : stepG0 (St d (some l)) o = .ok (r, g')) :
    ∃ j, j ≤ l ∧ j ≤ d.length ∧ g' = St (d.drop j) (some (l - j)) := by
  have hvl := St_view_len d l
  have stay : g' = St d (some l) → ∃ j, j ≤ l ∧ j ≤ d.length ∧ g' = St (d.drop j) (some (l - j)) :=
    fun e => ⟨0, Nat.zero_le _, Nat.zero_le _, by simpa using e⟩
  have move : ∀ n, n ≤ (St d (some l)).view.length →
      (St d (some l)).advance n = .ok (St (d.drop n) (some (l - n))) := fun n hn =>
    G0.advance_eq (St d (some l)) rfl n hn
  cases o with
  | takeOptU8 =>
    simp only [stepG0] at h
    split at h
    · simp at h; exact stay h.2.symm
    · rename_i b t hv
      have h1 : 1 ≤ (St d (some l)).view.length := by rw [hv]; simp
      rw [move 1 h1] at h
      simp only [Except.ok.injEq, Prod.mk.injEq] at h
      exact ⟨1, by omega, by omega, h.2.symm⟩
  | peekAt i => simp [stepG0] at h; exact stay h.2.symm
  | peek2 => simp [stepG0] at h; exact stay h.2.symm
  | need n => simp [stepG0] at h; exact stay h.2.symm
  | takeN n =>
    simp only [stepG0] at h
    split at h
    · simp at h
    · rename_i hn
      rw [move n (by omega)] at h
      simp at h
      exact ⟨n, by omega, by omega, h.2.symm⟩
  | skipN n =>
    simp only [stepG0] at h
    split at h
    · simp at h
    · rename_i hn
      rw [move n (by omega)] at h
      simp at h
      exact ⟨n, by omega, by omega, h.2.symm⟩
  | sliceN n =>
    simp only [stepG0] at h
    split at h
    · simp at h
    · simp at h; exact stay h.2.symm
  | getLimit => simp [stepG0] at h; exact stay h.2.symm
  | setLimit l' => exact absurd ho (by simp [Op.isWindow])
  | reqCapped n => simp [stepG0] at h; exact stay h.2.symm
  | capBegin => exact absurd ho (by simp [Op.isWindow])
  | capEnd => exact absurd ho (by simp [Op.isWindow])
  | getPos => exact absurd ho (by simp [Op.isWindow])

theorem run_window0 (p : Prog α) (hp : W p) : ∀ (d : Bytes) (l : Nat) (a : α) (g' : G0),
    runG0 p (St d (some l)) = .ok (a, g') →
    ∃ j, j ≤ l ∧ j ≤ d.length ∧ g' = St (d.drop j) (some (l - j)) := by
  induction hp with
  | ret a => intro d l a' g' h; simp [runG0] at h; exact ⟨0, Nat.zero_le _, Nat.zero_le _, by simpa using h.2.symm⟩
  | fail e => intro d l a g' h; simp [runG0] at h
  | op o k ho _ ih =>
    intro d l a g' h
    simp only [runG0] at h
    cases hs : stepG0 (St d (some l)) o with
    | error e => simp [hs] at h
    | ok rg =>
      obtain ⟨r, g1⟩ := rg
      simp only [hs] at h
      obtain ⟨j1, h1, h2, rfl⟩ := step_window0 d l o ho r g1 hs
      obtain ⟨j2, h3, h4, rfl⟩ := ih r _ _ a g' h
      simp only [List.length_drop] at h4
      exact ⟨j1 + j2, by omega, by omega, by rw [List.drop_drop]; congr 2; omega⟩

theorem take_take_le (d : Bytes) (j l : Nat) (h : j ≤ l) : (d.take l).take j = d.take j := by
  rw [List.take_take, Nat.min_eq_left h]

/-- the octets of a header accepted in DER mode, as a prefix -/
theorem header_take (bs : Bytes) (id : Ident) (k n kl : Nat) (h1 : readIdent bs = some (id, k))
    (h2 : readLen false (bs.drop k) = some (some n, kl)) :
    bs.take (k + kl) = hdrOctets id.cls id.constructed id.num n ∧ k + kl ≤ bs.length := by
  have e1 := readIdent_canonical bs id k h1
  have e2 := readLen_canonical _ n kl h2
  have hk := readIdent_le bs id k h1
  have hkl := (readLen_bound _ _ _ _ h2).2
  simp only [List.length_drop] at hkl
  refine ⟨?_, by omega⟩
  unfold hdrOctets
  rw [← e1, ← e2, List.take_add]

/-- what a successful value part (`bodyF`) means in DER mode -/
theorem bodyF_some_der {α : Type} (c : Cons) (hm : c.mode = .der) (op : Tag → Content → Prog (α × Content))
    (hd : Nat) (g2 : G0) (id : Ident) (heoc : isEocIdent id = false) (len? : Option Nat) (res : α) (c' : Cons) (g' : G0)
    (h : bodyF c op hd g2 id len? = .ok ((some res, c'), g')) :
    ∃ (len : Nat) (k' : Content) (g3 g4 : G0), len? = some len ∧ (∀ l, g2.limit = some l → len ≤ l) ∧ c' = c ∧
      runG0 (op (C12.tagOf id.cls id.num) (if id.constructed = true then .cons ⟨.definite, .der, 0⟩ else .prim .der))
        (St g2.data (some len)) = .ok ((res, k'), g3) ∧
      runG0 k'.exhausted g3 = .ok ((), g4) ∧ g' = { g4 with limit := g2.limit.map (· - len) } := by
  unfold bodyF at h
  simp only [heoc, Bool.false_eq_true, if_false, hm] at h
  cases len? with
  | none =>
    exfalso
    simp only at h
    split at h
    · cases h
    · rename_i hx; simp at hx
  | some len =>
    simp only at h
    have hcer : (id.constructed && Mode.der == Mode.cer) = false := by cases id.constructed <;> rfl
    have fin : ∀ (lim' : Option Nat),
        (match runG0 (op (C12.tagOf id.cls id.num)
            (if id.constructed = true then Content.cons ⟨.definite, .der, 0⟩ else Content.prim .der))
            (St g2.data (some len)) with
          | .error e => (.error e : Res ((Option α × Cons) × G0))
          | .ok ((res, content'), g3) =>
            match runG0 content'.exhausted g3 with
            | .error e => .error e
            | .ok (_, g4) => .ok ((some res, c), { g4 with limit := lim' })) =
          .ok ((some res, c'), g') →
        ∃ (k' : Content) (g3 g4 : G0), c' = c ∧
          runG0 (op (C12.tagOf id.cls id.num) (if id.constructed = true then .cons ⟨.definite, .der, 0⟩ else .prim .der))
            (St g2.data (some len)) = .ok ((res, k'), g3) ∧
          runG0 k'.exhausted g3 = .ok ((), g4) ∧ g' = { g4 with limit := lim' } := by
      intro lim' h
      cases hrun : runG0 (op (C12.tagOf id.cls id.num)
          (if id.constructed = true then Content.cons ⟨.definite, .der, 0⟩ else Content.prim .der))
          (St g2.data (some len)) with
      | error e => rw [hrun] at h; cases h
      | ok r3 =>
        obtain ⟨⟨res', k'⟩, g3⟩ := r3
        rw [hrun] at h
        simp only at h
        cases hex : runG0 k'.exhausted g3 with
        | error e => rw [hex] at h; cases h
        | ok r4 =>
          obtain ⟨u, g4⟩ := r4
          rw [hex] at h
          simp only [Except.ok.injEq, Prod.mk.injEq, Option.some.injEq] at h
          obtain ⟨⟨hres, hc'⟩, hg'⟩ := h
          subst hres
          exact ⟨k', g3, g4, hc'.symm, rfl, hex, hg'.symm⟩
    cases hlim : g2.limit with
    | none =>
      simp only [hlim, Bool.false_eq_true, if_false, hcer, Option.map] at h
      obtain ⟨k', g3, g4, h1, h2, h3, h4⟩ := fin none h
      exact ⟨len, k', g3, g4, rfl, (by intro l hl; cases hl), h1, h2, h3, h4⟩
    | some l =>
      simp only [hlim] at h
      by_cases hgt : len > l
      · simp only [hgt, decide_true, if_true] at h; cases h
      · simp only [hgt, decide_false, Bool.false_eq_true, if_false, hcer, Option.map] at h
        obtain ⟨k', g3, g4, h1, h2, h3, h4⟩ := fin (some (l - len)) h
        exact ⟨len, k', g3, g4, rfl, (by intro l' hl; cases hl; omega), h1, h2, h3, h4⟩

/-- **4, general form.**  If a tag-selective read in DER mode returns a value, then the source began
    with the CANONICAL header of that tag (either form `b`) announcing some length `len`, all of it
    inside the limit, and the closure was run on the `len`-octet window behind the header. -/
theorem frame_inv {α : Type} (c : Cons) (hm : c.mode = .der) (cls num : Nat) (ht : TagOK cls num)
    (op : Tag → Content → Prog (α × Content)) (d : Bytes) (lim : Option Nat) (res : α) (c' : Cons) (g' : G0)
    (h : runG0 (processNextValue c (some (C12.tagOf cls num)) op) (St d lim) = .ok ((some res, c'), g')) :
    ∃ (b : Bool) (len : Nat) (body : Bytes) (k' : Content) (g3 g4 : G0),
      d = hdrOctets cls b num len ++ body ∧ c' = c ∧ len < 2 ^ 32 ∧
      (∀ l, lim = some l → (hdrOctets cls b num len).length + len ≤ l) ∧
      runG0 (op (C12.tagOf cls num) (if b = true then .cons ⟨.definite, .der, 0⟩ else .prim .der))
        (St body (some len)) = .ok ((res, k'), g3) ∧
      runG0 k'.exhausted g3 = .ok ((), g4) ∧
      g' = { g4 with limit := lim.map (· - ((hdrOctets cls b num len).length + len)) } := by
  rw [pnvE_eq c cls num ht.hc ht.hn op _ rfl] at h
  unfold pnvE at h
  split at h
  · simp at h
  split at h
  · cases h
  split at h
  · simp at h
  split at h
  · simp at h
  cases hr : readIdent (St d lim).view with
  | none => rw [hr] at h; cases h
  | some r =>
    obtain ⟨id, k⟩ := r
    rw [hr] at h
    simp only at h
    split at h
    · rename_i hid
      obtain ⟨hcls, hnum⟩ := hid
      have hk := readIdent_le _ id k hr
      have hv1 : ((St d lim).adv k).view = (St d lim).view.drop k := G0.adv_view _ k hk
      rw [hv1, hm] at h
      cases hl : readLen Mode.der.isBer ((St d lim).view.drop k) with
      | none => rw [hl] at h; cases h
      | some r2 =>
        obtain ⟨len?, kl⟩ := r2
        rw [hl] at h
        simp only at h
        have heoc : isEocIdent id = false := by
          simp only [isEocIdent, Bool.and_eq_false_iff, beq_eq_false_iff_ne, ne_eq]
          by_cases h0 : id.cls = 0
          · right; intro h1; exact ht.hne ⟨hcls ▸ h0, hnum ▸ h1⟩
          · left; exact h0
        rw [G0.adv_adv] at h
        obtain ⟨len, k', g3, g4, hlen?, hfit, hc', hrun, hex, hg'⟩ := bodyF_some_der c hm op _ _ id heoc len? res c' g' h
        subst hlen?
        obtain ⟨htake, hsum⟩ := header_take _ id k len kl hr hl
        have hlen32 := readLen_lt _ _ _ _ hl
        have hdata : ((St d lim).adv (k + kl)).data = d.drop (k + kl) := rfl
        have hlimit : ((St d lim).adv (k + kl)).limit = lim.map (· - (k + kl)) := rfl
        rw [hdata] at hrun
        rw [hlimit] at hfit hg'
        have hdtake : d.take (k + kl) = hdrOctets cls id.constructed num len := by
          rw [← hcls, ← hnum, ← htake]
          cases hlim : lim with
          | none => rfl
          | some l =>
            have : k + kl ≤ l := by
              have := view_le_limit (St d (some l)) l rfl
              rw [hlim] at hsum; omega
            simp only [G0.view]
            rw [take_take_le _ _ _ this]
        have hdlen : k + kl ≤ d.length := Nat.le_trans hsum (G0.view_length_le _)
        have hhl : (hdrOctets cls id.constructed num len).length = k + kl := by
          rw [← hdtake, List.length_take]; omega
        rw [hcls, hnum] at hrun
        refine ⟨id.constructed, len, d.drop (k + kl), k', g3, g4, ?_, hc', hlen32, ?_, hrun, hex, ?_⟩
        · rw [← hdtake, List.take_append_drop]
        · intro l hl'
          subst hl'
          have h1 : k + kl ≤ l := by
            have := view_le_limit (St d (some l)) l rfl
            omega
          have := hfit (l - (k + kl)) rfl
          omega
        · rw [hg', hhl]
          cases lim <;> simp [Nat.sub_sub]
    · simp at h

/-! ### what a program can return -/

/-- every value the program can return satisfies `Q` -/
inductive Rets {α : Type} (Q : α → Prop) : Prog α → Prop
  | ret (a : α) (h : Q a) : Rets Q (.ret a)
  | fail (e : Err) : Rets Q (.fail e)
  | op (o : Op) (k : Resp → Prog α) (hk : ∀ r, Rets Q (k r)) : Rets Q (.op o k)

theorem Rets.pure' {α : Type} {Q : α → Prop} (a : α) (h : Q a) : Rets Q (pure a : Prog α) := Rets.ret a h
theorem Rets.contentErr' {α : Type} {Q : α → Prop} : Rets Q (Prog.contentErr : Prog α) := Rets.fail _

theorem Rets.bind {α β : Type} {Q : α → Prop} (p : Prog β) {f : β → Prog α} (hf : ∀ b, Rets Q (f b)) :
    Rets Q (p >>= f) := by
  induction p with
  | ret b => exact hf b
  | fail e => exact Rets.fail e
  | op o k ih => exact Rets.op o _ ih

theorem Rets.run {α : Type} {Q : α → Prop} {p : Prog α} (hp : Rets Q p) :
    ∀ (g : G0) (a : α) (g' : G0), runG0 p g = .ok (a, g') → Q a := by
  induction hp with
  | ret a h => intro g a' g' hr; simp [runG0] at hr; rw [← hr.1]; exact h
  | fail e => intro g a g' hr; simp [runG0] at hr
  | op o k _ ih =>
    intro g a g' hr
    simp only [runG0] at hr
    cases hs : stepG0 g o with
    | error e => simp [hs] at hr
    | ok rg =>
      obtain ⟨r, g1⟩ := rg
      simp only [hs] at hr
      exact ih r g1 a g' hr

/-! ### primitive values: the window is the content, and it is all there -/

/-- what the framework does with the closure of a primitive value whose content is `cnt` (followed by
    `tail`): run it on the window, then run the exhaustion check of the content it hands back -/
def contentRun {α : Type} (op : Content → Prog (α × Content)) (m : Mode) (cnt tail : Bytes) : Res (α × G0) :=
  match runG0 (op (.prim m)) (St (cnt ++ tail) (some cnt.length)) with
  | .error e => .error e
  | .ok ((a, k), g) =>
    match runG0 k.exhausted g with
    | .error e => .error e
    | .ok (_, g') => .ok (a, g')

/-- closures for primitive values: reject the constructed form (in DER), work on the window only (no limit
    changes, no capture), hand a primitive content back.  All leaf decoders of the crate are such. -/
structure PrimOnly {α : Type} (op : Content → Prog (α × Content)) : Prop where
  rejectsCons : ∀ (st : CState) (g : G0) (r : (α × Content) × G0), runG0 (op (.cons ⟨st, .der, 0⟩)) g ≠ .ok r
  window : W (op (.prim .der))
  returnsPrim : ∀ (g : G0) (a : α) (k : Content) (g' : G0), runG0 (op (.prim .der)) g = .ok ((a, k), g') →
    ∃ m, k = .prim m

/-- a window closure that passes the exhaustion check has consumed exactly the announced length,
    which therefore was available -/
theorem primOnly_window {α : Type} (op : Content → Prog (α × Content)) (hop : PrimOnly op) (body : Bytes) (len : Nat)
    (a : α) (k : Content) (g3 g4 : G0)
    (h1 : runG0 (op (.prim .der)) (St body (some len)) = .ok ((a, k), g3))
    (h2 : runG0 k.exhausted g3 = .ok ((), g4)) :
    len ≤ body.length ∧ g3 = St (body.drop len) (some 0) ∧ g4 = St (body.drop len) (some 0) := by
  obtain ⟨j, hj1, hj2, hg3⟩ := run_window0 _ hop.window body len _ g3 h1
  obtain ⟨m, hk⟩ := hop.returnsPrim _ _ _ _ h1
  subst hk; subst hg3
  simp only [Content.exhausted, run_limitedExhausted] at h2
  split at h2
  · rename_i h0
    have : j = len := by omega
    subst this
    simp only [Except.ok.injEq, Prod.mk.injEq, true_and] at h2
    refine ⟨hj2, ?_, ?_⟩
    · rw [h0]
    · rw [← h2, h0]
  · cases h2

/-- **4 (primitive values, `take_opt_value_if` returning a value).** -/
theorem der_value_framing_opt {α : Type} (c : Cons) (hm : c.mode = .der) (cls num : Nat) (ht : TagOK cls num)
    (op : Content → Prog (α × Content)) (hop : PrimOnly op) (d : Bytes) (lim : Option Nat)
    (v : α) (c' : Cons) (g' : G0)
    (h : runG0 (takeOptValueIf c (C12.tagOf cls num) op) (St d lim) = .ok ((some v, c'), g')) :
    ∃ cnt tail, d = hdrOctets cls false num cnt.length ++ cnt ++ tail ∧ cnt.length < 2 ^ 32 ∧ c' = c ∧
      g' = St tail (lim.map (· - ((hdrOctets cls false num cnt.length).length + cnt.length))) ∧
      (∀ l, lim = some l → (hdrOctets cls false num cnt.length).length + cnt.length ≤ l) ∧
      contentRun op .der cnt tail = .ok (v, St tail (some 0)) := by
  unfold takeOptValueIf at h
  obtain ⟨b, len, body, k', g3, g4, hd, hc', hlen, hcov, hrun, hex, hg'⟩ :=
    frame_inv c hm cls num ht (fun _ => op) d lim v c' g' h
  cases b with
  | true => exact absurd hrun (hop.rejectsCons _ _ _)
  | false =>
    simp only [Bool.false_eq_true, if_false] at hrun
    obtain ⟨hle, hg3, hg4⟩ := primOnly_window op hop body len v k' g3 g4 hrun hex
    have hcl : (body.take len).length = len := by rw [List.length_take]; omega
    refine ⟨body.take len, body.drop len, ?_, by rw [hcl]; exact hlen, hc', ?_, ?_, ?_⟩
    · rw [hcl, List.append_assoc, List.take_append_drop]; exact hd
    · rw [hcl, hg', hg4]
    · rw [hcl]; exact hcov
    · unfold contentRun
      rw [hcl, List.take_append_drop, hrun]
      simp only
      rw [hex, hg4]

/-- **4 (primitive values, `take_value_if`).**  If the mandatory tag-selective read of a primitive
    value succeeds in DER mode on `St d lim`, then `d` starts with the canonical header of the tag
    for the content length, then the content `cnt`, then `tail`; the `Constructed` is unchanged, the
    source is left at `tail` with the limit reduced by exactly the octets of the value, and the value
    returned is what the closure made of exactly `cnt`. -/
theorem der_value_framing {α : Type} (c : Cons) (hm : c.mode = .der) (cls num : Nat) (ht : TagOK cls num)
    (op : Content → Prog (α × Content)) (hop : PrimOnly op) (d : Bytes) (lim : Option Nat)
    (v : α) (c' : Cons) (g' : G0)
    (h : runG0 (takeValueIf c (C12.tagOf cls num) op) (St d lim) = .ok ((v, c'), g')) :
    ∃ cnt tail, d = hdrOctets cls false num cnt.length ++ cnt ++ tail ∧ cnt.length < 2 ^ 32 ∧ c' = c ∧
      g' = St tail (lim.map (· - ((hdrOctets cls false num cnt.length).length + cnt.length))) ∧
      (∀ l, lim = some l → (hdrOctets cls false num cnt.length).length + cnt.length ≤ l) ∧
      contentRun op .der cnt tail = .ok (v, St tail (some 0)) := by
  unfold takeValueIf at h
  rw [mandatory_run] at h
  cases hr : runG0 (processNextValue c (some (C12.tagOf cls num)) fun _ => op) (St d lim) with
  | error e => rw [hr] at h; cases h
  | ok r =>
    obtain ⟨⟨a?, c1⟩, g1⟩ := r
    rw [hr] at h
    cases a? with
    | none => cases h
    | some a =>
      simp only [Except.ok.injEq, Prod.mk.injEq] at h
      obtain ⟨⟨ha, hc1⟩, hg1⟩ := h
      subst ha; subst hc1; subst hg1
      exact der_value_framing_opt c hm cls num ht op hop d lim a c1 g1 hr

/-- closures built by `take_primitive_if`: `|prim| p(prim)` for a window program `p` -/
theorem primOnly_asPrimitive {α : Type} (p : Prog α) (hp : W p) :
    PrimOnly (asPrimitive (fun md => do let a ← p; pure (a, md))) := by
  refine ⟨fun k g r h => (by cases h), ?_, ?_⟩
  · simp only [asPrimitive]
    uses
  · intro g a k g' h
    simp only [asPrimitive, runG0_bind] at h
    cases hr : runG0 p g with
    | error e => rw [hr] at h; cases h
    | ok r =>
      obtain ⟨a', g1⟩ := r
      rw [hr] at h
      simp only [runG0_pure, Except.ok.injEq, Prod.mk.injEq] at h
      exact ⟨.der, h.1.2.symm⟩

theorem contentRun_asPrimitive {α : Type} (p : Prog α) (m : Mode) (cnt tail : Bytes) :
    contentRun (asPrimitive (fun md => do let a ← p; pure (a, md))) m cnt tail = C14.primRun p cnt tail := by
  rw [primRun_unfold]
  unfold contentRun
  simp only [asPrimitive, runG0_bind]
  cases runG0 p (St (cnt ++ tail) (some cnt.length)) with
  | error e => rfl
  | ok r =>
    obtain ⟨a, g⟩ := r
    simp only [runG0_pure, Content.exhausted]
    cases runG0 limitedExhausted g with
    | error e => rfl
    | ok r2 => rfl

/-- **4 (`take_primitive_if`).**  The statement asked for: the source began with the canonical header,
    the closure `p` was run on the content window and left it exhausted. -/
theorem der_prim_framing {α : Type} (c : Cons) (hm : c.mode = .der) (cls num : Nat) (ht : TagOK cls num)
    (p : Prog α) (hp : W p) (d : Bytes) (lim : Option Nat) (v : α) (c' : Cons) (g' : G0)
    (h : runG0 (takePrimitiveIf c (C12.tagOf cls num) (fun md => do let a ← p; pure (a, md))) (St d lim) =
      .ok ((v, c'), g')) :
    ∃ cnt tail, d = hdrOctets cls false num cnt.length ++ cnt ++ tail ∧ cnt.length < 2 ^ 32 ∧ c' = c ∧
      g' = St tail (lim.map (· - ((hdrOctets cls false num cnt.length).length + cnt.length))) ∧
      (∀ l, lim = some l → (hdrOctets cls false num cnt.length).length + cnt.length ≤ l) ∧
      C14.primRun p cnt tail = .ok (v, St tail (some 0)) := by
  have h' : runG0 (takeValueIf c (C12.tagOf cls num) (asPrimitive (fun md => do let a ← p; pure (a, md))))
      (St d lim) = .ok ((v, c'), g') := h
  obtain ⟨cnt, tail, h1, h2, h3, h4, h5, h6⟩ :=
    der_value_framing c hm cls num ht _ (primOnly_asPrimitive p hp) d lim v c' g' h'
  rw [contentRun_asPrimitive] at h6
  exact ⟨cnt, tail, h1, h2, h3, h4, h5, h6⟩

/-! ## 3. typed leaves in DER: what is accepted is what the encoder writes for the decoded value -/

/-- `p` accepts a content only if it is exactly what the encoder `pcOf v` writes for the value `v` it
    returns (and that encoder announces the length it writes) -/
def LeafCanon {α : Type} (p : Prog α) (pcOf : α → PC) : Prop :=
  ∀ (cnt tail : Bytes) (v : α) (g : G0), C14.primRun p cnt tail = .ok (v, g) →
    cnt = (pcOf v).write ∧ C06.PC.intOK (pcOf v) = true

/-- the same for closures that take the `Content` (`BitString::from_content`, `OctetString::from_content`) -/
def LeafCanonC {α : Type} (op : Content → Prog (α × Content)) (pcOf : α → PC) : Prop :=
  ∀ (cnt tail : Bytes) (v : α) (g : G0), contentRun op .der cnt tail = .ok (v, g) →
    cnt = (pcOf v).write ∧ C06.PC.intOK (pcOf v) = true

theorem leafCanonC_of_leafCanon {α : Type} (p : Prog α) (pcOf : α → PC) (h : LeafCanon p pcOf) :
    LeafCanonC (asPrimitive (fun md => do let a ← p; pure (a, md))) pcOf := by
  intro cnt tail v g hr
  rw [contentRun_asPrimitive] at hr
  exact h cnt tail v g hr

/-- fixed-width INTEGER, all ten builtin types (restating `C14.decode_ok_enc`) -/
theorem leaf_int_canonical (ty : IntTy) : LeafCanon (toInt ty) (fun v => .int ty v) := by
  intro cnt tail v g h
  refine ⟨C14.decode_ok_enc ty cnt tail v g h, ?_⟩
  obtain ⟨_, hr, hv, _⟩ := (C14.decode_ok_iff ty cnt tail v g).mp h
  rw [← hv] at hr
  simp only [C06.PC.intOK, beq_iff_eq]
  exact C14.encIntLen_eq ty v hr

/-- BOOLEAN in DER: only `00` and `FF` are accepted -/
theorem leaf_bool_canonical : LeafCanon (toBool .der) (fun b => .bool b) := by
  intro cnt tail b g h
  refine ⟨?_, rfl⟩
  rw [C14.bool_eq_spec] at h
  have hb : Mode.der.isBer = false := rfl
  rw [hb] at h
  match cnt, h with
  | [], h => simp [decodeBool] at h
  | [x], h =>
    simp only [decodeBool, Bool.false_eq_true, if_false] at h
    by_cases h0 : (x == 0) = true
    · simp only [h0, if_true, Except.ok.injEq, Prod.mk.injEq] at h
      have : x = 0 := by simpa using h0
      rw [← h.1, this]; rfl
    · simp only [h0, Bool.false_eq_true, if_false] at h
      by_cases hf : (x == 0xFF) = true
      · simp only [hf, if_true, Except.ok.injEq, Prod.mk.injEq] at h
        have : x = 0xFF := by simpa using hf
        rw [← h.1, this]; rfl
      · simp [hf] at h
  | x :: y :: t, h => simp [decodeBool] at h

/-- NULL: only the empty content -/
theorem leaf_null_canonical : LeafCanon toNull (fun _ => .null) := by
  intro cnt tail v g h
  refine ⟨?_, rfl⟩
  rw [C14.null_eq_spec] at h
  by_cases hc : cnt = []
  · rw [hc]; rfl
  · rw [if_neg hc] at h; cases h

theorem primRun_of_run {α : Type} (p : Prog α) (cnt tail : Bytes) (r : Res (α × G0))
    (hr : runG0 p (St (cnt ++ tail) (some cnt.length)) = r)
    (hg : ∀ a g, r = .ok (a, g) → g = St tail (some 0)) : C14.primRun p cnt tail = r := by
  rw [primRun_unfold, hr]
  cases r with
  | error e => rfl
  | ok x =>
    obtain ⟨a, g⟩ := x
    rw [hg a g rfl]
    simp [run_limitedExhausted]

/-- arbitrary-size INTEGER (`Integer::from_primitive`): the content is returned unchanged and is what
    the encoder of the value writes -/
theorem leaf_integer_canonical : LeafCanon integerFromPrimitive (fun c => .integer c) := by
  intro cnt tail v g h
  refine ⟨?_, rfl⟩
  rw [primRun_of_run _ cnt tail _ (C15.integerFromPrimitive_spec cnt tail)
    (by intro a g' e; split at e <;> simp at e; exact e.2.symm)] at h
  split at h
  · simp only [Except.ok.injEq, Prod.mk.injEq] at h; rw [← h.1]; rfl
  · cases h

/-- arbitrary-size unsigned INTEGER (`Unsigned::from_primitive`) -/
theorem leaf_unsigned_canonical : LeafCanon unsignedFromPrimitive (fun c => .integer c) := by
  intro cnt tail v g h
  refine ⟨?_, rfl⟩
  rw [primRun_of_run _ cnt tail _ (C15.unsignedFromPrimitive_spec cnt tail)
    (by intro a g' e; split at e <;> simp at e; exact e.2.symm)] at h
  split at h
  · simp only [Except.ok.injEq, Prod.mk.injEq] at h; rw [← h.1]; rfl
  · cases h

/-- OBJECT IDENTIFIER -/
theorem leaf_oid_canonical : LeafCanon Oid.fromPrimitive (fun c => .oid c) := by
  intro cnt tail v g h
  refine ⟨?_, rfl⟩
  rw [primRun_of_run _ cnt tail _ (C20.fromPrimitive_run cnt tail)
    (by intro a g' e; split at e <;> simp at e; exact e.2.symm)] at h
  split at h
  · simp only [Except.ok.injEq, Prod.mk.injEq] at h; rw [← h.1]; rfl
  · cases h

/-- BIT STRING (`BitString::from_content`) is a primitive-only window closure … -/
theorem primOnly_bits : PrimOnly BitString.fromContent := by
  refine ⟨fun st g r h => (by cases h), ?_, ?_⟩
  · simp only [BitString.fromContent]
    have := w_remaining; have := w_takeU8; have := w_takeAll
    uses
  · intro g a k g' h
    have hr : Rets (fun r : BitString × Content => ∃ m, r.2 = .prim m) (BitString.fromContent (.prim .der)) := by
      simp only [BitString.fromContent]
      repeat' (first
        | exact Rets.contentErr'
        | exact Rets.pure' _ ⟨_, rfl⟩
        | apply Rets.bind
        | intro _
        | split)
    exact hr.run g (a, k) g' h

/-- … and accepts exactly what the encoder of the decoded value writes -/
theorem leaf_bits_canonical : LeafCanonC BitString.fromContent (fun s => .bits s.unused s.bits) := by
  intro cnt tail s g h
  refine ⟨?_, rfl⟩
  unfold contentRun at h
  rw [C19.fromContent_run] at h
  cases cnt with
  | nil => simp [C19.decoded] at h
  | cons u data =>
    simp only [C19.decoded] at h
    by_cases ha : C19.accepts .der (u :: data) = true
    · simp only [ha, if_true, Content.exhausted, run_limitedExhausted, Except.ok.injEq, Prod.mk.injEq] at h
      rw [← h.1]; rfl
    · simp only [ha, Bool.false_eq_true, if_false] at h
      cases h

/-- the encoder of a decoded OCTET STRING -/
def osPC : OS → PC
  | .prim b => .octets b
  | .cons b => .octets b

theorem primOnly_octets (fuel : Nat) : PrimOnly (OS.fromContent fuel) := by
  refine ⟨fun st g r h => (by cases h), ?_, ?_⟩
  · simp only [OS.fromContent]
    have := w_remaining; have := w_takeAll
    uses
  · intro g a k g' h
    have hr : Rets (fun r : OS × Content => ∃ m, r.2 = .prim m) (OS.fromContent fuel (.prim .der)) := by
      simp only [OS.fromContent]
      repeat' (first
        | exact Rets.contentErr'
        | exact Rets.pure' _ ⟨_, rfl⟩
        | apply Rets.bind
        | intro _
        | split)
    exact hr.run g (a, k) g' h

/-- OCTET STRING in DER: the primitive form only, content returned unchanged -/
theorem leaf_octets_canonical (fuel : Nat) : LeafCanonC (OS.fromContent fuel) osPC := by
  intro cnt tail os g h
  refine ⟨?_, by cases os <;> rfl⟩
  unfold contentRun at h
  have hrun : runG0 (OS.fromContent fuel (.prim .der)) (St (cnt ++ tail) (some cnt.length)) =
      .ok ((.prim cnt, .prim .der), St tail (some 0)) := by
    have hne : (Mode.der == Mode.cer) = false := rfl
    simp only [OS.fromContent, hne, Bool.false_and, Bool.false_eq_true, if_false, runG0_bind, C19.run_remaining,
      C15.run_takeAll_content, runG0_pure]
  rw [hrun] at h
  simp only [Content.exhausted, run_limitedExhausted, if_true, Except.ok.injEq, Prod.mk.injEq] at h
  rw [← h.1]; rfl

/-! ## 4 + 3: decode, then encode — the consumed octets are the encoder's output -/

/-- **decode-then-encode canonicity** of a decoder `dec` against an encoder `enc`: whenever `dec`
    succeeds in DER mode (on any source state without open capture, in any context) with value `v`,
    the octets it consumed are exactly `(enc v).write .der`, the `Constructed` is unchanged and the
    limit is reduced by exactly that many octets. -/
def Canon {β : Type} (dec : Cons → Prog (β × Cons)) (enc : β → Enc) : Prop :=
  ∀ (c : Cons) (d : Bytes) (lim : Option Nat) (v : β) (c' : Cons) (g' : G0), c.mode = .der →
    runG0 (dec c) (St d lim) = .ok ((v, c'), g') →
    ∃ bytes tail, (enc v).write .der = .ok bytes ∧ C06.IntsOK (enc v) = true ∧ d = bytes ++ tail ∧ c' = c ∧
      g' = St tail (lim.map (· - bytes.length)) ∧ (∀ l, lim = some l → bytes.length ≤ l)

theorem write_prim_eq (m : Mode) (cls num : Nat) (ht : TagOK cls num) (pc : PC) (hi : C06.PC.intOK pc = true)
    (hlen : pc.write.length < 2 ^ 32) :
    (Enc.prim (C12.tagOf cls num) pc).write m = .ok (hdrOctets cls false num pc.write.length ++ pc.write) := by
  rw [C06.write_prim m _ pc hi, C06.tlvR, if_pos hlen, tagOf_write cls num ht.hc ht.hn]
  rfl

theorem write_cons_eq (cls num : Nat) (ht : TagOK cls num) (inner : Enc) (hi : C06.IntsOK inner = true)
    (ib : Bytes) (hw : inner.write .der = .ok ib) (hlen : ib.length < 2 ^ 32) :
    (Enc.cons (C12.tagOf cls num) inner).write .der = .ok (hdrOctets cls true num ib.length ++ ib) := by
  rw [C06.write_cons_der _ inner hi, hw]
  simp only [Bind.bind, Except.bind, C06.tlvR]
  rw [if_pos hlen, tagOf_write cls num ht.hc ht.hn]
  rfl

theorem St_map_zero (d : Bytes) (lim : Option Nat) : St d lim = St d (lim.map (· - 0)) := by
  cases lim <;> rfl

/-- a primitive value read through `take_opt_value_if` that is present -/
theorem canon_value_some {α : Type} (cls num : Nat) (ht : TagOK cls num) (op : Content → Prog (α × Content))
    (hop : PrimOnly op) (pcOf : α → PC) (hl : LeafCanonC op pcOf)
    (c : Cons) (hm : c.mode = .der) (d : Bytes) (lim : Option Nat) (v : α) (c' : Cons) (g' : G0)
    (h : runG0 (takeOptValueIf c (C12.tagOf cls num) op) (St d lim) = .ok ((some v, c'), g')) :
    ∃ bytes tail, (Enc.prim (C12.tagOf cls num) (pcOf v)).write .der = .ok bytes ∧
      C06.IntsOK (Enc.prim (C12.tagOf cls num) (pcOf v)) = true ∧ d = bytes ++ tail ∧ c' = c ∧
      g' = St tail (lim.map (· - bytes.length)) ∧ (∀ l, lim = some l → bytes.length ≤ l) := by
  obtain ⟨cnt, tail, h1, h2, h3, h4, h5, h6⟩ := der_value_framing_opt c hm cls num ht op hop d lim v c' g' h
  obtain ⟨hc, hi⟩ := hl cnt tail v _ h6
  subst hc
  refine ⟨hdrOctets cls false num (pcOf v).write.length ++ (pcOf v).write, tail,
    write_prim_eq .der cls num ht _ hi h2, by simp only [C06.IntsOK]; exact hi, h1, h3, ?_, ?_⟩
  · rw [h4, List.length_append]
  · intro l hl'; rw [List.length_append]; exact h5 l hl'

/-- an absent optional value consumes nothing -/
theorem canon_absent {α : Type} (cls num : Nat) (ht : TagOK cls num) (op : Tag → Content → Prog (α × Content))
    (c : Cons) (d : Bytes) (lim : Option Nat) (c' : Cons) (g' : G0)
    (h : runG0 (processNextValue c (some (C12.tagOf cls num)) op) (St d lim) = .ok ((none, c'), g')) :
    ∃ bytes tail, Enc.optNone.write .der = .ok bytes ∧ C06.IntsOK Enc.optNone = true ∧ d = bytes ++ tail ∧ c' = c ∧
      g' = St tail (lim.map (· - bytes.length)) ∧ (∀ l, lim = some l → bytes.length ≤ l) := by
  obtain ⟨hg, hc⟩ := absent_untouched_if_ne c c' cls num ht.hc ht.hn ht.hne op _ g' rfl h
  exact ⟨[], d, rfl, rfl, rfl, hc, by rw [hg]; exact St_map_zero d lim, fun l _ => Nat.zero_le _⟩

/-- the encoder of an optional field -/
def optEnc {α : Type} (e : α → Enc) : Option α → Enc
  | none => .optNone
  | some v => .optSome (e v)

theorem mandatory_some {α : Type} (p : Prog (Option α × Cons)) (g : G0) (v : α) (c' : Cons) (g' : G0)
    (h : runG0 (mandatory p) g = .ok ((v, c'), g')) : runG0 p g = .ok ((some v, c'), g') := by
  rw [mandatory_run] at h
  cases hr : runG0 p g with
  | error e => rw [hr] at h; cases h
  | ok r =>
    obtain ⟨⟨a?, c1⟩, g1⟩ := r
    rw [hr] at h
    cases a? with
    | none => cases h
    | some a =>
      simp only [Except.ok.injEq, Prod.mk.injEq] at h
      obtain ⟨⟨ha, hc1⟩, hg1⟩ := h
      rw [ha, hc1, hg1]

/-- `take_value_if(tag, op)` against `Primitive`-style encoders -/
theorem canon_value {α : Type} (cls num : Nat) (ht : TagOK cls num) (op : Content → Prog (α × Content))
    (hop : PrimOnly op) (pcOf : α → PC) (hl : LeafCanonC op pcOf) :
    Canon (fun c => takeValueIf c (C12.tagOf cls num) op) (fun v => .prim (C12.tagOf cls num) (pcOf v)) := by
  intro c d lim v c' g' hm h
  exact canon_value_some cls num ht op hop pcOf hl c hm d lim v c' g' (mandatory_some _ _ _ _ _ h)

/-- `take_opt_value_if(tag, op)` against `Option<Primitive…>` -/
theorem canon_optValue {α : Type} (cls num : Nat) (ht : TagOK cls num) (op : Content → Prog (α × Content))
    (hop : PrimOnly op) (pcOf : α → PC) (hl : LeafCanonC op pcOf) :
    Canon (fun c => takeOptValueIf c (C12.tagOf cls num) op)
      (optEnc fun v => .prim (C12.tagOf cls num) (pcOf v)) := by
  intro c d lim v c' g' hm h
  cases v with
  | none => exact canon_absent cls num ht _ c d lim c' g' h
  | some v => exact canon_value_some cls num ht op hop pcOf hl c hm d lim v c' g' h

/-- `take_primitive_if(tag, |prim| p)` -/
theorem canon_prim {α : Type} (cls num : Nat) (ht : TagOK cls num) (p : Prog α) (hp : W p)
    (pcOf : α → PC) (hl : LeafCanon p pcOf) :
    Canon (fun c => takePrimitiveIf c (C12.tagOf cls num) (fun md => do let a ← p; pure (a, md)))
      (fun v => .prim (C12.tagOf cls num) (pcOf v)) :=
  canon_value cls num ht _ (primOnly_asPrimitive p hp) pcOf (leafCanonC_of_leafCanon p pcOf hl)

/-- `take_opt_primitive_if(tag, |prim| p)` -/
theorem canon_optPrim {α : Type} (cls num : Nat) (ht : TagOK cls num) (p : Prog α) (hp : W p)
    (pcOf : α → PC) (hl : LeafCanon p pcOf) :
    Canon (fun c => takeOptPrimitiveIf c (C12.tagOf cls num) (fun md => do let a ← p; pure (a, md)))
      (optEnc fun v => .prim (C12.tagOf cls num) (pcOf v)) :=
  canon_optValue cls num ht _ (primOnly_asPrimitive p hp) pcOf (leafCanonC_of_leafCanon p pcOf hl)

/-- **`der_prim_canonical`** (3 and 4 combined, spelled out): if `take_primitive_if(tag, p)` succeeds in
    DER mode with `v`, the octets it consumed are `Enc.write .der (.prim tag (pcOf v))`. -/
theorem der_prim_canonical {α : Type} (c : Cons) (hm : c.mode = .der) (cls num : Nat) (ht : TagOK cls num)
    (p : Prog α) (hp : W p) (pcOf : α → PC) (hl : LeafCanon p pcOf)
    (d : Bytes) (lim : Option Nat) (v : α) (c' : Cons) (g' : G0)
    (h : runG0 (takePrimitiveIf c (C12.tagOf cls num) (fun md => do let a ← p; pure (a, md))) (St d lim) =
      .ok ((v, c'), g')) :
    ∃ bytes tail, (Enc.prim (C12.tagOf cls num) (pcOf v)).write .der = .ok bytes ∧ d = bytes ++ tail ∧
      c' = c ∧ g' = St tail (lim.map (· - bytes.length)) := by
  obtain ⟨bytes, tail, h1, _, h3, h4, h5, _⟩ := canon_prim cls num ht p hp pcOf hl c d lim v c' g' hm h
  exact ⟨bytes, tail, h1, h3, h4, h5⟩

/-- a constructed value read through `take_opt_constructed_if` that is present -/
theorem canon_cons_some {β : Type} (cls num : Nat) (ht : TagOK cls num) (dec : Cons → Prog (β × Cons))
    (enc : β → Enc) (hin : Canon dec enc)
    (c : Cons) (hm : c.mode = .der) (d : Bytes) (lim : Option Nat) (v : β) (c' : Cons) (g' : G0)
    (h : runG0 (takeOptConstructedIf c (C12.tagOf cls num) dec) (St d lim) = .ok ((some v, c'), g')) :
    ∃ bytes tail, (Enc.cons (C12.tagOf cls num) (enc v)).write .der = .ok bytes ∧
      C06.IntsOK (Enc.cons (C12.tagOf cls num) (enc v)) = true ∧ d = bytes ++ tail ∧ c' = c ∧
      g' = St tail (lim.map (· - bytes.length)) ∧ (∀ l, lim = some l → bytes.length ≤ l) := by
  unfold takeOptConstructedIf at h
  obtain ⟨b, len, body, k', g3, g4, hd, hc', hlen, hcov, hrun, hex, hg'⟩ :=
    frame_inv c hm cls num ht (fun _ => asConstructed dec) d lim v c' g' h
  cases b with
  | false => simp only [Bool.false_eq_true, if_false, asConstructed] at hrun; cases hrun
  | true =>
    simp only [if_true, asConstructed, runG0_bind] at hrun
    cases hr : runG0 (dec ⟨.definite, .der, 0⟩) (St body (some len)) with
    | error e => rw [hr] at hrun; cases hrun
    | ok r =>
      obtain ⟨⟨a, c2⟩, g2⟩ := r
      rw [hr] at hrun
      simp only [runG0_pure, Except.ok.injEq, Prod.mk.injEq] at hrun
      obtain ⟨⟨ha, hk'⟩, hg3⟩ := hrun
      subst ha; subst hk'; subst hg3
      obtain ⟨ib, tail, hw, hi, hbody, hc2, hg2, hfit⟩ := hin ⟨.definite, .der, 0⟩ body (some len) a c2 g2 rfl hr
      subst hc2; subst hg2
      have hle := hfit len rfl
      simp only [Content.exhausted, Cons.exhausted, Option.map, run_limitedExhausted] at hex
      split at hex
      · rename_i h0
        have hil : ib.length = len := by omega
        simp only [Except.ok.injEq, Prod.mk.injEq, true_and] at hex
        subst hil
        refine ⟨hdrOctets cls true num ib.length ++ ib, tail, write_cons_eq cls num ht _ hi ib hw hlen,
          by simp only [C06.IntsOK]; exact hi, ?_, hc', ?_, ?_⟩
        · rw [List.append_assoc, ← hbody]; exact hd
        · rw [hg', ← hex, List.length_append]
        · intro l hl'; rw [List.length_append]; exact hcov l hl'
      · cases hex

/-- `take_constructed_if(tag, dec)` against `Constructed::new(tag, enc)` (sequence, set, explicit tag) -/
theorem canon_cons {β : Type} (cls num : Nat) (ht : TagOK cls num) (dec : Cons → Prog (β × Cons))
    (enc : β → Enc) (hin : Canon dec enc) :
    Canon (fun c => takeConstructedIf c (C12.tagOf cls num) dec) (fun v => .cons (C12.tagOf cls num) (enc v)) := by
  intro c d lim v c' g' hm h
  exact canon_cons_some cls num ht dec enc hin c hm d lim v c' g' (mandatory_some _ _ _ _ _ h)

/-- `take_opt_constructed_if(tag, dec)` against `Option<Constructed…>` -/
theorem canon_optCons {β : Type} (cls num : Nat) (ht : TagOK cls num) (dec : Cons → Prog (β × Cons))
    (enc : β → Enc) (hin : Canon dec enc) :
    Canon (fun c => takeOptConstructedIf c (C12.tagOf cls num) dec)
      (optEnc fun v => .cons (C12.tagOf cls num) (enc v)) := by
  intro c d lim v c' g' hm h
  cases v with
  | none => exact canon_absent cls num ht _ c d lim c' g' h
  | some v => exact canon_cons_some cls num ht dec enc hin c hm d lim v c' g' h

/-- nothing to read, nothing written -/
theorem canon_nil (k : SeqKind) : Canon (fun c => (pure ((), c) : Prog (Unit × Cons))) (fun _ => .seq k []) := by
  intro c d lim v c' g' hm h
  simp only [runG0_pure, Except.ok.injEq, Prod.mk.injEq] at h
  obtain ⟨⟨_, hc⟩, hg⟩ := h
  exact ⟨[], d, rfl, rfl, rfl, hc.symm, by rw [← hg]; exact St_map_zero d lim, fun l _ => Nat.zero_le _⟩

/-- fields read one after the other against items written one after the other -/
theorem canon_seq {β γ : Type} (k : SeqKind) (d1 : Cons → Prog (β × Cons)) (d2 : Cons → Prog (γ × Cons))
    (e1 : β → Enc) (es : γ → List Enc) (h1 : Canon d1 e1) (h2 : Canon d2 (fun b => .seq k (es b))) :
    Canon (fun c => do let (a, c1) ← d1 c; let (b, c2) ← d2 c1; pure ((a, b), c2))
      (fun p => .seq k (e1 p.1 :: es p.2)) := by
  intro c d lim v c' g' hm h
  simp only [runG0_bind] at h
  cases hr1 : runG0 (d1 c) (St d lim) with
  | error e => rw [hr1] at h; cases h
  | ok r1 =>
    obtain ⟨⟨a, c1⟩, g1⟩ := r1
    rw [hr1] at h
    simp only at h
    obtain ⟨b1, t1, hw1, hi1, hd1, hc1, hg1, hf1⟩ := h1 c d lim a c1 g1 hm hr1
    subst hc1; subst hg1
    cases hr2 : runG0 (d2 c1) (St t1 (lim.map (· - b1.length))) with
    | error e => rw [hr2] at h; cases h
    | ok r2 =>
      obtain ⟨⟨b, c2⟩, g2⟩ := r2
      rw [hr2] at h
      simp only [runG0_pure, Except.ok.injEq, Prod.mk.injEq] at h
      obtain ⟨⟨hv, hc'⟩, hg'⟩ := h
      subst hv; subst hc'; subst hg'
      obtain ⟨b2, tail, hw2, hi2, hd2, hc2, hg2, hf2⟩ := h2 c1 t1 _ b c2 g2 hm hr2
      simp only [Enc.write] at hw2
      simp only [C06.IntsOK] at hi2
      refine ⟨b1 ++ b2, tail, ?_, ?_, ?_, hc2, ?_, ?_⟩
      · simp only [Enc.write, Enc.writeList, hw1, hw2]; rfl
      · simp only [C06.IntsOK, C06.IntsOKList, hi1, hi2, Bool.and_self]
      · rw [hd1, hd2, List.append_assoc]
      · rw [hg2, List.length_append]
        cases lim <;> simp [Nat.sub_sub]
      · intro l hl'
        subst hl'
        have a1 := hf1 l rfl
        have a2 := hf2 (l - b1.length) rfl
        rw [List.length_append]; omega

/-- post-processing of the decoded value, when the encoder of the result writes the same -/
theorem canon_map {β γ : Type} (dec : Cons → Prog (β × Cons)) (enc : β → Enc) (f : β → γ) (enc' : γ → Enc)
    (hf : ∀ a, enc' (f a) = enc a) (h : Canon dec enc) :
    Canon (fun c => do let (a, c1) ← dec c; pure (f a, c1)) enc' := by
  intro c d lim v c' g' hm hr
  simp only [runG0_bind] at hr
  cases hr1 : runG0 (dec c) (St d lim) with
  | error e => rw [hr1] at hr; cases hr
  | ok r1 =>
    obtain ⟨⟨a, c1⟩, g1⟩ := r1
    rw [hr1] at hr
    simp only [runG0_pure, Except.ok.injEq, Prod.mk.injEq] at hr
    obtain ⟨⟨hv, hc'⟩, hg'⟩ := hr
    subst hv; subst hc'; subst hg'
    rw [hf]
    exact h c d lim a c1 g1 hm hr1

/-- `Choice2` / `Choice3`: the alternative that was decoded -/
theorem canon_choice {β : Type} (n i : Nat) (dec : Cons → Prog (β × Cons)) (enc : β → Enc) (h : Canon dec enc) :
    Canon dec (fun v => .choice n i (enc v)) := by
  intro c d lim v c' g' hm hr
  obtain ⟨bytes, tail, h1, h2, h3⟩ := h c d lim v c' g' hm hr
  exact ⟨bytes, tail, by simpa only [Enc.write] using h1, by simpa only [C06.IntsOK] using h2, h3⟩

/-- the values a decoder can return in DER mode -/
def Returns {β : Type} (dec : Cons → Prog (β × Cons)) (v : β) : Prop :=
  ∃ (c : Cons) (d : Bytes) (lim : Option Nat) (c' : Cons) (g' : G0), c.mode = .der ∧
    runG0 (dec c) (St d lim) = .ok ((v, c'), g')

/-- an encoder that writes the same octets for every value the decoder can return (e.g.
    `OctetStringEncoder` for `Primitive<&[u8]>`: C05b) -/
theorem canon_congr {β : Type} (dec : Cons → Prog (β × Cons)) (enc enc' : β → Enc)
    (hw : ∀ v, Returns dec v → (enc' v).write .der = (enc v).write .der ∧ C06.IntsOK (enc' v) = true)
    (h : Canon dec enc) : Canon dec enc' := by
  intro c d lim v c' g' hm hr
  obtain ⟨bytes, tail, h1, _, h3⟩ := h c d lim v c' g' hm hr
  obtain ⟨w1, w2⟩ := hw v ⟨c, d, lim, c', g', hm, hr⟩
  exact ⟨bytes, tail, by rw [w1]; exact h1, w2, h3⟩

/-! ### the algebra, bundled -/

/-- pairs of a decoder built from the crate's reading combinators and the encoder (as a function of
    the decoded value) built from the matching encoding combinators — `C04.Codec` read the other way -/
inductive DerCodec : {β : Type} → (Cons → Prog (β × Cons)) → (β → Enc) → Prop
  /-- `take_primitive_if(tag, |prim| p)` / `v.encode_as(tag)` -/
  | prim {α : Type} (cls num : Nat) (ht : TagOK cls num) (p : Prog α) (hp : W p) (pcOf : α → PC)
      (hl : LeafCanon p pcOf) :
      DerCodec (fun c => takePrimitiveIf c (C12.tagOf cls num) (fun md => do let a ← p; pure (a, md)))
        (fun v => .prim (C12.tagOf cls num) (pcOf v))
  /-- `take_opt_primitive_if` / `Option<…>` -/
  | optPrim {α : Type} (cls num : Nat) (ht : TagOK cls num) (p : Prog α) (hp : W p) (pcOf : α → PC)
      (hl : LeafCanon p pcOf) :
      DerCodec (fun c => takeOptPrimitiveIf c (C12.tagOf cls num) (fun md => do let a ← p; pure (a, md)))
        (optEnc fun v => .prim (C12.tagOf cls num) (pcOf v))
  /-- primitive values whose decoder takes the `Content` (`BitString::from_content`, …) -/
  | value {α : Type} (cls num : Nat) (ht : TagOK cls num) (op : Content → Prog (α × Content))
      (hop : PrimOnly op) (pcOf : α → PC) (hl : LeafCanonC op pcOf) :
      DerCodec (fun c => takeValueIf c (C12.tagOf cls num) op) (fun v => .prim (C12.tagOf cls num) (pcOf v))
  | optValue {α : Type} (cls num : Nat) (ht : TagOK cls num) (op : Content → Prog (α × Content))
      (hop : PrimOnly op) (pcOf : α → PC) (hl : LeafCanonC op pcOf) :
      DerCodec (fun c => takeOptValueIf c (C12.tagOf cls num) op)
        (optEnc fun v => .prim (C12.tagOf cls num) (pcOf v))
  /-- `take_constructed_if(tag, dec)` / `sequence`, `set`, `explicit`, `Constructed::new(tag, enc)` -/
  | cons {β : Type} (cls num : Nat) (ht : TagOK cls num) (dec : Cons → Prog (β × Cons)) (enc : β → Enc)
      (hin : DerCodec dec enc) :
      DerCodec (fun c => takeConstructedIf c (C12.tagOf cls num) dec) (fun v => .cons (C12.tagOf cls num) (enc v))
  | optCons {β : Type} (cls num : Nat) (ht : TagOK cls num) (dec : Cons → Prog (β × Cons)) (enc : β → Enc)
      (hin : DerCodec dec enc) :
      DerCodec (fun c => takeOptConstructedIf c (C12.tagOf cls num) dec)
        (optEnc fun v => .cons (C12.tagOf cls num) (enc v))
  /-- the empty tuple -/
  | seqNil (k : SeqKind) : DerCodec (fun c => (pure ((), c) : Prog (Unit × Cons))) (fun _ => .seq k [])
  /-- tuples, `Vec`, slices: items in order -/
  | seqCons {β γ : Type} (k : SeqKind) (d1 : Cons → Prog (β × Cons)) (d2 : Cons → Prog (γ × Cons))
      (e1 : β → Enc) (es : γ → List Enc) (h1 : DerCodec d1 e1) (h2 : DerCodec d2 (fun b => .seq k (es b))) :
      DerCodec (fun c => do let (a, c1) ← d1 c; let (b, c2) ← d2 c1; pure ((a, b), c2))
        (fun p => .seq k (e1 p.1 :: es p.2))
  /-- `Choice2` / `Choice3` -/
  | choice {β : Type} (n i : Nat) (dec : Cons → Prog (β × Cons)) (enc : β → Enc) (h : DerCodec dec enc) :
      DerCodec dec (fun v => .choice n i (enc v))
  /-- post-processing of the decoded value -/
  | map {β γ : Type} (dec : Cons → Prog (β × Cons)) (enc : β → Enc) (f : β → γ) (enc' : γ → Enc)
      (hf : ∀ a, enc' (f a) = enc a) (h : DerCodec dec enc) :
      DerCodec (fun c => do let (a, c1) ← dec c; pure (f a, c1)) enc'
  /-- any other pair shown canonical (the untagged readers, captured values: C05b) -/
  | sem {β : Type} (dec : Cons → Prog (β × Cons)) (enc : β → Enc) (h : Canon dec enc) : DerCodec dec enc
  /-- another encoder for the same octets -/
  | congr {β : Type} (dec : Cons → Prog (β × Cons)) (enc enc' : β → Enc)
      (hw : ∀ v, Returns dec v → (enc' v).write .der = (enc v).write .der ∧ C06.IntsOK (enc' v) = true)
      (h : DerCodec dec enc) : DerCodec dec enc'

/-- **C05, `der_canonical`: decode, then encode, for every composition.**  Whenever a decoder built
    from the crate's combinators over the supported leaf types accepts in DER mode — in any context
    (top level, inside a definite parent with any limit), with anything following — the octets it
    consumed are exactly what the matching encoder writes in DER mode for the decoded value. -/
theorem der_canonical {β : Type} (dec : Cons → Prog (β × Cons)) (enc : β → Enc) (h : DerCodec dec enc) :
    Canon dec enc := by
  induction h with
  | prim cls num ht p hp pcOf hl => exact canon_prim cls num ht p hp pcOf hl
  | optPrim cls num ht p hp pcOf hl => exact canon_optPrim cls num ht p hp pcOf hl
  | value cls num ht op hop pcOf hl => exact canon_value cls num ht op hop pcOf hl
  | optValue cls num ht op hop pcOf hl => exact canon_optValue cls num ht op hop pcOf hl
  | cons cls num ht dec enc _ ih => exact canon_cons cls num ht dec enc ih
  | optCons cls num ht dec enc _ ih => exact canon_optCons cls num ht dec enc ih
  | seqNil k => exact canon_nil k
  | seqCons k d1 d2 e1 es _ _ ih1 ih2 => exact canon_seq k d1 d2 e1 es ih1 ih2
  | choice n i dec enc _ ih => exact canon_choice n i dec enc ih
  | map dec enc f enc' hf _ ih => exact canon_map dec enc f enc' hf ih
  | congr dec enc enc' hw _ ih => exact canon_congr dec enc enc' hw ih
  | sem dec enc h => exact h

/-- **C05 at top level**: if `Mode::Der.decode(source, dec)` succeeds on `d` with `v`, then `d` begins
    with exactly the DER encoding of `v`, and the source is left right behind it -/
theorem top_canonical {β : Type} (dec : Cons → Prog (β × Cons)) (enc : β → Enc) (h : Canon dec enc)
    (d : Bytes) (v : β) (g' : G0) (hr : runG0 (decodeTop .der dec) (St d none) = .ok (v, g')) :
    ∃ bytes tail, (enc v).write .der = .ok bytes ∧ d = bytes ++ tail ∧ g' = St tail none := by
  simp only [decodeTop, runG0_bind] at hr
  cases hr1 : runG0 (dec ⟨.unbounded, .der, 0⟩) (St d none) with
  | error e => rw [hr1] at hr; cases hr
  | ok r1 =>
    obtain ⟨⟨a, c1⟩, g1⟩ := r1
    rw [hr1] at hr
    obtain ⟨bytes, tail, hw, _, hd, hc, hg, _⟩ := h ⟨.unbounded, .der, 0⟩ d none a c1 g1 rfl hr1
    subst hc; subst hg
    simp only [Cons.exhausted, runG0_pure, Except.ok.injEq, Prod.mk.injEq] at hr
    obtain ⟨hv, hg'⟩ := hr
    subst hv
    exact ⟨bytes, tail, hw, hd, hg'.symm⟩

/-- the same on the contract-checking layer `runG` (what the test driver executes) -/
theorem top_canonical_runG {β : Type} (dec : Cons → Prog (β × Cons)) (enc : β → Enc) (h : Canon dec enc)
    (d : Bytes) (v : β) (g' : G) (hr : runG (decodeTop .der dec) { data := d, limit := none } = .ok (v, g')) :
    ∃ bytes, (enc v).write .der = .ok bytes ∧ d = bytes ++ g'.data := by
  have h0 := sim0_ok _ _ _ _ hr
  have he : ({ data := d, limit := none } : G).erase = St d none := rfl
  rw [he] at h0
  obtain ⟨bytes, tail, hw, hd, hg⟩ := top_canonical dec enc h d v g'.erase h0
  refine ⟨bytes, hw, ?_⟩
  have : g'.data = tail := congrArg G0.data hg
  rw [this]; exact hd

/-- **two different octet strings never decode in DER mode to equal values** (typed level): two
    accepted inputs with the same decoded value begin with the same octets — the encoding of the value —
    and differ at most in what is left unread behind it -/
theorem typed_injective {β : Type} (dec : Cons → Prog (β × Cons)) (enc : β → Enc) (h : Canon dec enc)
    (a b : Bytes) (v : β) (ga gb : G0)
    (ha : runG0 (decodeTop .der dec) (St a none) = .ok (v, ga))
    (hb : runG0 (decodeTop .der dec) (St b none) = .ok (v, gb)) :
    ∃ bytes, (enc v).write .der = .ok bytes ∧ a = bytes ++ ga.data ∧ b = bytes ++ gb.data := by
  obtain ⟨b1, t1, hw1, hd1, hg1⟩ := top_canonical dec enc h a v ga ha
  obtain ⟨b2, t2, hw2, hd2, hg2⟩ := top_canonical dec enc h b v gb hb
  rw [hw1] at hw2
  cases hw2
  exact ⟨b1, hw1, by rw [hg1]; exact hd1, by rw [hg2]; exact hd2⟩

/-- … so if both inputs were read to their end, they are equal -/
theorem typed_injective_full {β : Type} (dec : Cons → Prog (β × Cons)) (enc : β → Enc) (h : Canon dec enc)
    (a b : Bytes) (v : β) (ga gb : G0)
    (ha : runG0 (decodeTop .der dec) (St a none) = .ok (v, ga)) (hea : ga.data = [])
    (hb : runG0 (decodeTop .der dec) (St b none) = .ok (v, gb)) (heb : gb.data = []) : a = b := by
  obtain ⟨bytes, _, h1, h2⟩ := typed_injective dec enc h a b v ga gb ha hb
  rw [h1, h2, hea, heb]

/-- together with C04 (`encode` then `decode` gives the value back): on accepted input, decoding the
    re-encoding gives the same value again, i.e. `encode ∘ decode` is the identity on accepted DER -/
theorem reencode_decodes {β : Type} (dec : Cons → Prog (β × Cons)) (enc : β → Enc) (h : Canon dec enc)
    (d : Bytes) (v : β) (g' : G0) (hr : runG0 (decodeTop .der dec) (St d none) = .ok (v, g')) (he : g'.data = []) :
    (enc v).write .der = .ok d := by
  obtain ⟨bytes, tail, hw, hd, hg⟩ := top_canonical dec enc h d v g' hr
  rw [hg] at he
  have : tail = [] := he
  rw [hw, hd, this, List.append_nil]

/-! ## non-vacuity -/

/-! 1. headers: non-minimal identifier and length forms are rejected by the DER readers -/
example : readIdent [0x1f, 0x05, 0xaa] = none := by decide            -- long form for a number below 31
example : readIdent [0x1f, 0x80, 0x7f] = none := by decide            -- leading zero digit
example : readIdent [0x1f, 0x81, 0x00] = some (⟨0, false, 128⟩, 3) ∧
    identOctets 0 false 128 = [0x1f, 0x81, 0x00] := by decide
example : readLen false [0x81, 0x03, 0x00] = none ∧ readLen true [0x81, 0x03, 0x00] = some (some 3, 2) := by decide
example : readLen false [0x81, 0x80] = some (some 128, 2) ∧ lenOctets 128 = [0x81, 0x80] := by decide
example : readLen false [0x80, 0x00] = some (none, 1) := by decide     -- read as indefinite, rejected by the value rule

/-! 2. structure: `30 03 02 01 05` is accepted in DER and its tree re-encodes to the same octets; the
    same value with a non-minimal length (`30 81 03 …`) or in indefinite form is accepted in BER with
    equal / similar trees but rejected in DER — which is why BER decoding is not injective and DER is -/
example : parseAll .der 5 [0x30, 0x03, 0x02, 0x01, 0x05] = some [.cons ⟨0, true, 16⟩ false [.prim ⟨0, false, 2⟩ [0x05]]] := by
  rfl
example : treesBytes [.cons ⟨0, true, 16⟩ false [.prim ⟨0, false, 2⟩ [0x05]]] = [0x30, 0x03, 0x02, 0x01, 0x05] := by
  decide
example : wfTrees [.cons ⟨0, true, 16⟩ false [.prim ⟨0, false, 2⟩ [0x05]]] = true ∧
    fuelTrees [.cons ⟨0, true, 16⟩ false [.prim ⟨0, false, 2⟩ [0x05]]] ≤ 5 := by decide
set_option maxRecDepth 4000 in
example : parseAll .ber 5 [0x30, 0x81, 0x03, 0x02, 0x01, 0x05] =
      some [.cons ⟨0, true, 16⟩ false [.prim ⟨0, false, 2⟩ [0x05]]] ∧
    parseAll .der 5 [0x30, 0x81, 0x03, 0x02, 0x01, 0x05] = none := by
  constructor
  · rfl
  · decide
example : parseAll .der 5 [0x30, 0x80, 0x02, 0x01, 0x05, 0x00, 0x00] = none := by rfl
example : parseAll .der 5 [0x1f, 0x05, 0x00] = none := by rfl

/-! 3. leaves: `02 02 00 05` is structurally fine but its content is not what any encoder writes, and
    the typed accessor rejects it; `01 01 01` likewise in DER -/
example : parseAll .der 5 [0x02, 0x02, 0x00, 0x05] = some [.prim ⟨0, false, 2⟩ [0x00, 0x05]] := by rfl
example : C14.primRun (toInt .u8) [0x00, 0x05] [] = .error .content := by rfl
example : C14.primRun (toInt .u8) [0x05] [0xaa] = .ok (5, St [0xaa] (some 0)) ∧ (PC.int .u8 5).write = [0x05] := by
  constructor <;> rfl
example : C14.primRun (toBool .der) [0x01] [] = .error .content := by rfl
example : C14.primRun (toBool .der) [0xff] [] = .ok (true, St [] (some 0)) ∧ (PC.bool true).write = [0xff] := by
  constructor <;> rfl

/-! 4. a composition: SEQUENCE { INTEGER (i16), BOOLEAN, [0] EXPLICIT NULL OPTIONAL } (the sample of C04) -/

/-- the encoder matching `C04.sampleDec`, as a function of the decoded value -/
def sampleEnc : (Int × Bool × Option (Unit × Unit) × Unit) → Enc :=
  fun v => .cons (C12.tagOf 0 16)
    ((fun (p : Int × Bool × Option (Unit × Unit) × Unit) => Enc.seq .tuple
      ((fun i => Enc.prim (C12.tagOf 0 2) (.int .i16 i)) p.1 ::
        (fun (p : Bool × Option (Unit × Unit) × Unit) =>
          (fun b => Enc.prim (C12.tagOf 0 1) (.bool b)) p.1 ::
            (fun (p : Option (Unit × Unit) × Unit) =>
              (optEnc fun (v : Unit × Unit) => Enc.cons (C12.tagOf 2 0)
                ((fun (p : Unit × Unit) => Enc.seq .tuple
                  ((fun _ => Enc.prim (C12.tagOf 0 5) .null) p.1 :: (fun _ => []) p.2)) v)) p.1 ::
                (fun _ => []) p.2) p.2) p.2)) v)

example : sampleEnc (300, true, some ((), ()), ()) = C04.sample := rfl
example : sampleEnc (-5, false, none, ()) =
    .cons (C12.tagOf 0 16) (.seq .tuple [.prim (C12.tagOf 0 2) (.int .i16 (-5)), .prim (C12.tagOf 0 1) (.bool false),
      .optNone]) := rfl

theorem sample_derCodec : DerCodec (C04.sampleDec .der) sampleEnc := by
  have t1 : TagOK 0 16 := ⟨by omega, by omega, by omega⟩
  have t2 : TagOK 0 2 := ⟨by omega, by omega, by omega⟩
  have t3 : TagOK 0 1 := ⟨by omega, by omega, by omega⟩
  have t4 : TagOK 2 0 := ⟨by omega, by omega, by omega⟩
  have t5 : TagOK 0 5 := ⟨by omega, by omega, by omega⟩
  have c5 := DerCodec.seqCons .tuple _ _ _ (fun _ => [])
    (DerCodec.prim 0 5 t5 toNull w_toNull (fun _ => .null) leaf_null_canonical) (DerCodec.seqNil .tuple)
  have c4 := DerCodec.optCons 2 0 t4 _ _ c5
  have c3 := DerCodec.seqCons .tuple _ _ _ (fun _ => []) c4 (DerCodec.seqNil .tuple)
  have c2 := DerCodec.seqCons .tuple _ _ _ _
    (DerCodec.prim 0 1 t3 (toBool .der) (w_toBool .der) (fun b => .bool b) leaf_bool_canonical) c3
  have c1 := DerCodec.seqCons .tuple _ _ _ _
    (DerCodec.prim 0 2 t2 (toInt .i16) (w_toInt .i16) (fun i => .int .i16 i) (leaf_int_canonical .i16)) c2
  exact DerCodec.cons 0 16 t1 _ _ c1

/-- whatever the sample decoder accepts in DER mode is the DER encoding of what it returned -/
theorem sample_canonical (d : Bytes) (v : Int × Bool × Option (Unit × Unit) × Unit) (g' : G0)
    (h : runG0 (decodeTop .der (C04.sampleDec .der)) (St d none) = .ok (v, g')) :
    ∃ bytes tail, (sampleEnc v).write .der = .ok bytes ∧ d = bytes ++ tail ∧ g' = St tail none :=
  top_canonical _ _ (der_canonical _ _ sample_derCodec) d v g' h

/-- the hypothesis is satisfiable: the sample octets are accepted (C04) … -/
example : runG0 (decodeTop .der (C04.sampleDec .der))
    (St [0x30, 0x0b, 0x02, 0x02, 0x01, 0x2c, 0x01, 0x01, 0xff, 0xa0, 0x02, 0x05, 0x00] none) =
    .ok ((300, true, some ((), ()), ()), St [] none) :=
  C04.sample_roundtrip .der _ rfl
/-- … and re-encoding the decoded value gives them back -/
example : (sampleEnc (300, true, some ((), ()), ())).write .der =
    .ok [0x30, 0x0b, 0x02, 0x02, 0x01, 0x2c, 0x01, 0x01, 0xff, 0xa0, 0x02, 0x05, 0x00] := by rfl

end Bcder.Props.C05
