/-
  C05 — DER decoding is canonical: re-encoding an accepted value reproduces the input.
  (work in progress header; replaced at the end)
-/
import Bcder.Props.C04
import Bcder.Lemmas.Window
namespace Bcder.Props.C05
open Bcder Bcder.Spec Prog Bcder.Props.C02 Bcder.Props.C09 Bcder.Props.C04

/-! ## 1. header canonicity -/

theorem lead_eq (b : UInt8) :
    b.toNat = b.toNat / 64 * 64 + (if (b.toNat / 32 % 2 == 1) = true then 32 else 0) + b.toNat % 32 := by
  by_cases h : b.toNat / 32 % 2 = 1
  · simp [h]; omega
  · simp [h]; omega

/-- **1(a).** The reference identifier reader accepts only the minimal identifier octets of the
    identifier it returns: the octets consumed are `identOctets` of class, form and number read. -/
theorem readIdent_canonical (bs : Bytes) (id : Ident) (k : Nat) (h : readIdent bs = some (id, k)) :
    bs.take k = identOctets id.cls id.constructed id.num := by
  cases bs with
  | nil => simp [readIdent] at h
  | cons b rest =>
    have hb := byte_lt_256 b
    have hl := lead_eq b
    simp only [readIdent] at h
    split at h
    · rename_i h0
      simp at h0
      simp at h; obtain ⟨h1, h2⟩ := h; subst h1; subst h2
      have h30 : b.toNat % 32 ≤ 30 := by omega
      simp only [identOctets, h30, if_true, List.take_succ_cons, List.take_zero]
      congr 1
      exact byte_of_toNat b _ hl
    · rename_i h0
      simp at h0
      have hlead : b = UInt8.ofNat (b.toNat / 64 * 64 + (if (b.toNat / 32 % 2 == 1) = true then 32 else 0) + 31) :=
        byte_of_toNat b _ (by omega)
      match rest, h with
      | [], h => simp at h
      | d1 :: r1, h =>
        have hd1 := byte_lt_256 d1
        simp only at h
        split at h
        · split at h
          · simp at h; obtain ⟨h1, h2⟩ := h; subst h1; subst h2
            have h30 : ¬ d1.toNat ≤ 30 := by omega
            simp only [identOctets, h30, if_false, List.take_succ_cons, List.take_zero]
            rw [C12.base128_1 _ (by omega), ← hlead, ofNat_toNat]
          · simp at h
        · split at h
          · simp at h
          · rename_i hge hne
            simp at hne
            match r1, h with
            | [], h => simp at h
            | d2 :: r2, h =>
              have hd2 := byte_lt_256 d2
              simp only at h
              split at h
              · simp at h; obtain ⟨h1, h2⟩ := h; subst h1; subst h2
                have h30 : ¬ d1.toNat % 128 * 128 + d2.toNat ≤ 30 := by omega
                simp only [identOctets, h30, if_false, List.take_succ_cons, List.take_zero]
                rw [C12.base128_2 _ (by omega) (by omega), ← hlead]
                have e1 : (d1.toNat % 128 * 128 + d2.toNat) / 128 + 128 = d1.toNat := by omega
                have e2 : (d1.toNat % 128 * 128 + d2.toNat) % 128 = d2.toNat := by omega
                rw [e1, e2, ofNat_toNat, ofNat_toNat]
              · match r2, h with
                | [], h => simp at h
                | d3 :: r3, h =>
                  have hd3 := byte_lt_256 d3
                  simp only at h
                  split at h
                  · simp at h; obtain ⟨h1, h2⟩ := h; subst h1; subst h2
                    have h30 : ¬ (d1.toNat % 128 * 128 + d2.toNat % 128) * 128 + d3.toNat ≤ 30 := by omega
                    simp only [identOctets, h30, if_false, List.take_succ_cons, List.take_zero]
                    rw [C12.base128_3 _ (by omega) (by omega), ← hlead]
                    have e1 : ((d1.toNat % 128 * 128 + d2.toNat % 128) * 128 + d3.toNat) / 16384 + 128 = d1.toNat := by
                      omega
                    have e2 : ((d1.toNat % 128 * 128 + d2.toNat % 128) * 128 + d3.toNat) / 128 % 128 + 128 = d2.toNat := by
                      omega
                    have e3 : ((d1.toNat % 128 * 128 + d2.toNat % 128) * 128 + d3.toNat) % 128 = d3.toNat := by omega
                    rw [e1, e2, e3, ofNat_toNat, ofNat_toNat, ofNat_toNat]
                  · simp at h

/-- **1(b).** In DER (and CER) the reference length reader accepts a definite length only in its
    shortest form: the octets consumed are `lenOctets` of the length read. -/
theorem readLen_canonical (bs : Bytes) (n k : Nat) (h : readLen false bs = some (some n, k)) :
    bs.take k = lenOctets n := by
  cases bs with
  | nil => simp [readLen] at h
  | cons b rest =>
    simp only [readLen] at h
    split at h
    · rename_i h0
      simp at h; obtain ⟨h1, h2⟩ := h; subst h1; subst h2
      rw [C13.lenOctets_1 _ h0, ofNat_toNat]; rfl
    · split at h
      · simp at h
      · split at h
        · simp at h
        · split at h
          · simp at h
          · simp only [Bool.false_eq_true, if_false] at h
            split at h
            · rename_i hmin
              simp at h; obtain ⟨h1, h2⟩ := h; subst h1; subst h2
              rw [hmin, Nat.add_comm, List.take_succ_cons]
            · simp at h

/-- the indefinite form is the single octet 0x80 (it is read as such by the length reader in every mode and
    rejected afterwards by the DER rule of the value grammar, see `der_no_indefinite`) -/
theorem readLen_indefinite (ber : Bool) (bs : Bytes) (k : Nat) (h : readLen ber bs = some (none, k)) :
    k = 1 ∧ bs.take 1 = [0x80] := by
  cases bs with
  | nil => simp [readLen] at h
  | cons b rest =>
    simp only [readLen] at h
    split at h
    · simp at h
    · split at h
      · rename_i h1
        simp at h
        refine ⟨h.symm, ?_⟩
        simp only [List.take_succ_cons, List.take_zero]
        rw [byte_of_toNat b 128 h1]; rfl
      · split at h
        · simp at h
        · split at h
          · simp at h
          · split at h
            · simp at h
            · split at h <;> simp at h

/-- the header of a value accepted in DER mode consists of exactly the canonical octets -/
theorem header_canonical (bs : Bytes) (id : Ident) (k n kl : Nat) (h1 : readIdent bs = some (id, k))
    (h2 : readLen false (bs.drop k) = some (some n, kl)) :
    bs = hdrOctets id.cls id.constructed id.num n ++ bs.drop (k + kl) := by
  have e1 := readIdent_canonical bs id k h1
  have e2 := readLen_canonical _ n kl h2
  unfold hdrOctets
  rw [← e1, ← e2, ← List.drop_drop, List.append_assoc, List.take_append_drop, List.take_append_drop]

/-! ## 2. structure canonicity on the grammar -/

mutual
/-- the canonical (DER) octets of a tree: minimal identifier octets, minimal definite length, content -/
def treeBytes : Tree → Bytes
  | .prim id c => hdrOctets id.cls id.constructed id.num c.length ++ c
  | .cons id _ kids => hdrOctets id.cls id.constructed id.num (treesBytes kids).length ++ treesBytes kids
/-- the canonical octets of a sequence of trees -/
def treesBytes : List Tree → Bytes
  | [] => []
  | t :: ts => treeBytes t ++ treesBytes ts
end

theorem treesBytes_nil : treesBytes [] = [] := by rw [treesBytes]
theorem treesBytes_cons (t : Tree) (ts : List Tree) : treesBytes (t :: ts) = treeBytes t ++ treesBytes ts := by
  rw [treesBytes]
theorem treeBytes_prim (id : Ident) (c : Bytes) :
    treeBytes (.prim id c) = hdrOctets id.cls id.constructed id.num c.length ++ c := by rw [treeBytes]
theorem treeBytes_cons (id : Ident) (b : Bool) (kids : List Tree) :
    treeBytes (.cons id b kids) =
      hdrOctets id.cls id.constructed id.num (treesBytes kids).length ++ treesBytes kids := by rw [treeBytes]

/-- in DER the indefinite form is never accepted (so `parseUntilEoc` is never reached) -/
theorem der_no_indefinite (f : Nat) (bs : Bytes) (id : Ident) (k kl : Nat)
    (h1 : readIdent bs = some (id, k)) (h2 : readLen false (bs.drop k) = some (none, kl)) :
    parseValue .der (f + 1) bs = none := by
  simp only [parseValue, h1, M.isBer, h2]
  split <;> simp

/-- **2. DER parsing is canonical** (both levels, by induction on the fuel): whatever the grammar
    accepts in DER mode is the canonical encoding of the tree(s) it returns. -/
theorem der_parse_canonical : ∀ f : Nat,
    (∀ bs t rest, parseValue .der f bs = some (t, rest) → bs = treeBytes t ++ rest) ∧
    (∀ bs ts, parseAll .der f bs = some ts → bs = treesBytes ts) := by
  intro f
  induction f with
  | zero => exact ⟨fun bs t rest h => by simp [parseValue] at h, fun bs ts h => by simp [parseAll] at h⟩
  | succ f ih =>
    obtain ⟨ihV, ihA⟩ := ih
    constructor
    · intro bs t rest h
      simp only [parseValue] at h
      cases hr : readIdent bs with
      | none => simp [hr] at h
      | some r =>
        obtain ⟨id, k⟩ := r
        simp only [hr] at h
        split at h
        · simp at h
        · cases hl : readLen M.der.isBer (bs.drop k) with
          | none => simp [hl] at h
          | some r2 =>
            obtain ⟨len?, kl⟩ := r2
            simp only [hl] at h
            cases len? with
            | none =>
              simp only at h
              split at h
              · simp at h
              · rename_i hx; simp at hx
            | some n =>
              have hhdr := header_canonical bs id k n kl hr hl
              simp only at h
              split at h
              · simp at h
              · rename_i hn
                have hlen : (List.take n (List.drop (k + kl) bs)).length = n := by
                  rw [List.length_take]; omega
                split at h
                · simp only [Option.some.injEq, Prod.mk.injEq] at h
                  obtain ⟨ht, hrest⟩ := h
                  subst ht; subst hrest
                  rw [treeBytes_prim, hlen, List.append_assoc, List.take_append_drop]
                  exact hhdr
                · split at h
                  · simp at h
                  · cases hp : parseAll .der f (List.take n (List.drop (k + kl) bs)) with
                    | none => simp [hp] at h
                    | some kids =>
                      simp only [hp, Option.some.injEq, Prod.mk.injEq] at h
                      obtain ⟨ht, hrest⟩ := h
                      subst ht; subst hrest
                      have hk := ihA _ _ hp
                      rw [treeBytes_cons, ← hk, hlen, List.append_assoc, List.take_append_drop]
                      exact hhdr
    · intro bs ts h
      simp only [parseAll] at h
      split at h
      · rename_i he
        simp at h; subst h
        rw [treesBytes_nil]
        simpa using he
      · cases hv : parseValue .der f bs with
        | none => simp [hv] at h
        | some r =>
          obtain ⟨t, rest⟩ := r
          simp only [hv] at h
          cases hq : parseAll .der f rest with
          | none => simp [hq] at h
          | some ts' =>
            simp only [hq, Option.map, Option.some.injEq] at h
            subst h
            rw [treesBytes_cons, ← ihA _ _ hq]
            exact ihV _ _ _ hv

/-- a single value: the octets of the value are the canonical octets of its tree -/
theorem parseValue_canonical (f : Nat) (bs : Bytes) (t : Tree) (rest : Bytes)
    (h : parseValue .der f bs = some (t, rest)) : bs = treeBytes t ++ rest :=
  (der_parse_canonical f).1 bs t rest h

/-- a sequence of values filling the input: the input is the canonical encoding of the trees -/
theorem parseAll_canonical (f : Nat) (bs : Bytes) (ts : List Tree)
    (h : parseAll .der f bs = some ts) : bs = treesBytes ts :=
  (der_parse_canonical f).2 bs ts h

/-- **two different octet strings never decode in DER mode to equal values** (trees: tags, nesting,
    primitive contents), whatever fuel either parse used -/
theorem der_injective (f f' : Nat) (a b : Bytes) (ts : List Tree)
    (ha : parseAll .der f a = some ts) (hb : parseAll .der f' b = some ts) : a = b := by
  rw [parseAll_canonical f a ts ha, parseAll_canonical f' b ts hb]

/-- the same for one value at the front of two inputs: the octets consumed are the same -/
theorem der_value_injective (f f' : Nat) (a b : Bytes) (t : Tree) (ra rb : Bytes)
    (ha : parseValue .der f a = some (t, ra)) (hb : parseValue .der f' b = some (t, rb)) :
    ∃ v, a = v ++ ra ∧ b = v ++ rb :=
  ⟨treeBytes t, parseValue_canonical f a t ra ha, parseValue_canonical f' b t rb hb⟩

/-- through C02: whatever the generic reader (the model of `Mode::Der.decode` over
    `Constructed::take_opt_value`) accepts is the canonical encoding of what it returned -/
theorem decode_der_canonical (f : Nat) (d : Bytes) (ts : List Tree) (g' : G0)
    (h : runG0 (decodeAll .der f) (St d none) = .ok (ts, g')) : d = treesBytes ts ∧ g' = St [] none := by
  obtain ⟨hg, hp⟩ := accepts_consumes .der f d ts g' h
  exact ⟨parseAll_canonical f d ts hp, hg⟩

/-- … hence the reader is injective on accepted inputs -/
theorem decode_der_injective (f f' : Nat) (a b : Bytes) (ts : List Tree) (ga gb : G0)
    (ha : runG0 (decodeAll .der f) (St a none) = .ok (ts, ga))
    (hb : runG0 (decodeAll .der f') (St b none) = .ok (ts, gb)) : a = b := by
  rw [(decode_der_canonical f a ts ga ha).1, (decode_der_canonical f' b ts gb hb).1]

/-- the same on the contract-checking layer `runG` -/
theorem decode_der_canonical_runG (f : Nat) (d : Bytes) (ts : List Tree) (g' : G)
    (h : runG (decodeAll .der f) { data := d, limit := none } = .ok (ts, g')) : d = treesBytes ts :=
  parseAll_canonical f d ts (accepts_runG .der f d ts g' h).1

/-! ## 4. typed framing in DER: the inverse of `C04.frame_definite` -/

theorem St_view_len (d : Bytes) (l : Nat) : (St d (some l)).view.length = min l d.length := by
  simp [G0.view, List.length_take]

/-- one window operation on a limited source without capture: data and limit move together -/
theorem step_window0 (d : Bytes) (l : Nat) (o : Op) (ho : o.isWindow) (r : Resp) (g' : G0)
    (h : stepG0 (St d (some l)) o = .ok (r, g')) :
    ∃ j, j ≤ l ∧ j ≤ d.length ∧ g' = St (d.drop j) (some (l - j)) := by
  have hvl := St_view_len d l
  have stay : g' = St d (some l) → ∃ j, j ≤ l ∧ j ≤ d.length ∧ g' = St (d.drop j) (some (l - j)) :=
    fun e => ⟨0, Nat.zero_le _, Nat.zero_le _, by simpa using e⟩
  have move : ∀ n, n ≤ (St d (some l)).view.length →
      (St d (some l)).advance n = .ok (St (d.drop n) (some (l - n))) := fun n hn =>
    G0.advance_eq (St d (some l)) rfl n hn
  cases o with
  | takeOptU8 =>
    simp only [stepG0] at h
    split at h
    · simp at h; exact stay h.2.symm
    · rename_i b t hv
      have h1 : 1 ≤ (St d (some l)).view.length := by rw [hv]; simp
      rw [move 1 h1] at h
      simp only [Except.ok.injEq, Prod.mk.injEq] at h
      exact ⟨1, by omega, by omega, h.2.symm⟩
  | peekAt i => simp [stepG0] at h; exact stay h.2.symm
  | peek2 => simp [stepG0] at h; exact stay h.2.symm
  | need n => simp [stepG0] at h; exact stay h.2.symm
  | takeN n =>
    simp only [stepG0] at h
    split at h
    · simp at h
    · rename_i hn
      rw [move n (by omega)] at h
      simp at h
      exact ⟨n, by omega, by omega, h.2.symm⟩
  | skipN n =>
    simp only [stepG0] at h
    split at h
    · simp at h
    · rename_i hn
      rw [move n (by omega)] at h
      simp at h
      exact ⟨n, by omega, by omega, h.2.symm⟩
  | sliceN n =>
    simp only [stepG0] at h
    split at h
    · simp at h
    · simp at h; exact stay h.2.symm
  | getLimit => simp [stepG0] at h; exact stay h.2.symm
  | setLimit l' => exact absurd ho (by simp [Op.isWindow])
  | reqCapped n => simp [stepG0] at h; exact stay h.2.symm
  | capBegin => exact absurd ho (by simp [Op.isWindow])
  | capEnd => exact absurd ho (by simp [Op.isWindow])

theorem run_window0 (p : Prog α) (hp : W p) : ∀ (d : Bytes) (l : Nat) (a : α) (g' : G0),
    runG0 p (St d (some l)) = .ok (a, g') →
    ∃ j, j ≤ l ∧ j ≤ d.length ∧ g' = St (d.drop j) (some (l - j)) := by
  induction hp with
  | ret a => intro d l a' g' h; simp [runG0] at h; exact ⟨0, Nat.zero_le _, Nat.zero_le _, by simpa using h.2.symm⟩
  | fail e => intro d l a g' h; simp [runG0] at h
  | op o k ho _ ih =>
    intro d l a g' h
    simp only [runG0] at h
    cases hs : stepG0 (St d (some l)) o with
    | error e => simp [hs] at h
    | ok rg =>
      obtain ⟨r, g1⟩ := rg
      simp only [hs] at h
      obtain ⟨j1, h1, h2, rfl⟩ := step_window0 d l o ho r g1 hs
      obtain ⟨j2, h3, h4, rfl⟩ := ih r _ _ a g' h
      simp only [List.length_drop] at h4
      exact ⟨j1 + j2, by omega, by omega, by rw [List.drop_drop]; congr 2; omega⟩

/-- a definite length read in DER mode fits the four length octets the library supports -/
theorem readLen_lt (ber : Bool) (bs : Bytes) (n k : Nat) (h : readLen ber bs = some (some n, k)) : n < 2 ^ 32 := by
  cases bs with
  | nil => simp [readLen] at h
  | cons b rest =>
    have hb := byte_lt_256 b
    simp only [readLen] at h
    split at h
    · simp at h; omega
    · split at h
      · simp at h
      · split at h
        · simp at h
        · rename_i hk
          split at h
          · simp at h
          · have hlt := C14.beValue_lt (rest.take (b.toNat - 128))
            have hle : (rest.take (b.toNat - 128)).length ≤ 4 := by rw [List.length_take]; omega
            have hp : 256 ^ (rest.take (b.toNat - 128)).length ≤ 256 ^ 4 := Nat.pow_le_pow_right (by decide) hle
            have hv : ∀ v kk, (some (some (beValue (rest.take (b.toNat - 128))), 1 + (b.toNat - 128)) : Option (Option Nat × Nat))
                = some (some v, kk) → v < 2 ^ 32 := by
              intro v kk e; simp at e; omega
            split at h
            · exact hv _ _ h
            · split at h
              · exact hv _ _ h
              · simp at h

theorem take_take_le (d : Bytes) (j l : Nat) (h : j ≤ l) : (d.take l).take j = d.take j := by
  rw [List.take_take, Nat.min_eq_left h]

/-- the octets of a header accepted in DER mode, as a prefix -/
theorem header_take (bs : Bytes) (id : Ident) (k n kl : Nat) (h1 : readIdent bs = some (id, k))
    (h2 : readLen false (bs.drop k) = some (some n, kl)) :
    bs.take (k + kl) = hdrOctets id.cls id.constructed id.num n ∧ k + kl ≤ bs.length := by
  have e1 := readIdent_canonical bs id k h1
  have e2 := readLen_canonical _ n kl h2
  have hk := readIdent_le bs id k h1
  have hkl := (readLen_bound _ _ _ _ h2).2
  simp only [List.length_drop] at hkl
  refine ⟨?_, by omega⟩
  unfold hdrOctets
  rw [← e1, ← e2, List.take_add]

/-- **4, general form.**  If a tag-selective read in DER mode returns a value, then the source began
    with the CANONICAL header of that tag (either form `b`) announcing some length `len`, all of it
    inside the limit, and the closure was run on the `len`-octet window behind the header. -/
theorem frame_inv {α : Type} (c : Cons) (hm : c.mode = .der) (cls num : Nat) (ht : TagOK cls num)
    (op : Tag → Content → Prog (α × Content)) (d : Bytes) (lim : Option Nat) (res : α) (c' : Cons) (g' : G0)
    (h : runG0 (processNextValue c (some (C12.tagOf cls num)) op) (St d lim) = .ok ((some res, c'), g')) :
    ∃ (b : Bool) (len : Nat) (body : Bytes) (k' : Content) (g3 g4 : G0),
      d = hdrOctets cls b num len ++ body ∧ c' = c ∧ len < 2 ^ 32 ∧
      (∀ l, lim = some l → (hdrOctets cls b num len).length + len ≤ l) ∧
      runG0 (op (C12.tagOf cls num) (if b = true then .cons ⟨.definite, .der⟩ else .prim .der))
        (St body (some len)) = .ok ((res, k'), g3) ∧
      runG0 k'.exhausted g3 = .ok ((), g4) ∧
      g' = { g4 with limit := lim.map (· - ((hdrOctets cls b num len).length + len)) } := by
  rw [pnvE_eq c cls num ht.hc ht.hn op _ rfl] at h
  unfold pnvE at h
  split at h
  · simp at h
  split at h
  · cases h
  split at h
  · simp at h
  split at h
  · simp at h
  cases hr : readIdent (St d lim).view with
  | none => rw [hr] at h; cases h
  | some r =>
    obtain ⟨id, k⟩ := r
    rw [hr] at h
    simp only at h
    split at h
    · rename_i hid
      obtain ⟨hcls, hnum⟩ := hid
      have hk := readIdent_le _ id k hr
      have hv1 : ((St d lim).adv k).view = (St d lim).view.drop k := G0.adv_view _ k hk
      rw [hv1, hm] at h
      cases hl : readLen Mode.der.isBer ((St d lim).view.drop k) with
      | none => rw [hl] at h; cases h
      | some r2 =>
        obtain ⟨len?, kl⟩ := r2
        rw [hl] at h
        simp only at h
        have heoc : isEocIdent id = false := by
          simp only [isEocIdent, Bool.and_eq_false_iff, beq_eq_false_iff_ne, ne_eq]
          by_cases h0 : id.cls = 0
          · right; intro h1; exact ht.hne ⟨hcls ▸ h0, hnum ▸ h1⟩
          · left; exact h0
        unfold bodyF at h
        simp only [heoc, Bool.false_eq_true, if_false] at h
        cases len? with
        | none =>
          simp only [hm] at h
          split at h
          · cases h
          · rename_i hx; simp at hx
        | some len =>
          obtain ⟨htake, hsum⟩ := header_take _ id k len kl hr hl
          have hlen32 := readLen_lt _ _ _ _ hl
          simp only [hm] at h
          rw [G0.adv_adv] at h
          have hdata : ((St d lim).adv (k + kl)).data = d.drop (k + kl) := rfl
          have hlimit : ((St d lim).adv (k + kl)).limit = lim.map (· - (k + kl)) := rfl
          rw [hdata, hlimit] at h
          have hover : ∀ l, lim = some l → ¬ len > l - (k + kl) := by
            intro l hl' hgt
            subst hl'
            simp only [Option.map, hgt, decide_true, if_true] at h
            cases h
          have hnover : (if (match lim.map (· - (k + kl)) with | some l => decide (len > l) | none => false) = true
              then (Except.error Err.content : Res ((Option α × Cons) × G0)) else Except.error Err.content) =
              Except.error Err.content := by split <;> rfl
          replace h : (if (id.constructed && Mode.der == Mode.cer) = true then Except.error Err.content
            else
              match
                runG0
                  (op (C12.tagOf id.cls id.num)
                    (if id.constructed = true then Content.cons { state := CState.definite, mode := Mode.der }
                    else Content.prim Mode.der))
                  (St (List.drop (k + kl) d) (some len)) with
              | Except.error e => Except.error e
              | Except.ok ((res, content'), g3) =>
                match runG0 content'.exhausted g3 with
                | Except.error e => Except.error e
                | Except.ok (_, g4) =>
                  Except.ok
                    ((some res, c),
                      ({ g4 with limit := Option.map (fun x => x - len) (Option.map (fun x => x - (k + kl)) lim) } : G0))) =
              Except.ok ((some res, c'), g') := by
            cases lim with
            | none => simpa only [Option.map, Bool.false_eq_true, if_false] using h
            | some l =>
              have := hover l rfl
              simpa only [Option.map, this, decide_false, Bool.false_eq_true, if_false] using h
          have hcer : (id.constructed && Mode.der == Mode.cer) = false := by cases id.constructed <;> rfl
          simp only [hcer, Bool.false_eq_true, if_false] at h
          -- relate data and view
          have hdtake : d.take (k + kl) = hdrOctets cls id.constructed num len := by
            rw [← hcls, ← hnum, ← htake]
            cases hlim : lim with
            | none => rfl
            | some l =>
              have : k + kl ≤ l := by
                have := view_le_limit (St d (some l)) l rfl
                rw [hlim] at hsum; omega
              simp only [G0.view]
              rw [take_take_le _ _ _ this]
          have hdlen : k + kl ≤ d.length := Nat.le_trans hsum (G0.view_length_le _)
          have hhl : (hdrOctets cls id.constructed num len).length = k + kl := by
            rw [← hdtake, List.length_take]; omega
          cases hrun : runG0 (op (C12.tagOf id.cls id.num)
              (if id.constructed = true then Content.cons ⟨.definite, .der⟩ else Content.prim .der))
              (St (d.drop (k + kl)) (some len)) with
          | error e => rw [hrun] at h; cases h
          | ok r3 =>
            obtain ⟨⟨res', k'⟩, g3⟩ := r3
            rw [hrun] at h
            simp only at h
            cases hex : runG0 k'.exhausted g3 with
            | error e => rw [hex] at h; cases h
            | ok r4 =>
              obtain ⟨u, g4⟩ := r4
              rw [hex] at h
              simp only [Except.ok.injEq, Prod.mk.injEq, Option.some.injEq] at h
              obtain ⟨⟨hres, hc'⟩, hg'⟩ := h
              subst hres
              rw [hcls, hnum] at hrun
              refine ⟨id.constructed, len, d.drop (k + kl), k', g3, g4, ?_, hc'.symm, hlen32, ?_, hrun, hex, ?_⟩
              · rw [← hdtake, List.take_append_drop]
              · intro l hl'
                subst hl'
                have : k + kl ≤ l := by
                  have := view_le_limit (St d (some l)) l rfl
                  omega
                have := hover l rfl
                omega
              · rw [← hg', hhl]
                cases lim <;> simp [Nat.sub_sub]
    · simp at h

end Bcder.Props.C05
