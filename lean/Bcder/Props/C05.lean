/-
  C05 — DER decoding is canonical: re-encoding an accepted value reproduces the input.
  (work in progress header; replaced at the end)
-/
import Bcder.Props.C04
namespace Bcder.Props.C05
open Bcder Bcder.Spec Prog Bcder.Props.C02 Bcder.Props.C09 Bcder.Props.C04

/-! ## 1. header canonicity -/

theorem lead_eq (b : UInt8) :
    b.toNat = b.toNat / 64 * 64 + (if (b.toNat / 32 % 2 == 1) = true then 32 else 0) + b.toNat % 32 := by
  by_cases h : b.toNat / 32 % 2 = 1
  · simp [h]; omega
  · simp [h]; omega

/-- **1(a).** The reference identifier reader accepts only the minimal identifier octets of the
    identifier it returns: the octets consumed are `identOctets` of class, form and number read. -/
theorem readIdent_canonical (bs : Bytes) (id : Ident) (k : Nat) (h : readIdent bs = some (id, k)) :
    bs.take k = identOctets id.cls id.constructed id.num := by
  cases bs with
  | nil => simp [readIdent] at h
  | cons b rest =>
    have hb := byte_lt_256 b
    have hl := lead_eq b
    simp only [readIdent] at h
    split at h
    · rename_i h0
      simp at h0
      simp at h; obtain ⟨h1, h2⟩ := h; subst h1; subst h2
      have h30 : b.toNat % 32 ≤ 30 := by omega
      simp only [identOctets, h30, if_true, List.take_succ_cons, List.take_zero]
      congr 1
      exact byte_of_toNat b _ hl
    · rename_i h0
      simp at h0
      have hlead : b = UInt8.ofNat (b.toNat / 64 * 64 + (if (b.toNat / 32 % 2 == 1) = true then 32 else 0) + 31) :=
        byte_of_toNat b _ (by omega)
      match rest, h with
      | [], h => simp at h
      | d1 :: r1, h =>
        have hd1 := byte_lt_256 d1
        simp only at h
        split at h
        · split at h
          · simp at h; obtain ⟨h1, h2⟩ := h; subst h1; subst h2
            have h30 : ¬ d1.toNat ≤ 30 := by omega
            simp only [identOctets, h30, if_false, List.take_succ_cons, List.take_zero]
            rw [C12.base128_1 _ (by omega), ← hlead, ofNat_toNat]
          · simp at h
        · split at h
          · simp at h
          · rename_i hge hne
            simp at hne
            match r1, h with
            | [], h => simp at h
            | d2 :: r2, h =>
              have hd2 := byte_lt_256 d2
              simp only at h
              split at h
              · simp at h; obtain ⟨h1, h2⟩ := h; subst h1; subst h2
                have h30 : ¬ d1.toNat % 128 * 128 + d2.toNat ≤ 30 := by omega
                simp only [identOctets, h30, if_false, List.take_succ_cons, List.take_zero]
                rw [C12.base128_2 _ (by omega) (by omega), ← hlead]
                have e1 : (d1.toNat % 128 * 128 + d2.toNat) / 128 + 128 = d1.toNat := by omega
                have e2 : (d1.toNat % 128 * 128 + d2.toNat) % 128 = d2.toNat := by omega
                rw [e1, e2, ofNat_toNat, ofNat_toNat]
              · match r2, h with
                | [], h => simp at h
                | d3 :: r3, h =>
                  have hd3 := byte_lt_256 d3
                  simp only at h
                  split at h
                  · simp at h; obtain ⟨h1, h2⟩ := h; subst h1; subst h2
                    have h30 : ¬ (d1.toNat % 128 * 128 + d2.toNat % 128) * 128 + d3.toNat ≤ 30 := by omega
                    simp only [identOctets, h30, if_false, List.take_succ_cons, List.take_zero]
                    rw [C12.base128_3 _ (by omega) (by omega), ← hlead]
                    have e1 : ((d1.toNat % 128 * 128 + d2.toNat % 128) * 128 + d3.toNat) / 16384 + 128 = d1.toNat := by
                      omega
                    have e2 : ((d1.toNat % 128 * 128 + d2.toNat % 128) * 128 + d3.toNat) / 128 % 128 + 128 = d2.toNat := by
                      omega
                    have e3 : ((d1.toNat % 128 * 128 + d2.toNat % 128) * 128 + d3.toNat) % 128 = d3.toNat := by omega
                    rw [e1, e2, e3, ofNat_toNat, ofNat_toNat, ofNat_toNat]
                  · simp at h

end Bcder.Props.C05
